import KpModel.Basic
import KpModel.Db.Tree
import KpModel.Db.TreeLemmas
import KpModel.Db.History
import KpModel.Io
