import KpModel.Basic
import KpModel.Db.Tree
import KpModel.Db.TreeLemmas
