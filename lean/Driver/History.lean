import Driver.Json
import KpModel.Db.History
namespace Kp.Driver
open Lean Kp.Hist

partial def parseEntry (j : Json) : R Entry := do
  let h ← match fldOpt j "h" with
    | none => pure none
    | some v => do pure (some (← (← v.getArr?).toList.mapM parseEntry))
  pure (Entry.mk (← fldNat j "c") (← optInt ((j.getObjVal? "m").toOption.getD Json.null)) (← fldNat j "o") h)

partial def entryJson (e : Entry) : Json :=
  Json.mkObj [("c", jNat e.content), ("m", jOptInt e.mtime), ("o", jNat e.otimes),
    ("h", match e.history with
          | none => Json.null
          | some l => jList (l.map entryJson))]

def parseOp (j : Json) : R Op := do
  let a ← j.getArr?
  let tag ← a[0]!.getStr?
  match tag with
  | "setContent" => pure (.setContent (← a[1]!.getNat?))
  | "setOtimes" => pure (.setOtimes (← a[1]!.getNat?))
  | "setMtime" => pure (.setMtime (← optInt a[1]!))
  | "commit" => pure (.commit (← a[1]!.getInt?))
  | "initHistory" => pure .initHistory
  | "addExternal" => pure (.addExternal (← parseEntry a[1]!))
  | _ => throw "bad history op"

partial def entryEq (a b : Entry) : Bool :=
  a.content == b.content && a.mtime == b.mtime && a.otimes == b.otimes &&
  (match a.history, b.history with
   | none, none => true
   | some x, some y => x.length == y.length && (x.zip y).all (fun p => entryEq p.1 p.2)
   | _, _ => false)

def listEq (x y : List Entry) : Bool := x.length == y.length && (x.zip y).all (fun p => entryEq p.1 p.2)

/-- C17's clauses evaluated directly on the *real* trace (states before/after each operation). -/
def specStep (prev : Entry) (op : Op) (ret : Option Bool) (next : Entry) : List String :=
  let hp := histList prev
  let hn := histList next
  let suffixOk := hp.length ≤ hn.length && listEq (hn.drop (hn.length - hp.length)) hp
  let nestOk := !(hp.all (fun i => i.history.isNone)) || hn.all (fun i => i.history.isNone)
  let base := (if suffixOk then [] else ["history-suffix"]) ++ (if nestOk then [] else ["no-nesting"])
  match op with
  | .commit now =>
    let differs := match prev.history with
      | none => true
      | some [] => true
      | some (h0 :: _) => h0.content != prev.content
    match ret with
    | none => base ++ ["commit-returns-bool"]
    | some r =>
      base ++ (if r == differs then [] else ["commit-adds-iff"]) ++
      (if r then
        (if listEq hn (Entry.mk prev.content (some now) prev.otimes none :: hp) then [] else ["commit-head"]) ++
        (if next.mtime == some now then [] else ["commit-mtime-now"]) ++
        (if next.content == prev.content && next.otimes == prev.otimes then [] else ["commit-keeps-entry"])
       else
        (if next.content == prev.content && next.mtime == prev.mtime && next.otimes == prev.otimes
            && listEq hn hp then [] else ["commit-noop"]))
  | _ => base

def opHistory (j : Json) : R Json := do
  let e0 ← parseEntry (← fld j "init")
  let ops ← (← fldArr j "ops").toList.mapM parseOp
  -- model trace
  let (_, trace) := ops.foldl (fun (acc : Entry × List Json) op =>
      let r := step acc.1 op
      (r.1, acc.2 ++ [Json.mkObj [("ret", match r.2 with | none => Json.null | some b => Json.bool b),
                                   ("state", entryJson r.1)]])) (e0, [])
  -- spec on the real trace
  let real ← fldArr (← fld j "real") "trace"
  let mut prev := e0
  let mut fails : List Json := []
  let mut i := 0
  for (op, rj) in ops.zip real.toList do
    let next ← parseEntry (← fld rj "state")
    let ret := match rj.getObjVal? "ret" with
      | .ok (.bool b) => some b
      | _ => none
    for c in specStep prev op ret next do
      fails := fails ++ [jList [Json.str s!"history:{c}", Json.str s!"op #{i}: clause {c} fails on the real trace"]]
    prev := next
    i := i + 1
  pure (Json.mkObj [("model", Json.mkObj [("trace", jList trace)]), ("specfail", jList fails)])

end Kp.Driver
