import Driver.Json
import KpModel.Totp
import KpModel.Crypto.Sha
namespace Kp.Driver
open Lean Kp.Totp

def execHmacs : Hmacs := ⟨Kp.Crypto.hmacSha1, Kp.Crypto.hmacSha256, Kp.Crypto.hmacSha512⟩

def algName : Alg → String | .sha1 => "SHA1" | .sha256 => "SHA256" | .sha512 => "SHA512"
def errName : ParseErr → String
  | .scheme => "scheme" | .int => "int" | .algorithm => "algorithm"
  | .missingSecret => "missing-secret" | .base32 => "base32"

def opTotp (j : Json) : R Json := do
  let scheme ← fldStr j "scheme"
  let path ← fldStr j "path"
  let pairs ← (← fldArr j "pairs").toList.mapM fun p => do
    let a ← p.getArr?
    pure ((← a[0]!.getStr?).toList, (← a[1]!.getStr?).toList)
  let times ← natArr (← fld j "times")
  let real ← fld j "real"
  let mut fails : List Json := []
  let fail := fun (k d : String) => jList [Json.str k, Json.str d]
  match fromParts scheme.toList path.toList pairs with
  | .error e =>
    -- specification on the real result: malformed URIs give an error, never a panic, never a value
    let rp ← fldStr real "parse"
    if !(rp.startsWith "err") then
      fails := fails ++ [fail s!"totp:malformed-uri-accepted:{errName e}" s!"model rejects ({errName e}) but real returned {rp}"]
    pure (Json.mkObj [("model", Json.mkObj [("parse", Json.str s!"err:{errName e}")]), ("specfail", jList fails)])
  | .ok t =>
    let vals := times.map fun tm =>
      match valueAt execHmacs t.alg t.secret t.period t.digits tm with
      | (.code c, v) => jList [Json.str (String.ofList c), jNat v]
      | (.panic w, _) => Json.str (if w = ['d','i','v'] then "panic:divide-by-zero" else "panic:pow-overflow")
    -- spec clauses evaluated on the real values
    match real.getObjVal? "values" with
    | .ok (.arr rv) =>
      for (tm, v) in times.zip rv.toList do
        match v with
        | .arr a =>
          let code := (a[0]!.getStr?).toOption.getD ""
          let vf := (a[1]!.getNat?).toOption.getD 0
          if t.digits ≥ 1 && code.length != t.digits then
            fails := fails ++ [fail "totp:code-length" s!"time {tm}: code {code} does not have {t.digits} digits"]
          if !(code.toList.all Char.isDigit) then
            fails := fails ++ [fail "totp:code-not-decimal" s!"time {tm}: {code}"]
          if !(1 ≤ vf && vf ≤ t.period) then
            fails := fails ++ [fail "totp:validity-out-of-range" s!"time {tm}: valid_for {vf}, period {t.period}"]
        | .str s =>
          let cls := if t.period == 0 then "period-zero" else if t.digits ≥ 20 then "digits>=20" else "other"
          fails := fails ++ [fail s!"totp:value_at-panics:{cls}" s!"time {tm}: {s}"]
        | _ => pure ()
    | _ => pure ()
    let m := Json.mkObj [("parse", Json.str "ok"), ("label", Json.str (String.ofList t.label)), ("issuer", jOptStr (t.issuer.map String.ofList)),
      ("period", jNat t.period), ("digits", jNat t.digits), ("algorithm", Json.str (algName t.alg)),
      ("secret_b32", Json.str (String.ofList (getSecret t))), ("values", jList vals)]
    pure (Json.mkObj [("model", m), ("specfail", jList fails)])

/-- RFC 6238 appendix B and FIPS/RFC hash vectors — a *test* of the executable primitives -/
def opSelfTest (_ : Json) : R Json := do
  let s := fun (x : String) => x.toUTF8.data.toList
  let seed20 := s "12345678901234567890"
  let seed32 := s "12345678901234567890123456789012"
  let seed64 := s "1234567890123456789012345678901234567890123456789012345678901234"
  let v := fun alg seed t => match valueAt execHmacs alg seed 30 8 t with
    | (.code c, _) => String.ofList c | _ => "panic"
  let got := [v .sha1 seed20 59, v .sha256 seed32 59, v .sha512 seed64 59,
              v .sha1 seed20 1111111109, v .sha256 seed32 1111111109, v .sha512 seed64 1111111109,
              v .sha1 seed20 20000000000, v .sha256 seed32 20000000000, v .sha512 seed64 20000000000,
              bytesToHex (Kp.Crypto.sha256 (s "abc")), bytesToHex (Kp.Crypto.sha1 (s "abc")),
              String.ofList (b32Encode (s "foobar")), String.ofList (b32Encode (s "fooba")), String.ofList (b32Encode (s "f"))]
  let want := ["94287082", "46119246", "90693936", "07081804", "68084774", "25091201",
               "65353130", "77737706", "47863826",
               "ba7816bf8f01cfea414140de5dae2223b00361a396177a9cb410ff61f20015ad",
               "a9993e364706816aba3e25717850c26c9cd0d89d", "MZXW6YTBOI======", "MZXW6YTB", "MY======"]
  pure (Json.mkObj [("model", Json.mkObj [("vectors", jList (got.map Json.str))]),
                    ("spec", Json.mkObj [("vectors", jList (want.map Json.str))])])

end Kp.Driver
