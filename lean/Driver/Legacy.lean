import Driver.Kdbx4
import KpModel.Format.Legacy
namespace Kp.Driver
open Lean Kp.Fmt

def sniffName (file : Bytes) : String :=
  match Kp.Io.parseVersion file with
  | some (.kdbx4 _) => "kdbx4" | some (.kdbx3 _) => "kdbx3" | some (.kdb _) => "kdb" | some (.kdb2 _) => "kdb2"
  | none => "none"

def opKdbx3Read (j : Json) : R Json := do
  let file ← fldHex j "file"
  let comp ← optHex ((j.getObjVal? "composite").toOption.getD Json.null)
  let table ← (← fldArr j "oracle").toList.mapM parseOEntry
  let P := tablePrims table
  let m := match decrypt3 P file comp with
    | .ok d => Json.mkObj [("decrypt", Json.str "ok"),
        ("xml_sha256", Json.str (bytesToHex (Kp.Crypto.sha256 d.xml))),
        ("config", Json.mkObj [("version", Json.str s!"KDBX3.{d.minor}"), ("outer", Json.str (cipherName d.outer)),
          ("compression", Json.str (if d.compression then "GZip" else "None")), ("inner", Json.str (innerName d.inner)),
          ("kdf", kdfJson (.aes d.rounds))]),
        ("inner_key", Json.str (bytesToHex d.innerKey))]
    | .err c => Json.mkObj [("decrypt", Json.str s!"err:{errClassName c}")]
    | .panic s => Json.mkObj [("decrypt", Json.str s!"panic:{s}")]
  pure (Json.mkObj [("model", m), ("sniff", Json.str (sniffName file))])

def kvalJson : KVal → Json
  | .text b => Json.mkObj [("text", Json.str (bytesToHex b))]
  | .secret b => Json.mkObj [("secret", Json.str (bytesToHex b))]
  | .raw b => Json.mkObj [("raw", Json.str (bytesToHex b))]

def insertSorted (x : String × Json) : List (String × Json) → List (String × Json)
  | [] => [x]
  | y :: ys => if x.1 < y.1 then x :: y :: ys else y :: insertSorted x ys

partial def knodeJson : KNode → Json
  | .group n cs => Json.mkObj [("g", jList [Json.str (bytesToHex n), jList (cs.map knodeJson)])]
  | .entry fs =>
    let sorted := fs.foldl (fun acc (k, v) => insertSorted (k, kvalJson v) acc) []
    Json.mkObj [("e", jList (sorted.map fun (k, v) => jList [Json.str k, v]))]

def validUtf8 (b : Bytes) : Bool := (ByteArray.mk b.toArray).validateUTF8

partial def knodeUtf8 : KNode → Bool
  | .group n cs => validUtf8 n && cs.all knodeUtf8
  | .entry fs => fs.all fun (_, v) => match v with | .text b => validUtf8 b | .secret b => validUtf8 b | .raw _ => true

def opKdbRead (j : Json) : R Json := do
  let file ← fldHex j "file"
  let cj := (j.getObjVal? "composite").toOption.getD Json.null
  let comp : Option (Option Bytes) ← match cj with
    | .null => pure none
    | .str "short" => pure (some none)
    | .str s => do pure (some (some (← hexToBytes s)))
    | _ => throw "composite"
  let table ← (← fldArr j "oracle").toList.mapM parseOEntry
  let P := tablePrims table
  let m := match parseKdb P file comp with
    | .ok d => Json.mkObj [("parse", Json.str "ok"), ("tree", jList (d.root.map knodeJson)),
        ("utf8", Json.bool (d.root.all knodeUtf8)),
        ("config", Json.mkObj [("version", Json.str s!"KDB({d.minor})"), ("outer", Json.str (cipherName d.outer)),
          ("compression", Json.str "None"), ("inner", Json.str "Plain"), ("kdf", kdfJson (.aes d.rounds))])]
    | .err c => Json.mkObj [("parse", Json.str s!"err:{errClassName c}")]
    | .panic s => Json.mkObj [("parse", Json.str s!"panic:{s}")]
  pure (Json.mkObj [("model", m), ("sniff", Json.str (sniffName file))])

end Kp.Driver
