import Driver.Json
import KpModel.Format.Kdbx4
import KpModel.Crypto.Sha
namespace Kp.Driver
open Lean Kp.Fmt

inductive OEntry where
  | aeskdf (seed : Bytes) (rounds : Nat) (comp out : Bytes)
  | argon2 (id : Bool) (version memory iterations parallelism : Nat) (salt comp : Bytes) (out : Option Bytes)
  | decO (c : String) (key iv ct : Bytes) (pt : Option Bytes)
  | encO (c : String) (key iv pt : Bytes) (ct : Option Bytes)
  | gunzip (inp : Bytes) (out : Option Bytes)
  | gzip (inp out : Bytes)

def optHex (j : Json) : R (Option Bytes) :=
  match j with
  | .null => pure none
  | .str s => do pure (some (← hexToBytes s))
  | _ => throw "expected hex or null"

def parseOEntry (j : Json) : R OEntry := do
  let a ← j.getArr?
  let tag ← a[0]!.getStr?
  let hx := fun (i : Nat) => do hexToBytes (← a[i]!.getStr?)
  match tag with
  | "aeskdf" => pure (.aeskdf (← hx 1) (← a[2]!.getNat?) (← hx 3) (← hx 4))
  | "argon2" => pure (.argon2 (← a[1]!.getBool?) (← a[2]!.getNat?) (← a[3]!.getNat?) (← a[4]!.getNat?) (← a[5]!.getNat?)
      (← hx 6) (← hx 7) (← optHex a[8]!))
  | "decO" => pure (.decO (← a[1]!.getStr?) (← hx 2) (← hx 3) (← hx 4) (← optHex a[5]!))
  | "encO" => pure (.encO (← a[1]!.getStr?) (← hx 2) (← hx 3) (← hx 4) (← optHex a[5]!))
  | "gunzip" => pure (.gunzip (← hx 1) (← optHex a[2]!))
  | "gzip" => pure (.gzip (← hx 1) (← hx 2))
  | _ => throw s!"bad oracle entry {tag}"

def cipherName : OuterCipher → String
  | .aes256 => "AES256" | .twofish => "Twofish" | .chacha20 => "ChaCha20"
def innerName : InnerCipher → String
  | .plain => "Plain" | .salsa20 => "Salsa20" | .chacha20 => "ChaCha20"

/-- primitives backed by the case's oracle table; SHA-2 and HMAC run natively.
    A query that is not in the table answers `none` / `[]` (it shows up as a disagreement). -/
def tablePrims (t : List OEntry) : Prims where
  sha256 := Kp.Crypto.sha256
  sha512 := Kp.Crypto.sha512
  hmac256 := Kp.Crypto.hmacSha256
  aesKdf := fun seed rounds comp =>
    (t.findSome? fun e => match e with
      | .aeskdf s r c o => if s == seed && r == rounds && c == comp then some o else none
      | _ => none).getD []
  argon2 := fun id version memory iterations parallelism salt comp =>
    (t.findSome? fun e => match e with
      | .argon2 i v m it p s c o =>
        if i == id && v == version && m == memory && it == iterations && p == parallelism && s == salt && c == comp
        then some o else none
      | _ => none).getD none
  encO := fun c key iv pt =>
    (t.findSome? fun e => match e with
      | .encO n k i p o => if n == cipherName c && k == key && i == iv && p == pt then some o else none
      | _ => none).getD none
  decO := fun c key iv ct =>
    (t.findSome? fun e => match e with
      | .decO n k i x o => if n == cipherName c && k == key && i == iv && x == ct then some o else none
      | _ => none).getD none
  gzip := fun inp =>
    (t.findSome? fun e => match e with
      | .gzip i o => if i == inp then some o else none
      | _ => none).getD []
  gunzip := fun inp =>
    (t.findSome? fun e => match e with
      | .gunzip i o => if i == inp then some o else none
      | _ => none).getD none

def errClassName : ErrClass → String
  | .key => "key" | .integrity => "integrity" | .io => "io" | .unsupported => "unsupported"

def kdfJson : KdfConfig → Json
  | .aes r => Json.mkObj [("aes", jNat r)]
  | .argon2 id it mem par ver =>
    Json.mkObj [(if id then "argon2id" else "argon2d", jList [jNat it, jNat mem, jNat par, jNat ver])]

def configJson (c : Config) : Json :=
  Json.mkObj [("version", Json.str s!"KDBX4.{c.minor}"), ("outer", Json.str (cipherName c.outer)),
    ("compression", Json.str (if c.compression then "GZip" else "None")), ("inner", Json.str (innerName c.inner)),
    ("kdf", kdfJson c.kdf)]

def opKdbx4Read (j : Json) : R Json := do
  let file ← fldHex j "file"
  let comp ← optHex ((j.getObjVal? "composite").toOption.getD Json.null)
  let table ← (← fldArr j "oracle").toList.mapM parseOEntry
  let P := tablePrims table
  let m := match decrypt P file comp with
    | .ok d => Json.mkObj [("decrypt", Json.str "ok"),
        ("xml_sha256", Json.str (bytesToHex (Kp.Crypto.sha256 d.xml))),
        ("config", configJson d.config),
        ("attachments", jList (d.attachments.map fun a => jList [jNat a.1.toNat, Json.str (bytesToHex a.2)])),
        ("inner_key", Json.str (bytesToHex d.innerKey))]
    | .err c => Json.mkObj [("decrypt", Json.str s!"err:{errClassName c}")]
    | .panic s => Json.mkObj [("decrypt", Json.str s!"panic:{s}")]
  let sniff := match Kp.Io.parseVersion file with
    | some (.kdbx4 _) => "kdbx4" | some (.kdbx3 _) => "kdbx3" | some (.kdb _) => "kdb" | some (.kdb2 _) => "kdb2"
    | none => "none"
  pure (Json.mkObj [("model", m), ("sniff", Json.str sniff)])

end Kp.Driver
