import Driver.Json
import KpModel.Io
namespace Kp.Driver
open Lean Kp.Io

def parseKind (s : String) : R ErrKind :=
  match s with
  | "other" => pure .other
  | "unexpectedEof" => pure .unexpectedEof
  | "writeZero" => pure .writeZero
  | "brokenPipe" => pure .brokenPipe
  | "invalidData" => pure .invalidData
  | "invalidInput" => pure .invalidInput
  | "timedOut" => pure .timedOut
  | _ => throw s!"bad error kind {s}"

def kindName : ErrKind → String
  | .other => "other" | .unexpectedEof => "unexpectedEof" | .writeZero => "writeZero" | .brokenPipe => "brokenPipe"
  | .invalidData => "invalidData" | .invalidInput => "invalidInput" | .timedOut => "timedOut"

def parseFail (j : Json) : R (Option Nat × ErrKind) :=
  match fldOpt j "fail" with
  | none => pure (none, .other)
  | some v => do
    let a ← v.getArr?
    pure (some (← a[0]!.getNat?), ← parseKind (← a[1]!.getStr?))

/-- run-length script `[[n, count], …]`; n = -1 interruption, -2 `Ok(0)` -/
def parseScript (j : Json) : R (List (Int × Nat)) := do
  (← j.getArr?).toList.mapM fun p => do
    let a ← p.getArr?
    pure (← a[0]!.getInt?, ← a[1]!.getNat?)

def rsteps (sc : List (Int × Nat)) : List RStep :=
  sc.flatMap fun (v, c) => List.replicate c (if v < 0 then RStep.intr else RStep.cap v.toNat)

def wsteps (sc : List (Int × Nat)) : List WStep :=
  sc.flatMap fun (v, c) => List.replicate c
    (if v == -1 then WStep.intr else if v == -2 then WStep.zero else WStep.cap v.toNat)

def versionName : Option Version → String
  | none => "ok:none"
  | some (.kdb m) => s!"ok:KDB({m})"
  | some (.kdb2 m) => s!"ok:KDB2({m})"
  | some (.kdbx3 m) => s!"ok:KDB3({m})"
  | some (.kdbx4 m) => s!"ok:KDB4({m})"

/-- std's buffer sizes are unknown to the model; the theorems hold for all of them, the driver picks one -/
def wantPolicy (i : Nat) : Nat := if i == 0 then 31 else 8191

def opIoRead (j : Json) : R Json := do
  let len ← fldNat j "len"
  let head ← fldHex j "head"
  let entry ← fldStr j "entry"
  let (uf, kind) ← parseFail j
  let script := rsteps (← parseScript (← fld j "script"))
  let data : Bytes := head ++ List.replicate (len - head.length) 0
  let s : Src := ⟨data, uf, kind, script⟩
  let mut fails : List Json := []
  let real ← fldStr (← fld j "real") "outcome"
  if entry == "get_version" then
    let m := match getVersion wantPolicy s with
      | .ok v => versionName v
      | .error k => s!"io:{kindName k}"
    -- specification on the real result: the whole-buffer answer, or the source's error
    let extra ← fld j "extra"
    let whole ← fldStr extra "whole_version"
    let failReached := match uf with | some u => u ≤ len ∧ u < 12 | none => false
    if !failReached && real != whole then
      fails := fails ++ [jList [Json.str "ioread:get_version-differs-from-whole-buffer",
        Json.str s!"get_version over this schedule returned {real}, over the whole buffer {whole}"]]
    -- … and the answer the specification gives for these bytes (C10_getVersion: a pure function of the bytes,
    -- computed here by the model, not by the library on a friendlier source)
    if !failReached && real != m then
      fails := fails ++ [jList [Json.str "ioread:get_version-differs-from-specified-answer",
        Json.str s!"get_version returned {real}, the bytes denote {m}"]]
    if failReached && !(real.startsWith "io:") then
      fails := fails ++ [jList [Json.str "ioread:get_version-swallows-io-error",
        Json.str s!"source failed inside the first 12 bytes but get_version returned {real}"]]
    -- version sniffing = the version open reports
    match fldOpt extra "open_version" with
    | some (.str ov) =>
      if whole != s!"ok:{ov}" then
        fails := fails ++ [jList [Json.str s!"ioread:version-sniff-differs-from-open:{(ov.splitOn "(").head!}",
          Json.str s!"get_version reports {whole}, open reports {ov}"]]
    | _ => pure ()
    let ovModel : Json := match fldOpt extra "open_version" with
      | some _ => Json.str ((versionName (openVersion data)).drop 3).toString
      | none => Json.null
    pure (Json.mkObj [("model", Json.mkObj [("outcome", Json.str m), ("open_version", ovModel)]),
      ("specfail", jList fails)])
  else
    let m := match openWith (fun _ => ()) wantPolicy s with
      | .ok _ => "whole"
      | .error k => s!"io:{kindName k}"
    let failReached := match uf with | some u => u ≤ len | none => false
    if !failReached && real != "whole" then
      fails := fails ++ [jList [Json.str s!"ioread:{entry}-differs-from-whole-buffer",
        Json.str s!"{entry} over this schedule returned {real}"]]
    if failReached && !(real.startsWith "io:") then
      fails := fails ++ [jList [Json.str s!"ioread:{entry}-swallows-io-error",
        Json.str s!"source failed at offset {uf.getD 0} ≤ {len} but {entry} returned {real}"]]
    pure (Json.mkObj [("model", Json.mkObj [("outcome", Json.str m)]), ("specfail", jList fails)])

def opIoWrite (j : Json) : R Json := do
  let segLens ← natArr (← fld j "segs")
  let (uf, kind) ← parseFail j
  let script := wsteps (← parseScript (← fld j "script"))
  let segs : List Bytes := segLens.map (fun n => List.replicate n 0)
  let s : Sink := ⟨[], uf, kind, script⟩
  let r := saveSegments s segs
  let res := match r.1 with
    | .ok _ => "ok"
    | .error k => s!"io:{kindName k}"
  let real ← fld j "real"
  let rres ← fldStr real "result"
  let rlen ← fldNat real "received_len"
  let checks ← fld j "checks"
  let total ← fldNat checks "total"
  let mut fails : List Json := []
  if rres == "ok" then
    if rlen != total then
      fails := fails ++ [jList [Json.str "iowrite:success-with-incomplete-file",
        Json.str s!"save returned Ok but the sink holds {rlen} of {total} bytes"]]
    else if !(← fldBool checks "opens_equal") then
      fails := fails ++ [jList [Json.str "iowrite:success-but-file-does-not-open-to-saved-content", Json.str ""]]
  else if !(rres.startsWith "io:") then
    fails := fails ++ [jList [Json.str "iowrite:error-is-not-the-sinks-error", Json.str rres]]
  if !(← fldBool checks "db_unchanged") then
    fails := fails ++ [jList [Json.str "iowrite:save-modified-database", Json.str ""]]
  pure (Json.mkObj [("model", Json.mkObj [("result", Json.str res), ("received_len", jNat r.2.received.length)]),
    ("specfail", jList fails)])

end Kp.Driver
