import Driver.Json
import Driver.Kdbx4
import KpModel.Xml.Parse
import KpModel.Xml.Dump
namespace Kp.Driver
open Lean Kp.Xml

/-! Canonical JSON of the object model, mirroring `harness/src/dump.rs`. -/

def jHex (b : Bytes) : Json := Json.str (bytesToHex b)
def jOptHex : Option Bytes → Json | none => Json.null | some b => jHex b
def jOptBool : Option Bool → Json | none => Json.null | some b => Json.bool b

def sortByKey {β : Type} (m : List (String × β)) : List (String × β) :=
  m.mergeSort (fun a b => a.1 ≤ b.1)

def valueJson : Value → Json
  | .bytes b => Json.mkObj [("b", jHex b)]
  | .unprotected s => Json.mkObj [("u", Json.str s)]
  | .prot b => Json.mkObj [("p", jHex b)]

def colorJson : Option Color → Json
  | none => Json.null
  | some c => jList [jNat c.r, jNat c.g, jNat c.b]

def timesJsonX (t : Times) : Json :=
  Json.mkObj [("expires", Json.bool t.expires), ("usage", jNat t.usageCount),
    ("times", jList ((sortByKey t.times).map fun (k, v) => jList [Json.str k, jInt v]))]

def customDataJson (c : CustomData) : Json :=
  jList ((sortByKey c).map fun (k, it) =>
    jList [Json.str k, (match it.value with | none => Json.null | some v => valueJson v), jOptInt it.lastModificationTime])

def autotypeJson : Option AutoType → Json
  | none => Json.null
  | some a => Json.mkObj [("enabled", Json.bool a.enabled), ("sequence", jOptStr a.sequence),
      ("assoc", jList (a.associations.map fun x => jList [jOptStr x.window, jOptStr x.sequence]))]

partial def entryJsonX : Entry → Json
  | .mk uuid fields autotype tags times cd iconId ciu fg bg ourl qc history =>
    Json.mkObj [("uuid", jHex uuid),
      ("fields", jList ((sortByKey fields).map fun (k, v) => jList [Json.str k, valueJson v])),
      ("autotype", autotypeJson autotype), ("tags", jList (tags.map Json.str)),
      ("custom_data", customDataJson cd), ("icon_id", jOptNat iconId), ("custom_icon_uuid", jOptHex ciu),
      ("fg", colorJson fg), ("bg", colorJson bg), ("override_url", jOptStr ourl), ("quality_check", jOptBool qc),
      ("times", timesJsonX times),
      ("history", match history with | none => Json.null | some h => jList (h.map entryJsonX))]

partial def nodeJsonX : Node → Json
  | .entry e => Json.mkObj [("entry", entryJsonX e)]
  | g => Json.mkObj [("group", groupJsonX g)]
where
  groupJsonX : Node → Json
    | .group uuid name notes iconId ciu children times cd isExp das ea es ltve =>
      Json.mkObj [("uuid", jHex uuid), ("name", Json.str name), ("notes", jOptStr notes), ("icon_id", jOptNat iconId),
        ("custom_icon_uuid", jOptHex ciu), ("custom_data", customDataJson cd), ("is_expanded", Json.bool isExp),
        ("default_autotype_sequence", jOptStr das), ("enable_autotype", jOptStr ea), ("enable_searching", jOptStr es),
        ("last_top_visible_entry", jOptHex ltve), ("times", timesJsonX times),
        ("children", jList (children.map nodeJsonX))]
    | .entry e => entryJsonX e

def metaJson (m : Meta) : Json :=
  Json.mkObj [("generator", jOptStr m.generator), ("database_name", jOptStr m.databaseName),
    ("database_name_changed", jOptInt m.databaseNameChanged), ("database_description", jOptStr m.databaseDescription),
    ("database_description_changed", jOptInt m.databaseDescriptionChanged),
    ("default_username", jOptStr m.defaultUsername), ("default_username_changed", jOptInt m.defaultUsernameChanged),
    ("maintenance_history_days", jOptNat m.maintenanceHistoryDays), ("color", colorJson m.color),
    ("master_key_changed", jOptInt m.masterKeyChanged), ("master_key_change_rec", jOptInt m.masterKeyChangeRec),
    ("master_key_change_force", jOptInt m.masterKeyChangeForce),
    ("memory_protection", match m.memoryProtection with
      | none => Json.null
      | some p => jList [Json.bool p.title, Json.bool p.username, Json.bool p.password, Json.bool p.url, Json.bool p.notes]),
    ("custom_icons", jList (m.customIcons.map fun (u, d) => jList [jHex u, jHex d])),
    ("recyclebin_enabled", jOptBool m.recyclebinEnabled), ("recyclebin_uuid", jOptHex m.recyclebinUuid),
    ("recyclebin_changed", jOptInt m.recyclebinChanged), ("entry_templates_group", jOptHex m.entryTemplatesGroup),
    ("entry_templates_group_changed", jOptInt m.entryTemplatesGroupChanged),
    ("last_selected_group", jOptHex m.lastSelectedGroup), ("last_top_visible_group", jOptHex m.lastTopVisibleGroup),
    ("history_max_items", jOptNat m.historyMaxItems), ("history_max_size", jOptNat m.historyMaxSize),
    ("settings_changed", jOptInt m.settingsChanged),
    ("binaries", jList (m.binaries.map fun b => jList [jOptStr b.identifier, Json.bool b.compressed, jHex b.content])),
    ("custom_data", customDataJson m.customData)]

def contentJson (c : Content) : Json :=
  Json.mkObj [("root", nodeJsonX.groupJsonX c.root),
    ("deleted_objects", jList (c.deletedObjects.map fun (u, t) => jList [jHex u, jInt t])),
    ("meta", metaJson c.metaData)]

/-! JSON → object model -/

/-- time stamps are whole seconds in the model; a `[seconds, nanos]` pair (outside the whole-second domain) is truncated -/
def jTime (j : Json) : R Int :=
  match j with
  | .arr a => do a[0]!.getInt?
  | v => v.getInt?
def jOptTime (j : Json) : R (Option Int) :=
  match j with
  | .null => pure none
  | v => do pure (some (← jTime v))

def gOptStr (j : Json) (k : String) : R (Option String) := optStr ((j.getObjVal? k).toOption.getD Json.null)
def gOptInt (j : Json) (k : String) : R (Option Int) := jOptTime ((j.getObjVal? k).toOption.getD Json.null)
def gOptNat (j : Json) (k : String) : R (Option Nat) :=
  match (j.getObjVal? k).toOption.getD Json.null with
  | .null => pure none
  | v => do pure (some (← v.getNat?))
def gOptHex (j : Json) (k : String) : R (Option Bytes) := optHex ((j.getObjVal? k).toOption.getD Json.null)
def gOptBool (j : Json) (k : String) : R (Option Bool) :=
  match (j.getObjVal? k).toOption.getD Json.null with
  | .null => pure none
  | v => do pure (some (← v.getBool?))

def parseValueJ (j : Json) : R Value :=
  match j.getObjVal? "u", j.getObjVal? "p", j.getObjVal? "b" with
  | .ok (.str s), _, _ => pure (.unprotected s)
  | _, .ok (.str s), _ => do pure (.prot (← hexToBytes s))
  | _, _, .ok (.str s) => do pure (.bytes (← hexToBytes s))
  | _, _, _ => throw "bad value"

def parseColorJ (j : Json) : R (Option Color) :=
  match j with
  | .null => pure none
  | v => do
    let a ← v.getArr?
    pure (some ⟨← a[0]!.getNat?, ← a[1]!.getNat?, ← a[2]!.getNat?⟩)

def parseTimesJ (j : Json) : R Times := do
  let ts ← (← fldArr j "times").toList.mapM fun p => do
    let a ← p.getArr?
    pure ((← a[0]!.getStr?), (← jTime a[1]!))
  pure ⟨← fldBool j "expires", ← fldNat j "usage", ts⟩

def parseCustomDataJ (j : Json) : R CustomData := do
  (← j.getArr?).toList.mapM fun p => do
    let a ← p.getArr?
    let v ← match a[1]! with | .null => pure none | x => do pure (some (← parseValueJ x))
    pure ((← a[0]!.getStr?), (⟨v, ← jOptTime a[2]!⟩ : CustomDataItem))

def parseAutotypeJ (j : Json) : R (Option AutoType) :=
  match j with
  | .null => pure none
  | v => do
    let assoc ← (← fldArr v "assoc").toList.mapM fun p => do
      let a ← p.getArr?
      pure (⟨← optStr a[0]!, ← optStr a[1]!⟩ : AutoTypeAssociation)
    pure (some ⟨← fldBool v "enabled", ← gOptStr v "sequence", assoc⟩)

partial def parseEntryJ (j : Json) : R Entry := do
  let fields ← (← fldArr j "fields").toList.mapM fun p => do
    let a ← p.getArr?
    pure ((← a[0]!.getStr?), (← parseValueJ a[1]!))
  let history ← match (j.getObjVal? "history").toOption.getD Json.null with
    | .null => pure none
    | v => do pure (some (← (← v.getArr?).toList.mapM parseEntryJ))
  pure (.mk (← fldHex j "uuid") fields (← parseAutotypeJ (← fld j "autotype")) (← strArr (← fld j "tags"))
    (← parseTimesJ (← fld j "times")) (← parseCustomDataJ (← fld j "custom_data")) (← gOptNat j "icon_id")
    (← gOptHex j "custom_icon_uuid") (← parseColorJ (← fld j "fg")) (← parseColorJ (← fld j "bg"))
    (← gOptStr j "override_url") (← gOptBool j "quality_check") history)

partial def parseGroupJ (j : Json) : R Node := do
  let children ← (← fldArr j "children").toList.mapM fun c => do
    match c.getObjVal? "group" with
    | .ok g => parseGroupJ g
    | .error _ => do pure (.entry (← parseEntryJ (← fld c "entry")))
  pure (.group (← fldHex j "uuid") (← fldStr j "name") (← gOptStr j "notes") (← gOptNat j "icon_id")
    (← gOptHex j "custom_icon_uuid") children (← parseTimesJ (← fld j "times")) (← parseCustomDataJ (← fld j "custom_data"))
    (← fldBool j "is_expanded") (← gOptStr j "default_autotype_sequence") (← gOptStr j "enable_autotype")
    (← gOptStr j "enable_searching") (← gOptHex j "last_top_visible_entry"))

def parseMetaJ (j : Json) : R Meta := do
  let mp ← match (j.getObjVal? "memory_protection").toOption.getD Json.null with
    | .null => pure none
    | v => do
      let a ← v.getArr?
      pure (some (⟨← a[0]!.getBool?, ← a[1]!.getBool?, ← a[2]!.getBool?, ← a[3]!.getBool?, ← a[4]!.getBool?⟩ : MemoryProtection))
  let icons ← (← fldArr j "custom_icons").toList.mapM fun p => do
    let a ← p.getArr?
    pure ((← hexToBytes (← a[0]!.getStr?)), (← hexToBytes (← a[1]!.getStr?)))
  let bins ← (← fldArr j "binaries").toList.mapM fun p => do
    let a ← p.getArr?
    pure (⟨← optStr a[0]!, ← a[1]!.getBool?, ← hexToBytes (← a[2]!.getStr?)⟩ : BinaryAttachment)
  pure { generator := ← gOptStr j "generator", databaseName := ← gOptStr j "database_name",
         databaseNameChanged := ← gOptInt j "database_name_changed",
         databaseDescription := ← gOptStr j "database_description",
         databaseDescriptionChanged := ← gOptInt j "database_description_changed",
         defaultUsername := ← gOptStr j "default_username", defaultUsernameChanged := ← gOptInt j "default_username_changed",
         maintenanceHistoryDays := ← gOptNat j "maintenance_history_days", color := ← parseColorJ (← fld j "color"),
         masterKeyChanged := ← gOptInt j "master_key_changed", masterKeyChangeRec := ← gOptInt j "master_key_change_rec",
         masterKeyChangeForce := ← gOptInt j "master_key_change_force", memoryProtection := mp, customIcons := icons,
         recyclebinEnabled := ← gOptBool j "recyclebin_enabled", recyclebinUuid := ← gOptHex j "recyclebin_uuid",
         recyclebinChanged := ← gOptInt j "recyclebin_changed", entryTemplatesGroup := ← gOptHex j "entry_templates_group",
         entryTemplatesGroupChanged := ← gOptInt j "entry_templates_group_changed",
         lastSelectedGroup := ← gOptHex j "last_selected_group", lastTopVisibleGroup := ← gOptHex j "last_top_visible_group",
         historyMaxItems := ← gOptNat j "history_max_items", historyMaxSize := ← gOptNat j "history_max_size",
         settingsChanged := ← gOptInt j "settings_changed", binaries := bins,
         customData := ← parseCustomDataJ (← fld j "custom_data") }

def parseContentJ (j : Json) : R Content := do
  let dels ← (← fldArr j "deleted_objects").toList.mapM fun p => do
    let a ← p.getArr?
    pure ((← hexToBytes (← a[0]!.getStr?)), (← jTime a[1]!))
  pure ⟨← parseMetaJ (← fld j "meta"), ← parseGroupJ (← fld j "root"), dels⟩

/-! events -/

def parseEvJ (j : Json) : R Ev := do
  match j with
  | .str "err" => pure .err
  | v =>
    let a ← v.getArr?
    let tag ← a[0]!.getStr?
    match tag with
    | "s" =>
      let attrs ← (← a[2]!.getArr?).toList.mapM fun p => do
        let q ← p.getArr?
        pure ((← q[0]!.getStr?), (← q[1]!.getStr?))
      pure (.start (← a[1]!.getStr?) attrs)
    | "e" => pure (.stop (← a[1]!.getStr?))
    | "c" => pure (.chars (← a[1]!.getStr?))
    | _ => throw "bad event"

def evJson : Ev → Json
  | .start n attrs => jList [Json.str "s", Json.str n, jList (attrs.map fun (k, v) => jList [Json.str k, Json.str v])]
  | .stop n => jList [Json.str "e", Json.str n]
  | .chars s => jList [Json.str "c", Json.str s]
  | .err => Json.str "err"

/-- UTF-8 decoding of a byte value, as `std::str::from_utf8` (strict) — approximated by round trip -/
def utf8Strict (b : Bytes) : Option String :=
  match String.fromUTF8? (ByteArray.mk b.toArray) with
  | some s => some s
  | none => none

def outcomeName {α : Type} : Kp.Fmt.Outcome α → String
  | .ok _ => "ok"
  | .err c => s!"err:{errClassName c}"
  | .panic s => s!"panic:{s}"

/-- op `xml`: parse an event stream with the model; optionally dump an object model and compare events -/
def opXml (j : Json) : R Json := do
  let ksBytes ← fldHex j "keystream"
  let ks : Nat → Nat → Bytes := fun off len => (ksBytes.drop off).take len ++ List.replicate (len - ((ksBytes.drop off).take len).length) 0
  let table ← match j.getObjVal? "oracle" with
    | .ok v => (← v.getArr?).toList.mapM parseOEntry
    | .error _ => pure []
  let P := tablePrims table
  let now := (j.getObjVal? "now").toOption.bind (·.getInt?.toOption) |>.getD 0
  let mut outs : List (String × Json) := []
  -- parsing
  match j.getObjVal? "events" with
  | .ok ev =>
    let evs ← (← ev.getArr?).toList.mapM parseEvJ
    let env : Env := ⟨ks, P.gunzip, now, List.replicate 16 0⟩
    let r := parseContent env evs
    outs := outs ++ [("parse", Json.str (outcomeName r))]
    match r with
    | .ok (c, used) => outs := outs ++ [("content", contentJson c), ("keystream_used", jNat used)]
    | _ => pure ()
  | .error _ => pure ()
  -- dumping
  match j.getObjVal? "db" with
  | .ok dbj =>
    let c ← parseContentJ dbj
    let orders ← match j.getObjVal? "orders" with
      | .ok o => (← o.getArr?).toList.mapM strArr
      | .error _ => pure []
    let denv : DEnv := ⟨ks, P.gzip⟩
    let (wevs, ok, used) := dumpContent denv utf8Strict orders c
    let evs := view wevs []
    outs := outs ++ [("dump_ok", Json.bool ok), ("dump_events", jList (evs.map evJson)), ("dump_keystream_used", jNat used)]
    -- the model's own round trip: parse what the model wrote
    let env : Env := ⟨ks, P.gunzip, now, List.replicate 16 0⟩
    let rr := parseContent env evs
    outs := outs ++ [("roundtrip", Json.str (outcomeName rr))]
    match rr with
    | .ok (c2, _) => outs := outs ++ [("roundtrip_content", contentJson c2)]
    | _ => pure ()
  | .error _ => pure ()
  pure (Json.mkObj [("model", Json.mkObj outs)])

end Kp.Driver
