import Lean.Data.Json
/-! JSON helpers for the driver (not part of the model). -/
namespace Kp.Driver
open Lean

abbrev R := Except String

def fld (j : Json) (k : String) : R Json := j.getObjVal? k
def fldNat (j : Json) (k : String) : R Nat := do (← fld j k).getNat?
def fldInt (j : Json) (k : String) : R Int := do (← fld j k).getInt?
def fldStr (j : Json) (k : String) : R String := do (← fld j k).getStr?
def fldArr (j : Json) (k : String) : R (Array Json) := do (← fld j k).getArr?
def fldBool (j : Json) (k : String) : R Bool := do (← fld j k).getBool?
def fldOpt (j : Json) (k : String) : Option Json :=
  match j.getObjVal? k with
  | .ok .null => none
  | .ok v => some v
  | .error _ => none

def optStr (j : Json) : R (Option String) :=
  match j with
  | .null => pure none
  | .str s => pure (some s)
  | _ => throw "expected string or null"

def optInt (j : Json) : R (Option Int) :=
  match j with
  | .null => pure none
  | v => do pure (some (← v.getInt?))

def natArr (j : Json) : R (List Nat) := do
  let a ← j.getArr?
  a.toList.mapM (·.getNat?)

def strArr (j : Json) : R (List String) := do
  let a ← j.getArr?
  a.toList.mapM (·.getStr?)

def jNat (n : Nat) : Json := Json.num (JsonNumber.fromNat n)
def jInt (n : Int) : Json := Json.num (JsonNumber.fromInt n)
def jNats (l : List Nat) : Json := Json.arr (l.map jNat).toArray
def jList (l : List Json) : Json := Json.arr l.toArray
def jOptNat : Option Nat → Json
  | none => Json.null
  | some n => jNat n
def jOptInt : Option Int → Json
  | none => Json.null
  | some n => jInt n
def jOptStr : Option String → Json
  | none => Json.null
  | some n => Json.str n

def hexDigit (c : Char) : Option Nat :=
  if '0' ≤ c ∧ c ≤ '9' then some (c.toNat - '0'.toNat)
  else if 'a' ≤ c ∧ c ≤ 'f' then some (c.toNat - 'a'.toNat + 10)
  else if 'A' ≤ c ∧ c ≤ 'F' then some (c.toNat - 'A'.toNat + 10)
  else none

partial def hexToBytesAux : List Char → List UInt8 → R (List UInt8)
  | [], acc => pure acc.reverse
  | a :: b :: rest, acc =>
    match hexDigit a, hexDigit b with
    | some x, some y => hexToBytesAux rest (UInt8.ofNat (x * 16 + y) :: acc)
    | _, _ => throw "bad hex"
  | _, _ => throw "odd hex"

def hexToBytes (s : String) : R (List UInt8) := hexToBytesAux s.toList []

def nibble (n : Nat) : Char := if n < 10 then Char.ofNat (48 + n) else Char.ofNat (87 + n)
def bytesToHex (b : List UInt8) : String :=
  String.ofList (b.flatMap (fun x => [nibble (x.toNat / 16), nibble (x.toNat % 16)]))

def fldHex (j : Json) (k : String) : R (List UInt8) := do hexToBytes (← fldStr j k)

end Kp.Driver
