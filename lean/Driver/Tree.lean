import Driver.Json
import KpModel.Db.Tree
namespace Kp.Driver
open Lean Kp.Tree

partial def parseNode (j : Json) : R Node := do
  match j.getObjVal? "g" with
  | .ok v =>
    let a ← v.getArr?
    if a.size != 3 then throw "group arity"
    let cs ← (← a[2]!.getArr?).toList.mapM parseNode
    pure (Node.group (← a[0]!.getNat?) (← a[1]!.getStr?) cs)
  | .error _ =>
    let v ← fld j "e"
    let a ← v.getArr?
    if a.size != 2 then throw "entry arity"
    pure (Node.entry (← a[0]!.getNat?) (← optStr a[1]!))

def optId (o : Option Node) : Json := jOptNat (o.map Node.id)

/-- op `tree`: model = faithful transcription (queue BFS, `get`, `getMut`, listings);
    spec = reference semantics (level order, `get`, filters) -/
def opTree (j : Json) : R Json := do
  let g ← parseNode (← fld j "tree")
  let paths ← (← fldArr j "paths").toList.mapM strArr
  let groupsAll := (Node.preorder g).filter Node.isGroup
  let listing := groupsAll.map fun x =>
    jList [jNat x.id, jNats ((entries x).map Node.id), jNats ((groups x).map Node.id)]
  let model := Json.mkObj [
    ("iter", jNats ((iter g).map Node.id)),
    ("get", jList (paths.map fun p => optId (get g p))),
    ("getmut", jList (paths.map fun p => optId (getMut g p))),
    ("listing", jList listing)]
  let spec := Json.mkObj [
    ("iter", jNats ((levelsUpTo (Node.depth g) [g]).map Node.id)),
    ("get", jList (paths.map fun p => optId (get g p))),
    ("getmut", jList (paths.map fun p => optId (get g p))),
    ("listing", jList listing)]
  pure (Json.mkObj [("model", model), ("spec", spec)])

end Kp.Driver
