import Driver.Json
import KpModel.Db.Merge
import KpModel.Db.MergeSpec
namespace Kp.Driver
open Lean Kp.Merge

def parseTimes (j : Json) : R Times := do
  pure ⟨← optInt ((j.getObjVal? "m").toOption.getD Json.null),
        ← optInt ((j.getObjVal? "l").toOption.getD Json.null), ← fldNat j "o"⟩

def parseEData (j : Json) : R EData := do
  pure ⟨← fldNat j "u", ← fldNat j "c", ← parseTimes (← fld j "t")⟩

def parseMEntry (j : Json) : R Kp.Merge.Entry := do
  let h ← match fldOpt j "h" with
    | none => pure none
    | some v => do pure (some (← (← v.getArr?).toList.mapM parseEData))
  pure ⟨← parseEData j, h⟩

partial def parseMNode (j : Json) : R Kp.Merge.Node := do
  match j.getObjVal? "g" with
  | .ok g => parseMGroup g
  | .error _ => do pure (.entry (← parseMEntry (← fld j "e")))
where
  parseMGroup (g : Json) : R Kp.Merge.Node := do
    let cs ← (← fldArr g "ch").toList.mapM parseMNode
    pure (.group (← fldNat g "u") (← fldNat g "c") (← parseTimes (← fld g "t")) cs)

def parseDb (j : Json) : R Db := do
  let root ← parseMNode.parseMGroup (← fld j "root")
  let tombs ← (← fldArr j "tombs").toList.mapM fun t => do
    let a ← t.getArr?
    pure (Tomb.mk (← a[0]!.getNat?) (← a[1]!.getInt?))
  pure ⟨root, tombs⟩

def timesJson (t : Times) : Json := Json.mkObj [("m", jOptInt t.mtime), ("l", jOptInt t.loc), ("o", jNat t.other)]
def edataJson (d : EData) : List (String × Json) := [("u", jNat d.uuid), ("c", jNat d.content), ("t", timesJson d.times)]
def mentryJson (e : Kp.Merge.Entry) : Json :=
  Json.mkObj (edataJson e.d ++ [("h", match e.history with
    | none => Json.null
    | some l => jList (l.map fun d => Json.mkObj (edataJson d)))])

partial def mnodeJson : Kp.Merge.Node → Json
  | .entry e => Json.mkObj [("e", mentryJson e)]
  | .group u c t cs => Json.mkObj [("g", mgroupJson u c t cs)]
where
  mgroupJson (u c : Nat) (t : Times) (cs : List Kp.Merge.Node) : Json :=
    Json.mkObj [("u", jNat u), ("c", jNat c), ("t", timesJson t), ("ch", jList (cs.map mnodeJson))]

def dbJson (d : Db) : Json :=
  let root := match d.root with
    | .group u c t cs => mnodeJson.mgroupJson u c t cs
    | n => mnodeJson n
  Json.mkObj [("root", root), ("tombs", jList (d.tombs.map fun t => jList [jNat t.uuid, jInt t.time]))]

def evName : EvType → String
  | .entryCreated => "entryCreated" | .entryDeleted => "entryDeleted"
  | .entryLocationUpdated => "entryLocationUpdated" | .entryUpdated => "entryUpdated"
  | .groupCreated => "groupCreated" | .groupDeleted => "groupDeleted"
  | .groupLocationUpdated => "groupLocationUpdated" | .groupUpdated => "groupUpdated"

def errNameM : MErr → String
  | .findGroup => "err:FindGroupError" | .findEntry => "err:FindEntryError" | .generic => "err:GenericError"
  | .entryMtimeNotUpdated => "err:EntryModificationTimeNotUpdated"
  | .groupMtimeNotUpdated => "err:GroupModificationTimeNotUpdated"
  | .duplicateHistory => "err:DuplicateHistoryEntries"
  | .panicHistoryNoMtime => "panic" | .panicKindMismatch => "panic" | .outOfFuel => "timeout"

def mergeJson (now : Int) (dst src : Db) : Json × Option Db :=
  match merge now dst src with
  | .error e => (Json.mkObj [("outcome", Json.str (errNameM e))], none)
  | .ok (d, evs) =>
    (Json.mkObj [("outcome", Json.str "ok"),
      ("events", jList (evs.map fun (t, u) => jList [Json.str (evName t), jNat u])), ("db", dbJson d)], some d)

def opMerge (j : Json) : R Json := do
  let dst ← parseDb (← fld j "dst")
  let src ← parseDb (← fld j "src")
  let now ← fldInt j "now"
  let (m1, d1) := mergeJson now dst src
  let (m2, ms) := match d1 with
    | some d => ((mergeJson now d src).1, (mergeJson now d d).1)
    | none => (Json.null, Json.null)
  let mself := (mergeJson now dst dst).1
  -- the properties' clauses, evaluated on the REAL results
  let real ← fld j "real"
  let rm1 ← fld real "m1"
  let ro ← fldStr rm1 "outcome"
  let mut fails : List Json := []
  let fail := fun (p c d : String) => jList [Json.str s!"merge:{p}:{c}", Json.str d]
  if ro != "ok" then
    fails := fails ++ [fail "C16" (if ro == "timeout" then "does-not-terminate" else if ro.startsWith "panic" then "panics" else s!"fails:{ro}")
      s!"merge of two replicas of a common ancestor returned {ro}"]
  else
    let res ← parseDb (← fld rm1 "db")
    for c in Kp.MergeSpec.c16Clauses dst src res do fails := fails ++ [fail "C16" c ""]
    for c in Kp.MergeSpec.c15Clauses dst src res do fails := fails ++ [fail "C15" c ""]
    for c in (Kp.MergeSpec.c14Clauses dst src res ++ Kp.MergeSpec.c14Created dst src res).eraseDups do
      fails := fails ++ [fail "C14" c ""]
    -- C13: idempotence
    let chk := fun (name : String) (rj : Json) (expectDb : Json) => Id.run do
      let o := (rj.getObjVal? "outcome").toOption.getD Json.null
      if o != Json.str "ok" then return [fail "C13" s!"{name}-fails" (toString o)]
      let evs := (rj.getObjVal? "events").toOption.getD Json.null
      let db := (rj.getObjVal? "db").toOption.getD Json.null
      let mut r := []
      if evs != Json.arr #[] then r := r ++ [fail "C13" s!"{name}-reports-events" evs.compress]
      if db != expectDb then r := r ++ [fail "C13" s!"{name}-changes-database" ""]
      return r
    let rdb := (rm1.getObjVal? "db").toOption.getD Json.null
    fails := fails ++ chk "second-merge" (← fld real "m2") rdb
    fails := fails ++ chk "self-merge-of-result" (← fld real "mresult_self") rdb
  let rself ← fld real "mself"
  match rself.getObjVal? "outcome" with
  | .ok (.str "ok") =>
    if (rself.getObjVal? "events").toOption.getD Json.null != Json.arr #[] then
      fails := fails ++ [fail "C13" "self-merge-reports-events" ""]
    if (rself.getObjVal? "db").toOption.getD Json.null != (← fld j "dst") then
      fails := fails ++ [fail "C13" "self-merge-changes-database" ""]
  | _ => fails := fails ++ [fail "C13" "self-merge-fails" ""]
  pure (Json.mkObj [("model", Json.mkObj [("m1", m1), ("m2", m2), ("mresult_self", ms), ("mself", mself)]),
    ("specfail", jList fails)])

end Kp.Driver
