import Driver.Json
import KpModel.Key
import KpModel.Codec.Base64
import KpModel.Crypto.Sha
namespace Kp.Driver
open Lean Kp.Key

def execKeyPrims : KeyPrims := ⟨Kp.Crypto.sha256, Kp.Codec.utf8, Kp.Codec.b64Decode, Kp.Codec.hexDecode⟩

def parseView (j : Json) : R XmlView :=
  match j with
  | .str "malformed" => pure .malformed
  | v => do
    let ver ← optStr ((v.getObjVal? "version").toOption.getD Json.null)
    let data ← optStr ((v.getObjVal? "data").toOption.getD Json.null)
    pure (.wellFormed (ver.map String.toList) (data.map String.toList))

def opKey (j : Json) : R Json := do
  let pw ← optStr ((j.getObjVal? "password").toOption.getD Json.null)
  let kf ← match fldOpt j "keyfile" with
    | none => pure none
    | some k => do
      let buf ← fldHex k "bytes"
      let view ← parseView (← fld k "view")
      pure (some (buf, view))
  -- a key file of many MiB is represented by a short stand-in buffer together with the SHA-256 of the real file (computed by the
  -- harness's reference implementation): the model runs on the stand-in with that digest as the stand-in's hash
  let large ← match fldOpt j "keyfile" with
    | none => pure none
    | some k => match fldOpt k "sha256" with
      | none => pure none
      | some _ => do pure (some (← fldHex k "bytes", ← fldHex k "sha256"))
  let execKeyPrims : KeyPrims := match large with
    | none => execKeyPrims
    | some (standIn, digest) => { execKeyPrims with sha256 := fun x => if x == standIn then digest else Kp.Crypto.sha256 x }
  let c : Creds := ⟨pw.map String.toList, kf⟩
  let comp := match compositeKdbx execKeyPrims c with
    | none => Json.null
    | some k => Json.str (bytesToHex k)
  let kdb := match compositeKdb execKeyPrims c with
    | .key k => Json.str (bytesToHex k)
    | .noCredentials => Json.null
    | .errNot32 => Json.str "err:key"
  let elems := match keyElements execKeyPrims c with
    | none => Json.null
    | some es => jList (es.map fun e => Json.str (bytesToHex e))
  pure (Json.mkObj [("model", Json.mkObj [("composite", comp), ("composite_kdb", kdb), ("elements", elems)])])

end Kp.Driver
