import Driver.Json
import Driver.Tree
import Driver.History
import Driver.Io
import Driver.Totp
import Driver.Key
import Driver.Merge
import Driver.Kdbx4
import Driver.Xml
import Driver.Legacy
/-!
`kpdriver`: reads one JSON case per line on stdin, runs the Lean model (and, where it differs, the reference
specification) on the case's inputs and prints one JSON line per case:
`{"n": <case number>, "model": …, "spec": …}` or `{"n": …, "error": "…"}`.
The orchestrator (`bin/check`) compares `model` and `spec` with the `real` part of the case.
-/
open Lean Kp.Driver

def dispatch (op : String) (j : Json) : R Json :=
  match op with
  | "tree" => opTree j
  | "history" => opHistory j
  | "ioread" => opIoRead j
  | "iowrite" => opIoWrite j
  | "totp" => opTotp j
  | "key" => opKey j
  | "merge" => opMerge j
  | "kdbx4read" => opKdbx4Read j
  | "xml" => opXml j
  | "kdbx3read" => opKdbx3Read j
  | "kdbread" => opKdbRead j
  | "selftest" => opSelfTest j
  -- inputs too large for the executable model (attachments of several MiB): the case passes through, only the property's
  -- executable specification is evaluated on the real outcome
  | "specOnly" => pure (Json.mkObj [("model", Json.null)])
  | _ => throw s!"unknown op {op}"

def handleLine (line : String) : String :=
  match Json.parse line with
  | .error e => (Json.mkObj [("n", Json.null), ("error", Json.str s!"parse: {e}")]).compress
  | .ok j =>
    let n := (j.getObjVal? "n").toOption.getD Json.null
    match (do let op ← fldStr j "op"; dispatch op j) with
    | .ok out => (out.setObjVal! "n" n).compress
    | .error e => (Json.mkObj [("n", n), ("error", Json.str e)]).compress

partial def loop (h : IO.FS.Stream) (out : IO.FS.Stream) : IO Unit := do
  let line ← h.getLine
  if line.isEmpty then return ()
  let t := line.trimAscii.toString
  if !t.isEmpty then
    out.putStrLn (handleLine t)
  loop h out

def main : IO Unit := do
  let stdin ← IO.getStdin
  let stdout ← IO.getStdout
  loop stdin stdout
