import KpModel.Totp
/-!
base32 (RFC 4648 with padding): helper lemmas for the whole-string round trip of `Props/C19`
(chunking with fuel, a full group in front encodes / decodes independently, the four short tails).
-/
namespace Kp.Totp


theorem b32Val_b32Char : ∀ v, v < 32 → b32Val (b32Char v) = some v := by decide

theorem decGroup_encGroup (b0 b1 b2 b3 b4 : Nat)
    (h0 : b0 < 256) (h1 : b1 < 256) (h2 : b2 < 256) (h3 : b3 < 256) (h4 : b4 < 256) :
    decGroup (encGroup b0 b1 b2 b3 b4) = [b0, b1, b2, b3, b4] := by
  simp only [decGroup, encGroup, List.getD_cons_zero, List.getD_cons_succ]
  refine List.cons_eq_cons.mpr ⟨by omega, List.cons_eq_cons.mpr ⟨by omega, List.cons_eq_cons.mpr
    ⟨by omega, List.cons_eq_cons.mpr ⟨by omega, List.cons_eq_cons.mpr ⟨by omega, rfl⟩⟩⟩⟩⟩

theorem encGroup_lt (b0 b1 b2 b3 b4 : Nat)
    (h0 : b0 < 256) (h1 : b1 < 256) (h2 : b2 < 256) (h3 : b3 < 256) (h4 : b4 < 256) :
    ∀ v ∈ encGroup b0 b1 b2 b3 b4, v < 32 := by
  intro v hv
  simp only [encGroup, List.mem_cons, List.mem_nil_iff, or_false] at hv
  rcases hv with h | h | h | h | h | h | h | h <;> subst h <;> omega


theorem chunksF_eq {α : Type} (f n : Nat) (l : List α) :
    chunksF (f + 1) n l = if n = 0 ∨ l = [] then [] else l.take n :: chunksF f n (l.drop n) := by
  rw [chunksF]

theorem length_pos' {α : Type} (l : List α) (h : l ≠ []) : 0 < l.length := by
  cases l with
  | nil => exact absurd rfl h
  | cons x xs => simp

theorem chunksF_succ {α : Type} (n : Nat) (hn : 0 < n) : ∀ (f : Nat) (l : List α), l.length ≤ f →
    chunksF (f + 1) n l = chunksF f n l := by
  intro f
  induction f with
  | zero =>
    intro l hl
    have : l = [] := List.length_eq_zero_iff.mp (by omega)
    subst this
    simp [chunksF]
  | succ f ih =>
    intro l hl
    rw [chunksF_eq (f + 1) n l, chunksF_eq f n l]
    by_cases h : n = 0 ∨ l = []
    · simp [h]
    · simp only [h, ↓reduceIte]
      have hne : l ≠ [] := fun e => h (Or.inr e)
      have : (l.drop n).length ≤ f := by
        have := length_pos' l hne
        simp only [List.length_drop]; omega
      rw [ih _ this]

theorem chunksF_fuel {α : Type} (n : Nat) (hn : 0 < n) (l : List α) : ∀ k, chunksF (l.length + k) n l = chunksF l.length n l := by
  intro k
  induction k with
  | zero => rfl
  | succ k ih => rw [← Nat.add_assoc, chunksF_succ n hn _ l (by omega), ih]

theorem chunks_append {α : Type} (n : Nat) (hn : 0 < n) (g rest : List α) (hg : g.length = n) :
    chunks n (g ++ rest) = g :: chunks n rest := by
  unfold chunks
  have hl : (g ++ rest).length = (rest.length + (n - 1)) + 1 := by simp [hg]; omega
  rw [hl, chunksF_eq]
  have hne : ¬ (n = 0 ∨ g ++ rest = []) := by
    intro h
    rcases h with h | h
    · omega
    · have := congrArg List.length h; simp [hg] at this; omega
  simp only [hne, ↓reduceIte]
  rw [List.take_left' hg, List.drop_left' hg, chunksF_fuel n hn rest]

theorem chunks_nil {α : Type} (n : Nat) : chunks n ([] : List α) = [] := by simp [chunks, chunksF]

theorem chunks_short {α : Type} (n : Nat) (hn : 0 < n) (l : List α) (hl : l ≠ []) (hlen : l.length ≤ n) : chunks n l = [l] := by
  unfold chunks
  obtain ⟨f, hf⟩ : ∃ f, l.length = f + 1 := ⟨l.length - 1, by have := length_pos' l hl; omega⟩
  rw [hf, chunksF_eq]
  have hne : ¬ (n = 0 ∨ l = []) := by
    intro h
    rcases h with h | h
    · omega
    · exact hl h
  simp only [hne, ↓reduceIte]
  rw [List.take_of_length_le hlen, List.drop_of_length_le hlen]
  cases f <;> simp [chunksF]


/-- the 8 symbols of one chunk of up to 5 bytes (missing bytes count as 0) -/
def encChunk (ch : Bytes) : List Char :=
  (encGroup (ch.getD 0 0).toNat (ch.getD 1 0).toNat (ch.getD 2 0).toNat (ch.getD 3 0).toNat (ch.getD 4 0).toNat).map b32Char

def syms (data : Bytes) : List Char := (chunks 5 data).flatMap encChunk

theorem encChunk_length (ch : Bytes) : (encChunk ch).length = 8 := by simp [encChunk, encGroup]

theorem b32Encode_eq (data : Bytes) :
    b32Encode data = if data.length % 5 = 0 then syms data
      else (syms data).take ((syms data).length - (8 - (data.length % 5 * 8 + 4) / 5))
            ++ List.replicate (8 - (data.length % 5 * 8 + 4) / 5) '=' := rfl

theorem syms_append (g rest : Bytes) (hg : g.length = 5) : syms (g ++ rest) = encChunk g ++ syms rest := by
  simp [syms, chunks_append 5 (by omega) g rest hg]

theorem syms_nil : syms [] = [] := by simp [syms, chunks_nil]

theorem syms_short (l : Bytes) (hl : l ≠ []) (hlen : l.length ≤ 5) : syms l = encChunk l := by
  simp [syms, chunks_short 5 (by omega) l hl hlen]

theorem syms_length_ge (l : Bytes) (hl : l ≠ []) : 8 ≤ (syms l).length := by
  unfold syms chunks
  obtain ⟨f, hf⟩ : ∃ f, l.length = f + 1 := ⟨l.length - 1, by have := length_pos' l hl; omega⟩
  rw [hf, chunksF_eq]
  have hne : ¬ ((5 : Nat) = 0 ∨ l = []) := by
    intro h
    rcases h with h | h
    · omega
    · exact hl h
  simp only [hne, ↓reduceIte, List.flatMap_cons, List.length_append, encChunk_length]
  omega

/-- (E) a full 5-byte group in front encodes independently of what follows -/
theorem b32Encode_group (g rest : Bytes) (hg : g.length = 5) : b32Encode (g ++ rest) = encChunk g ++ b32Encode rest := by
  rw [b32Encode_eq, b32Encode_eq rest, syms_append g rest hg]
  have hm : (g ++ rest).length % 5 = rest.length % 5 := by simp [hg]
  rw [hm]
  by_cases h0 : rest.length % 5 = 0
  · simp [h0]
  · simp only [h0, ↓reduceIte]
    have hne : rest ≠ [] := by intro e; subst e; simp at h0
    have h8 := syms_length_ge rest hne
    have hk : 8 - (rest.length % 5 * 8 + 4) / 5 ≤ 8 := by omega
    rw [List.length_append, encChunk_length]
    have : 8 + (syms rest).length - (8 - (rest.length % 5 * 8 + 4) / 5)
        = (encChunk g).length + ((syms rest).length - (8 - (rest.length % 5 * 8 + 4) / 5)) := by
      rw [encChunk_length]; omega
    rw [this, List.take_length_add_append]
    simp [List.append_assoc]


def trailingPad (s : List Char) : Nat := ((s.reverse.take 6).takeWhile (· = '=')).length

def decBody (s : List Char) (vals : List Nat) : Bytes :=
  (((chunks 8 vals).flatMap decGroup).take ((s.length - trailingPad s) * 5 / 8)).map UInt8.ofNat

theorem b32Decode_eq (s : List Char) :
    b32Decode s = if s.any (fun c => c.toNat ≥ 128) then none
      else match s.mapM b32Val with
        | none => none
        | some vals => some (decBody s vals) := rfl

theorem b32Char_ok : ∀ v, v < 32 → (b32Char v).toNat < 128 ∧ b32Char v ≠ '=' := by decide

theorem encGroup_length (a b c d e : Nat) : (encGroup a b c d e).length = 8 := rfl

theorem mapM_b32Val_chars : ∀ (vs : List Nat), (∀ v ∈ vs, v < 32) → (vs.map b32Char).mapM b32Val = some vs := by
  intro vs
  induction vs with
  | nil => intro _; rfl
  | cons v vs ih =>
    intro h
    simp only [List.map_cons, List.mapM_cons]
    rw [b32Val_b32Char v (h v (List.mem_cons_self ..)), ih (fun x hx => h x (List.mem_cons_of_mem _ hx))]
    rfl

theorem takeWhile_length_le {α : Type} (p : α → Bool) : ∀ (l : List α), (l.takeWhile p).length ≤ l.length := by
  intro l
  induction l with
  | nil => simp
  | cons x xs ih =>
    simp only [List.takeWhile]
    split <;> simp <;> omega

theorem trailingPad_le (s : List Char) : trailingPad s ≤ s.length ∧ trailingPad s ≤ 6 := by
  unfold trailingPad
  have h1 := takeWhile_length_le (fun c => decide (c = '=')) (s.reverse.take 6)
  have h2 : (s.reverse.take 6).length ≤ 6 := by simp [List.length_take]; omega
  have h3 : (s.reverse.take 6).length ≤ s.length := by simp [List.length_take]; omega
  omega

theorem trailingPad_append (cs s : List Char) (hs : 6 ≤ s.length) : trailingPad (cs ++ s) = trailingPad s := by
  unfold trailingPad
  rw [List.reverse_append, List.take_append_of_le_length (by simpa using hs)]

theorem trailingPad_nopad (cs : List Char) (h : ∀ c ∈ cs, c ≠ '=') : trailingPad cs = 0 := by
  unfold trailingPad
  cases hr : cs.reverse.take 6 with
  | nil => rfl
  | cons x xs =>
    have hx : x ∈ cs := by
      have : x ∈ cs.reverse.take 6 := by rw [hr]; exact List.mem_cons_self ..
      exact List.mem_reverse.mp (List.mem_of_mem_take this)
    simp [List.takeWhile, h x hx]

theorem ofNat_toNat_list (g : Bytes) : (g.map UInt8.toNat).map UInt8.ofNat = g := by
  induction g with
  | nil => rfl
  | cons x xs ih => simp [ih]


theorem encChunk_vals (b0 b1 b2 b3 b4 : UInt8) :
    encChunk [b0, b1, b2, b3, b4] = (encGroup b0.toNat b1.toNat b2.toNat b3.toNat b4.toNat).map b32Char := by
  simp [encChunk]

theorem toNat_lt (b : UInt8) : b.toNat < 256 := UInt8.toNat_lt b

/-- (D) a full group in front decodes independently of what follows -/
theorem b32Decode_group (b0 b1 b2 b3 b4 : UInt8) (s : List Char) (d : Bytes) (hs : s = [] ∨ 6 ≤ s.length)
    (hd : b32Decode s = some d) : b32Decode (encChunk [b0, b1, b2, b3, b4] ++ s) = some ([b0, b1, b2, b3, b4] ++ d) := by
  have hlt := encGroup_lt b0.toNat b1.toNat b2.toNat b3.toNat b4.toNat (toNat_lt _) (toNat_lt _) (toNat_lt _) (toNat_lt _) (toNat_lt _)
  rw [b32Decode_eq] at hd ⊢
  -- no non-ASCII character
  have hany_s : s.any (fun c => c.toNat ≥ 128) = false := by
    cases h : s.any (fun c => c.toNat ≥ 128) with
    | false => rfl
    | true => simp [h] at hd
  have hany_c : (encChunk [b0, b1, b2, b3, b4]).any (fun c => c.toNat ≥ 128) = false := by
    rw [encChunk_vals]
    simp only [List.any_map, List.any_eq_false]
    intro v hv
    have := (b32Char_ok v (hlt v hv)).1
    simp only [Function.comp_apply, ge_iff_le, decide_eq_true_eq]
    omega
  simp only [hany_s, Bool.false_eq_true, ↓reduceIte] at hd
  simp only [List.any_append, hany_c, hany_s, Bool.or_false, Bool.false_eq_true, ↓reduceIte]
  cases hm : s.mapM b32Val with
  | none => simp [hm] at hd
  | some vals =>
    simp only [hm, Option.some.injEq] at hd
    have hmc : (encChunk [b0, b1, b2, b3, b4]).mapM b32Val = some (encGroup b0.toNat b1.toNat b2.toNat b3.toNat b4.toNat) := by
      rw [encChunk_vals]; exact mapM_b32Val_chars _ hlt
    have hmm : (encChunk [b0, b1, b2, b3, b4] ++ s).mapM b32Val
        = some (encGroup b0.toNat b1.toNat b2.toNat b3.toNat b4.toNat ++ vals) := by
      rw [List.mapM_append, hmc, hm]; rfl
    simp only [hmm]
    congr 1
    subst hd
    unfold decBody
    rw [chunks_append 8 (by omega) _ vals (encGroup_length ..)]
    simp only [List.flatMap_cons, decGroup_encGroup _ _ _ _ _ (toNat_lt _) (toNat_lt _) (toNat_lt _) (toNat_lt _) (toNat_lt _)]
    have htr : trailingPad (encChunk [b0, b1, b2, b3, b4] ++ s) = trailingPad s := by
      rcases hs with rfl | hs
      · simp only [List.append_nil]
        rw [trailingPad_nopad]
        · rfl
        · intro c hc
          rw [encChunk_vals] at hc
          obtain ⟨v, hv, rfl⟩ := List.mem_map.mp hc
          exact (b32Char_ok v (hlt v hv)).2
      · exact trailingPad_append _ s hs
    have hle := (trailingPad_le s).1
    rw [htr, List.length_append, encChunk_length]
    have hk : (8 + s.length - trailingPad s) * 5 / 8 = 5 + (s.length - trailingPad s) * 5 / 8 := by omega
    rw [hk]
    have h5 : ([b0.toNat, b1.toNat, b2.toNat, b3.toNat, b4.toNat] : List Nat).length = 5 := rfl
    rw [← h5, List.take_length_add_append]
    simp


theorem b32Char_ne_pad (v : Nat) (h : v < 32) : decide (b32Char v = '=') = false := by
  have := (b32Char_ok v h).2
  simpa using this

theorem b32_small1 (b0 : UInt8) : b32Decode (b32Encode [b0]) = some [b0] := by
  have l0 := toNat_lt b0
  have hv0 : b0.toNat / 8 < 32 := by omega
  have hv1 : b0.toNat % 8 * 4 < 32 := by omega
  have e : b32Encode [b0] = [b32Char (b0.toNat / 8), b32Char (b0.toNat % 8 * 4), '=', '=', '=', '=', '=', '='] := by
    rw [b32Encode_eq, syms_short [b0] (by simp) (by simp)]
    simp [encChunk, encGroup, List.replicate]
  rw [e, b32Decode_eq]
  have a0 := (b32Char_ok _ hv0).1
  have n0 := b32Char_ne_pad _ hv0
  have a1 := (b32Char_ok _ hv1).1
  have n1 := b32Char_ne_pad _ hv1
  have hany : List.any [b32Char (b0.toNat / 8), b32Char (b0.toNat % 8 * 4), '=', '=', '=', '=', '=', '=']
      (fun c => decide (c.toNat ≥ 128)) = false := by
    simp only [List.any_cons, List.any_nil, Bool.or_false, Bool.or_eq_false_iff, decide_eq_false_iff_not]
    refine ⟨by omega, by omega, ?_⟩
    decide
  simp only [hany, Bool.false_eq_true, ↓reduceIte]
  have hpad : b32Val '=' = some 0 := by decide
  simp only [List.mapM_cons, List.mapM_nil, b32Val_b32Char _ hv0, b32Val_b32Char _ hv1, hpad]
  simp only [bind, Option.bind, pure]
  congr 1
  have htr : trailingPad [b32Char (b0.toNat / 8), b32Char (b0.toNat % 8 * 4), '=', '=', '=', '=', '=', '='] = 6 := by
    simp [trailingPad, List.takeWhile, n0, n1]
  unfold decBody
  rw [htr]
  have hc : chunks 8 [b0.toNat / 8, b0.toNat % 8 * 4, 0, 0, 0, 0, 0, 0]
      = [[b0.toNat / 8, b0.toNat % 8 * 4, 0, 0, 0, 0, 0, 0]] := chunks_short 8 (by omega) _ (by simp) (by simp)
  rw [hc]
  have hd := decGroup_encGroup b0.toNat 0 0 0 0 (toNat_lt _) (by omega) (by omega) (by omega) (by omega)
  simp only [encGroup, Nat.zero_mod, Nat.zero_div, Nat.zero_mul, Nat.add_zero, Nat.zero_add] at hd
  simp only [List.flatMap_cons, List.flatMap_nil, List.append_nil] at hd ⊢
  rw [hd]
  simp

theorem b32_small2 (b0 : UInt8) (b1 : UInt8) : b32Decode (b32Encode [b0, b1]) = some [b0, b1] := by
  have l0 := toNat_lt b0
  have l1 := toNat_lt b1
  have hv0 : b0.toNat / 8 < 32 := by omega
  have hv1 : b0.toNat % 8 * 4 + b1.toNat / 64 < 32 := by omega
  have hv2 : b1.toNat % 64 / 2 < 32 := by omega
  have hv3 : b1.toNat % 2 * 16 < 32 := by omega
  have e : b32Encode [b0, b1] = [b32Char (b0.toNat / 8), b32Char (b0.toNat % 8 * 4 + b1.toNat / 64), b32Char (b1.toNat % 64 / 2), b32Char (b1.toNat % 2 * 16), '=', '=', '=', '='] := by
    rw [b32Encode_eq, syms_short [b0, b1] (by simp) (by simp)]
    simp [encChunk, encGroup, List.replicate]
  rw [e, b32Decode_eq]
  have a0 := (b32Char_ok _ hv0).1
  have n0 := b32Char_ne_pad _ hv0
  have a1 := (b32Char_ok _ hv1).1
  have n1 := b32Char_ne_pad _ hv1
  have a2 := (b32Char_ok _ hv2).1
  have n2 := b32Char_ne_pad _ hv2
  have a3 := (b32Char_ok _ hv3).1
  have n3 := b32Char_ne_pad _ hv3
  have hany : List.any [b32Char (b0.toNat / 8), b32Char (b0.toNat % 8 * 4 + b1.toNat / 64), b32Char (b1.toNat % 64 / 2), b32Char (b1.toNat % 2 * 16), '=', '=', '=', '=']
      (fun c => decide (c.toNat ≥ 128)) = false := by
    simp only [List.any_cons, List.any_nil, Bool.or_false, Bool.or_eq_false_iff, decide_eq_false_iff_not]
    refine ⟨by omega, by omega, by omega, by omega, ?_⟩
    decide
  simp only [hany, Bool.false_eq_true, ↓reduceIte]
  have hpad : b32Val '=' = some 0 := by decide
  simp only [List.mapM_cons, List.mapM_nil, b32Val_b32Char _ hv0, b32Val_b32Char _ hv1, b32Val_b32Char _ hv2, b32Val_b32Char _ hv3, hpad]
  simp only [bind, Option.bind, pure]
  congr 1
  have htr : trailingPad [b32Char (b0.toNat / 8), b32Char (b0.toNat % 8 * 4 + b1.toNat / 64), b32Char (b1.toNat % 64 / 2), b32Char (b1.toNat % 2 * 16), '=', '=', '=', '='] = 4 := by
    simp [trailingPad, List.takeWhile, n0, n1, n2, n3]
  unfold decBody
  rw [htr]
  have hc : chunks 8 [b0.toNat / 8, b0.toNat % 8 * 4 + b1.toNat / 64, b1.toNat % 64 / 2, b1.toNat % 2 * 16, 0, 0, 0, 0]
      = [[b0.toNat / 8, b0.toNat % 8 * 4 + b1.toNat / 64, b1.toNat % 64 / 2, b1.toNat % 2 * 16, 0, 0, 0, 0]] := chunks_short 8 (by omega) _ (by simp) (by simp)
  rw [hc]
  have hd := decGroup_encGroup b0.toNat b1.toNat 0 0 0 (toNat_lt _) (toNat_lt _) (by omega) (by omega) (by omega)
  simp only [encGroup, Nat.zero_mod, Nat.zero_div, Nat.zero_mul, Nat.add_zero, Nat.zero_add] at hd
  simp only [List.flatMap_cons, List.flatMap_nil, List.append_nil] at hd ⊢
  rw [hd]
  simp

theorem b32_small3 (b0 : UInt8) (b1 : UInt8) (b2 : UInt8) : b32Decode (b32Encode [b0, b1, b2]) = some [b0, b1, b2] := by
  have l0 := toNat_lt b0
  have l1 := toNat_lt b1
  have l2 := toNat_lt b2
  have hv0 : b0.toNat / 8 < 32 := by omega
  have hv1 : b0.toNat % 8 * 4 + b1.toNat / 64 < 32 := by omega
  have hv2 : b1.toNat % 64 / 2 < 32 := by omega
  have hv3 : b1.toNat % 2 * 16 + b2.toNat / 16 < 32 := by omega
  have hv4 : b2.toNat % 16 * 2 < 32 := by omega
  have e : b32Encode [b0, b1, b2] = [b32Char (b0.toNat / 8), b32Char (b0.toNat % 8 * 4 + b1.toNat / 64), b32Char (b1.toNat % 64 / 2), b32Char (b1.toNat % 2 * 16 + b2.toNat / 16), b32Char (b2.toNat % 16 * 2), '=', '=', '='] := by
    rw [b32Encode_eq, syms_short [b0, b1, b2] (by simp) (by simp)]
    simp [encChunk, encGroup, List.replicate]
  rw [e, b32Decode_eq]
  have a0 := (b32Char_ok _ hv0).1
  have n0 := b32Char_ne_pad _ hv0
  have a1 := (b32Char_ok _ hv1).1
  have n1 := b32Char_ne_pad _ hv1
  have a2 := (b32Char_ok _ hv2).1
  have n2 := b32Char_ne_pad _ hv2
  have a3 := (b32Char_ok _ hv3).1
  have n3 := b32Char_ne_pad _ hv3
  have a4 := (b32Char_ok _ hv4).1
  have n4 := b32Char_ne_pad _ hv4
  have hany : List.any [b32Char (b0.toNat / 8), b32Char (b0.toNat % 8 * 4 + b1.toNat / 64), b32Char (b1.toNat % 64 / 2), b32Char (b1.toNat % 2 * 16 + b2.toNat / 16), b32Char (b2.toNat % 16 * 2), '=', '=', '=']
      (fun c => decide (c.toNat ≥ 128)) = false := by
    simp only [List.any_cons, List.any_nil, Bool.or_false, Bool.or_eq_false_iff, decide_eq_false_iff_not]
    refine ⟨by omega, by omega, by omega, by omega, by omega, ?_⟩
    decide
  simp only [hany, Bool.false_eq_true, ↓reduceIte]
  have hpad : b32Val '=' = some 0 := by decide
  simp only [List.mapM_cons, List.mapM_nil, b32Val_b32Char _ hv0, b32Val_b32Char _ hv1, b32Val_b32Char _ hv2, b32Val_b32Char _ hv3, b32Val_b32Char _ hv4, hpad]
  simp only [bind, Option.bind, pure]
  congr 1
  have htr : trailingPad [b32Char (b0.toNat / 8), b32Char (b0.toNat % 8 * 4 + b1.toNat / 64), b32Char (b1.toNat % 64 / 2), b32Char (b1.toNat % 2 * 16 + b2.toNat / 16), b32Char (b2.toNat % 16 * 2), '=', '=', '='] = 3 := by
    simp [trailingPad, List.takeWhile, n0, n1, n2, n3, n4]
  unfold decBody
  rw [htr]
  have hc : chunks 8 [b0.toNat / 8, b0.toNat % 8 * 4 + b1.toNat / 64, b1.toNat % 64 / 2, b1.toNat % 2 * 16 + b2.toNat / 16, b2.toNat % 16 * 2, 0, 0, 0]
      = [[b0.toNat / 8, b0.toNat % 8 * 4 + b1.toNat / 64, b1.toNat % 64 / 2, b1.toNat % 2 * 16 + b2.toNat / 16, b2.toNat % 16 * 2, 0, 0, 0]] := chunks_short 8 (by omega) _ (by simp) (by simp)
  rw [hc]
  have hd := decGroup_encGroup b0.toNat b1.toNat b2.toNat 0 0 (toNat_lt _) (toNat_lt _) (toNat_lt _) (by omega) (by omega)
  simp only [encGroup, Nat.zero_mod, Nat.zero_div, Nat.zero_mul, Nat.add_zero, Nat.zero_add] at hd
  simp only [List.flatMap_cons, List.flatMap_nil, List.append_nil] at hd ⊢
  rw [hd]
  simp

theorem b32_small4 (b0 : UInt8) (b1 : UInt8) (b2 : UInt8) (b3 : UInt8) : b32Decode (b32Encode [b0, b1, b2, b3]) = some [b0, b1, b2, b3] := by
  have l0 := toNat_lt b0
  have l1 := toNat_lt b1
  have l2 := toNat_lt b2
  have l3 := toNat_lt b3
  have hv0 : b0.toNat / 8 < 32 := by omega
  have hv1 : b0.toNat % 8 * 4 + b1.toNat / 64 < 32 := by omega
  have hv2 : b1.toNat % 64 / 2 < 32 := by omega
  have hv3 : b1.toNat % 2 * 16 + b2.toNat / 16 < 32 := by omega
  have hv4 : b2.toNat % 16 * 2 + b3.toNat / 128 < 32 := by omega
  have hv5 : b3.toNat % 128 / 4 < 32 := by omega
  have hv6 : b3.toNat % 4 * 8 < 32 := by omega
  have e : b32Encode [b0, b1, b2, b3] = [b32Char (b0.toNat / 8), b32Char (b0.toNat % 8 * 4 + b1.toNat / 64), b32Char (b1.toNat % 64 / 2), b32Char (b1.toNat % 2 * 16 + b2.toNat / 16), b32Char (b2.toNat % 16 * 2 + b3.toNat / 128), b32Char (b3.toNat % 128 / 4), b32Char (b3.toNat % 4 * 8), '='] := by
    rw [b32Encode_eq, syms_short [b0, b1, b2, b3] (by simp) (by simp)]
    simp [encChunk, encGroup, List.replicate]
  rw [e, b32Decode_eq]
  have a0 := (b32Char_ok _ hv0).1
  have n0 := b32Char_ne_pad _ hv0
  have a1 := (b32Char_ok _ hv1).1
  have n1 := b32Char_ne_pad _ hv1
  have a2 := (b32Char_ok _ hv2).1
  have n2 := b32Char_ne_pad _ hv2
  have a3 := (b32Char_ok _ hv3).1
  have n3 := b32Char_ne_pad _ hv3
  have a4 := (b32Char_ok _ hv4).1
  have n4 := b32Char_ne_pad _ hv4
  have a5 := (b32Char_ok _ hv5).1
  have n5 := b32Char_ne_pad _ hv5
  have a6 := (b32Char_ok _ hv6).1
  have n6 := b32Char_ne_pad _ hv6
  have hany : List.any [b32Char (b0.toNat / 8), b32Char (b0.toNat % 8 * 4 + b1.toNat / 64), b32Char (b1.toNat % 64 / 2), b32Char (b1.toNat % 2 * 16 + b2.toNat / 16), b32Char (b2.toNat % 16 * 2 + b3.toNat / 128), b32Char (b3.toNat % 128 / 4), b32Char (b3.toNat % 4 * 8), '=']
      (fun c => decide (c.toNat ≥ 128)) = false := by
    simp only [List.any_cons, List.any_nil, Bool.or_false, Bool.or_eq_false_iff, decide_eq_false_iff_not]
    refine ⟨by omega, by omega, by omega, by omega, by omega, by omega, by omega, ?_⟩
    decide
  simp only [hany, Bool.false_eq_true, ↓reduceIte]
  have hpad : b32Val '=' = some 0 := by decide
  simp only [List.mapM_cons, List.mapM_nil, b32Val_b32Char _ hv0, b32Val_b32Char _ hv1, b32Val_b32Char _ hv2, b32Val_b32Char _ hv3, b32Val_b32Char _ hv4, b32Val_b32Char _ hv5, b32Val_b32Char _ hv6, hpad]
  simp only [bind, Option.bind, pure]
  congr 1
  have htr : trailingPad [b32Char (b0.toNat / 8), b32Char (b0.toNat % 8 * 4 + b1.toNat / 64), b32Char (b1.toNat % 64 / 2), b32Char (b1.toNat % 2 * 16 + b2.toNat / 16), b32Char (b2.toNat % 16 * 2 + b3.toNat / 128), b32Char (b3.toNat % 128 / 4), b32Char (b3.toNat % 4 * 8), '='] = 1 := by
    simp [trailingPad, List.takeWhile, n0, n1, n2, n3, n4, n5, n6]
  unfold decBody
  rw [htr]
  have hc : chunks 8 [b0.toNat / 8, b0.toNat % 8 * 4 + b1.toNat / 64, b1.toNat % 64 / 2, b1.toNat % 2 * 16 + b2.toNat / 16, b2.toNat % 16 * 2 + b3.toNat / 128, b3.toNat % 128 / 4, b3.toNat % 4 * 8, 0]
      = [[b0.toNat / 8, b0.toNat % 8 * 4 + b1.toNat / 64, b1.toNat % 64 / 2, b1.toNat % 2 * 16 + b2.toNat / 16, b2.toNat % 16 * 2 + b3.toNat / 128, b3.toNat % 128 / 4, b3.toNat % 4 * 8, 0]] := chunks_short 8 (by omega) _ (by simp) (by simp)
  rw [hc]
  have hd := decGroup_encGroup b0.toNat b1.toNat b2.toNat b3.toNat 0 (toNat_lt _) (toNat_lt _) (toNat_lt _) (toNat_lt _) (by omega)
  simp only [encGroup, Nat.zero_mod, Nat.zero_div, Nat.zero_mul, Nat.add_zero, Nat.zero_add] at hd
  simp only [List.flatMap_cons, List.flatMap_nil, List.append_nil] at hd ⊢
  rw [hd]
  simp


theorem b32Encode_nil : b32Encode [] = [] := by
  rw [b32Encode_eq]; simp [syms_nil]

theorem b32Encode_length_ge (data : Bytes) (h : data ≠ []) : 8 ≤ (b32Encode data).length := by
  have h8 := syms_length_ge data h
  rw [b32Encode_eq]
  split
  · exact h8
  · simp only [List.length_append, List.length_take, List.length_replicate]
    omega


end Kp.Totp
