import KpModel.Basic
/-
Model of `src/db/otp.rs` (`TOTP::from_str`, `value_at`, `get_secret`) with its dependencies transcribed:
`totp_lite::totp_custom` (RFC 4226 dynamic truncation, RFC 6238 time step) and the `base32` crate
(RFC 4648 alphabet with padding).  The `url` crate is modelled only on the restricted otpauth grammar:
scheme, raw label path, and the list of decoded query pairs.  Property C19.
-/
namespace Kp.Totp

/-- text is `List Char` throughout (string literals do not reduce in the kernel) -/
abbrev Str := List Char

inductive Alg where | sha1 | sha256 | sha512
  deriving DecidableEq, Repr

/-- the HMAC functions are parameters; executable instances come from `Crypto/Sha.lean` -/
structure Hmacs where
  sha1 : Bytes → Bytes → Bytes
  sha256 : Bytes → Bytes → Bytes
  sha512 : Bytes → Bytes → Bytes

def Hmacs.run (H : Hmacs) : Alg → Bytes → Bytes → Bytes
  | .sha1 => H.sha1 | .sha256 => H.sha256 | .sha512 => H.sha512

/-- `to_bytes`: the counter as 8 bytes, big endian -/
def counterBytes (c : Nat) : Bytes :=
  (List.range 8).map fun i => UInt8.ofNat ((c / 256 ^ (7 - i)) % 256)

/-- RFC 4226 §5.3 dynamic truncation: 31 bits starting at the offset given by the last nibble -/
def dynTrunc (h : Bytes) : Nat :=
  let off := (h.getLastD 0).toNat % 16
  ((h.getD off 0).toNat % 128) * 16777216 + (h.getD (off + 1) 0).toNat * 65536
    + (h.getD (off + 2) 0).toNat * 256 + (h.getD (off + 3) 0).toNat

def digitChar (n : Nat) : Char := Char.ofNat (48 + n % 10)

/-- `n` written with exactly `d` decimal digits (the `d` low-order digits, zero padded) -/
def decimal : Nat → Nat → List Char
  | 0, _ => []
  | d + 1, n => decimal d (n / 10) ++ [digitChar n]

/-- `format!("{:01$}", v, digits)` for `v < 10 ^ digits`: exactly `digits` digits; width 0 prints "0" -/
def codeString (digits v : Nat) : List Char := if digits = 0 then ['0'] else decimal digits v

inductive CodeRes where
  | code (s : Str)
  | panic (why : Str)
  deriving DecidableEq, Repr

/-- `TOTP::value_at(time)`: the code and the remaining validity.  Panics as the Rust code does:
    division by a zero period; `10_u64.pow(digits)` overflowing for `digits ≥ 20` (overflow checks on). -/
def valueAt (H : Hmacs) (alg : Alg) (secret : Bytes) (period digits time : Nat) : CodeRes × Nat :=
  if period = 0 then (.panic ['d','i','v'], 0)
  else if digits ≥ 20 then (.panic ['p','o','w'], 0)
  else
    let bin := dynTrunc (H.run alg secret (counterBytes (time / period)))
    (.code (codeString digits (bin % 10 ^ digits)), period - time % period)

/-! ### base32 (crate `base32` 0.5, `Alphabet::Rfc4648 { padding: true }`) -/

def b32Alphabet : List Char :=
  ['A','B','C','D','E','F','G','H','I','J','K','L','M','N','O','P','Q','R','S','T','U','V','W','X','Y','Z',
   '2','3','4','5','6','7']

def b32Char (v : Nat) : Char := b32Alphabet.getD v 'A'

/-- `RFC4648_INV_PAD`: `=` decodes as 0; anything outside the alphabet is rejected -/
def b32Val (c : Char) : Option Nat :=
  if 'A' ≤ c ∧ c ≤ 'Z' then some (c.toNat - 65)
  else if '2' ≤ c ∧ c ≤ '7' then some (c.toNat - 50 + 26)
  else if c = '=' then some 0
  else none

/-- the 8 symbol values of a 5-byte group -/
def encGroup (b0 b1 b2 b3 b4 : Nat) : List Nat :=
  [b0 / 8, (b0 % 8) * 4 + b1 / 64, (b1 % 64) / 2, (b1 % 2) * 16 + b2 / 16,
   (b2 % 16) * 2 + b3 / 128, (b3 % 128) / 4, (b3 % 4) * 8 + b4 / 32, b4 % 32]

/-- the 5 bytes of 8 symbol values (each operation truncated to a byte, as `u8` shifts do) -/
def decGroup (v : List Nat) : List Nat :=
  let g := fun i => v.getD i 0
  [(g 0 * 8 + g 1 / 4) % 256, (g 1 * 64 + g 2 * 2 + g 3 / 16) % 256, (g 3 * 16 + g 4 / 2) % 256,
   (g 4 * 128 + g 5 * 4 + g 6 / 8) % 256, (g 6 * 32 + g 7) % 256]

def chunksF {α : Type} : Nat → Nat → List α → List (List α)
  | 0, _, _ => []
  | f + 1, n, l => if n = 0 ∨ l = [] then [] else l.take n :: chunksF f n (l.drop n)

/-- `slice.chunks(n)` (fuel = length suffices: every chunk consumes at least one element) -/
def chunks {α : Type} (n : Nat) (l : List α) : List (List α) := chunksF l.length n l

/-- `base32::encode(Rfc4648 { padding: true }, data)` -/
def b32Encode (data : Bytes) : List Char :=
  let syms : List Char := (chunks 5 data).flatMap fun ch =>
    let g := fun i => (ch.getD i 0).toNat
    (encGroup (g 0) (g 1) (g 2) (g 3) (g 4)).map b32Char
  if data.length % 5 = 0 then syms
  else
    let numExtra := 8 - (data.length % 5 * 8 + 4) / 5
    syms.take (syms.length - numExtra) ++ List.replicate numExtra '='

/-- `base32::decode(Rfc4648 { padding: true }, s)` -/
def b32Decode (s : List Char) : Option Bytes :=
  if s.any (fun c => c.toNat ≥ 128) then none
  else
    let trailing := ((s.reverse.take 6).takeWhile (· = '=')).length
    let outLen := (s.length - trailing) * 5 / 8
    match s.mapM b32Val with
    | none => none
    | some vals =>
      some (((chunks 8 vals).flatMap decGroup).take outLen |>.map UInt8.ofNat)

/-! ### `TOTP::from_str` on the otpauth grammar -/

inductive ParseErr where
  | scheme | int | algorithm | missingSecret | base32
  deriving DecidableEq, Repr

structure Totp where
  label : Str
  issuer : Option Str
  period : Nat
  digits : Nat
  alg : Alg
  secret : Bytes
  deriving DecidableEq, Repr

/-- `str::parse::<u64>` / `<u32>`: optional `+`, at least one digit, only digits, value below `bound` -/
def parseUInt (bound : Nat) (s : Str) : Option Nat :=
  let ds := match s with | '+' :: r => r | r => r
  if ds = [] then none
  else if ds.all Char.isDigit then
    let v := ds.foldl (fun a c => a * 10 + (c.toNat - 48)) 0
    if v < bound then some v else none
  else none

def kOtpauth : Str := ['o','t','p','a','u','t','h']
def kSecret : Str := ['s','e','c','r','e','t']
def kIssuer : Str := ['i','s','s','u','e','r']
def kPeriod : Str := ['p','e','r','i','o','d']
def kDigits : Str := ['d','i','g','i','t','s']
def kAlgorithm : Str := ['a','l','g','o','r','i','t','h','m']

def parseAlg (s : Str) : Option Alg :=
  if s = ['S','H','A','1'] then some .sha1 else if s = ['S','H','A','2','5','6'] then some .sha256
  else if s = ['S','H','A','5','1','2'] then some .sha512 else none

structure Acc where
  secret : Option Str := none
  issuer : Option Str := none
  period : Nat := 30
  digits : Nat := 8
  alg : Alg := .sha1

/-- one iteration of the `for pair in query_pairs` loop (after the repair: a zero period is a number
    error, `NonZeroU64`) -/
def stepPair (a : Acc) (kv : Str × Str) : Except ParseErr Acc :=
  let (k, v) := kv
  if k = kSecret then .ok { a with secret := some v }
  else if k = kIssuer then .ok { a with issuer := some v }
  else if k = kPeriod then
    match parseUInt (2 ^ 64) v with
    | some p => if p = 0 then .error .int else .ok { a with period := p }
    | none => .error .int
  else if k = kDigits then
    match parseUInt (2 ^ 32) v with
    | some d => .ok { a with digits := d }
    | none => .error .int
  else if k = kAlgorithm then
    match parseAlg v with
    | some g => .ok { a with alg := g }
    | none => .error .algorithm
  else .ok a

def foldPairs : Acc → List (Str × Str) → Except ParseErr Acc
  | a, [] => .ok a
  | a, kv :: rest =>
    match stepPair a kv with
    | .ok a' => foldPairs a' rest
    | .error e => .error e

/-- `TOTP::from_str` given the URL's scheme, raw path and decoded query pairs -/
def fromParts (scheme path : Str) (pairs : List (Str × Str)) : Except ParseErr Totp :=
  if scheme ≠ kOtpauth then .error .scheme
  else
    match foldPairs {} pairs with
    | .error e => .error e
    | .ok a =>
      match a.secret with
      | none => .error .missingSecret
      | some s =>
        match b32Decode s with
        | none => .error .base32
        | some sec =>
          .ok { label := path.dropWhile (· = '/'), issuer := a.issuer,
                period := a.period, digits := a.digits, alg := a.alg, secret := sec }

/-- `TOTP::get_secret` -/
def getSecret (t : Totp) : Str := b32Encode t.secret

end Kp.Totp
