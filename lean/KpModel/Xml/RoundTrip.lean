import KpModel.Xml.Dump
import KpModel.Xml.Parse
import KpModel.Codec.Lemmas
import KpModel.Props.C08
/-
Lemmas for the struct-level XML round trip (C03): what the writer emits for a value, seen through the xml-rs
contract (`view`), is read back by the corresponding `FromXml` parser as the value.

Two Hoare-style judgements: `Dumps d stk off ords r evs stk' off' ords'` (the writer action `d` returns `r`,
appends events that the reader delivers as `evs`, moves the inner-stream cursor and the pending map orders) and
`Reads p evs off a off'` (the parser `p` consumes exactly `evs`, returns `a` and moves the cursor).
-/
namespace Kp.Xml
open Kp.Fmt Kp.Codec


def plainChar (c : Char) : Bool := !invalidXmlChar c && !isXmlWs c

theorem b64Char_mem (v : Nat) : b64Char v ∈ b64Alphabet := by
  unfold b64Char
  rw [List.getD_eq_getElem?_getD]
  cases h : b64Alphabet[v]? with
  | none => decide
  | some c => exact List.mem_of_getElem? h

theorem plain_alphabet : ∀ c ∈ '=' :: b64Alphabet, plainChar c = true := by decide

theorem plain_b64Char (v : Nat) : plainChar (b64Char v) = true :=
  plain_alphabet _ (List.mem_cons_of_mem _ (b64Char_mem v))

theorem plain_b64Encode (b : Bytes) : ∀ c ∈ b64Encode b, plainChar c = true := by
  fun_induction b64Encode b with
  | case1 => intro c h; cases h
  | case2 a => intro c h; simp at h; rcases h with h | h | h <;> subst h <;> first | exact plain_b64Char _ | decide
  | case3 a b => intro c h; simp at h; rcases h with h | h | h | h <;> subst h <;> first | exact plain_b64Char _ | decide
  | case4 a b c rest ih =>
    intro x h; simp at h
    rcases h with h | h | h | h | h
    · subst h; exact plain_b64Char _
    · subst h; exact plain_b64Char _
    · subst h; exact plain_b64Char _
    · subst h; exact plain_b64Char _
    · exact ih x h

/-- a string of plain characters is delivered as it is -/
theorem any_invalid_of_plain (l : List Char) (h : ∀ c ∈ l, plainChar c = true) : l.any invalidXmlChar = false := by
  rw [List.any_eq_false]; intro c hc; have := h c hc; simp [plainChar] at this; simp [this.1]

theorem all_ws_of_plain (l : List Char) (hne : l ≠ []) (h : ∀ c ∈ l, plainChar c = true) : l.all isXmlWs = false := by
  cases l with
  | nil => exact absurd rfl hne
  | cons c cs => have := h c List.mem_cons_self; simp [plainChar] at this; simp [this.2]



theorem foldDigits_toDigits (n : Nat) :
    (Nat.toDigits 10 n).foldl (fun a c => a * 10 + (c.toNat - 48)) 0 = n := by
  induction n using Nat.strongRecOn with
  | _ n ih =>
    rw [Nat.toDigits_eq_if (by decide)]
    split
    · rename_i h
      simp [Nat.toNat_digitChar_sub_48_of_lt_ten h]
    · rename_i h
      rw [List.foldl_append, ih (n / 10) (by omega)]
      simp [Nat.toNat_digitChar_sub_48_of_lt_ten (Nat.mod_lt n (by decide : 0 < 10))]
      omega

theorem digitsToNat_toDigits (n : Nat) : digitsToNat (Nat.toDigits 10 n) = some n := by
  unfold digitsToNat
  have h1 : (Nat.toDigits 10 n).all Char.isDigit = true := by
    rw [List.all_eq_true]; intro c hc; exact Nat.isDigit_of_mem_toDigits (by decide) (by decide) hc
  have h2 : (Nat.toDigits 10 n).isEmpty = false := by
    cases h : Nat.toDigits 10 n with
    | nil => exact absurd h Nat.toDigits_ne_nil
    | cons _ _ => rfl
  simp [h1, h2, foldDigits_toDigits]

theorem toDigits_head_ne_plus (n : Nat) : ∀ r, Nat.toDigits 10 n ≠ '+' :: r := by
  intro r h
  have : ('+' : Char) ∈ Nat.toDigits 10 n := by rw [h]; exact List.mem_cons_self
  have := Nat.isDigit_of_mem_toDigits (by decide) (by decide) this
  exact absurd this (by decide)

theorem toDigits_head_ne_minus (n : Nat) : ∀ r, Nat.toDigits 10 n ≠ '-' :: r := by
  intro r h
  have : ('-' : Char) ∈ Nat.toDigits 10 n := by rw [h]; exact List.mem_cons_self
  have := Nat.isDigit_of_mem_toDigits (by decide) (by decide) this
  exact absurd this (by decide)

theorem usize_roundtrip (n : Nat) (h : n < 18446744073709551616) : parseUsize (toString n) = some n := by
  unfold parseUsize
  simp only [Nat.toString_eq_repr, Nat.toList_repr]
  split
  · rename_i v hv
    split at hv
    · rename_i r heq; exact absurd heq (toDigits_head_ne_plus n r)
    · rw [digitsToNat_toDigits] at hv
      cases hv; simp [h]
  · rename_i hv
    split at hv
    · rename_i r heq; exact absurd heq (toDigits_head_ne_plus n r)
    · rw [digitsToNat_toDigits] at hv
      cases hv

/-! ### reader side -/

/-- `p` consumes exactly `evs` (whatever follows), returns `a` and moves the cursor from `off` to `off'` -/
def Reads {α : Type} (p : P α) (evs : List Ev) (off : Nat) (a : α) (off' : Nat) : Prop :=
  ∀ rest, p ⟨evs ++ rest, off⟩ = .ok (a, ⟨rest, off'⟩)

theorem P_bind_ok {α β : Type} (p : P α) (f : α → P β) (s s' : PSt) (a : α) (h : p s = .ok (a, s')) :
    (p >>= f) s = f a s' := by
  show (p s >>= fun x => f x.1 x.2) = _
  rw [h]; rfl

theorem Reads.bind {α β : Type} {p : P α} {f : α → P β} {e1 e2 : List Ev} {o1 o2 o3 : Nat} {a : α} {b : β}
    (h1 : Reads p e1 o1 a o2) (h2 : Reads (f a) e2 o2 b o3) : Reads (p >>= f) (e1 ++ e2) o1 b o3 := by
  intro rest
  rw [List.append_assoc, P_bind_ok _ _ _ _ _ (h1 (e2 ++ rest))]
  exact h2 rest

theorem Reads.pure {α : Type} (a : α) (off : Nat) : Reads (pure a : P α) [] off a off := by
  intro rest; rfl

/-- the characters of an element whose text is `s` as the reader delivers them -/
def txt (s : String) : List Ev := if s.toList.all isXmlWs then [] else [.chars s]

def el (name : String) (inner : List Ev) : List Ev := .start name [] :: inner ++ [.stop name]

theorem reads_next (e : Ev) (off : Nat) : Reads next [e] off e off := by intro rest; rfl


def Parses (k : Kind) (s : String) (v : Scalar) : Prop := ∀ st, fromChars k s st = .ok (v, st)

theorem reads_tagReq (k : Kind) (n s : String) (v : Scalar) (off : Nat) (h : Parses k s v) :
    Reads (tagReq k) (el n [.chars s]) off v off := by
  intro rest
  simp only [tagReq, simpleTag, scalarReq, el, bind, StateT.bind, next, List.cons_append, List.nil_append, h _,
    Outcome.bind, pure, StateT.pure, ite_true]

theorem reads_tagOpt_some (k : Kind) (n s : String) (v : Scalar) (off : Nat) (h : Parses k s v) :
    Reads (tagOpt k) (el n [.chars s]) off (some v) off := by
  intro rest
  simp only [tagOpt, simpleTag, scalarOpt, el, bind, StateT.bind, next, peek, List.cons_append, List.nil_append, h _,
    Outcome.bind, pure, StateT.pure, ite_true, List.head?]

theorem reads_tagOpt_none (k : Kind) (n : String) (off : Nat) :
    Reads (tagOpt k) (el n []) off none off := by
  intro rest
  simp only [tagOpt, simpleTag, scalarOpt, el, bind, StateT.bind, next, peek, List.cons_append, List.nil_append,
    Outcome.bind, pure, StateT.pure, ite_true, List.head?]


theorem structLoop_step {σ : Type} (self : String) (dispatch : String → σ → Option (P σ)) (unknown : σ → P σ)
    (fuel : Nat) (acc acc' : σ) (name : String) (attrs : List (String × String)) (evs : List Ev) (off : Nat)
    (p : P σ) (s' : PSt) (hd : dispatch name acc = some p) (hp : p ⟨.start name attrs :: evs, off⟩ = .ok (acc', s')) :
    structLoop self dispatch unknown (fuel + 1) acc ⟨.start name attrs :: evs, off⟩
      = structLoop self dispatch unknown fuel acc' s' := by
  conv => lhs; unfold structLoop
  simp only [bind, StateT.bind, peek, List.head?, Outcome.bind, hd, hp]

theorem structLoop_stop {σ : Type} (self : String) (dispatch : String → σ → Option (P σ)) (unknown : σ → P σ)
    (fuel : Nat) (acc : σ) (rest : List Ev) (off : Nat) :
    structLoop self dispatch unknown (fuel + 1) acc ⟨.stop self :: rest, off⟩ = .ok (acc, ⟨rest, off⟩) := by
  conv => lhs; unfold structLoop
  simp only [bind, StateT.bind, peek, List.head?, Outcome.bind, next, ite_true, pure, StateT.pure]

/-- one child element handled by the loop: the child parser reads `evs` -/
theorem structLoop_child {σ : Type} (self : String) (dispatch : String → σ → Option (P σ)) (unknown : σ → P σ)
    (fuel : Nat) (acc acc' : σ) (name : String) (attrs : List (String × String)) (evs rest : List Ev) (off off' : Nat)
    (p : P σ) (hf : 0 < fuel) (hd : dispatch name acc = some p) (hp : Reads p (.start name attrs :: evs) off acc' off') :
    structLoop self dispatch unknown fuel acc ⟨.start name attrs :: evs ++ rest, off⟩
      = structLoop self dispatch unknown (fuel - 1) acc' ⟨rest, off'⟩ := by
  obtain ⟨k, rfl⟩ : ∃ k, fuel = k + 1 := ⟨fuel - 1, by omega⟩
  exact structLoop_step self dispatch unknown k acc acc' name attrs (evs ++ rest) off p _ hd (hp rest)

theorem structLoop_child' {σ : Type} {self : String} {dispatch : String → σ → Option (P σ)} {unknown : σ → P σ}
    {fuel : Nat} {acc : σ} {s : PSt} (acc' : σ) (name : String) (attrs : List (String × String)) (evs rest : List Ev)
    (off off' : Nat) (p : P σ) (hs : s = ⟨.start name attrs :: evs ++ rest, off⟩)
    (hf : 0 < fuel) (hd : dispatch name acc = some p) (hp : Reads p (.start name attrs :: evs) off acc' off') :
    structLoop self dispatch unknown fuel acc s
      = structLoop self dispatch unknown (fuel - 1) acc' ⟨rest, off'⟩ := by
  subst hs
  exact structLoop_child self dispatch unknown fuel acc acc' name attrs evs rest off off' p hf hd hp

theorem structLoop_end {σ : Type} (self : String) (dispatch : String → σ → Option (P σ)) (unknown : σ → P σ)
    (fuel : Nat) (acc : σ) (rest : List Ev) (off : Nat) (hf : 0 < fuel) :
    structLoop self dispatch unknown fuel acc ⟨.stop self :: rest, off⟩ = .ok (acc, ⟨rest, off⟩) := by
  obtain ⟨k, rfl⟩ : ∃ k, fuel = k + 1 := ⟨fuel - 1, by omega⟩
  exact structLoop_stop self dispatch unknown k acc rest off

theorem parses_text (s : String) : Parses .text s (.text s) := fun _ => rfl
theorem parses_bool (b : Bool) : Parses .bool (boolText b) (.bool b) := by
  intro st; simp only [fromChars, bool_roundtrip]; rfl
theorem parses_usize (n : Nat) (h : n < 18446744073709551616) : Parses .usize (toString n) (.nat n) := by
  intro st; simp only [fromChars, usize_roundtrip n h]; rfl
theorem parses_time (t : Int) (h1 : minDateTime ≤ t) (h2 : t ≤ maxDateTime) :
    Parses .time (formatTimestamp t) (.time t) := by
  intro st; simp only [fromChars, timestamp_roundtrip t h1 h2]
theorem parses_uuid (u : Bytes) (h : u.length = 16) : Parses .uuid (b64Text u) (.uuid u) := by
  intro st; simp only [fromChars, uuid_roundtrip u h]; rfl

/-! ### `Times` -/

def TimeOk (t : Int) : Prop := minDateTime ≤ t ∧ t ≤ maxDateTime

def evTimeItems (l : List (String × Int)) : List Ev :=
  l.flatMap fun p => el p.1 [.chars (formatTimestamp p.2)]

def evTimes (l : List (String × Int)) (t : Times) : List Ev :=
  el "Times" (evTimeItems l ++ (el "Expires" [.chars (boolText t.expires)] ++ el "UsageCount" [.chars (toString t.usageCount)]))

def timesDispatch : String → Times → Option (P Times) := fun name acc =>
    if name = "Expires" then some (do pure { acc with expires := (← tagReq .bool).toBool })
    else if name = "UsageCount" then some (do pure { acc with usageCount := (← tagReq .usize).toNat })
    else some (do
      let (n, v) ← simpleTag (scalarReq .time)
      pure { acc with times := mapInsert acc.times n v.toTime })

theorem parseTimes_eq : parseTimes = (do
    let _ ← expectStart "Times"
    structLoop "Times" timesDispatch rejectUnknown (← fuelOf) {}) := rfl

def insertAll {β : Type} (m : List (String × β)) (l : List (String × β)) : List (String × β) :=
  l.foldl (fun m p => mapInsert m p.1 p.2) m

theorem evTimeItems_length (l : List (String × Int)) : (evTimeItems l).length = 3 * l.length := by
  induction l with
  | nil => rfl
  | cons p l ih => simp [evTimeItems, el, List.flatMap_cons] at ih ⊢; omega

theorem timesLoop_items (l : List (String × Int)) :
    ∀ (fuel : Nat) (acc : Times) (rest : List Ev) (off : Nat), l.length ≤ fuel →
    (∀ p ∈ l, p.1 ≠ "Expires" ∧ p.1 ≠ "UsageCount" ∧ TimeOk p.2) →
    structLoop "Times" timesDispatch rejectUnknown fuel acc ⟨evTimeItems l ++ rest, off⟩
      = structLoop "Times" timesDispatch rejectUnknown (fuel - l.length) { acc with times := insertAll acc.times l } ⟨rest, off⟩ := by
  induction l with
  | nil => intro fuel acc rest off _ _; rfl
  | cons p l ih =>
    intro fuel acc rest off hf h
    have hp := h p List.mem_cons_self
    have : evTimeItems (p :: l) ++ rest = .start p.1 [] :: ([.chars (formatTimestamp p.2), .stop p.1]) ++ (evTimeItems l ++ rest) := by
      simp [evTimeItems, el]
    rw [this]
    simp only [List.length_cons] at hf
    rw [structLoop_child "Times" timesDispatch rejectUnknown fuel acc
      { acc with times := mapInsert acc.times p.1 p.2 } p.1 [] _ _ off off _ (by omega) (by simp [timesDispatch, hp.1, hp.2.1]; rfl)]
    · rw [ih (fuel - 1) _ rest off (by omega) (fun q hq => h q (List.mem_cons_of_mem _ hq))]
      simp only [List.length_cons, Nat.sub_sub, Nat.add_comm 1]
      rfl
    · intro rest'
      simp only [simpleTag, scalarReq, bind, StateT.bind, next, List.cons_append, List.nil_append,
        parses_time p.2 hp.2.2.1 hp.2.2.2 _, Outcome.bind, pure, StateT.pure, ite_true, Scalar.toTime]

theorem reads_expectStart (tag : String) (attrs : List (String × String)) (off : Nat) :
    Reads (expectStart tag) [.start tag attrs] off attrs off := by
  intro rest
  simp only [expectStart, bind, StateT.bind, next, List.cons_append, List.nil_append, Outcome.bind, ite_true, pure,
    StateT.pure]

theorem reads_times (l : List (String × Int)) (t : Times) (off : Nat)
    (h : ∀ p ∈ l, p.1 ≠ "Expires" ∧ p.1 ≠ "UsageCount" ∧ TimeOk p.2) (hu : t.usageCount < 18446744073709551616) :
    Reads parseTimes (evTimes l t) off ⟨t.expires, t.usageCount, insertAll [] l⟩ off := by
  intro rest
  rw [parseTimes_eq]
  simp only [evTimes, el, List.cons_append, bind, StateT.bind, expectStart, next, Outcome.bind, ite_true, pure, StateT.pure,
    fuelOf, get, getThe, MonadStateOf.get, StateT.get]
  simp only [List.append_assoc, List.cons_append, List.nil_append]
  rw [timesLoop_items l _ _ _ off (by simp [evTimeItems_length]; omega) h]
  refine (structLoop_child' (acc' := { times := insertAll [] l, expires := t.expires }) _ _ [.chars (boolText t.expires), .stop "Expires"] _ _ off _ (by rfl)
    (by simp [evTimeItems_length]; omega) (by simp [timesDispatch]; rfl)
    (Reads.bind (reads_tagReq .bool "Expires" _ _ off (parses_bool t.expires)) (Reads.pure _ off))).trans ?_
  refine (structLoop_child' (acc' := { times := insertAll [] l, expires := t.expires, usageCount := t.usageCount }) _ _ [.chars (toString t.usageCount), .stop "UsageCount"] _ _ off _ (by rfl)
    (by simp [evTimeItems_length]; omega) (by simp [timesDispatch]; rfl)
    (Reads.bind (reads_tagReq .usize "UsageCount" _ _ off (parses_usize _ hu)) (Reads.pure _ off))).trans ?_
  rw [structLoop_end _ _ _ _ _ _ _ (by simp [evTimeItems_length]; omega)]




/-! ### writer side -/

abbrev Ords := List (List String)

/-- `d`, started with cursor `off` and pending map orders `ords`, returns `r`, appends `w` to the output and leaves
    cursor `off'` and orders `ords'` -/
def Run {β : Type} (d : D β) (off : Nat) (ords : Ords) (r : β) (w : List WEv) (off' : Nat) (ords' : Ords) : Prop :=
  ∀ out, d ⟨off, ords, out⟩ = (r, ⟨off', ords', out ++ w⟩)

/-- … and the reader delivers what was written as `evs`, the stack of open elements going from `stk` to `stk'` -/
def Dumps {β : Type} (d : D β) (stk : List String) (off : Nat) (ords : Ords) (r : β) (evs : List Ev)
    (stk' : List String) (off' : Nat) (ords' : Ords) : Prop :=
  ∃ w, Run d off ords r w off' ords' ∧ ∀ rest, view (w ++ rest) stk = evs ++ view rest stk'

theorem Dumps.pure {β : Type} (a : β) (stk : List String) (off : Nat) (ords : Ords) :
    Dumps (pure a : D β) stk off ords a [] stk off ords :=
  ⟨[], fun out => by simp [Pure.pure, StateT.pure], fun _ => rfl⟩

theorem Dumps.bind {α β : Type} {d : D α} {f : α → D β} {s1 s2 s3 : List String} {o1 o2 o3 : Nat} {q1 q2 q3 : Ords}
    {a : α} {b : β} {e1 e2 : List Ev}
    (h1 : Dumps d s1 o1 q1 a e1 s2 o2 q2) (h2 : Dumps (f a) s2 o2 q2 b e2 s3 o3 q3) :
    Dumps (d >>= f) s1 o1 q1 b (e1 ++ e2) s3 o3 q3 := by
  obtain ⟨w1, r1, v1⟩ := h1
  obtain ⟨w2, r2, v2⟩ := h2
  refine ⟨w1 ++ w2, fun out => ?_, fun rest => ?_⟩
  · show (match d ⟨o1, q1, out⟩ with | (a, s) => f a s) = _
    rw [r1 out]; simp only [r2 (out ++ w1), List.append_assoc]
  · rw [List.append_assoc, v1, v2, List.append_assoc]

theorem Dumps.emit_start (n : String) (attrs : List (String × String)) (stk : List String) (off : Nat) (ords : Ords)
    (hn : validXmlName n = true) (ha : attrs.any (fun a => a.2.toList.any invalidXmlChar) = false) :
    Dumps (emit (.start n attrs)) stk off ords () [.start n attrs] (n :: stk) off ords :=
  ⟨[.start n attrs], fun _ => rfl, fun rest => by simp [view, hn, ha]⟩

theorem Dumps.emit_stop (n : String) (stk : List String) (off : Nat) (ords : Ords) :
    Dumps (emit .stop) (n :: stk) off ords () [.stop n] stk off ords :=
  ⟨[.stop], fun _ => rfl, fun rest => by simp [view]⟩

abbrev XmlText (s : String) : Prop := s.toList.any invalidXmlChar = false

theorem Dumps.emit_chars (s : String) (stk : List String) (off : Nat) (ords : Ords) (hs : XmlText s) :
    Dumps (emit (.chars s)) stk off ords () (txt s) stk off ords :=
  ⟨[.chars s], fun _ => rfl, fun rest => by
    unfold XmlText at hs
    by_cases hw : s.toList.all isXmlWs = true <;> simp [view, hs, txt, hw]⟩


theorem txt_empty : txt "" = [] := by decide

theorem view_chars (s : String) (rest : List WEv) (stk : List String) (hs : XmlText s) :
    view (.chars s :: rest) stk = txt s ++ view rest stk := by
  unfold XmlText at hs
  by_cases hw : s.toList.all isXmlWs = true <;> simp [view, hs, txt, hw]

theorem view_start (n : String) (rest : List WEv) (stk : List String) (hn : validXmlName n = true) :
    view (.start n [] :: rest) stk = .start n [] :: view rest (n :: stk) := by
  simp [view, hn]

theorem view_stop (n : String) (rest : List WEv) (stk : List String) :
    view (.stop :: rest) (n :: stk) = .stop n :: view rest stk := by
  simp [view]

theorem emit_run (e : WEv) (off : Nat) (ords : Ords) (out : List WEv) :
    emit e ⟨off, ords, out⟩ = ((), ⟨off, ords, out ++ [e]⟩) := rfl
theorem D_bind_run {α β : Type} (d : D α) (f : α → D β) (s : DSt) : (d >>= f) s = f (d s).1 (d s).2 := rfl
theorem D_pure_run {α : Type} (a : α) (s : DSt) : (pure a : D α) s = (a, s) := rfl

theorem Dumps.tagRaw (n s : String) (stk : List String) (off : Nat) (ords : Ords)
    (hn : validXmlName n = true) (hs : XmlText s) :
    Dumps (tagRaw n s) stk off ords () (el n (txt s)) stk off ords :=
  ⟨[.start n [], .chars s, .stop], fun out => by
    simp only [Kp.Xml.tagRaw, D_bind_run, emit_run, List.append_assoc, List.cons_append, List.nil_append],
   fun rest => by
    show view (.start n [] :: .chars s :: .stop :: rest) stk = _
    rw [view_start _ _ _ hn, view_chars _ _ _ hs, view_stop]; simp [el]⟩

theorem Dumps.tagText (n s : String) (stk : List String) (off : Nat) (ords : Ords)
    (hn : validXmlName n = true) (hs : XmlText s) :
    Dumps (tagText n s) stk off ords () (el n (txt s)) stk off ords := by
  by_cases he : s.isEmpty = true
  · have hs' : s = "" := by simpa using he
    subst hs'
    exact ⟨[.start n [], .stop], fun out => by
        simp only [Kp.Xml.tagText, he, Bool.not_true, Bool.false_eq_true, if_false, D_bind_run, emit_run, List.append_assoc, List.cons_append, List.nil_append],
      fun rest => by
        show view (.start n [] :: .stop :: rest) stk = _
        rw [view_start _ _ _ hn, view_stop]; simp [el, txt_empty]⟩
  · refine ⟨[.start n [], .chars s, .stop], fun out => ?_, fun rest => ?_⟩
    · simp only [Kp.Xml.tagText, he, Bool.not_false, if_true, D_bind_run, emit_run, List.append_assoc, List.cons_append, List.nil_append]
    · show view (.start n [] :: .chars s :: .stop :: rest) stk = _
      rw [view_start _ _ _ hn, view_chars _ _ _ hs, view_stop]; simp [el]


def pickOrder {β : Type} (o : List String) (m : List (String × β)) : List (String × β) :=
  (o.filterMap fun k => m.find? (·.1 == k)) ++ m.filter fun p => !o.contains p.1

def ordered {β : Type} : Ords → List (String × β) → List (String × β)
  | [], m => m
  | o :: _, m => pickOrder o m

theorem Dumps.orderMap {β : Type} (m : List (String × β)) (stk : List String) (off : Nat) (ords : Ords) :
    Dumps (orderMap m) stk off ords (ordered ords m) [] stk off ords.tail := by
  refine ⟨[], fun out => ?_, fun _ => rfl⟩
  cases ords with
  | nil => simp [Kp.Xml.orderMap, D_bind_run, get, getThe, MonadStateOf.get, StateT.get, ordered]; rfl
  | cons o rest => simp [Kp.Xml.orderMap, D_bind_run, get, getThe, MonadStateOf.get, StateT.get, ordered, set, pickOrder]; rfl




abbrev NameOk (n : String) : Prop := validXmlName n = true

theorem xmlText_of_plain (s : String) (h : ∀ c ∈ s.toList, plainChar c = true) : XmlText s :=
  any_invalid_of_plain _ h

theorem txt_of_plain (s : String) (hne : s.toList ≠ []) (h : ∀ c ∈ s.toList, plainChar c = true) :
    txt s = [.chars s] := by
  simp [txt, all_ws_of_plain _ hne h]

theorem plain_b64Text (b : Bytes) : ∀ c ∈ (b64Text b).toList, plainChar c = true := by
  simp only [b64Text, String.toList_ofList]; exact plain_b64Encode b

theorem xmlText_b64 (b : Bytes) : XmlText (b64Text b) := xmlText_of_plain _ (plain_b64Text b)

theorem xmlText_bool (b : Bool) : XmlText (boolText b) := by cases b <;> decide

theorem plain_digit (c : Char) (h : c.isDigit = true) : plainChar c = true := by
  have h' : 48 ≤ c.toNat ∧ c.toNat ≤ 57 := by
    simp [Char.isDigit, UInt32.le_iff_toNat_le] at h; exact h
  simp [plainChar, invalidXmlChar, isXmlWs]
  refine ⟨⟨⟨⟨⟨⟨by omega, by omega⟩, by omega⟩, by omega⟩, by omega⟩, by omega⟩, ?_⟩
  refine ⟨⟨⟨?_, ?_⟩, ?_⟩, ?_⟩ <;> (intro hc; subst hc; simp at h')

theorem plain_nat (n : Nat) : ∀ c ∈ (toString n).toList, plainChar c = true := by
  simp only [Nat.toString_eq_repr, Nat.toList_repr]
  intro c hc; exact plain_digit c (Nat.isDigit_of_mem_toDigits (by decide) (by decide) hc)

theorem xmlText_nat (n : Nat) : XmlText (toString n) := xmlText_of_plain _ (plain_nat n)

theorem b64Encode_ne_nil (b : Bytes) (h : b ≠ []) : b64Encode b ≠ [] := by
  intro e
  have := congrArg List.length e
  rw [b64Encode_length] at this
  cases b with
  | nil => exact h rfl
  | cons x xs => simp at this; omega

theorem txt_b64 (b : Bytes) (h : b ≠ []) : txt (b64Text b) = [.chars (b64Text b)] :=
  txt_of_plain _ (by simp only [b64Text, String.toList_ofList]; exact b64Encode_ne_nil b h) (plain_b64Text b)
theorem txt_bool (b : Bool) : txt (boolText b) = [.chars (boolText b)] := by cases b <;> decide
theorem txt_nat (n : Nat) : txt (toString n) = [.chars (toString n)] :=
  txt_of_plain _ (by simp only [Nat.toString_eq_repr, Nat.toList_repr]; exact Nat.toDigits_ne_nil) (plain_nat n)
theorem txt_time (t : Int) : txt (formatTimestamp t) = [.chars (formatTimestamp t)] := by
  have : formatTimestamp t = b64Text (toLeI64 (t - baseline)) := rfl
  rw [this]
  exact txt_b64 _ (by intro e; have := congrArg List.length e; rw [toLeI64_length] at this; simp at this)

theorem dumps_timeItems (stk : List String) (off : Nat) (ords : Ords) (l : List (String × Int))
    (hn : ∀ p ∈ l, NameOk p.1) :
    Dumps (forIn l PUnit.unit fun x (_ : PUnit) =>
          match x with
          | (n, v) => do
            tagRaw n (formatTimestamp v)
            pure (ForInStep.yield PUnit.unit)) stk off ords PUnit.unit (evTimeItems l) stk off ords := by
  induction l with
  | nil => exact Dumps.pure _ _ _ _
  | cons p l ih =>
    obtain ⟨n, v⟩ := p
    rw [List.forIn_cons]
    have h1 := Dumps.tagRaw n (formatTimestamp v) stk off ords (hn (n, v) List.mem_cons_self) (xmlText_b64 _)
    rw [txt_time] at h1
    have e : evTimeItems ((n, v) :: l) = (el n [.chars (formatTimestamp v)] ++ []) ++ evTimeItems l := by
      simp [evTimeItems, List.flatMap_cons]
    rw [e]
    exact Dumps.bind (Dumps.bind h1 (Dumps.pure _ _ _ _)) (ih (fun q hq => hn q (List.mem_cons_of_mem _ hq)))

theorem dumps_times (t : Times) (stk : List String) (off : Nat) (ords : Ords)
    (hn : ∀ p ∈ ordered ords t.times, NameOk p.1) :
    Dumps (dumpTimes t) stk off ords () (evTimes (ordered ords t.times) t) stk off ords.tail := by
  unfold dumpTimes
  suffices h : Dumps _ stk off ords () ([.start "Times" []] ++ ([] ++ (evTimeItems (ordered ords t.times) ++
      (el "Expires" [.chars (boolText t.expires)] ++ (el "UsageCount" [.chars (toString t.usageCount)] ++ [.stop "Times"])))))
      stk off ords.tail by
    have e : evTimes (ordered ords t.times) t = [.start "Times" []] ++ ([] ++ (evTimeItems (ordered ords t.times) ++
      (el "Expires" [.chars (boolText t.expires)] ++ (el "UsageCount" [.chars (toString t.usageCount)] ++ [.stop "Times"])))) := by
      simp [evTimes, el]
    rw [e]; exact h
  refine Dumps.bind (Dumps.emit_start "Times" [] stk off ords (by decide) rfl) ?_
  refine Dumps.bind (Dumps.orderMap t.times _ off ords) ?_
  refine Dumps.bind (dumps_timeItems _ off _ _ hn) ?_
  refine Dumps.bind (by have := Dumps.tagRaw "Expires" (boolText t.expires) ("Times" :: stk) off ords.tail (by decide) (xmlText_bool _); rwa [txt_bool] at this) ?_
  refine Dumps.bind (by have := Dumps.tagRaw "UsageCount" (toString t.usageCount) ("Times" :: stk) off ords.tail (by decide) (xmlText_nat _); rwa [txt_nat] at this) ?_
  exact Dumps.emit_stop "Times" stk off ords.tail


/-! ### association lists as maps -/

theorem lookup_filter_ne {β : Type} (m : List (String × β)) (k k' : String) (h : k' ≠ k) :
    (m.filter (fun p => p.1 != k)).lookup k' = m.lookup k' := by
  induction m with
  | nil => rfl
  | cons p m ih =>
    obtain ⟨a, b⟩ := p
    by_cases ha : a = k
    · subst ha
      have : (k' == a) = false := by simpa using h
      simp [List.lookup_cons, this, ih]
    · have : (a != k) = true := by simpa using ha
      simp only [List.filter_cons, this, if_true, List.lookup_cons, ih]

theorem lookup_filter_self {β : Type} (m : List (String × β)) (k : String) :
    (m.filter (fun p => p.1 != k)).lookup k = none := by
  induction m with
  | nil => rfl
  | cons p m ih =>
    obtain ⟨a, b⟩ := p
    by_cases ha : a = k
    · subst ha; simp [ih]
    · have h1 : (a != k) = true := by simpa using ha
      have h2 : (k == a) = false := by simpa using fun h => ha h.symm
      simp only [List.filter_cons, h1, if_true, List.lookup_cons, h2, ih]

theorem lookup_append' {β : Type} (l1 l2 : List (String × β)) (k : String) :
    (l1 ++ l2).lookup k = (match l1.lookup k with | some v => some v | none => l2.lookup k) := by
  induction l1 with
  | nil => rfl
  | cons p l ih =>
    obtain ⟨a, b⟩ := p
    by_cases h : (k == a) = true
    · simp [List.lookup_cons, h]
    · have h' : (k == a) = false := by simpa using h
      simp only [List.cons_append, List.lookup_cons, h', ih]

theorem lookup_mapInsert {β : Type} (m : List (String × β)) (k k' : String) (v : β) :
    (mapInsert m k v).lookup k' = if k' = k then some v else m.lookup k' := by
  unfold mapInsert
  rw [lookup_append']
  by_cases h : k' = k
  · subst h; simp [lookup_filter_self]
  · have : (k' == k) = false := by simpa using h
    rw [lookup_filter_ne _ _ _ h]
    simp only [h, if_false, List.lookup_cons, this, List.lookup_nil]
    cases m.lookup k' <;> rfl

/-- the last binding of `k` in `l` -/
def lookupLast {β : Type} (k : String) : List (String × β) → Option β
  | [] => none
  | p :: l => match lookupLast k l with
    | some v => some v
    | none => if k = p.1 then some p.2 else none

theorem lookup_insertAll {β : Type} (l : List (String × β)) : ∀ (m : List (String × β)) (k : String),
    (insertAll m l).lookup k = (match lookupLast k l with | some v => some v | none => m.lookup k) := by
  induction l with
  | nil => intro m k; rfl
  | cons p l ih =>
    intro m k
    show (insertAll (mapInsert m p.1 p.2) l).lookup k = _
    rw [ih, lookup_mapInsert]
    simp only [lookupLast]
    cases lookupLast k l with
    | some w => rfl
    | none => by_cases hk : k = p.1 <;> simp [hk]

theorem lookupLast_some {β : Type} (k : String) (l : List (String × β)) (v : β) (h : lookupLast k l = some v) :
    (k, v) ∈ l := by
  induction l with
  | nil => cases h
  | cons p l ih =>
    simp only [lookupLast] at h
    cases hl : lookupLast k l with
    | some w => rw [hl] at h; cases h; exact List.mem_cons_of_mem _ (ih hl)
    | none =>
      rw [hl] at h
      by_cases hk : k = p.1
      · simp [hk] at h; subst h; rw [hk]; exact List.mem_cons_self
      · simp [hk] at h

theorem lookupLast_none {β : Type} (k : String) (l : List (String × β)) (h : lookupLast k l = none) :
    ∀ v, (k, v) ∉ l := by
  induction l with
  | nil => intro v hv; cases hv
  | cons p l ih =>
    simp only [lookupLast] at h
    cases hl : lookupLast k l with
    | some w => rw [hl] at h; cases h
    | none =>
      rw [hl] at h
      by_cases hk : k = p.1
      · simp [hk] at h
      · intro v hv
        cases hv with
        | head => exact hk rfl
        | tail _ hm => exact ih hl v hm

/-- the keys are pairwise distinct -/
def KeysNodup {β : Type} (m : List (String × β)) : Prop := (m.map (·.1)).Nodup

theorem lookup_of_mem {β : Type} (m : List (String × β)) (hd : KeysNodup m) (k : String) (v : β) (h : (k, v) ∈ m) :
    m.lookup k = some v := by
  induction m with
  | nil => cases h
  | cons p m ih =>
    obtain ⟨a, b⟩ := p
    have hd' : a ∉ m.map (·.1) ∧ KeysNodup m := by simpa [KeysNodup] using hd
    cases h with
    | head => simp [List.lookup_cons]
    | tail _ hm =>
      have : k ≠ a := by
        intro e; subst e; exact hd'.1 (List.mem_map.mpr ⟨(k, v), hm, rfl⟩)
      have : (k == a) = false := by simpa using this
      simp only [List.lookup_cons, this]; exact ih hd'.2 hm

theorem mem_of_lookup {β : Type} (m : List (String × β)) (k : String) (v : β) (h : m.lookup k = some v) : (k, v) ∈ m := by
  induction m with
  | nil => cases h
  | cons p m ih =>
    obtain ⟨a, b⟩ := p
    by_cases hk : (k == a) = true
    · simp [List.lookup_cons, hk] at h; have : k = a := by simpa using hk
      subst h; subst this; exact List.mem_cons_self
    · have hk' : (k == a) = false := by simpa using hk
      simp only [List.lookup_cons, hk'] at h
      exact List.mem_cons_of_mem _ (ih h)

/-- whatever order the map is written in, reading the items back and inserting them one by one gives the same map -/
theorem lookup_insertAll_ordered {β : Type} (ords : Ords) (m : List (String × β)) (hd : KeysNodup m) (k : String) :
    (insertAll [] (ordered ords m)).lookup k = m.lookup k := by
  rw [lookup_insertAll]
  have sub : ∀ p ∈ ordered ords m, p ∈ m := by
    intro p hp
    cases ords with
    | nil => exact hp
    | cons o _ =>
      simp only [ordered, pickOrder, List.mem_append, List.mem_filterMap, List.mem_filter] at hp
      rcases hp with ⟨k', _, hf⟩ | ⟨hm, _⟩
      · exact List.mem_of_find?_eq_some hf
      · exact hm
  have cov : ∀ p ∈ m, p ∈ ordered ords m := by
    intro p hp
    cases ords with
    | nil => exact hp
    | cons o _ =>
      simp only [ordered, pickOrder, List.mem_append, List.mem_filterMap, List.mem_filter]
      by_cases ho : p.1 ∈ o
      · left
        refine ⟨p.1, ho, ?_⟩
        cases hf : m.find? (fun q => q.1 == p.1) with
        | none =>
          have := List.find?_eq_none.mp hf p hp
          simp at this
        | some q =>
          have hq := List.mem_of_find?_eq_some hf
          have hk : q.1 = p.1 := by simpa using List.find?_some hf
          have h1 := lookup_of_mem m hd q.1 q.2 hq
          have h2 := lookup_of_mem m hd p.1 p.2 hp
          rw [hk, h2] at h1
          have : q = p := by
            obtain ⟨qa, qb⟩ := q; obtain ⟨pa, pb⟩ := p
            simp at hk h1; simp [hk, h1]
          rw [this]
      · right; exact ⟨hp, by simpa using ho⟩
  cases hl : lookupLast k (ordered ords m) with
  | some v => simp only; exact (lookup_of_mem m hd k v (sub _ (lookupLast_some k _ v hl))).symm
  | none =>
    simp only [List.lookup_nil]
    cases hm : m.lookup k with
    | none => rfl
    | some v => exact absurd (cov _ (mem_of_lookup m k v hm)) (lookupLast_none k _ hl v)


/-! ### `Value` -/

/-- strings the property speaks about: XML-representable, and either empty or not made of white space only -/
def TextOk (s : String) : Prop := XmlText s ∧ (s = "" ∨ s.toList.all isXmlWs = false)
/-- … and not blank at all -/
def NonBlank (s : String) : Prop := XmlText s ∧ s.toList.all isXmlWs = false

theorem NonBlank.textOk {s : String} (h : NonBlank s) : TextOk s := ⟨h.1, Or.inr h.2⟩
theorem txt_nonBlank {s : String} (h : NonBlank s) : txt s = [.chars s] := by simp [txt, h.2]

def ValueOk : Value → Prop
  | .bytes _ => False
  | .unprotected s => TextOk s
  | .prot _ => True

theorem get_run (s : DSt) : (get : D DSt) s = (s, s) := rfl
theorem set_run (s s' : DSt) : (set s' : D PUnit) s = (PUnit.unit, s') := rfl

/-- the events of a `<Value>` element and the cursor after it -/
def evValue (ks : Nat → Nat → Bytes) (off : Nat) : Value → List Ev × Nat
  | .bytes _ => ([], off)
  | .unprotected s => (el "Value" (txt s), off)
  | .prot p => (.start "Value" [("Protected", "True")] :: txt (b64Text (xorB p (ks off p.length))) ++ [.stop "Value"],
      off + p.length)

theorem dumps_value (env : DEnv) (u : Bytes → Option String) (v : Value) (stk : List String) (off : Nat) (ords : Ords)
    (hv : ValueOk v) :
    Dumps (dumpValue env v u) stk off ords true (evValue env.ks off v).1 stk (evValue env.ks off v).2 ords := by
  cases v with
  | bytes b => exact absurd hv id
  | unprotected s =>
    have := Dumps.bind (f := fun _ => (pure true : D Bool)) (Dumps.tagText "Value" s stk off ords (by decide) hv.1) (Dumps.pure true stk off ords)
    have e : (evValue env.ks off (.unprotected s)).1 = el "Value" (txt s) ++ [] := by simp [evValue]
    rw [e]; exact this
  | prot p =>
    refine ⟨[.start "Value" [("Protected", "True")], .chars (b64Text (xorB p (env.ks off p.length))), .stop], fun out => ?_, fun rest => ?_⟩
    · simp only [dumpValue, D_bind_run, emit_run, D_pure_run, get_run, set_run,
        evValue, List.append_assoc, List.cons_append, List.nil_append]
    · show view (.start "Value" [("Protected", "True")] :: .chars _ :: .stop :: rest) stk = _
      have : view (.start "Value" [("Protected", "True")] :: .chars (b64Text (xorB p (env.ks off p.length))) :: .stop :: rest) stk
          = .start "Value" [("Protected", "True")] :: view (.chars (b64Text (xorB p (env.ks off p.length))) :: .stop :: rest) ("Value" :: stk) := by
        rw [view]
        have h1 : validXmlName "Value" = true := by decide
        have h2 : ([("Protected", "True")] : List (String × String)).any (fun a => a.2.toList.any invalidXmlChar) = false := by decide
        simp only [h1, h2, Bool.not_true, Bool.or_false, Bool.false_eq_true, if_false]
      rw [this, view_chars _ _ _ (xmlText_b64 _), view_stop]
      simp [evValue]


theorem txt_textOk {s : String} (h : TextOk s) : txt s = (if s = "" then [] else [.chars s]) := by
  rcases h.2 with h | h
  · subst h; rfl
  · have : s ≠ "" := by intro e; subst e; simp at h
    simp [txt, h, this]

theorem b64Text_toList (b : Bytes) : (b64Text b).toList = b64Encode b := by simp [b64Text]

theorem reads_value (env : Env) (v : Value) (off : Nat) (hv : ValueOk v) (hks : ∀ o n, (env.ks o n).length = n) :
    Reads (parseValue env) (evValue env.ks off v).1 off v (evValue env.ks off v).2 := by
  intro rest
  cases v with
  | bytes b => exact absurd hv id
  | unprotected s =>
    simp only [evValue, el, txt_textOk hv]
    by_cases hs : s = ""
    · subst hs
      simp [parseValue, bind, StateT.bind, next, Outcome.bind, List.lookup, pure, StateT.pure, scalarOpt, peek, Scalar.str]
    · simp [hs, parseValue, bind, StateT.bind, next, Outcome.bind, List.lookup, pure, StateT.pure, scalarOpt, peek,
        fromChars, Scalar.str]
  | prot p =>
    simp only [evValue]
    have hl : (xorB p (env.ks off p.length)).length = p.length := xorB_length _ _ (hks _ _)
    by_cases hp : p = []
    · subst hp
      have : txt (b64Text (xorB [] (env.ks off 0))) = [] := by simp [xorB, b64Text, b64Encode, txt]
      simp only [List.length_nil, this]
      simp [parseValue, bind, StateT.bind, next, Outcome.bind, List.lookup, pure, StateT.pure, scalarOpt, peek, Scalar.str,
        parseBool, b64Decode, innerDecrypt, xorBytes]
    · have hne : xorB p (env.ks off p.length) ≠ [] := by
        intro e; rw [e] at hl; simp at hl; exact hp (by simpa using hl.symm)
      rw [txt_b64 _ hne]
      have hb : parseBool "True" = some true := by decide
      simp [hb, parseValue, bind, StateT.bind, next, Outcome.bind, List.lookup, pure, StateT.pure, scalarOpt, peek, Scalar.str,
        fromChars, b64Text_toList, b64_roundtrip, innerDecrypt, hl, xor_xor _ _ (hks _ _)]


/-! ### entry fields (`<String>`) -/

def evField (ks : Nat → Nat → Bytes) (off : Nat) (p : String × Value) : List Ev × Nat :=
  (el "String" (el "Key" (txt p.1) ++ (evValue ks off p.2).1), (evValue ks off p.2).2)

def evFields (ks : Nat → Nat → Bytes) : Nat → List (String × Value) → List Ev × Nat
  | off, [] => ([], off)
  | off, p :: l => ((evField ks off p).1 ++ (evFields ks (evField ks off p).2 l).1, (evFields ks (evField ks off p).2 l).2)

def fieldsLoop (env : DEnv) (u : Bytes → Option String) (l : List (String × Value)) (ok : Bool) : D Bool :=
  forIn l ok fun x __s =>
    have ok := __s
    match x with
    | (k, v) => do
      emit (WEv.start "String" [])
      tagText "Key" k
      let __do_lift ← dumpValue env v u
      have ok : Bool := __do_lift && ok
      emit WEv.stop
      pure (ForInStep.yield ok)

theorem dumps_fields (env : DEnv) (u : Bytes → Option String) (stk : List String) (ords : Ords)
    (l : List (String × Value)) : ∀ (off : Nat) (ok : Bool), (∀ p ∈ l, XmlText p.1 ∧ ValueOk p.2) →
    Dumps (fieldsLoop env u l ok) stk off ords ok (evFields env.ks off l).1 stk (evFields env.ks off l).2 ords := by
  induction l with
  | nil => intro off ok _; exact Dumps.pure _ _ _ _
  | cons p l ih =>
    intro off ok h
    obtain ⟨k, v⟩ := p
    have hp := h (k, v) List.mem_cons_self
    unfold fieldsLoop
    rw [List.forIn_cons]
    have e : (evFields env.ks off ((k, v) :: l)).1 =
        ([.start "String" []] ++ (el "Key" (txt k) ++ ((evValue env.ks off v).1 ++ ([.stop "String"] ++ []))))
          ++ (evFields env.ks (evValue env.ks off v).2 l).1 := by
      simp [evFields, evField, el]
    rw [e]
    refine Dumps.bind (s2 := stk) (o2 := (evValue env.ks off v).2) (q2 := ords) (a := ForInStep.yield (true && ok)) ?_ ?_
    · refine Dumps.bind (Dumps.emit_start "String" [] stk off ords (by decide) rfl) ?_
      refine Dumps.bind (Dumps.tagText "Key" k _ off ords (by decide) hp.1) ?_
      refine Dumps.bind (dumps_value env u v _ off ords hp.2) ?_
      refine Dumps.bind (Dumps.emit_stop "String" stk _ ords) ?_
      exact Dumps.pure _ _ _ _
    · have := ih (evValue env.ks off v).2 ok (fun q hq => h q (List.mem_cons_of_mem _ hq))
      rw [Bool.true_and]
      exact this


def stringDispatch (env : Env) : String → (String × Option Value) → Option (P (String × Option Value)) :=
  fun name acc =>
    if name = "Key" then some (do pure ((← tagReq .text).str, acc.2))
    else if name = "Value" then some (do
      let v ← parseValue env
      pure (acc.1, if v.isEmpty then acc.2 else some v))
    else none

theorem parseStringField_eq (env : Env) : parseStringField env = (do
    let _ ← expectStart "String"
    structLoop "String" (stringDispatch env) skipUnknown (← fuelOf) ("", none)) := rfl

theorem evValue_head (ks : Nat → Nat → Bytes) (off : Nat) (v : Value) (hv : ValueOk v) :
    ∃ attrs tl, (evValue ks off v).1 = .start "Value" attrs :: tl := by
  cases v with
  | bytes b => exact absurd hv id
  | unprotected s => exact ⟨[], _, rfl⟩
  | prot p => exact ⟨_, _, rfl⟩

theorem Reads.andThen {α β : Type} {p : P α} {evs : List Ev} {off off' : Nat} {a : α} (h : Reads p evs off a off')
    (g : α → β) : Reads (p >>= fun x => Pure.pure (g x)) evs off (g a) off' := by
  have := Reads.bind (f := fun x => (Pure.pure (g x) : P β)) h (Reads.pure (g a) off')
  rwa [List.append_nil] at this

theorem reads_stringField (env : Env) (k : String) (v : Value) (off : Nat) (hk : NonBlank k) (hv : ValueOk v)
    (hks : ∀ o n, (env.ks o n).length = n) :
    Reads (parseStringField env) (evField env.ks off (k, v)).1 off (k, if v.isEmpty then none else some v)
      (evField env.ks off (k, v)).2 := by
  intro rest
  rw [parseStringField_eq]
  obtain ⟨attrs, tl, hd⟩ := evValue_head env.ks off v hv
  have hrv := reads_value env v off hv hks
  simp only [evField, el, txt_nonBlank hk, List.cons_append, bind, StateT.bind, expectStart, next, Outcome.bind, ite_true,
    pure, StateT.pure, fuelOf, get, getThe, MonadStateOf.get, StateT.get]
  simp only [List.append_assoc, List.cons_append, List.nil_append]
  refine (structLoop_child' (acc' := (k, none)) _ _ [.chars k, .stop "Key"] _ _ off _ (by rfl)
    (by simp) (by simp [stringDispatch]; rfl)
    (Reads.bind (reads_tagReq .text "Key" _ _ off (parses_text k)) (Reads.pure _ off))).trans ?_
  rw [hd] at hrv ⊢
  simp only [List.cons_append]
  refine (structLoop_child' (acc' := (k, if v.isEmpty then none else some v)) _ _ tl _ off _ _ (by rfl)
    (by simp) (by simp [stringDispatch]; rfl)
    (hrv.andThen _)).trans ?_
  rw [structLoop_end _ _ _ _ _ _ _ (by simp)]


/-! ### `CustomData` -/

def evOptValue (ks : Nat → Nat → Bytes) (off : Nat) : Option Value → List Ev × Nat
  | none => ([], off)
  | some v => evValue ks off v

def evOptTime (name : String) : Option Int → List Ev
  | none => []
  | some t => el name [.chars (formatTimestamp t)]

def evCdItem (ks : Nat → Nat → Bytes) (off : Nat) (p : String × CustomDataItem) : List Ev × Nat :=
  (el "Item" (el "Key" (txt p.1) ++ ((evOptValue ks off p.2.value).1 ++ evOptTime "LastModificationTime" p.2.lastModificationTime)),
   (evOptValue ks off p.2.value).2)

def evCdItems (ks : Nat → Nat → Bytes) : Nat → List (String × CustomDataItem) → List Ev × Nat
  | off, [] => ([], off)
  | off, p :: l => ((evCdItem ks off p).1 ++ (evCdItems ks (evCdItem ks off p).2 l).1, (evCdItems ks (evCdItem ks off p).2 l).2)

def evCustomData (ks : Nat → Nat → Bytes) (off : Nat) (l : List (String × CustomDataItem)) : List Ev × Nat :=
  (el "CustomData" (evCdItems ks off l).1, (evCdItems ks off l).2)

def cdLoop (env : DEnv) (u : Bytes → Option String) (l : List (String × CustomDataItem)) (ok : Bool) : D Bool :=
  forIn l ok fun x __s =>
    have ok := __s
    match x with
    | (k, item) => do
      emit (WEv.start "Item" [])
      tagText "Key" k
      have __do_jp : Unit → Bool → D (ForInStep Bool) := fun __r ok =>
        have __do_jp := fun __r => do
          emit WEv.stop
          pure (ForInStep.yield ok);
        match item.lastModificationTime with
        | some t => do
          let __r ← tagRaw "LastModificationTime" (formatTimestamp t)
          __do_jp __r
        | none => __do_jp ()
      match item.value with
        | some v => do
          let __do_lift ← dumpValue env v u
          have ok : Bool := __do_lift && ok
          __do_jp () ok
        | none => __do_jp () ok

theorem dumpCustomData_eq (env : DEnv) (u : Bytes → Option String) (cd : CustomData) :
    dumpCustomData env u cd = (do
      emit (WEv.start "CustomData" [])
      let l ← orderMap cd
      let ok ← cdLoop env u l true
      emit WEv.stop
      pure ok) := rfl

def CdItemOk (p : String × CustomDataItem) : Prop :=
  NonBlank p.1 ∧ (∀ v, p.2.value = some v → ValueOk v) ∧ (∀ t, p.2.lastModificationTime = some t → TimeOk t)

theorem dumps_cdItems (env : DEnv) (u : Bytes → Option String) (stk : List String) (ords : Ords)
    (l : List (String × CustomDataItem)) : ∀ (off : Nat) (ok : Bool), (∀ p ∈ l, CdItemOk p) →
    Dumps (cdLoop env u l ok) stk off ords ok (evCdItems env.ks off l).1 stk (evCdItems env.ks off l).2 ords := by
  induction l with
  | nil => intro off ok _; exact Dumps.pure _ _ _ _
  | cons p l ih =>
    intro off ok h
    obtain ⟨k, ⟨value, lmt⟩⟩ := p
    have hp := h _ List.mem_cons_self
    unfold cdLoop
    rw [List.forIn_cons]
    have e : (evCdItems env.ks off ((k, ⟨value, lmt⟩) :: l)).1 =
        ([.start "Item" []] ++ (el "Key" (txt k) ++ ((evOptValue env.ks off value).1 ++ (evOptTime "LastModificationTime" lmt ++ ([.stop "Item"] ++ [])))))
          ++ (evCdItems env.ks (evOptValue env.ks off value).2 l).1 := by
      simp [evCdItems, evCdItem, el]
    rw [e]
    refine Dumps.bind (s2 := stk) (o2 := (evOptValue env.ks off value).2) (q2 := ords) (a := ForInStep.yield ok) ?_ ?_
    · refine Dumps.bind (Dumps.emit_start "Item" [] stk off ords (by decide) rfl) ?_
      refine Dumps.bind (Dumps.tagText "Key" k _ off ords (by decide) hp.1.1) ?_
      have htime : ∀ t, Dumps (tagRaw "LastModificationTime" (formatTimestamp t)) ("Item" :: stk) (evOptValue env.ks off value).2 ords ()
          (el "LastModificationTime" [.chars (formatTimestamp t)]) ("Item" :: stk) (evOptValue env.ks off value).2 ords := by
        intro t
        have := Dumps.tagRaw "LastModificationTime" (formatTimestamp t) ("Item" :: stk) (evOptValue env.ks off value).2 ords (by decide) (xmlText_b64 _)
        rwa [txt_time] at this
      cases value with
      | none =>
        cases lmt with
        | none =>
          show Dumps _ _ _ _ _ ([.stop "Item"] ++ []) _ off _
          exact Dumps.bind (Dumps.emit_stop "Item" stk _ ords) (Dumps.pure _ _ _ _)
        | some t =>
          show Dumps _ _ _ _ _ (el "LastModificationTime" [.chars (formatTimestamp t)] ++ ([.stop "Item"] ++ [])) _ off _
          exact Dumps.bind (htime t) (Dumps.bind (Dumps.emit_stop "Item" stk _ ords) (Dumps.pure _ _ _ _))
      | some v =>
        have hv := dumps_value env u v ("Item" :: stk) off ords (hp.2.1 v rfl)
        cases lmt with
        | none =>
          show Dumps _ _ _ _ (ForInStep.yield (true && ok)) ((evValue env.ks off v).1 ++ ([.stop "Item"] ++ [])) _ (evValue env.ks off v).2 _
          exact Dumps.bind hv (Dumps.bind (Dumps.emit_stop "Item" stk _ ords) (Dumps.pure _ _ _ _))
        | some t =>
          show Dumps _ _ _ _ (ForInStep.yield (true && ok)) ((evValue env.ks off v).1 ++ (el "LastModificationTime" [.chars (formatTimestamp t)] ++ ([.stop "Item"] ++ []))) _ (evValue env.ks off v).2 _
          exact Dumps.bind hv (Dumps.bind (htime t) (Dumps.bind (Dumps.emit_stop "Item" stk _ ords) (Dumps.pure _ _ _ _)))
    · exact ih _ ok (fun q hq => h q (List.mem_cons_of_mem _ hq))


theorem dumps_customData (env : DEnv) (u : Bytes → Option String) (cd : CustomData) (stk : List String) (off : Nat)
    (ords : Ords) (h : ∀ p ∈ ordered ords cd, CdItemOk p) :
    Dumps (dumpCustomData env u cd) stk off ords true (evCustomData env.ks off (ordered ords cd)).1 stk
      (evCustomData env.ks off (ordered ords cd)).2 ords.tail := by
  rw [dumpCustomData_eq]
  have e : (evCustomData env.ks off (ordered ords cd)).1 =
      [.start "CustomData" []] ++ ([] ++ ((evCdItems env.ks off (ordered ords cd)).1 ++ ([.stop "CustomData"] ++ []))) := by
    simp [evCustomData, el]
  rw [e]
  refine Dumps.bind (Dumps.emit_start "CustomData" [] stk off ords (by decide) rfl) ?_
  refine Dumps.bind (Dumps.orderMap cd _ off ords) ?_
  refine Dumps.bind (dumps_cdItems env u _ _ _ off true h) ?_
  exact Dumps.bind (Dumps.emit_stop "CustomData" stk _ _) (Dumps.pure _ _ _ _)

def cdItemDispatch (env : Env) : String → CdItem → Option (P CdItem) := fun name acc =>
    if name = "Key" then some (do pure { acc with key := (← tagReq .text).str })
    else if name = "Value" then some (do pure { acc with item := { acc.item with value := some (← parseValue env) } })
    else if name = "LastModificationTime" then
      some (do pure { acc with item := { acc.item with lastModificationTime := (← tagOpt .time).map Scalar.toTime } })
    else none

theorem parseCustomDataItem_eq (env : Env) : parseCustomDataItem env = (do
    let _ ← expectStart "Item"
    structLoop "Item" (cdItemDispatch env) rejectUnknown (← fuelOf) {}) := rfl

def cdDispatch (env : Env) : String → CustomData → Option (P CustomData) := fun name acc =>
    if name = "Item" then some (do
      let it ← parseCustomDataItem env
      pure (mapInsert acc it.key it.item))
    else none

theorem parseCustomData_eq (env : Env) : parseCustomData env = (do
    let _ ← expectStart "CustomData"
    structLoop "CustomData" (cdDispatch env) rejectUnknown (← fuelOf) []) := rfl

theorem reads_cdItem (env : Env) (p : String × CustomDataItem) (off : Nat) (hp : CdItemOk p)
    (hks : ∀ o n, (env.ks o n).length = n) :
    Reads (parseCustomDataItem env) (evCdItem env.ks off p).1 off ⟨p.1, p.2⟩ (evCdItem env.ks off p).2 := by
  intro rest
  obtain ⟨k, ⟨value, lmt⟩⟩ := p
  rw [parseCustomDataItem_eq]
  simp only [evCdItem, el, txt_nonBlank hp.1, List.cons_append, bind, StateT.bind, expectStart, next, Outcome.bind, ite_true,
    pure, StateT.pure, fuelOf, get, getThe, MonadStateOf.get, StateT.get]
  simp only [List.append_assoc, List.cons_append, List.nil_append]
  refine (structLoop_child' (acc' := ⟨k, {}⟩) _ _ [.chars k, .stop "Key"] _ off _ _ (by rfl)
    (by simp) (by simp [cdItemDispatch]; rfl)
    ((reads_tagReq .text "Key" _ _ off (parses_text k)).andThen _)).trans ?_
  have fin : ∀ (fuel : Nat) (v' : Option Value) (o' : Nat) , 1 < fuel →
      structLoop "Item" (cdItemDispatch env) rejectUnknown fuel ⟨k, ⟨v', none⟩⟩
        ⟨evOptTime "LastModificationTime" lmt ++ Ev.stop "Item" :: rest, o'⟩ = .ok (⟨k, ⟨v', lmt⟩⟩, ⟨rest, o'⟩) := by
    intro fuel v' o' hf
    cases lmt with
    | none => exact structLoop_end _ _ _ _ _ _ _ (by omega)
    | some t =>
      have ht := hp.2.2 t rfl
      simp only [evOptTime, el, List.cons_append, List.nil_append]
      refine (structLoop_child' (acc' := ⟨k, ⟨v', some t⟩⟩) _ _ [.chars (formatTimestamp t), .stop "LastModificationTime"] _ o' _ _ (by rfl)
        (by omega) (by simp [cdItemDispatch]; rfl)
        ((reads_tagOpt_some .time "LastModificationTime" _ _ o' (parses_time t ht.1 ht.2)).andThen _)).trans ?_
      exact structLoop_end _ _ _ _ _ _ _ (by omega)
  cases value with
  | none =>
    simp only [evOptValue, List.nil_append]
    exact fin _ none off (by simp)
  | some v =>
    have hv := hp.2.1 v rfl
    obtain ⟨attrs, tl, hd⟩ := evValue_head env.ks off v hv
    have hrv := reads_value env v off hv hks
    simp only [evOptValue]
    rw [hd] at hrv ⊢
    simp only [List.cons_append]
    refine (structLoop_child' (acc' := ⟨k, ⟨some v, none⟩⟩) _ _ tl _ off _ _ (by rfl)
      (by simp) (by simp [cdItemDispatch]; rfl) (hrv.andThen _)).trans ?_
    exact fin _ (some v) _ (by simp)


theorem evCdItems_length (ks : Nat → Nat → Bytes) (l : List (String × CustomDataItem)) :
    ∀ off, l.length ≤ (evCdItems ks off l).1.length := by
  induction l with
  | nil => intro off; exact Nat.le_refl _
  | cons p l ih =>
    intro off
    have := ih (evCdItem ks off p).2
    have h2 : 1 ≤ (evCdItem ks off p).1.length := by simp [evCdItem, el]
    simp only [evCdItems, List.length_append, List.length_cons]
    omega

theorem cdLoop_items (env : Env) (hks : ∀ o n, (env.ks o n).length = n) (l : List (String × CustomDataItem)) :
    ∀ (fuel : Nat) (acc : CustomData) (rest : List Ev) (off : Nat), l.length ≤ fuel → (∀ p ∈ l, CdItemOk p) →
    structLoop "CustomData" (cdDispatch env) rejectUnknown fuel acc ⟨(evCdItems env.ks off l).1 ++ rest, off⟩
      = structLoop "CustomData" (cdDispatch env) rejectUnknown (fuel - l.length) (insertAll acc l)
          ⟨rest, (evCdItems env.ks off l).2⟩ := by
  induction l with
  | nil => intro fuel acc rest off _ _; rfl
  | cons p l ih =>
    intro fuel acc rest off hf h
    have hp := h p List.mem_cons_self
    have hr := reads_cdItem env p off hp hks
    have e : (evCdItems env.ks off (p :: l)).1 ++ rest
        = (evCdItem env.ks off p).1 ++ ((evCdItems env.ks (evCdItem env.ks off p).2 l).1 ++ rest) := by
      simp [evCdItems]
    rw [e]
    have hd : ∃ tl, (evCdItem env.ks off p).1 = .start "Item" [] :: tl := ⟨_, rfl⟩
    obtain ⟨tl, htl⟩ := hd
    rw [htl] at hr ⊢
    simp only [List.length_cons] at hf
    refine (structLoop_child' (acc' := mapInsert acc p.1 p.2) _ _ tl _ off _ _ (by rfl)
      (by omega) (by simp [cdDispatch]; rfl) (hr.andThen _)).trans ?_
    rw [ih (fuel - 1) _ rest _ (by omega) (fun q hq => h q (List.mem_cons_of_mem _ hq))]
    simp only [List.length_cons, Nat.sub_sub, Nat.add_comm 1]
    rfl

theorem reads_customData (env : Env) (l : List (String × CustomDataItem)) (off : Nat) (h : ∀ p ∈ l, CdItemOk p)
    (hks : ∀ o n, (env.ks o n).length = n) :
    Reads (parseCustomData env) (evCustomData env.ks off l).1 off (insertAll [] l) (evCustomData env.ks off l).2 := by
  intro rest
  rw [parseCustomData_eq]
  simp only [evCustomData, el, List.cons_append, bind, StateT.bind, expectStart, next, Outcome.bind, ite_true,
    pure, StateT.pure, fuelOf, get, getThe, MonadStateOf.get, StateT.get]
  simp only [List.append_assoc, List.cons_append, List.nil_append]
  have := evCdItems_length env.ks l off
  rw [cdLoop_items env hks l _ _ _ off (by simp; omega) h]
  exact structLoop_end _ _ _ _ _ _ _ (by simp; omega)


/-! ### optional simple tags -/

def optList {α : Type} (ev : α → List Ev) : Option α → List Ev
  | none => []
  | some a => ev a

abbrev evOpt {α : Type} (n : String) (f : α → String) (x : Option α) : List Ev :=
  optList (fun v => el n (txt (f v))) x

theorem Dumps.optTag {α : Type} (n : String) (f : α → String) (raw : Bool) (x : Option α) (stk : List String) (off : Nat)
    (ords : Ords) (hn : NameOk n) (hx : ∀ v, x = some v → XmlText (f v)) :
    Dumps (optTag n f raw x) stk off ords () (evOpt n f x) stk off ords := by
  cases x with
  | none => exact Dumps.pure _ _ _ _
  | some v =>
    cases raw with
    | true => exact Dumps.tagRaw n (f v) stk off ords hn (hx v rfl)
    | false => exact Dumps.tagText n (f v) stk off ords hn (hx v rfl)

/-! ### a backward-chaining form of the struct loop: fuel no less than the number of remaining events is enough -/

def LoopOk {σ : Type} (self : String) (dispatch : String → σ → Option (P σ)) (unknown : σ → P σ) (acc : σ)
    (s : PSt) (r : σ × PSt) : Prop :=
  ∀ fuel, s.evs.length ≤ fuel → structLoop self dispatch unknown fuel acc s = .ok r

theorem LoopOk.stop {σ : Type} (self : String) (dispatch : String → σ → Option (P σ)) (unknown : σ → P σ) (acc : σ)
    (rest : List Ev) (off : Nat) : LoopOk self dispatch unknown acc ⟨.stop self :: rest, off⟩ (acc, ⟨rest, off⟩) :=
  fun fuel hf => structLoop_end self dispatch unknown fuel acc rest off (by simp at hf; omega)

theorem LoopOk.child {σ : Type} {self : String} {dispatch : String → σ → Option (P σ)} {unknown : σ → P σ}
    {acc : σ} {s : PSt} {r : σ × PSt} (acc' : σ) (name : String) (attrs : List (String × String)) (evs rest : List Ev)
    (off off' : Nat) (p : P σ) (hs : s = ⟨.start name attrs :: evs ++ rest, off⟩)
    (hd : dispatch name acc = some p) (hp : Reads p (.start name attrs :: evs) off acc' off')
    (hn : LoopOk self dispatch unknown acc' ⟨rest, off'⟩ r) :
    LoopOk self dispatch unknown acc s r := by
  intro fuel hf
  subst hs
  simp at hf
  rw [structLoop_child' acc' name attrs evs rest off off' p rfl (by omega) hd hp]
  exact hn _ (by simp; omega)

/-- a child given as a whole event list that starts with the element's start tag -/
theorem LoopOk.childL {σ : Type} {self : String} {dispatch : String → σ → Option (P σ)} {unknown : σ → P σ}
    {acc : σ} {r : σ × PSt} (acc' : σ) (name : String) (evs rest : List Ev)
    (off off' : Nat) (p : P σ) (hev : ∃ attrs tl, evs = .start name attrs :: tl)
    (hd : dispatch name acc = some p) (hp : Reads p evs off acc' off')
    (hn : LoopOk self dispatch unknown acc' ⟨rest, off'⟩ r) :
    LoopOk self dispatch unknown acc ⟨evs ++ rest, off⟩ r := by
  obtain ⟨attrs, tl, rfl⟩ := hev
  exact LoopOk.child acc' name attrs tl rest off off' p rfl hd hp hn

/-- an optional child: absent, the loop goes on with the same accumulator -/
theorem LoopOk.optChild {σ α : Type} {self : String} {dispatch : String → σ → Option (P σ)} {unknown : σ → P σ}
    {acc : σ} {r : σ × PSt} (x : Option α) (ev : α → List Ev) (upd : σ → Option α → σ) (name : String) (rest : List Ev)
    (off : Nat) (p : P σ) (hnone : upd acc none = acc)
    (hev : ∀ a, ∃ attrs tl, ev a = .start name attrs :: tl)
    (hd : dispatch name acc = some p) (hp : ∀ a, x = some a → Reads p (ev a) off (upd acc (some a)) off)
    (hn : LoopOk self dispatch unknown (upd acc x) ⟨rest, off⟩ r) :
    LoopOk self dispatch unknown acc ⟨optList ev x ++ rest, off⟩ r := by
  cases x with
  | none => rw [hnone] at hn; exact hn
  | some a => exact LoopOk.childL _ name (ev a) rest off off p (hev a) hd (hp a rfl) hn

def OptNonBlank (x : Option String) : Prop := ∀ s, x = some s → NonBlank s

theorem reads_tagOpt_text (n s : String) (off : Nat) (h : NonBlank s) :
    Reads (tagOpt .text) (el n (txt (id s))) off (some (.text s)) off := by
  have : txt (id s) = [.chars s] := txt_nonBlank h
  rw [this]; exact reads_tagOpt_some .text n s _ off (parses_text s)

/-! ### `AutoType` -/

def evAssoc (a : AutoTypeAssociation) : List Ev :=
  el "Association" (evOpt "Window" id a.window ++ evOpt "KeystrokeSequence" id a.sequence)

def evAutoType (a : AutoType) : List Ev :=
  el "AutoType" (el "Enabled" [.chars (boolText a.enabled)] ++ (evOpt "DefaultSequence" id a.sequence ++ a.associations.flatMap evAssoc))

def AssocOk (a : AutoTypeAssociation) : Prop := OptNonBlank a.window ∧ OptNonBlank a.sequence
def AutoTypeOk (a : AutoType) : Prop := OptNonBlank a.sequence ∧ ∀ x ∈ a.associations, AssocOk x

def assocDispatch : String → AutoTypeAssociation → Option (P AutoTypeAssociation) := fun name acc =>
    if name = "Window" then some (do pure { acc with window := (← tagOpt .text).map Scalar.str })
    else if name = "KeystrokeSequence" then some (do pure { acc with sequence := (← tagOpt .text).map Scalar.str })
    else none

theorem parseAssociation_eq : parseAssociation = (do
    let _ ← expectStart "Association"
    structLoop "Association" assocDispatch skipUnknown (← fuelOf) {}) := rfl

theorem reads_assoc (a : AutoTypeAssociation) (off : Nat) (h : AssocOk a) :
    Reads parseAssociation (evAssoc a) off a off := by
  intro rest
  obtain ⟨w, sq⟩ := a
  rw [parseAssociation_eq]
  simp only [evAssoc, el, List.cons_append, bind, StateT.bind, expectStart, next, Outcome.bind, ite_true,
    pure, StateT.pure, fuelOf, get, getThe, MonadStateOf.get, StateT.get]
  simp only [List.append_assoc]
  refine (?_ : LoopOk _ _ _ _ _ _) _ (by simp)
  refine LoopOk.optChild w _ (fun (acc : AutoTypeAssociation) x => { acc with window := x }) "Window" _ off _ rfl
    (fun a => ⟨[], _, rfl⟩) (by simp [assocDispatch]; rfl) ?_ ?_
  · exact fun a ha => (reads_tagOpt_text "Window" a off (h.1 a ha)).andThen _
  refine LoopOk.optChild sq _ (fun (acc : AutoTypeAssociation) x => { acc with sequence := x }) "KeystrokeSequence" _ off _ rfl
    (fun a => ⟨[], _, rfl⟩) (by simp [assocDispatch]; rfl) ?_ ?_
  · exact fun a ha => (reads_tagOpt_text "KeystrokeSequence" a off (h.2 a ha)).andThen _
  exact LoopOk.stop _ _ _ _ _ _


def autoTypeDispatch : String → AutoType → Option (P AutoType) := fun name acc =>
    if name = "Enabled" then some (do pure { acc with enabled := (← tagReq .bool).toBool })
    else if name = "DefaultSequence" then some (do pure { acc with sequence := (← tagOpt .text).map Scalar.str })
    else if name = "DataTransferObfuscation" then some (do let _ ← tagOpt .usize; pure acc)
    else if name = "Association" then some (do pure { acc with associations := acc.associations ++ [← parseAssociation] })
    else none

theorem parseAutoType_eq : parseAutoType = (do
    let _ ← expectStart "AutoType"
    structLoop "AutoType" autoTypeDispatch skipUnknown (← fuelOf) {}) := rfl

theorem autoTypeLoop_assocs (l : List AutoTypeAssociation) : ∀ (acc : AutoType) (rest : List Ev) (off : Nat) (r),
    (∀ a ∈ l, AssocOk a) →
    LoopOk "AutoType" autoTypeDispatch skipUnknown { acc with associations := acc.associations ++ l } ⟨rest, off⟩ r →
    LoopOk "AutoType" autoTypeDispatch skipUnknown acc ⟨l.flatMap evAssoc ++ rest, off⟩ r := by
  induction l with
  | nil => intro acc rest off r _ h; simpa using h
  | cons a l ih =>
    intro acc rest off r h hn
    rw [List.flatMap_cons, List.append_assoc]
    refine LoopOk.childL { acc with associations := acc.associations ++ [a] } "Association" _ _ off off _ ⟨[], _, rfl⟩
      (by simp [autoTypeDispatch]; rfl) ((reads_assoc a off (h a List.mem_cons_self)).andThen _) ?_
    refine ih _ rest off r (fun x hx => h x (List.mem_cons_of_mem _ hx)) ?_
    simpa [List.append_assoc] using hn

theorem reads_autoType (a : AutoType) (off : Nat) (h : AutoTypeOk a) :
    Reads parseAutoType (evAutoType a) off a off := by
  intro rest
  obtain ⟨en, sq, assocs⟩ := a
  rw [parseAutoType_eq]
  simp only [evAutoType, el, List.cons_append, bind, StateT.bind, expectStart, next, Outcome.bind, ite_true,
    pure, StateT.pure, fuelOf, get, getThe, MonadStateOf.get, StateT.get]
  simp only [List.append_assoc, List.cons_append, List.nil_append]
  refine (?_ : LoopOk _ _ _ _ _ _) _ (by simp)
  refine LoopOk.child (acc' := { enabled := en }) "Enabled" [] [.chars (boolText en), .stop "Enabled"] _ off off _ (by rfl)
    (by simp [autoTypeDispatch]; rfl) ((reads_tagReq .bool "Enabled" _ _ off (parses_bool en)).andThen _) ?_
  refine LoopOk.optChild sq _ (fun (acc : AutoType) x => { acc with sequence := x }) "DefaultSequence" _ off _ rfl
    (fun a => ⟨[], _, rfl⟩) (by simp [autoTypeDispatch]; rfl) ?_ ?_
  · exact fun s hs => (reads_tagOpt_text "DefaultSequence" s off (h.1 s hs)).andThen _
  refine autoTypeLoop_assocs assocs _ _ off _ h.2 ?_
  exact LoopOk.stop _ _ _ _ _ _

theorem dumps_assocs (stk : List String) (off : Nat) (ords : Ords) (l : List AutoTypeAssociation)
    (h : ∀ a ∈ l, AssocOk a) :
    Dumps (forIn l PUnit.unit fun as (_ : PUnit) => do
          emit (WEv.start "Association" [])
          optTag "Window" id false as.window
          optTag "KeystrokeSequence" id false as.sequence
          emit WEv.stop
          pure (ForInStep.yield PUnit.unit)) stk off ords PUnit.unit (l.flatMap evAssoc) stk off ords := by
  induction l with
  | nil => exact Dumps.pure _ _ _ _
  | cons a l ih =>
    rw [List.forIn_cons]
    have ha := h a List.mem_cons_self
    have e : List.flatMap evAssoc (a :: l) = ([.start "Association" []] ++ (evOpt "Window" id a.window ++
        (evOpt "KeystrokeSequence" id a.sequence ++ ([.stop "Association"] ++ [])))) ++ l.flatMap evAssoc := by
      simp [List.flatMap_cons, evAssoc, el]
    rw [e]
    refine Dumps.bind (s2 := stk) (o2 := off) (q2 := ords) (a := ForInStep.yield PUnit.unit) ?_ (ih (fun x hx => h x (List.mem_cons_of_mem _ hx)))
    refine Dumps.bind (Dumps.emit_start "Association" [] stk off ords (by decide) rfl) ?_
    refine Dumps.bind (Dumps.optTag "Window" id false a.window _ off ords (by decide) (fun v hv => (ha.1 v hv).1)) ?_
    refine Dumps.bind (Dumps.optTag "KeystrokeSequence" id false a.sequence _ off ords (by decide) (fun v hv => (ha.2 v hv).1)) ?_
    exact Dumps.bind (Dumps.emit_stop "Association" stk _ ords) (Dumps.pure _ _ _ _)

theorem dumps_autoType (a : AutoType) (stk : List String) (off : Nat) (ords : Ords) (h : AutoTypeOk a) :
    Dumps (dumpAutoType a) stk off ords () (evAutoType a) stk off ords := by
  unfold dumpAutoType
  have e : evAutoType a = [.start "AutoType" []] ++ (el "Enabled" [.chars (boolText a.enabled)] ++
      (evOpt "DefaultSequence" id a.sequence ++ (a.associations.flatMap evAssoc ++ [.stop "AutoType"]))) := by
    simp [evAutoType, el]
  rw [e]
  refine Dumps.bind (Dumps.emit_start "AutoType" [] stk off ords (by decide) rfl) ?_
  refine Dumps.bind (by have := Dumps.tagRaw "Enabled" (boolText a.enabled) ("AutoType" :: stk) off ords (by decide) (xmlText_bool _); rwa [txt_bool] at this) ?_
  refine Dumps.bind (Dumps.optTag "DefaultSequence" id false a.sequence _ off ords (by decide) (fun v hv => (h.1 v hv).1)) ?_
  refine Dumps.bind (dumps_assocs _ off ords _ h.2) ?_
  exact Dumps.emit_stop "AutoType" stk _ ords


/-! ### colours -/

def hexD (k : Nat) : Char := if k < 10 then Char.ofNat (48 + k) else Char.ofNat (87 + k)

theorem hex2_eq (n : Nat) : hex2 n = String.ofList [hexD (n / 16 % 16), hexD (n % 16)] := rfl

theorem colorText_toList (c : Color) :
    (colorText c).toList = ['#', hexD (c.r / 16 % 16), hexD (c.r % 16), hexD (c.g / 16 % 16), hexD (c.g % 16),
      hexD (c.b / 16 % 16), hexD (c.b % 16)] := by
  simp [colorText, hex2_eq, String.toList_append]

theorem hexVal_hexD : ∀ k, k < 16 → hexVal (hexD k) = some k := by decide

theorem hexD_ascii : ∀ k, k < 16 → (hexD k).utf8Size = 1 := by decide

theorem colorText_size (c : Color) : (colorText c).utf8ByteSize = 7 := by
  have h : ∀ n, (hexD (n / 16 % 16)).utf8Size = 1 ∧ (hexD (n % 16)).utf8Size = 1 :=
    fun n => ⟨hexD_ascii _ (Nat.mod_lt _ (by decide)), hexD_ascii _ (Nat.mod_lt _ (by decide))⟩
  have h1 : ("#" : String).utf8ByteSize = 1 := by decide
  simp [colorText, hex2_eq, String.utf8ByteSize_append, h, h1]

theorem colorText_starts (c : Color) : (colorText c).startsWith "#" = true := by
  simp [colorText]

theorem hexD_ne_hash : ∀ k, k < 16 → decide (hexD k = '#') = false ∧ hexD k ≠ '+' := by decide

def ColorOk (c : Color) : Prop := c.r < 256 ∧ c.g < 256 ∧ c.b < 256

theorem color_roundtrip (c : Color) (h : ColorOk c) : parseColor (colorText c) = some c := by
  obtain ⟨r, g, b⟩ := c
  obtain ⟨hr, hg, hb⟩ := h
  simp only at hr hg hb
  unfold parseColor
  simp only [colorText_starts, colorText_size, Bool.not_true, bne_self_eq_false, Bool.or_false, Bool.false_eq_true, if_false,
    colorText_toList]
  have m : ∀ n, n / 16 % 16 < 16 ∧ n % 16 < 16 := fun n => ⟨Nat.mod_lt _ (by decide), Nat.mod_lt _ (by decide)⟩
  have hd : List.dropWhile (fun x => decide (x = '#')) ['#', hexD (r / 16 % 16), hexD (r % 16), hexD (g / 16 % 16), hexD (g % 16), hexD (b / 16 % 16), hexD (b % 16)]
      = [hexD (r / 16 % 16), hexD (r % 16), hexD (g / 16 % 16), hexD (g % 16), hexD (b / 16 % 16), hexD (b % 16)] := by
    have := (hexD_ne_hash _ (m r).1).1
    simp [List.dropWhile, this]
  rw [hd]
  have hp : hexD (r / 16 % 16) ≠ '+' := (hexD_ne_hash _ (m r).1).2
  have hv : List.mapM hexVal [hexD (r / 16 % 16), hexD (r % 16), hexD (g / 16 % 16), hexD (g % 16), hexD (b / 16 % 16), hexD (b % 16)]
      = some [r / 16 % 16, r % 16, g / 16 % 16, g % 16, b / 16 % 16, b % 16] := by
    simp only [List.mapM_cons, List.mapM_nil, hexVal_hexD _ (m r).1, hexVal_hexD _ (m r).2, hexVal_hexD _ (m g).1,
      hexVal_hexD _ (m g).2, hexVal_hexD _ (m b).1, hexVal_hexD _ (m b).2, Option.pure_def, Option.bind_eq_bind, Option.bind_some]
  split
  · rename_i r' heq; simp at heq; exact absurd heq.1 hp
  · simp only [List.isEmpty_cons, Bool.false_eq_true, if_false, hv, List.foldl_cons, List.foldl_nil]
    congr 1
    congr 1 <;> omega


theorem plain_hexD : ∀ k, k < 16 → plainChar (hexD k) = true := by decide

theorem plain_color (c : Color) : ∀ ch ∈ (colorText c).toList, plainChar ch = true := by
  rw [colorText_toList]
  have m : ∀ n, n / 16 % 16 < 16 ∧ n % 16 < 16 := fun n => ⟨Nat.mod_lt _ (by decide), Nat.mod_lt _ (by decide)⟩
  intro ch hch
  simp only [List.mem_cons, List.not_mem_nil, or_false] at hch
  rcases hch with h | h | h | h | h | h | h <;> subst h
  · decide
  · exact plain_hexD _ (m c.r).1
  · exact plain_hexD _ (m c.r).2
  · exact plain_hexD _ (m c.g).1
  · exact plain_hexD _ (m c.g).2
  · exact plain_hexD _ (m c.b).1
  · exact plain_hexD _ (m c.b).2

theorem xmlText_color (c : Color) : XmlText (colorText c) := xmlText_of_plain _ (plain_color c)
theorem txt_color (c : Color) : txt (colorText c) = [.chars (colorText c)] :=
  txt_of_plain _ (by rw [colorText_toList]; simp) (plain_color c)

theorem parses_color (c : Color) (h : ColorOk c) : Parses .color (colorText c) (.color c) := by
  intro st; simp only [fromChars, color_roundtrip c h]; rfl

theorem reads_tagOpt_color (n : String) (c : Color) (off : Nat) (h : ColorOk c) :
    Reads (tagOpt .color) (el n (txt (colorText c))) off (some (.color c)) off := by
  rw [txt_color]; exact reads_tagOpt_some .color n _ _ off (parses_color c h)


/-! ### tags -/

theorem splitOnP_ne_nil (p : Char → Bool) (l : List Char) : splitOnP p l ≠ [] := by
  induction l with
  | nil => simp [splitOnP]
  | cons c cs ih =>
    unfold splitOnP
    cases h : splitOnP p cs with
    | nil => simp
    | cons a b => by_cases hp : p c = true <;> simp [hp]

theorem splitOnP_noSep (p : Char → Bool) (l : List Char) (h : ∀ c ∈ l, p c = false) : splitOnP p l = [l] := by
  induction l with
  | nil => rfl
  | cons c cs ih =>
    unfold splitOnP
    rw [ih (fun x hx => h x (List.mem_cons_of_mem _ hx))]
    simp [h c List.mem_cons_self]

theorem splitOnP_append_sep (p : Char → Bool) (t rest : List Char) (s : Char) (ht : ∀ c ∈ t, p c = false) (hs : p s = true) :
    splitOnP p (t ++ s :: rest) = t :: splitOnP p rest := by
  induction t with
  | nil =>
    simp only [List.nil_append]
    conv => lhs; unfold splitOnP
    cases h : splitOnP p rest with
    | nil => exact absurd h (splitOnP_ne_nil p rest)
    | cons a b => simp [hs]
  | cons c cs ih =>
    simp only [List.cons_append]
    conv => lhs; unfold splitOnP
    rw [ih (fun x hx => ht x (List.mem_cons_of_mem _ hx))]
    simp [ht c List.mem_cons_self]

def isTagSep (c : Char) : Bool := c == ';' || c == ','

theorem splitOnP_intercalate (l : List (List Char)) (hne : l ≠ []) (h : ∀ t ∈ l, ∀ c ∈ t, isTagSep c = false) :
    splitOnP isTagSep ([';'].intercalate l) = l := by
  induction l with
  | nil => exact absurd rfl hne
  | cons t l ih =>
    cases l with
    | nil =>
      simp only [List.intercalate, List.intersperse, List.flatten_cons, List.flatten_nil, List.append_nil]
      exact splitOnP_noSep _ _ (h t List.mem_cons_self)
    | cons t2 l2 =>
      have e : [';'].intercalate (t :: t2 :: l2) = t ++ ';' :: [';'].intercalate (t2 :: l2) := by
        simp [List.intercalate, List.intersperse]
      rw [e, splitOnP_append_sep _ _ _ _ (h t List.mem_cons_self) (by decide)]
      rw [ih (by simp) (fun x hx => h x (List.mem_cons_of_mem _ hx))]

theorem splitTags_intercalate (tags : List String) (hne : tags ≠ [])
    (h : ∀ t ∈ tags, ∀ c ∈ t.toList, isTagSep c = false) : splitTags (";".intercalate tags) = tags := by
  unfold splitTags
  rw [String.toList_intercalate]
  have e : (fun c => c == ';' || c == ',') = isTagSep := rfl
  rw [e]
  have : (";" : String).toList = [';'] := rfl
  rw [this, splitOnP_intercalate _ (by simpa using hne) (by
    intro t ht c hc
    obtain ⟨s, hs, rfl⟩ := List.mem_map.mp ht
    exact h s hs c hc)]
  simp [List.map_map]


/-- tags: none, or a list whose `;`-joined text is not blank and whose items contain no separator -/
def TagsOk (tags : List String) : Prop :=
  tags = [] ∨ (NonBlank (";".intercalate tags) ∧ ∀ t ∈ tags, ∀ c ∈ t.toList, isTagSep c = false)

theorem TagsOk.xmlText {tags : List String} (h : TagsOk tags) : XmlText (";".intercalate tags) := by
  rcases h with h | h
  · subst h; decide
  · exact h.1.1

/-! ### `Entry` -/

def entryDispatch (env : Env) (fuel : Nat) : String → EntryAcc → Option (P EntryAcc) := fun name acc =>
        if name = "UUID" then some (do pure { acc with uuid := (← tagReq .uuid).toUuid })
        else if name = "Tags" then some (do
          match ← tagOpt .text with
          | some t => pure { acc with tags := splitTags t.str }
          | none => pure acc)
        else if name = "String" then some (do
          let (k, v) ← parseStringField env
          match v with
          | some v => pure { acc with fields := mapInsert acc.fields k v }
          | none => pure acc)
        else if name = "CustomData" then some (do pure { acc with customData := (← parseCustomData env) })
        else if name = "Binary" then some (do parseBinaryField; pure acc)
        else if name = "AutoType" then some (do pure { acc with autotype := some (← parseAutoType) })
        else if name = "Times" then some (do pure { acc with times := (← parseTimes) })
        else if name = "IconID" then some (do pure { acc with iconId := (← tagOpt .usize).map Scalar.toNat })
        else if name = "CustomIconUUID" then some (do pure { acc with customIconUuid := (← tagOpt .uuid).map Scalar.toUuid })
        else if name = "ForegroundColor" then some (do pure { acc with fg := (← tagOpt .color).map Scalar.toColor })
        else if name = "BackgroundColor" then some (do pure { acc with bg := (← tagOpt .color).map Scalar.toColor })
        else if name = "OverrideURL" then some (do pure { acc with overrideUrl := (← tagOpt .text).map Scalar.str })
        else if name = "QualityCheck" then some (do pure { acc with qualityCheck := (← tagOpt .bool).map Scalar.toBool })
        else if name = "History" then some (do pure { acc with history := some (← parseHistory env fuel) })
        else none

theorem parseEntry_eq (env : Env) (fuel : Nat) : parseEntry env (fuel + 1) = (do
      let _ ← expectStart "Entry"
      let acc ← structLoop "Entry" (entryDispatch env fuel) skipUnknown (← fuelOf) { uuid := env.freshUuid, times := timesNew env.now }
      pure acc.toEntry) := by
  rw [parseEntry]; rfl

def historyDispatch (env : Env) (fuel : Nat) : String → List Entry → Option (P (List Entry)) := fun name acc =>
        if name = "Entry" then some (do pure (acc ++ [← parseEntry env fuel])) else none

theorem parseHistory_eq (env : Env) (fuel : Nat) : parseHistory env (fuel + 1) = (do
      let _ ← expectStart "History"
      structLoop "History" (historyDispatch env fuel) skipUnknown (← fuelOf) []) := by
  rw [parseHistory]; rfl


def dumpOptAutoType : Option AutoType → D Unit
  | some a => dumpAutoType a
  | none => pure ()

def histLoop (env : DEnv) (u : Bytes → Option String) (fuel : Nat) (h : List Entry) (ok : Bool) : D Bool :=
  forIn h ok fun e __s =>
    have ok := __s
    do
    let __do_lift ← dumpEntry env u fuel e
    have ok : Bool := __do_lift && ok
    pure (ForInStep.yield ok)

def dumpOptHistory (env : DEnv) (u : Bytes → Option String) (fuel : Nat) (ok : Bool) : Option (List Entry) → D Bool
  | some h => do
    emit (WEv.start "History" [])
    let ok' ← histLoop env u fuel h ok
    emit WEv.stop
    pure ok'
  | none => pure ok

theorem dumpEntry_eq (env : DEnv) (u : Bytes → Option String) (fuel : Nat) (uuid : Bytes) (fields : List (String × Value))
    (autotype : Option AutoType) (tags : List String) (times : Times) (cd : CustomData) (iconId : Option Nat)
    (ciu : Option Bytes) (fg bg : Option Color) (ourl : Option String) (qc : Option Bool) (history : Option (List Entry)) :
    dumpEntry env u (fuel + 1) (.mk uuid fields autotype tags times cd iconId ciu fg bg ourl qc history) = (do
      emit (WEv.start "Entry" [])
      tagRaw "UUID" (b64Text uuid)
      tagText "Tags" (";".intercalate tags)
      let l ← orderMap fields
      let ok1 ← fieldsLoop env u l true
      let ok2 ← dumpCustomData env u cd
      dumpOptAutoType autotype
      dumpTimes times
      optTag "IconID" (fun (n : Nat) => toString n) true iconId
      optTag "CustomIconUUID" b64Text true ciu
      optTag "ForegroundColor" colorText true fg
      optTag "BackgroundColor" colorText true bg
      optTag "OverrideURL" id false ourl
      optTag "QualityCheck" boolText true qc
      let ok3 ← dumpOptHistory env u fuel (ok2 && ok1) history
      emit WEv.stop
      pure ok3) := by
  cases autotype <;> cases history <;> rfl


theorem mem_ordered {β : Type} (ords : Ords) (m : List (String × β)) : ∀ p ∈ ordered ords m, p ∈ m := by
  intro p hp
  cases ords with
  | nil => exact hp
  | cons o _ =>
    simp only [ordered, pickOrder, List.mem_append, List.mem_filterMap, List.mem_filter] at hp
    rcases hp with ⟨k', _, hf⟩ | ⟨hm, _⟩
    · exact List.mem_of_find?_eq_some hf
    · exact hm

def FieldsOk (fields : List (String × Value)) : Prop :=
  ∀ p ∈ fields, NonBlank p.1 ∧ ValueOk p.2 ∧ p.2.isEmpty = false

def TimesOk (t : Times) : Prop :=
  t.usageCount < 18446744073709551616 ∧
  ∀ p ∈ t.times, NameOk p.1 ∧ p.1 ≠ "Expires" ∧ p.1 ≠ "UsageCount" ∧ TimeOk p.2

def CdOk (cd : CustomData) : Prop := ∀ p ∈ cd, CdItemOk p

theorem entryDispatch_String (env : Env) (fuel : Nat) (acc : EntryAcc) :
    entryDispatch env fuel "String" acc = some (do
          let (k, v) ← parseStringField env
          match v with
          | some v => pure { acc with fields := mapInsert acc.fields k v }
          | none => pure acc) := by
  simp [entryDispatch]

theorem entryLoop_fields (env : Env) (fuel : Nat) (hks : ∀ o n, (env.ks o n).length = n) (l : List (String × Value)) :
    ∀ (acc : EntryAcc) (rest : List Ev) (off : Nat) (r), FieldsOk l →
    LoopOk "Entry" (entryDispatch env fuel) skipUnknown { acc with fields := insertAll acc.fields l }
      ⟨rest, (evFields env.ks off l).2⟩ r →
    LoopOk "Entry" (entryDispatch env fuel) skipUnknown acc ⟨(evFields env.ks off l).1 ++ rest, off⟩ r := by
  induction l with
  | nil => intro acc rest off r _ h; exact h
  | cons p l ih =>
    intro acc rest off r h hn
    obtain ⟨k, v⟩ := p
    have hp := h (k, v) List.mem_cons_self
    have e : (evFields env.ks off ((k, v) :: l)).1 ++ rest
        = (evField env.ks off (k, v)).1 ++ ((evFields env.ks (evField env.ks off (k, v)).2 l).1 ++ rest) := by
      simp [evFields]
    rw [e]
    have hr := reads_stringField env k v off hp.1 hp.2.1 hks
    simp only [hp.2.2, Bool.false_eq_true, if_false] at hr
    have hr2 : Reads (do
          let (k, v) ← parseStringField env
          match v with
          | some v => pure { acc with fields := mapInsert acc.fields k v }
          | none => pure acc) (evField env.ks off (k, v)).1 off { acc with fields := mapInsert acc.fields k v }
          (evField env.ks off (k, v)).2 := by
      intro rest'
      rw [P_bind_ok _ _ _ _ _ (hr rest')]
      rfl
    refine LoopOk.childL { acc with fields := mapInsert acc.fields k v } "String" _ _ off _ _ ⟨[], _, rfl⟩
      (entryDispatch_String env fuel acc) hr2 ?_
    · exact ih _ rest _ r (fun q hq => h q (List.mem_cons_of_mem _ hq)) hn


theorem entryDispatch_UUID (env : Env) (fuel : Nat) (acc : EntryAcc) :
    entryDispatch env fuel "UUID" acc = some (do pure { acc with uuid := (← tagReq .uuid).toUuid }) := by
  simp [entryDispatch]
theorem entryDispatch_Tags (env : Env) (fuel : Nat) (acc : EntryAcc) :
    entryDispatch env fuel "Tags" acc = some (do
          match ← tagOpt .text with
          | some t => pure { acc with tags := splitTags t.str }
          | none => pure acc) := by
  simp [entryDispatch]
theorem entryDispatch_CustomData (env : Env) (fuel : Nat) (acc : EntryAcc) :
    entryDispatch env fuel "CustomData" acc = some (do pure { acc with customData := (← parseCustomData env) }) := by
  simp [entryDispatch]
theorem entryDispatch_AutoType (env : Env) (fuel : Nat) (acc : EntryAcc) :
    entryDispatch env fuel "AutoType" acc = some (do pure { acc with autotype := some (← parseAutoType) }) := by
  simp [entryDispatch]
theorem entryDispatch_Times (env : Env) (fuel : Nat) (acc : EntryAcc) :
    entryDispatch env fuel "Times" acc = some (do pure { acc with times := (← parseTimes) }) := by
  simp [entryDispatch]
theorem entryDispatch_IconID (env : Env) (fuel : Nat) (acc : EntryAcc) :
    entryDispatch env fuel "IconID" acc = some (do pure { acc with iconId := (← tagOpt .usize).map Scalar.toNat }) := by
  simp [entryDispatch]
theorem entryDispatch_CustomIconUUID (env : Env) (fuel : Nat) (acc : EntryAcc) :
    entryDispatch env fuel "CustomIconUUID" acc
      = some (do pure { acc with customIconUuid := (← tagOpt .uuid).map Scalar.toUuid }) := by
  simp [entryDispatch]
theorem entryDispatch_ForegroundColor (env : Env) (fuel : Nat) (acc : EntryAcc) :
    entryDispatch env fuel "ForegroundColor" acc = some (do pure { acc with fg := (← tagOpt .color).map Scalar.toColor }) := by
  simp [entryDispatch]
theorem entryDispatch_BackgroundColor (env : Env) (fuel : Nat) (acc : EntryAcc) :
    entryDispatch env fuel "BackgroundColor" acc = some (do pure { acc with bg := (← tagOpt .color).map Scalar.toColor }) := by
  simp [entryDispatch]
theorem entryDispatch_OverrideURL (env : Env) (fuel : Nat) (acc : EntryAcc) :
    entryDispatch env fuel "OverrideURL" acc
      = some (do pure { acc with overrideUrl := (← tagOpt .text).map Scalar.str }) := by
  simp [entryDispatch]
theorem entryDispatch_QualityCheck (env : Env) (fuel : Nat) (acc : EntryAcc) :
    entryDispatch env fuel "QualityCheck" acc
      = some (do pure { acc with qualityCheck := (← tagOpt .bool).map Scalar.toBool }) := by
  simp [entryDispatch]
theorem entryDispatch_History (env : Env) (fuel : Nat) (acc : EntryAcc) :
    entryDispatch env fuel "History" acc = some (do pure { acc with history := some (← parseHistory env fuel) }) := by
  simp [entryDispatch]


mutual
  inductive EntryEq : Entry → Entry → Prop where
    | mk (uuid : Bytes) (f f' : List (String × Value)) (a : Option AutoType) (tags : List String) (t t' : Times)
        (cd cd' : CustomData) (ic : Option Nat) (ciu : Option Bytes) (fg bg : Option Color) (ou : Option String)
        (qc : Option Bool) (h h' : Option (List Entry))
        (hf : ∀ k, f'.lookup k = f.lookup k) (ht : t'.expires = t.expires ∧ t'.usageCount = t.usageCount ∧ ∀ k, t'.times.lookup k = t.times.lookup k)
        (hcd : ∀ k, cd'.lookup k = cd.lookup k) (hh : HistEq h h') :
        EntryEq (.mk uuid f a tags t cd ic ciu fg bg ou qc h) (.mk uuid f' a tags t' cd' ic ciu fg bg ou qc h')
  inductive HistEq : Option (List Entry) → Option (List Entry) → Prop where
    | none : HistEq none none
    | some (l l' : List Entry) (h : EntriesEq l l') : HistEq (some l) (some l')
  inductive EntriesEq : List Entry → List Entry → Prop where
    | nil : EntriesEq [] []
    | cons (e e' : Entry) (l l' : List Entry) (he : EntryEq e e') (hl : EntriesEq l l') : EntriesEq (e :: l) (e' :: l')
end

@[simp] theorem optList_none {α : Type} (ev : α → List Ev) : optList ev none = [] := rfl
@[simp] theorem optList_some {α : Type} (ev : α → List Ev) (a : α) : optList ev (some a) = ev a := rfl

theorem dumps_optAutoType (a : Option AutoType) (stk : List String) (off : Nat) (ords : Ords)
    (h : ∀ x, a = some x → AutoTypeOk x) :
    Dumps (dumpOptAutoType a) stk off ords () (optList evAutoType a) stk off ords := by
  cases a with
  | none => exact Dumps.pure _ _ _ _
  | some x => exact dumps_autoType x stk off ords (h x rfl)

/-- what the entry proof needs of the history part -/
def histDepth : Option (List Entry) → Nat
  | none => 0
  | some l => entryListDepth l

theorem entryDepth_eq (uuid : Bytes) (fields : List (String × Value)) (autotype : Option AutoType) (tags : List String)
    (times : Times) (cd : CustomData) (iconId : Option Nat) (ciu : Option Bytes) (fg bg : Option Color)
    (ourl : Option String) (qc : Option Bool) (h : Option (List Entry)) :
    entryDepth (.mk uuid fields autotype tags times cd iconId ciu fg bg ourl qc h) = 1 + histDepth h := by
  cases h <;> rfl

/-- `B`: a reader budget that is enough for the entries of the history -/
def HistRT (denv : DEnv) (u : Bytes → Option String) (penv : Env) (fd B : Nat) (history : Option (List Entry)) : Prop :=
  ∀ (stk : List String) (off : Nat) (ords : Ords) (ok : Bool), ∃ evs off' ords' h',
    Dumps (dumpOptHistory denv u fd ok history) stk off ords ok evs stk off' ords' ∧
    (∀ fp, B ≤ fp → ∀ (acc : EntryAcc) (rest : List Ev) (r : EntryAcc × PSt), acc.history = none →
        LoopOk "Entry" (entryDispatch penv fp) skipUnknown { acc with history := h' } ⟨rest, off'⟩ r →
        LoopOk "Entry" (entryDispatch penv fp) skipUnknown acc ⟨evs ++ rest, off⟩ r) ∧
    HistEq history h' ∧ 2 * histDepth history ≤ evs.length

/-- the events of an `<Entry>` element, given those of its `<History>` part -/
def evEntryWith (ks : Nat → Nat → Bytes) (off : Nat) (uuid : Bytes) (tags : List String) (lf : List (String × Value))
    (lcd : List (String × CustomDataItem)) (autotype : Option AutoType) (lt : List (String × Int)) (times : Times)
    (iconId : Option Nat) (ciu : Option Bytes) (fg bg : Option Color) (ourl : Option String) (qc : Option Bool) (evsH : List Ev) : List Ev :=
  [.start "Entry" []] ++ (el "UUID" (txt (b64Text uuid)) ++ (el "Tags" (txt (";".intercalate tags)) ++ ([] ++ ((evFields ks off lf).1 ++
    ((evCustomData ks (evFields ks off lf).2 lcd).1 ++ (optList evAutoType autotype ++ (evTimes lt times ++
    (evOpt "IconID" (fun (n : Nat) => toString n) iconId ++ (evOpt "CustomIconUUID" b64Text ciu ++
    (evOpt "ForegroundColor" colorText fg ++ (evOpt "BackgroundColor" colorText bg ++
    (evOpt "OverrideURL" id ourl ++ (evOpt "QualityCheck" boolText qc ++ (evsH ++ ([.stop "Entry"] ++ [])))))))))))))))

theorem entry_core (denv : DEnv) (u : Bytes → Option String) (penv : Env) (hks : ∀ o n, (penv.ks o n).length = n)
    (henv : denv.ks = penv.ks) (fd B : Nat)
    (uuid : Bytes) (fields : List (String × Value)) (autotype : Option AutoType) (tags : List String) (times : Times)
    (cd : CustomData)
    (iconId : Option Nat) (ciu : Option Bytes) (fg bg : Option Color) (ourl : Option String) (qc : Option Bool)
    (history : Option (List Entry))
    (hu : uuid.length = 16) (htags : TagsOk tags) (hf : FieldsOk fields) (ha : ∀ x, autotype = some x → AutoTypeOk x) (ht : TimesOk times)
    (hcd : CdOk cd) (hic : ∀ n, iconId = some n → n < 18446744073709551616) (hciu : ∀ b, ciu = some b → b.length = 16)
    (hfg : ∀ c, fg = some c → ColorOk c) (hbg : ∀ c, bg = some c → ColorOk c)
    (hou : OptNonBlank ourl) (hH : HistRT denv u penv fd B history)
    (stk : List String) (off : Nat) (ords : Ords) :
    ∃ evs off' ords' h',
      Dumps (dumpEntry denv u (fd + 1) (.mk uuid fields autotype tags times cd iconId ciu fg bg ourl qc history))
        stk off ords true evs stk off' ords' ∧
      (∀ fp, B ≤ fp → Reads (parseEntry penv (fp + 1)) evs off
        (.mk uuid (insertAll [] (ordered ords fields)) autotype tags
          ⟨times.expires, times.usageCount, insertAll [] (ordered ords.tail.tail times.times)⟩
          (insertAll [] (ordered ords.tail cd)) iconId ciu fg bg ourl qc h') off') ∧
      HistEq history h' ∧ (∃ attrs tl, evs = .start "Entry" attrs :: tl) ∧ 2 * (1 + histDepth history) ≤ evs.length := by
  obtain ⟨evsH, offH, ordsH, h', hHd, hHr, hHe, hHl⟩ := hH ("Entry" :: stk)
    (evCustomData denv.ks (evFields denv.ks off (ordered ords fields)).2 (ordered ords.tail cd)).2 ords.tail.tail.tail true
  refine ⟨evEntryWith denv.ks off uuid tags (ordered ords fields) (ordered ords.tail cd) autotype
    (ordered ords.tail.tail times.times) times iconId ciu fg bg ourl qc evsH, offH, ordsH, h', ?dumps, ?reads, hHe, ⟨[], _, rfl⟩, ?len⟩
  case dumps =>
    rw [dumpEntry_eq]
    unfold evEntryWith
    refine Dumps.bind (Dumps.emit_start "Entry" [] stk off ords (by decide) rfl) ?_
    refine Dumps.bind (Dumps.tagRaw "UUID" (b64Text uuid) _ off ords (by decide) (xmlText_b64 _)) ?_
    refine Dumps.bind (Dumps.tagText "Tags" (";".intercalate tags) _ off ords (by decide) htags.xmlText) ?_
    refine Dumps.bind (Dumps.orderMap fields _ off ords) ?_
    refine Dumps.bind (dumps_fields denv u _ _ _ off true (fun p hp => ⟨(hf p (mem_ordered _ _ p hp)).1.1, (hf p (mem_ordered _ _ p hp)).2.1⟩)) ?_
    refine Dumps.bind (dumps_customData denv u cd _ _ _ (fun p hp => hcd p (mem_ordered _ _ p hp))) ?_
    refine Dumps.bind (dumps_optAutoType autotype _ _ _ ha) ?_
    refine Dumps.bind (dumps_times times _ _ _ (fun p hp => (ht.2 p (mem_ordered _ _ p hp)).1)) ?_
    refine Dumps.bind (Dumps.optTag "IconID" (fun (n : Nat) => toString n) true iconId _ _ _ (by decide) (fun v _ => xmlText_nat v)) ?_
    refine Dumps.bind (Dumps.optTag "CustomIconUUID" b64Text true ciu _ _ _ (by decide) (fun v _ => xmlText_b64 v)) ?_
    refine Dumps.bind (Dumps.optTag "ForegroundColor" colorText true fg _ _ _ (by decide) (fun v _ => xmlText_color v)) ?_
    refine Dumps.bind (Dumps.optTag "BackgroundColor" colorText true bg _ _ _ (by decide) (fun v _ => xmlText_color v)) ?_
    refine Dumps.bind (Dumps.optTag "OverrideURL" id false ourl _ _ _ (by decide) (fun v hv => (hou v hv).1)) ?_
    refine Dumps.bind (Dumps.optTag "QualityCheck" boolText true qc _ _ _ (by decide) (fun v _ => xmlText_bool v)) ?_
    refine Dumps.bind hHd ?_
    exact Dumps.bind (Dumps.emit_stop "Entry" stk _ _) (Dumps.pure _ _ _ _)
  case len =>
    simp only [evEntryWith, el, List.length_append, List.length_cons, List.length_nil]
    omega
  case reads =>
    intro fp hfp rest
    rw [parseEntry_eq]
    have hHr' := hHr
    rw [henv] at hHr'
    have key : LoopOk "Entry" (entryDispatch penv fp) skipUnknown
        ({ uuid := penv.freshUuid, times := timesNew penv.now } : EntryAcc)
        ⟨(evEntryWith denv.ks off uuid tags (ordered ords fields) (ordered ords.tail cd) autotype
          (ordered ords.tail.tail times.times) times iconId ciu fg bg ourl qc evsH).tail ++ rest, off⟩
        (({ uuid := uuid, fields := insertAll [] (ordered ords fields), autotype := autotype, tags := tags,
            times := ⟨times.expires, times.usageCount, insertAll [] (ordered ords.tail.tail times.times)⟩,
            customData := insertAll [] (ordered ords.tail cd), iconId := iconId, customIconUuid := ciu, fg := fg, bg := bg,
            overrideUrl := ourl, qualityCheck := qc, history := h' } : EntryAcc), ⟨rest, offH⟩) := by
      have hne : uuid ≠ [] := by intro e; rw [e] at hu; simp at hu
      simp only [evEntryWith, List.cons_append, List.nil_append, List.tail_cons, List.append_assoc, txt_b64 _ hne,
        henv, optList_none]
      refine LoopOk.child (acc' := { uuid := uuid, times := timesNew penv.now }) "UUID" [] [.chars (b64Text uuid), .stop "UUID"] _ off off _ (by rfl)
        (entryDispatch_UUID penv fp _) ((reads_tagReq .uuid "UUID" _ _ off (parses_uuid uuid hu)).andThen _) ?_
      refine LoopOk.childL (acc' := ({ uuid := uuid, times := timesNew penv.now, tags := tags } : EntryAcc)) "Tags" _ _ off off _ ⟨[], _, rfl⟩
        (entryDispatch_Tags penv fp _) ?_ ?_
      · intro rest'
        rcases htags with ht0 | ht1
        · subst ht0
          have h0 : tagOpt .text ⟨el "Tags" (txt (";".intercalate [])) ++ rest', off⟩ = .ok (none, ⟨rest', off⟩) :=
            reads_tagOpt_none .text "Tags" off rest'
          rw [P_bind_ok _ _ _ _ _ h0]
          rfl
        · have hj : txt (";".intercalate tags) = [.chars (";".intercalate tags)] := txt_nonBlank ht1.1
          have hne0 : tags ≠ [] := by
            intro e; subst e
            have := ht1.1.2
            simp at this
          have h0 : tagOpt .text ⟨el "Tags" (txt (";".intercalate tags)) ++ rest', off⟩
              = .ok (some (.text (";".intercalate tags)), ⟨rest', off⟩) := by
            rw [hj]; exact reads_tagOpt_some .text "Tags" _ _ off (parses_text _) rest'
          rw [P_bind_ok _ _ _ _ _ h0]
          simp only [Scalar.str, splitTags_intercalate tags hne0 ht1.2]
          rfl
      refine entryLoop_fields penv fp hks (ordered ords fields) _ _ off _ (fun p hp => hf p (mem_ordered _ _ p hp)) ?_
      refine LoopOk.childL (acc' := ({ uuid := uuid, times := timesNew penv.now, tags := tags, fields := insertAll [] (ordered ords fields), customData := insertAll [] (ordered ords.tail cd) } : EntryAcc)) "CustomData" _ _ _ _ _ ⟨[], _, rfl⟩
        (entryDispatch_CustomData penv fp _)
        ((reads_customData penv (ordered ords.tail cd) _ (fun p hp => hcd p (mem_ordered _ _ p hp)) hks).andThen _) ?_
      refine LoopOk.optChild autotype _ (fun (acc : EntryAcc) x => { acc with autotype := x }) "AutoType" _ _ _ rfl
        (fun a => ⟨[], _, rfl⟩) (entryDispatch_AutoType penv fp _) ?_ ?_
      · exact fun a hx => (reads_autoType a _ (ha a hx)).andThen _
      refine LoopOk.childL (acc' := ({ uuid := uuid, tags := tags, fields := insertAll [] (ordered ords fields), autotype := autotype, customData := insertAll [] (ordered ords.tail cd), times := ⟨times.expires, times.usageCount, insertAll [] (ordered ords.tail.tail times.times)⟩ } : EntryAcc)) "Times" _ _ _ _ _ ⟨[], _, rfl⟩
        (entryDispatch_Times penv fp _)
        ((reads_times (ordered ords.tail.tail times.times) times _ (fun p hp => (ht.2 p (mem_ordered _ _ p hp)).2) ht.1).andThen _) ?_
      refine LoopOk.optChild iconId _ (fun (acc : EntryAcc) x => { acc with iconId := x }) "IconID" _ _ _ rfl
        (fun a => ⟨[], _, rfl⟩) (entryDispatch_IconID penv fp _) ?_ ?_
      · intro n hn
        have : Reads (tagOpt .usize) (el "IconID" (txt (toString n))) (evCustomData penv.ks (evFields penv.ks off (ordered ords fields)).2 (ordered ords.tail cd)).2 (some (.nat n)) (evCustomData penv.ks (evFields penv.ks off (ordered ords fields)).2 (ordered ords.tail cd)).2 := by
          rw [txt_nat]; exact reads_tagOpt_some .usize "IconID" _ _ _ (parses_usize n (hic n hn))
        exact this.andThen _
      refine LoopOk.optChild ciu _ (fun (acc : EntryAcc) x => { acc with customIconUuid := x }) "CustomIconUUID" _ _ _ rfl
        (fun a => ⟨[], _, rfl⟩) (entryDispatch_CustomIconUUID penv fp _) ?_ ?_
      · intro b hb
        have hne' : b ≠ [] := by intro e; have := hciu b hb; rw [e] at this; simp at this
        have : Reads (tagOpt .uuid) (el "CustomIconUUID" (txt (b64Text b))) (evCustomData penv.ks (evFields penv.ks off (ordered ords fields)).2 (ordered ords.tail cd)).2 (some (.uuid b)) (evCustomData penv.ks (evFields penv.ks off (ordered ords fields)).2 (ordered ords.tail cd)).2 := by
          rw [txt_b64 _ hne']; exact reads_tagOpt_some .uuid "CustomIconUUID" _ _ _ (parses_uuid b (hciu b hb))
        exact this.andThen _
      refine LoopOk.optChild fg _ (fun (acc : EntryAcc) x => { acc with fg := x }) "ForegroundColor" _ _ _ rfl
        (fun a => ⟨[], _, rfl⟩) (entryDispatch_ForegroundColor penv fp _) ?_ ?_
      · exact fun c hc => (reads_tagOpt_color "ForegroundColor" c _ (hfg c hc)).andThen _
      refine LoopOk.optChild bg _ (fun (acc : EntryAcc) x => { acc with bg := x }) "BackgroundColor" _ _ _ rfl
        (fun a => ⟨[], _, rfl⟩) (entryDispatch_BackgroundColor penv fp _) ?_ ?_
      · exact fun c hc => (reads_tagOpt_color "BackgroundColor" c _ (hbg c hc)).andThen _
      refine LoopOk.optChild ourl _ (fun (acc : EntryAcc) x => { acc with overrideUrl := x }) "OverrideURL" _ _ _ rfl
        (fun a => ⟨[], _, rfl⟩) (entryDispatch_OverrideURL penv fp _) ?_ ?_
      · exact fun a hx => (reads_tagOpt_text "OverrideURL" a _ (hou a hx)).andThen _
      refine LoopOk.optChild qc _ (fun (acc : EntryAcc) x => { acc with qualityCheck := x }) "QualityCheck" _ _ _ rfl
        (fun a => ⟨[], _, rfl⟩) (entryDispatch_QualityCheck penv fp _) ?_ ?_
      · intro b _
        have : Reads (tagOpt .bool) (el "QualityCheck" (txt (boolText b))) (evCustomData penv.ks (evFields penv.ks off (ordered ords fields)).2 (ordered ords.tail cd)).2 (some (.bool b)) (evCustomData penv.ks (evFields penv.ks off (ordered ords fields)).2 (ordered ords.tail cd)).2 := by
          rw [txt_bool]; exact reads_tagOpt_some .bool "QualityCheck" _ _ _ (parses_bool b)
        exact this.andThen _
      refine hHr' fp hfp _ _ _ rfl ?_
      exact LoopOk.stop _ _ _ _ _ _
    have hx : evEntryWith denv.ks off uuid tags (ordered ords fields) (ordered ords.tail cd) autotype
          (ordered ords.tail.tail times.times) times iconId ciu fg bg ourl qc evsH
        = .start "Entry" [] :: (evEntryWith denv.ks off uuid tags (ordered ords fields) (ordered ords.tail cd) autotype
          (ordered ords.tail.tail times.times) times iconId ciu fg bg ourl qc evsH).tail := rfl
    rw [hx]
    simp only [List.cons_append, bind, StateT.bind, expectStart, next, Outcome.bind, ite_true, pure, StateT.pure, fuelOf, get,
      getThe, MonadStateOf.get, StateT.get]
    rw [key _ (by simp)]
    rfl


mutual
  /-- the entries C03 speaks about -/
  inductive EntryOk : Entry → Prop where
    | mk (uuid : Bytes) (fields : List (String × Value)) (autotype : Option AutoType) (tags : List String) (times : Times)
        (cd : CustomData)
        (iconId : Option Nat) (ciu : Option Bytes) (fg bg : Option Color) (ourl : Option String) (qc : Option Bool)
        (history : Option (List Entry))
        (hu : uuid.length = 16) (htags : TagsOk tags) (hf : FieldsOk fields) (hfn : KeysNodup fields) (ha : ∀ x, autotype = some x → AutoTypeOk x)
        (ht : TimesOk times) (htn : KeysNodup times.times) (hcd : CdOk cd) (hcdn : KeysNodup cd)
        (hic : ∀ n, iconId = some n → n < 18446744073709551616) (hciu : ∀ b, ciu = some b → b.length = 16)
        (hfg : ∀ c, fg = some c → ColorOk c) (hbg : ∀ c, bg = some c → ColorOk c)
        (hou : OptNonBlank ourl) (hh : HistOk history) :
        EntryOk (.mk uuid fields autotype tags times cd iconId ciu fg bg ourl qc history)
  inductive HistOk : Option (List Entry) → Prop where
    | none : HistOk none
    | some (l : List Entry) (h : EntriesOk l) : HistOk (some l)
  inductive EntriesOk : List Entry → Prop where
    | nil : EntriesOk []
    | cons (e : Entry) (l : List Entry) (he : EntryOk e) (hl : EntriesOk l) : EntriesOk (e :: l)
end

theorem entryDepth_some (uuid : Bytes) (fields : List (String × Value)) (autotype : Option AutoType) (tags : List String)
    (times : Times) (cd : CustomData) (iconId : Option Nat) (ciu : Option Bytes) (fg bg : Option Color)
    (ourl : Option String) (qc : Option Bool) (l : List Entry) :
    entryDepth (.mk uuid fields autotype tags times cd iconId ciu fg bg ourl qc (some l)) = 1 + entryListDepth l := rfl
theorem entryDepth_pos (e : Entry) : 1 ≤ entryDepth e := by
  obtain ⟨_, _, _, _, _, _, _, _, _, _, _, _, h⟩ := e
  cases h with
  | none => exact Nat.le_refl 1
  | some l => rw [entryDepth_some]; omega
theorem entryListDepth_cons (e : Entry) (es : List Entry) :
    entryListDepth (e :: es) = max (entryDepth e) (entryListDepth es) := rfl

/-- the statement proved for one entry -/
def EntryRT (denv : DEnv) (u : Bytes → Option String) (penv : Env) (fd B : Nat) (e : Entry) : Prop :=
  ∀ (stk : List String) (off : Nat) (ords : Ords), ∃ evs off' ords' e',
    Dumps (dumpEntry denv u fd e) stk off ords true evs stk off' ords' ∧
    (∀ fp, B ≤ fp → Reads (parseEntry penv fp) evs off e' off') ∧ EntryEq e e' ∧
    (∃ attrs tl, evs = .start "Entry" attrs :: tl) ∧ 2 * entryDepth e ≤ evs.length

theorem histLoop_rt (denv : DEnv) (u : Bytes → Option String) (penv : Env) (fd B : Nat) (l : List Entry)
    (h : ∀ e ∈ l, EntryRT denv u penv fd B e) :
    ∀ (stk : List String) (off : Nat) (ords : Ords) (ok : Bool), ∃ evs off' ords' l',
      Dumps (histLoop denv u fd l ok) stk off ords ok evs stk off' ords' ∧
      (∀ fp, B ≤ fp → ∀ (acc : List Entry) (rest : List Ev) (r : List Entry × PSt),
        LoopOk "History" (historyDispatch penv fp) skipUnknown (acc ++ l') ⟨rest, off'⟩ r →
        LoopOk "History" (historyDispatch penv fp) skipUnknown acc ⟨evs ++ rest, off⟩ r) ∧
      EntriesEq l l' ∧ 2 * entryListDepth l ≤ evs.length := by
  induction l with
  | nil =>
    intro stk off ords ok
    exact ⟨[], off, ords, [], Dumps.pure _ _ _ _, fun fp _ acc rest r hn => by simpa using hn, EntriesEq.nil, Nat.le_refl _⟩
  | cons e l ih =>
    intro stk off ords ok
    obtain ⟨evs1, off1, ords1, e', hd1, hr1, he1, hhd, hl1⟩ := h e List.mem_cons_self stk off ords
    obtain ⟨evs2, off2, ords2, l', hd2, hr2, he2, hl2⟩ := ih (fun x hx => h x (List.mem_cons_of_mem _ hx)) stk off1 ords1 ok
    refine ⟨evs1 ++ evs2, off2, ords2, e' :: l', ?_, ?_, EntriesEq.cons _ _ _ _ he1 he2, ?_⟩
    case refine_3 =>
      rw [entryListDepth_cons, List.length_append]
      omega
    · unfold histLoop
      rw [List.forIn_cons]
      have e1 : evs1 ++ evs2 = (evs1 ++ []) ++ evs2 := by simp
      rw [e1]
      refine Dumps.bind (s2 := stk) (o2 := off1) (q2 := ords1) (a := ForInStep.yield (true && ok)) ?_ ?_
      · exact Dumps.bind hd1 (Dumps.pure _ _ _ _)
      · rw [Bool.true_and]; exact hd2
    · intro fp hfp acc rest r hn
      rw [List.append_assoc]
      refine LoopOk.childL (acc ++ [e']) "Entry" evs1 _ off off1 _ hhd (by simp [historyDispatch]; rfl) ((hr1 fp hfp).andThen _) ?_
      refine hr2 fp hfp _ rest r ?_
      simpa [List.append_assoc] using hn


theorem histRT_none (denv : DEnv) (u : Bytes → Option String) (penv : Env) (fd B : Nat) :
    HistRT denv u penv fd B none := by
  intro stk off ords ok
  refine ⟨[], off, ords, none, Dumps.pure _ _ _ _, ?_, HistEq.none, Nat.le_refl _⟩
  intro fp _ acc rest r hacc hn
  have : ({ acc with history := none } : EntryAcc) = acc := by
    cases acc; simp at hacc; simp [hacc]
  rw [this] at hn
  exact hn

theorem histRT_some (denv : DEnv) (u : Bytes → Option String) (penv : Env) (fd B : Nat) (l : List Entry)
    (h : ∀ e ∈ l, EntryRT denv u penv fd B e) :
    HistRT denv u penv fd (B + 1) (some l) := by
  intro stk off ords ok
  obtain ⟨evs, off', ords', l', hd, hr, he, hl⟩ := histLoop_rt denv u penv fd B l h ("History" :: stk) off ords ok
  refine ⟨[.start "History" []] ++ (evs ++ ([.stop "History"] ++ [])), off', ords', some l', ?_, ?_, HistEq.some _ _ he,
    by simp only [histDepth, List.length_append, List.length_cons, List.length_nil]; omega⟩
  · show Dumps (do
        emit (WEv.start "History" [])
        let ok' ← histLoop denv u fd l ok
        emit WEv.stop
        pure ok') _ _ _ _ _ _ _ _
    refine Dumps.bind (Dumps.emit_start "History" [] stk off ords (by decide) rfl) ?_
    refine Dumps.bind hd ?_
    exact Dumps.bind (Dumps.emit_stop "History" stk _ _) (Dumps.pure _ _ _ _)
  · intro fp1 hfp1 acc rest r hacc hn
    obtain ⟨fp, rfl⟩ : ∃ k, fp1 = k + 1 := ⟨fp1 - 1, by omega⟩
    have hfp : B ≤ fp := by omega
    have hrd : Reads (parseHistory penv (fp + 1)) ([.start "History" []] ++ (evs ++ ([.stop "History"] ++ []))) off l' off' := by
      intro rest'
      rw [parseHistory_eq]
      simp only [List.cons_append, List.nil_append, List.append_nil, List.append_assoc, bind, StateT.bind, expectStart, next,
        Outcome.bind, ite_true, pure, StateT.pure, fuelOf, get, getThe, MonadStateOf.get, StateT.get]
      refine (?_ : LoopOk _ _ _ _ _ _) _ (by simp)
      refine hr fp hfp [] _ _ ?_
      exact LoopOk.stop _ _ _ _ _ _
    refine LoopOk.childL { acc with history := some l' } "History" _ rest off off' _ ⟨[], _, rfl⟩
      (entryDispatch_History penv (fp + 1) acc) (hrd.andThen _) hn

theorem entriesOk_mem (l : List Entry) (h : EntriesOk l) : ∀ e ∈ l, EntryOk e := by
  induction l with
  | nil => intro e he; cases he
  | cons x xs ih =>
    intro e he
    cases h with
    | cons _ _ hx hxs =>
      cases he with
      | head => exact hx
      | tail _ hm => exact ih hxs e hm

theorem entryListDepth_mem (l : List Entry) : ∀ e ∈ l, entryDepth e ≤ entryListDepth l := by
  induction l with
  | nil => intro e he; cases he
  | cons x xs ih =>
    intro e he
    rw [entryListDepth_cons]
    cases he with
    | head => exact Nat.le_max_left _ _
    | tail _ hm => exact Nat.le_trans (ih e hm) (Nat.le_max_right _ _)

/-- every entry of the domain, written with enough fuel, is read back as an equivalent entry -/
theorem entry_rt (denv : DEnv) (u : Bytes → Option String) (penv : Env) (hks : ∀ o n, (penv.ks o n).length = n)
    (henv : denv.ks = penv.ks) :
    ∀ (n : Nat) (e : Entry), entryDepth e ≤ n → EntryOk e → ∀ fd, n ≤ fd → EntryRT denv u penv fd (2 * n) e := by
  intro n
  induction n with
  | zero =>
    intro e hd
    have := entryDepth_pos e; omega
  | succ n ih =>
    intro e hd hok fd hfd
    cases hok with
    | mk uuid fields autotype tags times cd iconId ciu fg bg ourl qc history hu htags hf hfn ha ht htn hcd hcdn hic hciu hfg hbg hou hh =>
      obtain ⟨fd', rfl⟩ : ∃ k, fd = k + 1 := ⟨fd - 1, by omega⟩
      have hH : HistRT denv u penv fd' (2 * n + 1) history := by
        cases history with
        | none => exact histRT_none denv u penv fd' _
        | some l =>
          refine histRT_some denv u penv fd' (2 * n) l ?_
          intro x hx
          have hdx : entryDepth x ≤ n := by
            have := entryListDepth_mem l x hx
            rw [entryDepth_some] at hd
            omega
          cases hh with
          | some _ hl => exact ih x hdx (entriesOk_mem l hl x hx) fd' (by omega)
      intro stk off ords
      obtain ⟨evs, off', ords', h', hdmp, hrd, hhe, hst, hlen⟩ := entry_core denv u penv hks henv fd' (2 * n + 1) uuid fields
        autotype tags times cd iconId ciu fg bg ourl qc history hu htags hf ha ht hcd hic hciu hfg hbg hou hH stk off ords
      refine ⟨evs, off', ords', (.mk uuid (insertAll [] (ordered ords fields)) autotype tags
          ⟨times.expires, times.usageCount, insertAll [] (ordered ords.tail.tail times.times)⟩
          (insertAll [] (ordered ords.tail cd)) iconId ciu fg bg ourl qc h'), hdmp, ?_, ?_, hst, ?_⟩
      · intro fp hfp
        obtain ⟨fp', rfl⟩ : ∃ k, fp = k + 1 := ⟨fp - 1, by omega⟩
        exact hrd fp' (by omega)
      · exact EntryEq.mk uuid fields _ autotype tags times _ cd _ iconId ciu fg bg ourl qc history h'
          (lookup_insertAll_ordered ords fields hfn)
          ⟨rfl, rfl, lookup_insertAll_ordered _ times.times htn⟩
          (lookup_insertAll_ordered _ cd hcdn) hhe
      · rw [entryDepth_eq]; exact hlen

/-! ### groups -/

def childLoop (env : DEnv) (u : Bytes → Option String) (fuel : Nat) (cs : List Node) (ok : Bool) : D Bool :=
  forIn cs ok fun c __s =>
    have ok := __s
    do
    let __do_lift ← dumpGroup env u fuel c
    have ok : Bool := __do_lift && ok
    pure (ForInStep.yield ok)

theorem dumpGroup_eq (env : DEnv) (u : Bytes → Option String) (fuel : Nat) (uuid : Bytes) (name : String) (notes : Option String)
    (iconId : Option Nat) (ciu : Option Bytes) (children : List Node) (times : Times) (cd : CustomData) (isExp : Bool)
    (das ea es : Option String) (ltve : Option Bytes) :
    dumpGroup env u (fuel + 1) (.group uuid name notes iconId ciu children times cd isExp das ea es ltve) = (do
      emit (.start "Group" [])
      tagText "Name" name
      tagRaw "UUID" (b64Text uuid)
      optTag "Notes" id false notes
      optTag "IconID" (fun (n : Nat) => toString n) true iconId
      optTag "CustomIconUUID" b64Text true ciu
      dumpTimes times
      let ok0 ← dumpCustomData env u cd
      tagRaw "IsExpanded" (boolText isExp)
      optTag "DefaultAutoTypeSequence" id false das
      optTag "EnableAutoType" id false ea
      optTag "EnableSearching" id false es
      optTag "LastTopVisibleEntry" b64Text true ltve
      let ok ← childLoop env u fuel children ok0
      emit .stop
      pure ok) := rfl

theorem dumpGroup_entry (env : DEnv) (u : Bytes → Option String) (fuel : Nat) (e : Entry) :
    dumpGroup env u (fuel + 1) (.entry e) = dumpEntry env u (entryDepth e + 1) e := rfl

def groupDispatch (env : Env) (fuel : Nat) : String → GroupAcc → Option (P GroupAcc) := fun name acc =>
      if name = "UUID" then some (do pure { acc with uuid := (← tagReq .uuid).toUuid })
      else if name = "Name" then some (do pure { acc with name := ((← tagOpt .text).map Scalar.str).getD "" })
      else if name = "Notes" then some (do pure { acc with notes := (← tagOpt .text).map Scalar.str })
      else if name = "IconID" then some (do pure { acc with iconId := (← tagOpt .usize).map Scalar.toNat })
      else if name = "CustomIconUUID" then some (do pure { acc with customIconUuid := (← tagOpt .uuid).map Scalar.toUuid })
      else if name = "Times" then some (do pure { acc with times := (← parseTimes) })
      else if name = "IsExpanded" then some (do pure { acc with isExpanded := (← tagReq .bool).toBool })
      else if name = "DefaultAutoTypeSequence" then some (do pure { acc with defaultAutotypeSequence := (← tagOpt .text).map Scalar.str })
      else if name = "EnableAutoType" then some (do pure { acc with enableAutotype := (← tagOpt .text).map Scalar.str })
      else if name = "EnableSearching" then some (do pure { acc with enableSearching := (← tagOpt .text).map Scalar.str })
      else if name = "LastTopVisibleEntry" then some (do pure { acc with lastTopVisibleEntry := (← tagOpt .uuid).map Scalar.toUuid })
      else if name = "Entry" then some (do
        let n := (← get).evs.length
        pure { acc with children := acc.children ++ [.entry (← parseEntry env (n + 1))] })
      else if name = "Group" then some (do pure { acc with children := acc.children ++ [← parseGroup env fuel] })
      else if name = "CustomData" then some (do pure { acc with customData := (← parseCustomData env) })
      else none

theorem parseGroup_eq (env : Env) (fuel : Nat) : parseGroup env (fuel + 1) = (do
    let _ ← expectStart "Group"
    let acc ← structLoop "Group" (groupDispatch env fuel) skipUnknown (← fuelOf) {}
    pure acc.toNode) := by
  rw [parseGroup]; rfl


theorem groupDispatch_UUID (env : Env) (fuel : Nat) (acc : GroupAcc) :
    groupDispatch env fuel "UUID" acc = some (do pure { acc with uuid := (← tagReq .uuid).toUuid }) := by
  simp [groupDispatch]
theorem groupDispatch_Name (env : Env) (fuel : Nat) (acc : GroupAcc) :
    groupDispatch env fuel "Name" acc = some (do pure { acc with name := ((← tagOpt .text).map Scalar.str).getD "" }) := by
  simp [groupDispatch]
theorem groupDispatch_Notes (env : Env) (fuel : Nat) (acc : GroupAcc) :
    groupDispatch env fuel "Notes" acc = some (do pure { acc with notes := (← tagOpt .text).map Scalar.str }) := by
  simp [groupDispatch]
theorem groupDispatch_IconID (env : Env) (fuel : Nat) (acc : GroupAcc) :
    groupDispatch env fuel "IconID" acc = some (do pure { acc with iconId := (← tagOpt .usize).map Scalar.toNat }) := by
  simp [groupDispatch]
theorem groupDispatch_CustomIconUUID (env : Env) (fuel : Nat) (acc : GroupAcc) :
    groupDispatch env fuel "CustomIconUUID" acc
      = some (do pure { acc with customIconUuid := (← tagOpt .uuid).map Scalar.toUuid }) := by
  simp [groupDispatch]
theorem groupDispatch_Times (env : Env) (fuel : Nat) (acc : GroupAcc) :
    groupDispatch env fuel "Times" acc = some (do pure { acc with times := (← parseTimes) }) := by
  simp [groupDispatch]
theorem groupDispatch_IsExpanded (env : Env) (fuel : Nat) (acc : GroupAcc) :
    groupDispatch env fuel "IsExpanded" acc = some (do pure { acc with isExpanded := (← tagReq .bool).toBool }) := by
  simp [groupDispatch]
theorem groupDispatch_DAS (env : Env) (fuel : Nat) (acc : GroupAcc) :
    groupDispatch env fuel "DefaultAutoTypeSequence" acc
      = some (do pure { acc with defaultAutotypeSequence := (← tagOpt .text).map Scalar.str }) := by
  simp [groupDispatch]
theorem groupDispatch_EA (env : Env) (fuel : Nat) (acc : GroupAcc) :
    groupDispatch env fuel "EnableAutoType" acc
      = some (do pure { acc with enableAutotype := (← tagOpt .text).map Scalar.str }) := by
  simp [groupDispatch]
theorem groupDispatch_ES (env : Env) (fuel : Nat) (acc : GroupAcc) :
    groupDispatch env fuel "EnableSearching" acc
      = some (do pure { acc with enableSearching := (← tagOpt .text).map Scalar.str }) := by
  simp [groupDispatch]
theorem groupDispatch_LTVE (env : Env) (fuel : Nat) (acc : GroupAcc) :
    groupDispatch env fuel "LastTopVisibleEntry" acc
      = some (do pure { acc with lastTopVisibleEntry := (← tagOpt .uuid).map Scalar.toUuid }) := by
  simp [groupDispatch]
theorem groupDispatch_Entry (env : Env) (fuel : Nat) (acc : GroupAcc) :
    groupDispatch env fuel "Entry" acc = some (do
        let n := (← get).evs.length
        pure { acc with children := acc.children ++ [.entry (← parseEntry env (n + 1))] }) := by
  simp [groupDispatch]
theorem groupDispatch_Group (env : Env) (fuel : Nat) (acc : GroupAcc) :
    groupDispatch env fuel "Group" acc = some (do pure { acc with children := acc.children ++ [← parseGroup env fuel] }) := by
  simp [groupDispatch]
theorem groupDispatch_CustomData (env : Env) (fuel : Nat) (acc : GroupAcc) :
    groupDispatch env fuel "CustomData" acc = some (do pure { acc with customData := (← parseCustomData env) }) := by
  simp [groupDispatch]

mutual
  inductive NodeEq : Node → Node → Prop where
    | entry (e e' : Entry) (h : EntryEq e e') : NodeEq (.entry e) (.entry e')
    | group (uuid : Bytes) (name : String) (notes : Option String) (iconId : Option Nat) (ciu : Option Bytes)
        (cs cs' : List Node) (t t' : Times) (cd cd' : CustomData) (isExp : Bool) (das ea es : Option String)
        (ltve : Option Bytes)
        (ht : t'.expires = t.expires ∧ t'.usageCount = t.usageCount ∧ ∀ k, t'.times.lookup k = t.times.lookup k)
        (hcd : ∀ k, cd'.lookup k = cd.lookup k) (hc : NodesEq cs cs') :
        NodeEq (.group uuid name notes iconId ciu cs t cd isExp das ea es ltve)
          (.group uuid name notes iconId ciu cs' t' cd' isExp das ea es ltve)
  inductive NodesEq : List Node → List Node → Prop where
    | nil : NodesEq [] []
    | cons (n n' : Node) (l l' : List Node) (hn : NodeEq n n') (hl : NodesEq l l') : NodesEq (n :: l) (n' :: l')
end

mutual
  /-- the groups C03 speaks about -/
  inductive NodeOk : Node → Prop where
    | entry (e : Entry) (h : EntryOk e) : NodeOk (.entry e)
    | group (uuid : Bytes) (name : String) (notes : Option String) (iconId : Option Nat) (ciu : Option Bytes)
        (cs : List Node) (t : Times) (cd : CustomData) (isExp : Bool) (das ea es : Option String) (ltve : Option Bytes)
        (hu : uuid.length = 16) (hname : TextOk name) (hnotes : OptNonBlank notes)
        (hic : ∀ n, iconId = some n → n < 18446744073709551616) (hciu : ∀ b, ciu = some b → b.length = 16)
        (ht : TimesOk t) (htn : KeysNodup t.times) (hcd : CdOk cd) (hcdn : KeysNodup cd)
        (hdas : OptNonBlank das) (hea : OptNonBlank ea) (hes : OptNonBlank es)
        (hltve : ∀ b, ltve = some b → b.length = 16) (hc : NodesOk cs) :
        NodeOk (.group uuid name notes iconId ciu cs t cd isExp das ea es ltve)
  inductive NodesOk : List Node → Prop where
    | nil : NodesOk []
    | cons (n : Node) (l : List Node) (hn : NodeOk n) (hl : NodesOk l) : NodesOk (n :: l)
end

/-- what the group proof needs of the children -/
def ChildrenRT (denv : DEnv) (u : Bytes → Option String) (penv : Env) (fd B : Nat) (cs : List Node) : Prop :=
  ∀ (stk : List String) (off : Nat) (ords : Ords) (ok : Bool), ∃ evs off' ords' cs',
    Dumps (childLoop denv u fd cs ok) stk off ords ok evs stk off' ords' ∧
    (∀ fp, B ≤ fp → ∀ (acc : GroupAcc) (rest : List Ev) (r : GroupAcc × PSt),
        LoopOk "Group" (groupDispatch penv fp) skipUnknown { acc with children := acc.children ++ cs' } ⟨rest, off'⟩ r →
        LoopOk "Group" (groupDispatch penv fp) skipUnknown acc ⟨evs ++ rest, off⟩ r) ∧
    NodesEq cs cs' ∧ nodeListDepth cs ≤ evs.length

/-- the events of a `<Group>` element, given those of its children -/
def evGroupWith (ks : Nat → Nat → Bytes) (off : Nat) (uuid : Bytes) (name : String) (notes : Option String)
    (iconId : Option Nat) (ciu : Option Bytes) (lt : List (String × Int)) (times : Times)
    (lcd : List (String × CustomDataItem)) (isExp : Bool) (das ea es : Option String) (ltve : Option Bytes)
    (evsC : List Ev) : List Ev :=
  [.start "Group" []] ++ (el "Name" (txt name) ++ (el "UUID" (txt (b64Text uuid)) ++ (evOpt "Notes" id notes ++
    (evOpt "IconID" (fun (n : Nat) => toString n) iconId ++ (evOpt "CustomIconUUID" b64Text ciu ++ (evTimes lt times ++
    ((evCustomData ks off lcd).1 ++ (el "IsExpanded" (txt (boolText isExp)) ++ (evOpt "DefaultAutoTypeSequence" id das ++
    (evOpt "EnableAutoType" id ea ++ (evOpt "EnableSearching" id es ++ (evOpt "LastTopVisibleEntry" b64Text ltve ++
    (evsC ++ ([.stop "Group"] ++ []))))))))))))))


theorem group_core (denv : DEnv) (u : Bytes → Option String) (penv : Env) (hks : ∀ o n, (penv.ks o n).length = n)
    (henv : denv.ks = penv.ks) (fd B : Nat)
    (uuid : Bytes) (name : String) (notes : Option String) (iconId : Option Nat) (ciu : Option Bytes) (cs : List Node)
    (times : Times) (cd : CustomData) (isExp : Bool) (das ea es : Option String) (ltve : Option Bytes)
    (hu : uuid.length = 16) (hname : TextOk name) (hnotes : OptNonBlank notes)
    (hic : ∀ n, iconId = some n → n < 18446744073709551616) (hciu : ∀ b, ciu = some b → b.length = 16)
    (ht : TimesOk times) (hcd : CdOk cd) (hdas : OptNonBlank das) (hea : OptNonBlank ea) (hes : OptNonBlank es)
    (hltve : ∀ b, ltve = some b → b.length = 16) (hC : ChildrenRT denv u penv fd B cs)
    (stk : List String) (off : Nat) (ords : Ords) :
    ∃ evs off' ords' cs',
      Dumps (dumpGroup denv u (fd + 1) (.group uuid name notes iconId ciu cs times cd isExp das ea es ltve))
        stk off ords true evs stk off' ords' ∧
      (∀ fp, B ≤ fp → Reads (parseGroup penv (fp + 1)) evs off
        (.group uuid name notes iconId ciu cs'
          ⟨times.expires, times.usageCount, insertAll [] (ordered ords times.times)⟩
          (insertAll [] (ordered ords.tail cd)) isExp das ea es ltve) off') ∧
      NodesEq cs cs' ∧ (∃ attrs tl, evs = .start "Group" attrs :: tl) ∧ 1 + nodeListDepth cs ≤ evs.length := by
  obtain ⟨evsC, offC, ordsC, cs', hCd, hCr, hCe, hCl⟩ := hC ("Group" :: stk)
    (evCustomData denv.ks off (ordered ords.tail cd)).2 ords.tail.tail true
  refine ⟨evGroupWith denv.ks off uuid name notes iconId ciu (ordered ords times.times) times (ordered ords.tail cd) isExp
    das ea es ltve evsC, offC, ordsC, cs', ?dumps, ?reads, hCe, ⟨[], _, rfl⟩, ?len⟩
  case len =>
    simp only [evGroupWith, el, List.length_append, List.length_cons, List.length_nil]
    omega
  case dumps =>
    rw [dumpGroup_eq]
    unfold evGroupWith
    refine Dumps.bind (Dumps.emit_start "Group" [] stk off ords (by decide) rfl) ?_
    refine Dumps.bind (Dumps.tagText "Name" name _ off ords (by decide) hname.1) ?_
    refine Dumps.bind (Dumps.tagRaw "UUID" (b64Text uuid) _ off ords (by decide) (xmlText_b64 _)) ?_
    refine Dumps.bind (Dumps.optTag "Notes" id false notes _ _ _ (by decide) (fun v hv => (hnotes v hv).1)) ?_
    refine Dumps.bind (Dumps.optTag "IconID" (fun (n : Nat) => toString n) true iconId _ _ _ (by decide) (fun v _ => xmlText_nat v)) ?_
    refine Dumps.bind (Dumps.optTag "CustomIconUUID" b64Text true ciu _ _ _ (by decide) (fun v _ => xmlText_b64 v)) ?_
    refine Dumps.bind (dumps_times times _ _ _ (fun p hp => (ht.2 p (mem_ordered _ _ p hp)).1)) ?_
    refine Dumps.bind (dumps_customData denv u cd _ _ _ (fun p hp => hcd p (mem_ordered _ _ p hp))) ?_
    refine Dumps.bind (Dumps.tagRaw "IsExpanded" (boolText isExp) _ _ _ (by decide) (xmlText_bool _)) ?_
    refine Dumps.bind (Dumps.optTag "DefaultAutoTypeSequence" id false das _ _ _ (by decide) (fun v hv => (hdas v hv).1)) ?_
    refine Dumps.bind (Dumps.optTag "EnableAutoType" id false ea _ _ _ (by decide) (fun v hv => (hea v hv).1)) ?_
    refine Dumps.bind (Dumps.optTag "EnableSearching" id false es _ _ _ (by decide) (fun v hv => (hes v hv).1)) ?_
    refine Dumps.bind (Dumps.optTag "LastTopVisibleEntry" b64Text true ltve _ _ _ (by decide) (fun v _ => xmlText_b64 v)) ?_
    refine Dumps.bind hCd ?_
    exact Dumps.bind (Dumps.emit_stop "Group" stk _ _) (Dumps.pure _ _ _ _)
  case reads =>
    intro fp hfp rest
    rw [parseGroup_eq]
    have key : LoopOk "Group" (groupDispatch penv fp) skipUnknown ({} : GroupAcc)
        ⟨(evGroupWith denv.ks off uuid name notes iconId ciu (ordered ords times.times) times (ordered ords.tail cd) isExp
          das ea es ltve evsC).tail ++ rest, off⟩
        (({ uuid := uuid, name := name, notes := notes, iconId := iconId, customIconUuid := ciu, children := cs',
            times := ⟨times.expires, times.usageCount, insertAll [] (ordered ords times.times)⟩,
            customData := insertAll [] (ordered ords.tail cd), isExpanded := isExp, defaultAutotypeSequence := das,
            enableAutotype := ea, enableSearching := es, lastTopVisibleEntry := ltve } : GroupAcc), ⟨rest, offC⟩) := by
      have hne : uuid ≠ [] := by intro e; rw [e] at hu; simp at hu
      simp only [evGroupWith, List.cons_append, List.nil_append, List.tail_cons, List.append_assoc, txt_b64 _ hne, txt_bool,
        henv]
      refine LoopOk.childL (acc' := ({ name := name } : GroupAcc)) "Name" _ _ off off _ ⟨[], _, rfl⟩
        (groupDispatch_Name penv fp _) ?_ ?_
      · rw [txt_textOk hname]
        by_cases hn0 : name = ""
        · subst hn0
          exact (reads_tagOpt_none .text "Name" off).andThen _
        · simp only [hn0, if_false]
          exact (reads_tagOpt_some .text "Name" name _ off (parses_text name)).andThen _
      refine LoopOk.child (acc' := ({ name := name, uuid := uuid } : GroupAcc)) "UUID" [] [.chars (b64Text uuid), .stop "UUID"] _ off off _ (by rfl)
        (groupDispatch_UUID penv fp _) ((reads_tagReq .uuid "UUID" _ _ off (parses_uuid uuid hu)).andThen _) ?_
      refine LoopOk.optChild notes _ (fun (acc : GroupAcc) x => { acc with notes := x }) "Notes" _ _ _ rfl
        (fun a => ⟨[], _, rfl⟩) (groupDispatch_Notes penv fp _) ?_ ?_
      · exact fun a hx => (reads_tagOpt_text "Notes" a _ (hnotes a hx)).andThen _
      refine LoopOk.optChild iconId _ (fun (acc : GroupAcc) x => { acc with iconId := x }) "IconID" _ _ _ rfl
        (fun a => ⟨[], _, rfl⟩) (groupDispatch_IconID penv fp _) ?_ ?_
      · intro n hn
        have : Reads (tagOpt .usize) (el "IconID" (txt (toString n))) off (some (.nat n)) off := by
          rw [txt_nat]; exact reads_tagOpt_some .usize "IconID" _ _ _ (parses_usize n (hic n hn))
        exact this.andThen _
      refine LoopOk.optChild ciu _ (fun (acc : GroupAcc) x => { acc with customIconUuid := x }) "CustomIconUUID" _ _ _ rfl
        (fun a => ⟨[], _, rfl⟩) (groupDispatch_CustomIconUUID penv fp _) ?_ ?_
      · intro b hb
        have hne' : b ≠ [] := by intro e; have := hciu b hb; rw [e] at this; simp at this
        have : Reads (tagOpt .uuid) (el "CustomIconUUID" (txt (b64Text b))) off (some (.uuid b)) off := by
          rw [txt_b64 _ hne']; exact reads_tagOpt_some .uuid "CustomIconUUID" _ _ _ (parses_uuid b (hciu b hb))
        exact this.andThen _
      refine LoopOk.childL (acc' := ({ name := name, uuid := uuid, notes := notes, iconId := iconId, customIconUuid := ciu, times := ⟨times.expires, times.usageCount, insertAll [] (ordered ords times.times)⟩ } : GroupAcc)) "Times" _ _ _ _ _ ⟨[], _, rfl⟩
        (groupDispatch_Times penv fp _)
        ((reads_times (ordered ords times.times) times _ (fun p hp => (ht.2 p (mem_ordered _ _ p hp)).2) ht.1).andThen _) ?_
      refine LoopOk.childL (acc' := ({ name := name, uuid := uuid, notes := notes, iconId := iconId, customIconUuid := ciu, times := ⟨times.expires, times.usageCount, insertAll [] (ordered ords times.times)⟩, customData := insertAll [] (ordered ords.tail cd) } : GroupAcc)) "CustomData" _ _ _ _ _ ⟨[], _, rfl⟩
        (groupDispatch_CustomData penv fp _)
        ((reads_customData penv (ordered ords.tail cd) _ (fun p hp => hcd p (mem_ordered _ _ p hp)) hks).andThen _) ?_
      refine LoopOk.child (acc' := ({ name := name, uuid := uuid, notes := notes, iconId := iconId, customIconUuid := ciu, times := ⟨times.expires, times.usageCount, insertAll [] (ordered ords times.times)⟩, customData := insertAll [] (ordered ords.tail cd), isExpanded := isExp } : GroupAcc)) "IsExpanded" [] [.chars (boolText isExp), .stop "IsExpanded"] _ _ _ _ (by rfl)
        (groupDispatch_IsExpanded penv fp _) ((reads_tagReq .bool "IsExpanded" _ _ _ (parses_bool isExp)).andThen _) ?_
      refine LoopOk.optChild das _ (fun (acc : GroupAcc) x => { acc with defaultAutotypeSequence := x }) "DefaultAutoTypeSequence" _ _ _ rfl
        (fun a => ⟨[], _, rfl⟩) (groupDispatch_DAS penv fp _) ?_ ?_
      · exact fun a hx => (reads_tagOpt_text "DefaultAutoTypeSequence" a _ (hdas a hx)).andThen _
      refine LoopOk.optChild ea _ (fun (acc : GroupAcc) x => { acc with enableAutotype := x }) "EnableAutoType" _ _ _ rfl
        (fun a => ⟨[], _, rfl⟩) (groupDispatch_EA penv fp _) ?_ ?_
      · exact fun a hx => (reads_tagOpt_text "EnableAutoType" a _ (hea a hx)).andThen _
      refine LoopOk.optChild es _ (fun (acc : GroupAcc) x => { acc with enableSearching := x }) "EnableSearching" _ _ _ rfl
        (fun a => ⟨[], _, rfl⟩) (groupDispatch_ES penv fp _) ?_ ?_
      · exact fun a hx => (reads_tagOpt_text "EnableSearching" a _ (hes a hx)).andThen _
      refine LoopOk.optChild ltve _ (fun (acc : GroupAcc) x => { acc with lastTopVisibleEntry := x }) "LastTopVisibleEntry" _ _ _ rfl
        (fun a => ⟨[], _, rfl⟩) (groupDispatch_LTVE penv fp _) ?_ ?_
      · intro b hb
        have hne' : b ≠ [] := by intro e; have := hltve b hb; rw [e] at this; simp at this
        have : Reads (tagOpt .uuid) (el "LastTopVisibleEntry" (txt (b64Text b)))
            (evCustomData penv.ks off (ordered ords.tail cd)).2 (some (.uuid b)) (evCustomData penv.ks off (ordered ords.tail cd)).2 := by
          rw [txt_b64 _ hne']; exact reads_tagOpt_some .uuid "LastTopVisibleEntry" _ _ _ (parses_uuid b (hltve b hb))
        exact this.andThen _
      rw [← henv]
      refine hCr fp hfp _ _ _ ?_
      exact LoopOk.stop _ _ _ _ _ _
    have hx : evGroupWith denv.ks off uuid name notes iconId ciu (ordered ords times.times) times (ordered ords.tail cd) isExp
          das ea es ltve evsC
        = .start "Group" [] :: (evGroupWith denv.ks off uuid name notes iconId ciu (ordered ords times.times) times
          (ordered ords.tail cd) isExp das ea es ltve evsC).tail := rfl
    rw [hx]
    simp only [List.cons_append, bind, StateT.bind, expectStart, next, Outcome.bind, ite_true, pure, StateT.pure, fuelOf, get,
      getThe, MonadStateOf.get, StateT.get]
    rw [key _ (by simp)]
    rfl

theorem nodeDepth_group (uuid : Bytes) (name : String) (notes : Option String) (iconId : Option Nat) (ciu : Option Bytes)
    (cs : List Node) (t : Times) (cd : CustomData) (isExp : Bool) (das ea es : Option String) (ltve : Option Bytes) :
    nodeDepth (.group uuid name notes iconId ciu cs t cd isExp das ea es ltve) = 1 + nodeListDepth cs := rfl
theorem nodeDepth_entry (e : Entry) : nodeDepth (.entry e) = 1 := rfl
theorem nodeListDepth_cons (n : Node) (ns : List Node) : nodeListDepth (n :: ns) = max (nodeDepth n) (nodeListDepth ns) := rfl

/-- the statement proved for one node, as a child of a group -/
def NodeRT (denv : DEnv) (u : Bytes → Option String) (penv : Env) (fd B : Nat) (nd : Node) : Prop :=
  ∀ (stk : List String) (off : Nat) (ords : Ords), ∃ evs off' ords' nd',
    Dumps (dumpGroup denv u fd nd) stk off ords true evs stk off' ords' ∧
    (∀ fp, B ≤ fp → ∀ (acc : GroupAcc) (rest : List Ev) (r : GroupAcc × PSt),
        LoopOk "Group" (groupDispatch penv fp) skipUnknown { acc with children := acc.children ++ [nd'] } ⟨rest, off'⟩ r →
        LoopOk "Group" (groupDispatch penv fp) skipUnknown acc ⟨evs ++ rest, off⟩ r) ∧
    NodeEq nd nd' ∧ nodeDepth nd ≤ evs.length

theorem children_rt (denv : DEnv) (u : Bytes → Option String) (penv : Env) (fd B : Nat) (cs : List Node)
    (h : ∀ c ∈ cs, NodeRT denv u penv fd B c) : ChildrenRT denv u penv fd B cs := by
  induction cs with
  | nil =>
    intro stk off ords ok
    refine ⟨[], off, ords, [], Dumps.pure _ _ _ _, ?_, NodesEq.nil, Nat.le_refl _⟩
    intro fp _ acc rest r hn
    have : ({ acc with children := acc.children ++ [] } : GroupAcc) = acc := by cases acc; simp
    rw [this] at hn
    exact hn
  | cons c cs ih =>
    intro stk off ords ok
    obtain ⟨evs1, off1, ords1, c', hd1, hr1, he1, hl1⟩ := h c List.mem_cons_self stk off ords
    obtain ⟨evs2, off2, ords2, cs', hd2, hr2, he2, hl2⟩ := ih (fun x hx => h x (List.mem_cons_of_mem _ hx)) stk off1 ords1 ok
    refine ⟨evs1 ++ evs2, off2, ords2, c' :: cs', ?_, ?_, NodesEq.cons _ _ _ _ he1 he2, ?_⟩
    case refine_3 =>
      rw [nodeListDepth_cons, List.length_append]
      omega
    · unfold childLoop
      rw [List.forIn_cons]
      have e1 : evs1 ++ evs2 = (evs1 ++ []) ++ evs2 := by simp
      rw [e1]
      refine Dumps.bind (s2 := stk) (o2 := off1) (q2 := ords1) (a := ForInStep.yield (true && ok)) ?_ ?_
      · exact Dumps.bind hd1 (Dumps.pure _ _ _ _)
      · rw [Bool.true_and]; exact hd2
    · intro fp hfp acc rest r hn
      rw [List.append_assoc]
      refine hr1 fp hfp acc _ r ?_
      refine hr2 fp hfp _ rest r ?_
      have : ({ acc with children := acc.children ++ (c' :: cs') } : GroupAcc)
          = { ({ acc with children := acc.children ++ [c'] } : GroupAcc) with children := (acc.children ++ [c']) ++ cs' } := by
        simp
      rw [this] at hn
      exact hn


theorem nodesOk_mem (l : List Node) (h : NodesOk l) : ∀ c ∈ l, NodeOk c := by
  induction l with
  | nil => intro c hc; cases hc
  | cons x xs ih =>
    intro c hc
    cases h with
    | cons _ _ hx hxs =>
      cases hc with
      | head => exact hx
      | tail _ hm => exact ih hxs c hm

theorem nodeListDepth_mem (l : List Node) : ∀ c ∈ l, nodeDepth c ≤ nodeListDepth l := by
  induction l with
  | nil => intro c hc; cases hc
  | cons x xs ih =>
    intro c hc
    rw [nodeListDepth_cons]
    cases hc with
    | head => exact Nat.le_max_left _ _
    | tail _ hm => exact Nat.le_trans (ih c hm) (Nat.le_max_right _ _)

/-- a group of the domain, written with enough fuel, is read back as an equivalent group (`parseGroup` with any budget
    no less than the nesting depth) -/
def GroupRT (denv : DEnv) (u : Bytes → Option String) (penv : Env) (fd B : Nat) (nd : Node) : Prop :=
  ∀ (stk : List String) (off : Nat) (ords : Ords), ∃ evs off' ords' nd',
    Dumps (dumpGroup denv u fd nd) stk off ords true evs stk off' ords' ∧
    (∀ fp, B ≤ fp → Reads (parseGroup penv fp) evs off nd' off') ∧
    NodeEq nd nd' ∧ (∃ attrs tl, evs = .start "Group" attrs :: tl) ∧ nodeDepth nd ≤ evs.length

theorem nodeRT_of_groupRT (denv : DEnv) (u : Bytes → Option String) (penv : Env) (fd B : Nat) (nd : Node)
    (h : GroupRT denv u penv fd B nd) : NodeRT denv u penv fd B nd := by
  intro stk off ords
  obtain ⟨evs, off', ords', nd', hd, hr, he, hhd, hl⟩ := h stk off ords
  refine ⟨evs, off', ords', nd', hd, ?_, he, hl⟩
  intro fp hfp acc rest r hn
  exact LoopOk.childL { acc with children := acc.children ++ [nd'] } "Group" evs rest off off' _ hhd
    (groupDispatch_Group penv fp acc) ((hr fp hfp).andThen _) hn

theorem nodeRT_entry (denv : DEnv) (u : Bytes → Option String) (penv : Env) (hks : ∀ o n, (penv.ks o n).length = n)
    (henv : denv.ks = penv.ks) (e : Entry) (he : EntryOk e) (fd B : Nat) :
    NodeRT denv u penv (fd + 1) B (.entry e) := by
  intro stk off ords
  obtain ⟨evs, off', ords', e', hd, hr, heq, hhd, hl⟩ :=
    entry_rt denv u penv hks henv (entryDepth e) e (Nat.le_refl _) he (entryDepth e + 1) (Nat.le_succ _) stk off ords
  refine ⟨evs, off', ords', .entry e', by rw [dumpGroup_entry]; exact hd, ?_, NodeEq.entry _ _ heq, ?_⟩
  · intro fp _ acc rest r hn
    refine LoopOk.childL { acc with children := acc.children ++ [.entry e'] } "Entry" evs rest off off' _ hhd
      (groupDispatch_Entry penv fp acc) ?_ hn
    intro rest'
    have := hr ((evs ++ rest').length + 1) (by simp only [List.length_append]; omega) rest'
    simp only [bind, StateT.bind, get, getThe, MonadStateOf.get, StateT.get, pure, StateT.pure, Outcome.bind, this]
  · rw [nodeDepth_entry]
    have := entryDepth_pos e
    omega

theorem groupRT_of_children (denv : DEnv) (u : Bytes → Option String) (penv : Env) (hks : ∀ o n, (penv.ks o n).length = n)
    (henv : denv.ks = penv.ks) (fd B : Nat)
    (uuid : Bytes) (name : String) (notes : Option String) (iconId : Option Nat) (ciu : Option Bytes) (cs : List Node)
    (t : Times) (cd : CustomData) (isExp : Bool) (das ea es : Option String) (ltve : Option Bytes)
    (hok : NodeOk (.group uuid name notes iconId ciu cs t cd isExp das ea es ltve))
    (hc : ∀ c ∈ cs, NodeRT denv u penv fd B c) :
    GroupRT denv u penv (fd + 1) (B + 1) (.group uuid name notes iconId ciu cs t cd isExp das ea es ltve) := by
  cases hok with
  | group _ _ _ _ _ _ _ _ _ _ _ _ _ hu hname hnotes hic hciu ht htn hcd hcdn hdas hea hes hltve hcs =>
    intro stk off ords
    obtain ⟨evs, off', ords', cs', hd, hr, he, hhd, hl⟩ := group_core denv u penv hks henv fd B uuid name notes iconId ciu cs t cd
      isExp das ea es ltve hu hname hnotes hic hciu ht hcd hdas hea hes hltve (children_rt denv u penv fd B cs hc) stk off ords
    refine ⟨evs, off', ords', (.group uuid name notes iconId ciu cs'
          ⟨t.expires, t.usageCount, insertAll [] (ordered ords t.times)⟩
          (insertAll [] (ordered ords.tail cd)) isExp das ea es ltve), hd, ?_, ?_, hhd, ?_⟩
    · intro fp hfp
      obtain ⟨fp', rfl⟩ : ∃ k, fp = k + 1 := ⟨fp - 1, by omega⟩
      exact hr fp' (by omega)
    · exact NodeEq.group uuid name notes iconId ciu cs cs' t _ cd _ isExp das ea es ltve
        ⟨rfl, rfl, lookup_insertAll_ordered ords t.times htn⟩ (lookup_insertAll_ordered _ cd hcdn) he
    · rw [nodeDepth_group]; exact hl

/-- every node of the domain, written with enough fuel, is read back (as a child of a group) as an equivalent node -/
theorem node_rt (denv : DEnv) (u : Bytes → Option String) (penv : Env) (hks : ∀ o n, (penv.ks o n).length = n)
    (henv : denv.ks = penv.ks) :
    ∀ (n : Nat) (nd : Node), nodeDepth nd ≤ n → NodeOk nd → ∀ fd, n ≤ fd → NodeRT denv u penv fd n nd := by
  intro n
  induction n with
  | zero =>
    intro nd hd
    cases nd with
    | entry e => rw [nodeDepth_entry] at hd; omega
    | group => rw [nodeDepth_group] at hd; omega
  | succ n ih =>
    intro nd hd hok fd hfd
    obtain ⟨fd', rfl⟩ : ∃ k, fd = k + 1 := ⟨fd - 1, by omega⟩
    cases nd with
    | entry e =>
      cases hok with
      | entry _ he => exact nodeRT_entry denv u penv hks henv e he fd' (n + 1)
    | group uuid name notes iconId ciu cs t cd isExp das ea es ltve =>
      refine nodeRT_of_groupRT denv u penv (fd' + 1) (n + 1) _
        (groupRT_of_children denv u penv hks henv fd' n uuid name notes iconId ciu cs t cd isExp das ea es ltve hok ?_)
      intro c hc
      have hdc : nodeDepth c ≤ n := by
        have := nodeListDepth_mem cs c hc
        rw [nodeDepth_group] at hd
        omega
      cases hok with
      | group _ _ _ _ _ _ _ _ _ _ _ _ _ _ _ _ _ _ _ _ _ _ _ _ _ _ hcs =>
        exact ih c hdc (nodesOk_mem cs hcs c hc) fd' (by omega)

/-- the root group -/
theorem group_rt (denv : DEnv) (u : Bytes → Option String) (penv : Env) (hks : ∀ o n, (penv.ks o n).length = n)
    (henv : denv.ks = penv.ks) (uuid : Bytes) (name : String) (notes : Option String) (iconId : Option Nat)
    (ciu : Option Bytes) (cs : List Node) (t : Times) (cd : CustomData) (isExp : Bool) (das ea es : Option String)
    (ltve : Option Bytes) (hok : NodeOk (.group uuid name notes iconId ciu cs t cd isExp das ea es ltve))
    (fd : Nat) (hfd : nodeDepth (.group uuid name notes iconId ciu cs t cd isExp das ea es ltve) ≤ fd) :
    GroupRT denv u penv fd (nodeDepth (.group uuid name notes iconId ciu cs t cd isExp das ea es ltve))
      (.group uuid name notes iconId ciu cs t cd isExp das ea es ltve) := by
  rw [nodeDepth_group] at hfd ⊢
  obtain ⟨fd', rfl⟩ : ∃ k, fd = k + 1 := ⟨fd - 1, by omega⟩
  rw [Nat.add_comm 1]
  refine groupRT_of_children denv u penv hks henv fd' (nodeListDepth cs) uuid name notes iconId ciu cs t cd isExp das ea es ltve
    hok ?_
  intro c hc
  cases hok with
  | group _ _ _ _ _ _ _ _ _ _ _ _ _ _ _ _ _ _ _ _ _ _ _ _ _ _ hcs =>
    exact node_rt denv u penv hks henv (nodeListDepth cs) c (nodeListDepth_mem cs c hc) (nodesOk_mem cs hcs c hc) fd' (by omega)


/-! ### `Meta` -/

theorem intText_neg (i : Int) (h : i < 0) : (intText i).toList = '-' :: Nat.toDigits 10 i.natAbs := by
  simp [intText, h, String.toList_append]

theorem intText_nonneg (i : Int) (h : ¬ i < 0) : (intText i).toList = Nat.toDigits 10 i.toNat := by
  simp [intText, h]

theorem isize_roundtrip (i : Int) (h1 : -9223372036854775808 ≤ i) (h2 : i ≤ 9223372036854775807) :
    parseIsize (intText i) = some i := by
  unfold parseIsize
  by_cases hneg : i < 0
  · simp only [intText_neg i hneg, digitsToNat_toDigits]
    have : i.natAbs ≤ 9223372036854775808 := by omega
    simp only [this, if_true]
    congr 1; omega
  · simp only [intText_nonneg i hneg]
    split
    · rename_i r heq; exact absurd heq (toDigits_head_ne_minus _ r)
    · split
      · rename_i v hv
        split at hv
        · rename_i r heq; exact absurd heq (toDigits_head_ne_plus _ r)
        · rw [digitsToNat_toDigits] at hv
          cases hv
          have : i.toNat < 9223372036854775808 := by omega
          simp only [this, if_true]
          congr 1; omega
      · rename_i hv
        split at hv
        · rename_i r heq; exact absurd heq (toDigits_head_ne_plus _ r)
        · rw [digitsToNat_toDigits] at hv; cases hv


theorem plain_int (i : Int) : ∀ c ∈ (intText i).toList, plainChar c = true := by
  by_cases hneg : i < 0
  · rw [intText_neg i hneg]
    intro c hc
    cases hc with
    | head => decide
    | tail _ hm => exact plain_digit c (Nat.isDigit_of_mem_toDigits (by decide) (by decide) hm)
  · rw [intText_nonneg i hneg]
    intro c hc; exact plain_digit c (Nat.isDigit_of_mem_toDigits (by decide) (by decide) hc)

theorem xmlText_int (i : Int) : XmlText (intText i) := xmlText_of_plain _ (plain_int i)
theorem txt_int (i : Int) : txt (intText i) = [.chars (intText i)] := by
  refine txt_of_plain _ ?_ (plain_int i)
  by_cases hneg : i < 0
  · rw [intText_neg i hneg]; simp
  · rw [intText_nonneg i hneg]; exact Nat.toDigits_ne_nil

theorem parses_isize (i : Int) (h1 : -9223372036854775808 ≤ i) (h2 : i ≤ 9223372036854775807) :
    Parses .isize (intText i) (.int i) := by
  intro st; simp only [fromChars, isize_roundtrip i h1 h2]; rfl

def IsizeOk (i : Int) : Prop := -9223372036854775808 ≤ i ∧ i ≤ 9223372036854775807
def UsizeOk (n : Nat) : Prop := n < 18446744073709551616
def UuidOk (b : Bytes) : Prop := b.length = 16
def OptAll {α : Type} (p : α → Prop) (x : Option α) : Prop := ∀ a, x = some a → p a

/-- the helper parsers of `parseMeta` on an optional tag as the writer emits it -/
theorem reads_optText (n s : String) (off : Nat) (h : NonBlank s) :
    Reads optText (el n (txt (id s))) off (some s) off :=
  (reads_tagOpt_text n s off h).andThen _

theorem reads_optTime (n : String) (t : Int) (off : Nat) (h : TimeOk t) :
    Reads optTime (el n (txt (formatTimestamp t))) off (some t) off := by
  rw [txt_time]; exact (reads_tagOpt_some .time n _ _ off (parses_time t h.1 h.2)).andThen _

theorem reads_optUuid (n : String) (b : Bytes) (off : Nat) (h : UuidOk b) :
    Reads optUuid (el n (txt (b64Text b))) off (some b) off := by
  have hne : b ≠ [] := by intro e; unfold UuidOk at h; rw [e] at h; simp at h
  rw [txt_b64 _ hne]; exact (reads_tagOpt_some .uuid n _ _ off (parses_uuid b h)).andThen _

theorem reads_optUsize (n : String) (k : Nat) (off : Nat) (h : UsizeOk k) :
    Reads optUsize (el n (txt (toString k))) off (some k) off := by
  rw [txt_nat]; exact (reads_tagOpt_some .usize n _ _ off (parses_usize k h)).andThen _

theorem reads_optIsize (n : String) (i : Int) (off : Nat) (h : IsizeOk i) :
    Reads optIsize (el n (txt (intText i))) off (some i) off := by
  rw [txt_int]; exact (reads_tagOpt_some .isize n _ _ off (parses_isize i h.1 h.2)).andThen _

theorem reads_optBool (n : String) (b : Bool) (off : Nat) :
    Reads (tagOpt .bool) (el n (txt (boolText b))) off (some (.bool b)) off := by
  rw [txt_bool]; exact reads_tagOpt_some .bool n _ _ off (parses_bool b)

/-! #### memory protection -/

def evMemProt (p : MemoryProtection) : List Ev :=
  el "MemoryProtection" (el "ProtectTitle" [.chars (boolText p.title)] ++ (el "ProtectUserName" [.chars (boolText p.username)] ++
    (el "ProtectPassword" [.chars (boolText p.password)] ++ (el "ProtectURL" [.chars (boolText p.url)] ++
    el "ProtectNotes" [.chars (boolText p.notes)]))))

def memProtDispatch : String → MemoryProtection → Option (P MemoryProtection) := fun name acc =>
    if name = "ProtectTitle" then some (do pure { acc with title := (← tagReq .bool).toBool })
    else if name = "ProtectUserName" then some (do pure { acc with username := (← tagReq .bool).toBool })
    else if name = "ProtectPassword" then some (do pure { acc with password := (← tagReq .bool).toBool })
    else if name = "ProtectURL" then some (do pure { acc with url := (← tagReq .bool).toBool })
    else if name = "ProtectNotes" then some (do pure { acc with notes := (← tagReq .bool).toBool })
    else none

theorem parseMemoryProtection_eq : parseMemoryProtection = (do
    let _ ← expectStart "MemoryProtection"
    structLoop "MemoryProtection" memProtDispatch skipUnknown (← fuelOf) {}) := rfl

theorem reads_memProt (p : MemoryProtection) (off : Nat) : Reads parseMemoryProtection (evMemProt p) off p off := by
  intro rest
  obtain ⟨a, b, c, d, e⟩ := p
  rw [parseMemoryProtection_eq]
  simp only [evMemProt, el, List.cons_append, bind, StateT.bind, expectStart, next, Outcome.bind, ite_true,
    pure, StateT.pure, fuelOf, get, getThe, MonadStateOf.get, StateT.get]
  simp only [List.append_assoc, List.cons_append, List.nil_append]
  refine (?_ : LoopOk _ _ _ _ _ _) _ (by simp)
  refine LoopOk.child (acc' := ({ title := a } : MemoryProtection)) "ProtectTitle" [] [.chars (boolText a), .stop "ProtectTitle"] _ off off _ (by rfl)
    (by simp [memProtDispatch]; rfl) ((reads_tagReq .bool "ProtectTitle" _ _ off (parses_bool a)).andThen _) ?_
  refine LoopOk.child (acc' := ({ title := a, username := b } : MemoryProtection)) "ProtectUserName" [] [.chars (boolText b), .stop "ProtectUserName"] _ off off _ (by rfl)
    (by simp [memProtDispatch]; rfl) ((reads_tagReq .bool "ProtectUserName" _ _ off (parses_bool b)).andThen _) ?_
  refine LoopOk.child (acc' := ({ title := a, username := b, password := c } : MemoryProtection)) "ProtectPassword" [] [.chars (boolText c), .stop "ProtectPassword"] _ off off _ (by rfl)
    (by simp [memProtDispatch]; rfl) ((reads_tagReq .bool "ProtectPassword" _ _ off (parses_bool c)).andThen _) ?_
  refine LoopOk.child (acc' := ({ title := a, username := b, password := c, url := d } : MemoryProtection)) "ProtectURL" [] [.chars (boolText d), .stop "ProtectURL"] _ off off _ (by rfl)
    (by simp [memProtDispatch]; rfl) ((reads_tagReq .bool "ProtectURL" _ _ off (parses_bool d)).andThen _) ?_
  refine LoopOk.child (acc' := ({ title := a, username := b, password := c, url := d, notes := e } : MemoryProtection)) "ProtectNotes" [] [.chars (boolText e), .stop "ProtectNotes"] _ off off _ (by rfl)
    (by simp [memProtDispatch]; rfl) ((reads_tagReq .bool "ProtectNotes" _ _ off (parses_bool e)).andThen _) ?_
  exact LoopOk.stop _ _ _ _ _ _


/-! #### custom icons -/

def evIcon (p : Bytes × Bytes) : List Ev :=
  el "Icon" (el "UUID" [.chars (b64Text p.1)] ++ el "Data" [.chars (b64Text p.2)])

def IconOk (p : Bytes × Bytes) : Prop := p.1.length = 16 ∧ p.2 ≠ []

def iconDispatch : String → (Bytes × Bytes) → Option (P (Bytes × Bytes)) := fun name acc =>
    if name = "UUID" then some (do pure ((← tagReq .uuid).toUuid, acc.2))
    else if name = "Data" then some (do
      let d := (← tagReq .text).str
      match b64Decode d.toList with
      | some b => pure (acc.1, b)
      | none => fail)
    else none

theorem parseIcon_eq : parseIcon = (do
    let _ ← expectStart "Icon"
    structLoop "Icon" iconDispatch skipUnknown (← fuelOf) (List.replicate 16 0, [])) := rfl

theorem reads_icon (p : Bytes × Bytes) (off : Nat) (h : IconOk p) : Reads parseIcon (evIcon p) off p off := by
  intro rest
  obtain ⟨uu, data⟩ := p
  rw [parseIcon_eq]
  simp only [evIcon, el, List.cons_append, bind, StateT.bind, expectStart, next, Outcome.bind, ite_true,
    pure, StateT.pure, fuelOf, get, getThe, MonadStateOf.get, StateT.get]
  simp only [List.append_assoc, List.cons_append, List.nil_append]
  refine (?_ : LoopOk _ _ _ _ _ _) _ (by simp)
  refine LoopOk.child (acc' := (uu, [])) "UUID" [] [.chars (b64Text uu), .stop "UUID"] _ off off _ (by rfl)
    (by simp [iconDispatch]; rfl) ((reads_tagReq .uuid "UUID" _ _ off (parses_uuid uu h.1)).andThen _) ?_
  refine LoopOk.child (acc' := (uu, data)) "Data" [] [.chars (b64Text data), .stop "Data"] _ off off _ (by rfl)
    (by simp [iconDispatch]; rfl) ?_ ?_
  · intro rest'
    have h0 : tagReq .text ⟨[Ev.start "Data" [], Ev.chars (b64Text data), Ev.stop "Data"] ++ rest', off⟩
        = .ok (.text (b64Text data), ⟨rest', off⟩) := reads_tagReq .text "Data" _ _ off (parses_text (b64Text data)) rest'
    rw [P_bind_ok _ _ _ _ _ h0]
    simp only [Scalar.str, b64Text_toList, b64_roundtrip]
    rfl
  exact LoopOk.stop _ _ _ _ _ _

def iconsDispatch : String → List (Bytes × Bytes) → Option (P (List (Bytes × Bytes))) := fun name acc =>
    if name = "Icon" then some (do pure (acc ++ [← parseIcon])) else none

theorem parseCustomIcons_eq : parseCustomIcons = (do
    let _ ← expectStart "CustomIcons"
    structLoop "CustomIcons" iconsDispatch skipUnknown (← fuelOf) []) := rfl

theorem iconsLoop_items (l : List (Bytes × Bytes)) : ∀ (acc : List (Bytes × Bytes)) (rest : List Ev) (off : Nat) (r),
    (∀ p ∈ l, IconOk p) →
    LoopOk "CustomIcons" iconsDispatch skipUnknown (acc ++ l) ⟨rest, off⟩ r →
    LoopOk "CustomIcons" iconsDispatch skipUnknown acc ⟨l.flatMap evIcon ++ rest, off⟩ r := by
  induction l with
  | nil => intro acc rest off r _ h; simpa using h
  | cons a l ih =>
    intro acc rest off r h hn
    rw [List.flatMap_cons, List.append_assoc]
    refine LoopOk.childL (acc ++ [a]) "Icon" _ _ off off _ ⟨[], _, rfl⟩
      (by simp [iconsDispatch]; rfl) ((reads_icon a off (h a List.mem_cons_self)).andThen _) ?_
    refine ih _ rest off r (fun x hx => h x (List.mem_cons_of_mem _ hx)) ?_
    simpa [List.append_assoc] using hn

def evCustomIcons (l : List (Bytes × Bytes)) : List Ev := el "CustomIcons" (l.flatMap evIcon)

theorem reads_customIcons (l : List (Bytes × Bytes)) (off : Nat) (h : ∀ p ∈ l, IconOk p) :
    Reads parseCustomIcons (evCustomIcons l) off l off := by
  intro rest
  rw [parseCustomIcons_eq]
  simp only [evCustomIcons, el, List.cons_append, bind, StateT.bind, expectStart, next, Outcome.bind, ite_true,
    pure, StateT.pure, fuelOf, get, getThe, MonadStateOf.get, StateT.get]
  simp only [List.append_assoc, List.cons_append, List.nil_append]
  refine (?_ : LoopOk _ _ _ _ _ _) _ (by simp)
  refine iconsLoop_items l [] _ off _ h ?_
  exact LoopOk.stop _ _ _ _ _ _

theorem dumps_icons (stk : List String) (off : Nat) (ords : Ords) (l : List (Bytes × Bytes)) :
    Dumps (forIn l PUnit.unit fun x (_ : PUnit) =>
            match x with
            | (uuid, data) => do
              emit (WEv.start "Icon" [])
              tagRaw "UUID" (b64Text uuid)
              tagText "Data" (b64Text data)
              emit WEv.stop
              pure (ForInStep.yield PUnit.unit)) stk off ords PUnit.unit
      (l.flatMap fun p => el "Icon" (el "UUID" (txt (b64Text p.1)) ++ el "Data" (txt (b64Text p.2)))) stk off ords := by
  induction l with
  | nil => exact Dumps.pure _ _ _ _
  | cons p l ih =>
    obtain ⟨uu, data⟩ := p
    rw [List.forIn_cons]
    have e : List.flatMap (fun p : Bytes × Bytes => el "Icon" (el "UUID" (txt (b64Text p.1)) ++ el "Data" (txt (b64Text p.2)))) ((uu, data) :: l)
        = ([.start "Icon" []] ++ (el "UUID" (txt (b64Text uu)) ++ (el "Data" (txt (b64Text data)) ++ ([.stop "Icon"] ++ []))))
          ++ l.flatMap (fun p : Bytes × Bytes => el "Icon" (el "UUID" (txt (b64Text p.1)) ++ el "Data" (txt (b64Text p.2)))) := by
      simp [List.flatMap_cons, el]
    rw [e]
    refine Dumps.bind (s2 := stk) (o2 := off) (q2 := ords) (a := ForInStep.yield PUnit.unit) ?_ ih
    refine Dumps.bind (Dumps.emit_start "Icon" [] stk off ords (by decide) rfl) ?_
    refine Dumps.bind (Dumps.tagRaw "UUID" (b64Text uu) _ off ords (by decide) (xmlText_b64 _)) ?_
    refine Dumps.bind (Dumps.tagText "Data" (b64Text data) _ off ords (by decide) (xmlText_b64 _)) ?_
    exact Dumps.bind (Dumps.emit_stop "Icon" stk _ ords) (Dumps.pure _ _ _ _)

theorem icons_ev_eq (l : List (Bytes × Bytes)) (h : ∀ p ∈ l, IconOk p) :
    (l.flatMap fun p => el "Icon" (el "UUID" (txt (b64Text p.1)) ++ el "Data" (txt (b64Text p.2)))) = l.flatMap evIcon := by
  induction l with
  | nil => rfl
  | cons p l ih =>
    have hp := h p List.mem_cons_self
    have h1 : p.1 ≠ [] := by intro e; have := hp.1; rw [e] at this; simp at this
    simp only [List.flatMap_cons, evIcon, txt_b64 _ h1, txt_b64 _ hp.2, ih (fun x hx => h x (List.mem_cons_of_mem _ hx))]


/-! #### the binary pool in `<Meta>` -/

def binAttrs (b : BinaryAttachment) : List (String × String) :=
  (match b.identifier with | some i => [("ID", i)] | none => []) ++ (if b.compressed then [("Compressed", "True")] else [])

def binPayload (gz : Bytes → Bytes) (b : BinaryAttachment) : Bytes := if b.compressed then gz b.content else b.content

def evBinary (gz : Bytes → Bytes) (b : BinaryAttachment) : List Ev :=
  [.start "Binary" (binAttrs b), .chars (b64Text (binPayload gz b)), .stop "Binary"]

def BinaryOk (gz : Bytes → Bytes) (b : BinaryAttachment) : Prop :=
  (∀ i, b.identifier = some i → XmlText i) ∧ binPayload gz b ≠ []

theorem reads_binary (env : Env) (gz : Bytes → Bytes) (hgz : ∀ m, env.gunzip (gz m) = some m) (b : BinaryAttachment)
    (off : Nat) : Reads (parseBinaryAttachment env) (evBinary gz b) off b off := by
  intro rest
  obtain ⟨ident, comp, content⟩ := b
  have hb : parseBool "True" = some true := by decide
  cases ident <;> cases comp <;>
    simp [parseBinaryAttachment, evBinary, binAttrs, binPayload, bind, StateT.bind, next, Outcome.bind, List.lookup, pure,
      StateT.pure, scalarReq, fromChars, Scalar.str, b64Text_toList, b64_roundtrip, hb, hgz]

def binariesDispatch (env : Env) : String → List BinaryAttachment → Option (P (List BinaryAttachment)) := fun name acc =>
    if name = "Binary" then some (do pure (acc ++ [← parseBinaryAttachment env])) else none

theorem parseBinaries_eq (env : Env) : parseBinaries env = (do
    let _ ← expectStart "Binaries"
    structLoop "Binaries" (binariesDispatch env) skipUnknown (← fuelOf) []) := rfl

theorem binariesLoop_items (env : Env) (gz : Bytes → Bytes) (hgz : ∀ m, env.gunzip (gz m) = some m)
    (l : List BinaryAttachment) : ∀ (acc : List BinaryAttachment) (rest : List Ev) (off : Nat) (r),
    LoopOk "Binaries" (binariesDispatch env) skipUnknown (acc ++ l) ⟨rest, off⟩ r →
    LoopOk "Binaries" (binariesDispatch env) skipUnknown acc ⟨l.flatMap (evBinary gz) ++ rest, off⟩ r := by
  induction l with
  | nil => intro acc rest off r h; simpa using h
  | cons a l ih =>
    intro acc rest off r hn
    rw [List.flatMap_cons, List.append_assoc]
    refine LoopOk.childL (acc ++ [a]) "Binary" _ _ off off _ ⟨_, _, rfl⟩
      (by simp [binariesDispatch]; rfl) ((reads_binary env gz hgz a off).andThen _) ?_
    refine ih _ rest off r ?_
    simpa [List.append_assoc] using hn

def evBinaries (gz : Bytes → Bytes) (l : List BinaryAttachment) : List Ev := el "Binaries" (l.flatMap (evBinary gz))

theorem reads_binaries (env : Env) (gz : Bytes → Bytes) (hgz : ∀ m, env.gunzip (gz m) = some m)
    (l : List BinaryAttachment) (off : Nat) :
    Reads (parseBinaries env) (evBinaries gz l) off l off := by
  intro rest
  rw [parseBinaries_eq]
  simp only [evBinaries, el, List.cons_append, bind, StateT.bind, expectStart, next, Outcome.bind, ite_true,
    pure, StateT.pure, fuelOf, get, getThe, MonadStateOf.get, StateT.get]
  simp only [List.append_assoc, List.cons_append, List.nil_append]
  refine (?_ : LoopOk _ _ _ _ _ _) _ (by simp)
  refine binariesLoop_items env gz hgz l [] _ off _ ?_
  exact LoopOk.stop _ _ _ _ _ _

theorem dumps_binaries (env : DEnv) (stk : List String) (off : Nat) (ords : Ords) (l : List BinaryAttachment)
    (h : ∀ b ∈ l, BinaryOk env.gzip b) :
    Dumps (forIn l PUnit.unit fun b (_ : PUnit) =>
            have attrs :=
              (match b.identifier with
                | some i => [("ID", i)]
                | none => []) ++
                if b.compressed = true then [("Compressed", "True")] else [];
            do
            emit (WEv.start "Binary" attrs)
            emit (WEv.chars (b64Text (if b.compressed = true then env.gzip b.content else b.content)))
            emit WEv.stop
            pure (ForInStep.yield PUnit.unit)) stk off ords PUnit.unit (l.flatMap (evBinary env.gzip)) stk off ords := by
  induction l with
  | nil => exact Dumps.pure _ _ _ _
  | cons b l ih =>
    rw [List.forIn_cons]
    have hb := h b List.mem_cons_self
    have e : List.flatMap (evBinary env.gzip) (b :: l)
        = ([.start "Binary" (binAttrs b)] ++ ([.chars (b64Text (binPayload env.gzip b))] ++ ([.stop "Binary"] ++ [])))
          ++ l.flatMap (evBinary env.gzip) := by
      simp [List.flatMap_cons, evBinary]
    rw [e]
    refine Dumps.bind (s2 := stk) (o2 := off) (q2 := ords) (a := ForInStep.yield PUnit.unit) ?_ (ih (fun x hx => h x (List.mem_cons_of_mem _ hx)))
    have hattrs : (binAttrs b).any (fun a => a.2.toList.any invalidXmlChar) = false := by
      obtain ⟨ident, comp, content⟩ := b
      cases ident with
      | none => cases comp <;> simp [binAttrs] <;> decide
      | some i =>
        have hi : i.toList.any invalidXmlChar = false := hb.1 i rfl
        cases comp <;> simp [binAttrs, hi] <;> decide
    refine Dumps.bind (Dumps.emit_start "Binary" (binAttrs b) stk off ords (by decide) hattrs) ?_
    have hc := Dumps.emit_chars (b64Text (binPayload env.gzip b)) ("Binary" :: stk) off ords (xmlText_b64 _)
    rw [txt_b64 _ hb.2] at hc
    refine Dumps.bind hc ?_
    exact Dumps.bind (Dumps.emit_stop "Binary" stk _ ords) (Dumps.pure _ _ _ _)


/-! #### `Meta` itself -/

def dumpOptMemProt : Option MemoryProtection → D Unit
  | some p => do
    emit (WEv.start "MemoryProtection" [])
    tagRaw "ProtectTitle" (boolText p.title)
    tagRaw "ProtectUserName" (boolText p.username)
    tagRaw "ProtectPassword" (boolText p.password)
    tagRaw "ProtectURL" (boolText p.url)
    tagRaw "ProtectNotes" (boolText p.notes)
    emit WEv.stop
  | none => pure ()

theorem dumps_optMemProt (x : Option MemoryProtection) (stk : List String) (off : Nat) (ords : Ords) :
    Dumps (dumpOptMemProt x) stk off ords () (optList evMemProt x) stk off ords := by
  cases x with
  | none => exact Dumps.pure _ _ _ _
  | some p =>
    have e : optList evMemProt (some p) = [.start "MemoryProtection" []] ++ (el "ProtectTitle" [.chars (boolText p.title)] ++
        (el "ProtectUserName" [.chars (boolText p.username)] ++ (el "ProtectPassword" [.chars (boolText p.password)] ++
        (el "ProtectURL" [.chars (boolText p.url)] ++ (el "ProtectNotes" [.chars (boolText p.notes)] ++ [.stop "MemoryProtection"]))))) := by
      simp [optList, evMemProt, el]
    rw [e]
    have tb : ∀ (n : String) (b : Bool) (s : List String), NameOk n → Dumps (tagRaw n (boolText b)) s off ords () (el n [.chars (boolText b)]) s off ords := by
      intro n b s hn
      have := Dumps.tagRaw n (boolText b) s off ords hn (xmlText_bool _)
      rwa [txt_bool] at this
    refine Dumps.bind (Dumps.emit_start "MemoryProtection" [] stk off ords (by decide) rfl) ?_
    refine Dumps.bind (tb "ProtectTitle" p.title _ (by decide)) ?_
    refine Dumps.bind (tb "ProtectUserName" p.username _ (by decide)) ?_
    refine Dumps.bind (tb "ProtectPassword" p.password _ (by decide)) ?_
    refine Dumps.bind (tb "ProtectURL" p.url _ (by decide)) ?_
    refine Dumps.bind (tb "ProtectNotes" p.notes _ (by decide)) ?_
    exact Dumps.emit_stop "MemoryProtection" stk off ords
def dumpCustomIcons (l : List (Bytes × Bytes)) : D Unit := do
  emit (WEv.start "CustomIcons" [])
  forIn l PUnit.unit fun x (_ : PUnit) =>
        match x with
        | (uuid, data) => do
          emit (WEv.start "Icon" [])
          tagRaw "UUID" (b64Text uuid)
          tagText "Data" (b64Text data)
          emit WEv.stop
          pure (ForInStep.yield PUnit.unit)
  emit WEv.stop

def dumpBinaries (env : DEnv) (l : List BinaryAttachment) : D Unit := do
  emit (WEv.start "Binaries" [])
  forIn l PUnit.unit fun b (_ : PUnit) =>
        have attrs :=
          (match b.identifier with
            | some i => [("ID", i)]
            | none => []) ++
            if b.compressed = true then [("Compressed", "True")] else [];
        do
        emit (WEv.start "Binary" attrs)
        emit (WEv.chars (b64Text (if b.compressed = true then env.gzip b.content else b.content)))
        emit WEv.stop
        pure (ForInStep.yield PUnit.unit)
  emit WEv.stop

theorem dumps_customIcons (l : List (Bytes × Bytes)) (stk : List String) (off : Nat) (ords : Ords) (h : ∀ p ∈ l, IconOk p) :
    Dumps (dumpCustomIcons l) stk off ords () (evCustomIcons l) stk off ords := by
  have e : evCustomIcons l = [.start "CustomIcons" []] ++
      ((l.flatMap fun p => el "Icon" (el "UUID" (txt (b64Text p.1)) ++ el "Data" (txt (b64Text p.2)))) ++ [.stop "CustomIcons"]) := by
    rw [icons_ev_eq l h]; simp [evCustomIcons, el]
  rw [e]
  refine Dumps.bind (Dumps.emit_start "CustomIcons" [] stk off ords (by decide) rfl) ?_
  refine Dumps.bind (dumps_icons _ off ords l) ?_
  exact Dumps.emit_stop "CustomIcons" stk off ords

theorem dumps_binariesEl (env : DEnv) (l : List BinaryAttachment) (stk : List String) (off : Nat) (ords : Ords)
    (h : ∀ b ∈ l, BinaryOk env.gzip b) :
    Dumps (dumpBinaries env l) stk off ords () (evBinaries env.gzip l) stk off ords := by
  have e : evBinaries env.gzip l = [.start "Binaries" []] ++ (l.flatMap (evBinary env.gzip) ++ [.stop "Binaries"]) := by
    simp [evBinaries, el]
  rw [e]
  refine Dumps.bind (Dumps.emit_start "Binaries" [] stk off ords (by decide) rfl) ?_
  refine Dumps.bind (dumps_binaries env _ off ords l h) ?_
  exact Dumps.emit_stop "Binaries" stk off ords

theorem dumpMeta_eq (env : DEnv) (u : Bytes → Option String) (m : Meta) : dumpMeta env u m = (do
      emit (WEv.start "Meta" [])
      optTag "Generator" id false m.generator
      optTag "DatabaseName" id false m.databaseName
      optTag "DatabaseNameChanged" formatTimestamp true m.databaseNameChanged
      optTag "DatabaseDescription" id false m.databaseDescription
      optTag "DatabaseDescriptionChanged" formatTimestamp true m.databaseDescriptionChanged
      optTag "DefaultUserName" id false m.defaultUsername
      optTag "DefaultUserNameChanged" formatTimestamp true m.defaultUsernameChanged
      optTag "MaintenanceHistoryDays" (fun (n : Nat) => toString n) true m.maintenanceHistoryDays
      optTag "Color" colorText true m.color
      optTag "MasterKeyChanged" formatTimestamp true m.masterKeyChanged
      optTag "MasterKeyChangeRec" intText true m.masterKeyChangeRec
      optTag "MasterKeyChangeForce" intText true m.masterKeyChangeForce
      dumpOptMemProt m.memoryProtection
      dumpCustomIcons m.customIcons
      optTag "RecycleBinEnabled" boolText true m.recyclebinEnabled
      optTag "RecycleBinUUID" b64Text true m.recyclebinUuid
      optTag "RecycleBinChanged" formatTimestamp true m.recyclebinChanged
      optTag "EntryTemplatesGroup" b64Text true m.entryTemplatesGroup
      optTag "EntryTemplatesGroupChanged" formatTimestamp true m.entryTemplatesGroupChanged
      optTag "LastSelectedGroup" b64Text true m.lastSelectedGroup
      optTag "LastTopVisibleGroup" b64Text true m.lastTopVisibleGroup
      optTag "HistoryMaxItems" (fun (n : Nat) => toString n) true m.historyMaxItems
      optTag "HistoryMaxSize" (fun (n : Nat) => toString n) true m.historyMaxSize
      optTag "SettingsChanged" formatTimestamp true m.settingsChanged
      dumpBinaries env m.binaries
      let ok ← dumpCustomData env u m.customData
      emit WEv.stop
      pure ok) := by
  obtain ⟨generator, databaseName, databaseNameChanged, databaseDescription, databaseDescriptionChanged, defaultUsername, defaultUsernameChanged, maintenanceHistoryDays, color, masterKeyChanged, masterKeyChangeRec, masterKeyChangeForce, memoryProtection, customIcons, recyclebinEnabled, recyclebinUuid, recyclebinChanged, entryTemplatesGroup, entryTemplatesGroupChanged, lastSelectedGroup, lastTopVisibleGroup, historyMaxItems, historyMaxSize, settingsChanged, binaries, customData⟩ := m
  cases memoryProtection <;> rfl

def metaDispatch (env : Env) : String → Meta → Option (P Meta) := fun name acc =>
    if name = "Generator" then some (do pure { acc with generator := (← optText) })
    else if name = "DatabaseName" then some (do pure { acc with databaseName := (← optText) })
    else if name = "DatabaseNameChanged" then some (do pure { acc with databaseNameChanged := (← optTime) })
    else if name = "DatabaseDescription" then some (do pure { acc with databaseDescription := (← optText) })
    else if name = "DatabaseDescriptionChanged" then some (do pure { acc with databaseDescriptionChanged := (← optTime) })
    else if name = "DefaultUserName" then some (do pure { acc with defaultUsername := (← optText) })
    else if name = "DefaultUserNameChanged" then some (do pure { acc with defaultUsernameChanged := (← optTime) })
    else if name = "MaintenanceHistoryDays" then some (do pure { acc with maintenanceHistoryDays := (← optUsize) })
    else if name = "Color" then some (do pure { acc with color := (← tagOpt .color).map Scalar.toColor })
    else if name = "MasterKeyChanged" then some (do pure { acc with masterKeyChanged := (← optTime) })
    else if name = "MasterKeyChangeRec" then some (do pure { acc with masterKeyChangeRec := (← optIsize) })
    else if name = "MasterKeyChangeForce" then some (do pure { acc with masterKeyChangeForce := (← optIsize) })
    else if name = "MemoryProtection" then some (do pure { acc with memoryProtection := some (← parseMemoryProtection) })
    else if name = "CustomIcons" then some (do pure { acc with customIcons := (← parseCustomIcons) })
    else if name = "RecycleBinEnabled" then some (do pure { acc with recyclebinEnabled := (← tagOpt .bool).map Scalar.toBool })
    else if name = "RecycleBinUUID" then some (do pure { acc with recyclebinUuid := (← optUuid) })
    else if name = "RecycleBinChanged" then some (do pure { acc with recyclebinChanged := (← optTime) })
    else if name = "EntryTemplatesGroup" then some (do pure { acc with entryTemplatesGroup := (← optUuid) })
    else if name = "EntryTemplatesGroupChanged" then some (do pure { acc with entryTemplatesGroupChanged := (← optTime) })
    else if name = "LastSelectedGroup" then some (do pure { acc with lastSelectedGroup := (← optUuid) })
    else if name = "LastTopVisibleGroup" then some (do pure { acc with lastTopVisibleGroup := (← optUuid) })
    else if name = "HistoryMaxItems" then some (do pure { acc with historyMaxItems := (← optUsize) })
    else if name = "HistoryMaxSize" then some (do pure { acc with historyMaxSize := (← optUsize) })
    else if name = "SettingsChanged" then some (do pure { acc with settingsChanged := (← optTime) })
    else if name = "Binaries" then some (do pure { acc with binaries := (← parseBinaries env) })
    else if name = "CustomData" then some (do pure { acc with customData := (← parseCustomData env) })
    else none

theorem parseMeta_eq (env : Env) : parseMeta env = (do
    let _ ← expectStart "Meta"
    structLoop "Meta" (metaDispatch env) skipUnknown (← fuelOf) {}) := rfl

theorem metaDispatch_Generator (env : Env) (acc : Meta) :
    metaDispatch env "Generator" acc = some (do pure { acc with generator := (← optText) }) := by
  simp [metaDispatch]
theorem metaDispatch_DatabaseName (env : Env) (acc : Meta) :
    metaDispatch env "DatabaseName" acc = some (do pure { acc with databaseName := (← optText) }) := by
  simp [metaDispatch]
theorem metaDispatch_DatabaseNameChanged (env : Env) (acc : Meta) :
    metaDispatch env "DatabaseNameChanged" acc = some (do pure { acc with databaseNameChanged := (← optTime) }) := by
  simp [metaDispatch]
theorem metaDispatch_DatabaseDescription (env : Env) (acc : Meta) :
    metaDispatch env "DatabaseDescription" acc = some (do pure { acc with databaseDescription := (← optText) }) := by
  simp [metaDispatch]
theorem metaDispatch_DatabaseDescriptionChanged (env : Env) (acc : Meta) :
    metaDispatch env "DatabaseDescriptionChanged" acc = some (do pure { acc with databaseDescriptionChanged := (← optTime) }) := by
  simp [metaDispatch]
theorem metaDispatch_DefaultUserName (env : Env) (acc : Meta) :
    metaDispatch env "DefaultUserName" acc = some (do pure { acc with defaultUsername := (← optText) }) := by
  simp [metaDispatch]
theorem metaDispatch_DefaultUserNameChanged (env : Env) (acc : Meta) :
    metaDispatch env "DefaultUserNameChanged" acc = some (do pure { acc with defaultUsernameChanged := (← optTime) }) := by
  simp [metaDispatch]
theorem metaDispatch_MaintenanceHistoryDays (env : Env) (acc : Meta) :
    metaDispatch env "MaintenanceHistoryDays" acc = some (do pure { acc with maintenanceHistoryDays := (← optUsize) }) := by
  simp [metaDispatch]
theorem metaDispatch_Color (env : Env) (acc : Meta) :
    metaDispatch env "Color" acc = some (do pure { acc with color := (← tagOpt .color).map Scalar.toColor }) := by
  simp [metaDispatch]
theorem metaDispatch_MasterKeyChanged (env : Env) (acc : Meta) :
    metaDispatch env "MasterKeyChanged" acc = some (do pure { acc with masterKeyChanged := (← optTime) }) := by
  simp [metaDispatch]
theorem metaDispatch_MasterKeyChangeRec (env : Env) (acc : Meta) :
    metaDispatch env "MasterKeyChangeRec" acc = some (do pure { acc with masterKeyChangeRec := (← optIsize) }) := by
  simp [metaDispatch]
theorem metaDispatch_MasterKeyChangeForce (env : Env) (acc : Meta) :
    metaDispatch env "MasterKeyChangeForce" acc = some (do pure { acc with masterKeyChangeForce := (← optIsize) }) := by
  simp [metaDispatch]
theorem metaDispatch_MemoryProtection (env : Env) (acc : Meta) :
    metaDispatch env "MemoryProtection" acc = some (do pure { acc with memoryProtection := some (← parseMemoryProtection) }) := by
  simp [metaDispatch]
theorem metaDispatch_CustomIcons (env : Env) (acc : Meta) :
    metaDispatch env "CustomIcons" acc = some (do pure { acc with customIcons := (← parseCustomIcons) }) := by
  simp [metaDispatch]
theorem metaDispatch_RecycleBinEnabled (env : Env) (acc : Meta) :
    metaDispatch env "RecycleBinEnabled" acc = some (do pure { acc with recyclebinEnabled := (← tagOpt .bool).map Scalar.toBool }) := by
  simp [metaDispatch]
theorem metaDispatch_RecycleBinUUID (env : Env) (acc : Meta) :
    metaDispatch env "RecycleBinUUID" acc = some (do pure { acc with recyclebinUuid := (← optUuid) }) := by
  simp [metaDispatch]
theorem metaDispatch_RecycleBinChanged (env : Env) (acc : Meta) :
    metaDispatch env "RecycleBinChanged" acc = some (do pure { acc with recyclebinChanged := (← optTime) }) := by
  simp [metaDispatch]
theorem metaDispatch_EntryTemplatesGroup (env : Env) (acc : Meta) :
    metaDispatch env "EntryTemplatesGroup" acc = some (do pure { acc with entryTemplatesGroup := (← optUuid) }) := by
  simp [metaDispatch]
theorem metaDispatch_EntryTemplatesGroupChanged (env : Env) (acc : Meta) :
    metaDispatch env "EntryTemplatesGroupChanged" acc = some (do pure { acc with entryTemplatesGroupChanged := (← optTime) }) := by
  simp [metaDispatch]
theorem metaDispatch_LastSelectedGroup (env : Env) (acc : Meta) :
    metaDispatch env "LastSelectedGroup" acc = some (do pure { acc with lastSelectedGroup := (← optUuid) }) := by
  simp [metaDispatch]
theorem metaDispatch_LastTopVisibleGroup (env : Env) (acc : Meta) :
    metaDispatch env "LastTopVisibleGroup" acc = some (do pure { acc with lastTopVisibleGroup := (← optUuid) }) := by
  simp [metaDispatch]
theorem metaDispatch_HistoryMaxItems (env : Env) (acc : Meta) :
    metaDispatch env "HistoryMaxItems" acc = some (do pure { acc with historyMaxItems := (← optUsize) }) := by
  simp [metaDispatch]
theorem metaDispatch_HistoryMaxSize (env : Env) (acc : Meta) :
    metaDispatch env "HistoryMaxSize" acc = some (do pure { acc with historyMaxSize := (← optUsize) }) := by
  simp [metaDispatch]
theorem metaDispatch_SettingsChanged (env : Env) (acc : Meta) :
    metaDispatch env "SettingsChanged" acc = some (do pure { acc with settingsChanged := (← optTime) }) := by
  simp [metaDispatch]
theorem metaDispatch_Binaries (env : Env) (acc : Meta) :
    metaDispatch env "Binaries" acc = some (do pure { acc with binaries := (← parseBinaries env) }) := by
  simp [metaDispatch]
theorem metaDispatch_CustomData (env : Env) (acc : Meta) :
    metaDispatch env "CustomData" acc = some (do pure { acc with customData := (← parseCustomData env) }) := by
  simp [metaDispatch]
structure MetaOk (gz : Bytes → Bytes) (m : Meta) : Prop where
  generator : OptNonBlank m.generator
  databaseName : OptNonBlank m.databaseName
  databaseNameChanged : OptAll TimeOk m.databaseNameChanged
  databaseDescription : OptNonBlank m.databaseDescription
  databaseDescriptionChanged : OptAll TimeOk m.databaseDescriptionChanged
  defaultUsername : OptNonBlank m.defaultUsername
  defaultUsernameChanged : OptAll TimeOk m.defaultUsernameChanged
  maintenanceHistoryDays : OptAll UsizeOk m.maintenanceHistoryDays
  color : OptAll ColorOk m.color
  masterKeyChanged : OptAll TimeOk m.masterKeyChanged
  masterKeyChangeRec : OptAll IsizeOk m.masterKeyChangeRec
  masterKeyChangeForce : OptAll IsizeOk m.masterKeyChangeForce
  customIcons : ∀ p ∈ m.customIcons, IconOk p
  recyclebinUuid : OptAll UuidOk m.recyclebinUuid
  recyclebinChanged : OptAll TimeOk m.recyclebinChanged
  entryTemplatesGroup : OptAll UuidOk m.entryTemplatesGroup
  entryTemplatesGroupChanged : OptAll TimeOk m.entryTemplatesGroupChanged
  lastSelectedGroup : OptAll UuidOk m.lastSelectedGroup
  lastTopVisibleGroup : OptAll UuidOk m.lastTopVisibleGroup
  historyMaxItems : OptAll UsizeOk m.historyMaxItems
  historyMaxSize : OptAll UsizeOk m.historyMaxSize
  settingsChanged : OptAll TimeOk m.settingsChanged
  binaries : ∀ b ∈ m.binaries, BinaryOk gz b
  customData : CdOk m.customData
  customDataNodup : KeysNodup m.customData

def evMeta (ks : Nat → Nat → Bytes) (gz : Bytes → Bytes) (off : Nat) (m : Meta) (lcd : List (String × CustomDataItem)) : List Ev :=
  [.start "Meta" []] ++ (evOpt "Generator" id m.generator ++
    (evOpt "DatabaseName" id m.databaseName ++
    (evOpt "DatabaseNameChanged" formatTimestamp m.databaseNameChanged ++
    (evOpt "DatabaseDescription" id m.databaseDescription ++
    (evOpt "DatabaseDescriptionChanged" formatTimestamp m.databaseDescriptionChanged ++
    (evOpt "DefaultUserName" id m.defaultUsername ++
    (evOpt "DefaultUserNameChanged" formatTimestamp m.defaultUsernameChanged ++
    (evOpt "MaintenanceHistoryDays" (fun (n : Nat) => toString n) m.maintenanceHistoryDays ++
    (evOpt "Color" colorText m.color ++
    (evOpt "MasterKeyChanged" formatTimestamp m.masterKeyChanged ++
    (evOpt "MasterKeyChangeRec" intText m.masterKeyChangeRec ++
    (evOpt "MasterKeyChangeForce" intText m.masterKeyChangeForce ++
    (optList evMemProt m.memoryProtection ++
    (evCustomIcons m.customIcons ++
    (evOpt "RecycleBinEnabled" boolText m.recyclebinEnabled ++
    (evOpt "RecycleBinUUID" b64Text m.recyclebinUuid ++
    (evOpt "RecycleBinChanged" formatTimestamp m.recyclebinChanged ++
    (evOpt "EntryTemplatesGroup" b64Text m.entryTemplatesGroup ++
    (evOpt "EntryTemplatesGroupChanged" formatTimestamp m.entryTemplatesGroupChanged ++
    (evOpt "LastSelectedGroup" b64Text m.lastSelectedGroup ++
    (evOpt "LastTopVisibleGroup" b64Text m.lastTopVisibleGroup ++
    (evOpt "HistoryMaxItems" (fun (n : Nat) => toString n) m.historyMaxItems ++
    (evOpt "HistoryMaxSize" (fun (n : Nat) => toString n) m.historyMaxSize ++
    (evOpt "SettingsChanged" formatTimestamp m.settingsChanged ++
    (evBinaries gz m.binaries ++
    ((evCustomData ks off lcd).1 ++ ([.stop "Meta"] ++ [])))))))))))))))))))))))))))

theorem meta_core (denv : DEnv) (u : Bytes → Option String) (penv : Env) (hks : ∀ o n, (penv.ks o n).length = n)
    (henv : denv.ks = penv.ks) (hgz : ∀ x, penv.gunzip (denv.gzip x) = some x) (m : Meta) (hok : MetaOk denv.gzip m)
    (stk : List String) (off : Nat) (ords : Ords) :
    ∃ evs off', Dumps (dumpMeta denv u m) stk off ords true evs stk off' ords.tail ∧
      Reads (parseMeta penv) evs off { m with customData := insertAll [] (ordered ords m.customData) } off' ∧
      (∃ attrs tl, evs = .start "Meta" attrs :: tl) := by
  refine ⟨evMeta denv.ks denv.gzip off m (ordered ords m.customData), (evCustomData denv.ks off (ordered ords m.customData)).2, ?dumps, ?reads, ⟨[], _, rfl⟩⟩
  case dumps =>
    rw [dumpMeta_eq]
    unfold evMeta
    refine Dumps.bind (Dumps.emit_start "Meta" [] stk off ords (by decide) rfl) ?_
    refine Dumps.bind (Dumps.optTag "Generator" id false m.generator _ _ _ (by decide) (fun v hv => (hok.generator v hv).1)) ?_
    refine Dumps.bind (Dumps.optTag "DatabaseName" id false m.databaseName _ _ _ (by decide) (fun v hv => (hok.databaseName v hv).1)) ?_
    refine Dumps.bind (Dumps.optTag "DatabaseNameChanged" formatTimestamp true m.databaseNameChanged _ _ _ (by decide) (fun v _ => xmlText_b64 _)) ?_
    refine Dumps.bind (Dumps.optTag "DatabaseDescription" id false m.databaseDescription _ _ _ (by decide) (fun v hv => (hok.databaseDescription v hv).1)) ?_
    refine Dumps.bind (Dumps.optTag "DatabaseDescriptionChanged" formatTimestamp true m.databaseDescriptionChanged _ _ _ (by decide) (fun v _ => xmlText_b64 _)) ?_
    refine Dumps.bind (Dumps.optTag "DefaultUserName" id false m.defaultUsername _ _ _ (by decide) (fun v hv => (hok.defaultUsername v hv).1)) ?_
    refine Dumps.bind (Dumps.optTag "DefaultUserNameChanged" formatTimestamp true m.defaultUsernameChanged _ _ _ (by decide) (fun v _ => xmlText_b64 _)) ?_
    refine Dumps.bind (Dumps.optTag "MaintenanceHistoryDays" (fun (n : Nat) => toString n) true m.maintenanceHistoryDays _ _ _ (by decide) (fun v _ => xmlText_nat v)) ?_
    refine Dumps.bind (Dumps.optTag "Color" colorText true m.color _ _ _ (by decide) (fun v _ => xmlText_color v)) ?_
    refine Dumps.bind (Dumps.optTag "MasterKeyChanged" formatTimestamp true m.masterKeyChanged _ _ _ (by decide) (fun v _ => xmlText_b64 _)) ?_
    refine Dumps.bind (Dumps.optTag "MasterKeyChangeRec" intText true m.masterKeyChangeRec _ _ _ (by decide) (fun v _ => xmlText_int v)) ?_
    refine Dumps.bind (Dumps.optTag "MasterKeyChangeForce" intText true m.masterKeyChangeForce _ _ _ (by decide) (fun v _ => xmlText_int v)) ?_
    refine Dumps.bind (dumps_optMemProt m.memoryProtection _ _ _) ?_
    refine Dumps.bind (dumps_customIcons m.customIcons _ _ _ hok.customIcons) ?_
    refine Dumps.bind (Dumps.optTag "RecycleBinEnabled" boolText true m.recyclebinEnabled _ _ _ (by decide) (fun v _ => xmlText_bool v)) ?_
    refine Dumps.bind (Dumps.optTag "RecycleBinUUID" b64Text true m.recyclebinUuid _ _ _ (by decide) (fun v _ => xmlText_b64 v)) ?_
    refine Dumps.bind (Dumps.optTag "RecycleBinChanged" formatTimestamp true m.recyclebinChanged _ _ _ (by decide) (fun v _ => xmlText_b64 _)) ?_
    refine Dumps.bind (Dumps.optTag "EntryTemplatesGroup" b64Text true m.entryTemplatesGroup _ _ _ (by decide) (fun v _ => xmlText_b64 v)) ?_
    refine Dumps.bind (Dumps.optTag "EntryTemplatesGroupChanged" formatTimestamp true m.entryTemplatesGroupChanged _ _ _ (by decide) (fun v _ => xmlText_b64 _)) ?_
    refine Dumps.bind (Dumps.optTag "LastSelectedGroup" b64Text true m.lastSelectedGroup _ _ _ (by decide) (fun v _ => xmlText_b64 v)) ?_
    refine Dumps.bind (Dumps.optTag "LastTopVisibleGroup" b64Text true m.lastTopVisibleGroup _ _ _ (by decide) (fun v _ => xmlText_b64 v)) ?_
    refine Dumps.bind (Dumps.optTag "HistoryMaxItems" (fun (n : Nat) => toString n) true m.historyMaxItems _ _ _ (by decide) (fun v _ => xmlText_nat v)) ?_
    refine Dumps.bind (Dumps.optTag "HistoryMaxSize" (fun (n : Nat) => toString n) true m.historyMaxSize _ _ _ (by decide) (fun v _ => xmlText_nat v)) ?_
    refine Dumps.bind (Dumps.optTag "SettingsChanged" formatTimestamp true m.settingsChanged _ _ _ (by decide) (fun v _ => xmlText_b64 _)) ?_
    refine Dumps.bind (dumps_binariesEl denv m.binaries _ _ _ hok.binaries) ?_
    refine Dumps.bind (dumps_customData denv u m.customData _ _ _ (fun p hp => hok.customData p (mem_ordered _ _ p hp))) ?_
    exact Dumps.bind (Dumps.emit_stop "Meta" stk _ _) (Dumps.pure _ _ _ _)
  case reads =>
    intro rest
    rw [parseMeta_eq]
    have key : LoopOk "Meta" (metaDispatch penv) skipUnknown ({} : Meta)
        ⟨(evMeta denv.ks denv.gzip off m (ordered ords m.customData)).tail ++ rest, off⟩
        (({ m with customData := insertAll [] (ordered ords m.customData) } : Meta),
          ⟨rest, (evCustomData denv.ks off (ordered ords m.customData)).2⟩) := by
      obtain ⟨generator, databaseName, databaseNameChanged, databaseDescription, databaseDescriptionChanged, defaultUsername, defaultUsernameChanged, maintenanceHistoryDays, color, masterKeyChanged, masterKeyChangeRec, masterKeyChangeForce, memoryProtection, customIcons, recyclebinEnabled, recyclebinUuid, recyclebinChanged, entryTemplatesGroup, entryTemplatesGroupChanged, lastSelectedGroup, lastTopVisibleGroup, historyMaxItems, historyMaxSize, settingsChanged, binaries, customData⟩ := m
      simp only at hok ⊢
      simp only [evMeta, List.cons_append, List.nil_append, List.tail_cons, List.append_assoc, henv, optList_none]
      refine LoopOk.optChild generator _ (fun (acc : Meta) x => { acc with generator := x }) "Generator" _ _ _ rfl
        (fun a => ⟨[], _, rfl⟩) (metaDispatch_Generator penv _) ?_ ?_
      · exact fun a hx => ((reads_optText "Generator" a _ (hok.generator a hx))).andThen _
      refine LoopOk.optChild databaseName _ (fun (acc : Meta) x => { acc with databaseName := x }) "DatabaseName" _ _ _ rfl
        (fun a => ⟨[], _, rfl⟩) (metaDispatch_DatabaseName penv _) ?_ ?_
      · exact fun a hx => ((reads_optText "DatabaseName" a _ (hok.databaseName a hx))).andThen _
      refine LoopOk.optChild databaseNameChanged _ (fun (acc : Meta) x => { acc with databaseNameChanged := x }) "DatabaseNameChanged" _ _ _ rfl
        (fun a => ⟨[], _, rfl⟩) (metaDispatch_DatabaseNameChanged penv _) ?_ ?_
      · exact fun a hx => ((reads_optTime "DatabaseNameChanged" a _ (hok.databaseNameChanged a hx))).andThen _
      refine LoopOk.optChild databaseDescription _ (fun (acc : Meta) x => { acc with databaseDescription := x }) "DatabaseDescription" _ _ _ rfl
        (fun a => ⟨[], _, rfl⟩) (metaDispatch_DatabaseDescription penv _) ?_ ?_
      · exact fun a hx => ((reads_optText "DatabaseDescription" a _ (hok.databaseDescription a hx))).andThen _
      refine LoopOk.optChild databaseDescriptionChanged _ (fun (acc : Meta) x => { acc with databaseDescriptionChanged := x }) "DatabaseDescriptionChanged" _ _ _ rfl
        (fun a => ⟨[], _, rfl⟩) (metaDispatch_DatabaseDescriptionChanged penv _) ?_ ?_
      · exact fun a hx => ((reads_optTime "DatabaseDescriptionChanged" a _ (hok.databaseDescriptionChanged a hx))).andThen _
      refine LoopOk.optChild defaultUsername _ (fun (acc : Meta) x => { acc with defaultUsername := x }) "DefaultUserName" _ _ _ rfl
        (fun a => ⟨[], _, rfl⟩) (metaDispatch_DefaultUserName penv _) ?_ ?_
      · exact fun a hx => ((reads_optText "DefaultUserName" a _ (hok.defaultUsername a hx))).andThen _
      refine LoopOk.optChild defaultUsernameChanged _ (fun (acc : Meta) x => { acc with defaultUsernameChanged := x }) "DefaultUserNameChanged" _ _ _ rfl
        (fun a => ⟨[], _, rfl⟩) (metaDispatch_DefaultUserNameChanged penv _) ?_ ?_
      · exact fun a hx => ((reads_optTime "DefaultUserNameChanged" a _ (hok.defaultUsernameChanged a hx))).andThen _
      refine LoopOk.optChild maintenanceHistoryDays _ (fun (acc : Meta) x => { acc with maintenanceHistoryDays := x }) "MaintenanceHistoryDays" _ _ _ rfl
        (fun a => ⟨[], _, rfl⟩) (metaDispatch_MaintenanceHistoryDays penv _) ?_ ?_
      · exact fun a hx => ((reads_optUsize "MaintenanceHistoryDays" a _ (hok.maintenanceHistoryDays a hx))).andThen _
      refine LoopOk.optChild color _ (fun (acc : Meta) x => { acc with color := x }) "Color" _ _ _ rfl
        (fun a => ⟨[], _, rfl⟩) (metaDispatch_Color penv _) ?_ ?_
      · exact fun c hc => (reads_tagOpt_color "Color" c _ (hok.color c hc)).andThen _
      refine LoopOk.optChild masterKeyChanged _ (fun (acc : Meta) x => { acc with masterKeyChanged := x }) "MasterKeyChanged" _ _ _ rfl
        (fun a => ⟨[], _, rfl⟩) (metaDispatch_MasterKeyChanged penv _) ?_ ?_
      · exact fun a hx => ((reads_optTime "MasterKeyChanged" a _ (hok.masterKeyChanged a hx))).andThen _
      refine LoopOk.optChild masterKeyChangeRec _ (fun (acc : Meta) x => { acc with masterKeyChangeRec := x }) "MasterKeyChangeRec" _ _ _ rfl
        (fun a => ⟨[], _, rfl⟩) (metaDispatch_MasterKeyChangeRec penv _) ?_ ?_
      · exact fun a hx => ((reads_optIsize "MasterKeyChangeRec" a _ (hok.masterKeyChangeRec a hx))).andThen _
      refine LoopOk.optChild masterKeyChangeForce _ (fun (acc : Meta) x => { acc with masterKeyChangeForce := x }) "MasterKeyChangeForce" _ _ _ rfl
        (fun a => ⟨[], _, rfl⟩) (metaDispatch_MasterKeyChangeForce penv _) ?_ ?_
      · exact fun a hx => ((reads_optIsize "MasterKeyChangeForce" a _ (hok.masterKeyChangeForce a hx))).andThen _
      refine LoopOk.optChild memoryProtection _ (fun (acc : Meta) x => { acc with memoryProtection := x }) "MemoryProtection" _ _ _ rfl
        (fun a => ⟨[], _, rfl⟩) (metaDispatch_MemoryProtection penv _) ?_ ?_
      · exact fun a _ => (reads_memProt a _).andThen _
      refine LoopOk.childL _ "CustomIcons" _ _ _ _ _ ⟨[], _, rfl⟩ (metaDispatch_CustomIcons penv _)
        ((reads_customIcons customIcons _ hok.customIcons).andThen _) ?_
      refine LoopOk.optChild recyclebinEnabled _ (fun (acc : Meta) x => { acc with recyclebinEnabled := x }) "RecycleBinEnabled" _ _ _ rfl
        (fun a => ⟨[], _, rfl⟩) (metaDispatch_RecycleBinEnabled penv _) ?_ ?_
      · exact fun a _ => (reads_optBool "RecycleBinEnabled" a _).andThen _
      refine LoopOk.optChild recyclebinUuid _ (fun (acc : Meta) x => { acc with recyclebinUuid := x }) "RecycleBinUUID" _ _ _ rfl
        (fun a => ⟨[], _, rfl⟩) (metaDispatch_RecycleBinUUID penv _) ?_ ?_
      · exact fun a hx => ((reads_optUuid "RecycleBinUUID" a _ (hok.recyclebinUuid a hx))).andThen _
      refine LoopOk.optChild recyclebinChanged _ (fun (acc : Meta) x => { acc with recyclebinChanged := x }) "RecycleBinChanged" _ _ _ rfl
        (fun a => ⟨[], _, rfl⟩) (metaDispatch_RecycleBinChanged penv _) ?_ ?_
      · exact fun a hx => ((reads_optTime "RecycleBinChanged" a _ (hok.recyclebinChanged a hx))).andThen _
      refine LoopOk.optChild entryTemplatesGroup _ (fun (acc : Meta) x => { acc with entryTemplatesGroup := x }) "EntryTemplatesGroup" _ _ _ rfl
        (fun a => ⟨[], _, rfl⟩) (metaDispatch_EntryTemplatesGroup penv _) ?_ ?_
      · exact fun a hx => ((reads_optUuid "EntryTemplatesGroup" a _ (hok.entryTemplatesGroup a hx))).andThen _
      refine LoopOk.optChild entryTemplatesGroupChanged _ (fun (acc : Meta) x => { acc with entryTemplatesGroupChanged := x }) "EntryTemplatesGroupChanged" _ _ _ rfl
        (fun a => ⟨[], _, rfl⟩) (metaDispatch_EntryTemplatesGroupChanged penv _) ?_ ?_
      · exact fun a hx => ((reads_optTime "EntryTemplatesGroupChanged" a _ (hok.entryTemplatesGroupChanged a hx))).andThen _
      refine LoopOk.optChild lastSelectedGroup _ (fun (acc : Meta) x => { acc with lastSelectedGroup := x }) "LastSelectedGroup" _ _ _ rfl
        (fun a => ⟨[], _, rfl⟩) (metaDispatch_LastSelectedGroup penv _) ?_ ?_
      · exact fun a hx => ((reads_optUuid "LastSelectedGroup" a _ (hok.lastSelectedGroup a hx))).andThen _
      refine LoopOk.optChild lastTopVisibleGroup _ (fun (acc : Meta) x => { acc with lastTopVisibleGroup := x }) "LastTopVisibleGroup" _ _ _ rfl
        (fun a => ⟨[], _, rfl⟩) (metaDispatch_LastTopVisibleGroup penv _) ?_ ?_
      · exact fun a hx => ((reads_optUuid "LastTopVisibleGroup" a _ (hok.lastTopVisibleGroup a hx))).andThen _
      refine LoopOk.optChild historyMaxItems _ (fun (acc : Meta) x => { acc with historyMaxItems := x }) "HistoryMaxItems" _ _ _ rfl
        (fun a => ⟨[], _, rfl⟩) (metaDispatch_HistoryMaxItems penv _) ?_ ?_
      · exact fun a hx => ((reads_optUsize "HistoryMaxItems" a _ (hok.historyMaxItems a hx))).andThen _
      refine LoopOk.optChild historyMaxSize _ (fun (acc : Meta) x => { acc with historyMaxSize := x }) "HistoryMaxSize" _ _ _ rfl
        (fun a => ⟨[], _, rfl⟩) (metaDispatch_HistoryMaxSize penv _) ?_ ?_
      · exact fun a hx => ((reads_optUsize "HistoryMaxSize" a _ (hok.historyMaxSize a hx))).andThen _
      refine LoopOk.optChild settingsChanged _ (fun (acc : Meta) x => { acc with settingsChanged := x }) "SettingsChanged" _ _ _ rfl
        (fun a => ⟨[], _, rfl⟩) (metaDispatch_SettingsChanged penv _) ?_ ?_
      · exact fun a hx => ((reads_optTime "SettingsChanged" a _ (hok.settingsChanged a hx))).andThen _
      refine LoopOk.childL _ "Binaries" _ _ _ _ _ ⟨[], _, rfl⟩ (metaDispatch_Binaries penv _)
        ((reads_binaries penv denv.gzip hgz binaries _).andThen _) ?_
      refine LoopOk.childL _ "CustomData" _ _ _ _ _ ⟨[], _, rfl⟩ (metaDispatch_CustomData penv _)
        ((reads_customData penv (ordered ords customData) _ (fun p hp => hok.customData p (mem_ordered _ _ p hp)) hks).andThen _) ?_
      exact LoopOk.stop _ _ _ _ _ _
    have hx : evMeta denv.ks denv.gzip off m (ordered ords m.customData)
        = .start "Meta" [] :: (evMeta denv.ks denv.gzip off m (ordered ords m.customData)).tail := rfl
    rw [hx]
    simp only [List.cons_append, bind, StateT.bind, expectStart, next, Outcome.bind, ite_true, pure, StateT.pure, fuelOf, get,
      getThe, MonadStateOf.get, StateT.get]
    exact key _ (by simp)


/-! ### deleted objects, `<Root>`, the document -/

def evDeleted (p : Bytes × Int) : List Ev :=
  el "DeletedObject" (el "UUID" [.chars (b64Text p.1)] ++ el "DeletionTime" [.chars (formatTimestamp p.2)])

def DeletedOk (p : Bytes × Int) : Prop := p.1.length = 16 ∧ TimeOk p.2

def deletedDispatch : String → (Bytes × Int) → Option (P (Bytes × Int)) := fun name acc =>
    if name = "UUID" then some (do pure ((← tagReq .uuid).toUuid, acc.2))
    else if name = "DeletionTime" then some (do pure (acc.1, (← tagReq .time).toTime))
    else none

theorem parseDeletedObject_eq : parseDeletedObject = (do
    let _ ← expectStart "DeletedObject"
    structLoop "DeletedObject" deletedDispatch rejectUnknown (← fuelOf) (List.replicate 16 0, 0)) := rfl

theorem reads_deleted (p : Bytes × Int) (off : Nat) (h : DeletedOk p) : Reads parseDeletedObject (evDeleted p) off p off := by
  intro rest
  obtain ⟨uu, t⟩ := p
  rw [parseDeletedObject_eq]
  simp only [evDeleted, el, List.cons_append, bind, StateT.bind, expectStart, next, Outcome.bind, ite_true,
    pure, StateT.pure, fuelOf, get, getThe, MonadStateOf.get, StateT.get]
  simp only [List.append_assoc, List.cons_append, List.nil_append]
  refine (?_ : LoopOk _ _ _ _ _ _) _ (by simp)
  refine LoopOk.child (acc' := (uu, 0)) "UUID" [] [.chars (b64Text uu), .stop "UUID"] _ off off _ (by rfl)
    (by simp [deletedDispatch]; rfl) ((reads_tagReq .uuid "UUID" _ _ off (parses_uuid uu h.1)).andThen _) ?_
  refine LoopOk.child (acc' := (uu, t)) "DeletionTime" [] [.chars (formatTimestamp t), .stop "DeletionTime"] _ off off _ (by rfl)
    (by simp [deletedDispatch]; rfl) ((reads_tagReq .time "DeletionTime" _ _ off (parses_time t h.2.1 h.2.2)).andThen _) ?_
  exact LoopOk.stop _ _ _ _ _ _

def deletedObjectsDispatch : String → List (Bytes × Int) → Option (P (List (Bytes × Int))) := fun name acc =>
    if name = "DeletedObject" then some (do pure (acc ++ [← parseDeletedObject])) else none

theorem parseDeletedObjects_eq : parseDeletedObjects = (do
    let _ ← expectStart "DeletedObjects"
    structLoop "DeletedObjects" deletedObjectsDispatch rejectUnknown (← fuelOf) []) := rfl

theorem deletedLoop_items (l : List (Bytes × Int)) : ∀ (acc : List (Bytes × Int)) (rest : List Ev) (off : Nat) (r),
    (∀ p ∈ l, DeletedOk p) →
    LoopOk "DeletedObjects" deletedObjectsDispatch rejectUnknown (acc ++ l) ⟨rest, off⟩ r →
    LoopOk "DeletedObjects" deletedObjectsDispatch rejectUnknown acc ⟨l.flatMap evDeleted ++ rest, off⟩ r := by
  induction l with
  | nil => intro acc rest off r _ h; simpa using h
  | cons a l ih =>
    intro acc rest off r h hn
    rw [List.flatMap_cons, List.append_assoc]
    refine LoopOk.childL (acc ++ [a]) "DeletedObject" _ _ off off _ ⟨[], _, rfl⟩
      (by simp [deletedObjectsDispatch]; rfl) ((reads_deleted a off (h a List.mem_cons_self)).andThen _) ?_
    refine ih _ rest off r (fun x hx => h x (List.mem_cons_of_mem _ hx)) ?_
    simpa [List.append_assoc] using hn

def evDeletedObjects (l : List (Bytes × Int)) : List Ev := el "DeletedObjects" (l.flatMap evDeleted)

theorem reads_deletedObjects (l : List (Bytes × Int)) (off : Nat) (h : ∀ p ∈ l, DeletedOk p) :
    Reads parseDeletedObjects (evDeletedObjects l) off l off := by
  intro rest
  rw [parseDeletedObjects_eq]
  simp only [evDeletedObjects, el, List.cons_append, bind, StateT.bind, expectStart, next, Outcome.bind, ite_true,
    pure, StateT.pure, fuelOf, get, getThe, MonadStateOf.get, StateT.get]
  simp only [List.append_assoc, List.cons_append, List.nil_append]
  refine (?_ : LoopOk _ _ _ _ _ _) _ (by simp)
  refine deletedLoop_items l [] _ off _ h ?_
  exact LoopOk.stop _ _ _ _ _ _

def dumpDeletedObjects (l : List (Bytes × Int)) : D Unit := do
  emit (WEv.start "DeletedObjects" [])
  forIn l PUnit.unit fun x (_ : PUnit) =>
      match x with
      | (uuid, t) => do
        emit (WEv.start "DeletedObject" [])
        tagRaw "UUID" (b64Text uuid)
        tagRaw "DeletionTime" (formatTimestamp t)
        emit WEv.stop
        pure (ForInStep.yield PUnit.unit)
  emit WEv.stop

theorem dumps_deletedItems (stk : List String) (off : Nat) (ords : Ords) (l : List (Bytes × Int))
    (h : ∀ p ∈ l, DeletedOk p) :
    Dumps (forIn l PUnit.unit fun x (_ : PUnit) =>
      match x with
      | (uuid, t) => do
        emit (WEv.start "DeletedObject" [])
        tagRaw "UUID" (b64Text uuid)
        tagRaw "DeletionTime" (formatTimestamp t)
        emit WEv.stop
        pure (ForInStep.yield PUnit.unit)) stk off ords PUnit.unit (l.flatMap evDeleted) stk off ords := by
  induction l with
  | nil => exact Dumps.pure _ _ _ _
  | cons p l ih =>
    obtain ⟨uu, t⟩ := p
    have hp := h (uu, t) List.mem_cons_self
    have hne : uu ≠ [] := by intro e; have := hp.1; rw [e] at this; simp at this
    rw [List.forIn_cons]
    have e : List.flatMap evDeleted ((uu, t) :: l)
        = ([.start "DeletedObject" []] ++ (el "UUID" [.chars (b64Text uu)] ++ (el "DeletionTime" [.chars (formatTimestamp t)] ++
            ([.stop "DeletedObject"] ++ [])))) ++ l.flatMap evDeleted := by
      simp [List.flatMap_cons, evDeleted, el]
    rw [e]
    refine Dumps.bind (s2 := stk) (o2 := off) (q2 := ords) (a := ForInStep.yield PUnit.unit) ?_ (ih (fun x hx => h x (List.mem_cons_of_mem _ hx)))
    refine Dumps.bind (Dumps.emit_start "DeletedObject" [] stk off ords (by decide) rfl) ?_
    refine Dumps.bind (by have := Dumps.tagRaw "UUID" (b64Text uu) ("DeletedObject" :: stk) off ords (by decide) (xmlText_b64 _); rwa [txt_b64 _ hne] at this) ?_
    refine Dumps.bind (by have := Dumps.tagRaw "DeletionTime" (formatTimestamp t) ("DeletedObject" :: stk) off ords (by decide) (xmlText_b64 _); rwa [txt_time] at this) ?_
    exact Dumps.bind (Dumps.emit_stop "DeletedObject" stk _ ords) (Dumps.pure _ _ _ _)

theorem dumps_deletedObjects (l : List (Bytes × Int)) (stk : List String) (off : Nat) (ords : Ords)
    (h : ∀ p ∈ l, DeletedOk p) :
    Dumps (dumpDeletedObjects l) stk off ords () (evDeletedObjects l) stk off ords := by
  have e : evDeletedObjects l = [.start "DeletedObjects" []] ++ (l.flatMap evDeleted ++ [.stop "DeletedObjects"]) := by
    simp [evDeletedObjects, el]
  rw [e]
  refine Dumps.bind (Dumps.emit_start "DeletedObjects" [] stk off ords (by decide) rfl) ?_
  refine Dumps.bind (dumps_deletedItems _ off ords l h) ?_
  exact Dumps.emit_stop "DeletedObjects" stk off ords


def rootDispatch (env : Env) : String → (Node × List (Bytes × Int)) → Option (P (Node × List (Bytes × Int))) := fun name acc =>
    if name = "Group" then some (do
      let n := (← get).evs.length
      pure (← parseGroup env (n + 1), acc.2))
    else if name = "DeletedObjects" then some (do pure (acc.1, ← parseDeletedObjects))
    else none

theorem parseRoot_eq (env : Env) : parseRoot env = (do
    let _ ← expectStart "Root"
    structLoop "Root" (rootDispatch env) rejectUnknown (← fuelOf) (defaultGroup, [])) := rfl

def fileDispatch (env : Env) : String → Content → Option (P Content) := fun name acc =>
    if name = "Meta" then some (do pure { acc with metaData := (← parseMeta env) })
    else if name = "Root" then some (do
      let (g, d) ← parseRoot env
      pure { acc with root := g, deletedObjects := d })
    else none

theorem parseKeePassFile_eq (env : Env) : parseKeePassFile env = (do
    let _ ← expectStart "KeePassFile"
    structLoop "KeePassFile" (fileDispatch env) rejectUnknown (← fuelOf) {}) := rfl

/-- the writer action of the whole document -/
def docAct (env : DEnv) (u : Bytes → Option String) (c : Content) : D Bool := do
  emit (WEv.start "KeePassFile" [])
  let ok1 ← dumpMeta env u c.metaData
  emit (WEv.start "Root" [])
  let ok2 ← dumpGroup env u (nodeDepth c.root + 1) c.root
  dumpDeletedObjects c.deletedObjects
  emit WEv.stop
  emit WEv.stop
  pure (ok1 && ok2)

theorem dumpContent_eq (env : DEnv) (u : Bytes → Option String) (orders : Ords) (c : Content) :
    dumpContent env u orders c =
      (((docAct env u c) ⟨0, orders, []⟩).2.out, ((docAct env u c) ⟨0, orders, []⟩).1, ((docAct env u c) ⟨0, orders, []⟩).2.off) := rfl

/-- the databases the document-level theorem speaks about -/
structure ContentOk (gz : Bytes → Bytes) (c : Content) : Prop where
  metaOk : MetaOk gz c.metaData
  rootOk : NodeOk c.root
  rootIsGroup : ∀ e, c.root ≠ .entry e
  deletedOk : ∀ p ∈ c.deletedObjects, DeletedOk p

/-- equal up to the order in which maps list their items -/
structure ContentEq (c c' : Content) : Prop where
  metaEq : ∃ cd', c'.metaData = { c.metaData with customData := cd' } ∧ ∀ k, cd'.lookup k = c.metaData.customData.lookup k
  rootEq : NodeEq c.root c'.root
  deletedEq : c'.deletedObjects = c.deletedObjects

theorem doc_rt (denv : DEnv) (u : Bytes → Option String) (penv : Env) (hks : ∀ o n, (penv.ks o n).length = n)
    (henv : denv.ks = penv.ks) (hgz : ∀ x, penv.gunzip (denv.gzip x) = some x) (c : Content) (hc : ContentOk denv.gzip c)
    (ords : Ords) :
    ∃ evs off' ords' c', Dumps (docAct denv u c) [] 0 ords true evs [] off' ords' ∧
      Reads (parseKeePassFile penv) evs 0 c' off' ∧ ContentEq c c' := by
  obtain ⟨m, root, deleted⟩ := c
  obtain ⟨hm, hr, hrg, hd⟩ := hc
  simp only at hm hr hrg hd
  cases root with
  | entry e => exact absurd rfl (hrg e)
  | group uuid name notes iconId ciu cs t cd isExp das ea es ltve =>
    obtain ⟨evsM, offM, hMd, hMr, hMh⟩ := meta_core denv u penv hks henv hgz m hm ["KeePassFile"] 0 ords
    obtain ⟨evsG, offG, ordsG, g', hGd, hGr, hGe, hGh, hGl⟩ :=
      group_rt denv u penv hks henv uuid name notes iconId ciu cs t cd isExp das ea es ltve hr
        (nodeDepth (.group uuid name notes iconId ciu cs t cd isExp das ea es ltve) + 1) (Nat.le_succ _)
        ["Root", "KeePassFile"] offM ords.tail
    refine ⟨[.start "KeePassFile" []] ++ (evsM ++ ([.start "Root" []] ++ (evsG ++ (evDeletedObjects deleted ++
      ([.stop "Root"] ++ ([.stop "KeePassFile"] ++ [])))))), offG, ordsG,
      ⟨{ m with customData := insertAll [] (ordered ords m.customData) }, g', deleted⟩, ?dumps, ?reads, ?eq⟩
    case eq =>
      exact ⟨⟨_, rfl, lookup_insertAll_ordered ords m.customData hm.customDataNodup⟩, hGe, rfl⟩
    case dumps =>
      unfold docAct
      refine Dumps.bind (Dumps.emit_start "KeePassFile" [] [] 0 ords (by decide) rfl) ?_
      refine Dumps.bind hMd ?_
      refine Dumps.bind (Dumps.emit_start "Root" [] _ _ _ (by decide) rfl) ?_
      refine Dumps.bind hGd ?_
      refine Dumps.bind (dumps_deletedObjects deleted _ _ _ hd) ?_
      refine Dumps.bind (Dumps.emit_stop "Root" _ _ _) ?_
      exact Dumps.bind (Dumps.emit_stop "KeePassFile" _ _ _) (Dumps.pure _ _ _ _)
    case reads =>
      have hroot : Reads (parseRoot penv) ([.start "Root" []] ++ (evsG ++ (evDeletedObjects deleted ++ [.stop "Root"]))) offM
          (g', deleted) offG := by
        intro rest
        rw [parseRoot_eq]
        simp only [List.cons_append, List.nil_append, List.append_assoc, bind, StateT.bind, expectStart, next,
          Outcome.bind, ite_true, pure, StateT.pure, fuelOf, get, getThe, MonadStateOf.get, StateT.get]
        refine (?_ : LoopOk _ _ _ _ _ _) _ (by simp)
        refine LoopOk.childL (g', []) "Group" evsG _ offM offG _ hGh (by simp [rootDispatch]; rfl) ?_ ?_
        · intro rest'
          have := hGr ((evsG ++ rest').length + 1) (by simp only [List.length_append]; omega) rest'
          simp only [bind, StateT.bind, get, getThe, MonadStateOf.get, StateT.get, pure, StateT.pure, Outcome.bind, this]
        refine LoopOk.childL (g', deleted) "DeletedObjects" _ _ offG offG _ ⟨[], _, rfl⟩ (by simp [rootDispatch])
          ((reads_deletedObjects deleted offG hd).andThen _) ?_
        exact LoopOk.stop _ _ _ _ _ _
      intro rest
      rw [parseKeePassFile_eq]
      simp only [List.cons_append, List.nil_append, List.append_assoc, bind, StateT.bind, expectStart, next,
        Outcome.bind, ite_true, pure, StateT.pure, fuelOf, get, getThe, MonadStateOf.get, StateT.get]
      refine (?_ : LoopOk _ _ _ _ _ _) _ (by simp)
      refine LoopOk.childL (acc' := ({ metaData := { m with customData := insertAll [] (ordered ords m.customData) } } : Content))
        "Meta" evsM _ 0 offM _ hMh (by simp [fileDispatch]; rfl) (hMr.andThen _) ?_
      have hroot' : Reads (do
            let (g, d) ← parseRoot penv
            pure ({ ({ metaData := { m with customData := insertAll [] (ordered ords m.customData) } } : Content) with root := g, deletedObjects := d }))
          ([.start "Root" []] ++ (evsG ++ (evDeletedObjects deleted ++ [.stop "Root"]))) offM
          ⟨{ m with customData := insertAll [] (ordered ords m.customData) }, g', deleted⟩ offG := by
        intro rest'
        rw [P_bind_ok _ _ _ _ _ (hroot rest')]
        rfl
      have e : Ev.start "Root" [] :: (evsG ++ (evDeletedObjects deleted ++ Ev.stop "Root" :: Ev.stop "KeePassFile" :: rest))
          = ([.start "Root" []] ++ (evsG ++ (evDeletedObjects deleted ++ [.stop "Root"]))) ++ (Ev.stop "KeePassFile" :: rest) := by
        simp
      rw [e]
      refine LoopOk.childL _ "Root" _ _ offM offG _ ⟨[], _, rfl⟩ (by simp [fileDispatch]) hroot' ?_
      exact LoopOk.stop _ _ _ _ _ _


end Kp.Xml
