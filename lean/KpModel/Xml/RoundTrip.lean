import KpModel.Xml.Dump
import KpModel.Xml.Parse
import KpModel.Codec.Lemmas
import KpModel.Props.C08
/-
Lemmas for the struct-level XML round trip (C03): what the writer emits for a value, seen through the xml-rs
contract (`view`), is read back by the corresponding `FromXml` parser as the value.

Two Hoare-style judgements: `Dumps d stk off ords r evs stk' off' ords'` (the writer action `d` returns `r`,
appends events that the reader delivers as `evs`, moves the inner-stream cursor and the pending map orders) and
`Reads p evs off a off'` (the parser `p` consumes exactly `evs`, returns `a` and moves the cursor).
-/
namespace Kp.Xml
open Kp.Fmt Kp.Codec


def plainChar (c : Char) : Bool := !invalidXmlChar c && !isXmlWs c

theorem b64Char_mem (v : Nat) : b64Char v ∈ b64Alphabet := by
  unfold b64Char
  rw [List.getD_eq_getElem?_getD]
  cases h : b64Alphabet[v]? with
  | none => decide
  | some c => exact List.mem_of_getElem? h

theorem plain_alphabet : ∀ c ∈ '=' :: b64Alphabet, plainChar c = true := by decide

theorem plain_b64Char (v : Nat) : plainChar (b64Char v) = true :=
  plain_alphabet _ (List.mem_cons_of_mem _ (b64Char_mem v))

theorem plain_b64Encode (b : Bytes) : ∀ c ∈ b64Encode b, plainChar c = true := by
  fun_induction b64Encode b with
  | case1 => intro c h; cases h
  | case2 a => intro c h; simp at h; rcases h with h | h | h <;> subst h <;> first | exact plain_b64Char _ | decide
  | case3 a b => intro c h; simp at h; rcases h with h | h | h | h <;> subst h <;> first | exact plain_b64Char _ | decide
  | case4 a b c rest ih =>
    intro x h; simp at h
    rcases h with h | h | h | h | h
    · subst h; exact plain_b64Char _
    · subst h; exact plain_b64Char _
    · subst h; exact plain_b64Char _
    · subst h; exact plain_b64Char _
    · exact ih x h

/-- a string of plain characters is delivered as it is -/
theorem any_invalid_of_plain (l : List Char) (h : ∀ c ∈ l, plainChar c = true) : l.any invalidXmlChar = false := by
  rw [List.any_eq_false]; intro c hc; have := h c hc; simp [plainChar] at this; simp [this.1]

theorem all_ws_of_plain (l : List Char) (hne : l ≠ []) (h : ∀ c ∈ l, plainChar c = true) : l.all isXmlWs = false := by
  cases l with
  | nil => exact absurd rfl hne
  | cons c cs => have := h c List.mem_cons_self; simp [plainChar] at this; simp [this.2]



theorem foldDigits_toDigits (n : Nat) :
    (Nat.toDigits 10 n).foldl (fun a c => a * 10 + (c.toNat - 48)) 0 = n := by
  induction n using Nat.strongRecOn with
  | _ n ih =>
    rw [Nat.toDigits_eq_if (by decide)]
    split
    · rename_i h
      simp [Nat.toNat_digitChar_sub_48_of_lt_ten h]
    · rename_i h
      rw [List.foldl_append, ih (n / 10) (by omega)]
      simp [Nat.toNat_digitChar_sub_48_of_lt_ten (Nat.mod_lt n (by decide : 0 < 10))]
      omega

theorem digitsToNat_toDigits (n : Nat) : digitsToNat (Nat.toDigits 10 n) = some n := by
  unfold digitsToNat
  have h1 : (Nat.toDigits 10 n).all Char.isDigit = true := by
    rw [List.all_eq_true]; intro c hc; exact Nat.isDigit_of_mem_toDigits (by decide) (by decide) hc
  have h2 : (Nat.toDigits 10 n).isEmpty = false := by
    cases h : Nat.toDigits 10 n with
    | nil => exact absurd h Nat.toDigits_ne_nil
    | cons _ _ => rfl
  simp [h1, h2, foldDigits_toDigits]

theorem toDigits_head_ne_plus (n : Nat) : ∀ r, Nat.toDigits 10 n ≠ '+' :: r := by
  intro r h
  have : ('+' : Char) ∈ Nat.toDigits 10 n := by rw [h]; exact List.mem_cons_self
  have := Nat.isDigit_of_mem_toDigits (by decide) (by decide) this
  exact absurd this (by decide)

theorem toDigits_head_ne_minus (n : Nat) : ∀ r, Nat.toDigits 10 n ≠ '-' :: r := by
  intro r h
  have : ('-' : Char) ∈ Nat.toDigits 10 n := by rw [h]; exact List.mem_cons_self
  have := Nat.isDigit_of_mem_toDigits (by decide) (by decide) this
  exact absurd this (by decide)

theorem usize_roundtrip (n : Nat) (h : n < 18446744073709551616) : parseUsize (toString n) = some n := by
  unfold parseUsize
  simp only [Nat.toString_eq_repr, Nat.toList_repr]
  split
  · rename_i v hv
    split at hv
    · rename_i r heq; exact absurd heq (toDigits_head_ne_plus n r)
    · rw [digitsToNat_toDigits] at hv
      cases hv; simp [h]
  · rename_i hv
    split at hv
    · rename_i r heq; exact absurd heq (toDigits_head_ne_plus n r)
    · rw [digitsToNat_toDigits] at hv
      cases hv

/-! ### reader side -/

/-- `p` consumes exactly `evs` (whatever follows), returns `a` and moves the cursor from `off` to `off'` -/
def Reads {α : Type} (p : P α) (evs : List Ev) (off : Nat) (a : α) (off' : Nat) : Prop :=
  ∀ rest, p ⟨evs ++ rest, off⟩ = .ok (a, ⟨rest, off'⟩)

theorem P_bind_ok {α β : Type} (p : P α) (f : α → P β) (s s' : PSt) (a : α) (h : p s = .ok (a, s')) :
    (p >>= f) s = f a s' := by
  show (p s >>= fun x => f x.1 x.2) = _
  rw [h]; rfl

theorem Reads.bind {α β : Type} {p : P α} {f : α → P β} {e1 e2 : List Ev} {o1 o2 o3 : Nat} {a : α} {b : β}
    (h1 : Reads p e1 o1 a o2) (h2 : Reads (f a) e2 o2 b o3) : Reads (p >>= f) (e1 ++ e2) o1 b o3 := by
  intro rest
  rw [List.append_assoc, P_bind_ok _ _ _ _ _ (h1 (e2 ++ rest))]
  exact h2 rest

theorem Reads.pure {α : Type} (a : α) (off : Nat) : Reads (pure a : P α) [] off a off := by
  intro rest; rfl

/-- the characters of an element whose text is `s` as the reader delivers them -/
def txt (s : String) : List Ev := if s.toList.all isXmlWs then [] else [.chars s]

def el (name : String) (inner : List Ev) : List Ev := .start name [] :: inner ++ [.stop name]

theorem reads_next (e : Ev) (off : Nat) : Reads next [e] off e off := by intro rest; rfl


def Parses (k : Kind) (s : String) (v : Scalar) : Prop := ∀ st, fromChars k s st = .ok (v, st)

theorem reads_tagReq (k : Kind) (n s : String) (v : Scalar) (off : Nat) (h : Parses k s v) :
    Reads (tagReq k) (el n [.chars s]) off v off := by
  intro rest
  simp only [tagReq, simpleTag, scalarReq, el, bind, StateT.bind, next, List.cons_append, List.nil_append, h _,
    Outcome.bind, pure, StateT.pure, ite_true]

theorem reads_tagOpt_some (k : Kind) (n s : String) (v : Scalar) (off : Nat) (h : Parses k s v) :
    Reads (tagOpt k) (el n [.chars s]) off (some v) off := by
  intro rest
  simp only [tagOpt, simpleTag, scalarOpt, el, bind, StateT.bind, next, peek, List.cons_append, List.nil_append, h _,
    Outcome.bind, pure, StateT.pure, ite_true, List.head?]

theorem reads_tagOpt_none (k : Kind) (n : String) (off : Nat) :
    Reads (tagOpt k) (el n []) off none off := by
  intro rest
  simp only [tagOpt, simpleTag, scalarOpt, el, bind, StateT.bind, next, peek, List.cons_append, List.nil_append,
    Outcome.bind, pure, StateT.pure, ite_true, List.head?]


theorem structLoop_step {σ : Type} (self : String) (dispatch : String → σ → Option (P σ)) (unknown : σ → P σ)
    (fuel : Nat) (acc acc' : σ) (name : String) (attrs : List (String × String)) (evs : List Ev) (off : Nat)
    (p : P σ) (s' : PSt) (hd : dispatch name acc = some p) (hp : p ⟨.start name attrs :: evs, off⟩ = .ok (acc', s')) :
    structLoop self dispatch unknown (fuel + 1) acc ⟨.start name attrs :: evs, off⟩
      = structLoop self dispatch unknown fuel acc' s' := by
  conv => lhs; unfold structLoop
  simp only [bind, StateT.bind, peek, List.head?, Outcome.bind, hd, hp]

theorem structLoop_stop {σ : Type} (self : String) (dispatch : String → σ → Option (P σ)) (unknown : σ → P σ)
    (fuel : Nat) (acc : σ) (rest : List Ev) (off : Nat) :
    structLoop self dispatch unknown (fuel + 1) acc ⟨.stop self :: rest, off⟩ = .ok (acc, ⟨rest, off⟩) := by
  conv => lhs; unfold structLoop
  simp only [bind, StateT.bind, peek, List.head?, Outcome.bind, next, ite_true, pure, StateT.pure]

/-- one child element handled by the loop: the child parser reads `evs` -/
theorem structLoop_child {σ : Type} (self : String) (dispatch : String → σ → Option (P σ)) (unknown : σ → P σ)
    (fuel : Nat) (acc acc' : σ) (name : String) (attrs : List (String × String)) (evs rest : List Ev) (off off' : Nat)
    (p : P σ) (hf : 0 < fuel) (hd : dispatch name acc = some p) (hp : Reads p (.start name attrs :: evs) off acc' off') :
    structLoop self dispatch unknown fuel acc ⟨.start name attrs :: evs ++ rest, off⟩
      = structLoop self dispatch unknown (fuel - 1) acc' ⟨rest, off'⟩ := by
  obtain ⟨k, rfl⟩ : ∃ k, fuel = k + 1 := ⟨fuel - 1, by omega⟩
  exact structLoop_step self dispatch unknown k acc acc' name attrs (evs ++ rest) off p _ hd (hp rest)

theorem structLoop_child' {σ : Type} {self : String} {dispatch : String → σ → Option (P σ)} {unknown : σ → P σ}
    {fuel : Nat} {acc : σ} {s : PSt} (acc' : σ) (name : String) (attrs : List (String × String)) (evs rest : List Ev)
    (off off' : Nat) (p : P σ) (hs : s = ⟨.start name attrs :: evs ++ rest, off⟩)
    (hf : 0 < fuel) (hd : dispatch name acc = some p) (hp : Reads p (.start name attrs :: evs) off acc' off') :
    structLoop self dispatch unknown fuel acc s
      = structLoop self dispatch unknown (fuel - 1) acc' ⟨rest, off'⟩ := by
  subst hs
  exact structLoop_child self dispatch unknown fuel acc acc' name attrs evs rest off off' p hf hd hp

theorem structLoop_end {σ : Type} (self : String) (dispatch : String → σ → Option (P σ)) (unknown : σ → P σ)
    (fuel : Nat) (acc : σ) (rest : List Ev) (off : Nat) (hf : 0 < fuel) :
    structLoop self dispatch unknown fuel acc ⟨.stop self :: rest, off⟩ = .ok (acc, ⟨rest, off⟩) := by
  obtain ⟨k, rfl⟩ : ∃ k, fuel = k + 1 := ⟨fuel - 1, by omega⟩
  exact structLoop_stop self dispatch unknown k acc rest off

theorem parses_text (s : String) : Parses .text s (.text s) := fun _ => rfl
theorem parses_bool (b : Bool) : Parses .bool (boolText b) (.bool b) := by
  intro st; simp only [fromChars, bool_roundtrip]; rfl
theorem parses_usize (n : Nat) (h : n < 18446744073709551616) : Parses .usize (toString n) (.nat n) := by
  intro st; simp only [fromChars, usize_roundtrip n h]; rfl
theorem parses_time (t : Int) (h1 : minDateTime ≤ t) (h2 : t ≤ maxDateTime) :
    Parses .time (formatTimestamp t) (.time t) := by
  intro st; simp only [fromChars, timestamp_roundtrip t h1 h2]
theorem parses_uuid (u : Bytes) (h : u.length = 16) : Parses .uuid (b64Text u) (.uuid u) := by
  intro st; simp only [fromChars, uuid_roundtrip u h]; rfl

/-! ### `Times` -/

def TimeOk (t : Int) : Prop := minDateTime ≤ t ∧ t ≤ maxDateTime

def evTimeItems (l : List (String × Int)) : List Ev :=
  l.flatMap fun p => el p.1 [.chars (formatTimestamp p.2)]

def evTimes (l : List (String × Int)) (t : Times) : List Ev :=
  el "Times" (evTimeItems l ++ (el "Expires" [.chars (boolText t.expires)] ++ el "UsageCount" [.chars (toString t.usageCount)]))

def timesDispatch : String → Times → Option (P Times) := fun name acc =>
    if name = "Expires" then some (do pure { acc with expires := (← tagReq .bool).toBool })
    else if name = "UsageCount" then some (do pure { acc with usageCount := (← tagReq .usize).toNat })
    else some (do
      let (n, v) ← simpleTag (scalarReq .time)
      pure { acc with times := mapInsert acc.times n v.toTime })

theorem parseTimes_eq : parseTimes = (do
    let _ ← expectStart "Times"
    structLoop "Times" timesDispatch rejectUnknown (← fuelOf) {}) := rfl

def insertAll {β : Type} (m : List (String × β)) (l : List (String × β)) : List (String × β) :=
  l.foldl (fun m p => mapInsert m p.1 p.2) m

theorem evTimeItems_length (l : List (String × Int)) : (evTimeItems l).length = 3 * l.length := by
  induction l with
  | nil => rfl
  | cons p l ih => simp [evTimeItems, el, List.flatMap_cons] at ih ⊢; omega

theorem timesLoop_items (l : List (String × Int)) :
    ∀ (fuel : Nat) (acc : Times) (rest : List Ev) (off : Nat), l.length ≤ fuel →
    (∀ p ∈ l, p.1 ≠ "Expires" ∧ p.1 ≠ "UsageCount" ∧ TimeOk p.2) →
    structLoop "Times" timesDispatch rejectUnknown fuel acc ⟨evTimeItems l ++ rest, off⟩
      = structLoop "Times" timesDispatch rejectUnknown (fuel - l.length) { acc with times := insertAll acc.times l } ⟨rest, off⟩ := by
  induction l with
  | nil => intro fuel acc rest off _ _; rfl
  | cons p l ih =>
    intro fuel acc rest off hf h
    have hp := h p List.mem_cons_self
    have : evTimeItems (p :: l) ++ rest = .start p.1 [] :: ([.chars (formatTimestamp p.2), .stop p.1]) ++ (evTimeItems l ++ rest) := by
      simp [evTimeItems, el]
    rw [this]
    simp only [List.length_cons] at hf
    rw [structLoop_child "Times" timesDispatch rejectUnknown fuel acc
      { acc with times := mapInsert acc.times p.1 p.2 } p.1 [] _ _ off off _ (by omega) (by simp [timesDispatch, hp.1, hp.2.1]; rfl)]
    · rw [ih (fuel - 1) _ rest off (by omega) (fun q hq => h q (List.mem_cons_of_mem _ hq))]
      simp only [List.length_cons, Nat.sub_sub, Nat.add_comm 1]
      rfl
    · intro rest'
      simp only [simpleTag, scalarReq, bind, StateT.bind, next, List.cons_append, List.nil_append,
        parses_time p.2 hp.2.2.1 hp.2.2.2 _, Outcome.bind, pure, StateT.pure, ite_true, Scalar.toTime]

theorem reads_expectStart (tag : String) (attrs : List (String × String)) (off : Nat) :
    Reads (expectStart tag) [.start tag attrs] off attrs off := by
  intro rest
  simp only [expectStart, bind, StateT.bind, next, List.cons_append, List.nil_append, Outcome.bind, ite_true, pure,
    StateT.pure]

theorem reads_times (l : List (String × Int)) (t : Times) (off : Nat)
    (h : ∀ p ∈ l, p.1 ≠ "Expires" ∧ p.1 ≠ "UsageCount" ∧ TimeOk p.2) (hu : t.usageCount < 18446744073709551616) :
    Reads parseTimes (evTimes l t) off ⟨t.expires, t.usageCount, insertAll [] l⟩ off := by
  intro rest
  rw [parseTimes_eq]
  simp only [evTimes, el, List.cons_append, bind, StateT.bind, expectStart, next, Outcome.bind, ite_true, pure, StateT.pure,
    fuelOf, get, getThe, MonadStateOf.get, StateT.get]
  simp only [List.append_assoc, List.cons_append, List.nil_append]
  rw [timesLoop_items l _ _ _ off (by simp [evTimeItems_length]; omega) h]
  refine (structLoop_child' (acc' := { times := insertAll [] l, expires := t.expires }) _ _ [.chars (boolText t.expires), .stop "Expires"] _ _ off _ (by rfl)
    (by simp [evTimeItems_length]; omega) (by simp [timesDispatch]; rfl)
    (Reads.bind (reads_tagReq .bool "Expires" _ _ off (parses_bool t.expires)) (Reads.pure _ off))).trans ?_
  refine (structLoop_child' (acc' := { times := insertAll [] l, expires := t.expires, usageCount := t.usageCount }) _ _ [.chars (toString t.usageCount), .stop "UsageCount"] _ _ off _ (by rfl)
    (by simp [evTimeItems_length]; omega) (by simp [timesDispatch]; rfl)
    (Reads.bind (reads_tagReq .usize "UsageCount" _ _ off (parses_usize _ hu)) (Reads.pure _ off))).trans ?_
  rw [structLoop_end _ _ _ _ _ _ _ (by simp [evTimeItems_length]; omega)]




/-! ### writer side -/

abbrev Ords := List (List String)

/-- `d`, started with cursor `off` and pending map orders `ords`, returns `r`, appends `w` to the output and leaves
    cursor `off'` and orders `ords'` -/
def Run {β : Type} (d : D β) (off : Nat) (ords : Ords) (r : β) (w : List WEv) (off' : Nat) (ords' : Ords) : Prop :=
  ∀ out, d ⟨off, ords, out⟩ = (r, ⟨off', ords', out ++ w⟩)

/-- … and the reader delivers what was written as `evs`, the stack of open elements going from `stk` to `stk'` -/
def Dumps {β : Type} (d : D β) (stk : List String) (off : Nat) (ords : Ords) (r : β) (evs : List Ev)
    (stk' : List String) (off' : Nat) (ords' : Ords) : Prop :=
  ∃ w, Run d off ords r w off' ords' ∧ ∀ rest, view (w ++ rest) stk = evs ++ view rest stk'

theorem Dumps.pure {β : Type} (a : β) (stk : List String) (off : Nat) (ords : Ords) :
    Dumps (pure a : D β) stk off ords a [] stk off ords :=
  ⟨[], fun out => by simp [Pure.pure, StateT.pure], fun _ => rfl⟩

theorem Dumps.bind {α β : Type} {d : D α} {f : α → D β} {s1 s2 s3 : List String} {o1 o2 o3 : Nat} {q1 q2 q3 : Ords}
    {a : α} {b : β} {e1 e2 : List Ev}
    (h1 : Dumps d s1 o1 q1 a e1 s2 o2 q2) (h2 : Dumps (f a) s2 o2 q2 b e2 s3 o3 q3) :
    Dumps (d >>= f) s1 o1 q1 b (e1 ++ e2) s3 o3 q3 := by
  obtain ⟨w1, r1, v1⟩ := h1
  obtain ⟨w2, r2, v2⟩ := h2
  refine ⟨w1 ++ w2, fun out => ?_, fun rest => ?_⟩
  · show (match d ⟨o1, q1, out⟩ with | (a, s) => f a s) = _
    rw [r1 out]; simp only [r2 (out ++ w1), List.append_assoc]
  · rw [List.append_assoc, v1, v2, List.append_assoc]

theorem Dumps.emit_start (n : String) (attrs : List (String × String)) (stk : List String) (off : Nat) (ords : Ords)
    (hn : validXmlName n = true) (ha : attrs.any (fun a => a.2.toList.any invalidXmlChar) = false) :
    Dumps (emit (.start n attrs)) stk off ords () [.start n attrs] (n :: stk) off ords :=
  ⟨[.start n attrs], fun _ => rfl, fun rest => by simp [view, hn, ha]⟩

theorem Dumps.emit_stop (n : String) (stk : List String) (off : Nat) (ords : Ords) :
    Dumps (emit .stop) (n :: stk) off ords () [.stop n] stk off ords :=
  ⟨[.stop], fun _ => rfl, fun rest => by simp [view]⟩

abbrev XmlText (s : String) : Prop := s.toList.any invalidXmlChar = false

theorem Dumps.emit_chars (s : String) (stk : List String) (off : Nat) (ords : Ords) (hs : XmlText s) :
    Dumps (emit (.chars s)) stk off ords () (txt s) stk off ords :=
  ⟨[.chars s], fun _ => rfl, fun rest => by
    unfold XmlText at hs
    by_cases hw : s.toList.all isXmlWs = true <;> simp [view, hs, txt, hw]⟩


theorem txt_empty : txt "" = [] := by decide

theorem view_chars (s : String) (rest : List WEv) (stk : List String) (hs : XmlText s) :
    view (.chars s :: rest) stk = txt s ++ view rest stk := by
  unfold XmlText at hs
  by_cases hw : s.toList.all isXmlWs = true <;> simp [view, hs, txt, hw]

theorem view_start (n : String) (rest : List WEv) (stk : List String) (hn : validXmlName n = true) :
    view (.start n [] :: rest) stk = .start n [] :: view rest (n :: stk) := by
  simp [view, hn]

theorem view_stop (n : String) (rest : List WEv) (stk : List String) :
    view (.stop :: rest) (n :: stk) = .stop n :: view rest stk := by
  simp [view]

theorem emit_run (e : WEv) (off : Nat) (ords : Ords) (out : List WEv) :
    emit e ⟨off, ords, out⟩ = ((), ⟨off, ords, out ++ [e]⟩) := rfl
theorem D_bind_run {α β : Type} (d : D α) (f : α → D β) (s : DSt) : (d >>= f) s = f (d s).1 (d s).2 := rfl
theorem D_pure_run {α : Type} (a : α) (s : DSt) : (pure a : D α) s = (a, s) := rfl

theorem Dumps.tagRaw (n s : String) (stk : List String) (off : Nat) (ords : Ords)
    (hn : validXmlName n = true) (hs : XmlText s) :
    Dumps (tagRaw n s) stk off ords () (el n (txt s)) stk off ords :=
  ⟨[.start n [], .chars s, .stop], fun out => by
    simp only [Kp.Xml.tagRaw, D_bind_run, emit_run, List.append_assoc, List.cons_append, List.nil_append],
   fun rest => by
    show view (.start n [] :: .chars s :: .stop :: rest) stk = _
    rw [view_start _ _ _ hn, view_chars _ _ _ hs, view_stop]; simp [el]⟩

theorem Dumps.tagText (n s : String) (stk : List String) (off : Nat) (ords : Ords)
    (hn : validXmlName n = true) (hs : XmlText s) :
    Dumps (tagText n s) stk off ords () (el n (txt s)) stk off ords := by
  by_cases he : s.isEmpty = true
  · have hs' : s = "" := by simpa using he
    subst hs'
    exact ⟨[.start n [], .stop], fun out => by
        simp only [Kp.Xml.tagText, he, Bool.not_true, Bool.false_eq_true, if_false, D_bind_run, emit_run, List.append_assoc, List.cons_append, List.nil_append],
      fun rest => by
        show view (.start n [] :: .stop :: rest) stk = _
        rw [view_start _ _ _ hn, view_stop]; simp [el, txt_empty]⟩
  · refine ⟨[.start n [], .chars s, .stop], fun out => ?_, fun rest => ?_⟩
    · simp only [Kp.Xml.tagText, he, Bool.not_false, if_true, D_bind_run, emit_run, List.append_assoc, List.cons_append, List.nil_append]
    · show view (.start n [] :: .chars s :: .stop :: rest) stk = _
      rw [view_start _ _ _ hn, view_chars _ _ _ hs, view_stop]; simp [el]


def pickOrder {β : Type} (o : List String) (m : List (String × β)) : List (String × β) :=
  (o.filterMap fun k => m.find? (·.1 == k)) ++ m.filter fun p => !o.contains p.1

def ordered {β : Type} : Ords → List (String × β) → List (String × β)
  | [], m => m
  | o :: _, m => pickOrder o m

theorem Dumps.orderMap {β : Type} (m : List (String × β)) (stk : List String) (off : Nat) (ords : Ords) :
    Dumps (orderMap m) stk off ords (ordered ords m) [] stk off ords.tail := by
  refine ⟨[], fun out => ?_, fun _ => rfl⟩
  cases ords with
  | nil => simp [Kp.Xml.orderMap, D_bind_run, get, getThe, MonadStateOf.get, StateT.get, ordered]; rfl
  | cons o rest => simp [Kp.Xml.orderMap, D_bind_run, get, getThe, MonadStateOf.get, StateT.get, ordered, set, pickOrder]; rfl




abbrev NameOk (n : String) : Prop := validXmlName n = true

theorem xmlText_of_plain (s : String) (h : ∀ c ∈ s.toList, plainChar c = true) : XmlText s :=
  any_invalid_of_plain _ h

theorem txt_of_plain (s : String) (hne : s.toList ≠ []) (h : ∀ c ∈ s.toList, plainChar c = true) :
    txt s = [.chars s] := by
  simp [txt, all_ws_of_plain _ hne h]

theorem plain_b64Text (b : Bytes) : ∀ c ∈ (b64Text b).toList, plainChar c = true := by
  simp only [b64Text, String.toList_ofList]; exact plain_b64Encode b

theorem xmlText_b64 (b : Bytes) : XmlText (b64Text b) := xmlText_of_plain _ (plain_b64Text b)

theorem xmlText_bool (b : Bool) : XmlText (boolText b) := by cases b <;> decide

theorem plain_digit (c : Char) (h : c.isDigit = true) : plainChar c = true := by
  have h' : 48 ≤ c.toNat ∧ c.toNat ≤ 57 := by
    simp [Char.isDigit, UInt32.le_iff_toNat_le] at h; exact h
  simp [plainChar, invalidXmlChar, isXmlWs]
  refine ⟨⟨⟨⟨⟨⟨by omega, by omega⟩, by omega⟩, by omega⟩, by omega⟩, by omega⟩, ?_⟩
  refine ⟨⟨⟨?_, ?_⟩, ?_⟩, ?_⟩ <;> (intro hc; subst hc; simp at h')

theorem plain_nat (n : Nat) : ∀ c ∈ (toString n).toList, plainChar c = true := by
  simp only [Nat.toString_eq_repr, Nat.toList_repr]
  intro c hc; exact plain_digit c (Nat.isDigit_of_mem_toDigits (by decide) (by decide) hc)

theorem xmlText_nat (n : Nat) : XmlText (toString n) := xmlText_of_plain _ (plain_nat n)

theorem b64Encode_ne_nil (b : Bytes) (h : b ≠ []) : b64Encode b ≠ [] := by
  intro e
  have := congrArg List.length e
  rw [b64Encode_length] at this
  cases b with
  | nil => exact h rfl
  | cons x xs => simp at this; omega

theorem txt_b64 (b : Bytes) (h : b ≠ []) : txt (b64Text b) = [.chars (b64Text b)] :=
  txt_of_plain _ (by simp only [b64Text, String.toList_ofList]; exact b64Encode_ne_nil b h) (plain_b64Text b)
theorem txt_bool (b : Bool) : txt (boolText b) = [.chars (boolText b)] := by cases b <;> decide
theorem txt_nat (n : Nat) : txt (toString n) = [.chars (toString n)] :=
  txt_of_plain _ (by simp only [Nat.toString_eq_repr, Nat.toList_repr]; exact Nat.toDigits_ne_nil) (plain_nat n)
theorem txt_time (t : Int) : txt (formatTimestamp t) = [.chars (formatTimestamp t)] := by
  have : formatTimestamp t = b64Text (toLeI64 (t - baseline)) := rfl
  rw [this]
  exact txt_b64 _ (by intro e; have := congrArg List.length e; rw [toLeI64_length] at this; simp at this)

theorem dumps_timeItems (stk : List String) (off : Nat) (ords : Ords) (l : List (String × Int))
    (hn : ∀ p ∈ l, NameOk p.1) :
    Dumps (forIn l PUnit.unit fun x (_ : PUnit) =>
          match x with
          | (n, v) => do
            tagRaw n (formatTimestamp v)
            pure (ForInStep.yield PUnit.unit)) stk off ords PUnit.unit (evTimeItems l) stk off ords := by
  induction l with
  | nil => exact Dumps.pure _ _ _ _
  | cons p l ih =>
    obtain ⟨n, v⟩ := p
    rw [List.forIn_cons]
    have h1 := Dumps.tagRaw n (formatTimestamp v) stk off ords (hn (n, v) List.mem_cons_self) (xmlText_b64 _)
    rw [txt_time] at h1
    have e : evTimeItems ((n, v) :: l) = (el n [.chars (formatTimestamp v)] ++ []) ++ evTimeItems l := by
      simp [evTimeItems, List.flatMap_cons]
    rw [e]
    exact Dumps.bind (Dumps.bind h1 (Dumps.pure _ _ _ _)) (ih (fun q hq => hn q (List.mem_cons_of_mem _ hq)))

theorem dumps_times (t : Times) (stk : List String) (off : Nat) (ords : Ords)
    (hn : ∀ p ∈ ordered ords t.times, NameOk p.1) :
    Dumps (dumpTimes t) stk off ords () (evTimes (ordered ords t.times) t) stk off ords.tail := by
  unfold dumpTimes
  suffices h : Dumps _ stk off ords () ([.start "Times" []] ++ ([] ++ (evTimeItems (ordered ords t.times) ++
      (el "Expires" [.chars (boolText t.expires)] ++ (el "UsageCount" [.chars (toString t.usageCount)] ++ [.stop "Times"])))))
      stk off ords.tail by
    have e : evTimes (ordered ords t.times) t = [.start "Times" []] ++ ([] ++ (evTimeItems (ordered ords t.times) ++
      (el "Expires" [.chars (boolText t.expires)] ++ (el "UsageCount" [.chars (toString t.usageCount)] ++ [.stop "Times"])))) := by
      simp [evTimes, el]
    rw [e]; exact h
  refine Dumps.bind (Dumps.emit_start "Times" [] stk off ords (by decide) rfl) ?_
  refine Dumps.bind (Dumps.orderMap t.times _ off ords) ?_
  refine Dumps.bind (dumps_timeItems _ off _ _ hn) ?_
  refine Dumps.bind (by have := Dumps.tagRaw "Expires" (boolText t.expires) ("Times" :: stk) off ords.tail (by decide) (xmlText_bool _); rwa [txt_bool] at this) ?_
  refine Dumps.bind (by have := Dumps.tagRaw "UsageCount" (toString t.usageCount) ("Times" :: stk) off ords.tail (by decide) (xmlText_nat _); rwa [txt_nat] at this) ?_
  exact Dumps.emit_stop "Times" stk off ords.tail


/-! ### association lists as maps -/

theorem lookup_filter_ne {β : Type} (m : List (String × β)) (k k' : String) (h : k' ≠ k) :
    (m.filter (fun p => p.1 != k)).lookup k' = m.lookup k' := by
  induction m with
  | nil => rfl
  | cons p m ih =>
    obtain ⟨a, b⟩ := p
    by_cases ha : a = k
    · subst ha
      have : (k' == a) = false := by simpa using h
      simp [List.lookup_cons, this, ih]
    · have : (a != k) = true := by simpa using ha
      simp only [List.filter_cons, this, if_true, List.lookup_cons, ih]

theorem lookup_filter_self {β : Type} (m : List (String × β)) (k : String) :
    (m.filter (fun p => p.1 != k)).lookup k = none := by
  induction m with
  | nil => rfl
  | cons p m ih =>
    obtain ⟨a, b⟩ := p
    by_cases ha : a = k
    · subst ha; simp [ih]
    · have h1 : (a != k) = true := by simpa using ha
      have h2 : (k == a) = false := by simpa using fun h => ha h.symm
      simp only [List.filter_cons, h1, if_true, List.lookup_cons, h2, ih]

theorem lookup_append' {β : Type} (l1 l2 : List (String × β)) (k : String) :
    (l1 ++ l2).lookup k = (match l1.lookup k with | some v => some v | none => l2.lookup k) := by
  induction l1 with
  | nil => rfl
  | cons p l ih =>
    obtain ⟨a, b⟩ := p
    by_cases h : (k == a) = true
    · simp [List.lookup_cons, h]
    · have h' : (k == a) = false := by simpa using h
      simp only [List.cons_append, List.lookup_cons, h', ih]

theorem lookup_mapInsert {β : Type} (m : List (String × β)) (k k' : String) (v : β) :
    (mapInsert m k v).lookup k' = if k' = k then some v else m.lookup k' := by
  unfold mapInsert
  rw [lookup_append']
  by_cases h : k' = k
  · subst h; simp [lookup_filter_self]
  · have : (k' == k) = false := by simpa using h
    rw [lookup_filter_ne _ _ _ h]
    simp only [h, if_false, List.lookup_cons, this, List.lookup_nil]
    cases m.lookup k' <;> rfl

/-- the last binding of `k` in `l` -/
def lookupLast {β : Type} (k : String) : List (String × β) → Option β
  | [] => none
  | p :: l => match lookupLast k l with
    | some v => some v
    | none => if k = p.1 then some p.2 else none

theorem lookup_insertAll {β : Type} (l : List (String × β)) : ∀ (m : List (String × β)) (k : String),
    (insertAll m l).lookup k = (match lookupLast k l with | some v => some v | none => m.lookup k) := by
  induction l with
  | nil => intro m k; rfl
  | cons p l ih =>
    intro m k
    show (insertAll (mapInsert m p.1 p.2) l).lookup k = _
    rw [ih, lookup_mapInsert]
    simp only [lookupLast]
    cases lookupLast k l with
    | some w => rfl
    | none => by_cases hk : k = p.1 <;> simp [hk]

theorem lookupLast_some {β : Type} (k : String) (l : List (String × β)) (v : β) (h : lookupLast k l = some v) :
    (k, v) ∈ l := by
  induction l with
  | nil => cases h
  | cons p l ih =>
    simp only [lookupLast] at h
    cases hl : lookupLast k l with
    | some w => rw [hl] at h; cases h; exact List.mem_cons_of_mem _ (ih hl)
    | none =>
      rw [hl] at h
      by_cases hk : k = p.1
      · simp [hk] at h; subst h; rw [hk]; exact List.mem_cons_self
      · simp [hk] at h

theorem lookupLast_none {β : Type} (k : String) (l : List (String × β)) (h : lookupLast k l = none) :
    ∀ v, (k, v) ∉ l := by
  induction l with
  | nil => intro v hv; cases hv
  | cons p l ih =>
    simp only [lookupLast] at h
    cases hl : lookupLast k l with
    | some w => rw [hl] at h; cases h
    | none =>
      rw [hl] at h
      by_cases hk : k = p.1
      · simp [hk] at h
      · intro v hv
        cases hv with
        | head => exact hk rfl
        | tail _ hm => exact ih hl v hm

/-- the keys are pairwise distinct -/
def KeysNodup {β : Type} (m : List (String × β)) : Prop := (m.map (·.1)).Nodup

theorem lookup_of_mem {β : Type} (m : List (String × β)) (hd : KeysNodup m) (k : String) (v : β) (h : (k, v) ∈ m) :
    m.lookup k = some v := by
  induction m with
  | nil => cases h
  | cons p m ih =>
    obtain ⟨a, b⟩ := p
    have hd' : a ∉ m.map (·.1) ∧ KeysNodup m := by simpa [KeysNodup] using hd
    cases h with
    | head => simp [List.lookup_cons]
    | tail _ hm =>
      have : k ≠ a := by
        intro e; subst e; exact hd'.1 (List.mem_map.mpr ⟨(k, v), hm, rfl⟩)
      have : (k == a) = false := by simpa using this
      simp only [List.lookup_cons, this]; exact ih hd'.2 hm

theorem mem_of_lookup {β : Type} (m : List (String × β)) (k : String) (v : β) (h : m.lookup k = some v) : (k, v) ∈ m := by
  induction m with
  | nil => cases h
  | cons p m ih =>
    obtain ⟨a, b⟩ := p
    by_cases hk : (k == a) = true
    · simp [List.lookup_cons, hk] at h; have : k = a := by simpa using hk
      subst h; subst this; exact List.mem_cons_self
    · have hk' : (k == a) = false := by simpa using hk
      simp only [List.lookup_cons, hk'] at h
      exact List.mem_cons_of_mem _ (ih h)

/-- whatever order the map is written in, reading the items back and inserting them one by one gives the same map -/
theorem lookup_insertAll_ordered {β : Type} (ords : Ords) (m : List (String × β)) (hd : KeysNodup m) (k : String) :
    (insertAll [] (ordered ords m)).lookup k = m.lookup k := by
  rw [lookup_insertAll]
  have sub : ∀ p ∈ ordered ords m, p ∈ m := by
    intro p hp
    cases ords with
    | nil => exact hp
    | cons o _ =>
      simp only [ordered, pickOrder, List.mem_append, List.mem_filterMap, List.mem_filter] at hp
      rcases hp with ⟨k', _, hf⟩ | ⟨hm, _⟩
      · exact List.mem_of_find?_eq_some hf
      · exact hm
  have cov : ∀ p ∈ m, p ∈ ordered ords m := by
    intro p hp
    cases ords with
    | nil => exact hp
    | cons o _ =>
      simp only [ordered, pickOrder, List.mem_append, List.mem_filterMap, List.mem_filter]
      by_cases ho : p.1 ∈ o
      · left
        refine ⟨p.1, ho, ?_⟩
        cases hf : m.find? (fun q => q.1 == p.1) with
        | none =>
          have := List.find?_eq_none.mp hf p hp
          simp at this
        | some q =>
          have hq := List.mem_of_find?_eq_some hf
          have hk : q.1 = p.1 := by simpa using List.find?_some hf
          have h1 := lookup_of_mem m hd q.1 q.2 hq
          have h2 := lookup_of_mem m hd p.1 p.2 hp
          rw [hk, h2] at h1
          have : q = p := by
            obtain ⟨qa, qb⟩ := q; obtain ⟨pa, pb⟩ := p
            simp at hk h1; simp [hk, h1]
          rw [this]
      · right; exact ⟨hp, by simpa using ho⟩
  cases hl : lookupLast k (ordered ords m) with
  | some v => simp only; exact (lookup_of_mem m hd k v (sub _ (lookupLast_some k _ v hl))).symm
  | none =>
    simp only [List.lookup_nil]
    cases hm : m.lookup k with
    | none => rfl
    | some v => exact absurd (cov _ (mem_of_lookup m k v hm)) (lookupLast_none k _ hl v)


/-! ### `Value` -/

/-- strings the property speaks about: XML-representable, and either empty or not made of white space only -/
def TextOk (s : String) : Prop := XmlText s ∧ (s = "" ∨ s.toList.all isXmlWs = false)
/-- … and not blank at all -/
def NonBlank (s : String) : Prop := XmlText s ∧ s.toList.all isXmlWs = false

theorem NonBlank.textOk {s : String} (h : NonBlank s) : TextOk s := ⟨h.1, Or.inr h.2⟩
theorem txt_nonBlank {s : String} (h : NonBlank s) : txt s = [.chars s] := by simp [txt, h.2]

def ValueOk : Value → Prop
  | .bytes _ => False
  | .unprotected s => TextOk s
  | .prot _ => True

theorem get_run (s : DSt) : (get : D DSt) s = (s, s) := rfl
theorem set_run (s s' : DSt) : (set s' : D PUnit) s = (PUnit.unit, s') := rfl

/-- the events of a `<Value>` element and the cursor after it -/
def evValue (ks : Nat → Nat → Bytes) (off : Nat) : Value → List Ev × Nat
  | .bytes _ => ([], off)
  | .unprotected s => (el "Value" (txt s), off)
  | .prot p => (.start "Value" [("Protected", "True")] :: txt (b64Text (xorB p (ks off p.length))) ++ [.stop "Value"],
      off + p.length)

theorem dumps_value (env : DEnv) (u : Bytes → Option String) (v : Value) (stk : List String) (off : Nat) (ords : Ords)
    (hv : ValueOk v) :
    Dumps (dumpValue env v u) stk off ords true (evValue env.ks off v).1 stk (evValue env.ks off v).2 ords := by
  cases v with
  | bytes b => exact absurd hv id
  | unprotected s =>
    have := Dumps.bind (f := fun _ => (pure true : D Bool)) (Dumps.tagText "Value" s stk off ords (by decide) hv.1) (Dumps.pure true stk off ords)
    have e : (evValue env.ks off (.unprotected s)).1 = el "Value" (txt s) ++ [] := by simp [evValue]
    rw [e]; exact this
  | prot p =>
    refine ⟨[.start "Value" [("Protected", "True")], .chars (b64Text (xorB p (env.ks off p.length))), .stop], fun out => ?_, fun rest => ?_⟩
    · simp only [dumpValue, D_bind_run, emit_run, D_pure_run, get_run, set_run,
        evValue, List.append_assoc, List.cons_append, List.nil_append]
    · show view (.start "Value" [("Protected", "True")] :: .chars _ :: .stop :: rest) stk = _
      have : view (.start "Value" [("Protected", "True")] :: .chars (b64Text (xorB p (env.ks off p.length))) :: .stop :: rest) stk
          = .start "Value" [("Protected", "True")] :: view (.chars (b64Text (xorB p (env.ks off p.length))) :: .stop :: rest) ("Value" :: stk) := by
        rw [view]
        have h1 : validXmlName "Value" = true := by decide
        have h2 : ([("Protected", "True")] : List (String × String)).any (fun a => a.2.toList.any invalidXmlChar) = false := by decide
        simp only [h1, h2, Bool.not_true, Bool.or_false, Bool.false_eq_true, if_false]
      rw [this, view_chars _ _ _ (xmlText_b64 _), view_stop]
      simp [evValue]


theorem txt_textOk {s : String} (h : TextOk s) : txt s = (if s = "" then [] else [.chars s]) := by
  rcases h.2 with h | h
  · subst h; rfl
  · have : s ≠ "" := by intro e; subst e; simp at h
    simp [txt, h, this]

theorem b64Text_toList (b : Bytes) : (b64Text b).toList = b64Encode b := by simp [b64Text]

theorem reads_value (env : Env) (v : Value) (off : Nat) (hv : ValueOk v) (hks : ∀ o n, (env.ks o n).length = n) :
    Reads (parseValue env) (evValue env.ks off v).1 off v (evValue env.ks off v).2 := by
  intro rest
  cases v with
  | bytes b => exact absurd hv id
  | unprotected s =>
    simp only [evValue, el, txt_textOk hv]
    by_cases hs : s = ""
    · subst hs
      simp [parseValue, bind, StateT.bind, next, Outcome.bind, List.lookup, pure, StateT.pure, scalarOpt, peek, Scalar.str]
    · simp [hs, parseValue, bind, StateT.bind, next, Outcome.bind, List.lookup, pure, StateT.pure, scalarOpt, peek,
        fromChars, Scalar.str]
  | prot p =>
    simp only [evValue]
    have hl : (xorB p (env.ks off p.length)).length = p.length := xorB_length _ _ (hks _ _)
    by_cases hp : p = []
    · subst hp
      have : txt (b64Text (xorB [] (env.ks off 0))) = [] := by simp [xorB, b64Text, b64Encode, txt]
      simp only [List.length_nil, this]
      simp [parseValue, bind, StateT.bind, next, Outcome.bind, List.lookup, pure, StateT.pure, scalarOpt, peek, Scalar.str,
        parseBool, b64Decode, innerDecrypt, xorBytes]
    · have hne : xorB p (env.ks off p.length) ≠ [] := by
        intro e; rw [e] at hl; simp at hl; exact hp (by simpa using hl.symm)
      rw [txt_b64 _ hne]
      have hb : parseBool "True" = some true := by decide
      simp [hb, parseValue, bind, StateT.bind, next, Outcome.bind, List.lookup, pure, StateT.pure, scalarOpt, peek, Scalar.str,
        fromChars, b64Text_toList, b64_roundtrip, innerDecrypt, hl, xor_xor _ _ (hks _ _)]


/-! ### entry fields (`<String>`) -/

def evField (ks : Nat → Nat → Bytes) (off : Nat) (p : String × Value) : List Ev × Nat :=
  (el "String" (el "Key" (txt p.1) ++ (evValue ks off p.2).1), (evValue ks off p.2).2)

def evFields (ks : Nat → Nat → Bytes) : Nat → List (String × Value) → List Ev × Nat
  | off, [] => ([], off)
  | off, p :: l => ((evField ks off p).1 ++ (evFields ks (evField ks off p).2 l).1, (evFields ks (evField ks off p).2 l).2)

def fieldsLoop (env : DEnv) (u : Bytes → Option String) (l : List (String × Value)) (ok : Bool) : D Bool :=
  forIn l ok fun x __s =>
    have ok := __s
    match x with
    | (k, v) => do
      emit (WEv.start "String" [])
      tagText "Key" k
      let __do_lift ← dumpValue env v u
      have ok : Bool := __do_lift && ok
      emit WEv.stop
      pure (ForInStep.yield ok)

theorem dumps_fields (env : DEnv) (u : Bytes → Option String) (stk : List String) (ords : Ords)
    (l : List (String × Value)) : ∀ (off : Nat) (ok : Bool), (∀ p ∈ l, XmlText p.1 ∧ ValueOk p.2) →
    Dumps (fieldsLoop env u l ok) stk off ords ok (evFields env.ks off l).1 stk (evFields env.ks off l).2 ords := by
  induction l with
  | nil => intro off ok _; exact Dumps.pure _ _ _ _
  | cons p l ih =>
    intro off ok h
    obtain ⟨k, v⟩ := p
    have hp := h (k, v) List.mem_cons_self
    unfold fieldsLoop
    rw [List.forIn_cons]
    have e : (evFields env.ks off ((k, v) :: l)).1 =
        ([.start "String" []] ++ (el "Key" (txt k) ++ ((evValue env.ks off v).1 ++ ([.stop "String"] ++ []))))
          ++ (evFields env.ks (evValue env.ks off v).2 l).1 := by
      simp [evFields, evField, el]
    rw [e]
    refine Dumps.bind (s2 := stk) (o2 := (evValue env.ks off v).2) (q2 := ords) (a := ForInStep.yield (true && ok)) ?_ ?_
    · refine Dumps.bind (Dumps.emit_start "String" [] stk off ords (by decide) rfl) ?_
      refine Dumps.bind (Dumps.tagText "Key" k _ off ords (by decide) hp.1) ?_
      refine Dumps.bind (dumps_value env u v _ off ords hp.2) ?_
      refine Dumps.bind (Dumps.emit_stop "String" stk _ ords) ?_
      exact Dumps.pure _ _ _ _
    · have := ih (evValue env.ks off v).2 ok (fun q hq => h q (List.mem_cons_of_mem _ hq))
      rw [Bool.true_and]
      exact this


def stringDispatch (env : Env) : String → (String × Option Value) → Option (P (String × Option Value)) :=
  fun name acc =>
    if name = "Key" then some (do pure ((← tagReq .text).str, acc.2))
    else if name = "Value" then some (do
      let v ← parseValue env
      pure (acc.1, if v.isEmpty then acc.2 else some v))
    else none

theorem parseStringField_eq (env : Env) : parseStringField env = (do
    let _ ← expectStart "String"
    structLoop "String" (stringDispatch env) skipUnknown (← fuelOf) ("", none)) := rfl

theorem evValue_head (ks : Nat → Nat → Bytes) (off : Nat) (v : Value) (hv : ValueOk v) :
    ∃ attrs tl, (evValue ks off v).1 = .start "Value" attrs :: tl := by
  cases v with
  | bytes b => exact absurd hv id
  | unprotected s => exact ⟨[], _, rfl⟩
  | prot p => exact ⟨_, _, rfl⟩

theorem Reads.andThen {α β : Type} {p : P α} {evs : List Ev} {off off' : Nat} {a : α} (h : Reads p evs off a off')
    (g : α → β) : Reads (p >>= fun x => Pure.pure (g x)) evs off (g a) off' := by
  have := Reads.bind (f := fun x => (Pure.pure (g x) : P β)) h (Reads.pure (g a) off')
  rwa [List.append_nil] at this

theorem reads_stringField (env : Env) (k : String) (v : Value) (off : Nat) (hk : NonBlank k) (hv : ValueOk v)
    (hks : ∀ o n, (env.ks o n).length = n) :
    Reads (parseStringField env) (evField env.ks off (k, v)).1 off (k, if v.isEmpty then none else some v)
      (evField env.ks off (k, v)).2 := by
  intro rest
  rw [parseStringField_eq]
  obtain ⟨attrs, tl, hd⟩ := evValue_head env.ks off v hv
  have hrv := reads_value env v off hv hks
  simp only [evField, el, txt_nonBlank hk, List.cons_append, bind, StateT.bind, expectStart, next, Outcome.bind, ite_true,
    pure, StateT.pure, fuelOf, get, getThe, MonadStateOf.get, StateT.get]
  simp only [List.append_assoc, List.cons_append, List.nil_append]
  refine (structLoop_child' (acc' := (k, none)) _ _ [.chars k, .stop "Key"] _ _ off _ (by rfl)
    (by simp) (by simp [stringDispatch]; rfl)
    (Reads.bind (reads_tagReq .text "Key" _ _ off (parses_text k)) (Reads.pure _ off))).trans ?_
  rw [hd] at hrv ⊢
  simp only [List.cons_append]
  refine (structLoop_child' (acc' := (k, if v.isEmpty then none else some v)) _ _ tl _ off _ _ (by rfl)
    (by simp) (by simp [stringDispatch]; rfl)
    (hrv.andThen _)).trans ?_
  rw [structLoop_end _ _ _ _ _ _ _ (by simp)]


/-! ### `CustomData` -/

def evOptValue (ks : Nat → Nat → Bytes) (off : Nat) : Option Value → List Ev × Nat
  | none => ([], off)
  | some v => evValue ks off v

def evOptTime (name : String) : Option Int → List Ev
  | none => []
  | some t => el name [.chars (formatTimestamp t)]

def evCdItem (ks : Nat → Nat → Bytes) (off : Nat) (p : String × CustomDataItem) : List Ev × Nat :=
  (el "Item" (el "Key" (txt p.1) ++ ((evOptValue ks off p.2.value).1 ++ evOptTime "LastModificationTime" p.2.lastModificationTime)),
   (evOptValue ks off p.2.value).2)

def evCdItems (ks : Nat → Nat → Bytes) : Nat → List (String × CustomDataItem) → List Ev × Nat
  | off, [] => ([], off)
  | off, p :: l => ((evCdItem ks off p).1 ++ (evCdItems ks (evCdItem ks off p).2 l).1, (evCdItems ks (evCdItem ks off p).2 l).2)

def evCustomData (ks : Nat → Nat → Bytes) (off : Nat) (l : List (String × CustomDataItem)) : List Ev × Nat :=
  (el "CustomData" (evCdItems ks off l).1, (evCdItems ks off l).2)

def cdLoop (env : DEnv) (u : Bytes → Option String) (l : List (String × CustomDataItem)) (ok : Bool) : D Bool :=
  forIn l ok fun x __s =>
    have ok := __s
    match x with
    | (k, item) => do
      emit (WEv.start "Item" [])
      tagText "Key" k
      have __do_jp : Unit → Bool → D (ForInStep Bool) := fun __r ok =>
        have __do_jp := fun __r => do
          emit WEv.stop
          pure (ForInStep.yield ok);
        match item.lastModificationTime with
        | some t => do
          let __r ← tagRaw "LastModificationTime" (formatTimestamp t)
          __do_jp __r
        | none => __do_jp ()
      match item.value with
        | some v => do
          let __do_lift ← dumpValue env v u
          have ok : Bool := __do_lift && ok
          __do_jp () ok
        | none => __do_jp () ok

theorem dumpCustomData_eq (env : DEnv) (u : Bytes → Option String) (cd : CustomData) :
    dumpCustomData env u cd = (do
      emit (WEv.start "CustomData" [])
      let l ← orderMap cd
      let ok ← cdLoop env u l true
      emit WEv.stop
      pure ok) := rfl

def CdItemOk (p : String × CustomDataItem) : Prop :=
  NonBlank p.1 ∧ (∀ v, p.2.value = some v → ValueOk v) ∧ (∀ t, p.2.lastModificationTime = some t → TimeOk t)

theorem dumps_cdItems (env : DEnv) (u : Bytes → Option String) (stk : List String) (ords : Ords)
    (l : List (String × CustomDataItem)) : ∀ (off : Nat) (ok : Bool), (∀ p ∈ l, CdItemOk p) →
    Dumps (cdLoop env u l ok) stk off ords ok (evCdItems env.ks off l).1 stk (evCdItems env.ks off l).2 ords := by
  induction l with
  | nil => intro off ok _; exact Dumps.pure _ _ _ _
  | cons p l ih =>
    intro off ok h
    obtain ⟨k, ⟨value, lmt⟩⟩ := p
    have hp := h _ List.mem_cons_self
    unfold cdLoop
    rw [List.forIn_cons]
    have e : (evCdItems env.ks off ((k, ⟨value, lmt⟩) :: l)).1 =
        ([.start "Item" []] ++ (el "Key" (txt k) ++ ((evOptValue env.ks off value).1 ++ (evOptTime "LastModificationTime" lmt ++ ([.stop "Item"] ++ [])))))
          ++ (evCdItems env.ks (evOptValue env.ks off value).2 l).1 := by
      simp [evCdItems, evCdItem, el]
    rw [e]
    refine Dumps.bind (s2 := stk) (o2 := (evOptValue env.ks off value).2) (q2 := ords) (a := ForInStep.yield ok) ?_ ?_
    · refine Dumps.bind (Dumps.emit_start "Item" [] stk off ords (by decide) rfl) ?_
      refine Dumps.bind (Dumps.tagText "Key" k _ off ords (by decide) hp.1.1) ?_
      have htime : ∀ t, Dumps (tagRaw "LastModificationTime" (formatTimestamp t)) ("Item" :: stk) (evOptValue env.ks off value).2 ords ()
          (el "LastModificationTime" [.chars (formatTimestamp t)]) ("Item" :: stk) (evOptValue env.ks off value).2 ords := by
        intro t
        have := Dumps.tagRaw "LastModificationTime" (formatTimestamp t) ("Item" :: stk) (evOptValue env.ks off value).2 ords (by decide) (xmlText_b64 _)
        rwa [txt_time] at this
      cases value with
      | none =>
        cases lmt with
        | none =>
          show Dumps _ _ _ _ _ ([.stop "Item"] ++ []) _ off _
          exact Dumps.bind (Dumps.emit_stop "Item" stk _ ords) (Dumps.pure _ _ _ _)
        | some t =>
          show Dumps _ _ _ _ _ (el "LastModificationTime" [.chars (formatTimestamp t)] ++ ([.stop "Item"] ++ [])) _ off _
          exact Dumps.bind (htime t) (Dumps.bind (Dumps.emit_stop "Item" stk _ ords) (Dumps.pure _ _ _ _))
      | some v =>
        have hv := dumps_value env u v ("Item" :: stk) off ords (hp.2.1 v rfl)
        cases lmt with
        | none =>
          show Dumps _ _ _ _ (ForInStep.yield (true && ok)) ((evValue env.ks off v).1 ++ ([.stop "Item"] ++ [])) _ (evValue env.ks off v).2 _
          exact Dumps.bind hv (Dumps.bind (Dumps.emit_stop "Item" stk _ ords) (Dumps.pure _ _ _ _))
        | some t =>
          show Dumps _ _ _ _ (ForInStep.yield (true && ok)) ((evValue env.ks off v).1 ++ (el "LastModificationTime" [.chars (formatTimestamp t)] ++ ([.stop "Item"] ++ []))) _ (evValue env.ks off v).2 _
          exact Dumps.bind hv (Dumps.bind (htime t) (Dumps.bind (Dumps.emit_stop "Item" stk _ ords) (Dumps.pure _ _ _ _)))
    · exact ih _ ok (fun q hq => h q (List.mem_cons_of_mem _ hq))


theorem dumps_customData (env : DEnv) (u : Bytes → Option String) (cd : CustomData) (stk : List String) (off : Nat)
    (ords : Ords) (h : ∀ p ∈ ordered ords cd, CdItemOk p) :
    Dumps (dumpCustomData env u cd) stk off ords true (evCustomData env.ks off (ordered ords cd)).1 stk
      (evCustomData env.ks off (ordered ords cd)).2 ords.tail := by
  rw [dumpCustomData_eq]
  have e : (evCustomData env.ks off (ordered ords cd)).1 =
      [.start "CustomData" []] ++ ([] ++ ((evCdItems env.ks off (ordered ords cd)).1 ++ ([.stop "CustomData"] ++ []))) := by
    simp [evCustomData, el]
  rw [e]
  refine Dumps.bind (Dumps.emit_start "CustomData" [] stk off ords (by decide) rfl) ?_
  refine Dumps.bind (Dumps.orderMap cd _ off ords) ?_
  refine Dumps.bind (dumps_cdItems env u _ _ _ off true h) ?_
  exact Dumps.bind (Dumps.emit_stop "CustomData" stk _ _) (Dumps.pure _ _ _ _)

def cdItemDispatch (env : Env) : String → CdItem → Option (P CdItem) := fun name acc =>
    if name = "Key" then some (do pure { acc with key := (← tagReq .text).str })
    else if name = "Value" then some (do pure { acc with item := { acc.item with value := some (← parseValue env) } })
    else if name = "LastModificationTime" then
      some (do pure { acc with item := { acc.item with lastModificationTime := (← tagOpt .time).map Scalar.toTime } })
    else none

theorem parseCustomDataItem_eq (env : Env) : parseCustomDataItem env = (do
    let _ ← expectStart "Item"
    structLoop "Item" (cdItemDispatch env) rejectUnknown (← fuelOf) {}) := rfl

def cdDispatch (env : Env) : String → CustomData → Option (P CustomData) := fun name acc =>
    if name = "Item" then some (do
      let it ← parseCustomDataItem env
      pure (mapInsert acc it.key it.item))
    else none

theorem parseCustomData_eq (env : Env) : parseCustomData env = (do
    let _ ← expectStart "CustomData"
    structLoop "CustomData" (cdDispatch env) rejectUnknown (← fuelOf) []) := rfl

theorem reads_cdItem (env : Env) (p : String × CustomDataItem) (off : Nat) (hp : CdItemOk p)
    (hks : ∀ o n, (env.ks o n).length = n) :
    Reads (parseCustomDataItem env) (evCdItem env.ks off p).1 off ⟨p.1, p.2⟩ (evCdItem env.ks off p).2 := by
  intro rest
  obtain ⟨k, ⟨value, lmt⟩⟩ := p
  rw [parseCustomDataItem_eq]
  simp only [evCdItem, el, txt_nonBlank hp.1, List.cons_append, bind, StateT.bind, expectStart, next, Outcome.bind, ite_true,
    pure, StateT.pure, fuelOf, get, getThe, MonadStateOf.get, StateT.get]
  simp only [List.append_assoc, List.cons_append, List.nil_append]
  refine (structLoop_child' (acc' := ⟨k, {}⟩) _ _ [.chars k, .stop "Key"] _ off _ _ (by rfl)
    (by simp) (by simp [cdItemDispatch]; rfl)
    ((reads_tagReq .text "Key" _ _ off (parses_text k)).andThen _)).trans ?_
  have fin : ∀ (fuel : Nat) (v' : Option Value) (o' : Nat) , 1 < fuel →
      structLoop "Item" (cdItemDispatch env) rejectUnknown fuel ⟨k, ⟨v', none⟩⟩
        ⟨evOptTime "LastModificationTime" lmt ++ Ev.stop "Item" :: rest, o'⟩ = .ok (⟨k, ⟨v', lmt⟩⟩, ⟨rest, o'⟩) := by
    intro fuel v' o' hf
    cases lmt with
    | none => exact structLoop_end _ _ _ _ _ _ _ (by omega)
    | some t =>
      have ht := hp.2.2 t rfl
      simp only [evOptTime, el, List.cons_append, List.nil_append]
      refine (structLoop_child' (acc' := ⟨k, ⟨v', some t⟩⟩) _ _ [.chars (formatTimestamp t), .stop "LastModificationTime"] _ o' _ _ (by rfl)
        (by omega) (by simp [cdItemDispatch]; rfl)
        ((reads_tagOpt_some .time "LastModificationTime" _ _ o' (parses_time t ht.1 ht.2)).andThen _)).trans ?_
      exact structLoop_end _ _ _ _ _ _ _ (by omega)
  cases value with
  | none =>
    simp only [evOptValue, List.nil_append]
    exact fin _ none off (by simp)
  | some v =>
    have hv := hp.2.1 v rfl
    obtain ⟨attrs, tl, hd⟩ := evValue_head env.ks off v hv
    have hrv := reads_value env v off hv hks
    simp only [evOptValue]
    rw [hd] at hrv ⊢
    simp only [List.cons_append]
    refine (structLoop_child' (acc' := ⟨k, ⟨some v, none⟩⟩) _ _ tl _ off _ _ (by rfl)
      (by simp) (by simp [cdItemDispatch]; rfl) (hrv.andThen _)).trans ?_
    exact fin _ (some v) _ (by simp)


theorem evCdItems_length (ks : Nat → Nat → Bytes) (l : List (String × CustomDataItem)) :
    ∀ off, l.length ≤ (evCdItems ks off l).1.length := by
  induction l with
  | nil => intro off; exact Nat.le_refl _
  | cons p l ih =>
    intro off
    have := ih (evCdItem ks off p).2
    have h2 : 1 ≤ (evCdItem ks off p).1.length := by simp [evCdItem, el]
    simp only [evCdItems, List.length_append, List.length_cons]
    omega

theorem cdLoop_items (env : Env) (hks : ∀ o n, (env.ks o n).length = n) (l : List (String × CustomDataItem)) :
    ∀ (fuel : Nat) (acc : CustomData) (rest : List Ev) (off : Nat), l.length ≤ fuel → (∀ p ∈ l, CdItemOk p) →
    structLoop "CustomData" (cdDispatch env) rejectUnknown fuel acc ⟨(evCdItems env.ks off l).1 ++ rest, off⟩
      = structLoop "CustomData" (cdDispatch env) rejectUnknown (fuel - l.length) (insertAll acc l)
          ⟨rest, (evCdItems env.ks off l).2⟩ := by
  induction l with
  | nil => intro fuel acc rest off _ _; rfl
  | cons p l ih =>
    intro fuel acc rest off hf h
    have hp := h p List.mem_cons_self
    have hr := reads_cdItem env p off hp hks
    have e : (evCdItems env.ks off (p :: l)).1 ++ rest
        = (evCdItem env.ks off p).1 ++ ((evCdItems env.ks (evCdItem env.ks off p).2 l).1 ++ rest) := by
      simp [evCdItems]
    rw [e]
    have hd : ∃ tl, (evCdItem env.ks off p).1 = .start "Item" [] :: tl := ⟨_, rfl⟩
    obtain ⟨tl, htl⟩ := hd
    rw [htl] at hr ⊢
    simp only [List.length_cons] at hf
    refine (structLoop_child' (acc' := mapInsert acc p.1 p.2) _ _ tl _ off _ _ (by rfl)
      (by omega) (by simp [cdDispatch]; rfl) (hr.andThen _)).trans ?_
    rw [ih (fuel - 1) _ rest _ (by omega) (fun q hq => h q (List.mem_cons_of_mem _ hq))]
    simp only [List.length_cons, Nat.sub_sub, Nat.add_comm 1]
    rfl

theorem reads_customData (env : Env) (l : List (String × CustomDataItem)) (off : Nat) (h : ∀ p ∈ l, CdItemOk p)
    (hks : ∀ o n, (env.ks o n).length = n) :
    Reads (parseCustomData env) (evCustomData env.ks off l).1 off (insertAll [] l) (evCustomData env.ks off l).2 := by
  intro rest
  rw [parseCustomData_eq]
  simp only [evCustomData, el, List.cons_append, bind, StateT.bind, expectStart, next, Outcome.bind, ite_true,
    pure, StateT.pure, fuelOf, get, getThe, MonadStateOf.get, StateT.get]
  simp only [List.append_assoc, List.cons_append, List.nil_append]
  have := evCdItems_length env.ks l off
  rw [cdLoop_items env hks l _ _ _ off (by simp; omega) h]
  exact structLoop_end _ _ _ _ _ _ _ (by simp; omega)


/-! ### optional simple tags -/

def optList {α : Type} (ev : α → List Ev) : Option α → List Ev
  | none => []
  | some a => ev a

abbrev evOpt {α : Type} (n : String) (f : α → String) (x : Option α) : List Ev :=
  optList (fun v => el n (txt (f v))) x

theorem Dumps.optTag {α : Type} (n : String) (f : α → String) (raw : Bool) (x : Option α) (stk : List String) (off : Nat)
    (ords : Ords) (hn : NameOk n) (hx : ∀ v, x = some v → XmlText (f v)) :
    Dumps (optTag n f raw x) stk off ords () (evOpt n f x) stk off ords := by
  cases x with
  | none => exact Dumps.pure _ _ _ _
  | some v =>
    cases raw with
    | true => exact Dumps.tagRaw n (f v) stk off ords hn (hx v rfl)
    | false => exact Dumps.tagText n (f v) stk off ords hn (hx v rfl)

/-! ### a backward-chaining form of the struct loop: fuel no less than the number of remaining events is enough -/

def LoopOk {σ : Type} (self : String) (dispatch : String → σ → Option (P σ)) (unknown : σ → P σ) (acc : σ)
    (s : PSt) (r : σ × PSt) : Prop :=
  ∀ fuel, s.evs.length ≤ fuel → structLoop self dispatch unknown fuel acc s = .ok r

theorem LoopOk.stop {σ : Type} (self : String) (dispatch : String → σ → Option (P σ)) (unknown : σ → P σ) (acc : σ)
    (rest : List Ev) (off : Nat) : LoopOk self dispatch unknown acc ⟨.stop self :: rest, off⟩ (acc, ⟨rest, off⟩) :=
  fun fuel hf => structLoop_end self dispatch unknown fuel acc rest off (by simp at hf; omega)

theorem LoopOk.child {σ : Type} {self : String} {dispatch : String → σ → Option (P σ)} {unknown : σ → P σ}
    {acc : σ} {s : PSt} {r : σ × PSt} (acc' : σ) (name : String) (attrs : List (String × String)) (evs rest : List Ev)
    (off off' : Nat) (p : P σ) (hs : s = ⟨.start name attrs :: evs ++ rest, off⟩)
    (hd : dispatch name acc = some p) (hp : Reads p (.start name attrs :: evs) off acc' off')
    (hn : LoopOk self dispatch unknown acc' ⟨rest, off'⟩ r) :
    LoopOk self dispatch unknown acc s r := by
  intro fuel hf
  subst hs
  simp at hf
  rw [structLoop_child' acc' name attrs evs rest off off' p rfl (by omega) hd hp]
  exact hn _ (by simp; omega)

/-- a child given as a whole event list that starts with the element's start tag -/
theorem LoopOk.childL {σ : Type} {self : String} {dispatch : String → σ → Option (P σ)} {unknown : σ → P σ}
    {acc : σ} {r : σ × PSt} (acc' : σ) (name : String) (evs rest : List Ev)
    (off off' : Nat) (p : P σ) (hev : ∃ attrs tl, evs = .start name attrs :: tl)
    (hd : dispatch name acc = some p) (hp : Reads p evs off acc' off')
    (hn : LoopOk self dispatch unknown acc' ⟨rest, off'⟩ r) :
    LoopOk self dispatch unknown acc ⟨evs ++ rest, off⟩ r := by
  obtain ⟨attrs, tl, rfl⟩ := hev
  exact LoopOk.child acc' name attrs tl rest off off' p rfl hd hp hn

/-- an optional child: absent, the loop goes on with the same accumulator -/
theorem LoopOk.optChild {σ α : Type} {self : String} {dispatch : String → σ → Option (P σ)} {unknown : σ → P σ}
    {acc : σ} {r : σ × PSt} (x : Option α) (ev : α → List Ev) (upd : σ → Option α → σ) (name : String) (rest : List Ev)
    (off : Nat) (p : P σ) (hnone : upd acc none = acc)
    (hev : ∀ a, ∃ attrs tl, ev a = .start name attrs :: tl)
    (hd : dispatch name acc = some p) (hp : ∀ a, x = some a → Reads p (ev a) off (upd acc (some a)) off)
    (hn : LoopOk self dispatch unknown (upd acc x) ⟨rest, off⟩ r) :
    LoopOk self dispatch unknown acc ⟨optList ev x ++ rest, off⟩ r := by
  cases x with
  | none => rw [hnone] at hn; exact hn
  | some a => exact LoopOk.childL _ name (ev a) rest off off p (hev a) hd (hp a rfl) hn

def OptNonBlank (x : Option String) : Prop := ∀ s, x = some s → NonBlank s

theorem reads_tagOpt_text (n s : String) (off : Nat) (h : NonBlank s) :
    Reads (tagOpt .text) (el n (txt (id s))) off (some (.text s)) off := by
  have : txt (id s) = [.chars s] := txt_nonBlank h
  rw [this]; exact reads_tagOpt_some .text n s _ off (parses_text s)

/-! ### `AutoType` -/

def evAssoc (a : AutoTypeAssociation) : List Ev :=
  el "Association" (evOpt "Window" id a.window ++ evOpt "KeystrokeSequence" id a.sequence)

def evAutoType (a : AutoType) : List Ev :=
  el "AutoType" (el "Enabled" [.chars (boolText a.enabled)] ++ (evOpt "DefaultSequence" id a.sequence ++ a.associations.flatMap evAssoc))

def AssocOk (a : AutoTypeAssociation) : Prop := OptNonBlank a.window ∧ OptNonBlank a.sequence
def AutoTypeOk (a : AutoType) : Prop := OptNonBlank a.sequence ∧ ∀ x ∈ a.associations, AssocOk x

def assocDispatch : String → AutoTypeAssociation → Option (P AutoTypeAssociation) := fun name acc =>
    if name = "Window" then some (do pure { acc with window := (← tagOpt .text).map Scalar.str })
    else if name = "KeystrokeSequence" then some (do pure { acc with sequence := (← tagOpt .text).map Scalar.str })
    else none

theorem parseAssociation_eq : parseAssociation = (do
    let _ ← expectStart "Association"
    structLoop "Association" assocDispatch skipUnknown (← fuelOf) {}) := rfl

theorem reads_assoc (a : AutoTypeAssociation) (off : Nat) (h : AssocOk a) :
    Reads parseAssociation (evAssoc a) off a off := by
  intro rest
  obtain ⟨w, sq⟩ := a
  rw [parseAssociation_eq]
  simp only [evAssoc, el, List.cons_append, bind, StateT.bind, expectStart, next, Outcome.bind, ite_true,
    pure, StateT.pure, fuelOf, get, getThe, MonadStateOf.get, StateT.get]
  simp only [List.append_assoc]
  refine (?_ : LoopOk _ _ _ _ _ _) _ (by simp)
  refine LoopOk.optChild w _ (fun (acc : AutoTypeAssociation) x => { acc with window := x }) "Window" _ off _ rfl
    (fun a => ⟨[], _, rfl⟩) (by simp [assocDispatch]; rfl) ?_ ?_
  · exact fun a ha => (reads_tagOpt_text "Window" a off (h.1 a ha)).andThen _
  refine LoopOk.optChild sq _ (fun (acc : AutoTypeAssociation) x => { acc with sequence := x }) "KeystrokeSequence" _ off _ rfl
    (fun a => ⟨[], _, rfl⟩) (by simp [assocDispatch]; rfl) ?_ ?_
  · exact fun a ha => (reads_tagOpt_text "KeystrokeSequence" a off (h.2 a ha)).andThen _
  exact LoopOk.stop _ _ _ _ _ _


def autoTypeDispatch : String → AutoType → Option (P AutoType) := fun name acc =>
    if name = "Enabled" then some (do pure { acc with enabled := (← tagReq .bool).toBool })
    else if name = "DefaultSequence" then some (do pure { acc with sequence := (← tagOpt .text).map Scalar.str })
    else if name = "DataTransferObfuscation" then some (do let _ ← tagOpt .usize; pure acc)
    else if name = "Association" then some (do pure { acc with associations := acc.associations ++ [← parseAssociation] })
    else none

theorem parseAutoType_eq : parseAutoType = (do
    let _ ← expectStart "AutoType"
    structLoop "AutoType" autoTypeDispatch skipUnknown (← fuelOf) {}) := rfl

theorem autoTypeLoop_assocs (l : List AutoTypeAssociation) : ∀ (acc : AutoType) (rest : List Ev) (off : Nat) (r),
    (∀ a ∈ l, AssocOk a) →
    LoopOk "AutoType" autoTypeDispatch skipUnknown { acc with associations := acc.associations ++ l } ⟨rest, off⟩ r →
    LoopOk "AutoType" autoTypeDispatch skipUnknown acc ⟨l.flatMap evAssoc ++ rest, off⟩ r := by
  induction l with
  | nil => intro acc rest off r _ h; simpa using h
  | cons a l ih =>
    intro acc rest off r h hn
    rw [List.flatMap_cons, List.append_assoc]
    refine LoopOk.childL { acc with associations := acc.associations ++ [a] } "Association" _ _ off off _ ⟨[], _, rfl⟩
      (by simp [autoTypeDispatch]; rfl) ((reads_assoc a off (h a List.mem_cons_self)).andThen _) ?_
    refine ih _ rest off r (fun x hx => h x (List.mem_cons_of_mem _ hx)) ?_
    simpa [List.append_assoc] using hn

theorem reads_autoType (a : AutoType) (off : Nat) (h : AutoTypeOk a) :
    Reads parseAutoType (evAutoType a) off a off := by
  intro rest
  obtain ⟨en, sq, assocs⟩ := a
  rw [parseAutoType_eq]
  simp only [evAutoType, el, List.cons_append, bind, StateT.bind, expectStart, next, Outcome.bind, ite_true,
    pure, StateT.pure, fuelOf, get, getThe, MonadStateOf.get, StateT.get]
  simp only [List.append_assoc, List.cons_append, List.nil_append]
  refine (?_ : LoopOk _ _ _ _ _ _) _ (by simp)
  refine LoopOk.child (acc' := { enabled := en }) "Enabled" [] [.chars (boolText en), .stop "Enabled"] _ off off _ (by rfl)
    (by simp [autoTypeDispatch]; rfl) ((reads_tagReq .bool "Enabled" _ _ off (parses_bool en)).andThen _) ?_
  refine LoopOk.optChild sq _ (fun (acc : AutoType) x => { acc with sequence := x }) "DefaultSequence" _ off _ rfl
    (fun a => ⟨[], _, rfl⟩) (by simp [autoTypeDispatch]; rfl) ?_ ?_
  · exact fun s hs => (reads_tagOpt_text "DefaultSequence" s off (h.1 s hs)).andThen _
  refine autoTypeLoop_assocs assocs _ _ off _ h.2 ?_
  exact LoopOk.stop _ _ _ _ _ _

theorem dumps_assocs (stk : List String) (off : Nat) (ords : Ords) (l : List AutoTypeAssociation)
    (h : ∀ a ∈ l, AssocOk a) :
    Dumps (forIn l PUnit.unit fun as (_ : PUnit) => do
          emit (WEv.start "Association" [])
          optTag "Window" id false as.window
          optTag "KeystrokeSequence" id false as.sequence
          emit WEv.stop
          pure (ForInStep.yield PUnit.unit)) stk off ords PUnit.unit (l.flatMap evAssoc) stk off ords := by
  induction l with
  | nil => exact Dumps.pure _ _ _ _
  | cons a l ih =>
    rw [List.forIn_cons]
    have ha := h a List.mem_cons_self
    have e : List.flatMap evAssoc (a :: l) = ([.start "Association" []] ++ (evOpt "Window" id a.window ++
        (evOpt "KeystrokeSequence" id a.sequence ++ ([.stop "Association"] ++ [])))) ++ l.flatMap evAssoc := by
      simp [List.flatMap_cons, evAssoc, el]
    rw [e]
    refine Dumps.bind (s2 := stk) (o2 := off) (q2 := ords) (a := ForInStep.yield PUnit.unit) ?_ (ih (fun x hx => h x (List.mem_cons_of_mem _ hx)))
    refine Dumps.bind (Dumps.emit_start "Association" [] stk off ords (by decide) rfl) ?_
    refine Dumps.bind (Dumps.optTag "Window" id false a.window _ off ords (by decide) (fun v hv => (ha.1 v hv).1)) ?_
    refine Dumps.bind (Dumps.optTag "KeystrokeSequence" id false a.sequence _ off ords (by decide) (fun v hv => (ha.2 v hv).1)) ?_
    exact Dumps.bind (Dumps.emit_stop "Association" stk _ ords) (Dumps.pure _ _ _ _)

theorem dumps_autoType (a : AutoType) (stk : List String) (off : Nat) (ords : Ords) (h : AutoTypeOk a) :
    Dumps (dumpAutoType a) stk off ords () (evAutoType a) stk off ords := by
  unfold dumpAutoType
  have e : evAutoType a = [.start "AutoType" []] ++ (el "Enabled" [.chars (boolText a.enabled)] ++
      (evOpt "DefaultSequence" id a.sequence ++ (a.associations.flatMap evAssoc ++ [.stop "AutoType"]))) := by
    simp [evAutoType, el]
  rw [e]
  refine Dumps.bind (Dumps.emit_start "AutoType" [] stk off ords (by decide) rfl) ?_
  refine Dumps.bind (by have := Dumps.tagRaw "Enabled" (boolText a.enabled) ("AutoType" :: stk) off ords (by decide) (xmlText_bool _); rwa [txt_bool] at this) ?_
  refine Dumps.bind (Dumps.optTag "DefaultSequence" id false a.sequence _ off ords (by decide) (fun v hv => (h.1 v hv).1)) ?_
  refine Dumps.bind (dumps_assocs _ off ords _ h.2) ?_
  exact Dumps.emit_stop "AutoType" stk _ ords


/-! ### `Entry` -/

def entryDispatch (env : Env) (fuel : Nat) : String → EntryAcc → Option (P EntryAcc) := fun name acc =>
        if name = "UUID" then some (do pure { acc with uuid := (← tagReq .uuid).toUuid })
        else if name = "Tags" then some (do
          match ← tagOpt .text with
          | some t => pure { acc with tags := splitTags t.str }
          | none => pure acc)
        else if name = "String" then some (do
          let (k, v) ← parseStringField env
          match v with
          | some v => pure { acc with fields := mapInsert acc.fields k v }
          | none => pure acc)
        else if name = "CustomData" then some (do pure { acc with customData := (← parseCustomData env) })
        else if name = "Binary" then some (do parseBinaryField; pure acc)
        else if name = "AutoType" then some (do pure { acc with autotype := some (← parseAutoType) })
        else if name = "Times" then some (do pure { acc with times := (← parseTimes) })
        else if name = "IconID" then some (do pure { acc with iconId := (← tagOpt .usize).map Scalar.toNat })
        else if name = "CustomIconUUID" then some (do pure { acc with customIconUuid := (← tagOpt .uuid).map Scalar.toUuid })
        else if name = "ForegroundColor" then some (do pure { acc with fg := (← tagOpt .color).map Scalar.toColor })
        else if name = "BackgroundColor" then some (do pure { acc with bg := (← tagOpt .color).map Scalar.toColor })
        else if name = "OverrideURL" then some (do pure { acc with overrideUrl := (← tagOpt .text).map Scalar.str })
        else if name = "QualityCheck" then some (do pure { acc with qualityCheck := (← tagOpt .bool).map Scalar.toBool })
        else if name = "History" then some (do pure { acc with history := some (← parseHistory env fuel) })
        else none

theorem parseEntry_eq (env : Env) (fuel : Nat) : parseEntry env (fuel + 1) = (do
      let _ ← expectStart "Entry"
      let acc ← structLoop "Entry" (entryDispatch env fuel) skipUnknown (← fuelOf) { uuid := env.freshUuid, times := timesNew env.now }
      pure acc.toEntry) := by
  rw [parseEntry]; rfl

def historyDispatch (env : Env) (fuel : Nat) : String → List Entry → Option (P (List Entry)) := fun name acc =>
        if name = "Entry" then some (do pure (acc ++ [← parseEntry env fuel])) else none

theorem parseHistory_eq (env : Env) (fuel : Nat) : parseHistory env (fuel + 1) = (do
      let _ ← expectStart "History"
      structLoop "History" (historyDispatch env fuel) skipUnknown (← fuelOf) []) := by
  rw [parseHistory]; rfl


def dumpOptAutoType : Option AutoType → D Unit
  | some a => dumpAutoType a
  | none => pure ()

def histLoop (env : DEnv) (u : Bytes → Option String) (fuel : Nat) (h : List Entry) (ok : Bool) : D Bool :=
  forIn h ok fun e __s =>
    have ok := __s
    do
    let __do_lift ← dumpEntry env u fuel e
    have ok : Bool := __do_lift && ok
    pure (ForInStep.yield ok)

def dumpOptHistory (env : DEnv) (u : Bytes → Option String) (fuel : Nat) (ok : Bool) : Option (List Entry) → D Bool
  | some h => do
    emit (WEv.start "History" [])
    let ok' ← histLoop env u fuel h ok
    emit WEv.stop
    pure ok'
  | none => pure ok

theorem dumpEntry_eq (env : DEnv) (u : Bytes → Option String) (fuel : Nat) (uuid : Bytes) (fields : List (String × Value))
    (autotype : Option AutoType) (tags : List String) (times : Times) (cd : CustomData) (iconId : Option Nat)
    (ciu : Option Bytes) (fg bg : Option Color) (ourl : Option String) (qc : Option Bool) (history : Option (List Entry)) :
    dumpEntry env u (fuel + 1) (.mk uuid fields autotype tags times cd iconId ciu fg bg ourl qc history) = (do
      emit (WEv.start "Entry" [])
      tagRaw "UUID" (b64Text uuid)
      tagText "Tags" (";".intercalate tags)
      let l ← orderMap fields
      let ok1 ← fieldsLoop env u l true
      let ok2 ← dumpCustomData env u cd
      dumpOptAutoType autotype
      dumpTimes times
      optTag "IconID" (fun (n : Nat) => toString n) true iconId
      optTag "CustomIconUUID" b64Text true ciu
      optTag "ForegroundColor" colorText true fg
      optTag "BackgroundColor" colorText true bg
      optTag "OverrideURL" id false ourl
      optTag "QualityCheck" boolText true qc
      let ok3 ← dumpOptHistory env u fuel (ok2 && ok1) history
      emit WEv.stop
      pure ok3) := by
  cases autotype <;> cases history <;> rfl


theorem mem_ordered {β : Type} (ords : Ords) (m : List (String × β)) : ∀ p ∈ ordered ords m, p ∈ m := by
  intro p hp
  cases ords with
  | nil => exact hp
  | cons o _ =>
    simp only [ordered, pickOrder, List.mem_append, List.mem_filterMap, List.mem_filter] at hp
    rcases hp with ⟨k', _, hf⟩ | ⟨hm, _⟩
    · exact List.mem_of_find?_eq_some hf
    · exact hm

def FieldsOk (fields : List (String × Value)) : Prop :=
  ∀ p ∈ fields, NonBlank p.1 ∧ ValueOk p.2 ∧ p.2.isEmpty = false

def TimesOk (t : Times) : Prop :=
  t.usageCount < 18446744073709551616 ∧
  ∀ p ∈ t.times, NameOk p.1 ∧ p.1 ≠ "Expires" ∧ p.1 ≠ "UsageCount" ∧ TimeOk p.2

def CdOk (cd : CustomData) : Prop := ∀ p ∈ cd, CdItemOk p

theorem entryDispatch_String (env : Env) (fuel : Nat) (acc : EntryAcc) :
    entryDispatch env fuel "String" acc = some (do
          let (k, v) ← parseStringField env
          match v with
          | some v => pure { acc with fields := mapInsert acc.fields k v }
          | none => pure acc) := by
  simp [entryDispatch]

theorem entryLoop_fields (env : Env) (fuel : Nat) (hks : ∀ o n, (env.ks o n).length = n) (l : List (String × Value)) :
    ∀ (acc : EntryAcc) (rest : List Ev) (off : Nat) (r), FieldsOk l →
    LoopOk "Entry" (entryDispatch env fuel) skipUnknown { acc with fields := insertAll acc.fields l }
      ⟨rest, (evFields env.ks off l).2⟩ r →
    LoopOk "Entry" (entryDispatch env fuel) skipUnknown acc ⟨(evFields env.ks off l).1 ++ rest, off⟩ r := by
  induction l with
  | nil => intro acc rest off r _ h; exact h
  | cons p l ih =>
    intro acc rest off r h hn
    obtain ⟨k, v⟩ := p
    have hp := h (k, v) List.mem_cons_self
    have e : (evFields env.ks off ((k, v) :: l)).1 ++ rest
        = (evField env.ks off (k, v)).1 ++ ((evFields env.ks (evField env.ks off (k, v)).2 l).1 ++ rest) := by
      simp [evFields]
    rw [e]
    have hr := reads_stringField env k v off hp.1 hp.2.1 hks
    simp only [hp.2.2, Bool.false_eq_true, if_false] at hr
    have hr2 : Reads (do
          let (k, v) ← parseStringField env
          match v with
          | some v => pure { acc with fields := mapInsert acc.fields k v }
          | none => pure acc) (evField env.ks off (k, v)).1 off { acc with fields := mapInsert acc.fields k v }
          (evField env.ks off (k, v)).2 := by
      intro rest'
      rw [P_bind_ok _ _ _ _ _ (hr rest')]
      rfl
    refine LoopOk.childL { acc with fields := mapInsert acc.fields k v } "String" _ _ off _ _ ⟨[], _, rfl⟩
      (entryDispatch_String env fuel acc) hr2 ?_
    · exact ih _ rest _ r (fun q hq => h q (List.mem_cons_of_mem _ hq)) hn


theorem entryDispatch_UUID (env : Env) (fuel : Nat) (acc : EntryAcc) :
    entryDispatch env fuel "UUID" acc = some (do pure { acc with uuid := (← tagReq .uuid).toUuid }) := by
  simp [entryDispatch]
theorem entryDispatch_Tags (env : Env) (fuel : Nat) (acc : EntryAcc) :
    entryDispatch env fuel "Tags" acc = some (do
          match ← tagOpt .text with
          | some t => pure { acc with tags := splitTags t.str }
          | none => pure acc) := by
  simp [entryDispatch]
theorem entryDispatch_CustomData (env : Env) (fuel : Nat) (acc : EntryAcc) :
    entryDispatch env fuel "CustomData" acc = some (do pure { acc with customData := (← parseCustomData env) }) := by
  simp [entryDispatch]
theorem entryDispatch_AutoType (env : Env) (fuel : Nat) (acc : EntryAcc) :
    entryDispatch env fuel "AutoType" acc = some (do pure { acc with autotype := some (← parseAutoType) }) := by
  simp [entryDispatch]
theorem entryDispatch_Times (env : Env) (fuel : Nat) (acc : EntryAcc) :
    entryDispatch env fuel "Times" acc = some (do pure { acc with times := (← parseTimes) }) := by
  simp [entryDispatch]
theorem entryDispatch_IconID (env : Env) (fuel : Nat) (acc : EntryAcc) :
    entryDispatch env fuel "IconID" acc = some (do pure { acc with iconId := (← tagOpt .usize).map Scalar.toNat }) := by
  simp [entryDispatch]
theorem entryDispatch_CustomIconUUID (env : Env) (fuel : Nat) (acc : EntryAcc) :
    entryDispatch env fuel "CustomIconUUID" acc
      = some (do pure { acc with customIconUuid := (← tagOpt .uuid).map Scalar.toUuid }) := by
  simp [entryDispatch]
theorem entryDispatch_OverrideURL (env : Env) (fuel : Nat) (acc : EntryAcc) :
    entryDispatch env fuel "OverrideURL" acc
      = some (do pure { acc with overrideUrl := (← tagOpt .text).map Scalar.str }) := by
  simp [entryDispatch]
theorem entryDispatch_QualityCheck (env : Env) (fuel : Nat) (acc : EntryAcc) :
    entryDispatch env fuel "QualityCheck" acc
      = some (do pure { acc with qualityCheck := (← tagOpt .bool).map Scalar.toBool }) := by
  simp [entryDispatch]
theorem entryDispatch_History (env : Env) (fuel : Nat) (acc : EntryAcc) :
    entryDispatch env fuel "History" acc = some (do pure { acc with history := some (← parseHistory env fuel) }) := by
  simp [entryDispatch]


mutual
  inductive EntryEq : Entry → Entry → Prop where
    | mk (uuid : Bytes) (f f' : List (String × Value)) (a : Option AutoType) (tags : List String) (t t' : Times)
        (cd cd' : CustomData) (ic : Option Nat) (ciu : Option Bytes) (fg bg : Option Color) (ou : Option String)
        (qc : Option Bool) (h h' : Option (List Entry))
        (hf : ∀ k, f'.lookup k = f.lookup k) (ht : t'.expires = t.expires ∧ t'.usageCount = t.usageCount ∧ ∀ k, t'.times.lookup k = t.times.lookup k)
        (hcd : ∀ k, cd'.lookup k = cd.lookup k) (hh : HistEq h h') :
        EntryEq (.mk uuid f a tags t cd ic ciu fg bg ou qc h) (.mk uuid f' a tags t' cd' ic ciu fg bg ou qc h')
  inductive HistEq : Option (List Entry) → Option (List Entry) → Prop where
    | none : HistEq none none
    | some (l l' : List Entry) (h : EntriesEq l l') : HistEq (some l) (some l')
  inductive EntriesEq : List Entry → List Entry → Prop where
    | nil : EntriesEq [] []
    | cons (e e' : Entry) (l l' : List Entry) (he : EntryEq e e') (hl : EntriesEq l l') : EntriesEq (e :: l) (e' :: l')
end

@[simp] theorem optList_none {α : Type} (ev : α → List Ev) : optList ev none = [] := rfl
@[simp] theorem optList_some {α : Type} (ev : α → List Ev) (a : α) : optList ev (some a) = ev a := rfl

theorem dumps_optAutoType (a : Option AutoType) (stk : List String) (off : Nat) (ords : Ords)
    (h : ∀ x, a = some x → AutoTypeOk x) :
    Dumps (dumpOptAutoType a) stk off ords () (optList evAutoType a) stk off ords := by
  cases a with
  | none => exact Dumps.pure _ _ _ _
  | some x => exact dumps_autoType x stk off ords (h x rfl)

/-- what the entry proof needs of the history part -/
def HistRT (denv : DEnv) (u : Bytes → Option String) (penv : Env) (fd fp : Nat) (history : Option (List Entry)) : Prop :=
  ∀ (stk : List String) (off : Nat) (ords : Ords) (ok : Bool), ∃ evs off' ords' h',
    Dumps (dumpOptHistory denv u fd ok history) stk off ords ok evs stk off' ords' ∧
    (∀ (acc : EntryAcc) (rest : List Ev) (r : EntryAcc × PSt), acc.history = none →
        LoopOk "Entry" (entryDispatch penv fp) skipUnknown { acc with history := h' } ⟨rest, off'⟩ r →
        LoopOk "Entry" (entryDispatch penv fp) skipUnknown acc ⟨evs ++ rest, off⟩ r) ∧
    HistEq history h'

/-- the events of an `<Entry>` element, given those of its `<History>` part -/
def evEntryWith (ks : Nat → Nat → Bytes) (off : Nat) (uuid : Bytes) (lf : List (String × Value))
    (lcd : List (String × CustomDataItem)) (autotype : Option AutoType) (lt : List (String × Int)) (times : Times)
    (iconId : Option Nat) (ciu : Option Bytes) (ourl : Option String) (qc : Option Bool) (evsH : List Ev) : List Ev :=
  [.start "Entry" []] ++ (el "UUID" (txt (b64Text uuid)) ++ (el "Tags" (txt "") ++ ([] ++ ((evFields ks off lf).1 ++
    ((evCustomData ks (evFields ks off lf).2 lcd).1 ++ (optList evAutoType autotype ++ (evTimes lt times ++
    (evOpt "IconID" (fun (n : Nat) => toString n) iconId ++ (evOpt "CustomIconUUID" b64Text ciu ++
    (evOpt "ForegroundColor" colorText none ++ (evOpt "BackgroundColor" colorText none ++
    (evOpt "OverrideURL" id ourl ++ (evOpt "QualityCheck" boolText qc ++ (evsH ++ ([.stop "Entry"] ++ [])))))))))))))))

theorem entry_core (denv : DEnv) (u : Bytes → Option String) (penv : Env) (hks : ∀ o n, (penv.ks o n).length = n)
    (henv : denv.ks = penv.ks) (fd fp : Nat)
    (uuid : Bytes) (fields : List (String × Value)) (autotype : Option AutoType) (times : Times) (cd : CustomData)
    (iconId : Option Nat) (ciu : Option Bytes) (ourl : Option String) (qc : Option Bool) (history : Option (List Entry))
    (hu : uuid.length = 16) (hf : FieldsOk fields) (ha : ∀ x, autotype = some x → AutoTypeOk x) (ht : TimesOk times)
    (hcd : CdOk cd) (hic : ∀ n, iconId = some n → n < 18446744073709551616) (hciu : ∀ b, ciu = some b → b.length = 16)
    (hou : OptNonBlank ourl) (hH : HistRT denv u penv fd fp history)
    (stk : List String) (off : Nat) (ords : Ords) :
    ∃ evs off' ords' h',
      Dumps (dumpEntry denv u (fd + 1) (.mk uuid fields autotype [] times cd iconId ciu none none ourl qc history))
        stk off ords true evs stk off' ords' ∧
      Reads (parseEntry penv (fp + 1)) evs off
        (.mk uuid (insertAll [] (ordered ords fields)) autotype []
          ⟨times.expires, times.usageCount, insertAll [] (ordered ords.tail.tail times.times)⟩
          (insertAll [] (ordered ords.tail cd)) iconId ciu none none ourl qc h') off' ∧
      HistEq history h' ∧ (∃ attrs tl, evs = .start "Entry" attrs :: tl) := by
  obtain ⟨evsH, offH, ordsH, h', hHd, hHr, hHe⟩ := hH ("Entry" :: stk)
    (evCustomData denv.ks (evFields denv.ks off (ordered ords fields)).2 (ordered ords.tail cd)).2 ords.tail.tail.tail true
  refine ⟨evEntryWith denv.ks off uuid (ordered ords fields) (ordered ords.tail cd) autotype
    (ordered ords.tail.tail times.times) times iconId ciu ourl qc evsH, offH, ordsH, h', ?dumps, ?reads, hHe, ⟨[], _, rfl⟩⟩
  case dumps =>
    rw [dumpEntry_eq]
    unfold evEntryWith
    refine Dumps.bind (Dumps.emit_start "Entry" [] stk off ords (by decide) rfl) ?_
    refine Dumps.bind (Dumps.tagRaw "UUID" (b64Text uuid) _ off ords (by decide) (xmlText_b64 _)) ?_
    refine Dumps.bind (Dumps.tagText "Tags" "" _ off ords (by decide) (by decide)) ?_
    refine Dumps.bind (Dumps.orderMap fields _ off ords) ?_
    refine Dumps.bind (dumps_fields denv u _ _ _ off true (fun p hp => ⟨(hf p (mem_ordered _ _ p hp)).1.1, (hf p (mem_ordered _ _ p hp)).2.1⟩)) ?_
    refine Dumps.bind (dumps_customData denv u cd _ _ _ (fun p hp => hcd p (mem_ordered _ _ p hp))) ?_
    refine Dumps.bind (dumps_optAutoType autotype _ _ _ ha) ?_
    refine Dumps.bind (dumps_times times _ _ _ (fun p hp => (ht.2 p (mem_ordered _ _ p hp)).1)) ?_
    refine Dumps.bind (Dumps.optTag "IconID" (fun (n : Nat) => toString n) true iconId _ _ _ (by decide) (fun v _ => xmlText_nat v)) ?_
    refine Dumps.bind (Dumps.optTag "CustomIconUUID" b64Text true ciu _ _ _ (by decide) (fun v _ => xmlText_b64 v)) ?_
    refine Dumps.bind (Dumps.optTag "ForegroundColor" colorText true none _ _ _ (by decide) (fun v hv => by cases hv)) ?_
    refine Dumps.bind (Dumps.optTag "BackgroundColor" colorText true none _ _ _ (by decide) (fun v hv => by cases hv)) ?_
    refine Dumps.bind (Dumps.optTag "OverrideURL" id false ourl _ _ _ (by decide) (fun v hv => (hou v hv).1)) ?_
    refine Dumps.bind (Dumps.optTag "QualityCheck" boolText true qc _ _ _ (by decide) (fun v _ => xmlText_bool v)) ?_
    refine Dumps.bind hHd ?_
    exact Dumps.bind (Dumps.emit_stop "Entry" stk _ _) (Dumps.pure _ _ _ _)
  case reads =>
    intro rest
    rw [parseEntry_eq]
    have key : LoopOk "Entry" (entryDispatch penv fp) skipUnknown
        ({ uuid := penv.freshUuid, times := timesNew penv.now } : EntryAcc)
        ⟨(evEntryWith denv.ks off uuid (ordered ords fields) (ordered ords.tail cd) autotype
          (ordered ords.tail.tail times.times) times iconId ciu ourl qc evsH).tail ++ rest, off⟩
        (({ uuid := uuid, fields := insertAll [] (ordered ords fields), autotype := autotype, tags := [],
            times := ⟨times.expires, times.usageCount, insertAll [] (ordered ords.tail.tail times.times)⟩,
            customData := insertAll [] (ordered ords.tail cd), iconId := iconId, customIconUuid := ciu,
            overrideUrl := ourl, qualityCheck := qc, history := h' } : EntryAcc), ⟨rest, offH⟩) := by
      have hne : uuid ≠ [] := by intro e; rw [e] at hu; simp at hu
      simp only [evEntryWith, List.cons_append, List.nil_append, List.tail_cons, List.append_assoc, txt_b64 _ hne, txt_empty,
        henv, optList_none]
      refine LoopOk.child (acc' := { uuid := uuid, times := timesNew penv.now }) "UUID" [] [.chars (b64Text uuid), .stop "UUID"] _ off off _ (by rfl)
        (entryDispatch_UUID penv fp _) ((reads_tagReq .uuid "UUID" _ _ off (parses_uuid uuid hu)).andThen _) ?_
      refine LoopOk.child (acc' := { uuid := uuid, times := timesNew penv.now }) "Tags" [] [.stop "Tags"] _ off off _ (by rfl)
        (entryDispatch_Tags penv fp _) ?_ ?_
      · intro rest'
        have h0 : tagOpt .text ⟨[Ev.start "Tags" [], Ev.stop "Tags"] ++ rest', off⟩ = .ok (none, ⟨rest', off⟩) :=
          reads_tagOpt_none .text "Tags" off rest'
        rw [P_bind_ok _ _ _ _ _ h0]
        rfl
      refine entryLoop_fields penv fp hks (ordered ords fields) _ _ off _ (fun p hp => hf p (mem_ordered _ _ p hp)) ?_
      refine LoopOk.childL (acc' := ({ uuid := uuid, times := timesNew penv.now, fields := insertAll [] (ordered ords fields), customData := insertAll [] (ordered ords.tail cd) } : EntryAcc)) "CustomData" _ _ _ _ _ ⟨[], _, rfl⟩
        (entryDispatch_CustomData penv fp _)
        ((reads_customData penv (ordered ords.tail cd) _ (fun p hp => hcd p (mem_ordered _ _ p hp)) hks).andThen _) ?_
      refine LoopOk.optChild autotype _ (fun (acc : EntryAcc) x => { acc with autotype := x }) "AutoType" _ _ _ rfl
        (fun a => ⟨[], _, rfl⟩) (entryDispatch_AutoType penv fp _) ?_ ?_
      · exact fun a hx => (reads_autoType a _ (ha a hx)).andThen _
      refine LoopOk.childL (acc' := ({ uuid := uuid, fields := insertAll [] (ordered ords fields), autotype := autotype, customData := insertAll [] (ordered ords.tail cd), times := ⟨times.expires, times.usageCount, insertAll [] (ordered ords.tail.tail times.times)⟩ } : EntryAcc)) "Times" _ _ _ _ _ ⟨[], _, rfl⟩
        (entryDispatch_Times penv fp _)
        ((reads_times (ordered ords.tail.tail times.times) times _ (fun p hp => (ht.2 p (mem_ordered _ _ p hp)).2) ht.1).andThen _) ?_
      refine LoopOk.optChild iconId _ (fun (acc : EntryAcc) x => { acc with iconId := x }) "IconID" _ _ _ rfl
        (fun a => ⟨[], _, rfl⟩) (entryDispatch_IconID penv fp _) ?_ ?_
      · intro n hn
        have : Reads (tagOpt .usize) (el "IconID" (txt (toString n))) (evCustomData penv.ks (evFields penv.ks off (ordered ords fields)).2 (ordered ords.tail cd)).2 (some (.nat n)) (evCustomData penv.ks (evFields penv.ks off (ordered ords fields)).2 (ordered ords.tail cd)).2 := by
          rw [txt_nat]; exact reads_tagOpt_some .usize "IconID" _ _ _ (parses_usize n (hic n hn))
        exact this.andThen _
      refine LoopOk.optChild ciu _ (fun (acc : EntryAcc) x => { acc with customIconUuid := x }) "CustomIconUUID" _ _ _ rfl
        (fun a => ⟨[], _, rfl⟩) (entryDispatch_CustomIconUUID penv fp _) ?_ ?_
      · intro b hb
        have hne' : b ≠ [] := by intro e; have := hciu b hb; rw [e] at this; simp at this
        have : Reads (tagOpt .uuid) (el "CustomIconUUID" (txt (b64Text b))) (evCustomData penv.ks (evFields penv.ks off (ordered ords fields)).2 (ordered ords.tail cd)).2 (some (.uuid b)) (evCustomData penv.ks (evFields penv.ks off (ordered ords fields)).2 (ordered ords.tail cd)).2 := by
          rw [txt_b64 _ hne']; exact reads_tagOpt_some .uuid "CustomIconUUID" _ _ _ (parses_uuid b (hciu b hb))
        exact this.andThen _
      refine LoopOk.optChild ourl _ (fun (acc : EntryAcc) x => { acc with overrideUrl := x }) "OverrideURL" _ _ _ rfl
        (fun a => ⟨[], _, rfl⟩) (entryDispatch_OverrideURL penv fp _) ?_ ?_
      · exact fun a hx => (reads_tagOpt_text "OverrideURL" a _ (hou a hx)).andThen _
      refine LoopOk.optChild qc _ (fun (acc : EntryAcc) x => { acc with qualityCheck := x }) "QualityCheck" _ _ _ rfl
        (fun a => ⟨[], _, rfl⟩) (entryDispatch_QualityCheck penv fp _) ?_ ?_
      · intro b _
        have : Reads (tagOpt .bool) (el "QualityCheck" (txt (boolText b))) (evCustomData penv.ks (evFields penv.ks off (ordered ords fields)).2 (ordered ords.tail cd)).2 (some (.bool b)) (evCustomData penv.ks (evFields penv.ks off (ordered ords fields)).2 (ordered ords.tail cd)).2 := by
          rw [txt_bool]; exact reads_tagOpt_some .bool "QualityCheck" _ _ _ (parses_bool b)
        exact this.andThen _
      rw [← henv]
      refine hHr _ _ _ rfl ?_
      exact LoopOk.stop _ _ _ _ _ _
    have hx : evEntryWith denv.ks off uuid (ordered ords fields) (ordered ords.tail cd) autotype
          (ordered ords.tail.tail times.times) times iconId ciu ourl qc evsH
        = .start "Entry" [] :: (evEntryWith denv.ks off uuid (ordered ords fields) (ordered ords.tail cd) autotype
          (ordered ords.tail.tail times.times) times iconId ciu ourl qc evsH).tail := rfl
    rw [hx]
    simp only [List.cons_append, bind, StateT.bind, expectStart, next, Outcome.bind, ite_true, pure, StateT.pure, fuelOf, get,
      getThe, MonadStateOf.get, StateT.get]
    rw [key _ (by simp)]
    rfl


mutual
  /-- the entries C03 speaks about (this version: no tags, no colours) -/
  inductive EntryOk : Entry → Prop where
    | mk (uuid : Bytes) (fields : List (String × Value)) (autotype : Option AutoType) (times : Times) (cd : CustomData)
        (iconId : Option Nat) (ciu : Option Bytes) (ourl : Option String) (qc : Option Bool) (history : Option (List Entry))
        (hu : uuid.length = 16) (hf : FieldsOk fields) (hfn : KeysNodup fields) (ha : ∀ x, autotype = some x → AutoTypeOk x)
        (ht : TimesOk times) (htn : KeysNodup times.times) (hcd : CdOk cd) (hcdn : KeysNodup cd)
        (hic : ∀ n, iconId = some n → n < 18446744073709551616) (hciu : ∀ b, ciu = some b → b.length = 16)
        (hou : OptNonBlank ourl) (hh : HistOk history) :
        EntryOk (.mk uuid fields autotype [] times cd iconId ciu none none ourl qc history)
  inductive HistOk : Option (List Entry) → Prop where
    | none : HistOk none
    | some (l : List Entry) (h : EntriesOk l) : HistOk (some l)
  inductive EntriesOk : List Entry → Prop where
    | nil : EntriesOk []
    | cons (e : Entry) (l : List Entry) (he : EntryOk e) (hl : EntriesOk l) : EntriesOk (e :: l)
end

theorem entryDepth_some (uuid : Bytes) (fields : List (String × Value)) (autotype : Option AutoType) (tags : List String)
    (times : Times) (cd : CustomData) (iconId : Option Nat) (ciu : Option Bytes) (fg bg : Option Color)
    (ourl : Option String) (qc : Option Bool) (l : List Entry) :
    entryDepth (.mk uuid fields autotype tags times cd iconId ciu fg bg ourl qc (some l)) = 1 + entryListDepth l := rfl
theorem entryDepth_pos (e : Entry) : 1 ≤ entryDepth e := by
  obtain ⟨_, _, _, _, _, _, _, _, _, _, _, _, h⟩ := e
  cases h with
  | none => exact Nat.le_refl 1
  | some l => rw [entryDepth_some]; omega
theorem entryListDepth_cons (e : Entry) (es : List Entry) :
    entryListDepth (e :: es) = max (entryDepth e) (entryListDepth es) := rfl

/-- the statement proved for one entry -/
def EntryRT (denv : DEnv) (u : Bytes → Option String) (penv : Env) (fd fp : Nat) (e : Entry) : Prop :=
  ∀ (stk : List String) (off : Nat) (ords : Ords), ∃ evs off' ords' e',
    Dumps (dumpEntry denv u fd e) stk off ords true evs stk off' ords' ∧
    Reads (parseEntry penv fp) evs off e' off' ∧ EntryEq e e' ∧ (∃ attrs tl, evs = .start "Entry" attrs :: tl)

theorem histLoop_rt (denv : DEnv) (u : Bytes → Option String) (penv : Env) (fd fp : Nat) (l : List Entry)
    (h : ∀ e ∈ l, EntryRT denv u penv fd fp e) :
    ∀ (stk : List String) (off : Nat) (ords : Ords) (ok : Bool), ∃ evs off' ords' l',
      Dumps (histLoop denv u fd l ok) stk off ords ok evs stk off' ords' ∧
      (∀ (acc : List Entry) (rest : List Ev) (r : List Entry × PSt),
        LoopOk "History" (historyDispatch penv fp) skipUnknown (acc ++ l') ⟨rest, off'⟩ r →
        LoopOk "History" (historyDispatch penv fp) skipUnknown acc ⟨evs ++ rest, off⟩ r) ∧
      EntriesEq l l' := by
  induction l with
  | nil =>
    intro stk off ords ok
    exact ⟨[], off, ords, [], Dumps.pure _ _ _ _, fun acc rest r hn => by simpa using hn, EntriesEq.nil⟩
  | cons e l ih =>
    intro stk off ords ok
    obtain ⟨evs1, off1, ords1, e', hd1, hr1, he1, hhd⟩ := h e List.mem_cons_self stk off ords
    obtain ⟨evs2, off2, ords2, l', hd2, hr2, he2⟩ := ih (fun x hx => h x (List.mem_cons_of_mem _ hx)) stk off1 ords1 ok
    refine ⟨evs1 ++ evs2, off2, ords2, e' :: l', ?_, ?_, EntriesEq.cons _ _ _ _ he1 he2⟩
    · unfold histLoop
      rw [List.forIn_cons]
      have e1 : evs1 ++ evs2 = (evs1 ++ []) ++ evs2 := by simp
      rw [e1]
      refine Dumps.bind (s2 := stk) (o2 := off1) (q2 := ords1) (a := ForInStep.yield (true && ok)) ?_ ?_
      · exact Dumps.bind hd1 (Dumps.pure _ _ _ _)
      · rw [Bool.true_and]; exact hd2
    · intro acc rest r hn
      rw [List.append_assoc]
      refine LoopOk.childL (acc ++ [e']) "Entry" evs1 _ off off1 _ hhd (by simp [historyDispatch]; rfl) (hr1.andThen _) ?_
      refine hr2 _ rest r ?_
      simpa [List.append_assoc] using hn


theorem histRT_none (denv : DEnv) (u : Bytes → Option String) (penv : Env) (fd fp : Nat) :
    HistRT denv u penv fd fp none := by
  intro stk off ords ok
  refine ⟨[], off, ords, none, Dumps.pure _ _ _ _, ?_, HistEq.none⟩
  intro acc rest r hacc hn
  have : ({ acc with history := none } : EntryAcc) = acc := by
    cases acc; simp at hacc; simp [hacc]
  rw [this] at hn
  exact hn

theorem histRT_some (denv : DEnv) (u : Bytes → Option String) (penv : Env) (fd fp : Nat) (l : List Entry)
    (h : ∀ e ∈ l, EntryRT denv u penv fd fp e) :
    HistRT denv u penv fd (fp + 1) (some l) := by
  intro stk off ords ok
  obtain ⟨evs, off', ords', l', hd, hr, he⟩ := histLoop_rt denv u penv fd fp l h ("History" :: stk) off ords ok
  refine ⟨[.start "History" []] ++ (evs ++ ([.stop "History"] ++ [])), off', ords', some l', ?_, ?_, HistEq.some _ _ he⟩
  · show Dumps (do
        emit (WEv.start "History" [])
        let ok' ← histLoop denv u fd l ok
        emit WEv.stop
        pure ok') _ _ _ _ _ _ _ _
    refine Dumps.bind (Dumps.emit_start "History" [] stk off ords (by decide) rfl) ?_
    refine Dumps.bind hd ?_
    exact Dumps.bind (Dumps.emit_stop "History" stk _ _) (Dumps.pure _ _ _ _)
  · intro acc rest r hacc hn
    have hrd : Reads (parseHistory penv (fp + 1)) ([.start "History" []] ++ (evs ++ ([.stop "History"] ++ []))) off l' off' := by
      intro rest'
      rw [parseHistory_eq]
      simp only [List.cons_append, List.nil_append, List.append_nil, List.append_assoc, bind, StateT.bind, expectStart, next,
        Outcome.bind, ite_true, pure, StateT.pure, fuelOf, get, getThe, MonadStateOf.get, StateT.get]
      refine (?_ : LoopOk _ _ _ _ _ _) _ (by simp)
      refine hr [] _ _ ?_
      exact LoopOk.stop _ _ _ _ _ _
    refine LoopOk.childL { acc with history := some l' } "History" _ rest off off' _ ⟨[], _, rfl⟩
      (entryDispatch_History penv (fp + 1) acc) (hrd.andThen _) hn

theorem entriesOk_mem (l : List Entry) (h : EntriesOk l) : ∀ e ∈ l, EntryOk e := by
  induction l with
  | nil => intro e he; cases he
  | cons x xs ih =>
    intro e he
    cases h with
    | cons _ _ hx hxs =>
      cases he with
      | head => exact hx
      | tail _ hm => exact ih hxs e hm

theorem entryListDepth_mem (l : List Entry) : ∀ e ∈ l, entryDepth e ≤ entryListDepth l := by
  induction l with
  | nil => intro e he; cases he
  | cons x xs ih =>
    intro e he
    rw [entryListDepth_cons]
    cases he with
    | head => exact Nat.le_max_left _ _
    | tail _ hm => exact Nat.le_trans (ih e hm) (Nat.le_max_right _ _)

/-- every entry of the domain, written with enough fuel, is read back as an equivalent entry -/
theorem entry_rt (denv : DEnv) (u : Bytes → Option String) (penv : Env) (hks : ∀ o n, (penv.ks o n).length = n)
    (henv : denv.ks = penv.ks) :
    ∀ (n : Nat) (e : Entry), entryDepth e ≤ n → EntryOk e → ∀ fd fp, n ≤ fd → 2 * n ≤ fp → EntryRT denv u penv fd fp e := by
  intro n
  induction n with
  | zero =>
    intro e hd
    have := entryDepth_pos e; omega
  | succ n ih =>
    intro e hd hok fd fp hfd hfp
    cases hok with
    | mk uuid fields autotype times cd iconId ciu ourl qc history hu hf hfn ha ht htn hcd hcdn hic hciu hou hh =>
      obtain ⟨fd', rfl⟩ : ∃ k, fd = k + 1 := ⟨fd - 1, by omega⟩
      obtain ⟨fp', rfl⟩ : ∃ k, fp = k + 1 := ⟨fp - 1, by omega⟩
      have hH : HistRT denv u penv fd' fp' history := by
        cases history with
        | none => exact histRT_none denv u penv fd' fp'
        | some l =>
          obtain ⟨fp'', rfl⟩ : ∃ k, fp' = k + 1 := ⟨fp' - 1, by omega⟩
          refine histRT_some denv u penv fd' fp'' l ?_
          intro x hx
          have hdx : entryDepth x ≤ n := by
            have := entryListDepth_mem l x hx
            rw [entryDepth_some] at hd
            omega
          cases hh with
          | some _ hl => exact ih x hdx (entriesOk_mem l hl x hx) fd' fp'' (by omega) (by omega)
      intro stk off ords
      obtain ⟨evs, off', ords', h', hdmp, hrd, hhe, hst⟩ := entry_core denv u penv hks henv fd' fp' uuid fields autotype times cd
        iconId ciu ourl qc history hu hf ha ht hcd hic hciu hou hH stk off ords
      refine ⟨evs, off', ords', _, hdmp, hrd, ?_, ?_⟩
      · exact EntryEq.mk uuid fields _ autotype [] times _ cd _ iconId ciu none none ourl qc history h'
          (lookup_insertAll_ordered ords fields hfn)
          ⟨rfl, rfl, lookup_insertAll_ordered _ times.times htn⟩
          (lookup_insertAll_ordered _ cd hcdn) hhe
      · exact hst


end Kp.Xml
