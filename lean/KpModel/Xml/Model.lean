import KpModel.Format.Bytes
import KpModel.Codec.Base64
/-
The object model of a KeePass database as the library exposes it (`src/db/*.rs`), and the XML event
alphabet.  Text is `String`; time stamps are seconds relative to the Unix epoch (whole seconds);
UUIDs are 16 bytes; maps (`HashMap`) are association lists in insertion order with later insertions
replacing earlier ones (`mapInsert`) — their iteration order is a parameter wherever the code iterates.
-/
namespace Kp.Xml

inductive Ev where
  | start (name : String) (attrs : List (String × String))
  | stop (name : String)
  | chars (s : String)
  | err                                   -- an error event from the tokenizer
  deriving DecidableEq, Repr, Inhabited

inductive Value where
  | bytes (b : Bytes)
  | unprotected (s : String)
  | prot (b : Bytes)
  deriving DecidableEq, Repr, Inhabited

def Value.isEmpty : Value → Bool
  | .bytes b => b.isEmpty
  | .unprotected s => s.isEmpty
  | .prot b => b.isEmpty

structure Color where
  r : Nat
  g : Nat
  b : Nat
  deriving DecidableEq, Repr, Inhabited

def mapInsert {β : Type} (m : List (String × β)) (k : String) (v : β) : List (String × β) :=
  (m.filter (fun p => p.1 != k)) ++ [(k, v)]

structure Times where
  expires : Bool := false
  usageCount : Nat := 0
  times : List (String × Int) := []
  deriving DecidableEq, Repr, Inhabited

structure CustomDataItem where
  value : Option Value := none
  lastModificationTime : Option Int := none
  deriving DecidableEq, Repr, Inhabited

abbrev CustomData := List (String × CustomDataItem)

structure AutoTypeAssociation where
  window : Option String := none
  sequence : Option String := none
  deriving DecidableEq, Repr, Inhabited

structure AutoType where
  enabled : Bool := false
  sequence : Option String := none
  associations : List AutoTypeAssociation := []
  deriving DecidableEq, Repr, Inhabited

/-- an entry; `history` items are entries themselves (the parser accepts nesting) -/
inductive Entry where
  | mk (uuid : Bytes) (fields : List (String × Value)) (autotype : Option AutoType) (tags : List String)
       (times : Times) (customData : CustomData) (iconId : Option Nat) (customIconUuid : Option Bytes)
       (fg bg : Option Color) (overrideUrl : Option String) (qualityCheck : Option Bool)
       (history : Option (List Entry))
  deriving Repr, Inhabited

inductive Node where
  | group (uuid : Bytes) (name : String) (notes : Option String) (iconId : Option Nat)
      (customIconUuid : Option Bytes) (children : List Node) (times : Times) (customData : CustomData)
      (isExpanded : Bool) (defaultAutotypeSequence enableAutotype enableSearching : Option String)
      (lastTopVisibleEntry : Option Bytes)
  | entry (e : Entry)
  deriving Repr, Inhabited

structure MemoryProtection where
  title : Bool := false
  username : Bool := false
  password : Bool := true
  url : Bool := false
  notes : Bool := false
  deriving DecidableEq, Repr, Inhabited

structure BinaryAttachment where
  identifier : Option String := none
  compressed : Bool := false
  content : Bytes := []
  deriving DecidableEq, Repr, Inhabited

structure Meta where
  generator : Option String := none
  databaseName : Option String := none
  databaseNameChanged : Option Int := none
  databaseDescription : Option String := none
  databaseDescriptionChanged : Option Int := none
  defaultUsername : Option String := none
  defaultUsernameChanged : Option Int := none
  maintenanceHistoryDays : Option Nat := none
  color : Option Color := none
  masterKeyChanged : Option Int := none
  masterKeyChangeRec : Option Int := none
  masterKeyChangeForce : Option Int := none
  memoryProtection : Option MemoryProtection := none
  customIcons : List (Bytes × Bytes) := []
  recyclebinEnabled : Option Bool := none
  recyclebinUuid : Option Bytes := none
  recyclebinChanged : Option Int := none
  entryTemplatesGroup : Option Bytes := none
  entryTemplatesGroupChanged : Option Int := none
  lastSelectedGroup : Option Bytes := none
  lastTopVisibleGroup : Option Bytes := none
  historyMaxItems : Option Nat := none
  historyMaxSize : Option Nat := none
  settingsChanged : Option Int := none
  binaries : List BinaryAttachment := []
  customData : CustomData := []
  deriving Repr, Inhabited

structure Content where
  metaData : Meta := {}
  root : Node := .group (List.replicate 16 0) "" none none none [] {} [] false none none none none
  deletedObjects : List (Bytes × Int) := []
  deriving Repr, Inhabited

/-- `Group::default()` -/
def defaultGroup : Node := .group (List.replicate 16 0) "" none none none [] {} [] false none none none none

end Kp.Xml
