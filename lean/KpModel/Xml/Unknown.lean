import KpModel.Xml.Parse
/-
How the struct parsers treat a child element they do not know (`IgnoreSubfield` in `src/xml_db/parse/mod.rs`): the
whole element — start tag, everything inside to any depth, end tag — is consumed and the parser goes on with the
accumulator unchanged; parsers that use `rejectUnknown` fail instead.
-/
namespace Kp.Xml
open Kp.Fmt Kp.Codec

/-- a well-formed sequence of elements and character data (no error event); end-tag names are not compared, as in
    `IgnoreSubfield` (the tokenizer has done that already) -/
inductive Balanced : List Ev → Prop where
  | nil : Balanced []
  | chars (c : String) (l : List Ev) (h : Balanced l) : Balanced (.chars c :: l)
  | elem (n : String) (a : List (String × String)) (inner : List Ev) (m : String) (l : List Ev)
      (hi : Balanced inner) (hl : Balanced l) : Balanced (.start n a :: inner ++ .stop m :: l)

/-- `ignoreLoop` without fuel: what remains once `depth + 1` elements have been closed -/
def skipTo : Nat → List Ev → Option (List Ev)
  | _, [] => none
  | d, .start _ _ :: r => skipTo (d + 1) r
  | d, .stop _ :: r => if d = 0 then some r else skipTo (d - 1) r
  | d, .chars _ :: r => skipTo d r
  | _, .err :: _ => none

theorem skipTo_balanced (inner : List Ev) (h : Balanced inner) : ∀ (d : Nat) (rest : List Ev),
    skipTo d (inner ++ rest) = skipTo d rest := by
  induction h with
  | nil => intro d rest; rfl
  | chars c l _ ih => intro d rest; simp only [List.cons_append, skipTo]; exact ih d rest
  | elem n a inner m l _ _ ihi ihl =>
    intro d rest
    simp only [List.cons_append, List.append_assoc, skipTo]
    rw [ihi (d + 1) (.stop m :: (l ++ rest))]
    simp only [skipTo, Nat.add_one_ne_zero, if_false, Nat.add_sub_cancel]
    exact ihl d rest

theorem ignoreLoop_skipTo (off : Nat) : ∀ (evs : List Ev) (d fuel : Nat) (r : List Ev), skipTo d evs = some r →
    evs.length < fuel → ignoreLoop fuel d ⟨evs, off⟩ = .ok ((), ⟨r, off⟩) := by
  intro evs
  induction evs with
  | nil => intro d fuel r h; cases h
  | cons e es ih =>
    intro d fuel r h hf
    obtain ⟨k, rfl⟩ : ∃ k, fuel = k + 1 := ⟨fuel - 1, by omega⟩
    have hk : es.length < k := by simp at hf; omega
    unfold ignoreLoop
    cases e with
    | start n a =>
      simp only [skipTo] at h
      simp only [bind, StateT.bind, Outcome.bind]
      exact ih (d + 1) k r h hk
    | stop n =>
      simp only [skipTo] at h
      simp only [bind, StateT.bind, Outcome.bind]
      by_cases hd : d = 0
      · simp only [hd, if_true] at h ⊢
        cases h; rfl
      · simp only [hd, if_false] at h ⊢
        exact ih (d - 1) k r h hk
    | chars c =>
      simp only [skipTo] at h
      simp only [bind, StateT.bind, Outcome.bind]
      exact ih d k r h hk
    | err => simp only [skipTo] at h; cases h

/-- `IgnoreSubfield` consumes exactly one well-formed element -/
theorem ignoreSubfield_element (n : String) (a : List (String × String)) (inner : List Ev) (m : String) (rest : List Ev)
    (off : Nat) (h : Balanced inner) :
    ignoreSubfield ⟨.start n a :: inner ++ .stop m :: rest, off⟩ = .ok ((), ⟨rest, off⟩) := by
  unfold ignoreSubfield
  simp only [bind, StateT.bind, next, Outcome.bind, get, getThe, MonadStateOf.get, StateT.get]
  refine ignoreLoop_skipTo off _ 0 _ rest ?_ (Nat.lt_succ_self _)
  show skipTo 0 (inner ++ Ev.stop m :: rest) = some rest
  rw [skipTo_balanced inner h]
  simp [skipTo]

/-- a struct parser that skips unknown children goes on after an unknown element as if it had not been there -/
theorem structLoop_unknown_skipped {σ : Type} (self : String) (dispatch : String → σ → Option (P σ)) (fuel : Nat) (acc : σ)
    (n : String) (a : List (String × String)) (inner : List Ev) (m : String) (rest : List Ev) (off : Nat)
    (hnone : dispatch n acc = none) (h : Balanced inner) :
    structLoop self dispatch skipUnknown (fuel + 1) acc ⟨.start n a :: inner ++ .stop m :: rest, off⟩
      = structLoop self dispatch skipUnknown fuel acc ⟨rest, off⟩ := by
  have hi := ignoreSubfield_element n a inner m rest off h
  conv => lhs; unfold structLoop
  simp only [bind, StateT.bind, peek, List.head?, Outcome.bind, hnone, skipUnknown, List.cons_append]
  simp only [List.cons_append] at hi
  simp only [hi, pure, StateT.pure]

/-- … and one that rejects unknown children fails -/
theorem structLoop_unknown_rejected {σ : Type} (self : String) (dispatch : String → σ → Option (P σ)) (fuel : Nat) (acc : σ)
    (n : String) (a : List (String × String)) (evs : List Ev) (off : Nat) (hnone : dispatch n acc = none) :
    structLoop self dispatch rejectUnknown (fuel + 1) acc ⟨.start n a :: evs, off⟩ = .err .integrity := by
  conv => lhs; unfold structLoop
  simp only [bind, StateT.bind, peek, List.head?, Outcome.bind, hnone, rejectUnknown, fail]

end Kp.Xml
