import KpModel.Xml.Model
import KpModel.Codec.Time
/-
Model of `src/xml_db/parse/{mod,entry,group,meta}.rs`: the event-level parsers (`FromXml` impls), faithful
to their peeking / consuming behaviour, error cases and panic sites.  The tokenizer (xml-rs) is outside:
the input is the stream of `SimpleXmlEvent`s (white space, comments, CDATA, processing instructions
already filtered out, as `parse_from_bytes` does).

State: remaining events and the inner-stream cursor.  The inner cipher is a parameter: `ks off len` is the
key stream slice; a protected value of `n` bytes consumes `n` bytes of key stream, in document order.
-/
namespace Kp.Xml
open Kp.Fmt Kp.Codec

structure Env where
  ks : Nat → Nat → Bytes            -- key stream of the inner cipher: offset, length
  gunzip : Bytes → Option Bytes     -- for compressed `<Binary>` attachments in `<Meta>`
  now : Int                         -- `Times::now()` for `Entry::new()`
  freshUuid : Bytes                 -- `Uuid::new_v4()` for `Entry::new()` (unobservable: a parameter)

structure PSt where
  evs : List Ev
  off : Nat
  deriving Repr

abbrev P := StateT PSt Outcome

def fail {α : Type} : P α := fun _ => .err .integrity
def panicP {α : Type} (site : String) : P α := fun _ => .panic site

/-- `iterator.next().ok_or(Eof)?` -/
def next : P Ev := fun s =>
  match s.evs with
  | [] => .err .integrity
  | e :: rest => .ok (e, { s with evs := rest })

/-- `iterator.peek()` -/
def peek : P (Option Ev) := fun s => .ok (s.evs.head?, s)

def xorBytes (a b : Bytes) : Bytes := List.zipWith (fun x y => x ^^^ y) a b

/-- `inner_cipher.decrypt(buf)`: XOR with the next `buf.length` bytes of key stream -/
def innerDecrypt (env : Env) (buf : Bytes) : P Bytes := fun s =>
  .ok (xorBytes buf (env.ks s.off buf.length), { s with off := s.off + buf.length })

/-- lossy UTF-8 decoding is outside the model: protected values are kept as bytes (the harness compares bytes;
    plaintexts that are not UTF-8 are outside the model domain) -/
def expectStart (tag : String) : P (List (String × String)) := do
  match ← next with
  | .start n attrs => if n = tag then pure attrs else fail
  | _ => fail

/-! ### `FromXmlCharacters` -/

def parseUuid (s : String) : Option Bytes :=
  match b64Decode s.toList with
  | some b => if b.length = 16 then some b else none
  | none => none

/-- `Color::from_str` -/
def parseColor (s : String) : Option Color :=
  if !(s.startsWith "#") || s.utf8ByteSize != 7 then none
  else
    let t := s.toList.dropWhile (· = '#')
    let ds := match t with | '+' :: r => r | r => r
    if ds.isEmpty then none
    else
      match ds.mapM hexVal with
      | none => none
      | some vs =>
        let v := vs.foldl (fun a d => a * 16 + d) 0
        some ⟨v / 65536 % 256, v / 256 % 256, v % 256⟩

inductive Kind where
  | text | bool | usize | isize | time | uuid | color
  deriving DecidableEq, Repr

inductive Scalar where
  | text (s : String) | bool (b : Bool) | nat (n : Nat) | int (i : Int) | time (t : Int) | uuid (u : Bytes)
  | color (c : Color)
  deriving DecidableEq, Repr, Inhabited

/-- `T::from_xml_characters` -/
def fromChars (k : Kind) (s : String) : P Scalar :=
  match k with
  | .text => pure (.text s)
  | .bool => match parseBool s with | some b => pure (.bool b) | none => fail
  | .usize => match parseUsize s with | some n => pure (.nat n) | none => fail
  | .isize => match parseIsize s with | some n => pure (.int n) | none => fail
  | .time => fun st => match parseTimestamp s with
    | .ok t => .ok (.time t, st) | .err c => .err c | .panic p => .panic p
  | .uuid => match parseUuid s with | some u => pure (.uuid u) | none => fail
  | .color => match parseColor s with | some c => pure (.color c) | none => fail

/-- `impl FromXml for T: FromXmlCharacters`: the next event must be characters -/
def scalarReq (k : Kind) : P Scalar := do
  match ← next with
  | .chars s => fromChars k s
  | _ => fail

/-- `impl FromXml for Option<T>`: characters are consumed if they are next -/
def scalarOpt (k : Kind) : P (Option Scalar) := do
  match ← peek with
  | none => fail
  | some (.chars s) => do let _ ← next; pure (some (← fromChars k s))
  | some _ => pure none

/-- `SimpleTag<V>`: open tag, value, matching close tag -/
def simpleTag {α : Type} (v : P α) : P (String × α) := do
  match ← next with
  | .start name _ =>
    let x ← v
    match ← next with
    | .stop n => if n = name then pure (name, x) else fail
    | _ => fail
  | _ => fail

def tagReq (k : Kind) : P Scalar := do pure (← simpleTag (scalarReq k)).2
def tagOpt (k : Kind) : P (Option Scalar) := do pure (← simpleTag (scalarOpt k)).2

def Scalar.str : Scalar → String | .text s => s | _ => ""
def Scalar.toBool : Scalar → Bool | .bool b => b | _ => false
def Scalar.toNat : Scalar → Nat | .nat n => n | _ => 0
def Scalar.toInt : Scalar → Int | .int n => n | _ => 0
def Scalar.toTime : Scalar → Int | .time n => n | _ => 0
def Scalar.toUuid : Scalar → Bytes | .uuid n => n | _ => []
def Scalar.toColor : Scalar → Color | .color c => c | _ => default

/-- `IgnoreSubfield`: skip one element with everything inside; an error event inside is an error -/
def ignoreLoop : Nat → Nat → P Unit
  | 0, _ => fail
  | fuel + 1, depth => do
    match ← (fun s => match s.evs with
        | [] => Outcome.ok (none, s)
        | e :: rest => Outcome.ok (some e, { s with evs := rest })) with
    | none => pure ()                       -- `while let Some(event) = iterator.next()` ends silently
    | some (.start _ _) => ignoreLoop fuel (depth + 1)
    | some (.stop _) => if depth = 0 then pure () else ignoreLoop fuel (depth - 1)
    | some (.chars _) => ignoreLoop fuel depth
    | some .err => fail

def ignoreSubfield : P Unit := do
  match ← next with
  | .start _ _ => do
    let n := (← get).evs.length
    ignoreLoop (n + 1) 0
  | _ => fail

/-- the common loop of the struct parsers: peek; a start tag is dispatched on its name; the struct's own
    end tag stops (and is consumed); anything else is an error -/
def structLoop {σ : Type} (self : String) (dispatch : String → σ → Option (P σ)) (unknown : σ → P σ) :
    Nat → σ → P σ
  | 0, _ => fail
  | fuel + 1, acc => do
    match ← peek with
    | none =>
      -- `while let Some(..) = peek()` ends; `iterator.next().ok_or(Eof)?` then fails
      fail
    | some (.start name _) =>
      let acc' ← match dispatch name acc with
        | some p => p
        | none => unknown acc
      structLoop self dispatch unknown fuel acc'
    | some (.stop name) =>
      if name = self then do let _ ← next; pure acc
      else fail
    | some _ => fail

def fuelOf : P Nat := do pure ((← get).evs.length + 1)

/-- unknown children are skipped (`IgnoreSubfield`) -/
def skipUnknown {σ : Type} (acc : σ) : P σ := do ignoreSubfield; pure acc
/-- unknown children are an error -/
def rejectUnknown {σ : Type} (_ : σ) : P σ := fail

/-! ### `Value` -/

/-- `impl FromXml for Value` -/
def parseValue (env : Env) : P Value := do
  match ← next with
  | .start tag attrs =>
    if tag ≠ "Value" then fail else
    let prot ← match attrs.lookup "Protected" with
      | none => pure false
      | some v => match parseBool v with | some b => pure b | none => fail
    let content := ((← scalarOpt .text).map Scalar.str).getD ""
    let value ← if prot then
        match b64Decode content.toList with
        | none => fail
        | some buf => do pure (Value.prot (← innerDecrypt env buf))
      else pure (Value.unprotected content)
    match ← next with
    | .stop n => if n = "Value" then pure value else fail
    | _ => fail
  | _ => fail

/-! ### `Times`, `CustomData`, `DeletedObjects` -/

def parseTimes : P Times := do
  let _ ← expectStart "Times"
  structLoop "Times" (fun name acc =>
    if name = "Expires" then some (do pure { acc with expires := (← tagReq .bool).toBool })
    else if name = "UsageCount" then some (do pure { acc with usageCount := (← tagReq .usize).toNat })
    else some (do
      let (n, v) ← simpleTag (scalarReq .time)
      pure { acc with times := mapInsert acc.times n v.toTime }))
    rejectUnknown (← fuelOf) {}

structure CdItem where
  key : String := ""
  item : CustomDataItem := {}

def parseCustomDataItem (env : Env) : P CdItem := do
  let _ ← expectStart "Item"
  structLoop "Item" (fun name acc =>
    if name = "Key" then some (do pure { acc with key := (← tagReq .text).str })
    else if name = "Value" then some (do pure { acc with item := { acc.item with value := some (← parseValue env) } })
    else if name = "LastModificationTime" then
      some (do pure { acc with item := { acc.item with lastModificationTime := (← tagOpt .time).map Scalar.toTime } })
    else none)
    rejectUnknown (← fuelOf) {}

def parseCustomData (env : Env) : P CustomData := do
  let _ ← expectStart "CustomData"
  structLoop "CustomData" (fun name acc =>
    if name = "Item" then some (do
      let it ← parseCustomDataItem env
      pure (mapInsert acc it.key it.item))
    else none)
    rejectUnknown (← fuelOf) []

def parseDeletedObject : P (Bytes × Int) := do
  let _ ← expectStart "DeletedObject"
  structLoop "DeletedObject" (fun name (acc : Bytes × Int) =>
    if name = "UUID" then some (do pure ((← tagReq .uuid).toUuid, acc.2))
    else if name = "DeletionTime" then some (do pure (acc.1, (← tagReq .time).toTime))
    else none)
    rejectUnknown (← fuelOf) (List.replicate 16 0, 0)

def parseDeletedObjects : P (List (Bytes × Int)) := do
  let _ ← expectStart "DeletedObjects"
  -- only `DeletedObject` start tags are accepted; anything else but the own end tag is an error
  structLoop "DeletedObjects" (fun name acc =>
    if name = "DeletedObject" then some (do pure (acc ++ [← parseDeletedObject])) else none)
    rejectUnknown (← fuelOf) []

/-! ### entries -/

def parseAssociation : P AutoTypeAssociation := do
  let _ ← expectStart "Association"
  structLoop "Association" (fun name acc =>
    if name = "Window" then some (do pure { acc with window := (← tagOpt .text).map Scalar.str })
    else if name = "KeystrokeSequence" then some (do pure { acc with sequence := (← tagOpt .text).map Scalar.str })
    else none)
    skipUnknown (← fuelOf) {}

def parseAutoType : P AutoType := do
  let _ ← expectStart "AutoType"
  structLoop "AutoType" (fun name acc =>
    if name = "Enabled" then some (do pure { acc with enabled := (← tagReq .bool).toBool })
    else if name = "DefaultSequence" then some (do pure { acc with sequence := (← tagOpt .text).map Scalar.str })
    else if name = "DataTransferObfuscation" then some (do let _ ← tagOpt .usize; pure acc)
    else if name = "Association" then some (do pure { acc with associations := acc.associations ++ [← parseAssociation] })
    else none)
    skipUnknown (← fuelOf) {}

/-- `StringField`: key and value; an empty value yields no field -/
def parseStringField (env : Env) : P (String × Option Value) := do
  let _ ← expectStart "String"
  structLoop "String" (fun name (acc : String × Option Value) =>
    if name = "Key" then some (do pure ((← tagReq .text).str, acc.2))
    else if name = "Value" then some (do
      let v ← parseValue env
      pure (acc.1, if v.isEmpty then acc.2 else some v))
    else none)
    skipUnknown (← fuelOf) ("", none)

/-- `BinaryField` (a reference to a pool binary): strict sequence Key, `<Value Ref=…/>`; the result is dropped -/
def parseBinaryField : P Unit := do
  let _ ← expectStart "Binary"
  let _ ← tagReq .text
  match ← next with
  | .start name attrs =>
    if name = "Value" ∧ (attrs.lookup "Ref").isSome then do
      match ← next with
      | .stop n => if n = "Value" then do let _ ← next; pure () else fail
      | _ => fail
    else fail
  | _ => fail

/-- `str::split(pred)`: pieces between separators, empty pieces included -/
def splitOnP (p : Char → Bool) : List Char → List (List Char)
  | [] => [[]]
  | c :: cs =>
    match splitOnP p cs with
    | [] => [[]]
    | h :: t => if p c then [] :: h :: t else (c :: h) :: t

def splitTags (s : String) : List String :=
  (splitOnP (fun c => c == ';' || c == ',') s.toList).map String.ofList

structure EntryAcc where
  uuid : Bytes
  fields : List (String × Value) := []
  autotype : Option AutoType := none
  tags : List String := []
  times : Times
  customData : CustomData := []
  iconId : Option Nat := none
  customIconUuid : Option Bytes := none
  fg : Option Color := none
  bg : Option Color := none
  overrideUrl : Option String := none
  qualityCheck : Option Bool := none
  history : Option (List Entry) := none

def EntryAcc.toEntry (a : EntryAcc) : Entry :=
  .mk a.uuid a.fields a.autotype a.tags a.times a.customData a.iconId a.customIconUuid a.fg a.bg a.overrideUrl
    a.qualityCheck a.history

/-- `Times::new()` -/
def timesNew (now : Int) : Times :=
  { expires := false, usageCount := 0,
    times := [("CreationTime", now), ("LastModificationTime", now), ("LastAccessTime", now),
              ("LocationChanged", now), ("ExpiryTime", now)] }

mutual
  /-- `impl FromXml for Entry` (fuel bounds the nesting Entry → History → Entry …) -/
  def parseEntry (env : Env) : Nat → P Entry
    | 0 => fail
    | fuel + 1 => do
      let _ ← expectStart "Entry"
      let acc ← structLoop "Entry" (fun name (acc : EntryAcc) =>
        if name = "UUID" then some (do pure { acc with uuid := (← tagReq .uuid).toUuid })
        else if name = "Tags" then some (do
          match ← tagOpt .text with
          | some t => pure { acc with tags := splitTags t.str }
          | none => pure acc)
        else if name = "String" then some (do
          let (k, v) ← parseStringField env
          match v with
          | some v => pure { acc with fields := mapInsert acc.fields k v }
          | none => pure acc)
        else if name = "CustomData" then some (do pure { acc with customData := (← parseCustomData env) })
        else if name = "Binary" then some (do parseBinaryField; pure acc)
        else if name = "AutoType" then some (do pure { acc with autotype := some (← parseAutoType) })
        else if name = "Times" then some (do pure { acc with times := (← parseTimes) })
        else if name = "IconID" then some (do pure { acc with iconId := (← tagOpt .usize).map Scalar.toNat })
        else if name = "CustomIconUUID" then some (do pure { acc with customIconUuid := (← tagOpt .uuid).map Scalar.toUuid })
        else if name = "ForegroundColor" then some (do pure { acc with fg := (← tagOpt .color).map Scalar.toColor })
        else if name = "BackgroundColor" then some (do pure { acc with bg := (← tagOpt .color).map Scalar.toColor })
        else if name = "OverrideURL" then some (do pure { acc with overrideUrl := (← tagOpt .text).map Scalar.str })
        else if name = "QualityCheck" then some (do pure { acc with qualityCheck := (← tagOpt .bool).map Scalar.toBool })
        else if name = "History" then some (do pure { acc with history := some (← parseHistory env fuel) })
        else none)
        skipUnknown (← fuelOf) { uuid := env.freshUuid, times := timesNew env.now }
      pure acc.toEntry

  /-- `impl FromXml for History` -/
  def parseHistory (env : Env) : Nat → P (List Entry)
    | 0 => fail
    | fuel + 1 => do
      let _ ← expectStart "History"
      structLoop "History" (fun name acc =>
        if name = "Entry" then some (do pure (acc ++ [← parseEntry env fuel])) else none)
        skipUnknown (← fuelOf) []
end

/-! ### groups -/

structure GroupAcc where
  uuid : Bytes := List.replicate 16 0
  name : String := ""
  notes : Option String := none
  iconId : Option Nat := none
  customIconUuid : Option Bytes := none
  children : List Node := []
  times : Times := {}
  customData : CustomData := []
  isExpanded : Bool := false
  defaultAutotypeSequence : Option String := none
  enableAutotype : Option String := none
  enableSearching : Option String := none
  lastTopVisibleEntry : Option Bytes := none

def GroupAcc.toNode (a : GroupAcc) : Node :=
  .group a.uuid a.name a.notes a.iconId a.customIconUuid a.children a.times a.customData a.isExpanded
    a.defaultAutotypeSequence a.enableAutotype a.enableSearching a.lastTopVisibleEntry

/-- `impl FromXml for Group` -/
def parseGroup (env : Env) : Nat → P Node
  | 0 => fail
  | fuel + 1 => do
    let _ ← expectStart "Group"
    let acc ← structLoop "Group" (fun name (acc : GroupAcc) =>
      if name = "UUID" then some (do pure { acc with uuid := (← tagReq .uuid).toUuid })
      else if name = "Name" then some (do pure { acc with name := ((← tagOpt .text).map Scalar.str).getD "" })
      else if name = "Notes" then some (do pure { acc with notes := (← tagOpt .text).map Scalar.str })
      else if name = "IconID" then some (do pure { acc with iconId := (← tagOpt .usize).map Scalar.toNat })
      else if name = "CustomIconUUID" then some (do pure { acc with customIconUuid := (← tagOpt .uuid).map Scalar.toUuid })
      else if name = "Times" then some (do pure { acc with times := (← parseTimes) })
      else if name = "IsExpanded" then some (do pure { acc with isExpanded := (← tagReq .bool).toBool })
      else if name = "DefaultAutoTypeSequence" then some (do pure { acc with defaultAutotypeSequence := (← tagOpt .text).map Scalar.str })
      else if name = "EnableAutoType" then some (do pure { acc with enableAutotype := (← tagOpt .text).map Scalar.str })
      else if name = "EnableSearching" then some (do pure { acc with enableSearching := (← tagOpt .text).map Scalar.str })
      else if name = "LastTopVisibleEntry" then some (do pure { acc with lastTopVisibleEntry := (← tagOpt .uuid).map Scalar.toUuid })
      else if name = "Entry" then some (do
        let n := (← get).evs.length
        pure { acc with children := acc.children ++ [.entry (← parseEntry env (n + 1))] })
      else if name = "Group" then some (do pure { acc with children := acc.children ++ [← parseGroup env fuel] })
      else if name = "CustomData" then some (do pure { acc with customData := (← parseCustomData env) })
      else none)
      skipUnknown (← fuelOf) {}
    pure acc.toNode

/-! ### `Meta` -/

def parseMemoryProtection : P MemoryProtection := do
  let _ ← expectStart "MemoryProtection"
  structLoop "MemoryProtection" (fun name acc =>
    if name = "ProtectTitle" then some (do pure { acc with title := (← tagReq .bool).toBool })
    else if name = "ProtectUserName" then some (do pure { acc with username := (← tagReq .bool).toBool })
    else if name = "ProtectPassword" then some (do pure { acc with password := (← tagReq .bool).toBool })
    else if name = "ProtectURL" then some (do pure { acc with url := (← tagReq .bool).toBool })
    else if name = "ProtectNotes" then some (do pure { acc with notes := (← tagReq .bool).toBool })
    else none)
    skipUnknown (← fuelOf) {}

/-- `impl FromXml for BinaryAttachment` -/
def parseBinaryAttachment (env : Env) : P BinaryAttachment := do
  match ← next with
  | .start name attrs =>
    if name ≠ "Binary" then fail else
    let identifier := attrs.lookup "ID"
    let compressed ← match attrs.lookup "Compressed" with
      | none => pure false
      | some v => match parseBool v with | some b => pure b | none => fail
    let data := (← scalarReq .text).str
    match b64Decode data.toList with
    | none => fail
    | some buf =>
      let content ← if compressed then
          match env.gunzip buf with | some c => pure c | none => fail
        else pure buf
      let _ ← next
      pure ⟨identifier, compressed, content⟩
  | _ => fail

def parseBinaries (env : Env) : P (List BinaryAttachment) := do
  let _ ← expectStart "Binaries"
  structLoop "Binaries" (fun name acc =>
    if name = "Binary" then some (do pure (acc ++ [← parseBinaryAttachment env])) else none)
    skipUnknown (← fuelOf) []

def parseIcon : P (Bytes × Bytes) := do
  let _ ← expectStart "Icon"
  structLoop "Icon" (fun name (acc : Bytes × Bytes) =>
    if name = "UUID" then some (do pure ((← tagReq .uuid).toUuid, acc.2))
    else if name = "Data" then some (do
      let d := (← tagReq .text).str
      match b64Decode d.toList with
      | some b => pure (acc.1, b)
      | none => fail)
    else none)
    skipUnknown (← fuelOf) (List.replicate 16 0, [])

def parseCustomIcons : P (List (Bytes × Bytes)) := do
  let _ ← expectStart "CustomIcons"
  structLoop "CustomIcons" (fun name acc =>
    if name = "Icon" then some (do pure (acc ++ [← parseIcon])) else none)
    skipUnknown (← fuelOf) []

def optText : P (Option String) := do pure ((← tagOpt .text).map Scalar.str)
def optTime : P (Option Int) := do pure ((← tagOpt .time).map Scalar.toTime)
def optUuid : P (Option Bytes) := do pure ((← tagOpt .uuid).map Scalar.toUuid)
def optUsize : P (Option Nat) := do pure ((← tagOpt .usize).map Scalar.toNat)
def optIsize : P (Option Int) := do pure ((← tagOpt .isize).map Scalar.toInt)

def parseMeta (env : Env) : P Meta := do
  let _ ← expectStart "Meta"
  structLoop "Meta" (fun name (acc : Meta) =>
    if name = "Generator" then some (do pure { acc with generator := (← optText) })
    else if name = "DatabaseName" then some (do pure { acc with databaseName := (← optText) })
    else if name = "DatabaseNameChanged" then some (do pure { acc with databaseNameChanged := (← optTime) })
    else if name = "DatabaseDescription" then some (do pure { acc with databaseDescription := (← optText) })
    else if name = "DatabaseDescriptionChanged" then some (do pure { acc with databaseDescriptionChanged := (← optTime) })
    else if name = "DefaultUserName" then some (do pure { acc with defaultUsername := (← optText) })
    else if name = "DefaultUserNameChanged" then some (do pure { acc with defaultUsernameChanged := (← optTime) })
    else if name = "MaintenanceHistoryDays" then some (do pure { acc with maintenanceHistoryDays := (← optUsize) })
    else if name = "Color" then some (do pure { acc with color := (← tagOpt .color).map Scalar.toColor })
    else if name = "MasterKeyChanged" then some (do pure { acc with masterKeyChanged := (← optTime) })
    else if name = "MasterKeyChangeRec" then some (do pure { acc with masterKeyChangeRec := (← optIsize) })
    else if name = "MasterKeyChangeForce" then some (do pure { acc with masterKeyChangeForce := (← optIsize) })
    else if name = "MemoryProtection" then some (do pure { acc with memoryProtection := some (← parseMemoryProtection) })
    else if name = "CustomIcons" then some (do pure { acc with customIcons := (← parseCustomIcons) })
    else if name = "RecycleBinEnabled" then some (do pure { acc with recyclebinEnabled := (← tagOpt .bool).map Scalar.toBool })
    else if name = "RecycleBinUUID" then some (do pure { acc with recyclebinUuid := (← optUuid) })
    else if name = "RecycleBinChanged" then some (do pure { acc with recyclebinChanged := (← optTime) })
    else if name = "EntryTemplatesGroup" then some (do pure { acc with entryTemplatesGroup := (← optUuid) })
    else if name = "EntryTemplatesGroupChanged" then some (do pure { acc with entryTemplatesGroupChanged := (← optTime) })
    else if name = "LastSelectedGroup" then some (do pure { acc with lastSelectedGroup := (← optUuid) })
    else if name = "LastTopVisibleGroup" then some (do pure { acc with lastTopVisibleGroup := (← optUuid) })
    else if name = "HistoryMaxItems" then some (do pure { acc with historyMaxItems := (← optUsize) })
    else if name = "HistoryMaxSize" then some (do pure { acc with historyMaxSize := (← optUsize) })
    else if name = "SettingsChanged" then some (do pure { acc with settingsChanged := (← optTime) })
    else if name = "Binaries" then some (do pure { acc with binaries := (← parseBinaries env) })
    else if name = "CustomData" then some (do pure { acc with customData := (← parseCustomData env) })
    else none)
    skipUnknown (← fuelOf) {}

/-! ### `Root`, `KeePassFile` -/

def parseRoot (env : Env) : P (Node × List (Bytes × Int)) := do
  let _ ← expectStart "Root"
  structLoop "Root" (fun name (acc : Node × List (Bytes × Int)) =>
    if name = "Group" then some (do
      let n := (← get).evs.length
      pure (← parseGroup env (n + 1), acc.2))
    else if name = "DeletedObjects" then some (do pure (acc.1, ← parseDeletedObjects))
    else none)
    rejectUnknown (← fuelOf) (defaultGroup, [])

def parseKeePassFile (env : Env) : P Content := do
  let _ ← expectStart "KeePassFile"
  structLoop "KeePassFile" (fun name (acc : Content) =>
    if name = "Meta" then some (do pure { acc with metaData := (← parseMeta env) })
    else if name = "Root" then some (do
      let (g, d) ← parseRoot env
      pure { acc with root := g, deletedObjects := d })
    else none)
    rejectUnknown (← fuelOf) {}

/-- `xml_db::parse::parse` on the event stream; also returns the key-stream bytes consumed -/
def parseContent (env : Env) (evs : List Ev) : Outcome (Content × Nat) :=
  match (parseKeePassFile env).run ⟨evs, 0⟩ with
  | .ok (c, s) => .ok (c, s.off)
  | .err c => .err c
  | .panic p => .panic p

end Kp.Xml
