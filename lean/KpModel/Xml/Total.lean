import KpModel.Xml.RoundTrip
/-
No input makes the XML object-model reader (`Xml/Parse.lean`, the model of `src/xml_db/parse/*.rs`) panic: every parser is
built from `next`, `peek`, `fail`, `pure`, the scalar conversions and the struct loop, none of which panics (the time-stamp
conversion reports errors since the repair of F8).  `NP p` = the parser `p` never returns `panic`.
-/
namespace Kp.Xml
open Kp.Fmt Kp.Codec

/-- the parser never panics -/
structure NP {α : Type} (p : P α) : Prop where
  np : ∀ (s : PSt) (site : String), p s ≠ .panic site

theorem NP.pure {α : Type} (a : α) : NP (Pure.pure a : P α) := ⟨by intro s site h; cases h⟩
theorem NP.fail {α : Type} : NP (fail : P α) := ⟨by intro s site h; cases h⟩
theorem NP.bind {α β : Type} {p : P α} {f : α → P β} (hp : NP p) (hf : ∀ a, NP (f a)) : NP (p >>= f) := by
  refine ⟨?_⟩
  intro s site h
  have : (p >>= f) s = (p s >>= fun x => f x.1 x.2) := rfl
  rw [this] at h
  cases hps : p s with
  | ok x => rw [hps] at h; exact (hf x.1).np x.2 site h
  | err c => rw [hps] at h; cases h
  | panic q => exact hp.np s q hps
theorem NP.next : NP next := ⟨by intro s site h; unfold Kp.Xml.next at h; split at h <;> cases h⟩
theorem NP.peek : NP peek := ⟨by intro s site h; cases h⟩
theorem NP.get : NP (get : P PSt) := ⟨by intro s site h; cases h⟩
theorem NP.ite {α : Type} {c : Prop} [Decidable c] {p q : P α} (hp : NP p) (hq : NP q) : NP (if c then p else q) := by
  split <;> assumption

/-- one step of decomposing a parser built from binds, matches and conditionals -/
macro "np_step" : tactic => `(tactic| first
  | exact NP.pure _ | exact NP.fail | exact NP.next | exact NP.peek | exact NP.get
  | assumption
  | apply NP.bind
  | apply NP.ite
  | intro _
  | split
  | dsimp only)

theorem np_innerDecrypt (env : Env) (buf : Bytes) : NP (innerDecrypt env buf) := ⟨by intro s site h; cases h⟩

theorem np_expectStart (tag : String) : NP (expectStart tag) := by
  unfold expectStart
  repeat np_step

theorem np_fromChars (k : Kind) (s : String) : NP (fromChars k s) := by
  cases k <;> unfold fromChars
  all_goals first
    | exact NP.pure _
    | (simp only; split <;> first | exact NP.pure _ | exact NP.fail)
    | skip
  refine ⟨?_⟩
  intro st site h
  simp only at h
  split at h
  · cases h
  · cases h
  · rename_i p hp
    exact absurd hp (by
      intro e
      have : parseTimestamp s ≠ .panic p := by
        unfold parseTimestamp
        repeat (first | split | (intro h'; cases h') | dsimp only)
      exact this e)

theorem np_scalarReq (k : Kind) : NP (scalarReq k) := by
  unfold scalarReq
  repeat (first | exact np_fromChars _ _ | np_step)

theorem np_scalarOpt (k : Kind) : NP (scalarOpt k) := by
  unfold scalarOpt
  repeat (first | exact np_fromChars _ _ | np_step)

theorem np_simpleTag {α : Type} (v : P α) (hv : NP v) : NP (simpleTag v) := by
  unfold simpleTag
  repeat np_step

theorem np_tagReq (k : Kind) : NP (tagReq k) := by
  unfold tagReq
  repeat (first | exact np_simpleTag _ (np_scalarReq _) | np_step)

theorem np_tagOpt (k : Kind) : NP (tagOpt k) := by
  unfold tagOpt
  repeat (first | exact np_simpleTag _ (np_scalarOpt _) | np_step)


theorem np_ignoreLoop : ∀ (fuel depth : Nat), NP (ignoreLoop fuel depth) := by
  intro fuel
  induction fuel with
  | zero => intro depth; unfold ignoreLoop; exact NP.fail
  | succ n ih =>
    intro depth
    unfold ignoreLoop
    apply NP.bind
    · refine ⟨?_⟩; intro s site h; split at h <;> cases h
    · intro a
      split
      · exact NP.pure _
      · exact ih _
      · split
        · exact NP.pure _
        · exact ih _
      · exact ih _
      · exact NP.fail

theorem np_ignoreSubfield : NP ignoreSubfield := by
  unfold ignoreSubfield
  repeat (first | exact np_ignoreLoop _ _ | np_step)

theorem np_skipUnknown {σ : Type} (acc : σ) : NP (skipUnknown acc) := by
  unfold skipUnknown
  repeat (first | exact np_ignoreSubfield | np_step)

theorem np_rejectUnknown {σ : Type} (acc : σ) : NP (rejectUnknown acc) := by
  unfold rejectUnknown; exact NP.fail

theorem np_structLoop {σ : Type} (self : String) (dispatch : String → σ → Option (P σ)) (unknown : σ → P σ)
    (hd : ∀ name acc p, dispatch name acc = some p → NP p) (hu : ∀ acc, NP (unknown acc)) :
    ∀ (fuel : Nat) (acc : σ), NP (structLoop self dispatch unknown fuel acc) := by
  intro fuel
  induction fuel with
  | zero => intro acc; unfold structLoop; exact NP.fail
  | succ n ih =>
    intro acc
    unfold structLoop
    apply NP.bind NP.peek
    intro a
    split
    · exact NP.fail
    · rename_i name attrs
      dsimp only
      split
      · rename_i p hp
        exact NP.bind (hd name acc p hp) (fun acc' => ih acc')
      · exact NP.bind (hu acc) (fun acc' => ih acc')
    · split
      · exact NP.bind NP.next (fun _ => NP.pure _)
      · exact NP.fail
    · exact NP.fail

theorem np_fuelOf : NP fuelOf := by
  unfold fuelOf
  repeat np_step

/-- a struct parser: start tag, then the loop -/
theorem np_struct {σ : Type} (tag self : String) (dispatch : String → σ → Option (P σ)) (unknown : σ → P σ) (init : σ)
    (hd : ∀ name acc p, dispatch name acc = some p → NP p) (hu : ∀ acc, NP (unknown acc)) :
    NP (do
      let _ ← expectStart tag
      structLoop self dispatch unknown (← fuelOf) init) := by
  apply NP.bind (np_expectStart tag)
  intro _
  apply NP.bind np_fuelOf
  intro fuel
  exact np_structLoop self dispatch unknown hd hu fuel init


syntax "np_known" : tactic
macro_rules | `(tactic| np_known) => `(tactic| exact np_tagReq _)
macro_rules | `(tactic| np_known) => `(tactic| exact np_tagOpt _)
macro_rules | `(tactic| np_known) => `(tactic| exact np_scalarReq _)
macro_rules | `(tactic| np_known) => `(tactic| exact np_scalarOpt _)
macro_rules | `(tactic| np_known) => `(tactic| exact np_simpleTag _ (np_scalarReq _))
macro_rules | `(tactic| np_known) => `(tactic| exact np_simpleTag _ (np_scalarOpt _))
macro_rules | `(tactic| np_known) => `(tactic| exact np_expectStart _)
macro_rules | `(tactic| np_known) => `(tactic| exact np_fuelOf)
macro_rules | `(tactic| np_known) => `(tactic| exact np_innerDecrypt _ _)
macro_rules | `(tactic| np_known) => `(tactic| exact np_skipUnknown _)
macro_rules | `(tactic| np_known) => `(tactic| exact np_rejectUnknown _)
macro_rules | `(tactic| np_known) => `(tactic| exact np_ignoreSubfield)

macro "np_auto" : tactic => `(tactic| repeat (first | np_known | np_step))

theorem np_ite_some {σ : Type} {c : Prop} [Decidable c] {b : P σ} {rest : Option (P σ)} (hb : NP b)
    (hr : ∀ p, rest = some p → NP p) : ∀ p, (if c then some b else rest) = some p → NP p := by
  intro p h
  split at h
  · cases h; exact hb
  · exact hr p h

theorem np_none_case {σ : Type} : ∀ p : P σ, (none : Option (P σ)) = some p → NP p := by
  intro p h; cases h

theorem np_some_case {σ : Type} {b : P σ} (hb : NP b) : ∀ p : P σ, some b = some p → NP p := by
  intro p h; cases h; exact hb

/-- a dispatch function given as a chain of `if name = … then some … else …` -/
macro "np_dispatch" : tactic => `(tactic|
  (intro name acc
   repeat' (first
     | exact np_none_case
     | refine np_ite_some ?_ ?_
     | refine np_some_case ?_
     | (np_auto; done))))

theorem np_parseValue (env : Env) : NP (parseValue env) := by
  unfold parseValue
  np_auto
macro_rules | `(tactic| np_known) => `(tactic| exact np_parseValue _)

theorem np_parseTimes : NP parseTimes := by
  unfold parseTimes
  apply NP.bind (np_expectStart _); intro _
  apply NP.bind np_fuelOf; intro fuel
  apply np_structLoop
  · np_dispatch
  · exact np_rejectUnknown
macro_rules | `(tactic| np_known) => `(tactic| exact np_parseTimes)


/-- `expectStart tag` then the struct loop with a dispatch table -/
macro "np_struct_parser" : tactic => `(tactic|
  (apply NP.bind (np_expectStart _); intro _
   apply NP.bind np_fuelOf; intro fuel
   apply np_structLoop
   · np_dispatch
   · first | exact np_rejectUnknown | exact np_skipUnknown))

theorem np_parseCustomDataItem (env : Env) : NP (parseCustomDataItem env) := by
  unfold parseCustomDataItem; np_struct_parser
macro_rules | `(tactic| np_known) => `(tactic| exact np_parseCustomDataItem _)

theorem np_parseCustomData (env : Env) : NP (parseCustomData env) := by
  unfold parseCustomData; np_struct_parser
macro_rules | `(tactic| np_known) => `(tactic| exact np_parseCustomData _)

theorem np_parseDeletedObject : NP parseDeletedObject := by
  unfold parseDeletedObject; np_struct_parser
macro_rules | `(tactic| np_known) => `(tactic| exact np_parseDeletedObject)

theorem np_parseDeletedObjects : NP parseDeletedObjects := by
  unfold parseDeletedObjects; np_struct_parser
macro_rules | `(tactic| np_known) => `(tactic| exact np_parseDeletedObjects)

theorem np_parseAssociation : NP parseAssociation := by
  unfold parseAssociation; np_struct_parser
macro_rules | `(tactic| np_known) => `(tactic| exact np_parseAssociation)

theorem np_parseAutoType : NP parseAutoType := by
  unfold parseAutoType; np_struct_parser
macro_rules | `(tactic| np_known) => `(tactic| exact np_parseAutoType)

theorem np_parseStringField (env : Env) : NP (parseStringField env) := by
  unfold parseStringField; np_struct_parser
macro_rules | `(tactic| np_known) => `(tactic| exact np_parseStringField _)

theorem np_parseBinaryField : NP parseBinaryField := by
  unfold parseBinaryField; np_auto
macro_rules | `(tactic| np_known) => `(tactic| exact np_parseBinaryField)


theorem np_parseEntry_History (env : Env) : ∀ fuel, NP (parseEntry env fuel) ∧ NP (parseHistory env fuel) := by
  intro fuel
  induction fuel with
  | zero => constructor <;> (first | (unfold parseEntry; exact NP.fail) | (unfold parseHistory; exact NP.fail))
  | succ n ih =>
    have ihE := ih.1
    have ihH := ih.2
    constructor
    · unfold parseEntry
      apply NP.bind (np_expectStart _); intro _
      apply NP.bind np_fuelOf; intro fuel
      apply NP.bind
      · apply np_structLoop
        · np_dispatch
        · exact np_skipUnknown
      · intro _; exact NP.pure _
    · unfold parseHistory
      apply NP.bind (np_expectStart _); intro _
      apply NP.bind np_fuelOf; intro fuel
      apply np_structLoop
      · np_dispatch
      · exact np_skipUnknown

theorem np_parseEntry (env : Env) (fuel : Nat) : NP (parseEntry env fuel) := (np_parseEntry_History env fuel).1
macro_rules | `(tactic| np_known) => `(tactic| exact np_parseEntry _ _)

theorem np_parseGroup (env : Env) : ∀ fuel, NP (parseGroup env fuel) := by
  intro fuel
  induction fuel with
  | zero => unfold parseGroup; exact NP.fail
  | succ n ih =>
    unfold parseGroup
    apply NP.bind (np_expectStart _); intro _
    apply NP.bind np_fuelOf; intro fuel
    apply NP.bind
    · apply np_structLoop
      · np_dispatch
      · exact np_skipUnknown
    · intro _; exact NP.pure _
macro_rules | `(tactic| np_known) => `(tactic| exact np_parseGroup _ _)

theorem np_parseMemoryProtection : NP parseMemoryProtection := by
  unfold parseMemoryProtection; np_struct_parser
macro_rules | `(tactic| np_known) => `(tactic| exact np_parseMemoryProtection)

theorem np_parseBinaryAttachment (env : Env) : NP (parseBinaryAttachment env) := by
  unfold parseBinaryAttachment; np_auto
macro_rules | `(tactic| np_known) => `(tactic| exact np_parseBinaryAttachment _)

theorem np_parseBinaries (env : Env) : NP (parseBinaries env) := by
  unfold parseBinaries; np_struct_parser
macro_rules | `(tactic| np_known) => `(tactic| exact np_parseBinaries _)

theorem np_parseIcon : NP parseIcon := by
  unfold parseIcon; np_struct_parser
macro_rules | `(tactic| np_known) => `(tactic| exact np_parseIcon)

theorem np_parseCustomIcons : NP parseCustomIcons := by
  unfold parseCustomIcons; np_struct_parser
macro_rules | `(tactic| np_known) => `(tactic| exact np_parseCustomIcons)

theorem np_optText : NP optText := by unfold optText; np_auto
theorem np_optTime : NP optTime := by unfold optTime; np_auto
theorem np_optUuid : NP optUuid := by unfold optUuid; np_auto
theorem np_optUsize : NP optUsize := by unfold optUsize; np_auto
theorem np_optIsize : NP optIsize := by unfold optIsize; np_auto
macro_rules | `(tactic| np_known) => `(tactic| exact np_optText)
macro_rules | `(tactic| np_known) => `(tactic| exact np_optTime)
macro_rules | `(tactic| np_known) => `(tactic| exact np_optUuid)
macro_rules | `(tactic| np_known) => `(tactic| exact np_optUsize)
macro_rules | `(tactic| np_known) => `(tactic| exact np_optIsize)

theorem np_metaDispatch (env : Env) : ∀ name acc p, metaDispatch env name acc = some p → NP p := by
  intro name acc p h
  unfold metaDispatch at h
  by_cases h0 : name = "Generator"
  · rw [if_pos h0] at h; have h' := Option.some.inj h; clear h; subst h'; exact NP.bind (np_optText) (fun _ => NP.pure _)
  rw [if_neg h0] at h
  by_cases h1 : name = "DatabaseName"
  · rw [if_pos h1] at h; have h' := Option.some.inj h; clear h; subst h'; exact NP.bind (np_optText) (fun _ => NP.pure _)
  rw [if_neg h1] at h
  by_cases h2 : name = "DatabaseNameChanged"
  · rw [if_pos h2] at h; have h' := Option.some.inj h; clear h; subst h'; exact NP.bind (np_optTime) (fun _ => NP.pure _)
  rw [if_neg h2] at h
  by_cases h3 : name = "DatabaseDescription"
  · rw [if_pos h3] at h; have h' := Option.some.inj h; clear h; subst h'; exact NP.bind (np_optText) (fun _ => NP.pure _)
  rw [if_neg h3] at h
  by_cases h4 : name = "DatabaseDescriptionChanged"
  · rw [if_pos h4] at h; have h' := Option.some.inj h; clear h; subst h'; exact NP.bind (np_optTime) (fun _ => NP.pure _)
  rw [if_neg h4] at h
  by_cases h5 : name = "DefaultUserName"
  · rw [if_pos h5] at h; have h' := Option.some.inj h; clear h; subst h'; exact NP.bind (np_optText) (fun _ => NP.pure _)
  rw [if_neg h5] at h
  by_cases h6 : name = "DefaultUserNameChanged"
  · rw [if_pos h6] at h; have h' := Option.some.inj h; clear h; subst h'; exact NP.bind (np_optTime) (fun _ => NP.pure _)
  rw [if_neg h6] at h
  by_cases h7 : name = "MaintenanceHistoryDays"
  · rw [if_pos h7] at h; have h' := Option.some.inj h; clear h; subst h'; exact NP.bind (np_optUsize) (fun _ => NP.pure _)
  rw [if_neg h7] at h
  by_cases h8 : name = "Color"
  · rw [if_pos h8] at h; have h' := Option.some.inj h; clear h; subst h'; exact NP.bind (np_tagOpt _) (fun _ => NP.pure _)
  rw [if_neg h8] at h
  by_cases h9 : name = "MasterKeyChanged"
  · rw [if_pos h9] at h; have h' := Option.some.inj h; clear h; subst h'; exact NP.bind (np_optTime) (fun _ => NP.pure _)
  rw [if_neg h9] at h
  by_cases h10 : name = "MasterKeyChangeRec"
  · rw [if_pos h10] at h; have h' := Option.some.inj h; clear h; subst h'; exact NP.bind (np_optIsize) (fun _ => NP.pure _)
  rw [if_neg h10] at h
  by_cases h11 : name = "MasterKeyChangeForce"
  · rw [if_pos h11] at h; have h' := Option.some.inj h; clear h; subst h'; exact NP.bind (np_optIsize) (fun _ => NP.pure _)
  rw [if_neg h11] at h
  by_cases h12 : name = "MemoryProtection"
  · rw [if_pos h12] at h; have h' := Option.some.inj h; clear h; subst h'; exact NP.bind (np_parseMemoryProtection) (fun _ => NP.pure _)
  rw [if_neg h12] at h
  by_cases h13 : name = "CustomIcons"
  · rw [if_pos h13] at h; have h' := Option.some.inj h; clear h; subst h'; exact NP.bind (np_parseCustomIcons) (fun _ => NP.pure _)
  rw [if_neg h13] at h
  by_cases h14 : name = "RecycleBinEnabled"
  · rw [if_pos h14] at h; have h' := Option.some.inj h; clear h; subst h'; exact NP.bind (np_tagOpt _) (fun _ => NP.pure _)
  rw [if_neg h14] at h
  by_cases h15 : name = "RecycleBinUUID"
  · rw [if_pos h15] at h; have h' := Option.some.inj h; clear h; subst h'; exact NP.bind (np_optUuid) (fun _ => NP.pure _)
  rw [if_neg h15] at h
  by_cases h16 : name = "RecycleBinChanged"
  · rw [if_pos h16] at h; have h' := Option.some.inj h; clear h; subst h'; exact NP.bind (np_optTime) (fun _ => NP.pure _)
  rw [if_neg h16] at h
  by_cases h17 : name = "EntryTemplatesGroup"
  · rw [if_pos h17] at h; have h' := Option.some.inj h; clear h; subst h'; exact NP.bind (np_optUuid) (fun _ => NP.pure _)
  rw [if_neg h17] at h
  by_cases h18 : name = "EntryTemplatesGroupChanged"
  · rw [if_pos h18] at h; have h' := Option.some.inj h; clear h; subst h'; exact NP.bind (np_optTime) (fun _ => NP.pure _)
  rw [if_neg h18] at h
  by_cases h19 : name = "LastSelectedGroup"
  · rw [if_pos h19] at h; have h' := Option.some.inj h; clear h; subst h'; exact NP.bind (np_optUuid) (fun _ => NP.pure _)
  rw [if_neg h19] at h
  by_cases h20 : name = "LastTopVisibleGroup"
  · rw [if_pos h20] at h; have h' := Option.some.inj h; clear h; subst h'; exact NP.bind (np_optUuid) (fun _ => NP.pure _)
  rw [if_neg h20] at h
  by_cases h21 : name = "HistoryMaxItems"
  · rw [if_pos h21] at h; have h' := Option.some.inj h; clear h; subst h'; exact NP.bind (np_optUsize) (fun _ => NP.pure _)
  rw [if_neg h21] at h
  by_cases h22 : name = "HistoryMaxSize"
  · rw [if_pos h22] at h; have h' := Option.some.inj h; clear h; subst h'; exact NP.bind (np_optUsize) (fun _ => NP.pure _)
  rw [if_neg h22] at h
  by_cases h23 : name = "SettingsChanged"
  · rw [if_pos h23] at h; have h' := Option.some.inj h; clear h; subst h'; exact NP.bind (np_optTime) (fun _ => NP.pure _)
  rw [if_neg h23] at h
  by_cases h24 : name = "Binaries"
  · rw [if_pos h24] at h; have h' := Option.some.inj h; clear h; subst h'; exact NP.bind (np_parseBinaries _) (fun _ => NP.pure _)
  rw [if_neg h24] at h
  by_cases h25 : name = "CustomData"
  · rw [if_pos h25] at h; have h' := Option.some.inj h; clear h; subst h'; exact NP.bind (np_parseCustomData _) (fun _ => NP.pure _)
  rw [if_neg h25] at h
  cases h

theorem np_parseMeta (env : Env) : NP (parseMeta env) := by
  rw [parseMeta_eq]
  apply NP.bind (np_expectStart _); intro _
  apply NP.bind np_fuelOf; intro fuel
  exact np_structLoop _ _ _ (np_metaDispatch env) np_skipUnknown fuel _
macro_rules | `(tactic| np_known) => `(tactic| exact np_parseMeta _)

theorem np_parseRoot (env : Env) : NP (parseRoot env) := by
  unfold parseRoot; np_struct_parser
macro_rules | `(tactic| np_known) => `(tactic| exact np_parseRoot _)

theorem np_parseKeePassFile (env : Env) : NP (parseKeePassFile env) := by
  unfold parseKeePassFile; np_struct_parser

/-- the XML object-model reader never panics, whatever the event stream -/
theorem parseContent_no_panic (env : Env) (evs : List Ev) (site : String) : parseContent env evs ≠ .panic site := by
  unfold parseContent
  intro h
  split at h
  · cases h
  · cases h
  · rename_i p hp
    exact (np_parseKeePassFile env).np _ _ hp


end Kp.Xml
