import KpModel.Xml.Model
import KpModel.Codec.Time
/-
Model of `src/xml_db/dump/{mod,entry,group,meta}.rs`: the writer events of the `DumpXml` impls, and the
contract of the xml-rs writer → reader pipeline (`view`): what event stream the reader delivers for a
written event stream.

State threaded through the document: the inner-stream cursor and the stream of `HashMap` iteration orders
(one per map that is written, in document order) — a parameter: the theorems hold for every order.
-/
namespace Kp.Xml
open Kp.Fmt Kp.Codec

inductive WEv where
  | start (name : String) (attrs : List (String × String))
  | stop
  | chars (s : String)
  deriving DecidableEq, Repr, Inhabited

structure DEnv where
  ks : Nat → Nat → Bytes
  gzip : Bytes → Bytes

structure DSt where
  off : Nat
  orders : List (List String)     -- iteration orders of the maps still to be written
  out : List WEv
  deriving Repr

abbrev D := StateM DSt

def emit (e : WEv) : D Unit := modify fun s => { s with out := s.out ++ [e] }

/-- `SimpleTag(name, text)`: an empty string writes no characters (`normalize_empty_elements`) -/
def tagText (name : String) (s : String) : D Unit := do
  emit (.start name [])
  if !s.isEmpty then emit (.chars s)
  emit .stop

/-- `SimpleTag(name, v)` for non-string values: characters are always written -/
def tagRaw (name : String) (s : String) : D Unit := do
  emit (.start name [])
  emit (.chars s)
  emit .stop

def boolText (b : Bool) : String := if b then "True" else "False"
def hex2 (n : Nat) : String :=
  let d := fun (k : Nat) => if k < 10 then Char.ofNat (48 + k) else Char.ofNat (87 + k)
  String.ofList [d (n / 16 % 16), d (n % 16)]
/-- `Color::to_string` (after the repair of F6) -/
def colorText (c : Color) : String := "#" ++ hex2 c.r ++ hex2 c.g ++ hex2 c.b
def b64Text (b : Bytes) : String := String.ofList (b64Encode b)
def intText (i : Int) : String := if i < 0 then "-" ++ toString i.natAbs else toString i.toNat

def optTag {α : Type} (name : String) (f : α → String) (raw : Bool) : Option α → D Unit
  | none => pure ()
  | some v => if raw then tagRaw name (f v) else tagText name (f v)

/-- take the iteration order of the next map; entries not mentioned keep their relative order at the end -/
def orderMap {β : Type} (m : List (String × β)) : D (List (String × β)) := do
  let s ← get
  match s.orders with
  | [] => pure m
  | o :: rest =>
    set { s with orders := rest }
    let picked := o.filterMap fun k => (m.find? (·.1 == k))
    let others := m.filter fun p => !o.contains p.1
    pure (picked ++ others)

def xorB (a b : Bytes) : Bytes := List.zipWith (fun x y => x ^^^ y) a b

/-- `impl DumpXml for Value`; `none` = the `expect("utf-8")` panic for byte values that are not UTF-8
    (modelled by the caller: byte values are passed as decoded text or flagged) -/
def dumpValue (env : DEnv) (v : Value) (bytesAsText : Bytes → Option String) : D Bool := do
  match v with
  | .bytes b =>
    match bytesAsText b with
    | some s => tagText "Value" s; pure true
    | none => pure false
  | .unprotected s => tagText "Value" s; pure true
  | .prot p =>
    emit (.start "Value" [("Protected", "True")])
    let s ← get
    let ct := xorB p (env.ks s.off p.length)
    set { s with off := s.off + p.length }
    emit (.chars (b64Text ct))
    emit .stop
    pure true

def dumpTimes (t : Times) : D Unit := do
  emit (.start "Times" [])
  for (n, v) in ← orderMap t.times do
    tagRaw n (formatTimestamp v)
  tagRaw "Expires" (boolText t.expires)
  tagRaw "UsageCount" (toString t.usageCount)
  emit .stop

def dumpCustomData (env : DEnv) (u : Bytes → Option String) (cd : CustomData) : D Bool := do
  emit (.start "CustomData" [])
  let mut ok := true
  for (k, item) in ← orderMap cd do
    emit (.start "Item" [])
    tagText "Key" k
    match item.value with
    | some v => ok := (← dumpValue env v u) && ok
    | none => pure ()
    match item.lastModificationTime with
    | some t => tagRaw "LastModificationTime" (formatTimestamp t)
    | none => pure ()
    emit .stop
  emit .stop
  pure ok

def dumpAutoType (a : AutoType) : D Unit := do
  emit (.start "AutoType" [])
  tagRaw "Enabled" (boolText a.enabled)
  optTag "DefaultSequence" id false a.sequence
  for as in a.associations do
    emit (.start "Association" [])
    optTag "Window" id false as.window
    optTag "KeystrokeSequence" id false as.sequence
    emit .stop
  emit .stop

/-- `impl DumpXml for Entry` (fuel bounds the nesting through `History`) -/
def dumpEntry (env : DEnv) (u : Bytes → Option String) : Nat → Entry → D Bool
  | 0, _ => pure true
  | fuel + 1, .mk uuid fields autotype tags times cd iconId ciu fg bg ourl qc history => do
    emit (.start "Entry" [])
    tagRaw "UUID" (b64Text uuid)
    tagText "Tags" (";".intercalate tags)
    let mut ok := true
    for (k, v) in ← orderMap fields do
      emit (.start "String" [])
      tagText "Key" k
      ok := (← dumpValue env v u) && ok
      emit .stop
    ok := (← dumpCustomData env u cd) && ok
    match autotype with
    | some a => dumpAutoType a
    | none => pure ()
    dumpTimes times
    optTag "IconID" (fun (n : Nat) => toString n) true iconId
    optTag "CustomIconUUID" b64Text true ciu
    optTag "ForegroundColor" colorText true fg
    optTag "BackgroundColor" colorText true bg
    optTag "OverrideURL" id false ourl
    optTag "QualityCheck" boolText true qc
    match history with
    | some h =>
      emit (.start "History" [])
      for e in h do
        ok := (← dumpEntry env u fuel e) && ok
      emit .stop
    | none => pure ()
    emit .stop
    pure ok

mutual
  def entryDepth : Entry → Nat
    | .mk _ _ _ _ _ _ _ _ _ _ _ _ h => 1 + (match h with | some l => entryListDepth l | none => 0)
  def entryListDepth : List Entry → Nat
    | [] => 0
    | e :: es => max (entryDepth e) (entryListDepth es)
end

/-- `impl DumpXml for Group` -/
def dumpGroup (env : DEnv) (u : Bytes → Option String) : Nat → Node → D Bool
  | 0, _ => pure true
  | _ + 1, .entry e => dumpEntry env u (entryDepth e + 1) e
  | fuel + 1, .group uuid name notes iconId ciu children times cd isExp das ea es ltve => do
    emit (.start "Group" [])
    tagText "Name" name
    tagRaw "UUID" (b64Text uuid)
    optTag "Notes" id false notes
    optTag "IconID" (fun (n : Nat) => toString n) true iconId
    optTag "CustomIconUUID" b64Text true ciu
    dumpTimes times
    let mut ok ← dumpCustomData env u cd
    tagRaw "IsExpanded" (boolText isExp)
    optTag "DefaultAutoTypeSequence" id false das
    optTag "EnableAutoType" id false ea
    optTag "EnableSearching" id false es
    optTag "LastTopVisibleEntry" b64Text true ltve
    for c in children do
      ok := (← dumpGroup env u fuel c) && ok
    emit .stop
    pure ok

mutual
  def nodeDepth : Node → Nat
    | .group _ _ _ _ _ cs _ _ _ _ _ _ _ => 1 + nodeListDepth cs
    | .entry _ => 1
  def nodeListDepth : List Node → Nat
    | [] => 0
    | n :: ns => max (nodeDepth n) (nodeListDepth ns)
end

def dumpMeta (env : DEnv) (u : Bytes → Option String) (m : Meta) : D Bool := do
  emit (.start "Meta" [])
  optTag "Generator" id false m.generator
  optTag "DatabaseName" id false m.databaseName
  optTag "DatabaseNameChanged" formatTimestamp true m.databaseNameChanged
  optTag "DatabaseDescription" id false m.databaseDescription
  optTag "DatabaseDescriptionChanged" formatTimestamp true m.databaseDescriptionChanged
  optTag "DefaultUserName" id false m.defaultUsername
  optTag "DefaultUserNameChanged" formatTimestamp true m.defaultUsernameChanged
  optTag "MaintenanceHistoryDays" (fun (n : Nat) => toString n) true m.maintenanceHistoryDays
  optTag "Color" colorText true m.color
  optTag "MasterKeyChanged" formatTimestamp true m.masterKeyChanged
  optTag "MasterKeyChangeRec" intText true m.masterKeyChangeRec
  optTag "MasterKeyChangeForce" intText true m.masterKeyChangeForce
  match m.memoryProtection with
  | some p =>
    emit (.start "MemoryProtection" [])
    tagRaw "ProtectTitle" (boolText p.title)
    tagRaw "ProtectUserName" (boolText p.username)
    tagRaw "ProtectPassword" (boolText p.password)
    tagRaw "ProtectURL" (boolText p.url)
    tagRaw "ProtectNotes" (boolText p.notes)
    emit .stop
  | none => pure ()
  emit (.start "CustomIcons" [])
  for (uuid, data) in m.customIcons do
    emit (.start "Icon" [])
    tagRaw "UUID" (b64Text uuid)
    tagText "Data" (b64Text data)
    emit .stop
  emit .stop
  optTag "RecycleBinEnabled" boolText true m.recyclebinEnabled
  optTag "RecycleBinUUID" b64Text true m.recyclebinUuid
  optTag "RecycleBinChanged" formatTimestamp true m.recyclebinChanged
  optTag "EntryTemplatesGroup" b64Text true m.entryTemplatesGroup
  optTag "EntryTemplatesGroupChanged" formatTimestamp true m.entryTemplatesGroupChanged
  optTag "LastSelectedGroup" b64Text true m.lastSelectedGroup
  optTag "LastTopVisibleGroup" b64Text true m.lastTopVisibleGroup
  optTag "HistoryMaxItems" (fun (n : Nat) => toString n) true m.historyMaxItems
  optTag "HistoryMaxSize" (fun (n : Nat) => toString n) true m.historyMaxSize
  optTag "SettingsChanged" formatTimestamp true m.settingsChanged
  emit (.start "Binaries" [])
  for b in m.binaries do
    let attrs := (match b.identifier with | some i => [("ID", i)] | none => [])
      ++ (if b.compressed then [("Compressed", "True")] else [])
    emit (.start "Binary" attrs)
    emit (.chars (b64Text (if b.compressed then env.gzip b.content else b.content)))
    emit .stop
  emit .stop
  let ok ← dumpCustomData env u m.customData
  emit .stop
  pure ok

/-- `impl DumpXml for Database`: the writer events of the whole document; the flag is false when a byte value
    that is not UTF-8 would have made `save` panic -/
def dumpContent (env : DEnv) (u : Bytes → Option String) (orders : List (List String)) (c : Content) :
    List WEv × Bool × Nat :=
  let act : D Bool := do
    emit (.start "KeePassFile" [])
    let ok1 ← dumpMeta env u c.metaData
    emit (.start "Root" [])
    let ok2 ← dumpGroup env u (nodeDepth c.root + 1) c.root
    emit (.start "DeletedObjects" [])
    for (uuid, t) in c.deletedObjects do
      emit (.start "DeletedObject" [])
      tagRaw "UUID" (b64Text uuid)
      tagRaw "DeletionTime" (formatTimestamp t)
      emit .stop
    emit .stop
    emit .stop
    emit .stop
    pure (ok1 && ok2)
  let (ok, s) := act.run ⟨0, orders, []⟩
  (s.out, ok, s.off)

/-! ### the xml-rs contract -/

/-- characters the reader rejects (not XML 1.0 `Char`; established by probing xml-rs 0.8) -/
def invalidXmlChar (c : Char) : Bool :=
  let n := c.toNat
  n < 9 || n == 11 || n == 12 || (14 ≤ n && n < 32) || n == 0xFFFE || n == 0xFFFF

/-- element names the reader accepts (XML `Name`, approximated: ASCII letters, `_`, non-ASCII letters first; then also
    digits, `-`, `.`; a colon would be read as a namespace prefix and is excluded) -/
def validXmlName (s : String) : Bool :=
  match s.toList with
  | [] => false
  | c :: cs =>
    let startOk := fun (c : Char) => c.isAlpha || c == '_' || (c.toNat ≥ 0xC0 && c.toNat != 0xD7 && c.toNat != 0xF7 && !invalidXmlChar c)
    let restOk := fun (c : Char) => startOk c || c.isDigit || c == '-' || c == '.' || c.toNat == 0xB7
    startOk c && cs.all restOk

def isXmlWs (c : Char) : Bool := c == ' ' || c == '\t' || c == '\n' || c == '\r'

/-- what the reader (after the filter in `parse_from_bytes`) delivers for what was written -/
def view : List WEv → List String → List Ev
  | [], _ => []
  | .start n attrs :: rest, stack =>
    if !validXmlName n || attrs.any (fun a => a.2.toList.any invalidXmlChar) then [.err]
    else .start n attrs :: view rest (n :: stack)
  | .stop :: rest, stack =>
    match stack with
    | n :: st => .stop n :: view rest st
    | [] => [.err]
  | .chars s :: rest, stack =>
    if s.toList.any invalidXmlChar then [.err]
    else if s.toList.all isXmlWs then view rest stack          -- empty or white space only: no `Characters` event
    else .chars s :: view rest stack

end Kp.Xml
