import KpModel.Format.Kdbx4
/-! Helper lemmas for the container theorems (C01, C03, C04, C05, C07, C09): TLV steps, variant dictionary
round trip, header parse of every conforming field order, block stream round trip. -/
namespace Kp.Fmt

theorem le16_toLe16 (n : Nat) (h : n < 65536) (rest : Bytes) : le16 (toLe16 n ++ rest) = n := by
  simp only [le16, toLe16, List.cons_append, List.nil_append, List.getD_cons_zero, List.getD_cons_succ]
  simp only [UInt8.toNat_ofNat']
  omega

theorem le32_drop4 (n : Nat) (rest : Bytes) : (toLe32 n ++ rest).drop 4 = rest := by
  simp [toLe32]

theorem le64_toLe64 (n : Nat) (h : n < 18446744073709551616) (rest : Bytes) : le64 (toLe64 n ++ rest) = n := by
  unfold le64 toLe64
  rw [List.append_assoc, le32_toLe32 _ (Nat.mod_lt _ (by decide)), List.drop_append_of_le_length (by simp)]
  simp only [toLe32_length, List.drop_of_length_le (l := toLe32 (n % 4294967296)) (i := 4) (by simp),
    List.nil_append]
  rw [le32_toLe32 _ (by omega)]
  omega

/-! ### TLV steps -/

theorem tlv_length (t : UInt8) (v : Bytes) : (tlv t v).length = 5 + v.length := by
  simp [tlv]; omega

theorem outerLoop_step (fuel : Nat) (t : UInt8) (v rest : Bytes) (n : Nat) (acc : OuterAcc)
    (hv : v.length < 4294967296) :
    outerLoop (fuel + 1) (tlv t v ++ rest) n acc =
      match outerField acc t v with
      | .ok none => .ok (acc, n + 5 + v.length)
      | .ok (some acc') => outerLoop fuel rest (n + 5 + v.length) acc'
      | .err c => .err c
      | .panic s => .panic s := by
  have e : tlv t v ++ rest = t :: (toLe32 v.length ++ (v ++ rest)) := by simp [tlv]
  rw [e, outerLoop]
  have h1 : ¬ ((toLe32 v.length ++ (v ++ rest)).length < 4) := by simp
  simp only [h1, ↓reduceIte, le32_toLe32 _ hv, le32_drop4]
  have h2 : ¬ ((v ++ rest).length < v.length) := by simp
  simp only [h2, ↓reduceIte, List.take_left', List.drop_left']
  cases outerField acc t v with
  | ok o => cases o <;> rfl
  | err c => rfl
  | panic s => rfl

theorem innerLoop_step (fuel : Nat) (t : UInt8) (v rest : Bytes) (n : Nat) (acc : InnerAcc)
    (hv : v.length < 4294967296) :
    innerLoop (fuel + 1) (tlv t v ++ rest) n acc =
      match innerField acc t v with
      | .ok none => .ok (acc, n + 5 + v.length)
      | .ok (some acc') => innerLoop fuel rest (n + 5 + v.length) acc'
      | .err c => .err c
      | .panic s => .panic s := by
  have e : tlv t v ++ rest = t :: (toLe32 v.length ++ (v ++ rest)) := by simp [tlv]
  rw [e, innerLoop]
  have h1 : ¬ ((toLe32 v.length ++ (v ++ rest)).length < 4) := by simp
  simp only [h1, ↓reduceIte, le32_toLe32 _ hv, le32_drop4]
  have h2 : ¬ ((v ++ rest).length < v.length) := by simp
  simp only [h2, ↓reduceIte, List.take_left', List.drop_left']
  cases innerField acc t v with
  | ok o => cases o <;> rfl
  | err c => rfl
  | panic s => rfl

/-- what the theorems assume about the primitives (dependency contracts; never axioms) -/
structure Prims.Laws (P : Prims) : Prop where
  sha256_len : ∀ x, (P.sha256 x).length = 32
  hmac_len : ∀ k x, (P.hmac256 k x).length = 32
  dec_enc : ∀ c k iv m ct, P.encO c k iv m = some ct → P.decO c k iv ct = some m
  gunzip_gzip : ∀ m, P.gunzip (P.gzip m) = some m

/-! ### HMAC block stream -/

theorem readBlocks_block (P : Prims) (L : P.Laws) (hk : Bytes) (fuel i : Nat) (b rest out : Bytes)
    (hb : b ≠ []) (hl : b.length < 4294967296) :
    readBlocks P hk (fuel + 1) (blockBytes P hk i b ++ rest) i out
      = readBlocks P hk fuel rest (i + 1) (out ++ b) := by
  have hmac : (blockMac P hk i (toLe32 b.length) b).length = 32 := L.hmac_len _ _
  rw [readBlocks]
  have e : blockBytes P hk i b ++ rest = blockMac P hk i (toLe32 b.length) b ++ (toLe32 b.length ++ (b ++ rest)) := by
    simp [blockBytes]
  rw [e]
  have hne : blockMac P hk i (toLe32 b.length) b ++ (toLe32 b.length ++ (b ++ rest)) ≠ [] := by
    intro h
    have := congrArg List.length h
    simp [hmac] at this
  simp only [hne, ↓reduceIte]
  have h32 : ¬ ((blockMac P hk i (toLe32 b.length) b ++ (toLe32 b.length ++ (b ++ rest))).length < 32) := by
    simp [hmac]
  simp only [h32, ↓reduceIte]
  rw [List.take_left' hmac, List.drop_left' hmac]
  have h4 : ¬ ((toLe32 b.length ++ (b ++ rest)).length < 4) := by simp
  simp only [h4, ↓reduceIte]
  rw [List.take_left' (toLe32_length _), List.drop_left' (toLe32_length _)]
  have hle : le32 (toLe32 b.length) = b.length := by
    have := le32_toLe32 b.length hl []
    simpa using this
  rw [hle]
  have hlen : ¬ ((b ++ rest).length < b.length) := by simp
  simp only [hlen, ↓reduceIte, List.take_left', List.drop_left']
  have hz : b.length ≠ 0 := by
    intro h; exact hb (List.eq_nil_of_length_eq_zero h)
  simp [hz]

theorem readBlocks_term (P : Prims) (L : P.Laws) (hk : Bytes) (fuel i : Nat) (rest out : Bytes) :
    readBlocks P hk (fuel + 1) (blockBytes P hk i [] ++ rest) i out = .ok out := by
  have hmac : (blockMac P hk i (toLe32 0) []).length = 32 := L.hmac_len _ _
  rw [readBlocks]
  have e : blockBytes P hk i [] ++ rest = blockMac P hk i (toLe32 0) [] ++ (toLe32 0 ++ rest) := by
    simp [blockBytes]
  rw [e]
  have hne : blockMac P hk i (toLe32 0) [] ++ (toLe32 0 ++ rest) ≠ [] := by
    intro h
    have := congrArg List.length h
    simp [hmac] at this
  simp only [hne, ↓reduceIte]
  have h32 : ¬ ((blockMac P hk i (toLe32 0) [] ++ (toLe32 0 ++ rest)).length < 32) := by simp [hmac]
  simp only [h32, ↓reduceIte]
  rw [List.take_left' hmac, List.drop_left' hmac]
  have h4 : ¬ ((toLe32 0 ++ rest).length < 4) := by simp
  simp only [h4, ↓reduceIte]
  rw [List.take_left' (toLe32_length _), List.drop_left' (toLe32_length _)]
  have hle : le32 (toLe32 0) = 0 := by decide
  rw [hle]
  simp

/-- every partition of the data into non-empty blocks (each below 4 GiB), with consecutive indices and the
    empty terminator, reads back as the data — whatever follows the terminator -/
theorem readBlocks_write (P : Prims) (L : P.Laws) (hk : Bytes) (parts : List Bytes)
    (hp : ∀ b ∈ parts, b ≠ [] ∧ b.length < 4294967296) :
    ∀ (fuel i : Nat) (rest out : Bytes), parts.length + 1 ≤ fuel →
      readBlocks P hk fuel (writeBlocksFrom P hk i parts ++ rest) i out = .ok (out ++ parts.flatten) := by
  induction parts with
  | nil =>
    intro fuel i rest out hf
    obtain ⟨f, rfl⟩ : ∃ f, fuel = f + 1 := ⟨fuel - 1, by omega⟩
    simp only [writeBlocksFrom, List.flatten_nil, List.append_nil]
    exact readBlocks_term P L hk f i rest out
  | cons b bs ih =>
    intro fuel i rest out hf
    obtain ⟨f, rfl⟩ : ∃ f, fuel = f + 1 := ⟨fuel - 1, by simp at hf; omega⟩
    simp only [writeBlocksFrom, List.append_assoc]
    have hb := hp b (List.mem_cons_self ..)
    rw [readBlocks_block P L hk f i b _ out hb.1 hb.2]
    rw [ih (fun x hx => hp x (List.mem_cons_of_mem _ hx)) f (i + 1) rest (out ++ b) (by simp at hf; omega)]
    simp [List.append_assoc]

/-! ### variant dictionary -/

/-- the value a reader obtains for a dictionary entry of type `ty` with payload `v` -/
def entryVal (ty : UInt8) (v : Bytes) : Option VdVal :=
  if ty = 0x42 then some (.bytes v)
  else if ty = 0x05 then (if v.length < 8 then none else some (.u64 (le64 v)))
  else if ty = 0x04 then (if v.length < 4 then none else some (.u32 (le32 v)))
  else none

theorem vdLoop_entry (fuel : Nat) (ty : UInt8) (k v rest : Bytes) (d : VarDict) (val : VdVal)
    (hk : k.length < 4294967296) (hv : v.length < 4294967296) (hr : rest ≠ [])
    (hval : entryVal ty v = some val) :
    vdLoop (fuel + 1) (vdEntryBytes ty k v ++ rest) d = vdLoop fuel rest (vdInsert d k val) := by
  have hrl : 1 ≤ rest.length := by
    cases rest with
    | nil => exact absurd rfl hr
    | cons x xs => simp
  have e : vdEntryBytes ty k v ++ rest = ty :: (toLe32 k.length ++ (k ++ (toLe32 v.length ++ (v ++ rest)))) := by
    simp [vdEntryBytes]
  rw [e, vdLoop]
  have hlen : ¬ ((ty :: (toLe32 k.length ++ (k ++ (toLe32 v.length ++ (v ++ rest))))).length ≤ 9) := by
    simp; omega
  simp only [hlen, ↓reduceIte, le32_toLe32 _ hk, le32_drop4]
  have h2 : ¬ ((k ++ (toLe32 v.length ++ (v ++ rest))).length < k.length) := by simp
  simp only [h2, ↓reduceIte, List.take_left', List.drop_left']
  have h3 : ¬ ((toLe32 v.length ++ (v ++ rest)).length < 4) := by simp
  simp only [h3, ↓reduceIte, le32_toLe32 _ hv, le32_drop4]
  have h4 : ¬ ((v ++ rest).length < v.length) := by simp
  simp only [h4, ↓reduceIte, List.take_left', List.drop_left']
  unfold entryVal at hval
  unfold vdTyped
  by_cases t1 : ty = 0x42
  · subst t1
    simp only [↓reduceIte] at hval
    injection hval with hval; subst hval
    simp [bind, Outcome.bind]
  · simp only [t1, ↓reduceIte] at hval
    by_cases t2 : ty = 0x05
    · subst t2
      by_cases hl : v.length < 8
      · simp [hl] at hval
      · simp only [hl, ↓reduceIte] at hval
        injection hval with hval; subst hval
        simp [bind, Outcome.bind, readU64E, hl]
    · simp only [t2, ↓reduceIte] at hval
      by_cases t3 : ty = 0x04
      · subst t3
        by_cases hl : v.length < 4
        · simp [hl] at hval
        · simp only [hl, ↓reduceIte] at hval
          injection hval with hval; subst hval
          simp [bind, Outcome.bind, readU32E, hl]
      · simp [t3] at hval

/-- inserting a list of decoded entries, in order -/
def insertAll (d : VarDict) : List (UInt8 × Bytes × Bytes) → VarDict
  | [] => d
  | e :: es =>
    match entryVal e.1 e.2.2 with
    | some val => insertAll (vdInsert d e.2.1 val) es
    | none => insertAll d es

theorem vdLoop_entries (ents : List (UInt8 × Bytes × Bytes))
    (hok : ∀ e ∈ ents, e.2.1.length < 4294967296 ∧ e.2.2.length < 4294967296 ∧ (entryVal e.1 e.2.2).isSome) :
    ∀ (fuel : Nat) (d : VarDict), ents.length ≤ fuel →
      vdLoop fuel ((ents.flatMap fun e => vdEntryBytes e.1 e.2.1 e.2.2) ++ [0]) d = .ok (insertAll d ents, [0]) := by
  induction ents with
  | nil =>
    intro fuel d _
    cases fuel with
    | zero => simp [vdLoop, insertAll]
    | succ f => simp [vdLoop, insertAll]
  | cons e es ih =>
    intro fuel d hf
    obtain ⟨f, rfl⟩ : ∃ f, fuel = f + 1 := ⟨fuel - 1, by simp at hf; omega⟩
    have he := hok e (List.mem_cons_self ..)
    obtain ⟨val, hval⟩ := Option.isSome_iff_exists.mp he.2.2
    simp only [List.flatMap_cons, List.append_assoc]
    rw [vdLoop_entry f e.1 e.2.1 e.2.2 _ d val he.1 he.2.1 (by simp) hval]
    rw [ih (fun x hx => hok x (List.mem_cons_of_mem _ hx)) f _ (by simp at hf; omega)]
    simp [insertAll, hval]

theorem entries_len_le (ents : List (UInt8 × Bytes × Bytes)) :
    ents.length ≤ (ents.flatMap fun e => vdEntryBytes e.1 e.2.1 e.2.2).length := by
  induction ents with
  | nil => simp
  | cons e es ih =>
    simp only [List.flatMap_cons, List.length_append, List.length_cons]
    have : 1 ≤ (vdEntryBytes e.1 e.2.1 e.2.2).length := by simp [vdEntryBytes]
    omega

theorem vdParse_vdDump (ents : List (UInt8 × Bytes × Bytes))
    (hok : ∀ e ∈ ents, e.2.1.length < 4294967296 ∧ e.2.2.length < 4294967296 ∧ (entryVal e.1 e.2.2).isSome) :
    vdParse (vdDump ents) = .ok (insertAll [] ents) := by
  unfold vdParse vdDump
  generalize hbody : (ents.flatMap fun (e : UInt8 × Bytes × Bytes) => vdEntryBytes e.1 e.2.1 e.2.2) = body
  have h1 : ¬ ((toLe16 0x100 ++ body ++ [0]).length < 2) := by
    simp [toLe16]
  simp only [h1, ↓reduceIte]
  have h2 : le16 (toLe16 0x100 ++ body ++ [0]) = 0x100 := by
    rw [List.append_assoc]; exact le16_toLe16 _ (by decide) _
  simp only [h2, bne_self_eq_false, Bool.false_eq_true, ↓reduceIte]
  have h3 : (toLe16 0x100 ++ body ++ [0]).drop 2 = body ++ [0] := by
    simp [toLe16]
  have hfuel : ents.length ≤ (toLe16 0x100 ++ body ++ [0]).length := by
    have := entries_len_le ents
    rw [hbody] at this
    simp [toLe16]; omega
  rw [h3, ← hbody, vdLoop_entries ents hok _ [] (by rw [hbody]; exact hfuel)]
  simp

theorem vdGet_vdInsert (d : VarDict) (k k' : Bytes) (v : VdVal) :
    vdGet (vdInsert d k v) k' = if k' = k then some v else vdGet d k' := by
  unfold vdGet vdInsert
  rw [List.find?_append]
  by_cases h : k' = k
  · subst h
    have : (d.filter (fun p => p.1 != k')).find? (fun p => p.1 == k') = none := by
      rw [List.find?_eq_none]
      intro x hx
      have := (List.mem_filter.mp hx).2
      simp at this ⊢
      exact this
    simp [this]
  · simp only [h, ↓reduceIte]
    have hf : (d.filter (fun p => p.1 != k)).find? (fun p => p.1 == k') = d.find? (fun p => p.1 == k') := by
      rw [List.find?_filter]
      congr 1
      funext p
      by_cases hp : p.1 = k'
      · simp [hp, h]
      · simp [hp]
    rw [hf]
    cases d.find? (fun p => p.1 == k') with
    | some x => simp
    | none =>
      have : ¬ (k = k') := fun e => h e.symm
      simp [this]

/-- after inserting a list of entries, a key yields the value of its *last* occurrence -/
theorem vdGet_insertAll (ents : List (UInt8 × Bytes × Bytes)) (hdec : ∀ e ∈ ents, (entryVal e.1 e.2.2).isSome) :
    ∀ (d : VarDict) (k : Bytes),
      vdGet (insertAll d ents) k =
        match ents.reverse.find? (fun e => e.2.1 == k) with
        | some e => entryVal e.1 e.2.2
        | none => vdGet d k := by
  induction ents with
  | nil => intro d k; simp [insertAll]
  | cons e es ih =>
    intro d k
    obtain ⟨val, hval⟩ := Option.isSome_iff_exists.mp (hdec e (List.mem_cons_self ..))
    simp only [insertAll, hval]
    rw [ih (fun x hx => hdec x (List.mem_cons_of_mem _ hx))]
    simp only [List.reverse_cons, List.find?_append]
    cases hf : es.reverse.find? (fun e => e.2.1 == k) with
    | some x => simp
    | none =>
      simp only [Option.none_or, List.find?_cons, List.find?_nil]
      rw [vdGet_vdInsert]
      by_cases hk : e.2.1 = k
      · simp [hk, hval]
      · have : ¬ (k = e.2.1) := fun h => hk h.symm
        have hb : (e.2.1 == k) = false := by simp [hk]
        simp [this, hb]

/-- in any permutation of a list of entries with pairwise distinct keys, a key yields its entry's value -/
theorem vdGet_perm (ents pe : List (UInt8 × Bytes × Bytes)) (hperm : pe.Perm ents)
    (hdec : ∀ e ∈ ents, (entryVal e.1 e.2.2).isSome)
    (huniq : ∀ e1 ∈ ents, ∀ e2 ∈ ents, e1.2.1 = e2.2.1 → e1 = e2)
    (e : UInt8 × Bytes × Bytes) (he : e ∈ ents) :
    vdGet (insertAll [] pe) e.2.1 = entryVal e.1 e.2.2 := by
  have hdec' : ∀ x ∈ pe, (entryVal x.1 x.2.2).isSome := fun x hx => hdec x (hperm.mem_iff.mp hx)
  rw [vdGet_insertAll pe hdec']
  cases hf : pe.reverse.find? (fun x => x.2.1 == e.2.1) with
  | none =>
    have := List.find?_eq_none.mp hf e (by simp; exact hperm.mem_iff.mpr he)
    simp at this
  | some x =>
    have hx := List.mem_of_find?_eq_some hf
    have hxk := List.find?_some hf
    simp at hx hxk
    have := huniq x (hperm.mem_iff.mp hx) e he hxk
    simp [this]

theorem kdfEntries_uniq (c : KdfConfig) (seed : Bytes) :
    ∀ e1 ∈ kdfVdEntries c seed, ∀ e2 ∈ kdfVdEntries c seed, e1.2.1 = e2.2.1 → e1 = e2 := by
  intro e1 h1 e2 h2 hk
  cases c with
  | aes rounds =>
    simp only [kdfVdEntries, List.mem_cons, List.mem_nil_iff, or_false] at h1 h2
    rcases h1 with rfl | rfl | rfl <;> rcases h2 with rfl | rfl | rfl <;>
      first | rfl | (simp [kUUID, kR, kS] at hk)
  | argon2 id iterations memory parallelism version =>
    simp only [kdfVdEntries, List.mem_cons, List.mem_nil_iff, or_false] at h1 h2
    rcases h1 with rfl | rfl | rfl | rfl | rfl | rfl <;> rcases h2 with rfl | rfl | rfl | rfl | rfl | rfl <;>
      first | rfl | (simp [kUUID, kM, kS, kI, kP, kV] at hk)

/-- KDF parameters a file can carry: widths of the integer fields, and a 4 GiB bound on the seed field -/
def kdfInRange (c : KdfConfig) (seed : Bytes) : Prop :=
  seed.length < 4294967296 ∧
  match c with
  | .aes rounds => rounds < 18446744073709551616
  | .argon2 _ iterations memory parallelism version =>
    iterations < 18446744073709551616 ∧ memory < 18446744073709551616 ∧ parallelism < 4294967296
      ∧ (version = 0x10 ∨ version = 0x13)

theorem le64_toLe64' (n : Nat) (h : n < 18446744073709551616) : le64 (toLe64 n) = n := by
  have := le64_toLe64 n h []; simpa using this
theorem le32_toLe32' (n : Nat) (h : n < 4294967296) : le32 (toLe32 n) = n := by
  have := le32_toLe32 n h []; simpa using this

theorem kdfEntries_ok (c : KdfConfig) (seed : Bytes) (hr : kdfInRange c seed) :
    ∀ e ∈ kdfVdEntries c seed, e.2.1.length < 4294967296 ∧ e.2.2.length < 4294967296 ∧ (entryVal e.1 e.2.2).isSome := by
  intro e he
  cases c with
  | aes rounds =>
    simp only [kdfVdEntries, List.mem_cons, List.mem_nil_iff, or_false] at he
    rcases he with rfl | rfl | rfl <;> simp [entryVal, kUUID, kR, kS, kdfAesKdbx4, hr.1]
  | argon2 id iterations memory parallelism version =>
    simp only [kdfVdEntries, List.mem_cons, List.mem_nil_iff, or_false] at he
    rcases he with rfl | rfl | rfl | rfl | rfl | rfl <;>
      simp [entryVal, kUUID, kM, kS, kI, kP, kV, hr.1] <;> (split <;> simp [kdfArgon2id, kdfArgon2d])

/-- the variant dictionary of the KDF parameters, written in any order, reads back as the parameters -/
theorem kdfOfVd_roundtrip (c : KdfConfig) (seed : Bytes) (hr : kdfInRange c seed)
    (pe : List (UInt8 × Bytes × Bytes)) (hperm : pe.Perm (kdfVdEntries c seed)) :
    kdfOfVd (insertAll [] pe) = some (c, seed) := by
  have hok := kdfEntries_ok c seed hr
  have hdec : ∀ e ∈ kdfVdEntries c seed, (entryVal e.1 e.2.2).isSome := fun e he => (hok e he).2.2
  have g := fun e he => vdGet_perm (kdfVdEntries c seed) pe hperm hdec (kdfEntries_uniq c seed) e he
  cases c with
  | aes rounds =>
    have g1 := g (0x42, kUUID, kdfAesKdbx4) (by simp [kdfVdEntries])
    have g2 := g (0x05, kR, toLe64 rounds) (by simp [kdfVdEntries])
    have g3 := g (0x42, kS, seed) (by simp [kdfVdEntries])
    simp only [entryVal] at g1 g2 g3
    simp at g1 g2 g3
    have hrr : rounds < 18446744073709551616 := hr.2
    unfold kdfOfVd
    simp only [vdBytes, vdU64, g1, g2, g3, le64_toLe64' rounds hrr, bind, Option.bind]
    have n1 : ¬ (kdfAesKdbx4 = kdfArgon2id ∨ kdfAesKdbx4 = kdfArgon2d) := by decide
    simp [n1]
  | argon2 id iterations memory parallelism version =>
    obtain ⟨_, hi, hm, hp, hv⟩ := hr
    have g1 := g (0x42, kUUID, if id then kdfArgon2id else kdfArgon2d) (by simp [kdfVdEntries])
    have g2 := g (0x05, kM, toLe64 memory) (by simp [kdfVdEntries])
    have g3 := g (0x42, kS, seed) (by simp [kdfVdEntries])
    have g4 := g (0x05, kI, toLe64 iterations) (by simp [kdfVdEntries])
    have g5 := g (0x04, kP, toLe32 parallelism) (by simp [kdfVdEntries])
    have g6 := g (0x04, kV, toLe32 version) (by simp [kdfVdEntries])
    simp only [entryVal] at g1 g2 g3 g4 g5 g6
    simp at g1 g2 g3 g4 g5 g6
    have hvr : version < 4294967296 := by rcases hv with h | h <;> subst h <;> decide
    unfold kdfOfVd
    simp only [vdBytes, vdU64, vdU32, g1, g2, g3, g4, g5, g6, le64_toLe64' _ hi, le64_toLe64' _ hm,
      le32_toLe32' _ hp, le32_toLe32' _ hvr, bind, Option.bind]
    cases id with
    | true =>
      simp only [↓reduceIte, true_or, hv]
      simp
    | false =>
      have n1 : ¬ (kdfArgon2d = kdfArgon2id) := by decide
      simp only [Bool.false_eq_true, ↓reduceIte, n1, false_or, hv]
      simp [n1]

/-! ### outer header: every field order -/

theorem cipherOfUuid_cipherUuid (c : OuterCipher) : cipherOfUuid (cipherUuid c) = some c := by
  cases c <;> decide

/-- the effect of one header field on the reader's accumulator -/
def applyOField (c : Config) (t : Tape) (acc : OuterAcc) : OField → OuterAcc
  | .comment _ => acc
  | .cipher => { acc with cipher := some c.outer }
  | .compression => { acc with compression := some c.compression }
  | .masterSeed => { acc with masterSeed := some t.masterSeed }
  | .iv => { acc with iv := some t.iv }
  | .kdf => { acc with kdf := some (c.kdf, t.kdfSeed) }

def oFieldOk : OField → Prop
  | .comment b => b.length < 4294967296
  | _ => True

structure HeaderOk (c : Config) (t : Tape) (l : Layout) : Prop where
  minor : c.minor < 65536
  seed : t.masterSeed.length < 4294967296
  iv : t.iv.length < 4294967296
  kdf : kdfInRange c.kdf t.kdfSeed
  perm : (l.vdOrder (kdfVdEntries c.kdf t.kdfSeed)).Perm (kdfVdEntries c.kdf t.kdfSeed)
  fields : ∀ f ∈ l.outerOrder, oFieldOk f
  endp : l.endPayload.length < 4294967296
  vdLen : (vdDump (l.vdOrder (kdfVdEntries c.kdf t.kdfSeed))).length < 4294967296
  all : OField.cipher ∈ l.outerOrder ∧ OField.compression ∈ l.outerOrder ∧ OField.masterSeed ∈ l.outerOrder
        ∧ OField.iv ∈ l.outerOrder ∧ OField.kdf ∈ l.outerOrder

theorem outerField_of (c : Config) (t : Tape) (l : Layout) (H : HeaderOk c t l) (acc : OuterAcc) (f : OField)
    (hf : oFieldOk f) :
    ∃ ty v, oFieldBytes c t (vdDump (l.vdOrder (kdfVdEntries c.kdf t.kdfSeed))) f = tlv ty v
      ∧ v.length < 4294967296 ∧ outerField acc ty v = .ok (some (applyOField c t acc f)) := by
  cases f with
  | comment b => exact ⟨1, b, rfl, hf, by simp [outerField, applyOField]⟩
  | cipher =>
    refine ⟨2, cipherUuid c.outer, rfl, by cases c.outer <;> decide, ?_⟩
    simp [outerField, cipherOfUuid_cipherUuid, applyOField]
  | compression =>
    refine ⟨3, toLe32 (if c.compression then 1 else 0), rfl, by simp, ?_⟩
    have e0 : le32 (toLe32 0) = 0 := by decide
    have e1 : le32 (toLe32 1) = 1 := by decide
    cases hc : c.compression <;> simp [outerField, applyOField, readU32E, bind, Outcome.bind, hc, e0, e1]
  | masterSeed => exact ⟨4, t.masterSeed, rfl, H.seed, by simp [outerField, applyOField]⟩
  | iv => exact ⟨7, t.iv, rfl, H.iv, by simp [outerField, applyOField]⟩
  | kdf =>
    refine ⟨11, vdDump (l.vdOrder (kdfVdEntries c.kdf t.kdfSeed)), rfl, H.vdLen, ?_⟩
    have hok : ∀ e ∈ l.vdOrder (kdfVdEntries c.kdf t.kdfSeed),
        e.2.1.length < 4294967296 ∧ e.2.2.length < 4294967296 ∧ (entryVal e.1 e.2.2).isSome :=
      fun e he => kdfEntries_ok c.kdf t.kdfSeed H.kdf e (H.perm.mem_iff.mp he)
    simp only [outerField]
    rw [vdParse_vdDump _ hok]
    simp [bind, Outcome.bind, kdfOfVd_roundtrip c.kdf t.kdfSeed H.kdf _ H.perm, applyOField]

theorem outerLoop_fields (c : Config) (t : Tape) (l : Layout) (H : HeaderOk c t l) (rest : Bytes) :
    ∀ (fs : List OField) (fuel n : Nat) (acc : OuterAcc), (∀ f ∈ fs, oFieldOk f) → fs.length + 1 ≤ fuel →
      outerLoop fuel
        ((fs.flatMap (oFieldBytes c t (vdDump (l.vdOrder (kdfVdEntries c.kdf t.kdfSeed))))) ++ (tlv 0 l.endPayload ++ rest))
        n acc
      = .ok (fs.foldl (applyOField c t) acc,
             n + (fs.flatMap (oFieldBytes c t (vdDump (l.vdOrder (kdfVdEntries c.kdf t.kdfSeed))))).length
               + 5 + l.endPayload.length) := by
  intro fs
  induction fs with
  | nil =>
    intro fuel n acc _ hf
    obtain ⟨f, rfl⟩ : ∃ f, fuel = f + 1 := ⟨fuel - 1, by simp at hf; omega⟩
    simp only [List.flatMap_nil, List.nil_append, List.foldl_nil, List.length_nil, Nat.add_zero]
    rw [outerLoop_step f 0 l.endPayload rest n acc H.endp]
    simp [outerField]
  | cons x xs ih =>
    intro fuel n acc hok hf
    obtain ⟨f, rfl⟩ : ∃ f, fuel = f + 1 := ⟨fuel - 1, by simp at hf; omega⟩
    obtain ⟨ty, v, hb, hv, hfield⟩ := outerField_of c t l H acc x (hok x (List.mem_cons_self ..))
    simp only [List.flatMap_cons, List.append_assoc, List.foldl_cons, List.length_append]
    rw [hb, outerLoop_step f ty v _ n acc hv, hfield]
    simp only
    rw [ih f (n + 5 + v.length) _ (fun y hy => hok y (List.mem_cons_of_mem _ hy)) (by simp at hf; omega)]
    congr 2
    rw [tlv_length]; omega

theorem foldl_applyOField (c : Config) (t : Tape) (fs : List OField) (acc : OuterAcc) :
    (fs.foldl (applyOField c t) acc).cipher = (if OField.cipher ∈ fs then some c.outer else acc.cipher)
    ∧ (fs.foldl (applyOField c t) acc).compression = (if OField.compression ∈ fs then some c.compression else acc.compression)
    ∧ (fs.foldl (applyOField c t) acc).masterSeed = (if OField.masterSeed ∈ fs then some t.masterSeed else acc.masterSeed)
    ∧ (fs.foldl (applyOField c t) acc).iv = (if OField.iv ∈ fs then some t.iv else acc.iv)
    ∧ (fs.foldl (applyOField c t) acc).kdf = (if OField.kdf ∈ fs then some (c.kdf, t.kdfSeed) else acc.kdf) := by
  induction fs generalizing acc with
  | nil => simp
  | cons x xs ih =>
    simp only [List.foldl_cons]
    obtain ⟨i1, i2, i3, i4, i5⟩ := ih (applyOField c t acc x)
    rw [i1, i2, i3, i4, i5]
    cases x <;> simp [applyOField] <;> (repeat' split) <;> simp_all

theorem parseVersion_versionHeader (minor : Nat) (h : minor < 65536) (rest : Bytes) :
    Kp.Io.parseVersion (versionHeader minor ++ rest) = some (.kdbx4 minor) := by
  have hm : Kp.Io.le16 (UInt8.ofNat (minor % 256)) (UInt8.ofNat (minor / 256 % 256)) = minor := by
    simp only [Kp.Io.le16, UInt8.toNat_ofNat']; omega
  simp only [versionHeader, toLe32, toLe16, List.cons_append, List.nil_append, Kp.Io.parseVersion]
  have h1 : Kp.Io.le32 103 251 75 181 = 3041655655 := by decide
  have h2 : Kp.Io.le16 4 0 = 4 := by decide
  simp [h1, h2, hm]

theorem versionHeader_length (minor : Nat) : (versionHeader minor).length = 12 := by
  simp [versionHeader, toLe16]

/-- the outer header of every conforming layout parses to the stored values, and ends where it ends -/
theorem parseOuterHeader_build (c : Config) (t : Tape) (l : Layout) (H : HeaderOk c t l) (rest : Bytes) :
    parseOuterHeader (outerHeaderBytes c t l ++ rest)
      = .ok (⟨c.minor, c.outer, c.compression, t.masterSeed, t.iv, c.kdf, t.kdfSeed⟩,
             (outerHeaderBytes c t l).length) := by
  unfold parseOuterHeader
  have hv : Kp.Io.parseVersion (outerHeaderBytes c t l ++ rest) = some (.kdbx4 c.minor) := by
    unfold outerHeaderBytes
    rw [List.append_assoc, List.append_assoc]
    exact parseVersion_versionHeader c.minor H.minor _
  rw [hv]
  simp only
  have hdrop : (outerHeaderBytes c t l ++ rest).drop 12
      = (l.outerOrder.flatMap (oFieldBytes c t (vdDump (l.vdOrder (kdfVdEntries c.kdf t.kdfSeed)))))
          ++ (tlv 0 l.endPayload ++ rest) := by
    unfold outerHeaderBytes
    rw [List.append_assoc, List.append_assoc, List.drop_left' (versionHeader_length _)]
  rw [hdrop]
  have hfuel : l.outerOrder.length + 1 ≤ (outerHeaderBytes c t l ++ rest).length + 1 := by
    have : l.outerOrder.length ≤ (l.outerOrder.flatMap (oFieldBytes c t (vdDump (l.vdOrder (kdfVdEntries c.kdf t.kdfSeed))))).length := by
      generalize (vdDump (l.vdOrder (kdfVdEntries c.kdf t.kdfSeed))) = vd
      induction l.outerOrder with
      | nil => simp
      | cons x xs ih =>
        simp only [List.flatMap_cons, List.length_append, List.length_cons]
        have : 1 ≤ (oFieldBytes c t vd x).length := by cases x <;> simp [oFieldBytes, tlv]
        omega
    unfold outerHeaderBytes
    simp only [List.length_append]
    omega
  rw [outerLoop_fields c t l H rest l.outerOrder _ 12 {} H.fields hfuel]
  obtain ⟨f1, f2, f3, f4, f5⟩ := foldl_applyOField c t l.outerOrder {}
  simp only [bind, Outcome.bind]
  rw [f1, f2, f3, f4, f5]
  simp only [H.all.1, H.all.2.1, H.all.2.2.1, H.all.2.2.2.1, H.all.2.2.2.2, ↓reduceIte]
  congr 2
  unfold outerHeaderBytes
  simp only [List.length_append, versionHeader_length, tlv_length]
  omega

/-! ### inner header: attachments before or after id and key -/

def attOk (atts : List (UInt8 × Bytes)) : Prop := ∀ a ∈ atts, a.2.length + 1 < 4294967296

theorem innerLoop_attachments (fuel : Nat) : ∀ (atts : List (UInt8 × Bytes)) (rest : Bytes) (n : Nat) (acc : InnerAcc),
    attOk atts → atts.length ≤ fuel →
    innerLoop (fuel + 1) (attachmentFields atts ++ rest) n acc
      = innerLoop (fuel + 1 - atts.length) rest (n + (attachmentFields atts).length)
          { acc with attachments := acc.attachments ++ atts } := by
  induction fuel with
  | zero =>
    intro atts rest n acc _ hl
    have : atts = [] := List.eq_nil_of_length_eq_zero (by omega)
    subst this
    simp [attachmentFields]
  | succ fuel ih =>
    intro atts rest n acc hok hl
    cases atts with
    | nil => simp [attachmentFields]
    | cons a as =>
      have ha := hok a (List.mem_cons_self ..)
      simp only [attachmentFields, List.flatMap_cons, List.append_assoc]
      rw [innerLoop_step (fuel + 1) 3 (a.1 :: a.2) _ n acc (by simp; omega)]
      simp only [innerField]
      have := ih as rest (n + 5 + (a.1 :: a.2).length) { acc with attachments := acc.attachments ++ [(a.1, a.2)] }
        (fun x hx => hok x (List.mem_cons_of_mem _ hx)) (by simp at hl; omega)
      simp only [attachmentFields] at this
      simp only [show ((3 : UInt8) = 0) = False by decide, show ((3 : UInt8) = 1) = False by decide,
        show ((3 : UInt8) = 2) = False by decide, ↓reduceIte]
      rw [this]
      simp only [List.length_cons, List.length_append, tlv_length, List.append_assoc, List.cons_append,
        List.nil_append]
      congr 1
      · omega
      · omega

theorem innerOfId_innerId (c : InnerCipher) : innerOfId (innerId c) = some c := by cases c <;> rfl

theorem innerField_id (acc : InnerAcc) (c : InnerCipher) :
    innerField acc 1 (toLe32 (innerId c)) = .ok (some { acc with cipher := some c }) := by
  have : le32 (toLe32 (innerId c)) = innerId c := le32_toLe32' _ (by cases c <;> decide)
  simp [innerField, readU32E, bind, Outcome.bind, this, innerOfId_innerId]

theorem innerLoop_header (c : Config) (t : Tape) (atts : List (UInt8 × Bytes)) (first : Bool) (xml : Bytes)
    (hk : t.innerKey.length < 4294967296) (ha : attOk atts) :
    innerLoop ((innerHeaderBytes c t atts first ++ xml).length + 1) (innerHeaderBytes c t atts first ++ xml) 0 {}
      = .ok (⟨some c.inner, some t.innerKey, atts⟩, (innerHeaderBytes c t atts first).length) := by
  have hattlen : atts.length ≤ (attachmentFields atts).length := by
    induction atts with
    | nil => simp [attachmentFields]
    | cons a as ih =>
      have := ih (fun x hx => ha x (List.mem_cons_of_mem _ hx))
      simp only [attachmentFields, List.flatMap_cons, List.length_append, List.length_cons] at this ⊢
      have : 1 ≤ (tlv 3 (a.1 :: a.2)).length := by simp [tlv]
      omega
  cases first with
  | false =>
    simp only [innerHeaderBytes, Bool.false_eq_true, ↓reduceIte, List.append_assoc]
    generalize hF : (tlv 1 (toLe32 (innerId c.inner)) ++ (tlv 2 t.innerKey ++ (attachmentFields atts ++ (tlv 0 [] ++ xml)))).length = F
    have hF1 : atts.length + 3 ≤ F := by
      rw [← hF]; simp only [List.length_append, tlv_length]; omega
    obtain ⟨f, rfl⟩ : ∃ f, F = f + 3 := ⟨F - 3, by omega⟩
    rw [show f + 3 + 1 = (f + 3) + 1 from rfl, innerLoop_step (f + 3) 1 _ _ 0 {} (by simp), innerField_id]
    simp only
    rw [show f + 3 = (f + 2) + 1 from rfl, innerLoop_step (f + 2) 2 _ _ _ _ hk]
    simp only [innerField, show ((2 : UInt8) = 0) = False by decide, show ((2 : UInt8) = 1) = False by decide, ↓reduceIte]
    rw [show f + 2 = (f + 1) + 1 from rfl, innerLoop_attachments (f + 1) atts _ _ _ ha (by omega)]
    obtain ⟨g, hg⟩ : ∃ g, f + 1 + 1 - atts.length = g + 1 := ⟨f + 1 - atts.length, by omega⟩
    rw [hg, innerLoop_step g 0 [] xml _ _ (by simp)]
    simp only [innerField, ↓reduceIte, List.nil_append, List.length_nil]
    congr 2
    simp only [List.length_append, tlv_length, toLe32_length, List.length_nil]
    omega
  | true =>
    simp only [innerHeaderBytes, ↓reduceIte, List.append_assoc]
    generalize hF : (attachmentFields atts ++ (tlv 1 (toLe32 (innerId c.inner)) ++ (tlv 2 t.innerKey ++ (tlv 0 [] ++ xml)))).length = F
    have hF1 : atts.length + 3 ≤ F := by
      rw [← hF]; simp only [List.length_append, tlv_length]; omega
    rw [innerLoop_attachments F atts _ 0 {} ha (by omega)]
    obtain ⟨g, hg⟩ : ∃ g, F + 1 - atts.length = g + 3 := ⟨F + 1 - atts.length - 3, by omega⟩
    rw [hg, show g + 3 = (g + 2) + 1 from rfl, innerLoop_step (g + 2) 1 _ _ _ _ (by simp), innerField_id]
    simp only
    rw [show g + 2 = (g + 1) + 1 from rfl, innerLoop_step (g + 1) 2 _ _ _ _ hk]
    simp only [innerField, show ((2 : UInt8) = 0) = False by decide, show ((2 : UInt8) = 1) = False by decide, ↓reduceIte]
    rw [innerLoop_step g 0 [] xml _ _ (by simp)]
    simp only [innerField, ↓reduceIte, List.nil_append, List.length_nil]
    congr 2
    simp only [List.length_append, tlv_length, toLe32_length, List.length_nil]
    omega

theorem writeBlocks_len (P : Prims) (hk : Bytes) (parts : List Bytes) (i : Nat) :
    parts.length + 1 ≤ (writeBlocksFrom P hk i parts).length + 1 := by
  induction parts generalizing i with
  | nil => simp
  | cons b bs ih =>
    have := ih (i + 1)
    simp only [writeBlocksFrom, List.length_append, List.length_cons, blockBytes, toLe32_length] at this ⊢
    omega

end Kp.Fmt
