import KpModel.Basic
/-
Little-endian integers, slicing with Rust's panic semantics, outcomes with panic sites.
-/
namespace Kp.Fmt

inductive ErrClass where
  | key          -- `DatabaseOpenError::Key`
  | integrity    -- `DatabaseOpenError::DatabaseIntegrity`
  | io           -- `DatabaseOpenError::Io`
  | unsupported  -- `DatabaseOpenError::UnsupportedVersion`
  deriving DecidableEq, Repr, Inhabited

/-- result of a reading entry point: a value, an error of some class, or a panic at a named site -/
inductive Outcome (α : Type) where
  | ok (a : α)
  | err (c : ErrClass)
  | panic (site : String)
  deriving Repr, DecidableEq

namespace Outcome
def bind {α β : Type} (x : Outcome α) (f : α → Outcome β) : Outcome β :=
  match x with
  | ok a => f a
  | err c => err c
  | panic s => panic s
instance : Monad Outcome where
  pure := ok
  bind := bind
def isPanic {α : Type} : Outcome α → Bool
  | panic _ => true
  | _ => false
@[simp] theorem bind_ok {α β : Type} (a : α) (f : α → Outcome β) : (Outcome.ok a >>= f) = f a := rfl
@[simp] theorem bind_err {α β : Type} (c : ErrClass) (f : α → Outcome β) : (Outcome.err c >>= f) = Outcome.err c := rfl
@[simp] theorem bind_panic {α β : Type} (s : String) (f : α → Outcome β) :
    (Outcome.panic s >>= f) = Outcome.panic s := rfl
@[simp] theorem pure_eq {α : Type} (a : α) : (pure a : Outcome α) = Outcome.ok a := rfl
end Outcome

def le16 (b : Bytes) : Nat := (b.getD 0 0).toNat + 256 * (b.getD 1 0).toNat
def le32 (b : Bytes) : Nat :=
  (b.getD 0 0).toNat + 256 * (b.getD 1 0).toNat + 65536 * (b.getD 2 0).toNat + 16777216 * (b.getD 3 0).toNat
def le64 (b : Bytes) : Nat := le32 b + 4294967296 * le32 (b.drop 4)

def toLe16 (n : Nat) : Bytes := [UInt8.ofNat (n % 256), UInt8.ofNat (n / 256 % 256)]
def toLe32 (n : Nat) : Bytes :=
  [UInt8.ofNat (n % 256), UInt8.ofNat (n / 256 % 256), UInt8.ofNat (n / 65536 % 256), UInt8.ofNat (n / 16777216 % 256)]
def toLe64 (n : Nat) : Bytes := toLe32 (n % 4294967296) ++ toLe32 (n / 4294967296)

@[simp] theorem toLe32_length (n : Nat) : (toLe32 n).length = 4 := rfl
@[simp] theorem toLe64_length (n : Nat) : (toLe64 n).length = 8 := rfl

theorem ofNat_toNat_mod (n : Nat) : (UInt8.ofNat (n % 256)).toNat = n % 256 := by
  simp [UInt8.toNat_ofNat']

theorem le32_toLe32 (n : Nat) (h : n < 4294967296) (rest : Bytes) : le32 (toLe32 n ++ rest) = n := by
  simp only [le32, toLe32, List.cons_append, List.nil_append, List.getD_cons_zero, List.getD_cons_succ]
  simp only [UInt8.toNat_ofNat']
  omega

/-- `byteorder::LittleEndian::read_u32(buf)`: panics when `buf` is shorter than 4 bytes, otherwise reads the first 4 -/
def readU32 (site : String) (b : Bytes) : Outcome Nat :=
  if b.length < 4 then .panic site else .ok (le32 b)
def readU64 (site : String) (b : Bytes) : Outcome Nat :=
  if b.length < 8 then .panic site else .ok (le64 b)

/-- checked reads (`buf.get(0..4).map(read_u32)`): an error, never a panic -/
def readU32E (b : Bytes) : Outcome Nat :=
  if b.length < 4 then .err .integrity else .ok (le32 b)
def readU64E (b : Bytes) : Outcome Nat :=
  if b.length < 8 then .err .integrity else .ok (le64 b)
/-- `data.get(a..b).ok_or(..)` -/
def sliceE (d : Bytes) (a b : Nat) : Outcome Bytes :=
  if a ≤ b ∧ b ≤ d.length then .ok ((d.drop a).take (b - a)) else .err .integrity

/-- `&data[a..b]`: panics unless `a ≤ b ≤ data.len()` -/
def slice (site : String) (d : Bytes) (a b : Nat) : Outcome Bytes :=
  if a ≤ b ∧ b ≤ d.length then .ok ((d.drop a).take (b - a)) else .panic site

/-- `data[i]` -/
def index (site : String) (d : Bytes) (i : Nat) : Outcome UInt8 :=
  match d[i]? with
  | some x => .ok x
  | none => .panic site

end Kp.Fmt
