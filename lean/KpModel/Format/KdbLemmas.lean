import KpModel.Format.Legacy
import KpModel.Format.Kdbx4Lemmas
/-!
KDB (KeePass 1) record section: the level-driven tree construction of `parse_groups` meets its specification
(groups appended along the rightmost spine), position paths stay valid, entries land in the group their id names.
Helper lemmas for `Props/C02`.
-/
namespace Kp.Fmt

abbrev Br := List (Bytes × List KNode)

/-- the node a branch collapses into (nothing for the empty branch) -/
def closeBranch : Br → List KNode
  | [] => []
  | (n, c) :: rest => [.group n (c ++ closeBranch rest)]

/-- collapse to a level, by recursion from the outermost element -/
def collapseTo : Nat → Br → List KNode → Br × List KNode
  | 0, branch, rc => ([], rc ++ closeBranch branch)
  | _ + 1, [], rc => ([], rc)
  | L + 1, (n, c) :: rest, rc => ((n, (collapseTo L rest c).2) :: (collapseTo L rest c).1, rc)

theorem closeBranch_snoc2 (xs : Br) (pn : Bytes) (pc : List KNode) (ln : Bytes) (lc : List KNode) :
    closeBranch (xs ++ [(pn, pc)] ++ [(ln, lc)]) = closeBranch (xs ++ [(pn, pc ++ [.group ln lc])]) := by
  induction xs with
  | nil => simp [closeBranch]
  | cons x xs ih =>
    obtain ⟨n, c⟩ := x
    simp only [List.cons_append, closeBranch]
    rw [ih]

theorem collapse_snoc_nil (fuel : Nat) (ln : Bytes) (lc : List KNode) (L : Nat) (rc : List KNode) (h : L < 1) :
    collapse (fuel + 1) [(ln, lc)] L rc = collapse fuel [] L (rc ++ [.group ln lc]) := by
  rw [collapse]
  simp [h]

theorem collapse_snoc_cons (fuel : Nat) (xs : Br) (pn : Bytes) (pc : List KNode) (ln : Bytes) (lc : List KNode)
    (L : Nat) (rc : List KNode) (h : L < xs.length + 2) :
    collapse (fuel + 1) (xs ++ [(pn, pc)] ++ [(ln, lc)]) L rc
      = collapse fuel (xs ++ [(pn, pc ++ [.group ln lc])]) L rc := by
  rw [collapse]
  have hl : L < (xs ++ [(pn, pc)] ++ [(ln, lc)]).length := by simp; omega
  simp only [hl, ↓reduceIte]
  simp

/-- popping the last element of a branch does not change what `collapseTo` computes (for a level that keeps it popped) -/
theorem collapseTo_snoc_nil (ln : Bytes) (lc : List KNode) (rc : List KNode) :
    collapseTo 0 [(ln, lc)] rc = collapseTo 0 [] (rc ++ [.group ln lc]) := by
  simp [collapseTo, closeBranch]

theorem collapseTo_snoc_cons : ∀ (xs : Br) (pn : Bytes) (pc : List KNode) (ln : Bytes) (lc : List KNode)
    (L : Nat) (rc : List KNode), L ≤ xs.length + 1 →
    collapseTo L (xs ++ [(pn, pc)] ++ [(ln, lc)]) rc = collapseTo L (xs ++ [(pn, pc ++ [.group ln lc])]) rc := by
  intro xs
  induction xs with
  | nil =>
    intro pn pc ln lc L rc h
    match L, h with
    | 0, _ => simp [collapseTo, closeBranch]
    | 1, _ => simp [collapseTo, closeBranch]
  | cons x xs ih =>
    intro pn pc ln lc L rc h
    obtain ⟨n, c⟩ := x
    cases L with
    | zero =>
      simp only [collapseTo, List.cons_append, closeBranch]
      rw [closeBranch_snoc2]
    | succ L =>
      simp only [List.cons_append, collapseTo]
      rw [ih pn pc ln lc L c (by simp at h; omega)]

theorem collapseTo_ge : ∀ (branch : Br) (L : Nat) (rc : List KNode), branch.length ≤ L → collapseTo L branch rc = (branch, rc) := by
  intro branch
  induction branch with
  | nil => intro L rc _; cases L <;> simp [collapseTo, closeBranch]
  | cons x xs ih =>
    intro L rc h
    obtain ⟨n, c⟩ := x
    cases L with
    | zero => simp at h
    | succ L => simp only [collapseTo]; rw [ih L c (by simp at h; omega)]

/-- `collapse_tail_groups` computes `collapseTo` (enough fuel: one step per popped element) -/
theorem collapse_eq : ∀ (fuel : Nat) (branch : Br) (L : Nat) (rc : List KNode), branch.length - L ≤ fuel →
    collapse fuel branch L rc = collapseTo L branch rc := by
  intro fuel
  induction fuel with
  | zero =>
    intro branch L rc h
    simp only [collapse]
    rw [collapseTo_ge branch L rc (by omega)]
  | succ fuel ih =>
    intro branch L rc h
    by_cases hl : L < branch.length
    · -- pop the last element
      rcases List.eq_nil_or_concat branch with hb | ⟨init, last, hb⟩
      · subst hb; simp at hl
      · subst hb
        obtain ⟨ln, lc⟩ := last
        rcases List.eq_nil_or_concat init with hi | ⟨init', p, hi⟩
        · subst hi
          simp only [List.concat_eq_append, List.nil_append] at *
          have hL : L = 0 := by simp at hl; omega
          subst hL
          rw [collapse_snoc_nil fuel ln lc 0 rc (by omega), ih [] 0 _ (by simp), collapseTo_snoc_nil]
        · subst hi
          obtain ⟨pn, pc⟩ := p
          simp only [List.concat_eq_append] at *
          rw [collapse_snoc_cons fuel init' pn pc ln lc L rc (by simp at hl; omega),
            ih _ L rc (by simp at h ⊢; omega),
            collapseTo_snoc_cons init' pn pc ln lc L rc (by simp at hl; omega)]
    · rw [collapse]
      simp only [hl, ↓reduceIte]
      rw [collapseTo_ge branch L rc (by omega)]


/-! ### specification: a group record of level `d` is appended at depth `d` of the rightmost spine -/

def insertRight : List KNode → Nat → KNode → Option (List KNode)
  | f, 0, x => some (f ++ [x])
  | f, d + 1, x =>
    match f.getLast? with
    | some (.group nm ch) => (insertRight ch d x).map fun ch' => f.dropLast ++ [.group nm ch']
    | _ => none

/-- the child position at each level of the node `insertRight f d _` appends -/
def spinePos : List KNode → Nat → Option (List Nat)
  | f, 0 => some [f.length]
  | f, d + 1 =>
    match f.getLast? with
    | some (.group _ ch) => (spinePos ch d).map fun p => (f.length - 1) :: p
    | _ => none

/-- the child position of each branch element in its parent -/
def positions : Br → List KNode → List Nat
  | [], _ => []
  | (_, c) :: rest, rc => rc.length :: positions rest c

def forestOf (branch : Br) (rc : List KNode) : List KNode := rc ++ closeBranch branch

theorem positions_length (b : Br) (rc : List KNode) : (positions b rc).length = b.length := by
  induction b generalizing rc with
  | nil => rfl
  | cons x xs ih => obtain ⟨n, c⟩ := x; simp [positions, ih]

theorem collapseTo_length : ∀ (L : Nat) (branch : Br) (rc : List KNode), L ≤ branch.length →
    (collapseTo L branch rc).1.length = L := by
  intro L
  induction L with
  | zero => intro branch rc _; simp [collapseTo]
  | succ L ih =>
    intro branch rc h
    cases branch with
    | nil => simp at h
    | cons x xs =>
      obtain ⟨n, c⟩ := x
      simp only [collapseTo, List.length_cons]
      rw [ih xs c (by simp at h; omega)]

theorem collapseTo_positions : ∀ (L : Nat) (branch : Br) (rc : List KNode), L ≤ branch.length →
    positions (collapseTo L branch rc).1 (collapseTo L branch rc).2 = (positions branch rc).take L := by
  intro L
  induction L with
  | zero => intro branch rc _; simp [collapseTo, positions]
  | succ L ih =>
    intro branch rc h
    cases branch with
    | nil => simp at h
    | cons x xs =>
      obtain ⟨n, c⟩ := x
      simp only [collapseTo, positions, List.take_succ_cons]
      rw [ih xs c (by simp at h; omega)]

/-- the position the model computes for a pushed group -/
def pushPos (b : Br) (rc : List KNode) : Nat :=
  match b.getLast? with | some (_, cs) => cs.length | none => rc.length

theorem positions_snoc (b : Br) (rc : List KNode) (nm : Bytes) :
    positions (b ++ [(nm, [])]) rc = positions b rc ++ [pushPos b rc] := by
  induction b generalizing rc with
  | nil => simp [positions, pushPos]
  | cons x xs ih =>
    obtain ⟨n, c⟩ := x
    simp only [List.cons_append, positions, ih c]
    congr 2
    cases xs with
    | nil => simp [pushPos]
    | cons y ys =>
      simp only [pushPos, List.getLast?_cons_cons]
      cases h : (y :: ys).getLast? with
      | none => simp at h
      | some p => rfl

/-- **the push step meets the specification**: collapsing to level `L` and pushing a fresh group is appending it at
    depth `L` of the rightmost spine; the recorded position path is the path of that node -/
theorem push_spec : ∀ (L : Nat) (branch : Br) (rc : List KNode) (nm : Bytes), L ≤ branch.length →
    insertRight (forestOf branch rc) L (.group nm [])
        = some (forestOf ((collapseTo L branch rc).1 ++ [(nm, [])]) (collapseTo L branch rc).2)
    ∧ spinePos (forestOf branch rc) L
        = some (positions ((collapseTo L branch rc).1 ++ [(nm, [])]) (collapseTo L branch rc).2) := by
  intro L
  induction L with
  | zero =>
    intro branch rc nm _
    simp [insertRight, spinePos, collapseTo, forestOf, closeBranch, positions]
  | succ L ih =>
    intro branch rc nm h
    cases branch with
    | nil => simp at h
    | cons x xs =>
      obtain ⟨n, c⟩ := x
      obtain ⟨i1, i2⟩ := ih xs c nm (by simp at h; omega)
      have hlast : (forestOf ((n, c) :: xs) rc).getLast? = some (.group n (c ++ closeBranch xs)) := by
        simp [forestOf, closeBranch]
      have hdrop : (forestOf ((n, c) :: xs) rc).dropLast = rc := by
        simp [forestOf, closeBranch]
      have hlen : (forestOf ((n, c) :: xs) rc).length - 1 = rc.length := by
        simp [forestOf, closeBranch]
      simp only [insertRight, spinePos, hlast, hdrop, hlen]
      simp only [forestOf] at i1 i2
      rw [i1, i2]
      simp [collapseTo, forestOf, closeBranch, positions]


theorem groupBranch_eq (s : GSt) (level : Nat) (hp : s.path = positions s.branch s.rootCh) :
    groupBranch s level = ((collapseTo level s.branch s.rootCh).1, (collapseTo level s.branch s.rootCh).2, s.path.take level) := by
  unfold groupBranch
  by_cases h : level < s.branch.length
  · simp only [h, ↓reduceIte]
    rw [collapse_eq _ _ _ _ (by omega)]
  · simp only [h, ↓reduceIte]
    rw [collapseTo_ge _ _ _ (by omega)]
    have : s.path.length ≤ level := by rw [hp, positions_length]; omega
    rw [List.take_of_length_le this]

/-- one conforming group record, on the model's state -/
theorem groupEnd_spec (s : GSt) (level gid : Nat) (nm : Bytes)
    (hp : s.path = positions s.branch s.rootCh) (hL : level ≤ s.branch.length) :
    ∃ s', groupEnd { s with name := nm, gid := some gid, level := some level } = .ok s'
      ∧ insertRight (forestOf s.branch s.rootCh) level (.group nm []) = some (forestOf s'.branch s'.rootCh)
      ∧ spinePos (forestOf s.branch s.rootCh) level = some s'.path
      ∧ s'.path = positions s'.branch s'.rootCh
      ∧ s'.branch.length = level + 1
      ∧ s'.gidMap = s.gidMap.filter (·.1 != gid) ++ [(gid, s'.path)]
      ∧ s'.count = s.count + 1 ∧ s'.gid = none ∧ s'.level = some level := by
  obtain ⟨p1, p2⟩ := push_spec level s.branch s.rootCh nm hL
  have hlen := collapseTo_length level s.branch s.rootCh hL
  have hpos := collapseTo_positions level s.branch s.rootCh hL
  unfold groupEnd
  simp only
  rw [groupBranch_eq _ level (by simpa using hp)]
  simp only
  unfold groupPlace
  simp only [hlen, ↓reduceIte]
  refine ⟨_, rfl, ?_, ?_, ?_, ?_, ?_, rfl, rfl, rfl⟩
  · simpa using p1
  · simp only
    rw [p2, positions_snoc, hpos, hp]
    rfl
  · simp only
    rw [positions_snoc, hpos, hp]
    rfl
  · simp [hlen]
  · simp only


/-! ### byte level: canonical records -/

def fieldBytes (ty : Nat) (v : Bytes) : Bytes := toLe16 ty ++ (toLe32 v.length ++ v)

theorem le16_toLe16' (n : Nat) (h : n < 65536) (rest : Bytes) : le16 (toLe16 n ++ rest) = n := by
  simp only [le16, toLe16, List.cons_append, List.nil_append, List.getD_cons_zero, List.getD_cons_succ, UInt8.toNat_ofNat']
  omega

theorem readField_field (ty : Nat) (v rest : Bytes) (ht : ty < 65536) (hv : v.length < 4294967296) :
    readField (fieldBytes ty v ++ rest) = some (ty, v.length, v, rest) := by
  unfold readField fieldBytes
  have h6 : ¬ ((toLe16 ty ++ (toLe32 v.length ++ v) ++ rest).length < 6) := by simp [toLe16]
  simp only [h6, ↓reduceIte]
  have d2 : (toLe16 ty ++ (toLe32 v.length ++ v) ++ rest).drop 2 = toLe32 v.length ++ (v ++ rest) := by
    simp [toLe16]
  have d6 : (toLe16 ty ++ (toLe32 v.length ++ v) ++ rest).drop 6 = v ++ rest := by
    simp [toLe16, toLe32]
  rw [d2, d6, le32_toLe32 _ hv]
  have hl : ¬ ((v ++ rest).length < v.length) := by simp
  simp only [hl, ↓reduceIte, List.take_left' rfl, List.drop_left' rfl]
  have e : toLe16 ty ++ (toLe32 v.length ++ v) ++ rest = toLe16 ty ++ (toLe32 v.length ++ v ++ rest) := by simp
  rw [e, le16_toLe16' _ ht]

theorem parseGroups_field (fuel want ty : Nat) (v rest : Bytes) (s : GSt) (hc : s.count < want)
    (ht : ty < 65536) (hv : v.length < 4294967296) :
    parseGroups (fuel + 1) want (fieldBytes ty v ++ rest) s =
      match groupField s ty v.length v with
      | .ok s' => parseGroups fuel want rest s'
      | .err c => .err c
      | .panic p => .panic p := by
  rw [parseGroups]
  have : ¬ (s.count ≥ want) := by omega
  simp only [this, ↓reduceIte, readField_field ty v rest ht hv]
  cases groupField s ty v.length v <;> rfl

structure GRec where
  level : Nat
  name : Bytes
  gid : Nat

def encodeGroup (r : GRec) : Bytes :=
  fieldBytes 1 (toLe32 r.gid) ++ (fieldBytes 2 (r.name ++ [0]) ++ (fieldBytes 8 (toLe16 r.level) ++ fieldBytes 0xffff []))

def GRec.ok (r : GRec) : Prop :=
  r.level < 65536 ∧ r.gid < 4294967296 ∧ r.name.length + 1 < 4294967296 ∧ trimNul r.name = r.name

theorem trimNul_snoc0 (b : Bytes) : trimNul (b ++ [0]) = trimNul b := by
  simp [trimNul]

theorem le16_toLe16_nil (n : Nat) (h : n < 65536) : le16 (toLe16 n) = n := by
  have := le16_toLe16' n h []
  simpa using this

theorem le32_toLe32_nil (n : Nat) (h : n < 4294967296) : le32 (toLe32 n) = n := by
  have := le32_toLe32 n h []
  simpa using this

/-- one canonical group record = the abstract step -/
theorem parseGroups_record (fuel want : Nat) (r : GRec) (rest : Bytes) (s : GSt) (hc : s.count < want) (hr : r.ok) :
    parseGroups (fuel + 4) want (encodeGroup r ++ rest) s =
      match groupEnd { s with gid := some r.gid, name := r.name, level := some r.level } with
      | .ok s' => parseGroups fuel want rest s'
      | .err c => .err c
      | .panic p => .panic p := by
  obtain ⟨h1, h2, h3, h4⟩ := hr
  unfold encodeGroup
  simp only [List.append_assoc]
  rw [parseGroups_field (fuel + 3) want 1 _ _ s hc (by omega) (by simp)]
  have g1 : groupField s 1 (toLe32 r.gid).length (toLe32 r.gid) = .ok { s with gid := some r.gid } := by
    simp [groupField, ensureLen, Outcome.bind, le32_toLe32_nil _ h2]
  rw [g1]
  simp only
  rw [parseGroups_field (fuel + 2) want 2 _ _ _ (by simpa using hc) (by omega) (by simp; omega)]
  have g2 : groupField { s with gid := some r.gid } 2 (r.name ++ [0]).length (r.name ++ [0])
      = .ok { s with gid := some r.gid, name := r.name } := by
    simp [groupField, trimNul_snoc0, h4]
  rw [g2]
  simp only
  rw [parseGroups_field (fuel + 1) want 8 _ _ _ (by simpa using hc) (by omega) (by simp [toLe16])]
  have g3 : groupField { s with gid := some r.gid, name := r.name } 8 (toLe16 r.level).length (toLe16 r.level)
      = .ok { s with gid := some r.gid, name := r.name, level := some r.level } := by
    simp [groupField, ensureLen, Outcome.bind, toLe16, le16_toLe16_nil _ h1]
    simp [le16, UInt8.toNat_ofNat']
    omega
  rw [g3]
  simp only
  rw [parseGroups_field fuel want 0xffff [] _ _ (by simpa using hc) (by omega) (by simp)]
  have g4 : ∀ st : GSt, groupField st 0xffff ([] : Bytes).length [] = groupEnd st := by
    intro st
    simp [groupField, ensureLen, Outcome.bind]
  rw [g4]


/-- the specification of the group section: a fold of rightmost-spine insertions, with the gid ↦ position map
    (a later record with the same id replaces the earlier one) -/
def specGroups : List GRec → List KNode → List (Nat × List Nat) → Option (List KNode × List (Nat × List Nat))
  | [], F, gm => some (F, gm)
  | r :: rs, F, gm =>
    match insertRight F r.level (.group r.name []), spinePos F r.level with
    | some F', some p => specGroups rs F' (gm.filter (·.1 != r.gid) ++ [(r.gid, p)])
    | _, _ => none

/-- conforming level numbers: a record is at most one level deeper than its predecessor (the first is at level 0) -/
def conform : Nat → List GRec → Prop
  | _, [] => True
  | d, r :: rs => r.level ≤ d ∧ r.ok ∧ conform (r.level + 1) rs

theorem parseGroups_records : ∀ (recs : List GRec) (fuel want : Nat) (rest : Bytes) (s : GSt),
    s.path = positions s.branch s.rootCh → conform s.branch.length recs → want = s.count + recs.length →
    s.gid = none → 4 * recs.length + 1 ≤ fuel →
    ∃ s', parseGroups fuel want (recs.flatMap encodeGroup ++ rest) s = .ok (s', rest)
      ∧ specGroups recs (forestOf s.branch s.rootCh) s.gidMap = some (forestOf s'.branch s'.rootCh, s'.gidMap)
      ∧ s'.gid = none := by
  intro recs
  induction recs with
  | nil =>
    intro fuel want rest s _ _ hw hg hf
    obtain ⟨f, rfl⟩ : ∃ f, fuel = f + 1 := ⟨fuel - 1, by omega⟩
    refine ⟨s, ?_, rfl, hg⟩
    rw [parseGroups]
    have : s.count ≥ want := by simp at hw; omega
    simp [this]
  | cons r rs ih =>
    intro fuel want rest s hp hc hw hg hf
    obtain ⟨hl, hok, hc'⟩ := hc
    obtain ⟨f, rfl⟩ : ∃ f, fuel = f + 4 := ⟨fuel - 4, by simp at hf; omega⟩
    simp only [List.flatMap_cons, List.append_assoc]
    rw [parseGroups_record f want r _ s (by simp at hw; omega) hok]
    obtain ⟨s1, e1, e2, e3, e4, e5, e6, e7, e8, _⟩ := groupEnd_spec s r.level r.gid r.name hp hl
    rw [e1]
    simp only
    obtain ⟨s', i1, i2, i3⟩ := ih f want rest s1 e4 (by rw [e5]; exact hc') (by simp at hw; rw [e7]; omega) e8
      (by simp at hf; omega)
    refine ⟨s', i1, ?_, i3⟩
    simp only [specGroups, e2, e3]
    rw [← e6]
    exact i2


/-! ### position paths stay valid -/

theorem kWalk_append (F : List KNode) (x : KNode) : ∀ (p : List Nat), kWalk F p = true → kWalk (F ++ [x]) p = true := by
  intro p h
  cases p with
  | nil => rfl
  | cons i t =>
    simp only [kWalk] at h ⊢
    cases hi : F[i]? with
    | none => simp [hi] at h
    | some n =>
      have hlt : i < F.length := by
        by_cases hlt : i < F.length
        · exact hlt
        · rw [List.getElem?_eq_none (by omega)] at hi; cases hi
      rw [List.getElem?_append_left hlt, hi]
      rw [hi] at h
      exact h

theorem insertRight_walk : ∀ (d : Nat) (F : List KNode) (x : KNode) (F' : List KNode) (p : List Nat),
    insertRight F d x = some F' → kWalk F p = true → kWalk F' p = true := by
  intro d
  induction d with
  | zero =>
    intro F x F' p h hw
    simp only [insertRight, Option.some.injEq] at h
    subst h
    exact kWalk_append F x p hw
  | succ d ih =>
    intro F x F' p h hw
    simp only [insertRight] at h
    split at h
    · rename_i nm ch hlast
      obtain ⟨ys, rfl⟩ := List.getLast?_eq_some_iff.mp hlast
      cases hr : insertRight ch d x with
      | none => simp [hr] at h
      | some ch' =>
        simp only [hr, Option.map_some, Option.some.injEq, List.dropLast_concat] at h
        subst h
        cases p with
        | nil => rfl
        | cons i t =>
          simp only [kWalk] at hw ⊢
          by_cases hi : i < ys.length
          · rw [List.getElem?_append_left hi] at hw ⊢
            exact hw
          · by_cases hi2 : i = ys.length
            · subst hi2
              rw [List.getElem?_append_right (Nat.le_refl _)] at hw ⊢
              simp only [Nat.sub_self, List.getElem?_cons_zero] at hw ⊢
              exact ih ch x ch' t hr hw
            · have : (ys ++ [KNode.group nm ch])[i]? = none := by
                apply List.getElem?_eq_none
                simp; omega
              rw [this] at hw
              cases hw
    · cases h

theorem insertRight_new_walk : ∀ (d : Nat) (F : List KNode) (nm : Bytes) (F' : List KNode) (p : List Nat),
    insertRight F d (.group nm []) = some F' → spinePos F d = some p → kWalk F' p = true := by
  intro d
  induction d with
  | zero =>
    intro F nm F' p h hp
    simp only [insertRight, Option.some.injEq] at h
    simp only [spinePos, Option.some.injEq] at hp
    subst h; subst hp
    simp [kWalk]
  | succ d ih =>
    intro F nm F' p h hp
    simp only [insertRight] at h
    simp only [spinePos] at hp
    split at h
    · rename_i nm2 ch hlast
      rw [hlast] at hp
      simp only at hp
      obtain ⟨ys, rfl⟩ := List.getLast?_eq_some_iff.mp hlast
      cases hr : insertRight ch d (.group nm []) with
      | none => simp [hr] at h
      | some ch' =>
        cases hs : spinePos ch d with
        | none => simp [hs] at hp
        | some p' =>
          simp only [hr, Option.map_some, Option.some.injEq, List.dropLast_concat] at h
          simp only [hs, Option.map_some, Option.some.injEq] at hp
          subst h; subst hp
          simp only [kWalk, List.length_append, List.length_cons, List.length_nil, Nat.add_sub_cancel]
          rw [List.getElem?_append_right (Nat.le_refl _)]
          simp only [Nat.sub_self, List.getElem?_cons_zero]
          exact ih ch nm ch' p' hr hs
    · cases h

theorem kAddAt_walk : ∀ (q : List Nat) (F : List KNode) (e : KNode) (p : List Nat),
    kWalk F q = true → kWalk F p = true → kWalk (kAddAt F q e) p = true := by
  intro q
  induction q with
  | nil => intro F e p _ hp; simp only [kAddAt]; exact kWalk_append F e p hp
  | cons j t ih =>
    intro F e p hq hp
    cases p with
    | nil => rfl
    | cons i t' =>
      simp only [kWalk] at hq hp ⊢
      simp only [kAddAt, List.getElem?_mapIdx]
      cases hi : F[i]? with
      | none => simp [hi] at hp
      | some n =>
        simp only [Option.map_some]
        rw [hi] at hp
        by_cases hij : i = j
        · subst hij
          rw [hi] at hq
          simp only [↓reduceIte]
          cases n with
          | group nm ch =>
            simp only at hq hp ⊢
            exact ih ch e t' hq hp
          | entry fs => simp at hp
        · simp only [hij, ↓reduceIte]
          exact hp


def AllWalk (gm : List (Nat × List Nat)) (F : List KNode) : Prop := ∀ x ∈ gm, kWalk F x.2 = true

theorem specGroups_allWalk : ∀ (recs : List GRec) (F : List KNode) (gm : List (Nat × List Nat)) (F' : List KNode)
    (gm' : List (Nat × List Nat)), AllWalk gm F → specGroups recs F gm = some (F', gm') → AllWalk gm' F' := by
  intro recs
  induction recs with
  | nil =>
    intro F gm F' gm' hw h
    simp only [specGroups, Option.some.injEq, Prod.mk.injEq] at h
    obtain ⟨rfl, rfl⟩ := h
    exact hw
  | cons r rs ih =>
    intro F gm F' gm' hw h
    simp only [specGroups] at h
    split at h
    · rename_i F1 p h1 h2
      refine ih F1 _ F' gm' ?_ h
      intro x hx
      simp only [List.mem_append, List.mem_filter, List.mem_singleton] at hx
      rcases hx with ⟨hx, _⟩ | rfl
      · exact insertRight_walk _ _ _ _ _ h1 (hw x hx)
      · exact insertRight_new_walk _ _ _ _ _ h1 h2
    · cases h

/-! ### the entry section -/

structure ERec where
  gid : Nat
  uuid : Bytes
  fields : List (Nat × Bytes)        -- (field type, payload) of the value fields

/-- the effect of one value field on the entry's field map (`Title`/`URL`/`UserName`/`Additional`/`BinaryDesc` are text with
    trailing NULs removed, `Password` a protected text, `BinaryData` raw bytes; a repeated field replaces the earlier one) -/
def insertField (acc : List (String × KVal)) (t : Nat) (v : Bytes) : List (String × KVal) :=
  if t = 7 then fInsert acc "Password" (.secret (trimNul v))
  else if t = 14 then fInsert acc "BinaryData" (.raw v)
  else fInsert acc (entryName t) (.text (trimNul v))

def valueType (t : Nat) : Prop := t = 4 ∨ t = 5 ∨ t = 6 ∨ t = 7 ∨ t = 8 ∨ t = 13 ∨ t = 14

def ERec.ok (e : ERec) : Prop :=
  e.gid < 4294967296 ∧ e.uuid.length = 16 ∧ ∀ f ∈ e.fields, valueType f.1 ∧ f.2.length < 4294967296

def encodeEntry (e : ERec) : Bytes :=
  fieldBytes 1 e.uuid ++ (fieldBytes 2 (toLe32 e.gid) ++ (e.fields.flatMap (fun f => fieldBytes f.1 f.2) ++ fieldBytes 0xffff []))

def entryFields (e : ERec) : List (String × KVal) := e.fields.foldl (fun acc f => insertField acc f.1 f.2) []

theorem parseEntries_field (gm : List (Nat × List Nat)) (fuel want ty : Nat) (v rest : Bytes) (s : ESt) (hc : s.count < want)
    (ht : ty < 65536) (hv : v.length < 4294967296) :
    parseEntries gm (fuel + 1) want (fieldBytes ty v ++ rest) s =
      match entryField gm s ty v.length v with
      | .ok s' => parseEntries gm fuel want rest s'
      | .err c => .err c
      | .panic p => .panic p := by
  rw [parseEntries]
  have : ¬ (s.count ≥ want) := by omega
  simp only [this, ↓reduceIte, readField_field ty v rest ht hv]
  cases entryField gm s ty v.length v <;> rfl

theorem entryField_value (gm : List (Nat × List Nat)) (s : ESt) (t : Nat) (v : Bytes) (ht : valueType t) :
    entryField gm s t v.length v = .ok { s with fields := insertField s.fields t v } := by
  rcases ht with rfl | rfl | rfl | rfl | rfl | rfl | rfl <;> simp [entryField, insertField]

theorem parseEntries_values (gm : List (Nat × List Nat)) (want : Nat) : ∀ (fs : List (Nat × Bytes)) (fuel : Nat) (rest : Bytes)
    (s : ESt), s.count < want → (∀ f ∈ fs, valueType f.1 ∧ f.2.length < 4294967296) →
    parseEntries gm (fuel + fs.length) want (fs.flatMap (fun f => fieldBytes f.1 f.2) ++ rest) s
      = parseEntries gm fuel want rest { s with fields := fs.foldl (fun acc f => insertField acc f.1 f.2) s.fields } := by
  intro fs
  induction fs with
  | nil => intro fuel rest s _ _; rfl
  | cons f fs ih =>
    intro fuel rest s hc hok
    obtain ⟨hv, hl⟩ := hok f (List.mem_cons_self ..)
    have ht : f.1 < 65536 := by rcases hv with h | h | h | h | h | h | h <;> omega
    simp only [List.flatMap_cons, List.append_assoc, List.length_cons, List.foldl_cons]
    rw [show fuel + (fs.length + 1) = (fuel + fs.length) + 1 by omega,
      parseEntries_field gm _ want f.1 f.2 _ s hc ht hl, entryField_value gm s f.1 f.2 hv]
    simp only
    rw [ih fuel rest _ (by simpa using hc) (fun g hg => hok g (List.mem_cons_of_mem _ hg))]

/-- the specification of the entry section: each entry is appended to the children of the group at the position the
    group-id map records for the id it names -/
def placeEntries (gm : List (Nat × List Nat)) : List ERec → List KNode → List KNode
  | [], F => F
  | e :: es, F =>
    match gm.find? (·.1 == e.gid) with
    | some (_, p) => placeEntries gm es (kAddAt F p (.entry (entryFields e)))
    | none => placeEntries gm es F

theorem parseEntries_record (gm : List (Nat × List Nat)) (fuel want : Nat) (e : ERec) (rest : Bytes) (s : ESt)
    (hc : s.count < want) (he : e.ok) (hs : s.fields = []) :
    parseEntries gm (fuel + 3 + e.fields.length) want (encodeEntry e ++ rest) s =
      match entryEnd gm { s with gid := some e.gid, fields := entryFields e } with
      | .ok s' => parseEntries gm fuel want rest s'
      | .err c => .err c
      | .panic p => .panic p := by
  obtain ⟨h1, h2, h3⟩ := he
  unfold encodeEntry
  simp only [List.append_assoc]
  rw [show fuel + 3 + e.fields.length = (fuel + 1 + e.fields.length + 1) + 1 by omega,
    parseEntries_field gm _ want 1 _ _ s hc (by omega) (by omega)]
  have g1 : entryField gm s 1 e.uuid.length e.uuid = .ok s := by
    simp [entryField, ensureLen, Outcome.bind, h2]
  rw [g1]
  simp only
  rw [parseEntries_field gm _ want 2 _ _ s hc (by omega) (by simp)]
  have g2 : entryField gm s 2 (toLe32 e.gid).length (toLe32 e.gid) = .ok { s with gid := some e.gid } := by
    simp [entryField, ensureLen, Outcome.bind, le32_toLe32_nil _ h1]
  rw [g2]
  simp only
  rw [parseEntries_values gm want e.fields (fuel + 1) _ _ (by simpa using hc) h3]
  rw [parseEntries_field gm fuel want 0xffff [] _ _ (by simpa using hc) (by omega) (by simp)]
  have g4 : ∀ st : ESt, entryField gm st 0xffff ([] : Bytes).length [] = entryEnd gm st := by
    intro st
    simp [entryField, ensureLen, Outcome.bind]
  rw [g4]
  simp only [hs, entryFields]

theorem parseEntries_records (gm : List (Nat × List Nat)) : ∀ (es : List ERec) (fuel want : Nat) (rest : Bytes) (s : ESt),
    AllWalk gm s.rootCh → (∀ e ∈ es, e.ok ∧ (gm.find? (·.1 == e.gid)).isSome) → want = s.count + es.length →
    s.fields = [] → s.gid = none → (es.map fun e => 3 + e.fields.length).sum + 1 ≤ fuel →
    ∃ s', parseEntries gm fuel want (es.flatMap encodeEntry ++ rest) s = .ok (s', rest)
      ∧ s'.rootCh = placeEntries gm es s.rootCh ∧ s'.gid = none := by
  intro es
  induction es with
  | nil =>
    intro fuel want rest s _ _ hw _ hg hf
    obtain ⟨f, rfl⟩ : ∃ f, fuel = f + 1 := ⟨fuel - 1, by simp at hf; omega⟩
    refine ⟨s, ?_, rfl, hg⟩
    rw [parseEntries]
    have : s.count ≥ want := by simp at hw; omega
    simp [this]
  | cons e es ih =>
    intro fuel want rest s haw hok hw hfl hg hf
    obtain ⟨he, hfind⟩ := hok e (List.mem_cons_self ..)
    obtain ⟨f, rfl⟩ : ∃ f, fuel = f + 3 + e.fields.length := ⟨fuel - 3 - e.fields.length, by simp at hf; omega⟩
    simp only [List.flatMap_cons, List.append_assoc]
    rw [parseEntries_record gm f want e _ s (by simp at hw; omega) he hfl]
    cases hfd : gm.find? (·.1 == e.gid) with
    | none => simp [hfd] at hfind
    | some kp =>
      obtain ⟨k, p⟩ := kp
      have hmem : (k, p) ∈ gm := List.mem_of_find?_eq_some hfd
      have hwalk : kWalk s.rootCh p = true := haw (k, p) hmem
      have hend : entryEnd gm { s with gid := some e.gid, fields := entryFields e }
          = .ok { rootCh := kAddAt s.rootCh p (.entry (entryFields e)), fields := [], gid := none, count := s.count + 1 } := by
        simp [entryEnd, hfd, hwalk]
      rw [hend]
      simp only
      have haw' : AllWalk gm (kAddAt s.rootCh p (.entry (entryFields e))) := by
        intro x hx
        exact kAddAt_walk p s.rootCh _ x.2 hwalk (haw x hx)
      obtain ⟨s', i1, i2, i3⟩ := ih f want rest
        { rootCh := kAddAt s.rootCh p (.entry (entryFields e)), fields := [], gid := none, count := s.count + 1 } haw'
        (fun e' he' => hok e' (List.mem_cons_of_mem _ he')) (by simp at hw ⊢; omega) rfl rfl
        (by simp only [List.map_cons, List.sum_cons] at hf; omega)
      refine ⟨s', i1, ?_, i3⟩
      rw [i2]
      simp only [placeEntries, hfd]


/-! ### what the position paths designate -/

/-- the group a position path designates: its name and children -/
def groupAt : List KNode → List Nat → Option (Bytes × List KNode)
  | _, [] => none
  | cs, [i] => match cs[i]? with | some (.group nm ch) => some (nm, ch) | _ => none
  | cs, i :: j :: t => match cs[i]? with | some (.group _ ch) => groupAt ch (j :: t) | _ => none

theorem spinePos_ne_nil : ∀ (d : Nat) (F : List KNode) (p : List Nat), spinePos F d = some p → p ≠ [] := by
  intro d
  cases d with
  | zero => intro F p h; simp only [spinePos, Option.some.injEq] at h; subst h; simp
  | succ d =>
    intro F p h
    simp only [spinePos] at h
    split at h
    · simp only [Option.map_eq_some_iff] at h
      obtain ⟨a, _, rfl⟩ := h
      simp
    · cases h

/-- the path recorded for a group record designates a group with the record's name (and no children yet) -/
theorem insertRight_new_at : ∀ (d : Nat) (F : List KNode) (nm : Bytes) (F' : List KNode) (p : List Nat),
    insertRight F d (.group nm []) = some F' → spinePos F d = some p → groupAt F' p = some (nm, []) := by
  intro d
  induction d with
  | zero =>
    intro F nm F' p h hp
    simp only [insertRight, Option.some.injEq] at h
    simp only [spinePos, Option.some.injEq] at hp
    subst h; subst hp
    simp [groupAt]
  | succ d ih =>
    intro F nm F' p h hp
    simp only [insertRight] at h
    simp only [spinePos] at hp
    split at h
    · rename_i nm2 ch hlast
      rw [hlast] at hp
      simp only at hp
      obtain ⟨ys, rfl⟩ := List.getLast?_eq_some_iff.mp hlast
      cases hr : insertRight ch d (.group nm []) with
      | none => simp [hr] at h
      | some ch' =>
        cases hs : spinePos ch d with
        | none => simp [hs] at hp
        | some p' =>
          simp only [hr, Option.map_some, Option.some.injEq, List.dropLast_concat] at h
          simp only [hs, Option.map_some, Option.some.injEq] at hp
          subst h; subst hp
          have hne := spinePos_ne_nil d ch p' hs
          cases p' with
          | nil => exact absurd rfl hne
          | cons j t =>
            simp only [groupAt, List.length_append, List.length_cons, List.length_nil, Nat.add_sub_cancel]
            rw [List.getElem?_append_right (Nat.le_refl _)]
            simp only [Nat.sub_self, List.getElem?_cons_zero]
            exact ih ch nm ch' (j :: t) hr hs
    · cases h

/-- appending an entry at a position path adds it to the children of the designated group and keeps its name -/
theorem kAddAt_at : ∀ (p : List Nat) (F : List KNode) (e : KNode) (nm : Bytes) (ch : List KNode),
    groupAt F p = some (nm, ch) → groupAt (kAddAt F p e) p = some (nm, ch ++ [e]) := by
  intro p
  induction p with
  | nil => intro F e nm ch h; simp [groupAt] at h
  | cons i t ih =>
    intro F e nm ch h
    cases t with
    | nil =>
      simp only [groupAt] at h ⊢
      simp only [kAddAt, List.getElem?_mapIdx]
      cases hi : F[i]? with
      | none => simp [hi] at h
      | some n =>
        rw [hi] at h
        cases n with
        | group n2 c2 =>
          simp only [Option.some.injEq, Prod.mk.injEq] at h
          obtain ⟨rfl, rfl⟩ := h
          simp [kAddAt]
        | entry fs => simp at h
    | cons j t' =>
      simp only [groupAt] at h ⊢
      simp only [kAddAt, List.getElem?_mapIdx]
      cases hi : F[i]? with
      | none => simp [hi] at h
      | some n =>
        rw [hi] at h
        cases n with
        | group n2 c2 =>
          simp only [Option.map_some, ↓reduceIte]
          exact ih c2 e nm ch h
        | entry fs => simp at h


theorem specGroups_find : ∀ (recs : List GRec) (F : List KNode) (gm : List (Nat × List Nat)) (F' : List KNode)
    (gm' : List (Nat × List Nat)) (g : Nat), specGroups recs F gm = some (F', gm') →
    ((gm.find? (·.1 == g)).isSome ∨ ∃ r ∈ recs, r.gid = g) → (gm'.find? (·.1 == g)).isSome := by
  intro recs
  induction recs with
  | nil =>
    intro F gm F' gm' g h hor
    simp only [specGroups, Option.some.injEq, Prod.mk.injEq] at h
    obtain ⟨_, rfl⟩ := h
    rcases hor with h | ⟨r, hr, _⟩
    · exact h
    · cases hr
  | cons r rs ih =>
    intro F gm F' gm' g h hor
    simp only [specGroups] at h
    split at h
    · rename_i F1 p h1 h2
      refine ih F1 _ F' gm' g h ?_
      by_cases hg : r.gid = g
      · left
        rw [List.find?_isSome]
        exact ⟨(r.gid, p), by simp, by simp [hg]⟩
      · rcases hor with hf | ⟨r', hr', hr'g⟩
        · left
          rw [List.find?_isSome] at hf ⊢
          obtain ⟨x, hx, hxg⟩ := hf
          refine ⟨x, ?_, hxg⟩
          simp only [List.mem_append, List.mem_filter, List.mem_singleton]
          left
          refine ⟨hx, ?_⟩
          simp only [beq_iff_eq] at hxg
          simp only [bne_iff_ne, ne_eq]
          rw [hxg]
          exact fun h => hg h.symm
        · rcases List.mem_cons.mp hr' with rfl | hr'
          · exact absurd hr'g hg
          · right; exact ⟨r', hr', hr'g⟩
    · cases h

theorem encodeGroups_len (gs : List GRec) : 4 * gs.length ≤ (gs.flatMap encodeGroup).length := by
  induction gs with
  | nil => simp
  | cons r rs ih =>
    simp only [List.flatMap_cons, List.length_append, List.length_cons]
    have : 4 ≤ (encodeGroup r).length := by simp [encodeGroup, fieldBytes, toLe16]; omega
    omega

theorem valueFields_len (fs : List (Nat × Bytes)) : fs.length ≤ (fs.flatMap (fun f => fieldBytes f.1 f.2)).length := by
  induction fs with
  | nil => simp
  | cons f fs ih =>
    simp only [List.flatMap_cons, List.length_append, List.length_cons]
    have : 1 ≤ (fieldBytes f.1 f.2).length := by simp [fieldBytes, toLe16]
    omega

theorem encodeEntries_len (es : List ERec) : (es.map fun e => 3 + e.fields.length).sum ≤ (es.flatMap encodeEntry).length := by
  induction es with
  | nil => simp
  | cons e es ih =>
    simp only [List.map_cons, List.sum_cons, List.flatMap_cons, List.length_append]
    have := valueFields_len e.fields
    have : 3 + e.fields.length ≤ (encodeEntry e).length := by
      simp only [encodeEntry, List.length_append]
      have : 1 ≤ (fieldBytes 1 e.uuid).length := by simp [fieldBytes, toLe16]
      have : 1 ≤ (fieldBytes 2 (toLe32 e.gid)).length := by simp [fieldBytes, toLe16]
      have : 1 ≤ (fieldBytes 0xffff []).length := by simp [fieldBytes, toLe16]
      omega
    omega

/-- **KDB record section.**  For every list of group records with conforming level numbers (any names, any ids, any
    depth) and every list of entry records each naming the id of some group record (any subset and order of value
    fields), the reader returns the forest the records denote — groups appended along the rightmost spine at the depth
    their level gives — with every entry appended to the children of the group its id names (the last record carrying
    that id). -/
theorem parseDb_records (gs : List GRec) (es : List ERec) (hc : conform 0 gs)
    (he : ∀ e ∈ es, e.ok ∧ ∃ g ∈ gs, g.gid = e.gid) :
    ∃ F0 gm, specGroups gs [] [] = some (F0, gm) ∧ AllWalk gm F0
      ∧ parseDb gs.length es.length (gs.flatMap encodeGroup ++ es.flatMap encodeEntry) = .ok (placeEntries gm es F0) := by
  obtain ⟨s', h1, h2, h3⟩ := parseGroups_records gs ((gs.flatMap encodeGroup ++ es.flatMap encodeEntry).length + 1) gs.length
    (es.flatMap encodeEntry) {} rfl hc (by simp) rfl (by
      have := encodeGroups_len gs
      simp only [List.length_append]; omega)
  have hF : forestOf ({} : GSt).branch ({} : GSt).rootCh = [] := by simp [forestOf, closeBranch]
  rw [hF] at h2
  have hgm : ({} : GSt).gidMap = [] := rfl
  rw [hgm] at h2
  have haw : AllWalk s'.gidMap (forestOf s'.branch s'.rootCh) :=
    specGroups_allWalk gs [] [] _ _ (by intro x hx; cases hx) h2
  refine ⟨_, _, h2, haw, ?_⟩
  unfold parseDb
  rw [h1]
  simp only [Outcome.bind, h3, Option.isSome_none, Bool.false_eq_true, ↓reduceIte]
  rw [collapse_eq _ _ _ _ (by omega)]
  simp only [collapseTo]
  obtain ⟨e', j1, j2, j3⟩ := parseEntries_records s'.gidMap es ((es.flatMap encodeEntry).length + 1) es.length []
    { rootCh := s'.rootCh ++ closeBranch s'.branch } haw
    (fun e hee => ⟨(he e hee).1, specGroups_find gs [] [] _ _ e.gid h2 (Or.inr (he e hee).2)⟩)
    (by simp) rfl rfl (by have := encodeEntries_len es; omega)
  simp only [List.append_nil] at j1
  rw [j1]
  simp only [j3, Option.isSome_none, Bool.false_eq_true, ↓reduceIte, j2]
  rfl

end Kp.Fmt
