import KpModel.Format.Kdbx4
/-
Models of the legacy containers: `src/format/kdbx3.rs` (KDBX 3.1: u16-length header fields, stream-start
bytes, SHA-256 hashed block stream, whole-stream decompression, inner key = SHA-256 of the header key) and
`src/format/kdb.rs` (KeePass 1: fixed header, second un-padding, level-driven group records, entries attached
through a gid → name-path map).  Property C02 (and the legacy part of C04/C06).
-/
namespace Kp.Fmt

/-! ### KDBX 3.1 -/

structure H3Acc where
  cipher : Option OuterCipher := none
  compression : Option Bool := none
  masterSeed : Option Bytes := none
  transformSeed : Option Bytes := none
  rounds : Option Nat := none
  iv : Option Bytes := none
  streamKey : Option Bytes := none
  streamStart : Option Bytes := none
  inner : Option InnerCipher := none
  deriving Repr

def h3Field (acc : H3Acc) (t : UInt8) (buf : Bytes) : Outcome (Option H3Acc) :=
  if t = 0 then .ok none
  else if t = 1 then .ok (some acc)
  else if t = 2 then
    match cipherOfUuid buf with
    | some c => .ok (some { acc with cipher := some c })
    | none => .err .integrity
  else if t = 3 then do
    let v ← readU32 "kdbx3::parse_outer_header:index" buf
    if v = 0 then .ok (some { acc with compression := some false })
    else if v = 1 then .ok (some { acc with compression := some true })
    else .err .integrity
  else if t = 4 then .ok (some { acc with masterSeed := some buf })
  else if t = 5 then .ok (some { acc with transformSeed := some buf })
  else if t = 6 then do
    let v ← readU64 "kdbx3::parse_outer_header:index" buf
    .ok (some { acc with rounds := some v })
  else if t = 7 then .ok (some { acc with iv := some buf })
  else if t = 8 then .ok (some { acc with streamKey := some buf })
  else if t = 9 then .ok (some { acc with streamStart := some buf })
  else if t = 10 then do
    let v ← readU32 "kdbx3::parse_outer_header:index" buf
    match innerOfId v with
    | some c => .ok (some { acc with inner := some c })
    | none => .err .integrity
  else .err .integrity

/-- TLV loop with `u16` lengths -/
def h3Loop : Nat → Bytes → Nat → H3Acc → Outcome (H3Acc × Nat)
  | 0, _, _, _ => .panic "kdbx3::parse_outer_header:index"
  | fuel + 1, rest, n, acc =>
    match rest with
    | [] => .panic "kdbx3::parse_outer_header:index"
    | t :: r1 =>
      if r1.length < 2 then .panic "kdbx3::parse_outer_header:index" else
      let len := le16 r1
      let r2 := r1.drop 2
      if r2.length < len then .panic "kdbx3::parse_outer_header:index" else
      match h3Field acc t (r2.take len) with
      | .ok none => .ok (acc, n + 3 + len)
      | .ok (some acc') => h3Loop fuel (r2.drop len) (n + 3 + len) acc'
      | .err c => .err c
      | .panic s => .panic s

structure Decrypted3 where
  minor : Nat
  outer : OuterCipher
  compression : Bool
  inner : InnerCipher
  rounds : Nat
  innerKey : Bytes          -- SHA-256 of the protected stream key
  xml : Bytes
  deriving DecidableEq, Repr

/-- the hashed block loop of `decrypt_kdbx3`: starts at offset 32, stops at a zero-size block -/
def hashedBlocks (P : Prims) : Nat → Bytes → Bytes → Outcome Bytes
  | 0, _, _ => .panic "decrypt_kdbx3:index"
  | fuel + 1, rest, out =>
    -- `payload[(pos+4)..(pos+36)]`, `payload[(pos+36)..(pos+40)]`
    if rest.length < 36 then .panic "decrypt_kdbx3:index"
    else if rest.length < 40 then .panic "decrypt_kdbx3:index"
    else
      let hash := (rest.drop 4).take 32
      let size := le32 (rest.drop 36)
      if size = 0 then .ok out
      else
        let r := rest.drop 40
        if r.length < size then .panic "decrypt_kdbx3:index"
        else
          let block := r.take size
          if hash != P.sha256 block then .err .integrity
          else hashedBlocks P fuel (r.drop size) (out ++ block)

/-- `decrypt_kdbx3(data, key)` -/
def decrypt3 (P : Prims) (data : Bytes) (composite : Option Bytes) : Outcome Decrypted3 :=
  match Kp.Io.parseVersion data with
  | none => .err .integrity
  | some v => do
    let minor := match v with | .kdb m => m | .kdb2 m => m | .kdbx3 m => m | .kdbx4 m => m
    let (acc, bodyStart) ← h3Loop (data.length + 1) (data.drop 12) 12 {}
    match acc.cipher, acc.compression, acc.masterSeed, acc.transformSeed, acc.rounds, acc.iv, acc.streamKey,
          acc.streamStart, acc.inner with
    | some c, some z, some ms, some ts, some rounds, some iv, some sk, some ss, some ic =>
      let innerKey := P.sha256 sk
      let payloadEnc := data.drop bodyStart
      match composite with
      | none => .err .key
      | some comp => do
        let tk ← runKdf P (.aes rounds) ts comp
        let masterKey := P.sha256 (ms ++ tk)
        match P.decO c masterKey iv payloadEnc with
        | none => .err .integrity
        | some payload =>
          -- `&payload[0..stream_start.len()]`
          if payload.length < ss.length then .panic "decrypt_kdbx3:index"
          else if payload.take ss.length != ss then .err .key
          else do
            let buf ← hashedBlocks P (payload.length + 1) (payload.drop 32) []
            match (if z then P.gunzip buf else some buf) with
            | none => .err .io
            | some xml => .ok ⟨minor, c, z, ic, rounds, innerKey, xml⟩
    | _, _, _, _, _, _, _, _, _ => .err .integrity

/-! ### KDB (KeePass 1) -/

inductive KVal where
  | text (b : Bytes)        -- `Value::Unprotected(from_utf8(..))`: the bytes with trailing NULs removed (lossy decoding outside)
  | secret (b : Bytes)      -- `Value::Protected`
  | raw (b : Bytes)         -- `Value::Bytes`
  deriving DecidableEq, Repr

inductive KNode where
  | group (name : Bytes) (children : List KNode)
  | entry (fields : List (String × KVal))
  deriving Repr, Inhabited

def trimNul (b : Bytes) : Bytes := (b.reverse.dropWhile (· == 0)).reverse

def KNode.name : KNode → Bytes | .group n _ => n | .entry _ => []
def KNode.children : KNode → List KNode | .group _ cs => cs | .entry _ => []
def KNode.isGroup : KNode → Bool | .group .. => true | .entry _ => false

/-- `Entry::get_title()` for a KDB entry: the `Title` field if it is text -/
def KNode.title : KNode → Option Bytes
  | .group n _ => some n
  | .entry fs => match fs.lookup "Title" with | some (.text b) => some b | _ => none

/-- `collapse_tail_groups(branch, level, root)`: pop leaves down to `level`, each into its parent (or the root) -/
def collapse : Nat → List (Bytes × List KNode) → Nat → List KNode → List (Bytes × List KNode) × List KNode
  | 0, branch, _, rootCh => (branch, rootCh)
  | fuel + 1, branch, level, rootCh =>
    if level < branch.length then
      match branch.reverse with
      | [] => (branch, rootCh)
      | (ln, lc) :: revRest =>
        let rest := revRest.reverse
        match rest.reverse with
        | [] => collapse fuel rest level (rootCh ++ [.group ln lc])
        | (pn, pc) :: revRest' => collapse fuel (revRest'.reverse ++ [(pn, pc ++ [.group ln lc])]) level rootCh
    else (branch, rootCh)

structure GSt where
  rootCh : List KNode := []
  branch : List (Bytes × List KNode) := []      -- current branch, outermost first: (name, children so far)
  gidMap : List (Nat × List Nat) := []           -- gid ↦ child position at each level; later insertions replace earlier ones
  name : Bytes := []
  level : Option Nat := none
  gid : Option Nat := none
  path : List Nat := []
  count : Nat := 0

def ensureLen (sz want : Nat) : Outcome Unit := if sz = want then .ok () else .err .integrity

/-- `parse_groups`: the record loop; returns the state and the remaining bytes -/
def parseGroups : Nat → Nat → Bytes → GSt → Outcome (GSt × Bytes)
  | 0, _, data, s => .ok (s, data)
  | fuel + 1, want, data, s =>
    if s.count ≥ want then .ok (s, data)
    else
      -- `read_u16(&data[0..])`, `read_u32(&data[2..])`, `&data[6..6 + size]`
      if data.length < 2 then .panic "parse_groups:index"
      else if data.length < 6 then .panic "parse_groups:index"
      else
        let ty := le16 data
        let sz := le32 (data.drop 2)
        let r := data.drop 6
        if r.length < sz then .panic "parse_groups:index"
        else
          let v := r.take sz
          let next := r.drop sz
          let cont := fun (s' : GSt) => parseGroups fuel want next s'
          if ty = 0x0000 then cont s
          else if ty = 0x0001 then (ensureLen sz 4).bind fun _ => cont { s with gid := some (le32 v) }
          else if ty = 0x0002 then cont { s with name := trimNul v }
          else if 0x0003 ≤ ty ∧ ty ≤ 0x0006 then (ensureLen sz 5).bind fun _ => cont s
          else if ty = 0x0007 then (ensureLen sz 4).bind fun _ => cont s
          else if ty = 0x0008 then (ensureLen sz 2).bind fun _ => cont { s with level := some (le16 v) }
          else if ty = 0x0009 then (ensureLen sz 4).bind fun _ => cont s
          else if ty = 0xffff then
            (ensureLen sz 0).bind fun _ =>
              match s.level with
              | none => .err .integrity
              | some level =>
                let (branch, rootCh, path) :=
                  if level < s.branch.length then
                    let (b, rc) := collapse (s.branch.length + 1) s.branch level s.rootCh
                    (b, rc, s.path.take level)
                  else (s.branch, s.rootCh, s.path)
                if level = branch.length then
                  -- the position the group takes among its parent's children once the branch is collapsed
                  let position := match branch.getLast? with | some (_, cs) => cs.length | none => rootCh.length
                  let path := path ++ [position]
                  let branch := branch ++ [(s.name, [])]
                  match s.gid with
                  | none => .err .integrity
                  | some g =>
                    cont { s with rootCh := rootCh, branch := branch, path := path,
                                  gidMap := (s.gidMap.filter (·.1 != g)) ++ [(g, path)],
                                  name := [], gid := none, count := s.count + 1 }
                else .err .integrity
          else .err .integrity

/-- walking the position path: every step must designate a group -/
def kWalk : List KNode → List Nat → Bool
  | _, [] => true
  | cs, i :: t => match cs[i]? with | some (.group _ ch) => kWalk ch t | _ => false

/-- append `e` to the children of the group designated by the position path (the empty path designates the root) -/
def kAddAt : List KNode → List Nat → KNode → List KNode
  | cs, [], e => cs ++ [e]
  | cs, i :: t, e =>
    cs.mapIdx fun j n => if j = i then (match n with | .group nm ch => .group nm (kAddAt ch t e) | x => x) else n

structure ESt where
  rootCh : List KNode
  fields : List (String × KVal) := []
  gid : Option Nat := none
  count : Nat := 0

def entryName (ty : Nat) : String :=
  if ty = 0x0004 then "Title" else if ty = 0x0005 then "URL" else if ty = 0x0006 then "UserName"
  else if ty = 0x0008 then "Additional" else "BinaryDesc"

def fInsert (fs : List (String × KVal)) (k : String) (v : KVal) : List (String × KVal) :=
  (fs.filter (·.1 != k)) ++ [(k, v)]

/-- `parse_entries` -/
def parseEntries (gidMap : List (Nat × List Nat)) : Nat → Nat → Bytes → ESt → Outcome (ESt × Bytes)
  | 0, _, data, s => .ok (s, data)
  | fuel + 1, want, data, s =>
    if s.count ≥ want then .ok (s, data)
    else
      if data.length < 2 then .panic "parse_entries:index"
      else if data.length < 6 then .panic "parse_entries:index"
      else
        let ty := le16 data
        let sz := le32 (data.drop 2)
        let r := data.drop 6
        if r.length < sz then .panic "parse_entries:index"
        else
          let v := r.take sz
          let next := r.drop sz
          let cont := fun (s' : ESt) => parseEntries gidMap fuel want next s'
          if ty = 0x0000 then cont s
          else if ty = 0x0001 then (ensureLen sz 16).bind fun _ => cont s
          else if ty = 0x0002 then (ensureLen sz 4).bind fun _ => cont { s with gid := some (le32 v) }
          else if ty = 0x0003 then (ensureLen sz 4).bind fun _ => cont s
          else if ty = 0x0004 ∨ ty = 0x0005 ∨ ty = 0x0006 ∨ ty = 0x0008 ∨ ty = 0x000d then
            cont { s with fields := fInsert s.fields (entryName ty) (.text (trimNul v)) }
          else if ty = 0x0007 then cont { s with fields := fInsert s.fields "Password" (.secret (trimNul v)) }
          else if 0x0009 ≤ ty ∧ ty ≤ 0x000c then (ensureLen sz 5).bind fun _ => cont s
          else if ty = 0x000e then cont { s with fields := fInsert s.fields "BinaryData" (.raw v) }
          else if ty = 0xffff then
            (ensureLen sz 0).bind fun _ =>
              match s.gid with
              | none => .err .integrity
              | some g =>
                match (gidMap.find? (·.1 == g)) with
                | none => .err .integrity
                | some (_, path) =>
                  if !kWalk s.rootCh path then .err .integrity
                  else cont { rootCh := kAddAt s.rootCh path (.entry s.fields), fields := [], gid := none, count := s.count + 1 }
          else .err .integrity

structure DecryptedKdb where
  minor : Nat
  outer : OuterCipher
  rounds : Nat
  root : List KNode            -- children of the root group ("Root")
  deriving Repr

/-- `parse_kdb(data, key)`; the composite is `Kp.Key.compositeKdb` (a lone element is used unhashed) -/
def parseKdb (P : Prims) (data : Bytes) (composite : Option (Option Bytes)) : Outcome DecryptedKdb :=
  if data.length < 124 then .err .integrity
  else
    let flags := le32 (data.drop 8)
    let subversion := le32 (data.drop 12)
    let masterSeed := (data.drop 16).take 16
    let iv := (data.drop 32).take 16
    let numGroups := le32 (data.drop 48)
    let numEntries := le32 (data.drop 52)
    let contentsHash := (data.drop 56).take 32
    let transformSeed := (data.drop 88).take 32
    let rounds := le32 (data.drop 120)
    match composite with
    | none => .err .key                                   -- no key element at all
    | some none => .panic "parse_kdb:unwrap"              -- a lone key element that is not 32 bytes long
    | some (some comp) => do
      let tk ← runKdf P (.aes rounds) transformSeed comp
      let masterKey := P.sha256 (masterSeed ++ tk)
      let cipher ← (if flags % 4 ≥ 2 then Outcome.ok OuterCipher.aes256
                    else if flags % 16 ≥ 8 then Outcome.ok OuterCipher.twofish else Outcome.err .integrity)
      match P.decO cipher masterKey iv (data.drop 124) with
      | none => .err .integrity
      | some padded =>
        -- the second un-padding: `payload_padded[len - 1]`, `[..len - padlen]`
        match padded.getLast? with
        | none => .panic "parse_kdb:arith"
        | some last =>
          if last.toNat > padded.length then .panic "parse_kdb:arith"
          else
            let payload := padded.take (padded.length - last.toNat)
            if contentsHash != P.sha256 payload then .err .key
            else do
              let (gs, rest) ← parseGroups (payload.length + 1) numGroups payload {}
              if gs.gid.isSome then .err .integrity else
              let (_, rootCh) := collapse (gs.branch.length + 1) gs.branch 0 gs.rootCh
              let (es, _) ← parseEntries gs.gidMap (rest.length + 1) numEntries rest { rootCh := rootCh }
              if es.gid.isSome then .err .integrity
              else .ok ⟨subversion % 65536, cipher, rounds, es.rootCh⟩

end Kp.Fmt
