import KpModel.Format.Kdbx4
/-
Models of the legacy containers: `src/format/kdbx3.rs` (KDBX 3.1: u16-length header fields, stream-start
bytes, SHA-256 hashed block stream, whole-stream decompression, inner key = SHA-256 of the header key) and
`src/format/kdb.rs` (KeePass 1: fixed header, second un-padding, level-driven group records, entries attached
through a gid → name-path map).  Property C02 (and the legacy part of C04/C06).
-/
namespace Kp.Fmt

/-! ### KDBX 3.1 -/

structure H3Acc where
  cipher : Option OuterCipher := none
  compression : Option Bool := none
  masterSeed : Option Bytes := none
  transformSeed : Option Bytes := none
  rounds : Option Nat := none
  iv : Option Bytes := none
  streamKey : Option Bytes := none
  streamStart : Option Bytes := none
  inner : Option InnerCipher := none
  deriving Repr

def h3Cipher (acc : H3Acc) (buf : Bytes) : Outcome (Option H3Acc) :=
  match cipherOfUuid buf with
  | some c => .ok (some { acc with cipher := some c })
  | none => .err .integrity
def h3Compression (acc : H3Acc) (buf : Bytes) : Outcome (Option H3Acc) := do
  let v ← readU32E buf
  if v = 0 then .ok (some { acc with compression := some false })
  else if v = 1 then .ok (some { acc with compression := some true })
  else .err .integrity
def h3Rounds (acc : H3Acc) (buf : Bytes) : Outcome (Option H3Acc) := do
  let v ← readU64E buf
  .ok (some { acc with rounds := some v })
def h3Inner (acc : H3Acc) (buf : Bytes) : Outcome (Option H3Acc) := do
  let v ← readU32E buf
  match innerOfId v with
  | some c => .ok (some { acc with inner := some c })
  | none => .err .integrity

def h3Field (acc : H3Acc) (t : UInt8) (buf : Bytes) : Outcome (Option H3Acc) :=
  if t = 0 then .ok none
  else if t = 1 then .ok (some acc)
  else if t = 2 then h3Cipher acc buf
  else if t = 3 then h3Compression acc buf
  else if t = 4 then .ok (some { acc with masterSeed := some buf })
  else if t = 5 then .ok (some { acc with transformSeed := some buf })
  else if t = 6 then h3Rounds acc buf
  else if t = 7 then .ok (some { acc with iv := some buf })
  else if t = 8 then .ok (some { acc with streamKey := some buf })
  else if t = 9 then .ok (some { acc with streamStart := some buf })
  else if t = 10 then h3Inner acc buf
  else .err .integrity

/-- TLV loop with `u16` lengths -/
def h3Loop : Nat → Bytes → Nat → H3Acc → Outcome (H3Acc × Nat)
  | 0, _, _, _ => .err .integrity
  | fuel + 1, rest, n, acc =>
    match rest with
    | [] => .err .integrity
    | t :: r1 =>
      if r1.length < 2 then .err .integrity else
      let len := le16 r1
      let r2 := r1.drop 2
      if r2.length < len then .err .integrity else
      match h3Field acc t (r2.take len) with
      | .ok none => .ok (acc, n + 3 + len)
      | .ok (some acc') => h3Loop fuel (r2.drop len) (n + 3 + len) acc'
      | .err c => .err c
      | .panic s => .panic s

structure Decrypted3 where
  minor : Nat
  outer : OuterCipher
  compression : Bool
  inner : InnerCipher
  rounds : Nat
  innerKey : Bytes          -- the protected stream key as stored (header field 8)
  xml : Bytes
  deriving DecidableEq, Repr

/-- the hashed block loop of `decrypt_kdbx3`: starts at offset 32, stops at a zero-size block -/
def hashedBlocks (P : Prims) : Nat → Bytes → Bytes → Outcome Bytes
  | 0, _, _ => .err .integrity
  | fuel + 1, rest, out =>
    -- `payload[(pos+4)..(pos+36)]`, `payload[(pos+36)..(pos+40)]`
    if rest.length < 36 then .err .integrity
    else if rest.length < 40 then .err .integrity
    else
      let hash := (rest.drop 4).take 32
      let size := le32 (rest.drop 36)
      if size = 0 then .ok out
      else
        let r := rest.drop 40
        if r.length < size then .err .integrity
        else
          let block := r.take size
          if hash != P.sha256 block then .err .integrity
          else hashedBlocks P fuel (r.drop size) (out ++ block)

/-- `decrypt_kdbx3(data, key)` -/
def decrypt3 (P : Prims) (data : Bytes) (composite : Option Bytes) : Outcome Decrypted3 :=
  match Kp.Io.parseVersion data with
  | none => .err .integrity
  | some v => do
    let minor := match v with | .kdb m => m | .kdb2 m => m | .kdbx3 m => m | .kdbx4 m => m
    let (acc, bodyStart) ← h3Loop (data.length + 1) (data.drop 12) 12 {}
    match acc.cipher, acc.compression, acc.masterSeed, acc.transformSeed, acc.rounds, acc.iv, acc.streamKey,
          acc.streamStart, acc.inner with
    | some c, some z, some ms, some ts, some rounds, some iv, some sk, some ss, some ic =>
      let innerKey := sk            -- the stored stream key; `InnerCipherConfig::get_cipher` derives the cipher key from it
      let payloadEnc := data.drop bodyStart
      match composite with
      | none => .err .key
      | some comp => do
        let tk ← runKdf P (.aes rounds) ts comp
        let masterKey := P.sha256 (ms ++ tk)
        match P.decO c masterKey iv payloadEnc with
        | none => .err .integrity
        | some payload =>
          -- `&payload[0..stream_start.len()]`
          if payload.length < ss.length then .err .key
          else if payload.take ss.length != ss then .err .key
          else do
            let buf ← hashedBlocks P (payload.length + 1) (payload.drop 32) []
            match (if z then P.gunzip buf else some buf) with
            | none => .err .io
            | some xml => .ok ⟨minor, c, z, ic, rounds, innerKey, xml⟩
    | _, _, _, _, _, _, _, _, _ => .err .integrity

/-! ### KDB (KeePass 1) -/

inductive KVal where
  | text (b : Bytes)        -- `Value::Unprotected(from_utf8(..))`: the bytes with trailing NULs removed (lossy decoding outside)
  | secret (b : Bytes)      -- `Value::Protected`
  | raw (b : Bytes)         -- `Value::Bytes`
  deriving DecidableEq, Repr

inductive KNode where
  | group (name : Bytes) (children : List KNode)
  | entry (fields : List (String × KVal))
  deriving Repr, Inhabited

def trimNul (b : Bytes) : Bytes := (b.reverse.dropWhile (· == 0)).reverse

def KNode.name : KNode → Bytes | .group n _ => n | .entry _ => []
def KNode.children : KNode → List KNode | .group _ cs => cs | .entry _ => []
def KNode.isGroup : KNode → Bool | .group .. => true | .entry _ => false

/-- `Entry::get_title()` for a KDB entry: the `Title` field if it is text -/
def KNode.title : KNode → Option Bytes
  | .group n _ => some n
  | .entry fs => match fs.lookup "Title" with | some (.text b) => some b | _ => none

/-- `collapse_tail_groups(branch, level, root)`: pop leaves down to `level`, each into its parent (or the root) -/
def collapse : Nat → List (Bytes × List KNode) → Nat → List KNode → List (Bytes × List KNode) × List KNode
  | 0, branch, _, rootCh => (branch, rootCh)
  | fuel + 1, branch, level, rootCh =>
    if level < branch.length then
      match branch.reverse with
      | [] => (branch, rootCh)
      | (ln, lc) :: revRest =>
        let rest := revRest.reverse
        match rest.reverse with
        | [] => collapse fuel rest level (rootCh ++ [.group ln lc])
        | (pn, pc) :: revRest' => collapse fuel (revRest'.reverse ++ [(pn, pc ++ [.group ln lc])]) level rootCh
    else (branch, rootCh)

structure GSt where
  rootCh : List KNode := []
  branch : List (Bytes × List KNode) := []      -- current branch, outermost first: (name, children so far)
  gidMap : List (Nat × List Nat) := []           -- gid ↦ child position at each level; later insertions replace earlier ones
  name : Bytes := []
  level : Option Nat := none
  gid : Option Nat := none
  path : List Nat := []
  count : Nat := 0

def ensureLen (sz want : Nat) : Outcome Unit := if sz = want then .ok () else .err .integrity

/-- `if level < branch.len() { group_path.truncate(level); collapse_tail_groups(..) }` -/
def groupBranch (s : GSt) (level : Nat) : List (Bytes × List KNode) × List KNode × List Nat :=
  if level < s.branch.length then
    let (b, rc) := collapse (s.branch.length + 1) s.branch level s.rootCh
    (b, rc, s.path.take level)
  else (s.branch, s.rootCh, s.path)

/-- push the group on the branch and record its position path -/
def groupPlace (s : GSt) (branch : List (Bytes × List KNode)) (rootCh : List KNode) (path : List Nat) (level : Nat) :
    Outcome GSt :=
  if level = branch.length then
    -- the position the group takes among its parent's children once the branch is collapsed
    let position := match branch.getLast? with | some (_, cs) => cs.length | none => rootCh.length
    match s.gid with
    | none => .err .integrity
    | some g =>
      .ok { s with rootCh := rootCh, branch := branch ++ [(s.name, [])], path := path ++ [position],
                   gidMap := (s.gidMap.filter (·.1 != g)) ++ [(g, path ++ [position])],
                   name := [], gid := none, count := s.count + 1 }
  else .err .integrity

/-- the end-of-group record of `parse_groups` -/
def groupEnd (s : GSt) : Outcome GSt :=
  match s.level with
  | none => .err .integrity
  | some level =>
    let t := groupBranch s level
    groupPlace s t.1 t.2.1 t.2.2 level

/-- one group record (`match field_type`) -/
def groupField (s : GSt) (ty sz : Nat) (v : Bytes) : Outcome GSt :=
  if ty = 0x0000 then .ok s
  else if ty = 0x0001 then (ensureLen sz 4).bind fun _ => .ok { s with gid := some (le32 v) }
  else if ty = 0x0002 then .ok { s with name := trimNul v }
  else if 0x0003 ≤ ty ∧ ty ≤ 0x0006 then (ensureLen sz 5).bind fun _ => .ok s
  else if ty = 0x0007 then (ensureLen sz 4).bind fun _ => .ok s
  else if ty = 0x0008 then (ensureLen sz 2).bind fun _ => .ok { s with level := some (le16 v) }
  else if ty = 0x0009 then (ensureLen sz 4).bind fun _ => .ok s
  else if ty = 0xffff then (ensureLen sz 0).bind fun _ => groupEnd s
  else .err .integrity

/-- `read_field(data)`: `(field_type: u16, field_size: u32, field_value)` or `none` when the data ends first -/
def readField (data : Bytes) : Option (Nat × Nat × Bytes × Bytes) :=
  if data.length < 6 then none
  else
    let sz := le32 (data.drop 2)
    let r := data.drop 6
    if r.length < sz then none else some (le16 data, sz, r.take sz, r.drop sz)

/-- `parse_groups`: the record loop; returns the state and the remaining bytes -/
def parseGroups : Nat → Nat → Bytes → GSt → Outcome (GSt × Bytes)
  | 0, _, data, s => .ok (s, data)
  | fuel + 1, want, data, s =>
    if s.count ≥ want then .ok (s, data)
    else
      match readField data with
      | none => .err .integrity
      | some (ty, sz, v, next) =>
        match groupField s ty sz v with
        | .ok s' => parseGroups fuel want next s'
        | .err c => .err c
        | .panic p => .panic p

/-- walking the position path: every step must designate a group -/
def kWalk : List KNode → List Nat → Bool
  | _, [] => true
  | cs, i :: t => match cs[i]? with | some (.group _ ch) => kWalk ch t | _ => false

/-- append `e` to the children of the group designated by the position path (the empty path designates the root) -/
def kAddAt : List KNode → List Nat → KNode → List KNode
  | cs, [], e => cs ++ [e]
  | cs, i :: t, e =>
    cs.mapIdx fun j n => if j = i then (match n with | .group nm ch => .group nm (kAddAt ch t e) | x => x) else n

structure ESt where
  rootCh : List KNode
  fields : List (String × KVal) := []
  gid : Option Nat := none
  count : Nat := 0

def entryName (ty : Nat) : String :=
  if ty = 0x0004 then "Title" else if ty = 0x0005 then "URL" else if ty = 0x0006 then "UserName"
  else if ty = 0x0008 then "Additional" else "BinaryDesc"

def fInsert (fs : List (String × KVal)) (k : String) (v : KVal) : List (String × KVal) :=
  (fs.filter (·.1 != k)) ++ [(k, v)]

/-- the end-of-entry record of `parse_entries`: attach the entry to the group its id names -/
def entryEnd (gidMap : List (Nat × List Nat)) (s : ESt) : Outcome ESt :=
  match s.gid with
  | none => .err .integrity
  | some g =>
    match (gidMap.find? (·.1 == g)) with
    | none => .err .integrity
    | some (_, path) =>
      if !kWalk s.rootCh path then .err .integrity
      else .ok { rootCh := kAddAt s.rootCh path (.entry s.fields), fields := [], gid := none, count := s.count + 1 }

/-- one entry record -/
def entryField (gidMap : List (Nat × List Nat)) (s : ESt) (ty sz : Nat) (v : Bytes) : Outcome ESt :=
  if ty = 0x0000 then .ok s
  else if ty = 0x0001 then (ensureLen sz 16).bind fun _ => .ok s
  else if ty = 0x0002 then (ensureLen sz 4).bind fun _ => .ok { s with gid := some (le32 v) }
  else if ty = 0x0003 then (ensureLen sz 4).bind fun _ => .ok s
  else if ty = 0x0004 ∨ ty = 0x0005 ∨ ty = 0x0006 ∨ ty = 0x0008 ∨ ty = 0x000d then
    .ok { s with fields := fInsert s.fields (entryName ty) (.text (trimNul v)) }
  else if ty = 0x0007 then .ok { s with fields := fInsert s.fields "Password" (.secret (trimNul v)) }
  else if 0x0009 ≤ ty ∧ ty ≤ 0x000c then (ensureLen sz 5).bind fun _ => .ok s
  else if ty = 0x000e then .ok { s with fields := fInsert s.fields "BinaryData" (.raw v) }
  else if ty = 0xffff then (ensureLen sz 0).bind fun _ => entryEnd gidMap s
  else .err .integrity

/-- `parse_entries` -/
def parseEntries (gidMap : List (Nat × List Nat)) : Nat → Nat → Bytes → ESt → Outcome (ESt × Bytes)
  | 0, _, data, s => .ok (s, data)
  | fuel + 1, want, data, s =>
    if s.count ≥ want then .ok (s, data)
    else
      match readField data with
      | none => .err .integrity
      | some (ty, sz, v, next) =>
        match entryField gidMap s ty sz v with
        | .ok s' => parseEntries gidMap fuel want next s'
        | .err c => .err c
        | .panic p => .panic p

/-- the record stage of `parse_kdb` (`parse_db`): groups, then entries -/
def parseDb (numGroups numEntries : Nat) (payload : Bytes) : Outcome (List KNode) :=
  (parseGroups (payload.length + 1) numGroups payload {}).bind fun (gs, rest) =>
    if gs.gid.isSome then .err .integrity else
    let (_, rootCh) := collapse (gs.branch.length + 1) gs.branch 0 gs.rootCh
    (parseEntries gs.gidMap (rest.length + 1) numEntries rest { rootCh := rootCh }).bind fun (es, _) =>
      if es.gid.isSome then .err .integrity else .ok es.rootCh

structure DecryptedKdb where
  minor : Nat
  outer : OuterCipher
  rounds : Nat
  root : List KNode            -- children of the root group ("Root")
  deriving Repr

/-- `parse_kdb(data, key)`; the composite is `Kp.Key.compositeKdb` (a lone element is used unhashed) -/
def parseKdb (P : Prims) (data : Bytes) (composite : Option (Option Bytes)) : Outcome DecryptedKdb :=
  if data.length < 124 then .err .integrity
  else
    let flags := le32 (data.drop 8)
    let subversion := le32 (data.drop 12)
    let masterSeed := (data.drop 16).take 16
    let iv := (data.drop 32).take 16
    let numGroups := le32 (data.drop 48)
    let numEntries := le32 (data.drop 52)
    let contentsHash := (data.drop 56).take 32
    let transformSeed := (data.drop 88).take 32
    let rounds := le32 (data.drop 120)
    match composite with
    | none => .err .key                                   -- no key element at all
    | some none => .err .key              -- a lone key element that is not 32 bytes long
    | some (some comp) => do
      let tk ← runKdf P (.aes rounds) transformSeed comp
      let masterKey := P.sha256 (masterSeed ++ tk)
      let cipher ← (if flags % 4 ≥ 2 then Outcome.ok OuterCipher.aes256
                    else if flags % 16 ≥ 8 then Outcome.ok OuterCipher.twofish else Outcome.err .integrity)
      match P.decO cipher masterKey iv (data.drop 124) with
      | none => .err .integrity
      | some padded =>
        -- the second un-padding: `payload_padded[len - 1]`, `[..len - padlen]`
        match padded.getLast? with
        | none => .err .key
        | some last =>
          if last.toNat > padded.length then .err .key
          else
            let payload := padded.take (padded.length - last.toNat)
            if contentsHash != P.sha256 payload then .err .key
            else do
              let root ← parseDb numGroups numEntries payload
              .ok ⟨subversion % 65536, cipher, rounds, root⟩

end Kp.Fmt
