import KpModel.Format.Bytes
import KpModel.Io
/-
Model of the KDBX4 container: `src/format/kdbx4/parse.rs` (`parse_outer_header`, `decrypt_kdbx4`,
`parse_inner_header`), `src/format/kdbx4/dump.rs` (`dump_kdbx4` and the header writers),
`src/hmac_block_stream.rs`, `src/variant_dictionary.rs`, `src/config.rs` (ids, sizes, KDF parameters).
Every Rust expression that can panic is modelled with its panic (site = function:class).
Cryptographic primitives are parameters (`Prims`).  Properties C01, C03–C09.
-/
namespace Kp.Fmt

inductive OuterCipher where | aes256 | twofish | chacha20
  deriving DecidableEq, Repr, Inhabited
inductive InnerCipher where | plain | salsa20 | chacha20
  deriving DecidableEq, Repr, Inhabited

inductive KdfConfig where
  | aes (rounds : Nat)
  | argon2 (id : Bool) (iterations memory parallelism version : Nat)   -- version: 0x10 or 0x13
  deriving DecidableEq, Repr, Inhabited

def cipherUuid : OuterCipher → Bytes
  | .aes256 => [0x31, 0xc1, 0xf2, 0xe6, 0xbf, 0x71, 0x43, 0x50, 0xbe, 0x58, 0x05, 0x21, 0x6a, 0xfc, 0x5a, 0xff]
  | .twofish => [0xad, 0x68, 0xf2, 0x9f, 0x57, 0x6f, 0x4b, 0xb9, 0xa3, 0x6a, 0xd4, 0x7a, 0xf9, 0x65, 0x34, 0x6c]
  | .chacha20 => [0xd6, 0x03, 0x8a, 0x2b, 0x8b, 0x6f, 0x4c, 0xb5, 0xa5, 0x24, 0x33, 0x9a, 0x31, 0xdb, 0xb5, 0x9a]

def cipherOfUuid (b : Bytes) : Option OuterCipher :=
  if b = cipherUuid .aes256 then some .aes256
  else if b = cipherUuid .twofish then some .twofish
  else if b = cipherUuid .chacha20 then some .chacha20
  else none

def kdfAesKdbx3 : Bytes := [0xc9, 0xd9, 0xf3, 0x9a, 0x62, 0x8a, 0x44, 0x60, 0xbf, 0x74, 0x0d, 0x08, 0xc1, 0x8a, 0x4f, 0xea]
def kdfAesKdbx4 : Bytes := [0x7c, 0x02, 0xbb, 0x82, 0x79, 0xa7, 0x4a, 0xc0, 0x92, 0x7d, 0x11, 0x4a, 0x00, 0x64, 0x82, 0x38]
def kdfArgon2d : Bytes := [0xef, 0x63, 0x6d, 0xdf, 0x8c, 0x29, 0x44, 0x4b, 0x91, 0xf7, 0xa9, 0xa4, 0x03, 0xe3, 0x0a, 0x0c]
def kdfArgon2id : Bytes := [0x9e, 0x29, 0x8b, 0x19, 0x56, 0xdb, 0x47, 0x73, 0xb2, 0x3d, 0xfc, 0x3e, 0xc6, 0xf0, 0xa1, 0xe6]

def innerId : InnerCipher → Nat | .plain => 0 | .salsa20 => 2 | .chacha20 => 3
def innerOfId : Nat → Option InnerCipher
  | 0 => some .plain | 2 => some .salsa20 | 3 => some .chacha20 | _ => none

/-- `get_iv_size` -/
def ivSize : OuterCipher → Nat | .aes256 => 16 | .twofish => 16 | .chacha20 => 12
/-- `InnerCipherConfig::get_key_size` -/
def innerKeySize : InnerCipher → Nat | .plain => 1 | .salsa20 => 32 | .chacha20 => 32
def masterSeedSize : Nat := 32
def kdfSeedSize : KdfConfig → Nat := fun _ => 32

/-- the primitives, abstract in theorems, table-backed in execution -/
structure Prims where
  sha256 : Bytes → Bytes
  sha512 : Bytes → Bytes
  hmac256 : Bytes → Bytes → Bytes                                   -- key, message
  aesKdf : Bytes → Nat → Bytes → Bytes                              -- seed (32 bytes), rounds, composite
  argon2 : Bool → Nat → Nat → Nat → Nat → Bytes → Bytes → Option Bytes -- id, version, memory, iterations, lanes, salt, composite
  encO : OuterCipher → Bytes → Bytes → Bytes → Option Bytes         -- key, iv, plaintext
  decO : OuterCipher → Bytes → Bytes → Bytes → Option Bytes         -- key, iv, ciphertext
  gzip : Bytes → Bytes
  gunzip : Bytes → Option Bytes

/-! ### variant dictionary (`src/variant_dictionary.rs`) -/

inductive VdVal where
  | u32 (n : Nat) | u64 (n : Nat) | bool (b : Bool) | i32 (n : Nat) | i64 (n : Nat)
  | str (b : Bytes) | bytes (b : Bytes)
  deriving DecidableEq, Repr

abbrev VarDict := List (Bytes × VdVal)   -- later entries shadow earlier ones with the same key

def vdInsert (d : VarDict) (k : Bytes) (v : VdVal) : VarDict := (d.filter (fun p => p.1 != k)) ++ [(k, v)]
def vdGet (d : VarDict) (k : Bytes) : Option VdVal := (d.find? (fun p => p.1 == k)).map (·.2)

/-- the typed value of a dictionary entry (`match value_type`): short typed payloads make `read_u32`/`read_u64` panic -/
def vdTyped (ty : UInt8) (vb : Bytes) : Outcome VdVal :=
  if ty = 0x04 then (readU32E vb).bind (fun n => .ok (VdVal.u32 n))
  else if ty = 0x05 then (readU64E vb).bind (fun n => .ok (VdVal.u64 n))
  else if ty = 0x08 then .ok (VdVal.bool (vb != [0]))
  else if ty = 0x0c then (readU32E vb).bind (fun n => .ok (VdVal.i32 n))
  else if ty = 0x0d then (readU64E vb).bind (fun n => .ok (VdVal.i64 n))
  else if ty = 0x18 then .ok (VdVal.str vb)
  else if ty = 0x42 then .ok (VdVal.bytes vb)
  else .err .integrity

def vdLoop : Nat → Bytes → VarDict → Outcome (VarDict × Bytes)
  | 0, rest, d => .ok (d, rest)
  | fuel + 1, rest, d =>
    -- `while pos + 9 < buffer.len()`
    if rest.length ≤ 9 then .ok (d, rest)
    else
      match rest with
      | [] => .ok (d, rest)
      | ty :: r1 => do
        let klen := le32 r1
        let r2 := r1.drop 4
        if r2.length < klen then .err .integrity else
        let key := r2.take klen
        let r3 := r2.drop klen
        if r3.length < 4 then .err .integrity else
        let vlen := le32 r3
        let r4 := r3.drop 4
        if r4.length < vlen then .err .integrity else
        let vb := r4.take vlen
        let r5 := r4.drop vlen
        let v ← vdTyped ty vb
        vdLoop fuel r5 (vdInsert d key v)

/-- `VariantDictionary::parse` -/
def vdParse (b : Bytes) : Outcome VarDict :=
  if b.length < 2 then .err .integrity
  else if le16 b != 0x100 then .err .integrity
  else
    match vdLoop b.length (b.drop 2) [] with
    | .ok (d, rest) =>
      match rest with
      | [] => .err .integrity            -- `pos == buffer.len()`: not terminated
      | x :: _ => if x != 0 then .err .integrity else .ok d
    | .err c => .err c
    | .panic s => .panic s

def kUUID : Bytes := [0x24, 0x55, 0x55, 0x49, 0x44]   -- "$UUID"
def kR : Bytes := [0x52]
def kS : Bytes := [0x53]
def kM : Bytes := [0x4d]
def kI : Bytes := [0x49]
def kP : Bytes := [0x50]
def kV : Bytes := [0x56]

def vdBytes (d : VarDict) (k : Bytes) : Option Bytes :=
  match vdGet d k with | some (.bytes b) => some b | _ => none
def vdU64 (d : VarDict) (k : Bytes) : Option Nat :=
  match vdGet d k with | some (.u64 n) => some n | _ => none
def vdU32 (d : VarDict) (k : Bytes) : Option Nat :=
  match vdGet d k with | some (.u32 n) => some n | _ => none

/-- `TryFrom<VariantDictionary> for (KdfConfig, Vec<u8>)`; `none` = some `KdfConfigError` -/
def kdfOfVd (d : VarDict) : Option (KdfConfig × Bytes) := do
  let uuid ← vdBytes d kUUID
  if uuid = kdfArgon2id ∨ uuid = kdfArgon2d then
    let memory ← vdU64 d kM
    let salt ← vdBytes d kS
    let iterations ← vdU64 d kI
    let parallelism ← vdU32 d kP
    let version ← vdU32 d kV
    if version = 0x10 ∨ version = 0x13 then
      some (.argon2 (uuid = kdfArgon2id) iterations memory parallelism version, salt)
    else none
  else if uuid = kdfAesKdbx4 ∨ uuid = kdfAesKdbx3 then
    let rounds ← vdU64 d kR
    let seed ← vdBytes d kS
    some (.aes rounds, seed)
  else none

def vdEntryBytes (ty : UInt8) (k v : Bytes) : Bytes :=
  [ty] ++ toLe32 k.length ++ k ++ toLe32 v.length ++ v

/-- `KdfConfig::to_variant_dictionary` as the list of entries in the order the code inserts them -/
def kdfVdEntries (c : KdfConfig) (seed : Bytes) : List (UInt8 × Bytes × Bytes) :=
  match c with
  | .aes rounds => [(0x42, kUUID, kdfAesKdbx4), (0x05, kR, toLe64 rounds), (0x42, kS, seed)]
  | .argon2 id iterations memory parallelism version =>
    [(0x42, kUUID, if id then kdfArgon2id else kdfArgon2d), (0x05, kM, toLe64 memory), (0x42, kS, seed),
     (0x05, kI, toLe64 iterations), (0x04, kP, toLe32 parallelism), (0x04, kV, toLe32 version)]

/-- `VariantDictionary::dump` for the entries in the (hash-map) order `ents` -/
def vdDump (ents : List (UInt8 × Bytes × Bytes)) : Bytes :=
  toLe16 0x100 ++ (ents.flatMap fun e => vdEntryBytes e.1 e.2.1 e.2.2) ++ [0]

/-! ### outer header -/

structure OuterAcc where
  cipher : Option OuterCipher := none
  compression : Option Bool := none
  masterSeed : Option Bytes := none
  iv : Option Bytes := none
  kdf : Option (KdfConfig × Bytes) := none
  deriving Repr

/-- the `match entry_type` of `parse_outer_header`; `none` = end of header -/
def outerField (acc : OuterAcc) (t : UInt8) (buf : Bytes) : Outcome (Option OuterAcc) :=
  if t = 0 then .ok none
  else if t = 1 then .ok (some acc)
  else if t = 2 then
    match cipherOfUuid buf with
    | some c => .ok (some { acc with cipher := some c })
    | none => .err .integrity
  else if t = 3 then do
    let v ← readU32E buf
    if v = 0 then .ok (some { acc with compression := some false })
    else if v = 1 then .ok (some { acc with compression := some true })
    else .err .integrity
  else if t = 4 then .ok (some { acc with masterSeed := some buf })
  else if t = 7 then .ok (some { acc with iv := some buf })
  else if t = 11 then do
    let vd ← vdParse buf
    match kdfOfVd vd with
    | some k => .ok (some { acc with kdf := some k })
    | none => .err .integrity
  else .err .integrity

/-- the TLV loop (`u8` type, `u32` length): returns the accumulator and the number of bytes consumed -/
def outerLoop : Nat → Bytes → Nat → OuterAcc → Outcome (OuterAcc × Nat)
  | 0, _, _, _ => .err .integrity
  | fuel + 1, rest, n, acc =>
    match rest with
    | [] => .err .integrity
    | t :: r1 =>
      if r1.length < 4 then .err .integrity else
      let len := le32 r1
      let r2 := r1.drop 4
      if r2.length < len then .err .integrity else
      match outerField acc t (r2.take len) with
      | .ok none => .ok (acc, n + 5 + len)
      | .ok (some acc') => outerLoop fuel (r2.drop len) (n + 5 + len) acc'
      | .err c => .err c
      | .panic s => .panic s

structure OuterHeader where
  minor : Nat
  cipher : OuterCipher
  compression : Bool
  masterSeed : Bytes
  iv : Bytes
  kdf : KdfConfig
  kdfSeed : Bytes
  deriving Repr, DecidableEq

/-- `parse_outer_header`: header and the offset where it ends -/
def parseOuterHeader (data : Bytes) : Outcome (OuterHeader × Nat) :=
  match Kp.Io.parseVersion data with
  | some (.kdbx4 minor) => do
    let (acc, consumed) ← outerLoop (data.length + 1) (data.drop 12) 12 {}
    match acc.cipher, acc.compression, acc.masterSeed, acc.iv, acc.kdf with
    | some c, some z, some ms, some iv, some (k, ks) => .ok (⟨minor, c, z, ms, iv, k, ks⟩, consumed)
    | _, _, _, _, _ => .err .integrity
  | _ => .err .integrity

/-! ### HMAC block stream (`src/hmac_block_stream.rs`) -/

def blockKey (P : Prims) (hmacKey : Bytes) (index : Nat) : Bytes := P.sha512 (toLe64 index ++ hmacKey)

def blockMac (P : Prims) (hmacKey : Bytes) (index : Nat) (sizeBytes block : Bytes) : Bytes :=
  P.hmac256 (blockKey P hmacKey index) (toLe64 index ++ sizeBytes ++ block)

/-- `read_hmac_block_stream`: the loop runs while input remains; a zero-length block stops it; input that runs out before
    the zero-length block is a stream cut short (after the repair of F21) -/
def readBlocks (P : Prims) (hmacKey : Bytes) : Nat → Bytes → Nat → Bytes → Outcome Bytes
  | 0, _, _, out => .ok out
  | fuel + 1, rest, idx, out =>
    if rest = [] then .err .integrity
    else if rest.length < 32 then .err .integrity
    else
      let mac := rest.take 32
      let r1 := rest.drop 32
      if r1.length < 4 then .err .integrity else
      let sizeBytes := r1.take 4
      let size := le32 sizeBytes
      let r2 := r1.drop 4
      if r2.length < size then .err .integrity else
      let block := r2.take size
      if mac != blockMac P hmacKey idx sizeBytes block then .err .integrity
      else if size = 0 then .ok out
      else readBlocks P hmacKey fuel (r2.drop size) (idx + 1) (out ++ block)

/-- one block of the stream as any conforming writer emits it -/
def blockBytes (P : Prims) (hmacKey : Bytes) (index : Nat) (block : Bytes) : Bytes :=
  blockMac P hmacKey index (toLe32 block.length) block ++ toLe32 block.length ++ block

/-- blocks `parts` with consecutive indices from `i`, then the empty terminator -/
def writeBlocksFrom (P : Prims) (hmacKey : Bytes) : Nat → List Bytes → Bytes
  | i, [] => blockBytes P hmacKey i []
  | i, b :: rest => blockBytes P hmacKey i b ++ writeBlocksFrom P hmacKey (i + 1) rest

/-- `write_hmac_block_stream`: one block holding everything (none for empty data), then the terminator -/
def writeBlocks (P : Prims) (hmacKey : Bytes) (data : Bytes) : Bytes :=
  writeBlocksFrom P hmacKey 0 (if data = [] then [] else [data])

/-! ### inner header -/

structure InnerAcc where
  cipher : Option InnerCipher := none
  key : Option Bytes := none
  attachments : List (UInt8 × Bytes) := []
  deriving Repr

def innerField (acc : InnerAcc) (t : UInt8) (buf : Bytes) : Outcome (Option InnerAcc) :=
  if t = 0 then .ok none
  else if t = 1 then do
    let v ← readU32E buf
    match innerOfId v with
    | some c => .ok (some { acc with cipher := some c })
    | none => .err .integrity
  else if t = 2 then .ok (some { acc with key := some buf })
  else if t = 3 then
    match buf with
    | [] => .err .integrity
    | f :: content => .ok (some { acc with attachments := acc.attachments ++ [(f, content)] })
  else .err .integrity

def innerLoop : Nat → Bytes → Nat → InnerAcc → Outcome (InnerAcc × Nat)
  | 0, _, _, _ => .err .integrity
  | fuel + 1, rest, n, acc =>
    match rest with
    | [] => .err .integrity
    | t :: r1 =>
      if r1.length < 4 then .err .integrity else
      let len := le32 r1
      let r2 := r1.drop 4
      if r2.length < len then .err .integrity else
      match innerField acc t (r2.take len) with
      | .ok none => .ok (acc, n + 5 + len)
      | .ok (some acc') => innerLoop fuel (r2.drop len) (n + 5 + len) acc'
      | .err c => .err c
      | .panic s => .panic s

/-! ### key schedule and `decrypt_kdbx4` -/

/-- `get_kdf_seeded(seed).transform_key(composite)` -/
def runKdf (P : Prims) (k : KdfConfig) (seed composite : Bytes) : Outcome Bytes :=
  match k with
  | .aes rounds =>
    if seed.length ≠ 32 then .err .integrity else .ok (P.aesKdf seed rounds composite)
  | .argon2 id iterations memory parallelism version =>
    match P.argon2 id version memory iterations parallelism seed composite with
    | some k => .ok k
    | none => .err .integrity

def u64Max : Nat := 18446744073709551615

structure Config where
  minor : Nat
  outer : OuterCipher
  compression : Bool
  inner : InnerCipher
  kdf : KdfConfig
  deriving DecidableEq, Repr

structure Decrypted where
  config : Config
  attachments : List (UInt8 × Bytes)
  innerKey : Bytes
  xml : Bytes
  deriving DecidableEq, Repr

/-- `decrypt_kdbx4(data, key)`; `composite = none` models credentials without any element -/
def decrypt (P : Prims) (data : Bytes) (composite : Option Bytes) : Outcome Decrypted := do
  let (h, hstart) ← parseOuterHeader data
  let headerData ← sliceE data 0 hstart
  let headerSha ← sliceE data hstart (hstart + 32)
  let headerHmac ← sliceE data (hstart + 32) (hstart + 64)
  let stream ← sliceE data (hstart + 64) data.length
  if headerSha != P.sha256 headerData then .err .integrity else
  match composite with
  | none => .err .key
  | some comp => do
    let tk ← runKdf P h.kdf h.kdfSeed comp
    let masterKey := P.sha256 (h.masterSeed ++ tk)
    let hmacKey := P.sha512 (h.masterSeed ++ tk ++ [1])
    if headerHmac != P.hmac256 (blockKey P hmacKey u64Max) headerData then .err .key else do
    let payloadEnc ← readBlocks P hmacKey (stream.length + 1) stream 0 []
    match P.decO h.cipher masterKey h.iv payloadEnc with
    | none => .err .integrity
    | some payloadCompressed =>
      match (if h.compression then P.gunzip payloadCompressed else some payloadCompressed) with
      | none => .err .io
      | some payload => do
        let (ia, bodyStart) ← innerLoop (payload.length + 1) payload 0 {}
        match ia.cipher, ia.key with
        | some ic, some ik =>
          -- `InnerCipherConfig::get_cipher`: Salsa20 is keyed with SHA-256(key), ChaCha20 with SHA-512(key): any key length
          .ok ⟨⟨h.minor, h.cipher, h.compression, ic, h.kdf⟩, ia.attachments, ik, payload.drop bodyStart⟩
        | _, _ => .err .integrity

/-! ### writing (`dump_kdbx4`) and the family of conforming layouts -/

def tlv (t : UInt8) (v : Bytes) : Bytes := [t] ++ toLe32 v.length ++ v

def versionHeader (minor : Nat) : Bytes :=
  [0x03, 0xd9, 0xa2, 0x9a] ++ toLe32 0xb54bfb67 ++ toLe16 minor ++ toLe16 4

/-- the random values drawn by one `save`, in the order the code draws them -/
structure Tape where
  masterSeed : Bytes
  iv : Bytes
  innerKey : Bytes
  kdfSeed : Bytes
  deriving DecidableEq, Repr

/-- slices of the OS random source as `dump_kdbx4` consumes it -/
def takeTape (c : Config) (rnd : Bytes) : Tape :=
  let a := masterSeedSize
  let b := ivSize c.outer
  let d := innerKeySize c.inner
  ⟨rnd.take a, (rnd.drop a).take b, (rnd.drop (a + b)).take d, (rnd.drop (a + b + d)).take (kdfSeedSize c.kdf)⟩

/-- one outer header field of a conforming writer -/
inductive OField where
  | comment (b : Bytes) | cipher | compression | masterSeed | iv | kdf
  deriving DecidableEq, Repr

structure Layout where
  outerOrder : List OField                       -- any order; comments anywhere
  vdOrder : List (UInt8 × Bytes × Bytes) → List (UInt8 × Bytes × Bytes)   -- a permutation of the entries
  endPayload : Bytes                              -- content of the end-of-header field
  blocks : Bytes → List Bytes                     -- a partition of the ciphertext into non-empty blocks
  attachmentsFirst : Bool                         -- inner header: attachments before or after id/key

def oFieldBytes (c : Config) (t : Tape) (vd : Bytes) : OField → Bytes
  | .comment b => tlv 1 b
  | .cipher => tlv 2 (cipherUuid c.outer)
  | .compression => tlv 3 (toLe32 (if c.compression then 1 else 0))
  | .masterSeed => tlv 4 t.masterSeed
  | .iv => tlv 7 t.iv
  | .kdf => tlv 11 vd

def outerHeaderBytes (c : Config) (t : Tape) (l : Layout) : Bytes :=
  versionHeader c.minor
    ++ (l.outerOrder.flatMap (oFieldBytes c t (vdDump (l.vdOrder (kdfVdEntries c.kdf t.kdfSeed)))))
    ++ tlv 0 l.endPayload

def attachmentFields (atts : List (UInt8 × Bytes)) : Bytes :=
  atts.flatMap fun a => tlv 3 (a.1 :: a.2)

def innerHeaderBytes (c : Config) (t : Tape) (atts : List (UInt8 × Bytes)) (attachmentsFirst : Bool) : Bytes :=
  let idKey := tlv 1 (toLe32 (innerId c.inner)) ++ tlv 2 t.innerKey
  (if attachmentsFirst then attachmentFields atts ++ idKey else idKey ++ attachmentFields atts) ++ tlv 0 []

/-- the KDF step of a writer: `none` when Argon2 refuses the parameters -/
def transformedKey (P : Prims) (k : KdfConfig) (seed composite : Bytes) : Option Bytes :=
  match k with
  | .aes rounds => some (P.aesKdf seed rounds composite)
  | .argon2 id iterations memory parallelism version =>
    P.argon2 id version memory iterations parallelism seed composite

/-- what is encrypted: the (possibly compressed) inner header followed by the XML document -/
def plainPayload (P : Prims) (c : Config) (t : Tape) (atts : List (UInt8 × Bytes)) (first : Bool) (xml : Bytes) : Bytes :=
  if c.compression then P.gzip (innerHeaderBytes c t atts first ++ xml) else innerHeaderBytes c t atts first ++ xml

/-- header ‖ SHA-256 ‖ header HMAC ‖ block stream, for a transformed key `tk` and ciphertext `ct` -/
def assemble (P : Prims) (c : Config) (t : Tape) (l : Layout) (tk ct : Bytes) : Bytes :=
  outerHeaderBytes c t l ++ P.sha256 (outerHeaderBytes c t l)
    ++ P.hmac256 (blockKey P (P.sha512 (t.masterSeed ++ tk ++ [1])) u64Max) (outerHeaderBytes c t l)
    ++ writeBlocksFrom P (P.sha512 (t.masterSeed ++ tk ++ [1])) 0 (l.blocks ct)

/-- a KDBX4 file as a conforming writer lays it out; `none` when the KDF or the cipher refuses its parameters -/
def build (P : Prims) (c : Config) (t : Tape) (l : Layout) (atts : List (UInt8 × Bytes)) (xml composite : Bytes) :
    Option Bytes :=
  match transformedKey P c.kdf t.kdfSeed composite with
  | none => none
  | some tk =>
    match P.encO c.outer (P.sha256 (t.masterSeed ++ tk)) t.iv (plainPayload P c t atts l.attachmentsFirst xml) with
    | none => none
    | some ct => some (assemble P c t l tk ct)

/-- the layout `dump_kdbx4` uses: fields 2, 3, 7, 4, 11; one data block; id, key, attachments -/
def libraryLayout (vdOrder : List (UInt8 × Bytes × Bytes) → List (UInt8 × Bytes × Bytes)) : Layout :=
  ⟨[.cipher, .compression, .iv, .masterSeed, .kdf], vdOrder, [], fun ct => if ct = [] then [] else [ct], false⟩

/-- `dump_kdbx4`: the bytes handed to the destination writer, as its four segments -/
def saveSegments (P : Prims) (c : Config) (rnd : Bytes)
    (vdOrder : List (UInt8 × Bytes × Bytes) → List (UInt8 × Bytes × Bytes))
    (atts : List (UInt8 × Bytes)) (xml composite : Bytes) : Option (List Bytes) :=
  let t := takeTape c rnd
  let l := libraryLayout vdOrder
  match transformedKey P c.kdf t.kdfSeed composite with
  | none => none
  | some tk =>
    match P.encO c.outer (P.sha256 (t.masterSeed ++ tk)) t.iv (plainPayload P c t atts false xml) with
    | none => none
    | some ct =>
      some [outerHeaderBytes c t l, P.sha256 (outerHeaderBytes c t l),
            P.hmac256 (blockKey P (P.sha512 (t.masterSeed ++ tk ++ [1])) u64Max) (outerHeaderBytes c t l),
            writeBlocks P (P.sha512 (t.masterSeed ++ tk ++ [1])) ct]

end Kp.Fmt
