import KpModel.Io
/-! Helper lemmas for C10/C11. -/
namespace Kp.Io

/-- what reading a source to its end must yield -/
def Src.outcome (s : Src) : Except ErrKind Bytes :=
  match s.untilFail with
  | some u => if u ≤ s.data.length then .error s.kind else .ok s.data
  | none => .ok s.data

/-- what reading at most `L` bytes must yield -/
def Src.outcomeUpTo (s : Src) (L : Nat) : Except ErrKind Bytes :=
  match s.untilFail with
  | some u => if u ≤ s.data.length ∧ u < L then .error s.kind else .ok (s.data.take L)
  | none => .ok (s.data.take L)

def mapAcc (acc : Bytes) (r : Except ErrKind Bytes) : Except ErrKind Bytes := r.map (acc ++ ·)

@[simp] theorem mapAcc_ok (acc b : Bytes) : mapAcc acc (.ok b) = .ok (acc ++ b) := rfl
@[simp] theorem mapAcc_err (acc : Bytes) (k : ErrKind) : mapAcc acc (.error k) = .error k := rfl

theorem deliver_cases (s : Src) (m : Nat) (rest : List RStep) (hm : 1 ≤ m) :
    (s.untilFail = some 0 ∧ s.deliver m rest = (.err s.kind, { s with script := rest }))
    ∨ (s.untilFail ≠ some 0 ∧ ∃ k, k ≤ s.data.length ∧ (s.data ≠ [] → 1 ≤ k)
        ∧ (∀ u, s.untilFail = some u → k ≤ u) ∧ (k ≤ m)
        ∧ s.deliver m rest = (.ok (s.data.take k),
            { s with data := s.data.drop k, untilFail := s.untilFail.map (· - k), script := rest })) := by
  by_cases h0 : s.untilFail = some 0
  · left; exact ⟨h0, by simp [Src.deliver, h0]⟩
  · right
    refine ⟨h0, min (min m (s.untilFail.getD s.data.length)) s.data.length, Nat.min_le_right _ _, ?_, ?_, ?_, ?_⟩
    · intro hne
      have : 1 ≤ s.data.length := by
        cases hd : s.data with
        | nil => exact absurd hd hne
        | cons x xs => simp
      cases hu : s.untilFail with
      | none => simp; omega
      | some u =>
        have : u ≠ 0 := by intro h; apply h0; rw [hu, h]
        simp; omega
    · intro u hu; rw [hu]; simp; omega
    · omega
    · simp [Src.deliver, h0]

theorem outcome_after (s : Src) (k : Nat) (rest : List RStep) (hk : k ≤ s.data.length)
    (hu : ∀ u, s.untilFail = some u → k ≤ u) (acc : Bytes) :
    mapAcc (acc ++ s.data.take k)
      (Src.outcome { s with data := s.data.drop k, untilFail := s.untilFail.map (· - k), script := rest })
    = mapAcc acc s.outcome := by
  cases hf : s.untilFail with
  | none => simp [Src.outcome, hf, List.append_assoc]
  | some u =>
    have := hu u hf
    simp only [Src.outcome, hf, Option.map_some, List.length_drop]
    by_cases hle : u ≤ s.data.length
    · have : u - k ≤ s.data.length - k := by omega
      simp [hle, this]
    · have : ¬ (u - k ≤ s.data.length - k) := by omega
      simp [hle, this, List.append_assoc]

theorem readToEnd_eq (want : Nat → Nat) (fuel : Nat) :
    ∀ (i : Nat) (s : Src) (acc : Bytes), s.fuel ≤ fuel →
      readToEnd want i s acc fuel = mapAcc acc s.outcome := by
  induction fuel with
  | zero => intro i s acc h; simp [Src.fuel] at h
  | succ fuel ih =>
    intro i s acc hf
    rw [readToEnd]
    have hread : ∀ m rest, 1 ≤ m → s.fuel = s.data.length + rest.length + 2 ∨ (s.script = [] ∧ rest = []) →
        (match s.deliver m rest with
          | (.intr, s') => readToEnd want (i + 1) s' acc fuel
          | (.err k, _) => .error k
          | (.ok [], _) => .ok acc
          | (.ok bs, s') => readToEnd want (i + 1) s' (acc ++ bs) fuel) = mapAcc acc s.outcome := by
      intro m rest hm hrest
      rcases deliver_cases s m rest hm with ⟨h0, hd⟩ | ⟨h0, k, hk, hk1, hku, _, hd⟩
      · rw [hd]; simp [Src.outcome, h0]
      · rw [hd]
        cases hdata : s.data with
        | nil =>
          simp only [List.take_nil]
          cases hu : s.untilFail with
          | none => simp [Src.outcome, hu, hdata]
          | some u =>
            have hu0 : ¬ (u ≤ 0) := by
              intro h; apply h0; rw [hu]; congr; omega
            simp [Src.outcome, hu, hdata, hu0]
        | cons x xs =>
          have hk1' : 1 ≤ k := hk1 (by simp [hdata])
          have hne : (x :: xs).take k ≠ [] := by
            cases k with
            | zero => omega
            | succ k => simp
          rw [← hdata]
          have hne' : s.data.take k ≠ [] := by rw [hdata]; exact hne
          split
          · rename_i heq; cases heq
          · rename_i heq; cases heq
          · rename_i heq; injection heq with h1 h2; injection h1 with h1; exact absurd h1 hne'
          · rename_i bs s' hnot heq
            injection heq with h1 h2; injection h1 with h1
            subst h1; subst h2
            rw [ih]
            · exact outcome_after s k rest hk hku acc
            · simp only [Src.fuel, List.length_drop]
              simp only [Src.fuel] at hf
              rcases hrest with hr | ⟨hr1, hr2⟩
              · simp only [Src.fuel] at hr; omega
              · rw [hr2]; rw [hr1] at hf; simp at hf ⊢; omega
    unfold Src.read
    cases hs : s.script with
    | nil => exact hread (want i + 1) [] (by omega) (Or.inr ⟨hs, rfl⟩)
    | cons st rest =>
      cases st with
      | intr =>
        simp only
        rw [ih]
        · simp [Src.outcome]
        · simp only [Src.fuel] at hf ⊢; rw [hs] at hf; simp at hf; omega
      | cap n =>
        exact hread (min (n + 1) (want i + 1)) rest (by omega) (Or.inl (by simp only [Src.fuel, hs, List.length_cons]; omega))

theorem outcomeUpTo_after (s : Src) (k L : Nat) (rest : List RStep) (hk : k ≤ s.data.length)
    (hu : ∀ u, s.untilFail = some u → k ≤ u) (hL : k ≤ L) (acc : Bytes) :
    mapAcc (acc ++ s.data.take k)
      (Src.outcomeUpTo { s with data := s.data.drop k, untilFail := s.untilFail.map (· - k), script := rest }
        (L - k))
    = mapAcc acc (s.outcomeUpTo L) := by
  have htake : s.data.take k ++ (s.data.drop k).take (L - k) = s.data.take L := by
    have := List.take_add (l := s.data) (i := k) (j := L - k)
    rw [show k + (L - k) = L by omega] at this
    exact this.symm
  cases hf : s.untilFail with
  | none => simp [Src.outcomeUpTo, hf, List.append_assoc, htake]
  | some u =>
    have := hu u hf
    simp only [Src.outcomeUpTo, hf, Option.map_some, List.length_drop]
    by_cases hc : u ≤ s.data.length ∧ u < L
    · have : u - k ≤ s.data.length - k ∧ u - k < L - k := by omega
      rw [if_pos this, if_pos hc]; rfl
    · have : ¬ (u - k ≤ s.data.length - k ∧ u - k < L - k) := by omega
      rw [if_neg this, if_neg hc]
      simp [List.append_assoc, htake]

theorem readUpTo_eq (want : Nat → Nat) (fuel : Nat) :
    ∀ (i L : Nat) (s : Src) (acc : Bytes), s.fuel ≤ fuel →
      readUpTo want i L s acc fuel = mapAcc acc (s.outcomeUpTo L) := by
  induction fuel with
  | zero => intro i L s acc h; simp [Src.fuel] at h
  | succ fuel ih =>
    intro i L s acc hf
    rw [readUpTo]
    by_cases hL0 : L = 0
    · subst hL0
      cases hu : s.untilFail <;> simp [Src.outcomeUpTo, hu]
    simp only [hL0, ↓reduceIte]
    have hread : ∀ m rest, 1 ≤ m → m ≤ L →
        s.fuel = s.data.length + rest.length + 2 ∨ (s.script = [] ∧ rest = []) →
        (match s.deliver m rest with
          | (.intr, s') => readUpTo want (i + 1) L s' acc fuel
          | (.err k, _) => .error k
          | (.ok [], _) => .ok acc
          | (.ok bs, s') => readUpTo want (i + 1) (L - bs.length) s' (acc ++ bs) fuel)
          = mapAcc acc (s.outcomeUpTo L) := by
      intro m rest hm hmL hrest
      rcases deliver_cases s m rest hm with ⟨h0, hd⟩ | ⟨h0, k, hk, hk1, hku, hkm, hd⟩
      · rw [hd]
        have : 0 < L := by omega
        simp [Src.outcomeUpTo, h0, this]
      · rw [hd]
        cases hdata : s.data with
        | nil =>
          simp only [List.take_nil]
          cases hu : s.untilFail with
          | none => simp [Src.outcomeUpTo, hu, hdata]
          | some u =>
            have hu0 : ¬ (u ≤ 0) := by
              intro h; apply h0; rw [hu]; congr; omega
            simp [Src.outcomeUpTo, hu, hdata, hu0]
        | cons x xs =>
          have hk1' : 1 ≤ k := hk1 (by simp [hdata])
          have hne : (x :: xs).take k ≠ [] := by
            cases k with
            | zero => omega
            | succ k => simp
          rw [← hdata]
          have hne' : s.data.take k ≠ [] := by rw [hdata]; exact hne
          split
          · rename_i heq; cases heq
          · rename_i heq; cases heq
          · rename_i heq; injection heq with h1 h2; injection h1 with h1; exact absurd h1 hne'
          · rename_i bs s' hnot heq
            injection heq with h1 h2; injection h1 with h1
            subst h1; subst h2
            have hlen : (s.data.take k).length = k := by simp [List.length_take]; omega
            rw [hlen, ih]
            · exact outcomeUpTo_after s k L rest hk hku (by omega) acc
            · simp only [Src.fuel, List.length_drop]
              simp only [Src.fuel] at hf
              rcases hrest with hr | ⟨hr1, hr2⟩
              · simp only [Src.fuel] at hr; omega
              · rw [hr2]; rw [hr1] at hf; simp at hf ⊢; omega
    unfold Src.read
    cases hs : s.script with
    | nil => exact hread (min (want i) (L - 1) + 1) [] (by omega) (by omega) (Or.inr ⟨hs, rfl⟩)
    | cons st rest =>
      cases st with
      | intr =>
        simp only
        rw [ih]
        · simp [Src.outcomeUpTo]
        · simp only [Src.fuel] at hf ⊢; rw [hs] at hf; simp at hf; omega
      | cap n =>
        exact hread (min (n + 1) (min (want i) (L - 1) + 1)) rest (by omega) (by omega)
          (Or.inl (by simp only [Src.fuel, hs, List.length_cons]; omega))

end Kp.Io
