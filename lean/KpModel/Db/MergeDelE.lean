import KpModel.Db.MergePlace
import KpModel.Db.MergeDelG
/-!
# An empty group with a newer tombstone is deleted

The destination holds an empty group `u` below its root, has no tombstone for it, the source's tree no longer holds it and
carries a tombstone for it that is later than the group's last modification in the destination.  Then the merge removes the group
and records a tombstone for it.  (With `merge_group_kept`: for an empty group, removed if and only if a tombstone is newer.)
-/
namespace Kp.Merge
open Node

/-! ### the passes put nothing into a group the source does not hold -/

/-- a predicate over (group, child UUIDs) that removals keep, that appending to a group other than `u` keeps, and that holds of
    a new empty group -/
structure FrameOk (P : CP) (u : Nat) : Prop where
  sub : ∀ x ids ids', P x ids → (∀ i ∈ ids', i ∈ ids) → P x ids'
  app : ∀ x ids y, x ≠ u → P x ids → P x (ids ++ [y])
  new : ∀ y, P y []

theorem tagOf_inj (rootU a b : Nat) (h : tagOf rootU a = tagOf rootU b) : a = b := by
  unfold tagOf at h
  split at h <;> split at h
  · rename_i h1 h2; rw [h1, h2]
  · cases h
  · cases h
  · injection h

/-- the group a frame's path designates is the frame's source group -/
theorem frame_target (rootU : Nat) (root t : Node) (path : List Nat) (gu : Nat) (hF : Fresh rootU root)
    (hfg : findGroup root path = some t) (htag : path.getLast? = tagOf rootU gu) : t.uuid = gu :=
  tagOf_inj rootU _ _ ((findGroup_tag rootU root t path hF hfg).trans htag)

theorem relocate_frame (P : CP) (u : Nat) (hP : FrameOk P u) (rootU : Nat) (s s' : St) (y : Nat) (fromP toP : List Nat) (ts : Int)
    (gu : Nat) (hgu : gu ≠ u) (htag : toP.getLast? = tagOf rootU gu) (hI : Inv s.root) (hF : Fresh rootU s.root)
    (hT : allC P s.root) (h : relocate s y fromP toP ts = .ok s') : allC P s'.root := by
  unfold relocate at h
  cases hfg : findGroup s.root fromP with
  | none => rw [hfg] at h; cases h
  | some g =>
    rw [hfg] at h
    simp only at h
    cases hrm : removeNode g y with
    | none => rw [hrm] at h; cases h
    | some pr =>
      obtain ⟨g', node⟩ := pr
      rw [hrm] at h
      simp only at h
      cases hft : findGroup (updatePath s.root fromP (fun _ => g')) toP with
      | none => rw [hft] at h; cases h
      | some t =>
        rw [hft] at h
        simp only at h
        injection h with h
        subst h
        simp only
        have ⟨hgp, hgg⟩ := findGroup_some hfg
        obtain ⟨hnu, hnm, hg'⟩ := removeNode_facts g g' node y hrm
        obtain ⟨hg1, hperm⟩ := remove_perm s.root g g' node y fromP hI hfg hrm
        have h1 := remove_step_allC P hP.sub s.root g g' node fromP y hT hfg hrm
        have hnode : allC P node := allCL_mem _ _ node (allC_children _ g (allC_getPath _ fromP s.root g hT hgp)) hnm
        have hF1 : Fresh rootU (updatePath s.root fromP (fun _ => g')) := by
          refine ⟨?_, fun x hx => hF.2 x ((hperm.mem_iff.mpr (List.mem_append_left _ hx)))⟩
          rw [updatePath_root_uuid s.root fromP _ hI.1 (fun e => by
            subst e
            simp only [getPath, Option.some.injEq] at hgp
            rw [hg', setChildren_uuid, hgp])]
          exact hF.1
        have htu : t.uuid = gu := frame_target rootU _ t toP gu hF1 hft htag
        refine append_step_allC P _ t (node.setLoc ts) toP h1 hft (allC_setLoc _ node ts hnode) ?_
        have ht := allC_own _ t (findGroup_some hft).2 (allC_getPath _ toP _ t h1 (findGroup_some hft).1)
        exact hP.app _ _ _ (by rw [htu]; exact hgu) ht

theorem append_frame (P : CP) (u : Nat) (hP : FrameOk P u) (rootU : Nat) (root t node : Node) (path : List Nat) (gu : Nat)
    (hgu : gu ≠ u) (htag : path.getLast? = tagOf rootU gu) (hF : Fresh rootU root) (hT : allC P root)
    (hfg : findGroup root path = some t) (hnode : allC P node) :
    allC P (updatePath root path (fun t => t.setChildren (t.children ++ [node]))) := by
  have htu : t.uuid = gu := frame_target rootU root t path gu hF hfg htag
  refine append_step_allC P root t node path hT hfg hnode ?_
  have ht := allC_own _ t (findGroup_some hfg).2 (allC_getPath _ path _ t hT (findGroup_some hfg).1)
  exact hP.app _ _ _ (by rw [htu]; exact hgu) ht

theorem mergeEntryStep_frame (P : CP) (u : Nat) (hP : FrameOk P u) (c : Crt) (tombs : List Tomb) (s s' : St) (path : List Nat)
    (inDeleted : Bool) (oe : Entry) (gu : Nat) (hgu : gu ≠ u) (htag : path.getLast? = tagOf c.rootU gu)
    (hSt : c.Stand s.root) (hT : allC P s.root)
    (h : mergeEntryStep c.now tombs s path inDeleted oe = .ok s') : allC P s'.root := by
  unfold mergeEntryStep at h
  split at h
  · rename_i dloc hloc
    split at h
    · cases h
    · rename_i existing0 hfe
      have hu0 : existing0.d.uuid = oe.d.uuid := getPath_last_uuid dloc s.root _ oe.d.uuid (findEntry_some hfe)
      have jp : ∀ (s1 : St) (eloc : List Nat) (existing : Entry) (s' : St), allC P s1.root →
          existing.d.uuid = oe.d.uuid →
          (do
            let upd ← entryUpdate c.now existing oe
            match upd with
              | none => pure s1
              | some merged =>
                match findEntry s1.root (eloc ++ [oe.d.uuid]) with
                | none => Except.error MErr.findEntry
                | some _ =>
                  pure ({ s1 with root := updatePath s1.root (eloc ++ [oe.d.uuid]) (fun _ => Node.entry merged) }.ev .entryUpdated merged.d.uuid)) = .ok s' →
          allC P s'.root := by
        intro s1 eloc existing s'' hT1 hue hk
        obtain ⟨upd, hupd', hk⟩ := except_bind_ok hk
        cases upd with
        | none => simp only at hk; injection hk with hk; subst hk; exact hT1
        | some merged =>
          simp only at hk
          split at hk
          · cases hk
          · rename_i x hfx
            injection hk with hk; subst hk
            rw [ev_root]
            have hgx := findEntry_some hfx
            refine allC_updatePath_node _ _ _ s1.root _ hgx hT1 trivial ?_
            have hxu : x.d.uuid = oe.d.uuid := getPath_last_uuid eloc s1.root _ oe.d.uuid hgx
            show merged.d.uuid = x.d.uuid
            rcases entryUpdate_uuid c.now existing oe merged hupd' with hm | hm
            · rw [hm, hue, hxu]
            · rw [hm, hxu]
      dsimp only at h
      split at h
      · split at h
        · obtain ⟨s2, hs2, h⟩ := except_bind_ok h
          obtain ⟨x, hx, h⟩ := except_bind_ok h
          cases hx
          exact jp s2 _ (existing0.setLoc _) s' (relocate_frame P u hP c.rootU _ s2 _ _ _ _ gu hgu htag (by rw [ev_root]; exact hSt.inv)
            (by rw [ev_root]; exact hSt.fresh) (by rw [ev_root]; exact hT) hs2) hu0 h
        · obtain ⟨x, hx, h⟩ := except_bind_ok h
          cases hx
          exact jp s _ _ s' hT hu0 h
      · obtain ⟨x, hx, h⟩ := except_bind_ok h
        cases hx
        exact jp s _ _ s' hT hu0 h
  · rename_i hloc
    split at h
    · injection h with h; subst h; exact hT
    · split at h
      · injection h with h; subst h; exact hT
      · split at h
        · cases h
        · rename_i t hft
          injection h with h; subst h
          rw [ev_root]
          exact append_frame P u hP c.rootU s.root t (.entry oe) path gu hgu htag hSt.fresh hT hft trivial

/-- the source: nothing below it is the root, no group of it is `u` -/
structure SrcNe (rootU u : Nat) (cs : List Node) : Prop where
  neR : ∀ x ∈ uuidsL cs, x ≠ rootU
  grpNe : allGL (fun x _ _ => x ≠ u) cs

theorem SrcNe.tail {rootU u : Nat} {n : Node} {cs : List Node} (h : SrcNe rootU u (n :: cs)) : SrcNe rootU u cs :=
  ⟨fun x hx => h.neR x (by simp only [uuidsL]; exact List.mem_append_right _ hx),
   by have := h.grpNe; simp only [allGL] at this; exact this.2⟩

theorem SrcNe.headGroup {rootU u : Nat} {ou oc : Nat} {ot : Times} {ocs : List Node} {cs : List Node}
    (h : SrcNe rootU u (.group ou oc ot ocs :: cs)) : SrcNe rootU u ocs ∧ ou ≠ rootU ∧ ou ≠ u := by
  have hg := h.grpNe; simp only [allGL, allG] at hg
  exact ⟨⟨fun x hx => h.neR x (by simp only [uuidsL, uuidsN]; exact List.mem_append_left _ (List.mem_cons_of_mem _ hx)), hg.1.2⟩,
    h.neR ou (by simp [uuidsL, uuidsN]), hg.1.1⟩

mutual
  theorem mergeGroup_frame (P : CP) (u : Nat) (hP : FrameOk P u) (c : Crt) (tombs : List Tomb) :
      ∀ (g : Node) (s s' : St) (path : List Nat) (inDel : Bool), SrcNe c.rootU u g.children → g.uuid ≠ u →
        path.getLast? = tagOf c.rootU g.uuid → c.Stand s.root → allC P s.root →
        mergeGroup c.now tombs s path g inDel = .ok s' → allC P s'.root
    | .entry _, s, s', _, _, _, _, _, _, hT, h => by
      simp only [mergeGroup] at h
      injection h with h; subst h; exact hT
    | .group gu gc gt cs, s, s', path, inDel, hS, hgu, htag, hSt, hT, h => by
      simp only [Node.children] at hS
      simp only [Node.uuid] at hgu htag
      unfold mergeGroup at h
      dsimp only at h
      have jp : ∀ (s1 : St) (p1 : List Nat), p1.getLast? = tagOf c.rootU gu → c.Stand s1.root → allC P s1.root →
          (do
            let s ← mergeEntries c.now tombs s1 p1 inDel cs
            mergeSubgroups c.now tombs s p1 inDel cs) = .ok s' → allC P s'.root := by
        intro s1 p1 ht1 hSt1 hT1 hk
        obtain ⟨s2, hs2, hk⟩ := except_bind_ok hk
        exact mergeSubgroups_frame P u hP c tombs cs s2 s' p1 inDel gu hgu ht1 hS (crt_stand_entries c tombs cs s1 s2 p1 inDel hSt1 hS.neR hs2)
          (mergeEntries_frame P u hP c tombs cs s1 s2 p1 inDel gu hgu ht1 hS hSt1 hT1 hs2) hk
      split at h
      · obtain ⟨x, hx, h⟩ := except_bind_ok h
        cases hx
        exact jp s path htag hSt hT h
      · rename_i dloc hloc
        split at h
        · obtain ⟨x, hx, h⟩ := except_bind_ok h
          cases hx
        · rename_i du dc dt dch hfg
          obtain ⟨x, hx, h⟩ := except_bind_ok h
          obtain ⟨c', t', upd⟩ := x
          dsimp only at h
          obtain ⟨y, hy, h⟩ := except_bind_ok h
          cases hy
          have hguR : gu ≠ c.rootU := hSt.fresh.2 gu (findLoc_some_mem s.root gu dloc hloc)
          have ht' : (dloc ++ [gu]).getLast? = tagOf c.rootU gu := by simp [tagOf, hguR]
          have hSt' := crt_stand_groupData c s.root (dloc ++ [gu]) du dc dt dch c' t' hSt (by simp) hfg
          have hT' := par_groupData _ s.root (dloc ++ [gu]) du dc dt dch c' t' hT hfg
          refine jp _ _ ht' ?_ ?_ h
          · split
            · rw [ev_root]; exact hSt'
            · exact hSt'
          · split
            · rw [ev_root]; exact hT'
            · exact hT'
        · obtain ⟨x, hx, h⟩ := except_bind_ok h
          cases hx

  theorem mergeEntries_frame (P : CP) (u : Nat) (hP : FrameOk P u) (c : Crt) (tombs : List Tomb) :
      ∀ (cs : List Node) (s s' : St) (path : List Nat) (inDel : Bool) (gu : Nat), gu ≠ u → path.getLast? = tagOf c.rootU gu →
        SrcNe c.rootU u cs → c.Stand s.root → allC P s.root →
        mergeEntries c.now tombs s path inDel cs = .ok s' → allC P s'.root
    | [], s, s', _, _, _, _, _, _, _, hT, h => by
      simp only [mergeEntries] at h
      injection h with h; subst h; exact hT
    | .entry e :: rest, s, s', path, inDel, gu, hgu, htag, hS, hSt, hT, h => by
      have heR : e.d.uuid ≠ c.rootU := hS.neR e.d.uuid (by simp [uuidsL, uuidsN])
      unfold mergeEntries at h
      obtain ⟨s1, hs1, h⟩ := except_bind_ok h
      exact mergeEntries_frame P u hP c tombs rest s1 s' path inDel gu hgu htag hS.tail
        (crt_stand_entryStep c tombs s s1 path inDel e hSt heR hs1)
        (mergeEntryStep_frame P u hP c tombs s s1 path inDel e gu hgu htag hSt hT hs1) h
    | .group _ _ _ _ :: rest, s, s', path, inDel, gu, hgu, htag, hS, hSt, hT, h => by
      unfold mergeEntries at h
      exact mergeEntries_frame P u hP c tombs rest s s' path inDel gu hgu htag hS.tail hSt hT h

  theorem mergeSubgroups_frame (P : CP) (u : Nat) (hP : FrameOk P u) (c : Crt) (tombs : List Tomb) :
      ∀ (cs : List Node) (s s' : St) (path : List Nat) (inDel : Bool) (gu : Nat), gu ≠ u → path.getLast? = tagOf c.rootU gu →
        SrcNe c.rootU u cs → c.Stand s.root → allC P s.root →
        mergeSubgroups c.now tombs s path inDel cs = .ok s' → allC P s'.root
    | [], s, s', _, _, _, _, _, _, _, hT, h => by
      simp only [mergeSubgroups] at h
      injection h with h; subst h; exact hT
    | .entry _ :: rest, s, s', path, inDel, gu, hgu, htag, hS, hSt, hT, h => by
      unfold mergeSubgroups at h
      exact mergeSubgroups_frame P u hP c tombs rest s s' path inDel gu hgu htag hS.tail hSt hT h
    | .group ou oc ot ocs :: rest, s, s', path, inDel, gu, hgu, htag, hS, hSt, hT, h => by
      obtain ⟨hSo, houR, houU⟩ := hS.headGroup
      have hneo : ∀ x ∈ uuidsL (Node.group ou oc ot ocs).children, x ≠ c.rootU := by
        simpa [Node.children] using hSo.neR
      have htago : (path ++ [ou]).getLast? = tagOf c.rootU ou := by simp [tagOf, houR]
      unfold mergeSubgroups at h
      dsimp only at h
      have viaGroup : ∀ (s0 : St) (b : Bool), c.Stand s0.root → allC P s0.root →
          (do
            let s ← mergeGroup c.now tombs s0 (path ++ [ou]) (.group ou oc ot ocs) b
            mergeSubgroups c.now tombs s (refreshPath s.root path) inDel rest) = .ok s' → allC P s'.root := by
        intro s0 b hSt0 hT0 hk
        obtain ⟨s1, hs1, hk⟩ := except_bind_ok hk
        exact mergeSubgroups_frame P u hP c tombs rest s1 s' _ inDel gu hgu (by rw [refreshPath_last]; exact htag) hS.tail
          (crt_stand_group c tombs _ s0 s1 _ b hSt0 hneo hs1)
          (mergeGroup_frame P u hP c tombs (.group ou oc ot ocs) s0 s1 _ b hSo houU htago hSt0 hT0 hs1) hk
      split at h
      · exact viaGroup s true hSt hT h
      · split at h
        · split at h
          · split at h
            · obtain ⟨x, hx, h⟩ := except_bind_ok h
              cases hx
            · split at h
              · obtain ⟨s2, hs2, h⟩ := except_bind_ok h
                refine viaGroup _ inDel ?_ ?_ h
                · rw [ev_root]; exact crt_stand_relocate c s s2 _ _ _ _ hSt hs2
                · rw [ev_root]; exact relocate_frame P u hP c.rootU s s2 _ _ _ _ gu hgu htag hSt.inv hSt.fresh hT hs2
              · exact viaGroup s inDel hSt hT h
          · exact viaGroup s inDel hSt hT h
        · rename_i hloc
          split at h
          · obtain ⟨x, hx, h⟩ := except_bind_ok h
            cases hx
          · rename_i pg hfg
            rw [ev_root] at hfg
            refine viaGroup _ inDel ?_ ?_ h
            · exact crt_stand_addGroup c s.root pg path ou oc ot hSt hfg hloc houR
            · refine append_frame P u hP c.rootU s.root pg (.group ou oc ot []) path gu hgu htag hSt.fresh hT hfg ?_
              simp only [allC, allCL, childIds, List.map_nil, and_true]
              exact hP.new ou
end

theorem mergePasses_frame (P : CP) (u : Nat) (hP : FrameOk P u) (c : Crt) (tombs : List Tomb) (su sc : Nat) (st : Times)
    (scs : List Node) (hS : SrcNe c.rootU u scs) (hsu : su = c.rootU) (hne : su ≠ u) :
    ∀ (k : Nat) (s s' : St), c.Stand s.root → allC P s.root →
      mergePasses c.now tombs (.group su sc st scs) k s = .ok s' → allC P s'.root := by
  intro k
  induction k with
  | zero => intro s s' _ hT h; simp only [mergePasses] at h; injection h with h; subst h; exact hT
  | succ k ih =>
    intro s s' hSt hT h
    unfold mergePasses at h
    split at h
    · cases h
    · rename_i s1 hs1
      have htag : ([] : List Nat).getLast? = tagOf c.rootU (Node.group su sc st scs).uuid := by simp [tagOf, Node.uuid, hsu]
      have hT1 := mergeGroup_frame P u hP c tombs (.group su sc st scs) { s with events := [] } s1 [] false hS hne htag hSt hT hs1
      have hSt1 := crt_stand_group c tombs _ { s with events := [] } s1 [] false hSt (by simpa [Node.children] using hS.neR) hs1
      dsimp only at h
      split at h
      · injection h with h; subst h; exact hT1
      · exact ih _ s' (show c.Stand ({ s1 with events := s.events ++ s1.events } : St).root from hSt1)
          (show allC P ({ s1 with events := s.events ++ s1.events } : St).root from hT1) h

/-! ### the deletion of the empty group -/

/-- the group `u` has no children -/
def Emp (u : Nat) : CP := fun x ids => x = u → ids = []

theorem emp_frameOk (u : Nat) : FrameOk (Emp u) u :=
  ⟨fun _ _ ids' h hs e => by
      have := h e
      cases ids' with
      | nil => rfl
      | cons i is => have := hs i List.mem_cons_self; simp_all,
   fun _ _ _ hx _ e => absurd e hx,
   fun _ _ => rfl⟩

/-- the group followed is alive, empty and untombstoned -/
structure AliveE (u : Nat) (m : Option Int) (s : St) (nt : List Tomb) : Prop where
  live : LiveG u m s.root
  emp : allC (Emp u) s.root
  nt : tombsContain nt u = false

/-- a newer tombstone for the empty group deletes it -/
theorem gdecide_deletes (now : Int) (u : Nat) (m : Option Int) (s : St) (nt : List Tomb) (x : Tomb) (q : List Tomb)
    (hA : AliveE u m s nt) (hx : x.uuid = u) (hnew : m.getD now < x.time) :
    ∃ s1 nt1, gdecide now s nt x q = .delete s1 nt1 ∧ u ∉ uuidsL s1.root.children ∧ tombsContain nt1 u = true := by
  have hI := hA.live.holds.1.1
  obtain ⟨loc, g, n, h1, h2, h3, h4, h5⟩ := findLoc_sound s.root u hI hA.live.holds.1.2
  -- the node is a group, with the modification time followed and no children
  have hn : ∃ c t, n = Node.group u c t [] ∧ t.mtime = m := by
    cases n with
    | entry e =>
      have := allE_getPath _ _ s.root _ hA.live.noEntry h5
      simp only [allE] at this
      exact absurd h4 this
    | group x' c t ch =>
      have hxu : x' = u := h4
      have hm := allG_getPath _ _ s.root _ hA.live.mt h5
      simp only [allG] at hm
      have he := allC_getPath _ _ s.root _ hA.emp h5
      simp only [allC] at he
      have hch : ch = [] := by
        have := he.1 hxu
        cases ch with
        | nil => rfl
        | cons a b => simp [childIds] at this
      exact ⟨c, t, by rw [hxu, hch], hm.1 hxu⟩
  obtain ⟨c, t, rfl, htm⟩ := hn
  have hfgp : findGroup g [u] = some (Node.group u c t []) := by
    unfold findGroup; rw [h3]; rfl
  have hmem : Node.group u c t [] ∈ g.children := by
    simp only [getPath] at h3
    exact (find_first h3).1
  -- removing it
  have hrm : ∃ g' last, removeNode g u = some (g', last) := by
    unfold removeNode
    have : Node.group u c t [] ∈ g.children.filter (·.uuid == u) := by
      simp only [List.mem_filter]; exact ⟨hmem, by simp [Node.uuid]⟩
    cases hl : (g.children.filter (·.uuid == u)).getLast? with
    | none =>
      have := List.getLast?_eq_none_iff.mp hl
      simp_all
    | some last => exact ⟨_, last, rfl⟩
  obtain ⟨g', last, hrm⟩ := hrm
  refine ⟨({ s with root := updatePath s.root loc (fun _ => g') } : St).ev .groupDeleted x.uuid, nt ++ [x], ?_, ?_, ?_⟩
  · unfold gdecide
    simp only [hx, hA.nt, Bool.false_eq_true, ↓reduceIte, h1, h2, hfgp, Node.children, List.filter_nil, List.isEmpty_nil,
      Bool.not_true, List.any_nil, Node.times, htm, hnew, hrm]
  · rw [ev_root]
    obtain ⟨_, hperm⟩ := remove_perm s.root g g' last u loc hI h2 hrm
    obtain ⟨hlu, _, _⟩ := removeNode_facts g g' last u hrm
    have hnd := hperm.nodup_iff.mp hI.2
    have hparts := List.nodup_append.mp hnd
    intro hc
    exact hparts.2.2 u hc u (by rw [← hlu]; exact uuid_mem_uuidsN last) rfl
  · rw [tombsContain_append]
    simp [tombsContain, hx]

theorem gdecide_delete_aliveE (now : Int) (u : Nat) (m : Option Int) (s : St) (nt : List Tomb) (d : Tomb) (q : List Tomb) (s' : St)
    (nt' : List Tomb) (hA : AliveE u m s nt) (hd : d.uuid = u → ¬ (m.getD now < d.time))
    (h : gdecide now s nt d q = .delete s' nt') : AliveE u m s' nt' := by
  obtain ⟨hL, hnt⟩ := gdecide_delete_liveG now u m s nt d q s' nt' hA.live hA.nt hd h
  exact ⟨hL, gdecide_delete_allC (Emp u) (emp_frameOk u).sub now s nt d q s' nt' hA.emp h, hnt⟩

/-- the group pass, from a state where the empty group is alive and a newer tombstone for it waits in the queue -/
theorem deleteGroups_deletes (now : Int) (u : Nat) (m : Option Int) : ∀ (fuel : Nat) (s : St) (nt q : List Tomb) (s' : St) (nt' : List Tomb),
    Inv s.root → (AliveE u m s nt ∧ ∃ d ∈ q, d.uuid = u ∧ m.getD now < d.time) ∨ (u ∉ uuidsL s.root.children ∧ tombsContain nt u = true) →
    deleteGroups now fuel s nt q = .ok (s', nt') → u ∉ uuidsL s'.root.children ∧ tombsContain nt' u = true := by
  intro fuel
  induction fuel with
  | zero =>
    intro s nt q s' nt' _ hst h
    unfold deleteGroups at h
    split at h
    · rename_i hq
      injection h with h; injection h with h1 h2; subst h1; subst h2
      rcases hst with ⟨_, d, hd, _⟩ | hdead
      · have : q = [] := by simpa using hq
        subst this; cases hd
      · exact hdead
    · cases h
  | succ n ih =>
    intro s nt q s' nt' hI hst h
    -- once it is gone it stays gone
    rcases hst with ⟨hA, d, hd, hdu, hdn⟩ | hdead
    · cases q with
      | nil => cases hd
      | cons x q =>
        rw [deleteGroups_step] at h
        by_cases hx : x.uuid = u ∧ m.getD now < x.time
        · -- this tombstone deletes it
          obtain ⟨s1, nt1, hg, hgone, htomb⟩ := gdecide_deletes now u m s nt x q hA hx.1 hx.2
          rw [hg] at h
          simp only at h
          have hinv := gdecide_delete_inv now s nt x q s1 nt1 hI.1 hI.2 hg
          exact ih s1 nt1 q s' nt' ⟨hinv.1, hinv.2⟩ (Or.inr ⟨hgone, htomb⟩) h
        · have hxn : x.uuid = u → ¬ (m.getD now < x.time) := fun e hlt => hx ⟨e, hlt⟩
          have hdq : d ∈ q := by
            rcases List.mem_cons.mp hd with rfl | hd'
            · exact absurd ⟨hdu, hdn⟩ hx
            · exact hd'
          split at h
          · exact ih s nt q s' nt' hI (Or.inl ⟨hA, d, hdq, hdu, hdn⟩) h
          · exact ih s nt _ s' nt' hI (Or.inl ⟨hA, d, List.mem_append_left _ hdq, hdu, hdn⟩) h
          · rename_i s1 nt1 hdec
            have hinv := gdecide_delete_inv now s nt x q s1 nt1 hI.1 hI.2 hdec
            exact ih s1 nt1 q s' nt' ⟨hinv.1, hinv.2⟩
              (Or.inl ⟨gdecide_delete_aliveE now u m s nt x q s1 nt1 hA hxn hdec, d, hdq, hdu, hdn⟩) h
          · cases h
    · have hsub := deleteGroups_subset now _ s nt q s' nt' hI h
      obtain ⟨add, hadd, _⟩ := deleteGroups_prefix' now _ q s nt s' nt' q (fun _ ht => ht) h
      refine ⟨fun hc => hdead.1 (hsub _ hc), ?_⟩
      rw [hadd, tombsContain_append, hdead.2]; rfl

mutual
  theorem allC_disjoint (P Q : CP) (L : List Nat) (hPQ : ∀ x ids, P x ids → x ∉ L → Q x ids) :
      ∀ (n : Node), allC P n → (∀ x ∈ uuidsN n, x ∉ L) → allC Q n
    | .group u c t cs, h, hd => by
      simp only [allC] at h ⊢
      exact ⟨hPQ u _ h.1 (hd u (by simp [uuidsN])),
        allCL_disjoint P Q L hPQ cs h.2 (fun x hx => hd x (by simp only [uuidsN]; exact List.mem_cons_of_mem _ hx))⟩
    | .entry e, _, _ => trivial
  theorem allCL_disjoint (P Q : CP) (L : List Nat) (hPQ : ∀ x ids, P x ids → x ∉ L → Q x ids) :
      ∀ (cs : List Node), allCL P cs → (∀ x ∈ uuidsL cs, x ∉ L) → allCL Q cs
    | [], _, _ => trivial
    | c :: cs, h, hd => by
      simp only [allCL] at h ⊢
      exact ⟨allC_disjoint P Q L hPQ c h.1 (fun x hx => hd x (by simp only [uuidsL]; exact List.mem_append_left _ hx)),
        allCL_disjoint P Q L hPQ cs h.2 (fun x hx => hd x (by simp only [uuidsL]; exact List.mem_append_right _ hx))⟩
end

/-- what holds of the designated group and of every group outside its subtree (whose UUIDs are not in `L`) holds everywhere -/
theorem allC_at (P Q : CP) (L : List Nat) (hPQ : ∀ x ids, P x ids → x ∉ L → Q x ids) :
    ∀ (path : List Nat) (root n : Node), path ≠ [] → root.isGroup = true → (uuidsL root.children).Nodup → root.uuid ∉ L →
      getPath root path = some n → (∀ x ∈ L, x ∈ uuidsN n) → allC P root → allC Q n → allC Q root := by
  intro path
  induction path with
  | nil => intro root n h; exact absurd rfl h
  | cons u rest ih =>
    intro root n _ hr hn hru hg hL hP hQ
    -- the child of the root the path goes through
    obtain ⟨c, hcm, hcn, hsub⟩ : ∃ c ∈ root.children, allC Q c ∧ ∀ x ∈ L, x ∈ uuidsN c := by
      cases rest with
      | nil =>
        simp only [getPath] at hg
        exact ⟨n, (find_first hg).1, hQ, hL⟩
      | cons v rest' =>
        simp only [getPath] at hg
        cases hc : root.children.find? (fun n => n.isGroup && n.uuid == u) with
        | none => rw [hc] at hg; cases hg
        | some c =>
          rw [hc] at hg
          simp only at hg
          have ⟨hcm, hcp⟩ := find_first hc
          have hcg : c.isGroup = true := by
            simp only [Bool.and_eq_true] at hcp; exact hcp.1
          have hsubc : (uuidsN n).Sublist (uuidsL c.children) := getPath_sublist_children v rest' c n hcg hg
          have hcn : (uuidsL c.children).Nodup ∧ c.uuid ∉ uuidsL c.children := by
            cases c with
            | entry e => cases hcg
            | group cu cc ct ccs => exact nodup_children_of_mem _ cu cc ct ccs hn hcm
          have hcu : c.uuid ∉ L := fun hx => hcn.2 (hsubc.subset (hL _ hx))
          refine ⟨c, hcm, ih c n (by simp) hcg hcn.1 hcu hg hL (allCL_mem P _ c (allC_children P root hP) hcm) hQ, ?_⟩
          exact fun x hx => (getPath_sublist _ c n hcg hg).subset (hL x hx)
    have hcs : allCL Q root.children := by
      refine allCL_of_forall _ _ (fun c' hc' => ?_)
      by_cases hcc : c' = c
      · subst hcc; exact hcn
      · refine allC_disjoint P Q L hPQ c' (allCL_mem P _ c' (allC_children P root hP) hc') (fun x hx hxl => ?_)
        exact uuidsN_disjoint_of_mem _ c c' hn hcm hc' (Ne.symm hcc) x (hsub x hxl) hx
    cases root with
    | entry e => cases hr
    | group x cc t ccs =>
      simp only [allC] at hP ⊢
      exact ⟨hPQ x _ hP.1 hru, hcs⟩

mutual
  theorem allC_true : ∀ (n : Node), allC (fun _ _ => True) n
    | .group _ _ _ cs => by simp only [allC]; exact ⟨trivial, allCL_true cs⟩
    | .entry _ => trivial
  theorem allCL_true : ∀ (cs : List Node), allCL (fun _ _ => True) cs
    | [] => trivial
    | c :: cs => ⟨allC_true c, allCL_true cs⟩
end

/-- **an empty group with a newer tombstone is deleted**: the destination holds the group `u` below its root, without children
    and without a tombstone for it; the source's tree does not hold `u` and one of the source's tombstones for it is later than
    the group's last modification in the destination.  Then the merge removes the group and records a tombstone for it. -/
theorem merge_empty_group_deleted (now : Int) (dst src d' : Db) (evs : List Event) (hI : Inv dst.root) (hIs : Inv src.root)
    (hru : src.root.uuid = dst.root.uuid)
    (hfd : dst.root.uuid ∉ uuidsL dst.root.children) (hfs : src.root.uuid ∉ uuidsL src.root.children)
    (h : merge now dst src = .ok (d', evs)) (pd : List Nat) (hpd : pd ≠ []) (u c : Nat) (t : Times)
    (hd : getPath dst.root pd = some (.group u c t []))
    (hsrc : u ∉ uuidsL src.root.children) (hnt : tombsContain dst.tombs u = false)
    (hex : ∃ d ∈ src.tombs, d.uuid = u ∧ t.mtime.getD now < d.time) :
    u ∉ uuidsL d'.root.children ∧ tombsContain d'.tombs u = true := by
  let G : GP := fun x _ z => x = u → z.mtime = t.mtime
  let P : Entry → Prop := fun e => e.d.uuid ≠ u
  let cc : Crt := ⟨u, now, dst.root.uuid, none⟩
  have hmem : u ∈ uuidsL dst.root.children := getPath_uuids pd dst.root _ hpd hd u (by simp [uuidsN])
  have hru' : dst.root.uuid ≠ u := fun e => hfd (e ▸ hmem)
  have hsr : src.root.uuid ≠ u := by rw [hru]; exact hru'
  have hH0 : HoldsG u dst.root := ⟨⟨hI, hmem⟩, hru'⟩
  have hG0 : allG G dst.root := allG_only (fun _ _ z => z.mtime = t.mtime) dst.root pd u c t [] hI hfd hpd hd rfl
  have hP0 : allE P dst.root := by
    have key := allE_updatePath_at (fun _ => True) P (fun x => x) [u] (fun e _ hne hx => hne (by simp [hx])) pd dst.root _ hI.1 hI.2 hd
      (by intro y hy; simp only [List.mem_singleton] at hy; subst hy; simp [uuidsN]) (allE_true _) (by simp [allE, allEL])
    rwa [updatePath_id pd dst.root _ (fun x => x) hI.1 hd rfl] at key
  -- the group is the only node with its UUID, and it has no children
  have hE0 : allC (Emp u) dst.root :=
    allC_at (fun _ _ => True) (Emp u) [u] (fun x _ _ hne hx => absurd (by simp [hx]) hne) pd dst.root _ hpd hI.1 hI.2
      (by simpa using hru') hd (by intro y hy; simp only [List.mem_singleton] at hy; subst hy; simp [uuidsN]) (allC_true _)
      (by simp [allC, allCL, Emp, childIds])
  -- the source: nothing of it is `u`
  have hSg : allG (SrcOkG G u now) src.root := by
    have hab : allG (fun x _ _ => x ≠ u) src.root :=
      allG_absent (fun _ _ _ => True) _ u (fun _ _ _ _ hne => hne) src.root hsr hsrc (allG_true _)
    exact allG_mono _ _ (fun x _ _ hx => ⟨fun _ he => absurd he hx, fun _ _ _ _ _ _ _ he => absurd he hx⟩) _ hab
  have hSe : allE (SrcOk P u now) src.root := by
    have hab : allE (fun e => e.d.uuid ≠ u) src.root :=
      allE_absent (fun _ => True) _ u (fun _ _ hne => hne) src.root hIs.1 hsrc (allE_true _)
    refine allE_mono _ _ (fun oe hoe => ⟨fun _ => hoe, fun ex m hue hex hupd => ?_⟩) _ hab
    rcases entryUpdate_some now ex oe m hupd with ⟨_, hu, _⟩ | ⟨_, hu, _⟩
    · show m.d.uuid ≠ u
      rw [hu]; exact hex
    · show m.d.uuid ≠ u
      rw [hu]; exact hoe
  have hFd : Fresh dst.root.uuid dst.root := ⟨rfl, fun x hx e => hfd (e ▸ hx)⟩
  cases hsrr : src.root with
  | entry e => have := hIs.1; rw [hsrr] at this; cases this
  | group su sc st scs =>
    have hsu : su = dst.root.uuid := by rw [hsrr] at hru; exact hru
    have hsne : su ≠ u := by rw [hsrr] at hsr; exact hsr
    have hfs' : su ∉ uuidsL scs := by rw [hsrr] at hfs; exact hfs
    have hneR : ∀ x ∈ uuidsL scs, x ≠ dst.root.uuid := fun x hx e => hfs' (by rw [hsu, ← e]; exact hx)
    have hgn : allGL (fun x _ _ => x ≠ u) scs := by
      have hab : allG (fun x _ _ => x ≠ u) src.root :=
        allG_absent (fun _ _ _ => True) _ u (fun _ _ _ _ hne => hne) src.root hsr hsrc (allG_true _)
      rw [hsrr] at hab; simp only [allG] at hab; exact hab.2
    have hSN : SrcNe dst.root.uuid u scs := ⟨hneR, hgn⟩
    unfold merge at h
    dsimp only at h
    obtain ⟨s1, hs1, h⟩ := except_bind_ok h
    have hH1 := holdsG_mergeRoot u now _ s1 src.root hH0 hs1
    have hP1 := mergeRoot_allE P now _ s1 src.root hI.1 hP0 hs1
    have hG1 := mergeRoot_allG G now _ s1 src.root (fun _ _ hx => absurd hx hH0.2) hG0 hs1
    have hE1 : allC (Emp u) s1.root := mergeRoot_allC _ now ⟨dst.root, []⟩ s1 _ hE0 hs1
    have hI1 := mergeRoot_inv now _ s1 _ hI hs1
    have hSt1 : cc.Stand s1.root := ⟨hI1, by rw [mergeRoot_uuid now _ s1 _ hs1],
      fun x hx => hFd.2 x (by rw [← mergeRoot_children now _ s1 _ hs1]; exact hx)⟩
    obtain ⟨s2, hs2, h⟩ := except_bind_ok h
    obtain ⟨hP2, _⟩ := mergePasses_allE P (fun _ _ hx => hx) u now dst.tombs src.root hSe _ s1 s2 hH1.1 hP1 hs2
    obtain ⟨hG2, hH2⟩ := mergePasses_allG G (fun _ _ _ _ hx => hx) u now dst.tombs src.root hSg _ s1 s2 hH1 hG1 hs2
    have hE2 : allC (Emp u) s2.root := by
      rw [hsrr] at hs2
      exact mergePasses_frame (Emp u) u (emp_frameOk u) cc dst.tombs su sc st scs hSN hsu hsne _ s1 s2 hSt1 hE1 hs2
    have hA2 : AliveE u t.mtime s2 dst.tombs := ⟨⟨hH2, hG2, hP2⟩, hE2, hnt⟩
    obtain ⟨x, hx, h⟩ := except_bind_ok h
    obtain ⟨s3, tombs⟩ := x
    dsimp only at h
    injection h with h; injection h with h1 h2
    subst h1
    simp only
    unfold mergeDeletions at hx
    obtain ⟨r, hr4, hx⟩ := except_bind_ok hx
    obtain ⟨s4, nt4⟩ := r
    dsimp only at hx
    obtain ⟨hL4, ht4⟩ := deleteEntries_liveG now u t.mtime src.tombs s2 dst.tombs s4 nt4 hA2.live hnt hr4
    have hE4 := deleteEntries_allC (Emp u) (emp_frameOk u).sub now src.tombs s2 dst.tombs s4 nt4 hE2 hr4
    obtain ⟨d, hd1, hd2, hd3⟩ := hex
    have hdq : d ∈ src.tombs.filter (fun d => !tombsContain nt4 d.uuid) := by
      simp only [List.mem_filter]; exact ⟨hd1, by rw [hd2, ht4]; rfl⟩
    exact deleteGroups_deletes now u t.mtime _ s4 nt4 _ s3 tombs hL4.holds.1.1 (Or.inl ⟨⟨hL4, hE4, ht4⟩, d, hdq, hd2, hd3⟩) hx
