import KpModel.Db.MergeSelf
/-!
Termination of the work queue of `merge_deletions` (pass 2): the loop body as a decision function, re-queueing means a
deeper tombstoned node is still queued, some queue element is always resolvable, removals keep UUIDs distinct, and the
fuel bound.  Helper lemmas for `Props/C16`.
-/
namespace Kp.Merge
open Node

/-- what pass 2 of `merge_deletions` does with the head `d` of the work queue, given the rest of the queue -/
inductive GDec where
  | skip
  | requeue
  | delete (s' : St) (nt' : List Tomb)
  | err (e : MErr)

def gdecide (now : Int) (s : St) (newTombs : List Tomb) (d : Tomb) (queue : List Tomb) : GDec :=
  if tombsContain newTombs d.uuid then .skip
  else
    match findLoc s.root d.uuid with
    | none => .skip
    | some loc =>
      match findGroup s.root loc with
      | none => .err .findGroup
      | some parent =>
        match findGroup parent [d.uuid] with
        | none => .skip
        | some grp =>
          let entries := grp.children.filter (fun c => !c.isGroup)
          let groups := grp.children.filter (·.isGroup)
          if !entries.isEmpty then .skip
          else if groups.any (fun c => queue.any (·.uuid == c.uuid)) then .requeue
          else if !groups.isEmpty then .skip
          else if (grp.times.mtime.getD now) < d.time then
            match removeNode parent d.uuid with
            | none => .err .generic
            | some (parent', _) =>
              .delete ({ s with root := updatePath s.root loc (fun _ => parent') }.ev .groupDeleted d.uuid) (newTombs ++ [d])
          else .skip

theorem deleteGroups_step (now : Int) (fuel : Nat) (s : St) (nt : List Tomb) (d : Tomb) (q : List Tomb) :
    deleteGroups now (fuel + 1) s nt (d :: q) =
      match gdecide now s nt d q with
      | .skip => deleteGroups now fuel s nt q
      | .requeue => deleteGroups now fuel s nt (q ++ [d])
      | .delete s' nt' => deleteGroups now fuel s' nt' q
      | .err e => .error e := by
  rw [deleteGroups]
  unfold gdecide
  by_cases h1 : tombsContain nt d.uuid = true
  · simp only [h1, ↓reduceIte]
  · simp only [h1, Bool.false_eq_true, ↓reduceIte]
    cases h2 : findLoc s.root d.uuid with
    | none => rfl
    | some loc =>
      simp only
      cases h3 : findGroup s.root loc with
      | none => rfl
      | some parent =>
        simp only
        cases h4 : findGroup parent [d.uuid] with
        | none => rfl
        | some grp =>
          simp only
          by_cases h5 : (!(grp.children.filter (fun c => !c.isGroup)).isEmpty) = true
          · simp only [h5, ↓reduceIte]
          · simp only [h5, Bool.false_eq_true, ↓reduceIte]
            by_cases h6 : ((grp.children.filter (·.isGroup)).any (fun c => q.any (·.uuid == c.uuid))) = true
            · simp only [h6, ↓reduceIte]
            · simp only [h6, Bool.false_eq_true, ↓reduceIte]
              by_cases h7 : (!(grp.children.filter (·.isGroup)).isEmpty) = true
              · simp only [h7, ↓reduceIte]
              · simp only [h7, Bool.false_eq_true, ↓reduceIte]
                by_cases h8 : grp.times.mtime.getD now < d.time
                · simp only [h8, ↓reduceIte]
                  cases h9 : removeNode parent d.uuid with
                  | none => rfl
                  | some pr => rfl
                · simp only [h8, ↓reduceIte]


theorem any_congr_mem {α : Type} (p : α → Bool) (a b : List α) (h : ∀ x, x ∈ a ↔ x ∈ b) : a.any p = b.any p := by
  cases ha : a.any p with
  | true =>
    obtain ⟨x, hx, hp⟩ := List.any_eq_true.mp ha
    exact (List.any_eq_true.mpr ⟨x, (h x).mp hx, hp⟩).symm
  | false =>
    cases hb : b.any p with
    | false => rfl
    | true =>
      obtain ⟨x, hx, hp⟩ := List.any_eq_true.mp hb
      have := List.any_eq_true.mpr ⟨x, (h x).mpr hx, hp⟩
      rw [ha] at this; cases this

/-- the decision depends on the rest of the queue only through the set of its members -/
theorem gdecide_congr (now : Int) (s : St) (nt : List Tomb) (d : Tomb) (q q' : List Tomb) (h : ∀ x, x ∈ q ↔ x ∈ q') :
    gdecide now s nt d q = gdecide now s nt d q' := by
  unfold gdecide
  have : ∀ c : Node, q.any (·.uuid == c.uuid) = q'.any (·.uuid == c.uuid) := fun c => any_congr_mem _ q q' h
  simp only [this]

/-- what a re-queue means: the tombstoned group is there, holds no entries, and one of its child groups is named by
    another tombstone of the queue -/
theorem gdecide_requeue (now : Int) (s : St) (nt : List Tomb) (d : Tomb) (q : List Tomb)
    (h : gdecide now s nt d q = .requeue) :
    ∃ loc parent grp c e, findLoc s.root d.uuid = some loc ∧ findGroup s.root loc = some parent
      ∧ findGroup parent [d.uuid] = some grp ∧ c ∈ grp.children ∧ c.isGroup = true ∧ e ∈ q ∧ e.uuid = c.uuid := by
  unfold gdecide at h
  by_cases h1 : tombsContain nt d.uuid = true
  · simp [h1] at h
  · simp only [h1, Bool.false_eq_true, ↓reduceIte] at h
    cases h2 : findLoc s.root d.uuid with
    | none => simp [h2] at h
    | some loc =>
      simp only [h2] at h
      cases h3 : findGroup s.root loc with
      | none => simp [h3] at h
      | some parent =>
        simp only [h3] at h
        cases h4 : findGroup parent [d.uuid] with
        | none => simp [h4] at h
        | some grp =>
          simp only [h4] at h
          by_cases h5 : (!(grp.children.filter (fun c => !c.isGroup)).isEmpty) = true
          · simp [h5] at h
          · simp only [h5, Bool.false_eq_true, ↓reduceIte] at h
            by_cases h6 : ((grp.children.filter (·.isGroup)).any (fun c => q.any (·.uuid == c.uuid))) = true
            · obtain ⟨c, hc, hq⟩ := List.any_eq_true.mp h6
              obtain ⟨e, he, heq⟩ := List.any_eq_true.mp hq
              have hcm := List.mem_filter.mp hc
              exact ⟨loc, parent, grp, c, e, rfl, h3, h4, hcm.1, hcm.2, he, by simpa using heq⟩
            · simp only [h6, Bool.false_eq_true, ↓reduceIte] at h
              by_cases h7 : (!(grp.children.filter (·.isGroup)).isEmpty) = true
              · simp [h7] at h
              · simp only [h7, Bool.false_eq_true, ↓reduceIte] at h
                by_cases h8 : grp.times.mtime.getD now < d.time
                · simp only [h8, ↓reduceIte] at h
                  cases h9 : removeNode parent d.uuid with
                  | none => simp [h9] at h
                  | some pr => simp [h9] at h
                · simp [h8] at h

/-- depth at which a tombstone's node sits (0 when it is not there) -/
def tdepth (root : Node) (d : Tomb) : Nat := match findLoc root d.uuid with | some loc => loc.length + 1 | none => 0

theorem findGroup_some {root : Node} {p : List Nat} {g : Node} (h : findGroup root p = some g) :
    getPath root p = some g ∧ g.isGroup = true := by
  unfold findGroup at h
  cases hg : getPath root p with
  | none => simp [hg] at h
  | some n =>
    simp only [hg] at h
    by_cases hi : n.isGroup = true
    · simp only [hi, ↓reduceIte, Option.some.injEq] at h
      subst h
      exact ⟨rfl, hi⟩
    · simp [hi] at h

/-- a re-queued tombstone has, in the rest of the queue, a tombstone of a node exactly one level deeper -/
theorem requeue_deeper (now : Int) (s : St) (nt : List Tomb) (d : Tomb) (q : List Tomb)
    (hn : (uuidsL s.root.children).Nodup) (h : gdecide now s nt d q = .requeue) :
    ∃ e ∈ q, tdepth s.root e = tdepth s.root d + 1 := by
  obtain ⟨loc, parent, grp, c, e, h1, h2, h3, hc, hcg, he, heq⟩ := gdecide_requeue now s nt d q h
  obtain ⟨gp, gpg⟩ := findGroup_some h2
  obtain ⟨gg, ggg⟩ := findGroup_some h3
  -- grp is the child of `parent` with UUID d.uuid
  have hgm : grp ∈ parent.children ∧ grp.uuid = d.uuid := by
    simp only [getPath] at gg
    obtain ⟨hm, hp⟩ := find_first gg
    exact ⟨hm, by simpa using hp⟩
  have hgrp : getPath s.root (loc ++ [d.uuid]) = some grp := by
    have := getPath_child loc s.root parent grp hn gp gpg hgm.1
    rw [hgm.2] at this
    exact this
  have hloc := findLoc_child (loc ++ [d.uuid]) s.root grp c hn hgrp ggg hc
  refine ⟨e, he, ?_⟩
  have h1' : findLocL s.root.children d.uuid = some loc := h1
  have hloc' : findLocL s.root.children e.uuid = some (loc ++ [d.uuid]) := by rw [heq]; exact hloc
  simp [tdepth, findLoc, h1', hloc']


/-! ### removing a node keeps the UUIDs pairwise distinct -/

theorem uuidsL_filter_sublist (p : Node → Bool) : ∀ (cs : List Node), (uuidsL (cs.filter p)).Sublist (uuidsL cs) := by
  intro cs
  induction cs with
  | nil => simp [uuidsL]
  | cons c cs ih =>
    simp only [List.filter]
    cases p c with
    | true => simp only [uuidsL]; exact List.Sublist.append (List.Sublist.refl _) ih
    | false => simp only [uuidsL]; exact List.Sublist.trans ih (List.sublist_append_right _ _)

theorem uuidsL_updFirst_sublist (p : Node → Bool) (f : Node → Node) : ∀ (cs : List Node),
    (∀ c, cs.find? p = some c → (uuidsN (f c)).Sublist (uuidsN c)) → (uuidsL (updFirst p f cs)).Sublist (uuidsL cs) := by
  intro cs
  induction cs with
  | nil => intro _; simp [updFirst, uuidsL]
  | cons c cs ih =>
    intro h
    simp only [updFirst]
    cases hp : p c with
    | true =>
      simp only [↓reduceIte, uuidsL]
      exact List.Sublist.append (h c (by simp [List.find?, hp])) (List.Sublist.refl _)
    | false =>
      simp only [Bool.false_eq_true, ↓reduceIte, uuidsL]
      exact List.Sublist.append (List.Sublist.refl _) (ih (fun x hx => h x (by simp [List.find?, hp, hx])))

theorem uuidsN_setChildren (g : Node) (cs : List Node) (hg : g.isGroup = true) :
    uuidsN (g.setChildren cs) = g.uuid :: uuidsL cs := by
  cases g with
  | group u c t ch => simp [Node.setChildren, uuidsN, Node.uuid]
  | entry e => simp [Node.isGroup] at hg

theorem uuidsN_group (g : Node) (hg : g.isGroup = true) : uuidsN g = g.uuid :: uuidsL g.children := by
  cases g with
  | group u c t ch => simp [uuidsN, Node.uuid, Node.children]
  | entry e => simp [Node.isGroup] at hg

/-- replacing the node a path designates by a node with fewer UUIDs shrinks the tree's UUID list -/
theorem uuidsN_updatePath_sublist : ∀ (path : List Nat) (root n : Node) (f : Node → Node), root.isGroup = true →
    getPath root path = some n → (uuidsN (f n)).Sublist (uuidsN n) →
    (uuidsN (updatePath root path f)).Sublist (uuidsN root) := by
  intro path
  induction path with
  | nil =>
    intro root n f _ hg hf
    simp only [getPath, Option.some.injEq] at hg
    subst hg
    simp only [updatePath]; exact hf
  | cons u rest ih =>
    intro root n f hr hg hf
    cases rest with
    | nil =>
      simp only [getPath] at hg
      simp only [updatePath]
      rw [uuidsN_setChildren _ _ hr, uuidsN_group root hr]
      exact List.Sublist.cons_cons _ (uuidsL_updFirst_sublist _ f _ (fun c hc => by rw [hg] at hc; cases hc; exact hf))
    | cons v rest' =>
      simp only [getPath] at hg
      simp only [updatePath]
      rw [uuidsN_setChildren _ _ hr, uuidsN_group root hr]
      refine List.Sublist.cons_cons _ (uuidsL_updFirst_sublist _ _ _ (fun c hc => ?_))
      rw [hc] at hg
      simp only at hg
      have hcg : c.isGroup = true := by
        have := (find_first hc).2
        simp only [Bool.and_eq_true] at this
        exact this.1
      exact ih c n f hcg hg hf


theorem updatePath_isGroup : ∀ (path : List Nat) (root : Node) (f : Node → Node), root.isGroup = true →
    (path = [] → (f root).isGroup = true) → (updatePath root path f).isGroup = true := by
  intro path root f hr hf
  cases path with
  | nil => simp only [updatePath]; exact hf rfl
  | cons u rest =>
    cases root with
    | entry e => simp [Node.isGroup] at hr
    | group a b c d => cases rest <;> simp [updatePath, Node.setChildren, Node.isGroup]

/-- a deletion step keeps the tree a group with pairwise distinct UUIDs -/
theorem gdecide_delete_inv (now : Int) (s : St) (nt : List Tomb) (d : Tomb) (q : List Tomb) (s' : St) (nt' : List Tomb)
    (hr : s.root.isGroup = true) (hn : (uuidsL s.root.children).Nodup) (h : gdecide now s nt d q = .delete s' nt') :
    s'.root.isGroup = true ∧ (uuidsL s'.root.children).Nodup := by
  unfold gdecide at h
  by_cases h1 : tombsContain nt d.uuid = true
  · simp [h1] at h
  · simp only [h1, Bool.false_eq_true, ↓reduceIte] at h
    cases h2 : findLoc s.root d.uuid with
    | none => simp [h2] at h
    | some loc =>
      simp only [h2] at h
      cases h3 : findGroup s.root loc with
      | none => simp [h3] at h
      | some parent =>
        simp only [h3] at h
        cases h4 : findGroup parent [d.uuid] with
        | none => simp [h4] at h
        | some grp =>
          simp only [h4] at h
          by_cases h5 : (!(grp.children.filter (fun c => !c.isGroup)).isEmpty) = true
          · simp [h5] at h
          · simp only [h5, Bool.false_eq_true, ↓reduceIte] at h
            by_cases h6 : ((grp.children.filter (·.isGroup)).any (fun c => q.any (·.uuid == c.uuid))) = true
            · simp [h6] at h
            · simp only [h6, Bool.false_eq_true, ↓reduceIte] at h
              by_cases h7 : (!(grp.children.filter (·.isGroup)).isEmpty) = true
              · simp [h7] at h
              · simp only [h7, Bool.false_eq_true, ↓reduceIte] at h
                by_cases h8 : grp.times.mtime.getD now < d.time
                · simp only [h8, ↓reduceIte] at h
                  cases h9 : removeNode parent d.uuid with
                  | none => simp [h9] at h
                  | some pr =>
                    obtain ⟨parent', last⟩ := pr
                    simp only [h9, GDec.delete.injEq] at h
                    obtain ⟨hs, _⟩ := h
                    subst hs
                    obtain ⟨gp, gpg⟩ := findGroup_some h3
                    -- parent' is parent with some children filtered out
                    have hp' : parent' = parent.setChildren (parent.children.filter (fun c => !(c.uuid == d.uuid))) := by
                      unfold removeNode at h9
                      split at h9
                      · cases h9
                      · simp only [Option.some.injEq, Prod.mk.injEq] at h9
                        exact h9.1.symm
                    have hsub : (uuidsN parent').Sublist (uuidsN parent) := by
                      rw [hp', uuidsN_setChildren _ _ gpg, uuidsN_group parent gpg]
                      exact List.Sublist.cons_cons _ (uuidsL_filter_sublist _ _)
                    have hpg : parent'.isGroup = true := by
                      rw [hp']; cases parent <;> simp [Node.setChildren, Node.isGroup] at gpg ⊢
                    simp only [St.ev]
                    have hg' := updatePath_isGroup loc s.root (fun _ => parent') hr (fun _ => hpg)
                    refine ⟨hg', ?_⟩
                    have hs1 := uuidsN_updatePath_sublist loc s.root parent (fun _ => parent') hr gp hsub
                    rw [uuidsN_group _ hg', uuidsN_group _ hr] at hs1
                    -- the sublist relation passes to the children lists
                    have hs2 : (uuidsL (updatePath s.root loc fun _ => parent').children).Sublist (uuidsL s.root.children) := by
                      have := List.Sublist.tail hs1
                      simpa using this
                    exact List.Nodup.sublist hs2 hn
                · simp [h8] at h


theorem gdecide_err (now : Int) (s : St) (nt : List Tomb) (d : Tomb) (q : List Tomb) (e : MErr)
    (h : gdecide now s nt d q = .err e) : e ≠ .outOfFuel := by
  unfold gdecide at h
  by_cases h1 : tombsContain nt d.uuid = true
  · simp [h1] at h
  · simp only [h1, Bool.false_eq_true, ↓reduceIte] at h
    cases h2 : findLoc s.root d.uuid with
    | none => simp [h2] at h
    | some loc =>
      simp only [h2] at h
      cases h3 : findGroup s.root loc with
      | none =>
        simp only [h3, GDec.err.injEq] at h
        subst h; intro hh; cases hh
      | some parent =>
        simp only [h3] at h
        cases h4 : findGroup parent [d.uuid] with
        | none => simp [h4] at h
        | some grp =>
          simp only [h4] at h
          by_cases h5 : (!(grp.children.filter (fun c => !c.isGroup)).isEmpty) = true
          · simp [h5] at h
          · simp only [h5, Bool.false_eq_true, ↓reduceIte] at h
            by_cases h6 : ((grp.children.filter (·.isGroup)).any (fun c => q.any (·.uuid == c.uuid))) = true
            · simp [h6] at h
            · simp only [h6, Bool.false_eq_true, ↓reduceIte] at h
              by_cases h7 : (!(grp.children.filter (·.isGroup)).isEmpty) = true
              · simp [h7] at h
              · simp only [h7, Bool.false_eq_true, ↓reduceIte] at h
                by_cases h8 : grp.times.mtime.getD now < d.time
                · simp only [h8, ↓reduceIte] at h
                  cases h9 : removeNode parent d.uuid with
                  | none =>
                    simp only [h9, GDec.err.injEq] at h
                    subst h; intro hh; cases hh
                  | some pr => simp [h9] at h
                · simp [h8] at h

theorem exists_max_by {α : Type} (f : α → Nat) : ∀ (l : List α), l ≠ [] → ∃ x ∈ l, ∀ y ∈ l, f y ≤ f x := by
  intro l
  induction l with
  | nil => intro h; exact absurd rfl h
  | cons a as ih =>
    intro _
    by_cases has : as = []
    · subst has; exact ⟨a, by simp, by simp⟩
    · obtain ⟨x, hx, hmax⟩ := ih has
      by_cases hle : f x ≤ f a
      · exact ⟨a, by simp, fun y hy => by
          rcases List.mem_cons.mp hy with rfl | hy
          · exact Nat.le_refl _
          · exact Nat.le_trans (hmax y hy) hle⟩
      · exact ⟨x, List.mem_cons_of_mem _ hx, fun y hy => by
          rcases List.mem_cons.mp hy with rfl | hy
          · omega
          · exact hmax y hy⟩

/-- in a non-empty queue over a tree with pairwise distinct UUIDs some element is not re-queued -/
theorem exists_unblocked (now : Int) (s : St) (nt : List Tomb) (Q : List Tomb) (hn : (uuidsL s.root.children).Nodup)
    (hQ : Q ≠ []) : ∃ i, ∃ hi : i < Q.length, gdecide now s nt Q[i] (Q.eraseIdx i) ≠ .requeue := by
  obtain ⟨d, hd, hmax⟩ := exists_max_by (tdepth s.root) Q hQ
  obtain ⟨i, hi, hget⟩ := List.getElem_of_mem hd
  refine ⟨i, hi, fun hreq => ?_⟩
  rw [hget] at hreq
  obtain ⟨e, he, hdepth⟩ := requeue_deeper now s nt d (Q.eraseIdx i) hn hreq
  have := hmax e (List.mem_of_mem_eraseIdx he)
  omega

/-- fuel that suffices for a queue of `n` tombstones: at most `n - 1` rotations and one resolving step per element -/
def fuelFor : Nat → Nat
  | 0 => 0
  | n + 1 => fuelFor n + (n + 1)

theorem deleteGroups_nil (now : Int) (fuel : Nat) (s : St) (nt : List Tomb) :
    deleteGroups now fuel s nt [] = .ok (s, nt) := by
  cases fuel <;> simp [deleteGroups]

theorem deleteGroups_enough (now : Int) : ∀ (n : Nat) (Q : List Tomb) (s : St) (nt : List Tomb) (fuel : Nat),
    Q.length = n → s.root.isGroup = true → (uuidsL s.root.children).Nodup → fuelFor n ≤ fuel →
    deleteGroups now fuel s nt Q ≠ .error .outOfFuel := by
  intro n
  induction n with
  | zero =>
    intro Q s nt fuel hl _ _ _
    have : Q = [] := List.length_eq_zero_iff.mp hl
    subst this
    rw [deleteGroups_nil]; intro h; cases h
  | succ n ih =>
    -- inner induction on the position of the first element that is not re-queued
    have inner : ∀ (k : Nat) (Q : List Tomb) (s : St) (nt : List Tomb) (fuel : Nat),
        Q.length = n + 1 → s.root.isGroup = true → (uuidsL s.root.children).Nodup →
        (∃ i, i ≤ k ∧ ∃ hi : i < Q.length, gdecide now s nt Q[i] (Q.eraseIdx i) ≠ .requeue) →
        fuelFor n + k + 1 ≤ fuel → deleteGroups now fuel s nt Q ≠ .error .outOfFuel := by
      intro k
      induction k with
      | zero =>
        intro Q s nt fuel hl hr hn hex hf
        obtain ⟨i, hik, hi, hun⟩ := hex
        have hi0 : i = 0 := by omega
        subst hi0
        cases Q with
        | nil => simp at hl
        | cons d q =>
          obtain ⟨f, rfl⟩ : ∃ f, fuel = f + 1 := ⟨fuel - 1, by omega⟩
          simp only [List.getElem_cons_zero, List.eraseIdx_cons_zero] at hun
          rw [deleteGroups_step]
          cases hg : gdecide now s nt d q with
          | skip => exact ih q s nt f (by simpa using hl) hr hn (by omega)
          | requeue => exact absurd hg hun
          | delete s' nt' =>
            obtain ⟨hr', hn'⟩ := gdecide_delete_inv now s nt d q s' nt' hr hn hg
            exact ih q s' nt' f (by simpa using hl) hr' hn' (by omega)
          | err e =>
            intro h
            simp only [Except.error.injEq] at h
            exact gdecide_err now s nt d q e hg h
      | succ k ihk =>
        intro Q s nt fuel hl hr hn hex hf
        cases Q with
        | nil => simp at hl
        | cons d q =>
          obtain ⟨f, rfl⟩ : ∃ f, fuel = f + 1 := ⟨fuel - 1, by omega⟩
          rw [deleteGroups_step]
          cases hg : gdecide now s nt d q with
          | skip => exact ih q s nt f (by simpa using hl) hr hn (by omega)
          | delete s' nt' =>
            obtain ⟨hr', hn'⟩ := gdecide_delete_inv now s nt d q s' nt' hr hn hg
            exact ih q s' nt' f (by simpa using hl) hr' hn' (by omega)
          | err e =>
            intro h
            simp only [Except.error.injEq] at h
            exact gdecide_err now s nt d q e hg h
          | requeue =>
            -- the head is rotated to the back; the first element that is not re-queued moves one place forward
            obtain ⟨i, hik, hi, hun⟩ := hex
            cases i with
            | zero =>
              simp only [List.getElem_cons_zero, List.eraseIdx_cons_zero] at hun
              exact absurd hg hun
            | succ j =>
              have hj : j < q.length := by simpa using hi
              refine ihk (q ++ [d]) s nt f (by simp at hl ⊢; omega) hr hn ⟨j, by omega, by simp; omega, ?_⟩ (by omega)
              simp only [List.getElem_cons_succ, List.eraseIdx_cons_succ] at hun
              have e1 : (q ++ [d])[j]'(by simp; omega) = q[j] := List.getElem_append_left hj
              rw [e1]
              have e2 : ∀ x, x ∈ (q ++ [d]).eraseIdx j ↔ x ∈ d :: q.eraseIdx j := by
                intro x
                rw [List.eraseIdx_append_of_lt_length hj]
                simp only [List.mem_append, List.mem_cons, List.not_mem_nil, or_false]
                constructor
                · rintro (h | h)
                  · exact Or.inr h
                  · exact Or.inl h
                · rintro (h | h)
                  · exact Or.inr h
                  · exact Or.inl h
              rw [gdecide_congr now s nt q[j] _ _ e2]
              exact hun
    intro Q s nt fuel hl hr hn hf
    have hQ : Q ≠ [] := by intro e; subst e; simp at hl
    obtain ⟨i, hi, hun⟩ := exists_unblocked now s nt Q hn hQ
    exact inner n Q s nt fuel hl hr hn ⟨i, by omega, hi, hun⟩ (by simp only [fuelFor] at hf; omega)

theorem fuelFor_le (n : Nat) : fuelFor n ≤ (n + 1) * (n + 1) + 1 := by
  induction n with
  | zero => simp [fuelFor]
  | succ n ih =>
    simp only [fuelFor]
    have : (n + 1 + 1) * (n + 1 + 1) = (n + 1) * (n + 1) + 2 * (n + 1) + 1 := by
      simp only [Nat.mul_add, Nat.add_mul, Nat.mul_one, Nat.one_mul]; omega
    omega


/-- pass 1 (entries) has no fuel and keeps the tree a group with pairwise distinct UUIDs -/
theorem deleteEntries_inv (now : Int) : ∀ (ts : List Tomb) (s : St) (nt : List Tomb),
    s.root.isGroup = true → (uuidsL s.root.children).Nodup →
    deleteEntries now s nt ts ≠ .error .outOfFuel
    ∧ ∀ s' nt', deleteEntries now s nt ts = .ok (s', nt') → s'.root.isGroup = true ∧ (uuidsL s'.root.children).Nodup := by
  intro ts
  induction ts with
  | nil =>
    intro s nt hr hn
    refine ⟨by simp [deleteEntries], fun s' nt' h => ?_⟩
    simp only [deleteEntries, Except.ok.injEq, Prod.mk.injEq] at h
    obtain ⟨rfl, _⟩ := h
    exact ⟨hr, hn⟩
  | cons d rest ih =>
    intro s nt hr hn
    unfold deleteEntries
    by_cases h1 : tombsContain nt d.uuid = true
    · simp only [h1, ↓reduceIte]; exact ih s nt hr hn
    · simp only [h1, Bool.false_eq_true, ↓reduceIte]
      cases h2 : findLoc s.root d.uuid with
      | none => exact ih s nt hr hn
      | some loc =>
        simp only
        cases h3 : findGroup s.root loc with
        | none =>
          refine ⟨?_, ?_⟩
          · intro h; cases h
          · intro s' nt' h; cases h
        | some parent =>
          simp only
          cases h4 : findEntry parent [d.uuid] with
          | none => exact ih s nt hr hn
          | some e =>
            simp only
            by_cases h5 : e.d.times.mtime.getD now < d.time
            · simp only [h5, ↓reduceIte]
              cases h9 : removeNode parent d.uuid with
              | none =>
                refine ⟨?_, ?_⟩
                · intro h; cases h
                · intro s' nt' h; cases h
              | some pr =>
                obtain ⟨parent', last⟩ := pr
                simp only
                obtain ⟨gp, gpg⟩ := findGroup_some h3
                have hp' : parent' = parent.setChildren (parent.children.filter (fun c => !(c.uuid == d.uuid))) := by
                  unfold removeNode at h9
                  split at h9
                  · cases h9
                  · simp only [Option.some.injEq, Prod.mk.injEq] at h9
                    exact h9.1.symm
                have hsub : (uuidsN parent').Sublist (uuidsN parent) := by
                  rw [hp', uuidsN_setChildren _ _ gpg, uuidsN_group parent gpg]
                  exact List.Sublist.cons_cons _ (uuidsL_filter_sublist _ _)
                have hpg : parent'.isGroup = true := by
                  rw [hp']; cases parent <;> simp [Node.setChildren, Node.isGroup] at gpg ⊢
                have hg' := updatePath_isGroup loc s.root (fun _ => parent') hr (fun _ => hpg)
                have hs1 := uuidsN_updatePath_sublist loc s.root parent (fun _ => parent') hr gp hsub
                rw [uuidsN_group _ hg', uuidsN_group _ hr] at hs1
                have hs2 : (uuidsL (updatePath s.root loc fun _ => parent').children).Sublist (uuidsL s.root.children) := by
                  have := List.Sublist.tail hs1
                  simpa using this
                exact ih _ _ (by simpa [St.ev] using hg') (by simpa [St.ev] using List.Nodup.sublist hs2 hn)
            · simp only [h5, ↓reduceIte]; exact ih s nt hr hn

end Kp.Merge
