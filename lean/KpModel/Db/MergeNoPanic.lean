import KpModel.Db.MergeDel
import KpModel.Db.MergeLwwH
/-!
# `merge` reaches none of its panic sites

The `unwrap()`s of `merge_group` (`find_entry(..).unwrap()` / `find_group(..).unwrap()` on a node of the other kind) and of
`History::merge_with` (`get_last_modification().unwrap()`) are the model's errors `panicKindMismatch` and `panicHistoryNoMtime`.
Neither is reached when the two replicas agree on which UUIDs are entries and which are groups and every entry version carries
a modification time.
-/
namespace Kp.Merge
open Node

/-! ### the passes keep a predicate over all entries (no UUID followed) -/

/-- what a predicate needs of a source entry: it satisfies it (so creating it is fine) and updating an entry that satisfies the
    predicate gives one that does -/
def SrcOk' (P : Entry → Prop) (now : Int) (oe : Entry) : Prop :=
  P oe ∧ ∀ ex m, ex.d.uuid = oe.d.uuid → P ex → entryUpdate now ex oe = .ok (some m) → P m

theorem inv_addGroup (root pg : Node) (path : List Nat) (ou oc : Nat) (ot : Times) (hI : Inv root)
    (hfg : findGroup root path = some pg) (hloc : findLoc root ou = none) :
    Inv (updatePath root path (fun p => p.setChildren (p.children ++ [Node.group ou oc ot []]))) := by
  refine inv_add_child root pg (.group ou oc ot []) path hI hfg (by simp [uuidsN, uuidsL]) ?_
  intro x hx
  simp only [uuidsN, uuidsL, List.mem_cons, List.not_mem_nil, or_false] at hx
  subst hx
  exact findLoc_none_notMem root _ hloc

theorem mergeEntryStep_keeps' (P : Entry → Prop) (hP : LocFree P) (now : Int) (tombs : List Tomb) (s s' : St)
    (path : List Nat) (inDel : Bool) (oe : Entry) (hS : SrcOk' P now oe) (hT : allE P s.root)
    (h : mergeEntryStep now tombs s path inDel oe = .ok s') : allE P s'.root :=
  mergeEntryStep_allE P hP now tombs s s' path inDel oe hT (fun _ => hS.1) hS.2 h

mutual
  theorem mergeGroup_allE' (P : Entry → Prop) (hP : LocFree P) (now : Int) (tombs : List Tomb) :
      ∀ (g : Node) (s s' : St) (path : List Nat) (inDel : Bool), allE (SrcOk' P now) g → Inv s.root → allE P s.root →
        mergeGroup now tombs s path g inDel = .ok s' → allE P s'.root
    | .entry _, s, s', _, _, _, _, hT, h => by
      simp only [mergeGroup] at h
      injection h with h; subst h; exact hT
    | .group gu gc gt cs, s, s', path, inDel, hS, hH, hT, h => by
      simp only [allE] at hS
      unfold mergeGroup at h
      dsimp only at h
      have jp : ∀ (s1 : St) (p1 : List Nat), Inv s1.root → allE P s1.root →
          (do
            let s ← mergeEntries now tombs s1 p1 inDel cs
            mergeSubgroups now tombs s p1 inDel cs) = .ok s' → allE P s'.root := by
        intro s1 p1 hH1 hT1 hk
        obtain ⟨s2, hs2, hk⟩ := except_bind_ok hk
        exact mergeSubgroups_allE' P hP now tombs cs s2 s' p1 inDel hS (mergeEntries_inv now tombs cs s1 s2 p1 inDel hH1 hs2)
          (mergeEntries_allE' P hP now tombs cs s1 s2 p1 inDel hS hH1 hT1 hs2) hk
      split at h
      · obtain ⟨x, hx, h⟩ := except_bind_ok h
        cases hx
        exact jp s path hH hT h
      · rename_i dloc hloc
        split at h
        · obtain ⟨x, hx, h⟩ := except_bind_ok h
          cases hx
        · rename_i du dc dt dch hfg
          obtain ⟨x, hx, h⟩ := except_bind_ok h
          obtain ⟨c', t', upd⟩ := x
          dsimp only at h
          obtain ⟨y, hy, h⟩ := except_bind_ok h
          cases hy
          have hH' := inv_update_same s.root (.group du dc dt dch) (dloc ++ [gu]) (fun n => match n with
              | .group u _ _ ch => .group u c' t' ch
              | e => e) hH (by simp) (findGroup_some hfg).1 (by simp [uuidsN])
          have hT' := allE_groupData P s.root (dloc ++ [gu]) c' t' hT
          refine jp _ _ ?_ ?_ h
          · split
            · rw [ev_root]; exact hH'
            · exact hH'
          · split
            · rw [ev_root]; exact hT'
            · exact hT'
        · obtain ⟨x, hx, h⟩ := except_bind_ok h
          cases hx

  theorem mergeEntries_allE' (P : Entry → Prop) (hP : LocFree P) (now : Int) (tombs : List Tomb) :
      ∀ (cs : List Node) (s s' : St) (path : List Nat) (inDel : Bool), allEL (SrcOk' P now) cs → Inv s.root → allE P s.root →
        mergeEntries now tombs s path inDel cs = .ok s' → allE P s'.root
    | [], s, s', _, _, _, _, hT, h => by
      simp only [mergeEntries] at h
      injection h with h; subst h; exact hT
    | .entry e :: rest, s, s', path, inDel, hS, hH, hT, h => by
      simp only [allEL, allE] at hS
      unfold mergeEntries at h
      obtain ⟨s1, hs1, h⟩ := except_bind_ok h
      exact mergeEntries_allE' P hP now tombs rest s1 s' path inDel hS.2 (mergeEntryStep_inv now tombs s s1 path inDel e hH hs1)
        (mergeEntryStep_keeps' P hP now tombs s s1 path inDel e hS.1 hT hs1) h
    | .group _ _ _ _ :: rest, s, s', path, inDel, hS, hH, hT, h => by
      simp only [allEL] at hS
      unfold mergeEntries at h
      exact mergeEntries_allE' P hP now tombs rest s s' path inDel hS.2 hH hT h

  theorem mergeSubgroups_allE' (P : Entry → Prop) (hP : LocFree P) (now : Int) (tombs : List Tomb) :
      ∀ (cs : List Node) (s s' : St) (path : List Nat) (inDel : Bool), allEL (SrcOk' P now) cs → Inv s.root → allE P s.root →
        mergeSubgroups now tombs s path inDel cs = .ok s' → allE P s'.root
    | [], s, s', _, _, _, _, hT, h => by
      simp only [mergeSubgroups] at h
      injection h with h; subst h; exact hT
    | .entry _ :: rest, s, s', path, inDel, hS, hH, hT, h => by
      simp only [allEL] at hS
      unfold mergeSubgroups at h
      exact mergeSubgroups_allE' P hP now tombs rest s s' path inDel hS.2 hH hT h
    | .group ou oc ot ocs :: rest, s, s', path, inDel, hS, hH, hT, h => by
      simp only [allEL] at hS
      have hog : allE (SrcOk' P now) (Node.group ou oc ot ocs) := hS.1
      unfold mergeSubgroups at h
      dsimp only at h
      have viaGroup : ∀ (s0 : St) (b : Bool), Inv s0.root → allE P s0.root →
          (do
            let s ← mergeGroup now tombs s0 (path ++ [ou]) (.group ou oc ot ocs) b
            mergeSubgroups now tombs s (refreshPath s.root path) inDel rest) = .ok s' → allE P s'.root := by
        intro s0 b hH0 hT0 hk
        obtain ⟨s1, hs1, hk⟩ := except_bind_ok hk
        exact mergeSubgroups_allE' P hP now tombs rest s1 s' _ inDel hS.2
          (mergeGroup_inv now tombs _ s0 s1 _ b hH0 hs1)
          (mergeGroup_allE' P hP now tombs (.group ou oc ot ocs) s0 s1 _ b hog hH0 hT0 hs1) hk
      split at h
      · exact viaGroup s true hH hT h
      · split at h
        · split at h
          · split at h
            · obtain ⟨x, hx, h⟩ := except_bind_ok h
              cases hx
            · split at h
              · obtain ⟨s2, hs2, h⟩ := except_bind_ok h
                refine viaGroup _ inDel ?_ ?_ h
                · rw [ev_root]; exact relocate_inv s s2 _ _ _ _ hH hs2
                · rw [ev_root]; exact relocate_allE P hP s s2 _ _ _ _ hT hs2
              · exact viaGroup s inDel hH hT h
          · exact viaGroup s inDel hH hT h
        · rename_i hloc
          split at h
          · obtain ⟨x, hx, h⟩ := except_bind_ok h
            cases hx
          · rename_i pg hfg
            rw [ev_root] at hfg
            refine viaGroup _ inDel ?_ ?_ h
            · exact inv_addGroup s.root pg path ou oc ot hH hfg hloc
            · exact allE_addGroup P s.root path ou oc ot hT
end

/-! ### the passes keep a predicate over all groups (no UUID followed) -/

def SrcOkG' (P : GP) (now : Int) (su sc : Nat) (st : Times) : Prop :=
  P su sc st ∧ ∀ dc dt c' t' upd, P su dc dt → groupMergeData now su dc dt su sc st = .ok (c', t', upd) → P su c' t'

mutual
  theorem mergeGroup_allG' (P : GP) (hP : LocFreeG P) (now : Int) (tombs : List Tomb) :
      ∀ (g : Node) (s s' : St) (path : List Nat) (inDel : Bool), allG (SrcOkG' P now) g → Inv s.root → allG P s.root →
        mergeGroup now tombs s path g inDel = .ok s' → allG P s'.root
    | .entry _, s, s', _, _, _, _, hT, h => by
      simp only [mergeGroup] at h
      injection h with h; subst h; exact hT
    | .group gu gc gt cs, s, s', path, inDel, hS, hH, hT, h => by
      simp only [allG] at hS
      unfold mergeGroup at h
      dsimp only at h
      have jp : ∀ (s1 : St) (p1 : List Nat), Inv s1.root → allG P s1.root →
          (do
            let s ← mergeEntries now tombs s1 p1 inDel cs
            mergeSubgroups now tombs s p1 inDel cs) = .ok s' → allG P s'.root := by
        intro s1 p1 hH1 hT1 hk
        obtain ⟨s2, hs2, hk⟩ := except_bind_ok hk
        exact mergeSubgroups_allG' P hP now tombs cs s2 s' p1 inDel hS.2 (mergeEntries_inv now tombs cs s1 s2 p1 inDel hH1 hs2)
          (mergeEntries_allG' P hP now tombs cs s1 s2 p1 inDel hT1 hs2) hk
      split at h
      · obtain ⟨x, hx, h⟩ := except_bind_ok h
        cases hx
        exact jp s path hH hT h
      · rename_i dloc hloc
        split at h
        · obtain ⟨x, hx, h⟩ := except_bind_ok h
          cases hx
        · rename_i du dc dt dch hfg
          obtain ⟨x, hx, h⟩ := except_bind_ok h
          obtain ⟨c', t', upd⟩ := x
          dsimp only at h
          obtain ⟨y, hy, h⟩ := except_bind_ok h
          cases hy
          have hgp := (findGroup_some hfg).1
          have hdu : du = gu := getPath_last_uuid dloc s.root _ gu hgp
          have hH' := inv_update_same s.root (.group du dc dt dch) (dloc ++ [gu]) (fun n => match n with
              | .group u _ _ ch => .group u c' t' ch
              | e => e) hH (by simp) (findGroup_some hfg).1 (by simp [uuidsN])
          have hn := allG_getPath P _ s.root _ hT hgp
          simp only [allG] at hn
          have hnew : P du c' t' := by
            subst hdu
            exact hS.1.2 dc dt c' t' upd hn.1 hx
          have hT' : allG P (updatePath s.root (dloc ++ [gu]) (fun n => match n with
              | .group u _ _ ch => .group u c' t' ch
              | e => e)) := by
            refine allG_updatePath_node P _ (dloc ++ [gu]) s.root (.group du dc dt dch) hgp hT ?_
            simp only [allG]
            exact ⟨hnew, hn.2⟩
          refine jp _ _ ?_ ?_ h
          · split
            · rw [ev_root]; exact hH'
            · exact hH'
          · split
            · rw [ev_root]; exact hT'
            · exact hT'
        · obtain ⟨x, hx, h⟩ := except_bind_ok h
          cases hx

  theorem mergeEntries_allG' (P : GP) (hP : LocFreeG P) (now : Int) (tombs : List Tomb) :
      ∀ (cs : List Node) (s s' : St) (path : List Nat) (inDel : Bool), allG P s.root →
        mergeEntries now tombs s path inDel cs = .ok s' → allG P s'.root
    | [], s, s', _, _, hT, h => by
      simp only [mergeEntries] at h
      injection h with h; subst h; exact hT
    | .entry e :: rest, s, s', path, inDel, hT, h => by
      unfold mergeEntries at h
      obtain ⟨s1, hs1, h⟩ := except_bind_ok h
      exact mergeEntries_allG' P hP now tombs rest s1 s' path inDel (mergeEntryStep_allG P hP now tombs s s1 path inDel e hT hs1) h
    | .group _ _ _ _ :: rest, s, s', path, inDel, hT, h => by
      unfold mergeEntries at h
      exact mergeEntries_allG' P hP now tombs rest s s' path inDel hT h

  theorem mergeSubgroups_allG' (P : GP) (hP : LocFreeG P) (now : Int) (tombs : List Tomb) :
      ∀ (cs : List Node) (s s' : St) (path : List Nat) (inDel : Bool), allGL (SrcOkG' P now) cs → Inv s.root → allG P s.root →
        mergeSubgroups now tombs s path inDel cs = .ok s' → allG P s'.root
    | [], s, s', _, _, _, _, hT, h => by
      simp only [mergeSubgroups] at h
      injection h with h; subst h; exact hT
    | .entry _ :: rest, s, s', path, inDel, hS, hH, hT, h => by
      simp only [allGL] at hS
      unfold mergeSubgroups at h
      exact mergeSubgroups_allG' P hP now tombs rest s s' path inDel hS.2 hH hT h
    | .group ou oc ot ocs :: rest, s, s', path, inDel, hS, hH, hT, h => by
      simp only [allGL] at hS
      have hog : allG (SrcOkG' P now) (Node.group ou oc ot ocs) := hS.1
      unfold mergeSubgroups at h
      dsimp only at h
      have viaGroup : ∀ (s0 : St) (b : Bool), Inv s0.root → allG P s0.root →
          (do
            let s ← mergeGroup now tombs s0 (path ++ [ou]) (.group ou oc ot ocs) b
            mergeSubgroups now tombs s (refreshPath s.root path) inDel rest) = .ok s' → allG P s'.root := by
        intro s0 b hH0 hT0 hk
        obtain ⟨s1, hs1, hk⟩ := except_bind_ok hk
        exact mergeSubgroups_allG' P hP now tombs rest s1 s' _ inDel hS.2
          (mergeGroup_inv now tombs _ s0 s1 _ b hH0 hs1)
          (mergeGroup_allG' P hP now tombs (.group ou oc ot ocs) s0 s1 _ b hog hH0 hT0 hs1) hk
      split at h
      · exact viaGroup s true hH hT h
      · split at h
        · split at h
          · split at h
            · obtain ⟨x, hx, h⟩ := except_bind_ok h
              cases hx
            · split at h
              · obtain ⟨s2, hs2, h⟩ := except_bind_ok h
                refine viaGroup _ inDel ?_ ?_ h
                · rw [ev_root]; exact relocate_inv s s2 _ _ _ _ hH hs2
                · rw [ev_root]; exact relocate_allG P hP s s2 _ _ _ _ hT hs2
              · exact viaGroup s inDel hH hT h
          · exact viaGroup s inDel hH hT h
        · rename_i hloc
          split at h
          · obtain ⟨x, hx, h⟩ := except_bind_ok h
            cases hx
          · rename_i pg hfg
            rw [ev_root] at hfg
            refine viaGroup _ inDel ?_ ?_ h
            · exact inv_addGroup s.root pg path ou oc ot hH hfg hloc
            · rw [ev_root]
              refine allG_updatePath P _ (fun n hn => ?_) path s.root hT
              simp only [allG] at hog
              exact allG_setChildren P n _ hn ((allGL_append P _ _).mpr ⟨allG_children P n hn, ⟨⟨hog.1.1, trivial⟩, trivial⟩⟩)
end


/-! ### no panic -/

def IsPanic (e : MErr) : Prop := e = .panicKindMismatch ∨ e = .panicHistoryNoMtime

/-- the computation does not end in one of the model's panic errors -/
def NoPanic {α : Type} (x : Except MErr α) : Prop := ∀ e, x = .error e → ¬ IsPanic e

theorem NoPanic.ok {α : Type} (a : α) : NoPanic (Except.ok a : Except MErr α) := by intro e h; cases h
theorem NoPanic.pure {α : Type} (a : α) : NoPanic (Pure.pure a : Except MErr α) := by intro e h; cases h
theorem NoPanic.err {α : Type} (e : MErr) (h : ¬ IsPanic e) : NoPanic (Except.error e : Except MErr α) := by
  intro e' h'; injection h' with h'; subst h'; exact h
theorem NoPanic.bind {α β : Type} {x : Except MErr α} {f : α → Except MErr β} (hx : NoPanic x)
    (hf : ∀ a, x = .ok a → NoPanic (f a)) : NoPanic (x >>= f) := by
  cases x with
  | error e =>
    intro e' h
    have h' : (Except.error e : Except MErr β) = .error e' := h
    injection h' with he
    subst he
    exact hx e rfl
  | ok a => exact hf a rfl

/-- an entry version and all its history items carry a modification time -/
def TimedE (e : Entry) : Prop := e.d.times.mtime.isSome = true ∧ ∀ x ∈ e.history.getD [], x.times.mtime.isSome = true

theorem phase1_errors (dst : List EData) (hd : ∀ x ∈ dst, x.times.mtime.isSome = true) : ∀ (acc : AL) (e : MErr),
    phase1 dst acc = .error e → e = .duplicateHistory := by
  induction dst with
  | nil => intro acc e h; simp only [phase1, List.foldlM_nil] at h; cases h
  | cons x rest ih =>
    intro acc e h
    have hx := hd x List.mem_cons_self
    unfold phase1 at h
    simp only [List.foldlM_cons] at h
    cases hm : x.times.mtime with
    | none => rw [hm] at hx; cases hx
    | some t =>
      simp only [hm] at h
      by_cases hany : acc.any (·.1 == t) = true
      · simp only [hany, ↓reduceIte] at h
        have h' : (Except.error MErr.duplicateHistory : Except MErr AL) = .error e := h
        injection h' with h'; exact h'.symm
      · simp only [hany, Bool.false_eq_true, ↓reduceIte] at h
        exact ih (fun y hy => hd y (List.mem_cons_of_mem _ hy)) _ e h

theorem phase2_errors (src : List EData) (hd : ∀ x ∈ src, x.times.mtime.isSome = true) : ∀ (acc : AL) (e : MErr),
    phase2 src acc = .error e → False := by
  induction src with
  | nil => intro acc e h; simp only [phase2, List.foldlM_nil] at h; cases h
  | cons x rest ih =>
    intro acc e h
    have hx := hd x List.mem_cons_self
    unfold phase2 at h
    simp only [List.foldlM_cons] at h
    cases hm : x.times.mtime with
    | none => rw [hm] at hx; cases hx
    | some t =>
      simp only [hm] at h
      by_cases hany : acc.any (·.1 == t) = true
      · simp only [hany, ↓reduceIte] at h
        exact ih (fun y hy => hd y (List.mem_cons_of_mem _ hy)) _ e h
      · simp only [hany, Bool.false_eq_true, ↓reduceIte] at h
        exact ih (fun y hy => hd y (List.mem_cons_of_mem _ hy)) _ e h

theorem historyMerge_noPanic (a b : List EData) (ha : ∀ x ∈ a, x.times.mtime.isSome = true) (hb : ∀ x ∈ b, x.times.mtime.isSome = true) :
    NoPanic (historyMerge a b) := by
  intro e h hp
  unfold historyMerge at h
  cases h1 : phase1 a [] with
  | error e1 =>
    rw [h1] at h
    injection h with h; subst h
    have := phase1_errors a ha [] e1 h1
    subst this
    rcases hp with hp | hp <;> cases hp
  | ok m =>
    rw [h1] at h
    simp only at h
    cases h2 : phase2 b m with
    | error e2 => exact phase2_errors b hb m e2 h2
    | ok m' => rw [h2] at h; cases h

theorem historyMerge_timed (a b r : List EData) (h : historyMerge a b = .ok r) : ∀ y ∈ r, y.times.mtime.isSome = true := by
  unfold historyMerge at h
  cases h1 : phase1 a [] with
  | error e => simp [h1] at h
  | ok m =>
    simp only [h1] at h
    cases h2 : phase2 b m with
    | error e => simp [h2] at h
    | ok m' =>
      simp only [h2] at h
      injection h with h; subst h
      have k1 := phase1_keyInv a [] m (by intro p hp; cases hp) h1
      have k2 := phase2_keyInv b m m' k1 h2
      intro y hy
      obtain ⟨p, hp, hpy⟩ := List.mem_map.mp hy
      rw [← hpy, k2.1 p hp]; rfl

theorem srcItems_timed (l : Entry) (h : TimedE l) : ∀ x ∈ srcItems l, x.times.mtime.isSome = true := by
  intro x hx
  unfold srcItems at hx
  split at hx
  · rcases List.mem_cons.mp hx with rfl | hx
    · exact h.1
    · exact h.2 x hx
  · exact h.2 x hx

theorem mergeHistory_noPanic (w l : Entry) (hw : TimedE w) (hl : TimedE l) : NoPanic (mergeHistory w l) := by
  intro e h hp
  unfold mergeHistory at h
  split at h
  · rename_i e1 h1
    injection h with h; subst h
    exact historyMerge_noPanic _ _ hw.2 (srcItems_timed l hl) e1 h1 hp
  · cases h

theorem mergeHistory_timed (w l r : Entry) (hw : TimedE w) (h : mergeHistory w l = .ok r) : TimedE r := by
  unfold mergeHistory at h
  split at h
  · cases h
  · rename_i hh hm
    injection h with h; subst h
    exact ⟨hw.1, fun x hx => historyMerge_timed _ _ hh hm x hx⟩

theorem keepLoc_timed (d m : Entry) (h : TimedE m) : TimedE (keepLoc d m) := by
  unfold keepLoc; split
  · exact h
  · exact h

theorem entryMerge_noPanic (now : Int) (ex oe : Entry) (hex : TimedE ex) (hoe : TimedE oe) : NoPanic (entryMerge now ex oe) := by
  unfold entryMerge
  dsimp only
  split
  · split
    · exact NoPanic.err _ (by intro hp; rcases hp with hp | hp <;> cases hp)
    · exact NoPanic.ok _
  · intro e h hp
    split at h
    · rename_i e1 h1
      injection h with h; subst h
      split at h1
      · exact mergeHistory_noPanic ex oe hex hoe e1 h1 hp
      · exact mergeHistory_noPanic oe ex hoe hex e1 h1 hp
    · cases h

theorem entryMerge_timed (now : Int) (ex oe m : Entry) (hex : TimedE ex) (hoe : TimedE oe) (h : entryMerge now ex oe = .ok (some m)) :
    TimedE m := by
  unfold entryMerge at h
  simp only at h
  split at h
  · first | cases h | (split at h <;> cases h)
  · split at h
    · cases h
    · rename_i w hw
      injection h with h; injection h with h; subst h
      apply keepLoc_timed
      split at hw
      · exact mergeHistory_timed ex oe w hex hw
      · exact mergeHistory_timed oe ex w hoe hw

theorem entryUpdate_noPanic (now : Int) (ex oe : Entry) (hex : TimedE ex) (hoe : TimedE oe) : NoPanic (entryUpdate now ex oe) := by
  intro e h hp
  unfold entryUpdate at h
  split at h
  · cases h
  · split at h
    · rename_i e1 h1
      injection h with h; subst h
      exact entryMerge_noPanic now ex oe hex hoe e1 h1 hp
    · cases h
    · split at h <;> cases h

theorem timed_srcOk (now : Int) (oe : Entry) (h : TimedE oe) : SrcOk' TimedE now oe :=
  ⟨h, fun ex m _ hex hupd => entryMerge_timed now ex oe m hex h (entryUpdate_some_merge now ex oe m hupd).1⟩

/-! ### the two replicas agree on kinds -/

/-- the destination tree, relative to the source's entry UUIDs `EI` and group UUIDs `GI`: sound, no group under a source entry's
    UUID, no entry under a source group's UUID, every entry version timed -/
structure Safe (EI GI : List Nat) (r : Node) : Prop where
  inv : Inv r
  kg : allG (fun x _ _ => x ∉ EI) r
  ke : allE (fun e => e.d.uuid ∉ GI) r
  te : allE TimedE r

/-- a part of the source: its entries are timed and listed in `EI` (and not in `GI`), its groups are listed in `GI` (not in `EI`) -/
structure SrcPart (EI GI : List Nat) (g : Node) : Prop where
  ent : allE (fun e => e.d.uuid ∈ EI ∧ e.d.uuid ∉ GI ∧ TimedE e) g
  grp : allG (fun x _ _ => x ∈ GI ∧ x ∉ EI) g

structure SrcPartL (EI GI : List Nat) (cs : List Node) : Prop where
  ent : allEL (fun e => e.d.uuid ∈ EI ∧ e.d.uuid ∉ GI ∧ TimedE e) cs
  grp : allGL (fun x _ _ => x ∈ GI ∧ x ∉ EI) cs

theorem SrcPart.children {EI GI : List Nat} {u c : Nat} {t : Times} {cs : List Node} (h : SrcPart EI GI (.group u c t cs)) :
    SrcPartL EI GI cs :=
  ⟨by have := h.ent; simpa only [allE] using this, by have := h.grp; simp only [allG] at this; exact this.2⟩

theorem SrcPartL.tail {EI GI : List Nat} {c : Node} {cs : List Node} (h : SrcPartL EI GI (c :: cs)) : SrcPartL EI GI cs :=
  ⟨by have := h.ent; simp only [allEL] at this; exact this.2, by have := h.grp; simp only [allGL] at this; exact this.2⟩

theorem SrcPartL.head {EI GI : List Nat} {c : Node} {cs : List Node} (h : SrcPartL EI GI (c :: cs)) : SrcPart EI GI c :=
  ⟨by have := h.ent; simp only [allEL] at this; exact this.1, by have := h.grp; simp only [allGL] at this; exact this.1⟩

theorem ke_srcOk (GI : List Nat) (now : Int) (oe : Entry) (h : oe.d.uuid ∉ GI) : SrcOk' (fun e => e.d.uuid ∉ GI) now oe := by
  refine ⟨h, fun ex m hue hex hupd => ?_⟩
  rcases entryUpdate_some now ex oe m hupd with ⟨_, hu, _⟩ | ⟨_, hu, _⟩
  · show m.d.uuid ∉ GI
    rw [hu]; exact hex
  · show m.d.uuid ∉ GI
    rw [hu]; exact h

theorem SrcPart.okKe {EI GI : List Nat} {g : Node} (now : Int) (h : SrcPart EI GI g) : allE (SrcOk' (fun e => e.d.uuid ∉ GI) now) g :=
  allE_mono _ _ (fun e he => ke_srcOk GI now e he.2.1) g h.ent
theorem SrcPart.okTe {EI GI : List Nat} {g : Node} (now : Int) (h : SrcPart EI GI g) : allE (SrcOk' TimedE now) g :=
  allE_mono _ _ (fun e he => timed_srcOk now e he.2.2) g h.ent
theorem SrcPart.okKg {EI GI : List Nat} {g : Node} (now : Int) (h : SrcPart EI GI g) : allG (SrcOkG' (fun x _ _ => x ∉ EI) now) g :=
  allG_mono _ _ (fun _ _ _ hx => ⟨hx.2, fun _ _ _ _ _ hp _ => hp⟩) g h.grp
theorem SrcPartL.okKe {EI GI : List Nat} {cs : List Node} (now : Int) (h : SrcPartL EI GI cs) : allEL (SrcOk' (fun e => e.d.uuid ∉ GI) now) cs :=
  allEL_mono _ _ (fun e he => ke_srcOk GI now e he.2.1) cs h.ent
theorem SrcPartL.okTe {EI GI : List Nat} {cs : List Node} (now : Int) (h : SrcPartL EI GI cs) : allEL (SrcOk' TimedE now) cs :=
  allEL_mono _ _ (fun e he => timed_srcOk now e he.2.2) cs h.ent
theorem SrcPartL.okKg {EI GI : List Nat} {cs : List Node} (now : Int) (h : SrcPartL EI GI cs) : allGL (SrcOkG' (fun x _ _ => x ∉ EI) now) cs :=
  allGL_mono _ _ (fun _ _ _ hx => ⟨hx.2, fun _ _ _ _ _ hp _ => hp⟩) cs h.grp

theorem locFree_ke (GI : List Nat) : LocFree (fun e => e.d.uuid ∉ GI) := fun _ _ h => h
theorem locFree_te : LocFree TimedE := fun _ _ h => h
theorem locFreeG_kg (EI : List Nat) : LocFreeG (fun x _ _ => x ∉ EI) := fun _ _ _ _ h => h

theorem safe_group {EI GI : List Nat} (now : Int) (tombs : List Tomb) (g : Node) (s s' : St) (path : List Nat) (b : Bool)
    (hS : Safe EI GI s.root) (hg : SrcPart EI GI g) (h : mergeGroup now tombs s path g b = .ok s') : Safe EI GI s'.root :=
  ⟨mergeGroup_inv now tombs g s s' path b hS.inv h,
   mergeGroup_allG' _ (locFreeG_kg EI) now tombs g s s' path b (hg.okKg now) hS.inv hS.kg h,
   mergeGroup_allE' _ (locFree_ke GI) now tombs g s s' path b (hg.okKe now) hS.inv hS.ke h,
   mergeGroup_allE' _ locFree_te now tombs g s s' path b (hg.okTe now) hS.inv hS.te h⟩

theorem safe_entries {EI GI : List Nat} (now : Int) (tombs : List Tomb) (cs : List Node) (s s' : St) (path : List Nat) (b : Bool)
    (hS : Safe EI GI s.root) (hg : SrcPartL EI GI cs) (h : mergeEntries now tombs s path b cs = .ok s') : Safe EI GI s'.root :=
  ⟨mergeEntries_inv now tombs cs s s' path b hS.inv h,
   mergeEntries_allG' _ (locFreeG_kg EI) now tombs cs s s' path b hS.kg h,
   mergeEntries_allE' _ (locFree_ke GI) now tombs cs s s' path b (hg.okKe now) hS.inv hS.ke h,
   mergeEntries_allE' _ locFree_te now tombs cs s s' path b (hg.okTe now) hS.inv hS.te h⟩

theorem safe_subgroups {EI GI : List Nat} (now : Int) (tombs : List Tomb) (cs : List Node) (s s' : St) (path : List Nat) (b : Bool)
    (hS : Safe EI GI s.root) (hg : SrcPartL EI GI cs) (h : mergeSubgroups now tombs s path b cs = .ok s') : Safe EI GI s'.root :=
  ⟨mergeSubgroups_inv now tombs cs s s' path b hS.inv h,
   mergeSubgroups_allG' _ (locFreeG_kg EI) now tombs cs s s' path b (hg.okKg now) hS.inv hS.kg h,
   mergeSubgroups_allE' _ (locFree_ke GI) now tombs cs s s' path b (hg.okKe now) hS.inv hS.ke h,
   mergeSubgroups_allE' _ locFree_te now tombs cs s s' path b (hg.okTe now) hS.inv hS.te h⟩

theorem safe_entryStep {EI GI : List Nat} (now : Int) (tombs : List Tomb) (s s' : St) (path : List Nat) (b : Bool) (oe : Entry)
    (hS : Safe EI GI s.root) (hoe : oe.d.uuid ∉ GI ∧ TimedE oe) (h : mergeEntryStep now tombs s path b oe = .ok s') : Safe EI GI s'.root :=
  ⟨mergeEntryStep_inv now tombs s s' path b oe hS.inv h,
   mergeEntryStep_allG _ (locFreeG_kg EI) now tombs s s' path b oe hS.kg h,
   mergeEntryStep_keeps' _ (locFree_ke GI) now tombs s s' path b oe (ke_srcOk GI now oe hoe.1) hS.ke h,
   mergeEntryStep_keeps' _ locFree_te now tombs s s' path b oe (timed_srcOk now oe hoe.2) hS.te h⟩

theorem safe_relocate {EI GI : List Nat} (s s' : St) (x : Nat) (a b : List Nat) (ts : Int) (hS : Safe EI GI s.root)
    (h : relocate s x a b ts = .ok s') : Safe EI GI s'.root :=
  ⟨relocate_inv s s' x a b ts hS.inv h, relocate_allG _ (locFreeG_kg EI) s s' x a b ts hS.kg h,
   relocate_allE _ (locFree_ke GI) s s' x a b ts hS.ke h, relocate_allE _ locFree_te s s' x a b ts hS.te h⟩

/-- in a safe tree the node under a source entry's UUID is an entry, the node under a source group's UUID is a group -/
theorem Safe.findEntry {EI GI : List Nat} {r : Node} (hS : Safe EI GI r) (u : Nat) (hu : u ∈ EI) (loc : List Nat)
    (hloc : findLoc r u = some loc) : ∃ e, findEntry r (loc ++ [u]) = some e ∧ TimedE e := by
  obtain ⟨loc', g, n, h1, _, _, h4, h5⟩ := findLoc_sound r u hS.inv (findLoc_some_mem r u loc hloc)
  rw [hloc] at h1; injection h1 with h1; subst h1
  cases n with
  | group x c t cs =>
    have := allG_getPath _ _ r _ hS.kg h5
    simp only [allG] at this
    have hx : x = u := h4
    exact absurd (hx ▸ hu) this.1
  | entry e =>
    have := allE_getPath _ _ r _ hS.te h5
    simp only [allE] at this
    exact ⟨e, by unfold Kp.Merge.findEntry; rw [h5], this⟩

theorem Safe.findGroup {EI GI : List Nat} {r : Node} (hS : Safe EI GI r) (u : Nat) (hu : u ∈ GI) (loc : List Nat)
    (hloc : findLoc r u = some loc) : ∃ g, findGroup r (loc ++ [u]) = some g := by
  obtain ⟨loc', g, n, h1, _, _, h4, h5⟩ := findLoc_sound r u hS.inv (findLoc_some_mem r u loc hloc)
  rw [hloc] at h1; injection h1 with h1; subst h1
  cases n with
  | entry e =>
    have := allE_getPath _ _ r _ hS.ke h5
    simp only [allE] at this
    have hx : e.d.uuid = u := h4
    exact absurd (hx ▸ hu) this
  | group x c t cs =>
    exact ⟨.group x c t cs, by unfold Kp.Merge.findGroup; rw [h5]; rfl⟩

/-! ### the passes reach no panic site -/

theorem notPanic_findGroup : ¬ IsPanic .findGroup := by intro h; rcases h with h | h <;> cases h
theorem notPanic_findEntry : ¬ IsPanic .findEntry := by intro h; rcases h with h | h <;> cases h
theorem notPanic_generic : ¬ IsPanic .generic := by intro h; rcases h with h | h <;> cases h
theorem notPanic_groupMtime : ¬ IsPanic .groupMtimeNotUpdated := by intro h; rcases h with h | h <;> cases h
theorem notPanic_outOfFuel : ¬ IsPanic .outOfFuel := by intro h; rcases h with h | h <;> cases h

theorem relocate_noPanic (s : St) (u : Nat) (a b : List Nat) (ts : Int) : NoPanic (relocate s u a b ts) := by
  unfold relocate
  split
  · exact NoPanic.err _ notPanic_findGroup
  · split
    · exact NoPanic.err _ notPanic_generic
    · dsimp only
      split
      · exact NoPanic.err _ notPanic_findGroup
      · exact NoPanic.ok _

theorem groupMergeData_noPanic (now : Int) (du dc : Nat) (dt : Times) (su sc : Nat) (st : Times) :
    NoPanic (groupMergeData now du dc dt su sc st) := by
  unfold groupMergeData
  dsimp only
  split
  · split
    · exact NoPanic.err _ notPanic_groupMtime
    · exact NoPanic.ok _
  · split <;> exact NoPanic.ok _

theorem mergeEntryStep_noPanic {EI GI : List Nat} (now : Int) (tombs : List Tomb) (s : St) (path : List Nat) (inDel : Bool) (oe : Entry)
    (hS : Safe EI GI s.root) (hoe : oe.d.uuid ∈ EI ∧ oe.d.uuid ∉ GI ∧ TimedE oe) :
    NoPanic (mergeEntryStep now tombs s path inDel oe) := by
  unfold mergeEntryStep
  split
  · rename_i dloc hloc
    obtain ⟨e0, he0, hte0⟩ := hS.findEntry _ hoe.1 dloc hloc
    split
    · rename_i hfe
      rw [he0] at hfe; cases hfe
    · rename_i existing0 hfe
      rw [he0] at hfe; injection hfe with hfe; subst hfe
      dsimp only
      have jp : ∀ (x : St × List Nat × Entry), TimedE x.2.2 → NoPanic (match x with
          | (s, eloc, existing) => do
            let upd ← entryUpdate now existing oe
            match upd with
              | none => Pure.pure s
              | some merged =>
                match findEntry s.root eloc with
                | none => Except.error MErr.findEntry
                | some _ =>
                  Pure.pure ({ s with root := updatePath s.root eloc (fun _ => Node.entry merged) }.ev .entryUpdated merged.d.uuid)) := by
        intro x hx
        obtain ⟨s1, eloc, existing⟩ := x
        refine NoPanic.bind (entryUpdate_noPanic now existing oe hx hoe.2.2) (fun a _ => ?_)
        cases a with
        | none => exact NoPanic.pure _
        | some m =>
          dsimp only
          split
          · exact NoPanic.err _ notPanic_findEntry
          · exact NoPanic.pure _
      split
      · split
        · refine NoPanic.bind (relocate_noPanic _ _ _ _ _) (fun a _ => ?_)
          exact jp (a, path ++ [oe.d.uuid], e0.setLoc (oe.d.times.loc.getD 0)) hte0
        · exact jp (s, dloc ++ [oe.d.uuid], e0) hte0
      · exact jp (s, dloc ++ [oe.d.uuid], e0) hte0
  · split
    · exact NoPanic.pure _
    · split
      · exact NoPanic.pure _
      · split
        · exact NoPanic.err _ notPanic_findGroup
        · exact NoPanic.pure _

theorem safe_groupData {EI GI : List Nat} (root : Node) (p : List Nat) (du dc : Nat) (dt : Times) (dch : List Node) (c' : Nat) (t' : Times)
    (hS : Safe EI GI root) (hp : p ≠ []) (hfg : findGroup root p = some (.group du dc dt dch)) :
    Safe EI GI (updatePath root p (fun n => match n with
      | .group u _ _ ch => .group u c' t' ch
      | e => e)) := by
  have hgp := (findGroup_some hfg).1
  refine ⟨inv_update_same root (.group du dc dt dch) p _ hS.inv hp hgp (by simp [uuidsN]), ?_,
    allE_groupData _ root p c' t' hS.ke, allE_groupData _ root p c' t' hS.te⟩
  have hn := allG_getPath _ p root _ hS.kg hgp
  simp only [allG] at hn
  exact allG_updatePath_node _ _ p root (.group du dc dt dch) hgp hS.kg (by simp only [allG]; exact hn)

theorem safe_addGroup {EI GI : List Nat} (root pg : Node) (path : List Nat) (ou oc : Nat) (ot : Times) (hS : Safe EI GI root)
    (hfg : findGroup root path = some pg) (hloc : findLoc root ou = none) (hou : ou ∉ EI) :
    Safe EI GI (updatePath root path (fun p => p.setChildren (p.children ++ [Node.group ou oc ot []]))) := by
  refine ⟨inv_addGroup root pg path ou oc ot hS.inv hfg hloc, ?_, allE_addGroup _ root path ou oc ot hS.ke,
    allE_addGroup _ root path ou oc ot hS.te⟩
  refine allG_updatePath _ _ (fun n hn => ?_) path root hS.kg
  exact allG_setChildren _ n _ hn ((allGL_append _ _ _).mpr ⟨allG_children _ n hn, ⟨⟨hou, trivial⟩, trivial⟩⟩)

mutual
  theorem mergeGroup_noPanic {EI GI : List Nat} (now : Int) (tombs : List Tomb) :
      ∀ (g : Node) (s : St) (path : List Nat) (inDel : Bool), Safe EI GI s.root → SrcPart EI GI g →
        NoPanic (mergeGroup now tombs s path g inDel)
    | .entry _, s, _, _, _, _ => by simp only [mergeGroup]; exact NoPanic.ok _
    | .group gu gc gt cs, s, path, inDel, hS, hg => by
      have hcs := hg.children
      unfold mergeGroup
      dsimp only
      have jp : ∀ (x : St × List Nat), Safe EI GI x.1.root → NoPanic (match x with
          | (s, path) => do
            let s ← mergeEntries now tombs s path inDel cs
            mergeSubgroups now tombs s path inDel cs) := by
        intro x hx
        obtain ⟨s1, p1⟩ := x
        exact NoPanic.bind (mergeEntries_noPanic now tombs cs s1 p1 inDel hx hcs)
          (fun a ha => mergeSubgroups_noPanic now tombs cs a p1 inDel (safe_entries now tombs cs s1 a p1 inDel hx hcs ha) hcs)
      split
      · exact jp (s, path) hS
      · rename_i dloc hloc
        split
        · exact NoPanic.bind (NoPanic.err _ notPanic_findGroup) (fun x _ => jp x (by rename_i h; cases h))
        · rename_i du dc dt dch hfg
          refine NoPanic.bind (groupMergeData_noPanic _ _ _ _ _ _ _) (fun x _ => ?_)
          obtain ⟨c', t', upd⟩ := x
          dsimp only
          have hS' := safe_groupData s.root (dloc ++ [gu]) du dc dt dch c' t' hS (by simp) hfg
          refine jp (_, _) ?_
          dsimp only
          split
          · rw [ev_root]; exact hS'
          · exact hS'
        · exact NoPanic.bind (NoPanic.err _ notPanic_findGroup) (fun x _ => jp x (by rename_i h; cases h))

  theorem mergeEntries_noPanic {EI GI : List Nat} (now : Int) (tombs : List Tomb) :
      ∀ (cs : List Node) (s : St) (path : List Nat) (inDel : Bool), Safe EI GI s.root → SrcPartL EI GI cs →
        NoPanic (mergeEntries now tombs s path inDel cs)
    | [], s, _, _, _, _ => by simp only [mergeEntries]; exact NoPanic.ok _
    | .entry e :: rest, s, path, inDel, hS, hg => by
      have he : e.d.uuid ∈ EI ∧ e.d.uuid ∉ GI ∧ TimedE e := by
        have := hg.ent; simp only [allEL, allE] at this; exact this.1
      unfold mergeEntries
      exact NoPanic.bind (mergeEntryStep_noPanic now tombs s path inDel e hS he)
        (fun a ha => mergeEntries_noPanic now tombs rest a path inDel (safe_entryStep now tombs s a path inDel e hS he.2 ha) hg.tail)
    | .group _ _ _ _ :: rest, s, path, inDel, hS, hg => by
      unfold mergeEntries
      exact mergeEntries_noPanic now tombs rest s path inDel hS hg.tail

  theorem mergeSubgroups_noPanic {EI GI : List Nat} (now : Int) (tombs : List Tomb) :
      ∀ (cs : List Node) (s : St) (path : List Nat) (inDel : Bool), Safe EI GI s.root → SrcPartL EI GI cs →
        NoPanic (mergeSubgroups now tombs s path inDel cs)
    | [], s, _, _, _, _ => by simp only [mergeSubgroups]; exact NoPanic.ok _
    | .entry _ :: rest, s, path, inDel, hS, hg => by
      unfold mergeSubgroups
      exact mergeSubgroups_noPanic now tombs rest s path inDel hS hg.tail
    | .group ou oc ot ocs :: rest, s, path, inDel, hS, hg => by
      have hog : SrcPart EI GI (.group ou oc ot ocs) := hg.head
      have hou : ou ∈ GI ∧ ou ∉ EI := by have := hog.grp; simp only [allG] at this; exact this.1
      unfold mergeSubgroups
      dsimp only
      have viaGroup : ∀ (s0 : St) (b : Bool), Safe EI GI s0.root → NoPanic (do
            let s ← mergeGroup now tombs s0 (path ++ [ou]) (.group ou oc ot ocs) b
            mergeSubgroups now tombs s (refreshPath s.root path) inDel rest) :=
        fun s0 b h0 => NoPanic.bind (mergeGroup_noPanic now tombs (.group ou oc ot ocs) s0 _ b h0 hog)
          (fun a ha => mergeSubgroups_noPanic now tombs rest a _ inDel (safe_group now tombs _ s0 a _ b h0 hog ha) hg.tail)
      split
      · exact viaGroup s true hS
      · split
        · rename_i dloc hloc
          obtain ⟨eg, heg⟩ := hS.findGroup ou hou.1 dloc hloc
          split
          · split
            · rename_i hfg
              rw [heg] at hfg; cases hfg
            · split
              · exact NoPanic.bind (relocate_noPanic _ _ _ _ _) (fun a ha => viaGroup _ inDel (by
                  rw [ev_root]; exact safe_relocate s a _ _ _ _ hS ha))
              · exact viaGroup s inDel hS
          · exact viaGroup s inDel hS
        · rename_i hloc
          split
          · exact NoPanic.bind (NoPanic.err _ notPanic_findGroup) (fun a ha => by cases ha)
          · rename_i pg hfg
            rw [ev_root] at hfg
            exact viaGroup _ inDel (safe_addGroup s.root pg path ou oc ot hS hfg hloc hou.2)
end

/-! ### root, passes, deletions, the whole merge -/

theorem mergeRoot_noPanic (now : Int) (s : St) (srcRoot : Node) : NoPanic (mergeRoot now s srcRoot) := by
  unfold mergeRoot
  split
  · split
    · refine NoPanic.bind (groupMergeData_noPanic _ _ _ _ _ _ _) (fun x _ => ?_)
      obtain ⟨c', t', upd⟩ := x
      exact NoPanic.pure _
    · exact NoPanic.pure _
  · exact NoPanic.pure _

/-- the root's own data may change; its UUID and children do not -/
theorem safe_mergeRoot {EI GI : List Nat} (now : Int) (s s' : St) (srcRoot : Node) (hS : Safe EI GI s.root)
    (h : mergeRoot now s srcRoot = .ok s') : Safe EI GI s'.root := by
  refine ⟨mergeRoot_inv now s s' srcRoot hS.inv h, ?_, mergeRoot_allE _ now s s' srcRoot hS.inv.1 hS.ke h,
    mergeRoot_allE _ now s s' srcRoot hS.inv.1 hS.te h⟩
  have hk := hS.kg
  obtain ⟨root, ev⟩ := s
  cases root with
  | entry e => simp only [mergeRoot] at h; injection h with h; subst h; exact hk
  | group du dc dt ch =>
    cases srcRoot with
    | entry e => simp only [mergeRoot] at h; injection h with h; subst h; exact hk
    | group su sc st sch =>
      simp only [mergeRoot] at h
      split at h
      · obtain ⟨x, hx, h⟩ := except_bind_ok h
        obtain ⟨c', t', upd⟩ := x
        dsimp only at h
        injection h with h; subst h
        simp only [allG] at hk
        have : allG (fun x _ _ => x ∉ EI) (Node.group du c' t' ch) := by simp only [allG]; exact hk
        split
        · rw [ev_root]; exact this
        · exact this
      · injection h with h; subst h; exact hk

theorem mergePasses_noPanic {EI GI : List Nat} (now : Int) (tombs : List Tomb) (srcRoot : Node) (hg : SrcPart EI GI srcRoot) :
    ∀ (k : Nat) (s : St), Safe EI GI s.root → NoPanic (mergePasses now tombs srcRoot k s) := by
  intro k
  induction k with
  | zero => intro s _; exact NoPanic.pure _
  | succ k ih =>
    intro s hS
    unfold mergePasses
    split
    · rename_i e he
      intro e' h; injection h with h; subst h
      exact mergeGroup_noPanic now tombs srcRoot _ _ _ (show Safe EI GI ({ s with events := [] } : St).root from hS) hg e he
    · rename_i s1 hs1
      dsimp only
      split
      · exact NoPanic.pure _
      · exact ih _ (show Safe EI GI ({ s1 with events := s.events ++ s1.events } : St).root from
          safe_group now tombs srcRoot _ s1 _ _ (show Safe EI GI ({ s with events := [] } : St).root from hS) hg hs1)

theorem deleteEntries_noPanic (now : Int) : ∀ (ts : List Tomb) (s : St) (nt : List Tomb), NoPanic (deleteEntries now s nt ts) := by
  intro ts
  induction ts with
  | nil => intro s nt; simp only [deleteEntries]; exact NoPanic.ok _
  | cons d rest ih =>
    intro s nt
    unfold deleteEntries
    split
    · exact ih s nt
    · split
      · exact ih s nt
      · split
        · exact NoPanic.err _ notPanic_findGroup
        · split
          · exact ih s nt
          · split
            · split
              · exact NoPanic.err _ notPanic_generic
              · exact ih _ _
            · exact ih s nt

theorem gdecide_err_notPanic (now : Int) (s : St) (nt : List Tomb) (d : Tomb) (q : List Tomb) (e : MErr)
    (h : gdecide now s nt d q = .err e) : ¬ IsPanic e := by
  unfold gdecide at h
  split at h
  · cases h
  · split at h
    · cases h
    · split at h
      · injection h with h; subst h; exact notPanic_findGroup
      · split at h
        · cases h
        · dsimp only at h
          split at h
          · cases h
          · split at h
            · cases h
            · split at h
              · cases h
              · split at h
                · split at h
                  · injection h with h; subst h; exact notPanic_generic
                  · cases h
                · cases h

theorem deleteGroups_noPanic (now : Int) : ∀ (fuel : Nat) (s : St) (nt q : List Tomb), NoPanic (deleteGroups now fuel s nt q) := by
  intro fuel
  induction fuel with
  | zero =>
    intro s nt q
    unfold deleteGroups
    split
    · exact NoPanic.ok _
    · exact NoPanic.err _ notPanic_outOfFuel
  | succ n ih =>
    intro s nt q
    cases q with
    | nil => unfold deleteGroups; exact NoPanic.ok _
    | cons d q =>
      rw [deleteGroups_step]
      split
      · exact ih s nt q
      · exact ih s nt _
      · exact ih _ _ q
      · rename_i e he
        exact NoPanic.err _ (gdecide_err_notPanic now s nt d q e he)

/-- **`merge` reaches none of its panic sites** when the two replicas agree on kinds: there are lists `EI` / `GI` of the source's
    entry and group UUIDs such that the destination is a sound tree with no group under an `EI` UUID, no entry under a `GI` UUID
    and every entry version (current and historical) timed, and the source's entries are timed, listed in `EI` and not in `GI`,
    its groups listed in `GI` and not in `EI`. -/
theorem merge_noPanic {EI GI : List Nat} (now : Int) (dst src : Db) (hS : Safe EI GI dst.root) (hg : SrcPart EI GI src.root) :
    NoPanic (merge now dst src) := by
  unfold merge
  dsimp only
  refine NoPanic.bind (mergeRoot_noPanic now _ _) (fun s1 hs1 => ?_)
  have hS1 := safe_mergeRoot now _ s1 src.root hS hs1
  refine NoPanic.bind (mergePasses_noPanic now _ _ hg _ _ hS1) (fun s2 _ => ?_)
  refine NoPanic.bind ?_ (fun x _ => ?_)
  · unfold mergeDeletions
    refine NoPanic.bind (deleteEntries_noPanic now _ _ _) (fun r _ => ?_)
    obtain ⟨s', nt'⟩ := r
    exact deleteGroups_noPanic now _ _ _ _
  · obtain ⟨s3, tombs⟩ := x
    exact NoPanic.pure _
