import KpModel.Db.Merge
/-! Helper lemmas for C13–C16: the history union as a sorted association list. -/
namespace Kp.Merge

def keys (m : AL) : List Int := m.map (·.1)

/-- strictly descending keys -/
def SortedDesc : List Int → Prop
  | [] => True
  | [_] => True
  | a :: b :: rest => b < a ∧ SortedDesc (b :: rest)

theorem SortedDesc.tail {a : Int} {l : List Int} (h : SortedDesc (a :: l)) : SortedDesc l := by
  cases l with
  | nil => trivial
  | cons b rest => exact h.2

theorem SortedDesc.head_gt {a : Int} {l : List Int} (h : SortedDesc (a :: l)) : ∀ x ∈ l, x < a := by
  induction l generalizing a with
  | nil => intro x hx; cases hx
  | cons b rest ih =>
    intro x hx
    cases hx with
    | head => exact h.1
    | tail _ hx' => exact Int.lt_trans (ih h.2 x hx') h.1

theorem sortedDesc_cons {a : Int} {l : List Int} (hl : SortedDesc l) (ha : ∀ x ∈ l, x < a) :
    SortedDesc (a :: l) := by
  cases l with
  | nil => trivial
  | cons b rest => exact ⟨ha b (List.mem_cons_self ..), hl⟩

theorem keys_insertDesc (x : EData) (k : Int) (m : AL) :
    ∀ y, y ∈ keys (insertDesc x k m) ↔ y = k ∨ y ∈ keys m := by
  induction m with
  | nil => intro y; simp [insertDesc, keys]
  | cons p rest ih =>
    intro y
    obtain ⟨k', v⟩ := p
    simp only [insertDesc]
    split
    · simp [keys]
    · simp only [keys, List.map_cons, List.mem_cons] at ih ⊢
      rw [ih y]
      constructor
      · rintro (h | h | h) <;> simp [h]
      · rintro (h | h | h) <;> simp [h]

theorem insertDesc_sorted (x : EData) (k : Int) (m : AL) (hs : SortedDesc (keys m)) (hk : k ∉ keys m) :
    SortedDesc (keys (insertDesc x k m)) := by
  induction m with
  | nil => simp [insertDesc, keys, SortedDesc]
  | cons p rest ih =>
    obtain ⟨k', v⟩ := p
    simp only [insertDesc]
    split
    · rename_i hlt
      exact ⟨hlt, hs⟩
    · rename_i hnl
      have hne : k ≠ k' := by
        intro h; apply hk; simp [keys, h]
      have hgt : k < k' := by omega
      have hrest : k ∉ keys rest := by
        intro h; apply hk; simp [keys] at h ⊢; exact Or.inr h
      have ih' := ih hs.tail hrest
      apply sortedDesc_cons ih'
      intro y hy
      rw [keys_insertDesc] at hy
      rcases hy with rfl | hy
      · exact hgt
      · exact hs.head_gt y hy

/-- appending at the end: an item whose key is below every present key goes last -/
theorem insertDesc_below (x : EData) (k : Int) (m : AL) (h : ∀ y ∈ keys m, k < y) :
    insertDesc x k m = m ++ [(k, x)] := by
  induction m with
  | nil => rfl
  | cons p rest ih =>
    obtain ⟨k', v⟩ := p
    have hk' : k < k' := h k' (by simp [keys])
    have : ¬ (k' < k) := by omega
    simp only [insertDesc, this, ↓reduceIte, List.cons_append]
    rw [ih (fun y hy => h y (by simp [keys] at hy ⊢; exact Or.inr hy))]

theorem any_key_iff (acc : AL) (t : Int) : acc.any (·.1 == t) = true ↔ t ∈ keys acc := by
  simp [keys, List.any_eq_true]

theorem phase1_sorted (dst : List EData) : ∀ (acc m : AL), SortedDesc (keys acc) → phase1 dst acc = .ok m →
    SortedDesc (keys m) ∧ (∀ y, y ∈ keys m ↔ y ∈ keys acc ∨ some y ∈ dst.map (·.times.mtime)) := by
  induction dst with
  | nil =>
    intro acc m hs h
    simp [phase1, pure, Except.pure] at h
    subst h
    exact ⟨hs, by simp⟩
  | cons h rest ih =>
    intro acc m hs hm
    simp only [phase1, List.foldlM_cons] at hm
    cases ht : h.times.mtime with
    | none => simp [ht, bind, Except.bind] at hm
    | some t =>
      simp only [ht] at hm
      by_cases hin : acc.any (·.1 == t) = true
      · simp [hin, bind, Except.bind] at hm
      · simp only [hin, Bool.false_eq_true, ↓reduceIte, bind, Except.bind] at hm
        have hnk : t ∉ keys acc := by rw [← any_key_iff]; exact hin
        have := ih (insertDesc h t acc) m (insertDesc_sorted h t acc hs hnk) hm
        refine ⟨this.1, ?_⟩
        intro y
        rw [this.2 y, keys_insertDesc]
        simp only [List.map_cons, List.mem_cons, ht, Option.some.injEq]
        constructor
        · rintro ((h | h) | h)
          · exact Or.inr (Or.inl h)
          · exact Or.inl h
          · exact Or.inr (Or.inr h)
        · rintro (h | h | h)
          · exact Or.inl (Or.inr h)
          · exact Or.inl (Or.inl h)
          · exact Or.inr h

theorem phase2_sorted (src : List EData) : ∀ (acc m : AL), SortedDesc (keys acc) → phase2 src acc = .ok m →
    SortedDesc (keys m) ∧ (∀ y, y ∈ keys m ↔ y ∈ keys acc ∨ some y ∈ src.map (·.times.mtime))
    ∧ (∀ p ∈ acc, p ∈ m) := by
  induction src with
  | nil =>
    intro acc m hs h
    simp [phase2, pure, Except.pure] at h
    subst h
    exact ⟨hs, by simp, fun p hp => hp⟩
  | cons h rest ih =>
    intro acc m hs hm
    simp only [phase2, List.foldlM_cons] at hm
    cases ht : h.times.mtime with
    | none => simp [ht, bind, Except.bind] at hm
    | some t =>
      simp only [ht] at hm
      by_cases hin : acc.any (·.1 == t) = true
      · simp only [hin, ↓reduceIte, bind, Except.bind] at hm
        have := ih acc m hs hm
        refine ⟨this.1, ?_, this.2.2⟩
        intro y
        rw [this.2.1 y]
        simp only [List.map_cons, List.mem_cons, ht, Option.some.injEq]
        have hk : t ∈ keys acc := (any_key_iff acc t).mp hin
        constructor
        · rintro (h | h)
          · exact Or.inl h
          · exact Or.inr (Or.inr h)
        · rintro (h | h | h)
          · exact Or.inl h
          · subst h; exact Or.inl hk
          · exact Or.inr h
      · simp only [hin, Bool.false_eq_true, ↓reduceIte, bind, Except.bind] at hm
        have hnk : t ∉ keys acc := by rw [← any_key_iff]; exact hin
        have := ih (insertDesc h t acc) m (insertDesc_sorted h t acc hs hnk) hm
        refine ⟨this.1, ?_, ?_⟩
        · intro y
          rw [this.2.1 y, keys_insertDesc]
          simp only [List.map_cons, List.mem_cons, ht, Option.some.injEq]
          constructor
          · rintro ((h | h) | h)
            · exact Or.inr (Or.inl h)
            · exact Or.inl h
            · exact Or.inr (Or.inr h)
          · rintro (h | h | h)
            · exact Or.inl (Or.inr h)
            · exact Or.inl (Or.inl h)
            · exact Or.inr h
        · intro p hp
          apply this.2.2
          -- insertion keeps the members
          clear this ih hm
          induction acc with
          | nil => cases hp
          | cons q qs ihq =>
            obtain ⟨k', v⟩ := q
            simp only [insertDesc]
            split
            · exact List.mem_cons_of_mem _ hp
            · cases hp with
              | head => exact List.mem_cons_self ..
              | tail _ hp' =>
                exact List.mem_cons_of_mem _ (ihq hs.tail
                  (by intro h; apply hin; simp [List.any_cons, h])
                  (by intro h; apply hnk; simp [keys] at h ⊢; exact Or.inr h) hp')

/-- re-inserting the items of a sorted, duplicate-free association list rebuilds it -/
theorem phase1_rebuild (m : AL) (hs : SortedDesc (keys m)) (hk : ∀ p ∈ m, p.2.times.mtime = some p.1) :
    ∀ acc : AL, (∀ a ∈ keys acc, ∀ b ∈ keys m, b < a) → phase1 (m.map (·.2)) acc = .ok (acc ++ m) := by
  induction m with
  | nil => intro acc _; simp [phase1, pure, Except.pure]
  | cons p rest ih =>
    intro acc hacc
    obtain ⟨k, v⟩ := p
    have hv : v.times.mtime = some k := hk (k, v) (List.mem_cons_self ..)
    simp only [List.map_cons, phase1, List.foldlM_cons, hv]
    have hnot : ¬ (acc.any (·.1 == k) = true) := by
      rw [any_key_iff]
      intro h
      have := hacc k h k (by simp [keys])
      omega
    simp only [hnot, Bool.false_eq_true, ↓reduceIte, bind, Except.bind]
    rw [insertDesc_below v k acc (fun y hy => hacc y hy k (by simp [keys]))]
    have := ih hs.tail (fun q hq => hk q (List.mem_cons_of_mem _ hq)) (acc ++ [(k, v)]) (by
      intro a ha b hb
      simp [keys] at ha
      rcases ha with ⟨x, hx⟩ | rfl
      · exact hacc a (by simp [keys]; exact ⟨x, hx⟩) b (by simp [keys] at hb ⊢; exact Or.inr hb)
      · exact hs.head_gt b hb)
    simp only [phase1] at this
    rw [this]
    simp [List.append_assoc]

/-- items whose times are all present are ignored by the second fold -/
theorem phase2_absorb (src : List EData) (acc : AL)
    (hall : ∀ h ∈ src, ∃ t, h.times.mtime = some t ∧ t ∈ keys acc) : phase2 src acc = .ok acc := by
  induction src with
  | nil => simp [phase2, pure, Except.pure]
  | cons h rest ih =>
    obtain ⟨t, ht, hk⟩ := hall h (List.mem_cons_self ..)
    simp only [phase2, List.foldlM_cons, ht, (any_key_iff acc t).mpr hk, ↓reduceIte, bind, Except.bind]
    exact ih (fun x hx => hall x (List.mem_cons_of_mem _ hx))

end Kp.Merge

namespace Kp.Merge

/-- keys of the association list are the items' modification times -/
def KeyInv (m : AL) : Prop := ∀ p ∈ m, p.2.times.mtime = some p.1

theorem keyInv_insertDesc (h : EData) (t : Int) (m : AL) (hm : KeyInv m) (ht : h.times.mtime = some t) :
    KeyInv (insertDesc h t m) := by
  induction m with
  | nil => intro p hp; simp [insertDesc] at hp; subst hp; exact ht
  | cons q rest ih =>
    obtain ⟨k', v⟩ := q
    intro p hp
    simp only [insertDesc] at hp
    split at hp
    · cases hp with
      | head => exact ht
      | tail _ hp' => exact hm p hp'
    · cases hp with
      | head => exact hm _ (List.mem_cons_self ..)
      | tail _ hp' => exact ih (fun x hx => hm x (List.mem_cons_of_mem _ hx)) p hp'

theorem phase1_keyInv (dst : List EData) : ∀ (acc m : AL), KeyInv acc → phase1 dst acc = .ok m → KeyInv m := by
  induction dst with
  | nil => intro acc m ha h; simp [phase1, pure, Except.pure] at h; subst h; exact ha
  | cons h rest ih =>
    intro acc m ha hm
    simp only [phase1, List.foldlM_cons] at hm
    cases ht : h.times.mtime with
    | none => simp [ht, bind, Except.bind] at hm
    | some t =>
      simp only [ht] at hm
      by_cases hin : acc.any (·.1 == t) = true
      · simp [hin, bind, Except.bind] at hm
      · simp only [hin, Bool.false_eq_true, ↓reduceIte, bind, Except.bind] at hm
        exact ih _ m (keyInv_insertDesc h t acc ha ht) hm

theorem phase2_keyInv (src : List EData) : ∀ (acc m : AL), KeyInv acc → phase2 src acc = .ok m →
    KeyInv m ∧ ∀ h ∈ src, ∃ t, h.times.mtime = some t := by
  induction src with
  | nil => intro acc m ha h; simp [phase2, pure, Except.pure] at h; subst h; exact ⟨ha, by simp⟩
  | cons h rest ih =>
    intro acc m ha hm
    simp only [phase2, List.foldlM_cons] at hm
    cases ht : h.times.mtime with
    | none => simp [ht, bind, Except.bind] at hm
    | some t =>
      simp only [ht] at hm
      by_cases hin : acc.any (·.1 == t) = true
      · simp only [hin, ↓reduceIte, bind, Except.bind] at hm
        have := ih acc m ha hm
        exact ⟨this.1, fun x hx => by
          cases hx with
          | head => exact ⟨t, ht⟩
          | tail _ hx' => exact this.2 x hx'⟩
      · simp only [hin, Bool.false_eq_true, ↓reduceIte, bind, Except.bind] at hm
        have := ih _ m (keyInv_insertDesc h t acc ha ht) hm
        exact ⟨this.1, fun x hx => by
          cases hx with
          | head => exact ⟨t, ht⟩
          | tail _ hx' => exact this.2 x hx'⟩

/-- every destination item survives the first fold unchanged, under its own time -/
theorem phase1_mem (dst : List EData) : ∀ (acc m : AL), phase1 dst acc = .ok m →
    (∀ p ∈ acc, p ∈ m) ∧ ∀ h ∈ dst, ∃ t, h.times.mtime = some t ∧ (t, h) ∈ m := by
  induction dst with
  | nil => intro acc m h; simp [phase1, pure, Except.pure] at h; subst h; exact ⟨fun p hp => hp, by simp⟩
  | cons h rest ih =>
    intro acc m hm
    simp only [phase1, List.foldlM_cons] at hm
    cases ht : h.times.mtime with
    | none => simp [ht, bind, Except.bind] at hm
    | some t =>
      simp only [ht] at hm
      by_cases hin : acc.any (·.1 == t) = true
      · simp [hin, bind, Except.bind] at hm
      · simp only [hin, Bool.false_eq_true, ↓reduceIte, bind, Except.bind] at hm
        have := ih _ m hm
        have hins : ∀ p, p ∈ acc ∨ p = (t, h) → p ∈ insertDesc h t acc := by
          intro p hp
          clear this hm ih hin
          induction acc with
          | nil => rcases hp with hp | hp; cases hp; simp [insertDesc, hp]
          | cons q qs ihq =>
            obtain ⟨k', v⟩ := q
            simp only [insertDesc]
            split
            · rcases hp with hp | hp
              · exact List.mem_cons_of_mem _ hp
              · rw [hp]; exact List.mem_cons_self ..
            · rcases hp with hp | hp
              · cases hp with
                | head => exact List.mem_cons_self ..
                | tail _ hp' => exact List.mem_cons_of_mem _ (ihq (Or.inl hp'))
              · exact List.mem_cons_of_mem _ (ihq (Or.inr hp))
        refine ⟨fun p hp => this.1 p (hins p (Or.inl hp)), ?_⟩
        intro x hx
        cases hx with
        | head => exact ⟨t, ht, this.1 _ (hins _ (Or.inr rfl))⟩
        | tail _ hx' => exact this.2 x hx'

end Kp.Merge
