import KpModel.Db.MergeInv
/-!
# Last writer wins, for the whole merge

`Database::merge` visits every entry of the source in every pass; an entry present on both sides ends with the content
of the side that modified it last.  The proof follows one UUID `u` through the merge with two predicates over *every*
entry of the destination tree (`allE`): before the source entry has been visited the entry is either still the
destination's version or already the winner; after the visit it is the winner; every later step keeps that.
-/
namespace Kp.Merge
open Node

mutual
  /-- every entry of the subtree satisfies `P` -/
  def allE (P : Entry → Prop) : Node → Prop
    | .group _ _ _ cs => allEL P cs
    | .entry e => P e
  def allEL (P : Entry → Prop) : List Node → Prop
    | [] => True
    | c :: cs => allE P c ∧ allEL P cs
end

theorem allEL_mem (P : Entry → Prop) : ∀ (cs : List Node) (c : Node), allEL P cs → c ∈ cs → allE P c := by
  intro cs
  induction cs with
  | nil => intro c _ h; cases h
  | cons c0 cs ih =>
    intro c ht hc
    simp only [allEL] at ht
    rcases List.mem_cons.mp hc with rfl | h
    · exact ht.1
    · exact ih c ht.2 h

theorem allEL_append (P : Entry → Prop) (a b : List Node) : allEL P (a ++ b) ↔ allEL P a ∧ allEL P b := by
  induction a with
  | nil => simp [allEL]
  | cons c cs ih => simp [allEL, ih, and_assoc]

theorem allEL_filter (P : Entry → Prop) (p : Node → Bool) : ∀ (cs : List Node), allEL P cs → allEL P (cs.filter p) := by
  intro cs
  induction cs with
  | nil => intro h; exact h
  | cons c cs ih =>
    intro h
    simp only [allEL] at h
    simp only [List.filter_cons]
    split
    · exact ⟨h.1, ih h.2⟩
    · exact ih h.2

theorem allEL_updFirst (P : Entry → Prop) (p : Node → Bool) (f : Node → Node) (hf : ∀ n, allE P n → allE P (f n)) :
    ∀ (cs : List Node), allEL P cs → allEL P (updFirst p f cs) := by
  intro cs
  induction cs with
  | nil => intro h; exact h
  | cons c cs ih =>
    intro h
    simp only [allEL] at h
    simp only [updFirst]
    split
    · exact ⟨hf c h.1, h.2⟩
    · exact ⟨h.1, ih h.2⟩

theorem allE_children (P : Entry → Prop) (g : Node) (hg : g.isGroup = true) (h : allE P g) : allEL P g.children := by
  cases g with
  | group u c t cs => simp only [allE] at h; exact h
  | entry e => cases hg

theorem allE_setChildren (P : Entry → Prop) (g : Node) (cs : List Node) (hg : g.isGroup = true) (hcs : allEL P cs) :
    allE P (g.setChildren cs) := by
  cases g with
  | group u c t ch => exact hcs
  | entry e => cases hg

/-- an entry designated as a group: `updatePath`/`getPath` on an entry node only see an empty child list -/
theorem allE_children' (P : Entry → Prop) (g : Node) (h : allE P g) : allEL P g.children := by
  cases g with
  | group u c t cs => simp only [allE] at h; exact h
  | entry e => simp [Node.children, allEL]

theorem allE_setChildren' (P : Entry → Prop) (g : Node) (cs : List Node) (hg : allE P g) (hcs : allEL P cs) :
    allE P (g.setChildren cs) := by
  cases g with
  | group u c t ch => exact hcs
  | entry e => exact hg

theorem allE_updatePath (P : Entry → Prop) (f : Node → Node) (hf : ∀ n, allE P n → allE P (f n)) :
    ∀ (path : List Nat) (root : Node), allE P root → allE P (updatePath root path f) := by
  intro path
  induction path with
  | nil => intro root h; simp only [updatePath]; exact hf root h
  | cons u rest ih =>
    intro root h
    cases rest with
    | nil =>
      simp only [updatePath]
      exact allE_setChildren' P root _ h (allEL_updFirst P _ f hf _ (allE_children' P root h))
    | cons v rest' =>
      simp only [updatePath]
      exact allE_setChildren' P root _ h (allEL_updFirst P _ _ (fun n hn => ih n hn) _ (allE_children' P root h))

theorem allE_getPath (P : Entry → Prop) : ∀ (path : List Nat) (root n : Node), allE P root → getPath root path = some n →
    allE P n := by
  intro path
  induction path with
  | nil => intro root n h hg; simp only [getPath, Option.some.injEq] at hg; subst hg; exact h
  | cons u rest ih =>
    intro root n h hg
    cases rest with
    | nil =>
      simp only [getPath] at hg
      exact allEL_mem P _ n (allE_children' P root h) (find_first hg).1
    | cons v rest' =>
      simp only [getPath] at hg
      cases hc : root.children.find? (fun n => n.isGroup && n.uuid == u) with
      | none => rw [hc] at hg; cases hg
      | some c =>
        rw [hc] at hg
        simp only at hg
        exact ih c n (allEL_mem P _ c (allE_children' P root h) (find_first hc).1) hg

/-- `P` does not look at the location-changed time -/
def LocFree (P : Entry → Prop) : Prop := ∀ (e : Entry) (ts : Int), P e → P (e.setLoc ts)

mutual
  theorem allE_setLoc (P : Entry → Prop) (hP : LocFree P) : ∀ (n : Node) (ts : Int), allE P n → allE P (n.setLoc ts)
    | .group u c t cs, ts, h => by simp only [Node.setLoc, allE] at h ⊢; exact h
    | .entry e, ts, h => by simp only [Node.setLoc, allE] at h ⊢; exact hP e ts h
end

mutual
  theorem allE_mono (P Q : Entry → Prop) (hPQ : ∀ e, P e → Q e) : ∀ (n : Node), allE P n → allE Q n
    | .group u c t cs, h => by simp only [allE] at h ⊢; exact allEL_mono P Q hPQ cs h
    | .entry e, h => by simp only [allE] at h ⊢; exact hPQ e h
  theorem allEL_mono (P Q : Entry → Prop) (hPQ : ∀ e, P e → Q e) : ∀ (cs : List Node), allEL P cs → allEL Q cs
    | [], _ => trivial
    | c :: cs, h => by simp only [allEL] at h ⊢; exact ⟨allE_mono P Q hPQ c h.1, allEL_mono P Q hPQ cs h.2⟩
end

mutual
  /-- entries whose UUID is not in the subtree's UUID list do not exist in it -/
  theorem allE_disjoint (P Q : Entry → Prop) (L : List Nat) (hPQ : ∀ e, P e → e.d.uuid ∉ L → Q e) :
      ∀ (n : Node), allE P n → (∀ x ∈ uuidsN n, x ∉ L) → allE Q n
    | .group u c t cs, h, hd => by
      simp only [allE] at h ⊢
      exact allEL_disjoint P Q L hPQ cs h (fun x hx => hd x (by simp only [uuidsN]; exact List.mem_cons_of_mem _ hx))
    | .entry e, h, hd => by
      simp only [allE] at h ⊢
      exact hPQ e h (hd _ (by simp [uuidsN]))
  theorem allEL_disjoint (P Q : Entry → Prop) (L : List Nat) (hPQ : ∀ e, P e → e.d.uuid ∉ L → Q e) :
      ∀ (cs : List Node), allEL P cs → (∀ x ∈ uuidsL cs, x ∉ L) → allEL Q cs
    | [], _, _ => trivial
    | c :: cs, h, hd => by
      simp only [allEL] at h ⊢
      exact ⟨allE_disjoint P Q L hPQ c h.1 (fun x hx => hd x (by simp only [uuidsL]; exact List.mem_append_left _ hx)),
        allEL_disjoint P Q L hPQ cs h.2 (fun x hx => hd x (by simp only [uuidsL]; exact List.mem_append_right _ hx))⟩
end

/-- the positional update: replace the node a path designates; every other entry has a UUID outside `L`, a set of UUIDs
    of the designated subtree -/
theorem allEL_updFirst_at (P Q : Entry → Prop) (p : Node → Bool) (f : Node → Node) (L : List Nat)
    (hPQ : ∀ e, P e → e.d.uuid ∉ L → Q e) : ∀ (cs : List Node) (c : Node), (uuidsL cs).Nodup → cs.find? p = some c →
      (∀ x ∈ L, x ∈ uuidsN c) → allEL P cs → allE Q (f c) → allEL Q (updFirst p f cs) := by
  intro cs
  induction cs with
  | nil => intro c _ h; cases h
  | cons c0 cs ih =>
    intro c hn hf hL hP hQ
    obtain ⟨_, hn2, hdis⟩ := nodup_uuidsL_tail hn
    simp only [allEL] at hP
    simp only [updFirst]
    by_cases hp : p c0 = true
    · simp only [List.find?_cons, hp] at hf
      injection hf with hf; subst hf
      simp only [hp, ↓reduceIte, allEL]
      refine ⟨hQ, allEL_disjoint P Q L hPQ cs hP.2 (fun x hx hxl => ?_)⟩
      exact hdis x (hL x hxl) hx
    · have hp' : p c0 = false := by simpa using hp
      simp only [List.find?_cons, hp'] at hf
      simp only [hp', Bool.false_eq_true, ↓reduceIte, allEL]
      have hc := (find_first hf).1
      refine ⟨allE_disjoint P Q L hPQ c0 hP.1 (fun x hx hxl => ?_), ih c hn2 hf hL hP.2 hQ⟩
      exact hdis x hx (uuidsL_mem_of_mem cs c hc x (hL x hxl))

theorem allE_updatePath_at (P Q : Entry → Prop) (f : Node → Node) (L : List Nat) (hPQ : ∀ e, P e → e.d.uuid ∉ L → Q e) :
    ∀ (path : List Nat) (root n : Node), root.isGroup = true → (uuidsL root.children).Nodup →
      getPath root path = some n → (∀ x ∈ L, x ∈ uuidsN n) → allE P root → allE Q (f n) →
      allE Q (updatePath root path f) := by
  intro path
  induction path with
  | nil =>
    intro root n _ _ hg _ _ hQ
    simp only [getPath, Option.some.injEq] at hg; subst hg
    simp only [updatePath]; exact hQ
  | cons u rest ih =>
    intro root n hr hn hg hL hP hQ
    cases rest with
    | nil =>
      simp only [getPath] at hg
      simp only [updatePath]
      exact allE_setChildren Q root _ hr (allEL_updFirst_at P Q _ f L hPQ _ n hn hg hL (allE_children P root hr hP) hQ)
    | cons v rest' =>
      simp only [getPath] at hg
      simp only [updatePath]
      cases hc : root.children.find? (fun n => n.isGroup && n.uuid == u) with
      | none => rw [hc] at hg; cases hg
      | some c =>
        rw [hc] at hg
        simp only at hg
        have ⟨hcm, hcp⟩ := find_first hc
        have hcg : c.isGroup = true := by
          simp only [Bool.and_eq_true] at hcp; exact hcp.1
        have hcn : (uuidsL c.children).Nodup := by
          cases c with
          | entry e => cases hcg
          | group cu cc ct ccs => exact (nodup_children_of_mem _ cu cc ct ccs hn hcm).1
        have hsub : ∀ x ∈ L, x ∈ uuidsN c := fun x hx => (getPath_sublist _ c n hcg hg).subset (hL x hx)
        refine allE_setChildren Q root _ hr (allEL_updFirst_at P Q _ _ L hPQ _ c hn hc hsub (allE_children P root hr hP) ?_)
        exact ih c n hcg hcn hg hL (allEL_mem P _ c (allE_children P root hr hP) hcm) hQ

/-- the same without an update: what holds of the designated node and of everything outside holds everywhere -/
theorem allE_at (P Q : Entry → Prop) (L : List Nat) (hPQ : ∀ e, P e → e.d.uuid ∉ L → Q e)
    (path : List Nat) (root n : Node) (hr : root.isGroup = true) (hn : (uuidsL root.children).Nodup)
    (hg : getPath root path = some n) (hL : ∀ x ∈ L, x ∈ uuidsN n) (hP : allE P root) (hQ : allE Q n) : allE Q root := by
  have := allE_updatePath_at P Q (fun x => x) L hPQ path root n hr hn hg hL hP hQ
  rwa [updatePath_id path root n (fun x => x) hr hg rfl] at this

/-- nothing with the UUID `u` is left ⇒ a predicate that only constrains `u` holds -/
theorem allE_absent (P Q : Entry → Prop) (u : Nat) (hPQ : ∀ e, P e → e.d.uuid ≠ u → Q e) (root : Node)
    (hr : root.isGroup = true) (hu : u ∉ uuidsL root.children) (hP : allE P root) : allE Q root := by
  cases root with
  | entry e => cases hr
  | group ru rc rt cs =>
    simp only [allE] at hP ⊢
    simp only [Node.children] at hu
    refine allEL_disjoint P Q [u] (fun e he hne => hPQ e he (fun h => hne (by simp [h]))) cs hP (fun x hx hxl => ?_)
    simp only [List.mem_singleton] at hxl
    subst hxl; exact hu hx

/-! ### relocation -/

theorem relocate_allE (P : Entry → Prop) (hP : LocFree P) (s s' : St) (u : Nat) (fromP toP : List Nat) (ts : Int)
    (hT : allE P s.root) (h : relocate s u fromP toP ts = .ok s') : allE P s'.root := by
  unfold relocate at h
  cases hfg : findGroup s.root fromP with
  | none => rw [hfg] at h; cases h
  | some g =>
    rw [hfg] at h
    simp only at h
    cases hrm : removeNode g u with
    | none => rw [hrm] at h; cases h
    | some pr =>
      obtain ⟨g', node⟩ := pr
      rw [hrm] at h
      simp only at h
      cases hft : findGroup (updatePath s.root fromP (fun _ => g')) toP with
      | none => rw [hft] at h; cases h
      | some t =>
        rw [hft] at h
        simp only at h
        injection h with h
        subst h
        simp only
        have ⟨hgp, hgg⟩ := findGroup_some hfg
        have hgt := allE_getPath P fromP s.root g hT hgp
        obtain ⟨_, hnm, hg'⟩ := removeNode_facts g g' node u hrm
        have hg't : allE P g' := by
          rw [hg']; exact allE_setChildren P g _ hgg (allEL_filter P _ _ (allE_children P g hgg hgt))
        have hnode : allE P node := allEL_mem P _ node (allE_children P g hgg hgt) hnm
        have h1 : allE P (updatePath s.root fromP (fun _ => g')) := allE_updatePath P _ (fun _ _ => hg't) fromP s.root hT
        refine allE_updatePath P _ (fun n hn => ?_) toP _ h1
        exact allE_setChildren' P n _ hn ((allEL_append P _ _).mpr ⟨allE_children' P n hn, ⟨allE_setLoc P hP node ts hnode, trivial⟩⟩)

/-- the moved node is the only one with its UUID: what holds of it (re-stamped) and of every entry with another UUID
    holds of the whole tree afterwards -/
theorem relocate_allE_moved (P Q : Entry → Prop) (s s' : St) (u : Nat) (fromP toP : List Nat) (ts : Int)
    (hPQ : ∀ e, P e → e.d.uuid ≠ u → Q e) (hI : Inv s.root) (hT : allE P s.root)
    (hmv : ∀ n, getPath s.root (fromP ++ [u]) = some n → allE Q (n.setLoc ts))
    (h : relocate s u fromP toP ts = .ok s') : allE Q s'.root := by
  unfold relocate at h
  cases hfg : findGroup s.root fromP with
  | none => rw [hfg] at h; cases h
  | some g =>
    rw [hfg] at h
    simp only at h
    cases hrm : removeNode g u with
    | none => rw [hrm] at h; cases h
    | some pr =>
      obtain ⟨g', node⟩ := pr
      rw [hrm] at h
      simp only at h
      cases hft : findGroup (updatePath s.root fromP (fun _ => g')) toP with
      | none => rw [hft] at h; cases h
      | some t =>
        rw [hft] at h
        simp only at h
        injection h with h
        subst h
        simp only
        have ⟨hgp, hgg⟩ := findGroup_some hfg
        have hgt := allE_getPath P fromP s.root g hT hgp
        obtain ⟨hnu, hnm, hg'⟩ := removeNode_facts g g' node u hrm
        have hg't : allE P g' := by
          rw [hg']; exact allE_setChildren P g _ hgg (allEL_filter P _ _ (allE_children P g hgg hgt))
        have h1 : allE P (updatePath s.root fromP (fun _ => g')) := allE_updatePath P _ (fun _ _ => hg't) fromP s.root hT
        obtain ⟨hg1, hperm⟩ := remove_perm s.root g g' node u fromP hI hfg hrm
        have hnd := hperm.nodup_iff.mp hI.2
        have hparts := List.nodup_append.mp hnd
        have hu : u ∉ uuidsL (updatePath s.root fromP (fun _ => g')).children := by
          intro hc
          exact hparts.2.2 u hc u (by rw [← hnu]; exact uuid_mem_uuidsN node) rfl
        have h2 : allE Q (updatePath s.root fromP (fun _ => g')) := allE_absent P Q u hPQ _ hg1 hu h1
        have hgn : getPath s.root (fromP ++ [u]) = some node := by
          have := getPath_child fromP s.root g node hI.2 hgp hgg hnm
          rwa [hnu] at this
        refine allE_updatePath Q _ (fun n hn => ?_) toP _ h2
        exact allE_setChildren' Q n _ hn ((allEL_append Q _ _).mpr ⟨allE_children' Q n hn, ⟨hmv node hgn, trivial⟩⟩)

/-! ### what `entryUpdate` returns -/

theorem entryMerge_some (now : Int) (ex oe m : Entry) (hm : entryMerge now ex oe = .ok (some m)) :
    (ex.d.times.mtime.getD now > oe.d.times.mtime.getD 0 ∧ m.d.uuid = ex.d.uuid ∧ m.d.content = ex.d.content
        ∧ m.d.times.mtime = ex.d.times.mtime)
    ∨ (ex.d.times.mtime.getD now < oe.d.times.mtime.getD 0 ∧ m.d.uuid = oe.d.uuid ∧ m.d.content = oe.d.content
        ∧ m.d.times.mtime = oe.d.times.mtime) := by
  unfold entryMerge at hm
  simp only at hm
  have hk : ∀ (d m : Entry), (keepLoc d m).d.uuid = m.d.uuid ∧ (keepLoc d m).d.content = m.d.content
      ∧ (keepLoc d m).d.times.mtime = m.d.times.mtime := by
    intro d m; unfold keepLoc; split <;> simp [Entry.setLoc]
  split at hm
  · first | cases hm | (split at hm <;> cases hm)
  · rename_i hne
    split at hm
    · cases hm
    · rename_i w hw
      injection hm with hm; injection hm with hm; subst hm
      obtain ⟨k1, k2, k3⟩ := hk ex w
      rw [k1, k2, k3]
      split at hw
      · rename_i hgt
        unfold mergeHistory at hw
        split at hw
        · cases hw
        · injection hw with hw; subst hw; exact Or.inl ⟨hgt, rfl, rfl, rfl⟩
      · rename_i hgt
        unfold mergeHistory at hw
        split at hw
        · cases hw
        · injection hw with hw; subst hw
          refine Or.inr ⟨?_, rfl, rfl, rfl⟩
          have : ex.d.times.mtime.getD now ≠ oe.d.times.mtime.getD 0 := by
            intro hc; apply hne; simp [hc]
          omega

theorem entryUpdate_some (now : Int) (ex oe m : Entry) (h : entryUpdate now ex oe = .ok (some m)) :
    (ex.d.times.mtime.getD now > oe.d.times.mtime.getD 0 ∧ m.d.uuid = ex.d.uuid ∧ m.d.content = ex.d.content
        ∧ m.d.times.mtime = ex.d.times.mtime)
    ∨ (ex.d.times.mtime.getD now < oe.d.times.mtime.getD 0 ∧ m.d.uuid = oe.d.uuid ∧ m.d.content = oe.d.content
        ∧ m.d.times.mtime = oe.d.times.mtime) := by
  unfold entryUpdate at h
  split at h
  · cases h
  · split at h
    · cases h
    · cases h
    · rename_i mg hm
      split at h
      · cases h
      · injection h with h; injection h with h; subst h
        exact entryMerge_some now ex oe _ hm

theorem entryUpdate_none (now : Int) (ex oe : Entry) (h : entryUpdate now ex oe = .ok none) :
    ex.d.content = oe.d.content ∨ ex.d.times.mtime.getD now ≥ oe.d.times.mtime.getD 0 := by
  unfold entryUpdate at h
  split at h
  · rename_i hnd
    left
    unfold entryDiverged at hnd
    simp only [Bool.not_not, Bool.and_eq_true, beq_iff_eq] at hnd
    exact hnd.1.2
  · split at h
    · cases h
    · rename_i hm
      -- `Entry::merge` had nothing to do: equal times
      unfold entryMerge at hm
      simp only at hm
      split at hm
      · rename_i heq
        right
        have : ex.d.times.mtime.getD now = oe.d.times.mtime.getD 0 := by simpa using heq
        omega
      · split at hm <;> cases hm
    · rename_i mg hm
      split at h
      · rename_i heqm
        have hem : ex = mg := by simpa using heqm
        rcases entryMerge_some now ex oe mg hm with ⟨hgt, _⟩ | ⟨_, _, hc, _⟩
        · right; omega
        · left; rw [hem]; exact hc
      · cases h

/-! ### the entry step keeps a predicate over all entries -/

theorem setLoc_uuid (e : Entry) (ts : Int) : (e.setLoc ts).d.uuid = e.d.uuid := rfl

theorem mergeEntryStep_allE (P : Entry → Prop) (hP : LocFree P) (now : Int) (tombs : List Tomb) (s s' : St) (path : List Nat)
    (inDeleted : Bool) (oe : Entry) (hT : allE P s.root)
    (hnew : findLoc s.root oe.d.uuid = none → P oe)
    (hupd : ∀ ex m, ex.d.uuid = oe.d.uuid → P ex → entryUpdate now ex oe = .ok (some m) → P m)
    (h : mergeEntryStep now tombs s path inDeleted oe = .ok s') : allE P s'.root := by
  unfold mergeEntryStep at h
  split at h
  · rename_i dloc hloc
    split at h
    · cases h
    · rename_i existing0 hfe
      have hex0 : P existing0 ∧ existing0.d.uuid = oe.d.uuid := by
        have hgp := findEntry_some hfe
        have := allE_getPath P _ s.root _ hT hgp
        simp only [allE] at this
        have hu := getPath_last_uuid dloc s.root _ oe.d.uuid hgp
        exact ⟨this, hu⟩
      have jp : ∀ (s1 : St) (eloc : List Nat) (existing : Entry) (s' : St), allE P s1.root → P existing →
          existing.d.uuid = oe.d.uuid →
          (do
            let upd ← entryUpdate now existing oe
            match upd with
              | none => pure s1
              | some merged =>
                match findEntry s1.root eloc with
                | none => Except.error MErr.findEntry
                | some _ =>
                  pure ({ s1 with root := updatePath s1.root eloc (fun _ => Node.entry merged) }.ev .entryUpdated merged.d.uuid)) = .ok s' →
          allE P s'.root := by
        intro s1 eloc existing s'' hT1 hPe hue hk
        obtain ⟨upd, hupd', hk⟩ := except_bind_ok hk
        cases upd with
        | none => simp only at hk; injection hk with hk; subst hk; exact hT1
        | some merged =>
          simp only at hk
          split at hk
          · cases hk
          · injection hk with hk; subst hk
            rw [ev_root]
            exact allE_updatePath P (fun _ => Node.entry merged) (fun _ _ => hupd existing merged hue hPe hupd') eloc s1.root hT1
      dsimp only at h
      split at h
      · split at h
        · obtain ⟨s2, hs2, h⟩ := except_bind_ok h
          obtain ⟨x, hx, h⟩ := except_bind_ok h
          cases hx
          exact jp s2 _ _ s' (relocate_allE P hP _ s2 _ _ _ _ (by rw [ev_root]; exact hT) hs2) (hP _ _ hex0.1) hex0.2 h
        · obtain ⟨x, hx, h⟩ := except_bind_ok h
          cases hx
          exact jp s _ _ s' hT hex0.1 hex0.2 h
      · obtain ⟨x, hx, h⟩ := except_bind_ok h
        cases hx
        exact jp s _ _ s' hT hex0.1 hex0.2 h
  · rename_i hloc
    split at h
    · injection h with h; subst h; exact hT
    · split at h
      · injection h with h; subst h; exact hT
      · split at h
        · cases h
        · injection h with h; subst h
          rw [ev_root]
          refine allE_updatePath P _ (fun n hn => ?_) path s.root hT
          exact allE_setChildren' P n _ hn ((allEL_append P _ _).mpr ⟨allE_children' P n hn, ⟨hnew hloc, trivial⟩⟩)

/-! ### the group pass keeps a predicate over all entries -/

/-- the standing facts about the destination while one UUID is followed: the tree is sound and holds the UUID -/
def Holds (u : Nat) (r : Node) : Prop := Inv r ∧ u ∈ uuidsL r.children

/-- what a predicate needs of a source entry: creating it is fine unless it is the UUID followed (which is never created:
    the destination holds it), and updating an entry that satisfies the predicate gives one that does -/
def SrcOk (P : Entry → Prop) (u : Nat) (now : Int) (oe : Entry) : Prop :=
  (oe.d.uuid ≠ u → P oe) ∧ ∀ ex m, ex.d.uuid = oe.d.uuid → P ex → entryUpdate now ex oe = .ok (some m) → P m

theorem holds_entryStep (u : Nat) (now : Int) (tombs : List Tomb) (s s' : St) (path : List Nat) (inDel : Bool) (oe : Entry)
    (hH : Holds u s.root) (h : mergeEntryStep now tombs s path inDel oe = .ok s') : Holds u s'.root :=
  ⟨mergeEntryStep_inv now tombs s s' path inDel oe hH.1 h, (mergeEntryStep_le now tombs s s' path inDel oe hH.1 h).1 u hH.2⟩

theorem holds_entries (u : Nat) (now : Int) (tombs : List Tomb) (cs : List Node) (s s' : St) (path : List Nat) (inDel : Bool)
    (hH : Holds u s.root) (h : mergeEntries now tombs s path inDel cs = .ok s') : Holds u s'.root :=
  ⟨mergeEntries_inv now tombs cs s s' path inDel hH.1 h, (mergeEntries_le now tombs cs s s' path inDel hH.1 h).1 u hH.2⟩

theorem holds_subgroups (u : Nat) (now : Int) (tombs : List Tomb) (cs : List Node) (s s' : St) (path : List Nat) (inDel : Bool)
    (hH : Holds u s.root) (h : mergeSubgroups now tombs s path inDel cs = .ok s') : Holds u s'.root :=
  ⟨mergeSubgroups_inv now tombs cs s s' path inDel hH.1 h, (mergeSubgroups_le now tombs cs s s' path inDel hH.1 h).1 u hH.2⟩

theorem holds_group (u : Nat) (now : Int) (tombs : List Tomb) (g : Node) (s s' : St) (path : List Nat) (inDel : Bool)
    (hH : Holds u s.root) (h : mergeGroup now tombs s path g inDel = .ok s') : Holds u s'.root :=
  ⟨mergeGroup_inv now tombs g s s' path inDel hH.1 h, (mergeGroup_le now tombs g s s' path inDel hH.1 h).1 u hH.2⟩

theorem holds_relocate (u : Nat) (s s' : St) (x : Nat) (a b : List Nat) (ts : Int) (hH : Holds u s.root)
    (h : relocate s x a b ts = .ok s') : Holds u s'.root :=
  ⟨relocate_inv s s' x a b ts hH.1 h, relocate_le s s' x a b ts hH.1 h u hH.2⟩

/-- the group's own data is replaced in place: same UUIDs, same entries -/
theorem holds_groupData (u : Nat) (root : Node) (p : List Nat) (du dc : Nat) (dt : Times) (dch : List Node) (c' : Nat) (t' : Times)
    (hH : Holds u root) (hp : p ≠ []) (hfg : findGroup root p = some (.group du dc dt dch)) :
    Holds u (updatePath root p (fun n => match n with
      | .group u _ _ ch => .group u c' t' ch
      | e => e)) := by
  refine ⟨inv_update_same root (.group du dc dt dch) _ _ hH.1 hp (findGroup_some hfg).1 (by simp [uuidsN]), ?_⟩
  exact le_update_same root (.group du dc dt dch) _ _ hH.1 hp (findGroup_some hfg).1 (by simp [uuidsN]) u hH.2

theorem allE_groupData (P : Entry → Prop) (root : Node) (p : List Nat) (c' : Nat) (t' : Times) (hT : allE P root) :
    allE P (updatePath root p (fun n => match n with
      | .group u _ _ ch => .group u c' t' ch
      | e => e)) := by
  refine allE_updatePath P _ (fun n hn => ?_) p root hT
  cases n with
  | group u c t ch => simp only [allE] at hn ⊢; exact hn
  | entry e => exact hn

theorem holds_addGroup (u : Nat) (root pg : Node) (path : List Nat) (ou oc : Nat) (ot : Times) (hH : Holds u root)
    (hfg : findGroup root path = some pg) (hloc : findLoc root ou = none) :
    Holds u (updatePath root path (fun p => p.setChildren (p.children ++ [Node.group ou oc ot []]))) := by
  refine ⟨inv_add_child root pg (.group ou oc ot []) path hH.1 hfg (by simp [uuidsN, uuidsL]) ?_, ?_⟩
  · intro x hx
    simp only [uuidsN, uuidsL, List.mem_cons, List.not_mem_nil, or_false] at hx
    subst hx
    exact findLoc_none_notMem root _ hloc
  · exact (le_add_child root pg (.group ou oc ot []) path hH.1 hfg).1 u hH.2

theorem allE_addGroup (P : Entry → Prop) (root : Node) (path : List Nat) (ou oc : Nat) (ot : Times) (hT : allE P root) :
    allE P (updatePath root path (fun p => p.setChildren (p.children ++ [Node.group ou oc ot []]))) := by
  refine allE_updatePath P _ (fun n hn => ?_) path root hT
  exact allE_setChildren' P n _ hn ((allEL_append P _ _).mpr ⟨allE_children' P n hn, ⟨by simp [allE, allEL], trivial⟩⟩)

theorem mergeEntryStep_keeps (P : Entry → Prop) (hP : LocFree P) (u : Nat) (now : Int) (tombs : List Tomb) (s s' : St)
    (path : List Nat) (inDel : Bool) (oe : Entry) (hH : Holds u s.root) (hS : SrcOk P u now oe) (hT : allE P s.root)
    (h : mergeEntryStep now tombs s path inDel oe = .ok s') : allE P s'.root := by
  refine mergeEntryStep_allE P hP now tombs s s' path inDel oe hT (fun hloc => hS.1 (fun he => ?_)) hS.2 h
  exact findLoc_none_notMem s.root _ hloc (he ▸ hH.2)

mutual
  theorem mergeGroup_allE (P : Entry → Prop) (hP : LocFree P) (u : Nat) (now : Int) (tombs : List Tomb) :
      ∀ (g : Node) (s s' : St) (path : List Nat) (inDel : Bool), allE (SrcOk P u now) g → Holds u s.root → allE P s.root →
        mergeGroup now tombs s path g inDel = .ok s' → allE P s'.root
    | .entry _, s, s', _, _, _, _, hT, h => by
      simp only [mergeGroup] at h
      injection h with h; subst h; exact hT
    | .group gu gc gt cs, s, s', path, inDel, hS, hH, hT, h => by
      simp only [allE] at hS
      unfold mergeGroup at h
      dsimp only at h
      have jp : ∀ (s1 : St) (p1 : List Nat), Holds u s1.root → allE P s1.root →
          (do
            let s ← mergeEntries now tombs s1 p1 inDel cs
            mergeSubgroups now tombs s p1 inDel cs) = .ok s' → allE P s'.root := by
        intro s1 p1 hH1 hT1 hk
        obtain ⟨s2, hs2, hk⟩ := except_bind_ok hk
        exact mergeSubgroups_allE P hP u now tombs cs s2 s' p1 inDel hS (holds_entries u now tombs cs s1 s2 p1 inDel hH1 hs2)
          (mergeEntries_allE P hP u now tombs cs s1 s2 p1 inDel hS hH1 hT1 hs2) hk
      split at h
      · obtain ⟨x, hx, h⟩ := except_bind_ok h
        cases hx
        exact jp s path hH hT h
      · rename_i dloc hloc
        split at h
        · obtain ⟨x, hx, h⟩ := except_bind_ok h
          cases hx
        · rename_i du dc dt dch hfg
          obtain ⟨x, hx, h⟩ := except_bind_ok h
          obtain ⟨c', t', upd⟩ := x
          dsimp only at h
          obtain ⟨y, hy, h⟩ := except_bind_ok h
          cases hy
          have hH' := holds_groupData u s.root (dloc ++ [gu]) du dc dt dch c' t' hH (by simp) hfg
          have hT' := allE_groupData P s.root (dloc ++ [gu]) c' t' hT
          refine jp _ _ ?_ ?_ h
          · split
            · rw [ev_root]; exact hH'
            · exact hH'
          · split
            · rw [ev_root]; exact hT'
            · exact hT'
        · obtain ⟨x, hx, h⟩ := except_bind_ok h
          cases hx

  theorem mergeEntries_allE (P : Entry → Prop) (hP : LocFree P) (u : Nat) (now : Int) (tombs : List Tomb) :
      ∀ (cs : List Node) (s s' : St) (path : List Nat) (inDel : Bool), allEL (SrcOk P u now) cs → Holds u s.root → allE P s.root →
        mergeEntries now tombs s path inDel cs = .ok s' → allE P s'.root
    | [], s, s', _, _, _, _, hT, h => by
      simp only [mergeEntries] at h
      injection h with h; subst h; exact hT
    | .entry e :: rest, s, s', path, inDel, hS, hH, hT, h => by
      simp only [allEL, allE] at hS
      unfold mergeEntries at h
      obtain ⟨s1, hs1, h⟩ := except_bind_ok h
      exact mergeEntries_allE P hP u now tombs rest s1 s' path inDel hS.2 (holds_entryStep u now tombs s s1 path inDel e hH hs1)
        (mergeEntryStep_keeps P hP u now tombs s s1 path inDel e hH hS.1 hT hs1) h
    | .group _ _ _ _ :: rest, s, s', path, inDel, hS, hH, hT, h => by
      simp only [allEL] at hS
      unfold mergeEntries at h
      exact mergeEntries_allE P hP u now tombs rest s s' path inDel hS.2 hH hT h

  theorem mergeSubgroups_allE (P : Entry → Prop) (hP : LocFree P) (u : Nat) (now : Int) (tombs : List Tomb) :
      ∀ (cs : List Node) (s s' : St) (path : List Nat) (inDel : Bool), allEL (SrcOk P u now) cs → Holds u s.root → allE P s.root →
        mergeSubgroups now tombs s path inDel cs = .ok s' → allE P s'.root
    | [], s, s', _, _, _, _, hT, h => by
      simp only [mergeSubgroups] at h
      injection h with h; subst h; exact hT
    | .entry _ :: rest, s, s', path, inDel, hS, hH, hT, h => by
      simp only [allEL] at hS
      unfold mergeSubgroups at h
      exact mergeSubgroups_allE P hP u now tombs rest s s' path inDel hS.2 hH hT h
    | .group ou oc ot ocs :: rest, s, s', path, inDel, hS, hH, hT, h => by
      simp only [allEL] at hS
      have hog : allE (SrcOk P u now) (Node.group ou oc ot ocs) := hS.1
      unfold mergeSubgroups at h
      dsimp only at h
      have viaGroup : ∀ (s0 : St) (b : Bool), Holds u s0.root → allE P s0.root →
          (do
            let s ← mergeGroup now tombs s0 (path ++ [ou]) (.group ou oc ot ocs) b
            mergeSubgroups now tombs s (refreshPath s.root path) inDel rest) = .ok s' → allE P s'.root := by
        intro s0 b hH0 hT0 hk
        obtain ⟨s1, hs1, hk⟩ := except_bind_ok hk
        exact mergeSubgroups_allE P hP u now tombs rest s1 s' _ inDel hS.2
          (holds_group u now tombs _ s0 s1 _ b hH0 hs1)
          (mergeGroup_allE P hP u now tombs (.group ou oc ot ocs) s0 s1 _ b hog hH0 hT0 hs1) hk
      split at h
      · exact viaGroup s true hH hT h
      · split at h
        · split at h
          · split at h
            · obtain ⟨x, hx, h⟩ := except_bind_ok h
              cases hx
            · split at h
              · obtain ⟨s2, hs2, h⟩ := except_bind_ok h
                refine viaGroup _ inDel ?_ ?_ h
                · rw [ev_root]; exact holds_relocate u s s2 _ _ _ _ hH hs2
                · rw [ev_root]; exact relocate_allE P hP s s2 _ _ _ _ hT hs2
              · exact viaGroup s inDel hH hT h
          · exact viaGroup s inDel hH hT h
        · rename_i hloc
          split at h
          · obtain ⟨x, hx, h⟩ := except_bind_ok h
            cases hx
          · rename_i pg hfg
            rw [ev_root] at hfg
            refine viaGroup _ inDel ?_ ?_ h
            · exact holds_addGroup u s.root pg path ou oc ot hH hfg hloc
            · exact allE_addGroup P s.root path ou oc ot hT
end

/-! ### one UUID followed through the merge -/

/-- the entry followed: its UUID, the destination's and the source's version (content, modification time) -/
structure Lww where
  u : Nat
  dc : Nat
  dmt : Option Int
  sc : Nat
  smt : Option Int
  now : Int

/-- the content that must win: the destination's unless the source's modification time is strictly later (a missing
    destination time counts as `now`, a missing source time as the epoch, as in `Entry::merge`) -/
def Lww.wc (c : Lww) : Nat := if c.dmt.getD c.now ≥ c.smt.getD 0 then c.dc else c.sc

def Lww.Orig (c : Lww) (e : Entry) : Prop := e.d.content = c.dc ∧ e.d.times.mtime = c.dmt
def Lww.Done (c : Lww) (e : Entry) : Prop := e.d.content = c.sc ∧ e.d.times.mtime = c.smt ∧ c.sc = c.wc
/-- before the visit: still the destination's version, or already the winner -/
def Lww.P0 (c : Lww) (e : Entry) : Prop := e.d.uuid = c.u → c.Orig e ∨ c.Done e
/-- after the visit: the winner's content -/
def Lww.P1 (c : Lww) (e : Entry) : Prop := e.d.uuid = c.u → (c.Orig e ∨ c.Done e) ∧ e.d.content = c.wc
/-- the source's entries with that UUID are the source's version -/
def Lww.Src (c : Lww) (e : Entry) : Prop := e.d.uuid = c.u → e.d.content = c.sc ∧ e.d.times.mtime = c.smt

theorem Lww.p0_locFree (c : Lww) : LocFree c.P0 := fun _ _ h => h
theorem Lww.p1_locFree (c : Lww) : LocFree c.P1 := fun _ _ h => h
theorem Lww.p1_p0 (c : Lww) (e : Entry) (h : c.P1 e) : c.P0 e := fun hu => (h hu).1

/-- updating the followed entry with the source's version gives the winner -/
theorem Lww.update (c : Lww) (ex oe m : Entry) (hex : ex.d.uuid = c.u) (hoe : oe.d.uuid = c.u) (hs : c.Src oe) (h0 : c.P0 ex)
    (h : entryUpdate c.now ex oe = .ok (some m)) : c.P1 m := by
  intro _
  obtain ⟨hsc, hsm⟩ := hs hoe
  rcases entryUpdate_some c.now ex oe m h with ⟨hgt, _, hc, hm⟩ | ⟨hlt, _, hc, hm⟩
  · rcases h0 hex with ⟨oc, om⟩ | ⟨dc', dm', dw⟩
    · refine ⟨Or.inl ⟨by rw [hc, oc], by rw [hm, om]⟩, ?_⟩
      rw [hc, oc]
      unfold Lww.wc
      rw [om, hsm] at hgt
      rw [if_pos (by omega)]
    · exact ⟨Or.inr ⟨by rw [hc, dc'], by rw [hm, dm'], dw⟩, by rw [hc, dc', dw]⟩
  · rcases h0 hex with ⟨oc, om⟩ | ⟨dc', dm', dw⟩
    · have hw : c.sc = c.wc := by
        unfold Lww.wc
        rw [om, hsm] at hlt
        rw [if_neg (by omega)]
      exact ⟨Or.inr ⟨by rw [hc, hsc], by rw [hm, hsm], hw⟩, by rw [hc, hsc, hw]⟩
    · exact ⟨Or.inr ⟨by rw [hc, hsc], by rw [hm, hsm], dw⟩, by rw [hc, hsc, dw]⟩

/-- when there is nothing to update the followed entry already is the winner -/
theorem Lww.noUpdate (c : Lww) (ex oe : Entry) (hex : ex.d.uuid = c.u) (hoe : oe.d.uuid = c.u) (hs : c.Src oe) (h0 : c.P0 ex)
    (h : entryUpdate c.now ex oe = .ok none) : c.P1 ex := by
  intro _
  obtain ⟨hsc, hsm⟩ := hs hoe
  refine ⟨h0 hex, ?_⟩
  rcases h0 hex with ⟨oc, om⟩ | ⟨dc', _, dw⟩
  · rcases entryUpdate_none c.now ex oe h with heq | hge
    · unfold Lww.wc
      split
      · exact oc
      · rw [heq, hsc]
    · unfold Lww.wc
      rw [om, hsm] at hge
      rw [if_pos hge]; exact oc
  · rw [dc', dw]

theorem Lww.srcOk0 (c : Lww) (oe : Entry) (hs : c.Src oe) : SrcOk c.P0 c.u c.now oe := by
  refine ⟨fun hne hu => absurd hu hne, fun ex m hue h0 hupd => ?_⟩
  by_cases hoe : oe.d.uuid = c.u
  · exact c.p1_p0 m (c.update ex oe m (hue.trans hoe) hoe hs h0 hupd)
  · intro hmu
    rcases entryUpdate_some c.now ex oe m hupd with ⟨_, hu, _⟩ | ⟨_, hu, _⟩
    · exact absurd (hue ▸ hu ▸ hmu) hoe
    · exact absurd (hu ▸ hmu) hoe

theorem Lww.srcOk1 (c : Lww) (oe : Entry) (hs : c.Src oe) : SrcOk c.P1 c.u c.now oe := by
  refine ⟨fun hne hu => absurd hu hne, fun ex m hue h1 hupd => ?_⟩
  by_cases hoe : oe.d.uuid = c.u
  · exact c.update ex oe m (hue.trans hoe) hoe hs (c.p1_p0 ex h1) hupd
  · intro hmu
    rcases entryUpdate_some c.now ex oe m hupd with ⟨_, hu, _⟩ | ⟨_, hu, _⟩
    · exact absurd (hue ▸ hu ▸ hmu) hoe
    · exact absurd (hu ▸ hmu) hoe

theorem Lww.src_ok0 (c : Lww) (g : Node) (h : allE c.Src g) : allE (SrcOk c.P0 c.u c.now) g :=
  allE_mono _ _ (fun e he => c.srcOk0 e he) g h
theorem Lww.src_ok1 (c : Lww) (g : Node) (h : allE c.Src g) : allE (SrcOk c.P1 c.u c.now) g :=
  allE_mono _ _ (fun e he => c.srcOk1 e he) g h

/-- entries with another UUID are not constrained -/
theorem Lww.other (c : Lww) (e : Entry) (_ : c.P0 e) (hne : e.d.uuid ∉ [c.u]) : c.P1 e :=
  fun hu => absurd (by simp [hu]) hne

/-- what it takes to follow one entry through the merge: a predicate `P0` that every entry of the destination satisfies from
    the start and every step keeps, a stronger `P1` that the visit of the source's entry establishes and every step keeps -/
structure Track where
  u : Nat
  now : Int
  P0 : Entry → Prop
  P1 : Entry → Prop
  Src : Entry → Prop
  p0_locFree : LocFree P0
  p1_locFree : LocFree P1
  p1_p0 : ∀ e, P1 e → P0 e
  update : ∀ ex oe m, ex.d.uuid = u → oe.d.uuid = u → Src oe → P0 ex → entryUpdate now ex oe = .ok (some m) → P1 m
  noUpdate : ∀ ex oe, ex.d.uuid = u → oe.d.uuid = u → Src oe → P0 ex → entryUpdate now ex oe = .ok none → P1 ex
  other : ∀ e, P0 e → e.d.uuid ∉ [u] → P1 e
  srcOk0 : ∀ oe, Src oe → SrcOk P0 u now oe
  srcOk1 : ∀ oe, Src oe → SrcOk P1 u now oe

theorem Track.src_ok0 (c : Track) (g : Node) (h : allE c.Src g) : allE (SrcOk c.P0 c.u c.now) g :=
  allE_mono _ _ (fun e he => c.srcOk0 e he) g h
theorem Track.src_ok1 (c : Track) (g : Node) (h : allE c.Src g) : allE (SrcOk c.P1 c.u c.now) g :=
  allE_mono _ _ (fun e he => c.srcOk1 e he) g h

def Lww.track (c : Lww) : Track where
  u := c.u
  now := c.now
  P0 := c.P0
  P1 := c.P1
  Src := c.Src
  p0_locFree := c.p0_locFree
  p1_locFree := c.p1_locFree
  p1_p0 := c.p1_p0
  update := c.update
  noUpdate := c.noUpdate
  other := c.other
  srcOk0 := c.srcOk0
  srcOk1 := c.srcOk1

/-- the visit: merging the source's version of the followed entry makes it the winner, everywhere in the tree -/
theorem mergeEntryStep_visit (c : Track) (tombs : List Tomb) (s s' : St) (path : List Nat) (inDeleted : Bool) (oe : Entry)
    (hoe : oe.d.uuid = c.u) (hs : c.Src oe) (hH : Holds c.u s.root) (hT : allE c.P0 s.root)
    (h : mergeEntryStep c.now tombs s path inDeleted oe = .ok s') : allE c.P1 s'.root := by
  unfold mergeEntryStep at h
  split at h
  · rename_i dloc hloc
    split at h
    · cases h
    · rename_i existing0 hfe
      have hgp0 := findEntry_some hfe
      have hex0 : c.P0 existing0 ∧ existing0.d.uuid = c.u := by
        have := allE_getPath c.P0 _ s.root _ hT hgp0
        simp only [allE] at this
        have hu := getPath_last_uuid dloc s.root _ oe.d.uuid hgp0
        exact ⟨this, hu.trans hoe⟩
      -- the update in place, at a path that designates an entry with the UUID followed
      have upd : ∀ (s1 : St) (eloc : List Nat) (merged : Entry) (x : Entry), Holds c.u s1.root → allE c.P0 s1.root →
          findEntry s1.root (eloc ++ [c.u]) = some x → c.P1 merged →
          allE c.P1 (updatePath s1.root (eloc ++ [c.u]) (fun _ => Node.entry merged)) := by
        intro s1 eloc merged x hH1 hT1 hfx hm
        have hgx := findEntry_some hfx
        have hxu := getPath_last_uuid eloc s1.root _ c.u hgx
        refine allE_updatePath_at c.P0 c.P1 _ [c.u] c.other _ s1.root _ hH1.1.1 hH1.1.2 hgx ?_ hT1 hm
        intro y hy
        simp only [List.mem_singleton] at hy
        subst hy
        simp only [uuidsN, List.mem_singleton]
        exact hxu.symm
      rw [hoe] at h hfe hgp0
      dsimp only at h
      split at h
      · split at h
        · -- relocated first
          obtain ⟨s2, hs2, h⟩ := except_bind_ok h
          obtain ⟨x, hx, h⟩ := except_bind_ok h
          cases hx
          have hH2 : Holds c.u s2.root := holds_relocate c.u _ s2 _ _ _ _ (by rw [ev_root]; exact hH) hs2
          have hT2 : allE c.P0 s2.root := relocate_allE c.P0 c.p0_locFree _ s2 _ _ _ _ (by rw [ev_root]; exact hT) hs2
          obtain ⟨u', hu', h⟩ := except_bind_ok h
          dsimp only at hu' h
          cases u' with
          | none =>
            simp only at h; injection h with h; subst h
            have hp1 := c.noUpdate (existing0.setLoc (oe.d.times.loc.getD 0)) oe hex0.2 hoe hs (c.p0_locFree _ _ hex0.1) hu'
            refine relocate_allE_moved c.P0 c.P1 _ _ c.u dloc path _ (fun e he hne => c.other e he (by simpa using hne))
              (by rw [ev_root]; exact hH.1) (by rw [ev_root]; exact hT) (fun n hn => ?_) hs2
            rw [ev_root, hgp0] at hn
            injection hn with hn; subst hn
            exact hp1
          | some merged =>
            simp only at h
            split at h
            · cases h
            · rename_i x hfx
              injection h with h; subst h
              rw [ev_root]
              have hp1 := c.update (existing0.setLoc (oe.d.times.loc.getD 0)) oe merged hex0.2 hoe hs (c.p0_locFree _ _ hex0.1) hu'
              exact upd s2 path merged x hH2 hT2 hfx hp1
        · obtain ⟨x, hx, h⟩ := except_bind_ok h
          cases hx
          obtain ⟨u', hu', h⟩ := except_bind_ok h
          cases u' with
          | none =>
            simp only at h; injection h with h; subst h
            have hp1 := c.noUpdate existing0 oe hex0.2 hoe hs hex0.1 hu'
            refine allE_at c.P0 c.P1 [c.u] c.other _ _ _ hH.1.1 hH.1.2 hgp0 ?_ hT hp1
            intro y hy
            simp only [List.mem_singleton] at hy
            subst hy
            simp only [uuidsN, List.mem_singleton]
            exact hex0.2.symm
          | some merged =>
            simp only at h
            split at h
            · cases h
            · rename_i x hfx
              injection h with h; subst h
              rw [ev_root]
              exact upd s dloc merged x hH hT hfx (c.update existing0 oe merged hex0.2 hoe hs hex0.1 hu')
      · obtain ⟨x, hx, h⟩ := except_bind_ok h
        cases hx
        obtain ⟨u', hu', h⟩ := except_bind_ok h
        cases u' with
        | none =>
          simp only at h; injection h with h; subst h
          have hp1 := c.noUpdate existing0 oe hex0.2 hoe hs hex0.1 hu'
          refine allE_at c.P0 c.P1 [c.u] c.other _ _ _ hH.1.1 hH.1.2 hgp0 ?_ hT hp1
          intro y hy
          simp only [List.mem_singleton] at hy
          subst hy
          simp only [uuidsN, List.mem_singleton]
          exact hex0.2.symm
        | some merged =>
          simp only at h
          split at h
          · cases h
          · rename_i x hfx
            injection h with h; subst h
            rw [ev_root]
            exact upd s dloc merged x hH hT hfx (c.update existing0 oe merged hex0.2 hoe hs hex0.1 hu')
  · rename_i hloc
    exact absurd hH.2 (findLoc_none_notMem s.root _ (hoe ▸ hloc))

/-! ### every entry of the source is visited -/

mutual
  /-- the UUIDs of the entries of a subtree -/
  def entryIdsN : Node → List Nat
    | .group _ _ _ cs => entryIdsL cs
    | .entry e => [e.d.uuid]
  def entryIdsL : List Node → List Nat
    | [] => []
    | c :: cs => entryIdsN c ++ entryIdsL cs
end

/-- entries that are direct children -/
def directIds : List Node → List Nat
  | [] => []
  | .entry e :: cs => e.d.uuid :: directIds cs
  | .group _ _ _ _ :: cs => directIds cs

/-- entries below child groups -/
def deepIds : List Node → List Nat
  | [] => []
  | .entry _ :: cs => deepIds cs
  | .group _ _ _ ccs :: cs => entryIdsL ccs ++ deepIds cs

theorem entryIdsL_split (x : Nat) : ∀ (cs : List Node), x ∈ entryIdsL cs → x ∈ directIds cs ∨ x ∈ deepIds cs := by
  intro cs
  induction cs with
  | nil => intro h; simp [entryIdsL] at h
  | cons c cs ih =>
    intro h
    simp only [entryIdsL, List.mem_append] at h
    cases c with
    | entry e =>
      simp only [entryIdsN, List.mem_singleton] at h
      simp only [directIds, deepIds, List.mem_cons]
      rcases h with h | h
      · exact Or.inl (Or.inl h)
      · rcases ih h with h | h
        · exact Or.inl (Or.inr h)
        · exact Or.inr h
    | group u c t ccs =>
      simp only [entryIdsN] at h
      simp only [directIds, deepIds, List.mem_append]
      rcases h with h | h
      · exact Or.inr (Or.inl h)
      · rcases ih h with h | h
        · exact Or.inl h
        · exact Or.inr (Or.inr h)

mutual
  theorem mergeGroup_lww (c : Track) (tombs : List Tomb) :
      ∀ (g : Node) (s s' : St) (path : List Nat) (inDel : Bool), allE c.Src g → Holds c.u s.root → allE c.P0 s.root →
        mergeGroup c.now tombs s path g inDel = .ok s' → (allE c.P1 s.root ∨ c.u ∈ entryIdsL g.children) → allE c.P1 s'.root
    | .entry _, s, s', _, _, _, _, _, h, hv => by
      simp only [mergeGroup] at h
      injection h with h; subst h
      rcases hv with hv | hv
      · exact hv
      · -- `merge_group` is never called on an entry; the model returns the state unchanged
        simp [Node.children, entryIdsL] at hv
    | .group gu gc gt cs, s, s', path, inDel, hS, hH, hT, h, hv => by
      rcases hv with h1 | hv
      · exact mergeGroup_allE c.P1 c.p1_locFree c.u c.now tombs _ s s' path inDel (c.src_ok1 _ hS) hH h1 h
      simp only [Node.children] at hv
      have hS' : allEL c.Src cs := by simpa only [allE] using hS
      have hS0 : allEL (SrcOk c.P0 c.u c.now) cs := by
        have := c.src_ok0 _ hS; simpa only [allE] using this
      have hS1 : allEL (SrcOk c.P1 c.u c.now) cs := by
        have := c.src_ok1 _ hS; simpa only [allE] using this
      unfold mergeGroup at h
      dsimp only at h
      have jp : ∀ (s1 : St) (p1 : List Nat), Holds c.u s1.root → allE c.P0 s1.root →
          (do
            let s ← mergeEntries c.now tombs s1 p1 inDel cs
            mergeSubgroups c.now tombs s p1 inDel cs) = .ok s' → allE c.P1 s'.root := by
        intro s1 p1 hH1 hT1 hk
        obtain ⟨s2, hs2, hk⟩ := except_bind_ok hk
        have hH2 := holds_entries c.u c.now tombs cs s1 s2 p1 inDel hH1 hs2
        rcases entryIdsL_split c.u cs hv with hd | hd
        · have h2 := mergeEntries_lww c tombs cs s1 s2 p1 inDel hS' hH1 hT1 hs2 (Or.inr hd)
          exact mergeSubgroups_allE c.P1 c.p1_locFree c.u c.now tombs cs s2 s' p1 inDel hS1 hH2 h2 hk
        · have h2 := mergeEntries_allE c.P0 c.p0_locFree c.u c.now tombs cs s1 s2 p1 inDel hS0 hH1 hT1 hs2
          exact mergeSubgroups_lww c tombs cs s2 s' p1 inDel hS' hH2 h2 hk (Or.inr hd)
      split at h
      · obtain ⟨x, hx, h⟩ := except_bind_ok h
        cases hx
        exact jp s path hH hT h
      · rename_i dloc hloc
        split at h
        · obtain ⟨x, hx, h⟩ := except_bind_ok h
          cases hx
        · rename_i du dc dt dch hfg
          obtain ⟨x, hx, h⟩ := except_bind_ok h
          obtain ⟨c', t', upd⟩ := x
          dsimp only at h
          obtain ⟨y, hy, h⟩ := except_bind_ok h
          cases hy
          have hH' := holds_groupData c.u s.root (dloc ++ [gu]) du dc dt dch c' t' hH (by simp) hfg
          have hT' := allE_groupData c.P0 s.root (dloc ++ [gu]) c' t' hT
          refine jp _ _ ?_ ?_ h
          · split
            · rw [ev_root]; exact hH'
            · exact hH'
          · split
            · rw [ev_root]; exact hT'
            · exact hT'
        · obtain ⟨x, hx, h⟩ := except_bind_ok h
          cases hx

  theorem mergeEntries_lww (c : Track) (tombs : List Tomb) :
      ∀ (cs : List Node) (s s' : St) (path : List Nat) (inDel : Bool), allEL c.Src cs → Holds c.u s.root → allE c.P0 s.root →
        mergeEntries c.now tombs s path inDel cs = .ok s' → (allE c.P1 s.root ∨ c.u ∈ directIds cs) → allE c.P1 s'.root
    | [], s, s', _, _, _, _, _, h, hv => by
      simp only [mergeEntries] at h
      injection h with h; subst h
      rcases hv with hv | hv
      · exact hv
      · simp [directIds] at hv
    | .entry e :: rest, s, s', path, inDel, hS, hH, hT, h, hv => by
      simp only [allEL, allE] at hS
      have hS1 : allEL (SrcOk c.P1 c.u c.now) rest := allEL_mono _ _ (fun e he => c.srcOk1 e he) rest hS.2
      unfold mergeEntries at h
      obtain ⟨s1, hs1, h⟩ := except_bind_ok h
      have hH1 := holds_entryStep c.u c.now tombs s s1 path inDel e hH hs1
      rcases hv with h1 | hv
      · have := mergeEntryStep_keeps c.P1 c.p1_locFree c.u c.now tombs s s1 path inDel e hH (c.srcOk1 e hS.1) h1 hs1
        exact mergeEntries_allE c.P1 c.p1_locFree c.u c.now tombs rest s1 s' path inDel hS1 hH1 this h
      · by_cases he : e.d.uuid = c.u
        · have := mergeEntryStep_visit c tombs s s1 path inDel e he hS.1 hH hT hs1
          exact mergeEntries_allE c.P1 c.p1_locFree c.u c.now tombs rest s1 s' path inDel hS1 hH1 this h
        · have hT1 := mergeEntryStep_keeps c.P0 c.p0_locFree c.u c.now tombs s s1 path inDel e hH (c.srcOk0 e hS.1) hT hs1
          simp only [directIds, List.mem_cons] at hv
          rcases hv with hv | hv
          · exact absurd hv.symm he
          · exact mergeEntries_lww c tombs rest s1 s' path inDel hS.2 hH1 hT1 h (Or.inr hv)
    | .group _ _ _ _ :: rest, s, s', path, inDel, hS, hH, hT, h, hv => by
      simp only [allEL] at hS
      unfold mergeEntries at h
      exact mergeEntries_lww c tombs rest s s' path inDel hS.2 hH hT h (by simpa only [directIds] using hv)

  theorem mergeSubgroups_lww (c : Track) (tombs : List Tomb) :
      ∀ (cs : List Node) (s s' : St) (path : List Nat) (inDel : Bool), allEL c.Src cs → Holds c.u s.root → allE c.P0 s.root →
        mergeSubgroups c.now tombs s path inDel cs = .ok s' → (allE c.P1 s.root ∨ c.u ∈ deepIds cs) → allE c.P1 s'.root
    | [], s, s', _, _, _, _, _, h, hv => by
      simp only [mergeSubgroups] at h
      injection h with h; subst h
      rcases hv with hv | hv
      · exact hv
      · simp [deepIds] at hv
    | .entry _ :: rest, s, s', path, inDel, hS, hH, hT, h, hv => by
      simp only [allEL] at hS
      unfold mergeSubgroups at h
      exact mergeSubgroups_lww c tombs rest s s' path inDel hS.2 hH hT h (by simpa only [deepIds] using hv)
    | .group ou oc ot ocs :: rest, s, s', path, inDel, hS, hH, hT, h, hv => by
      simp only [allEL] at hS
      have hog : allE c.Src (Node.group ou oc ot ocs) := hS.1
      have hS0 : allEL (SrcOk c.P0 c.u c.now) rest := allEL_mono _ _ (fun e he => c.srcOk0 e he) rest hS.2
      have hS1 : allEL (SrcOk c.P1 c.u c.now) rest := allEL_mono _ _ (fun e he => c.srcOk1 e he) rest hS.2
      unfold mergeSubgroups at h
      dsimp only at h
      have viaGroup : ∀ (s0 : St) (b : Bool), Holds c.u s0.root → allE c.P0 s0.root → (allE c.P1 s.root → allE c.P1 s0.root) →
          (do
            let s ← mergeGroup c.now tombs s0 (path ++ [ou]) (.group ou oc ot ocs) b
            mergeSubgroups c.now tombs s (refreshPath s.root path) inDel rest) = .ok s' → allE c.P1 s'.root := by
        intro s0 b hH0 hT0 h10 hk
        obtain ⟨s1, hs1, hk⟩ := except_bind_ok hk
        have hH1 := holds_group c.u c.now tombs _ s0 s1 _ b hH0 hs1
        have hvis : allE c.P1 s0.root ∨ c.u ∈ entryIdsL ocs ∨ c.u ∈ deepIds rest := by
          rcases hv with hv | hv
          · exact Or.inl (h10 hv)
          · simp only [deepIds, List.mem_append] at hv
            exact Or.inr hv
        rcases hvis with hv0 | hv0 | hv0
        · have := mergeGroup_allE c.P1 c.p1_locFree c.u c.now tombs _ s0 s1 _ b (c.src_ok1 _ hog) hH0 hv0 hs1
          exact mergeSubgroups_allE c.P1 c.p1_locFree c.u c.now tombs rest s1 s' _ inDel hS1 hH1 this hk
        · have := mergeGroup_lww c tombs (.group ou oc ot ocs) s0 s1 _ b hog hH0 hT0 hs1 (Or.inr (by simpa only [Node.children] using hv0))
          exact mergeSubgroups_allE c.P1 c.p1_locFree c.u c.now tombs rest s1 s' _ inDel hS1 hH1 this hk
        · have := mergeGroup_allE c.P0 c.p0_locFree c.u c.now tombs _ s0 s1 _ b (c.src_ok0 _ hog) hH0 hT0 hs1
          exact mergeSubgroups_lww c tombs rest s1 s' _ inDel hS.2 hH1 this hk (Or.inr hv0)
      split at h
      · exact viaGroup s true hH hT id h
      · split at h
        · split at h
          · split at h
            · obtain ⟨x, hx, h⟩ := except_bind_ok h
              cases hx
            · split at h
              · obtain ⟨s2, hs2, h⟩ := except_bind_ok h
                refine viaGroup _ inDel ?_ ?_ ?_ h
                · rw [ev_root]; exact holds_relocate c.u s s2 _ _ _ _ hH hs2
                · rw [ev_root]; exact relocate_allE c.P0 c.p0_locFree s s2 _ _ _ _ hT hs2
                · intro h1; rw [ev_root]; exact relocate_allE c.P1 c.p1_locFree s s2 _ _ _ _ h1 hs2
              · exact viaGroup s inDel hH hT id h
          · exact viaGroup s inDel hH hT id h
        · rename_i hloc
          split at h
          · obtain ⟨x, hx, h⟩ := except_bind_ok h
            cases hx
          · rename_i pg hfg
            rw [ev_root] at hfg
            refine viaGroup _ inDel ?_ ?_ ?_ h
            · exact holds_addGroup c.u s.root pg path ou oc ot hH hfg hloc
            · exact allE_addGroup c.P0 s.root path ou oc ot hT
            · intro h1; exact allE_addGroup c.P1 s.root path ou oc ot h1
end

/-! ### root, passes, deletions -/

theorem mergeRoot_allE (P : Entry → Prop) (now : Int) (s s' : St) (srcRoot : Node) (hr : s.root.isGroup = true) (hT : allE P s.root)
    (h : mergeRoot now s srcRoot = .ok s') : allE P s'.root := by
  have hc := mergeRoot_children now s s' srcRoot h
  have hg : s'.root.isGroup = true := by
    obtain ⟨root, ev⟩ := s
    cases root with
    | entry e => cases hr
    | group du dc dt ch =>
      cases srcRoot with
      | entry e => simp only [mergeRoot] at h; injection h with h; subst h; rfl
      | group su sc st sch =>
        simp only [mergeRoot] at h
        split at h
        · obtain ⟨x, hx, h⟩ := except_bind_ok h
          obtain ⟨c', t', upd⟩ := x
          dsimp only at h
          injection h with h; subst h
          split <;> rfl
        · injection h with h; subst h; rfl
  have := allE_children P s.root hr hT
  rw [← hc] at this
  cases hs' : s'.root with
  | entry e => rw [hs'] at hg; cases hg
  | group u c t ch => rw [hs'] at this; simpa only [allE, Node.children] using this

theorem holds_mergeRoot (u : Nat) (now : Int) (s s' : St) (srcRoot : Node) (hH : Holds u s.root)
    (h : mergeRoot now s srcRoot = .ok s') : Holds u s'.root :=
  ⟨mergeRoot_inv now s s' srcRoot hH.1 h, by rw [mergeRoot_children now s s' srcRoot h]; exact hH.2⟩

theorem mergePasses_allE (P : Entry → Prop) (hP : LocFree P) (u : Nat) (now : Int) (tombs : List Tomb) (srcRoot : Node)
    (hS : allE (SrcOk P u now) srcRoot) : ∀ (k : Nat) (s s' : St), Holds u s.root → allE P s.root →
      mergePasses now tombs srcRoot k s = .ok s' → allE P s'.root ∧ Holds u s'.root := by
  intro k
  induction k with
  | zero => intro s s' hH hT h; simp only [mergePasses] at h; injection h with h; subst h; exact ⟨hT, hH⟩
  | succ k ih =>
    intro s s' hH hT h
    unfold mergePasses at h
    split at h
    · cases h
    · rename_i s1 hs1
      have hH1 : Holds u s1.root := holds_group u now tombs srcRoot { s with events := [] } s1 [] false hH hs1
      have hT1 : allE P s1.root := mergeGroup_allE P hP u now tombs srcRoot { s with events := [] } s1 [] false hS hH hT hs1
      dsimp only at h
      split at h
      · injection h with h; subst h; exact ⟨hT1, hH1⟩
      · exact ih _ s' (show Holds u ({ s1 with events := s.events ++ s1.events } : St).root from hH1)
          (show allE P ({ s1 with events := s.events ++ s1.events } : St).root from hT1) h

/-- at least one pass runs, and the first pass visits the followed entry -/
theorem mergePasses_lww (c : Track) (tombs : List Tomb) (srcRoot : Node) (hS : allE c.Src srcRoot)
    (hv : c.u ∈ entryIdsL srcRoot.children) (k : Nat) (s s' : St) (hH : Holds c.u s.root) (hT : allE c.P0 s.root)
    (h : mergePasses c.now tombs srcRoot (k + 1) s = .ok s') : allE c.P1 s'.root ∧ Holds c.u s'.root := by
  unfold mergePasses at h
  split at h
  · cases h
  · rename_i s1 hs1
    have hH1 : Holds c.u s1.root := holds_group c.u c.now tombs srcRoot { s with events := [] } s1 [] false hH hs1
    have hT1 : allE c.P1 s1.root := mergeGroup_lww c tombs srcRoot { s with events := [] } s1 [] false hS hH hT hs1 (Or.inr hv)
    dsimp only at h
    split at h
    · injection h with h; subst h; exact ⟨hT1, hH1⟩
    · exact mergePasses_allE c.P1 c.p1_locFree c.u c.now tombs srcRoot (c.src_ok1 _ hS) k _ s'
        (show Holds c.u ({ s1 with events := s.events ++ s1.events } : St).root from hH1)
        (show allE c.P1 ({ s1 with events := s.events ++ s1.events } : St).root from hT1) h

theorem remove_step_allE (P : Entry → Prop) (root parent parent' last : Node) (loc : List Nat) (u : Nat)
    (hT : allE P root) (h3 : findGroup root loc = some parent) (h9 : removeNode parent u = some (parent', last)) :
    allE P (updatePath root loc (fun _ => parent')) := by
  obtain ⟨gp, gpg⟩ := findGroup_some h3
  obtain ⟨_, _, hp'⟩ := removeNode_facts parent parent' last u h9
  have hpt := allE_getPath P loc root parent hT gp
  have hp't : allE P parent' := by
    rw [hp']; exact allE_setChildren P parent _ gpg (allEL_filter P _ _ (allE_children P parent gpg hpt))
  exact allE_updatePath P _ (fun _ _ => hp't) loc root hT

theorem deleteEntries_allE (P : Entry → Prop) (now : Int) : ∀ (ts : List Tomb) (s : St) (nt : List Tomb) (s' : St) (nt' : List Tomb),
    allE P s.root → deleteEntries now s nt ts = .ok (s', nt') → allE P s'.root := by
  intro ts
  induction ts with
  | nil =>
    intro s nt s' nt' hT h
    simp only [deleteEntries, Except.ok.injEq, Prod.mk.injEq] at h
    obtain ⟨rfl, _⟩ := h
    exact hT
  | cons d rest ih =>
    intro s nt s' nt' hT h
    unfold deleteEntries at h
    split at h
    · exact ih s nt s' nt' hT h
    · split at h
      · exact ih s nt s' nt' hT h
      · rename_i loc hloc
        split at h
        · cases h
        · rename_i parent h3
          split at h
          · exact ih s nt s' nt' hT h
          · split at h
            · split at h
              · cases h
              · rename_i parent' last h9
                exact ih _ _ s' nt' (by rw [ev_root]; exact remove_step_allE P s.root parent parent' last loc d.uuid hT h3 h9) h
            · exact ih s nt s' nt' hT h

theorem gdecide_delete_allE (P : Entry → Prop) (now : Int) (s : St) (nt : List Tomb) (d : Tomb) (q : List Tomb) (s' : St) (nt' : List Tomb)
    (hT : allE P s.root) (h : gdecide now s nt d q = .delete s' nt') : allE P s'.root := by
  unfold gdecide at h
  split at h
  · cases h
  · split at h
    · cases h
    · rename_i loc hloc
      split at h
      · cases h
      · rename_i parent h3
        split at h
        · cases h
        · dsimp only at h
          split at h
          · cases h
          · split at h
            · cases h
            · split at h
              · cases h
              · split at h
                · split at h
                  · cases h
                  · rename_i parent' last h9
                    injection h with h1 h2
                    subst h1
                    rw [ev_root]
                    exact remove_step_allE P s.root parent parent' last loc d.uuid hT h3 h9
                · cases h

theorem deleteGroups_allE (P : Entry → Prop) (now : Int) : ∀ (fuel : Nat) (s : St) (nt q : List Tomb) (s' : St) (nt' : List Tomb),
    allE P s.root → deleteGroups now fuel s nt q = .ok (s', nt') → allE P s'.root := by
  intro fuel
  induction fuel with
  | zero =>
    intro s nt q s' nt' hT h
    unfold deleteGroups at h
    split at h
    · injection h with h; injection h with h1 h2; subst h1; exact hT
    · cases h
  | succ n ih =>
    intro s nt q s' nt' hT h
    cases q with
    | nil =>
      unfold deleteGroups at h
      injection h with h; injection h with h1 h2; subst h1; exact hT
    | cons d q =>
      rw [deleteGroups_step] at h
      split at h
      · exact ih s nt q s' nt' hT h
      · exact ih s nt _ s' nt' hT h
      · rename_i s1 nt1 hdec
        exact ih s1 nt1 q s' nt' (gdecide_delete_allE P now s nt d q s1 nt1 hT hdec) h
      · cases h

/-! ### the whole merge -/

mutual
  theorem allE_true : ∀ (n : Node), allE (fun _ => True) n
    | .group _ _ _ cs => by simp only [allE]; exact allEL_true cs
    | .entry _ => trivial
  theorem allEL_true : ∀ (cs : List Node), allEL (fun _ => True) cs
    | [] => trivial
    | c :: cs => ⟨allE_true c, allEL_true cs⟩
end

/-- in a sound tree the entry a path designates is the only entry with its UUID -/
theorem allE_only (Q : Entry → Prop) (root : Node) (p : List Nat) (e : Entry) (hI : Inv root) (hg : getPath root p = some (.entry e))
    (hQ : Q e) : allE (fun x => x.d.uuid = e.d.uuid → Q x) root := by
  refine allE_at (fun _ => True) _ [e.d.uuid] (fun x _ hne hu => absurd (by simp [hu]) hne) p root _ hI.1 hI.2 hg ?_
    (allE_true root) (by simp only [allE]; exact fun _ => hQ)
  intro y hy
  simp only [List.mem_singleton] at hy
  subst hy
  simp [uuidsN]

theorem getPath_entryIds : ∀ (p : List Nat) (root : Node) (e : Entry), p ≠ [] → getPath root p = some (.entry e) →
    e.d.uuid ∈ entryIdsL root.children := by
  intro p
  induction p with
  | nil => intro _ _ h; exact absurd rfl h
  | cons u rest ih =>
    intro root e _ hg
    have memL : ∀ (cs : List Node) (c : Node), c ∈ cs → ∀ x ∈ entryIdsN c, x ∈ entryIdsL cs := by
      intro cs
      induction cs with
      | nil => intro c h; cases h
      | cons c0 cs ih2 =>
        intro c hc x hx
        simp only [entryIdsL, List.mem_append]
        rcases List.mem_cons.mp hc with rfl | hc
        · exact Or.inl hx
        · exact Or.inr (ih2 c hc x hx)
    cases rest with
    | nil =>
      simp only [getPath] at hg
      exact memL _ _ (find_first hg).1 _ (by simp [entryIdsN])
    | cons v rest' =>
      simp only [getPath] at hg
      cases hc : root.children.find? (fun n => n.isGroup && n.uuid == u) with
      | none => rw [hc] at hg; cases hg
      | some c =>
        rw [hc] at hg
        simp only at hg
        have := ih c e (by simp) hg
        refine memL _ c (find_first hc).1 _ ?_
        cases c with
        | entry _ => simp [Node.children, entryIdsL] at this
        | group _ _ _ ccs => simpa only [entryIdsN, Node.children] using this

/-- the whole merge establishes `P1` for every entry of the result -/
theorem merge_track (c : Track) (dst src d' : Db) (evs : List Event) (hH0 : Holds c.u dst.root) (hT0 : allE c.P0 dst.root)
    (hS : allE c.Src src.root) (hv : c.u ∈ entryIdsL src.root.children) (h : merge c.now dst src = .ok (d', evs)) :
    allE c.P1 d'.root := by
  unfold merge at h
  dsimp only at h
  obtain ⟨s1, hs1, h⟩ := except_bind_ok h
  have hH1 := holds_mergeRoot c.u c.now _ s1 src.root hH0 hs1
  have hT1 := mergeRoot_allE c.P0 c.now _ s1 src.root hH0.1.1 hT0 hs1
  obtain ⟨s2, hs2, h⟩ := except_bind_ok h
  obtain ⟨hT2, hH2⟩ := mergePasses_lww c dst.tombs src.root hS hv _ s1 s2 hH1 hT1 hs2
  obtain ⟨x, hx, h⟩ := except_bind_ok h
  obtain ⟨s3, tombs⟩ := x
  dsimp only at h
  injection h with h; injection h with h1 h2
  subst h1
  simp only
  unfold mergeDeletions at hx
  obtain ⟨r, hr4, hx⟩ := except_bind_ok hx
  obtain ⟨s4, nt4⟩ := r
  have hT4 := deleteEntries_allE c.P1 c.now src.tombs s2 dst.tombs s4 nt4 hT2 hr4
  exact deleteGroups_allE c.P1 c.now _ s4 nt4 _ s3 tombs hT4 hx

/-- the same with the state the entry is left in: the destination's version or the source's, content and modification time -/
theorem merge_entry_lww_state (now : Int) (dst src d' : Db) (evs : List Event) (hI : Inv dst.root) (hIs : Inv src.root)
    (h : merge now dst src = .ok (d', evs))
    (pd ps pr : List Nat) (de se e' : Entry)
    (hd : findEntry dst.root pd = some de) (hs : findEntry src.root ps = some se) (hu : de.d.uuid = se.d.uuid)
    (hr : findEntry d'.root pr = some e') (hu' : e'.d.uuid = se.d.uuid) :
    ((e'.d.content = de.d.content ∧ e'.d.times.mtime = de.d.times.mtime)
      ∨ (e'.d.content = se.d.content ∧ e'.d.times.mtime = se.d.times.mtime))
    ∧ e'.d.content = (if de.d.times.mtime.getD now ≥ se.d.times.mtime.getD 0 then de.d.content else se.d.content) := by
  let c : Lww := ⟨se.d.uuid, de.d.content, de.d.times.mtime, se.d.content, se.d.times.mtime, now⟩
  have hgd := findEntry_some hd
  have hgs := findEntry_some hs
  have hpd : pd ≠ [] := by
    intro e; subst e
    simp only [getPath, Option.some.injEq] at hgd
    have := hI.1; rw [hgd] at this; cases this
  have hps : ps ≠ [] := by
    intro e; subst e
    simp only [getPath, Option.some.injEq] at hgs
    have := hIs.1; rw [hgs] at this; cases this
  have hT0 : allE c.P0 dst.root := by
    have := allE_only (fun x => c.Orig x) dst.root pd de hI hgd ⟨rfl, rfl⟩
    exact allE_mono _ _ (fun x hx hxu => Or.inl (hx (hxu.trans hu.symm))) _ this
  have hS : allE c.Src src.root := allE_only (fun x => x.d.content = c.sc ∧ x.d.times.mtime = c.smt) src.root ps se hIs hgs ⟨rfl, rfl⟩
  have hH0 : Holds c.u dst.root := by
    refine ⟨hI, ?_⟩
    have := getPath_uuids pd dst.root _ hpd hgd de.d.uuid (by simp [uuidsN])
    show se.d.uuid ∈ uuidsL dst.root.children
    rw [← hu]; exact this
  have hv : c.u ∈ entryIdsL src.root.children := getPath_entryIds ps src.root se hps hgs
  have hT3 := merge_track c.track dst src d' evs hH0 hT0 hS hv h
  have := allE_getPath c.P1 pr d'.root _ hT3 (findEntry_some hr)
  simp only [allE] at this
  obtain ⟨hst, hc⟩ := this hu'
  refine ⟨?_, hc⟩
  rcases hst with ⟨a, b⟩ | ⟨a, b, _⟩
  · exact Or.inl ⟨a, b⟩
  · exact Or.inr ⟨a, b⟩

/-- **last writer wins, for the whole merge**: an entry that the destination and the source both hold has, in the result of the
    merge, the content of the destination's version unless the source's modification time is strictly later, in which case it
    has the source's.  (Wherever the entry ends up, and whatever else the merge did.) -/
theorem merge_entry_lww (now : Int) (dst src d' : Db) (evs : List Event) (hI : Inv dst.root) (hIs : Inv src.root)
    (h : merge now dst src = .ok (d', evs))
    (pd ps pr : List Nat) (de se e' : Entry)
    (hd : findEntry dst.root pd = some de) (hs : findEntry src.root ps = some se) (hu : de.d.uuid = se.d.uuid)
    (hr : findEntry d'.root pr = some e') (hu' : e'.d.uuid = se.d.uuid) :
    e'.d.content = if de.d.times.mtime.getD now ≥ se.d.times.mtime.getD 0 then de.d.content else se.d.content :=
  (merge_entry_lww_state now dst src d' evs hI hIs h pd ps pr de se e' hd hs hu hr hu').2
