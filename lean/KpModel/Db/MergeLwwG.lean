import KpModel.Db.MergeLww
/-!
# Last writer wins for groups, for the whole merge

The counterpart of `MergeLww` for a group's own data (name, notes, icon, settings: the opaque `content`; and its time stamps).
`allG P` says that every group of a subtree (the node itself included) satisfies `P uuid content times`.
-/
namespace Kp.Merge
open Node

abbrev GP := Nat → Nat → Times → Prop

mutual
  def allG (P : GP) : Node → Prop
    | .group u c t cs => P u c t ∧ allGL P cs
    | .entry _ => True
  def allGL (P : GP) : List Node → Prop
    | [] => True
    | c :: cs => allG P c ∧ allGL P cs
end

theorem allGL_mem (P : GP) : ∀ (cs : List Node) (c : Node), allGL P cs → c ∈ cs → allG P c := by
  intro cs
  induction cs with
  | nil => intro c _ h; cases h
  | cons c0 cs ih =>
    intro c ht hc
    simp only [allGL] at ht
    rcases List.mem_cons.mp hc with rfl | h
    · exact ht.1
    · exact ih c ht.2 h

theorem allGL_append (P : GP) (a b : List Node) : allGL P (a ++ b) ↔ allGL P a ∧ allGL P b := by
  induction a with
  | nil => simp [allGL]
  | cons c cs ih => simp [allGL, ih, and_assoc]

theorem allGL_filter (P : GP) (p : Node → Bool) : ∀ (cs : List Node), allGL P cs → allGL P (cs.filter p) := by
  intro cs
  induction cs with
  | nil => intro h; exact h
  | cons c cs ih =>
    intro h
    simp only [allGL] at h
    simp only [List.filter_cons]
    split
    · exact ⟨h.1, ih h.2⟩
    · exact ih h.2

theorem allGL_updFirst (P : GP) (p : Node → Bool) (f : Node → Node) (hf : ∀ n, allG P n → allG P (f n)) :
    ∀ (cs : List Node), allGL P cs → allGL P (updFirst p f cs) := by
  intro cs
  induction cs with
  | nil => intro h; exact h
  | cons c cs ih =>
    intro h
    simp only [allGL] at h
    simp only [updFirst]
    split
    · exact ⟨hf c h.1, h.2⟩
    · exact ⟨h.1, ih h.2⟩

theorem allG_children (P : GP) (g : Node) (h : allG P g) : allGL P g.children := by
  cases g with
  | group u c t cs => simp only [allG] at h; exact h.2
  | entry e => simp [Node.children, allGL]

/-- replacing the children keeps the group's own data -/
theorem allG_setChildren (P : GP) (g : Node) (cs : List Node) (hg : allG P g) (hcs : allGL P cs) : allG P (g.setChildren cs) := by
  cases g with
  | group u c t ch => simp only [allG] at hg; exact ⟨hg.1, hcs⟩
  | entry e => trivial

/-- the same when only the group's own data is known to satisfy another predicate -/
theorem allG_setChildren_own (P Q : GP) (g : Node) (cs : List Node) (hg : allG P g)
    (hown : ∀ u c t, P u c t → g.uuid = u → Q u c t) (hcs : allGL Q cs) : allG Q (g.setChildren cs) := by
  cases g with
  | group u c t ch => simp only [allG] at hg; exact ⟨hown u c t hg.1 rfl, hcs⟩
  | entry e => trivial

theorem allG_updatePath (P : GP) (f : Node → Node) (hf : ∀ n, allG P n → allG P (f n)) :
    ∀ (path : List Nat) (root : Node), allG P root → allG P (updatePath root path f) := by
  intro path
  induction path with
  | nil => intro root h; simp only [updatePath]; exact hf root h
  | cons u rest ih =>
    intro root h
    cases rest with
    | nil =>
      simp only [updatePath]
      exact allG_setChildren P root _ h (allGL_updFirst P _ f hf _ (allG_children P root h))
    | cons v rest' =>
      simp only [updatePath]
      exact allG_setChildren P root _ h (allGL_updFirst P _ _ (fun n hn => ih n hn) _ (allG_children P root h))

theorem allG_getPath (P : GP) : ∀ (path : List Nat) (root n : Node), allG P root → getPath root path = some n → allG P n := by
  intro path
  induction path with
  | nil => intro root n h hg; simp only [getPath, Option.some.injEq] at hg; subst hg; exact h
  | cons u rest ih =>
    intro root n h hg
    cases rest with
    | nil =>
      simp only [getPath] at hg
      exact allGL_mem P _ n (allG_children P root h) (find_first hg).1
    | cons v rest' =>
      simp only [getPath] at hg
      cases hc : root.children.find? (fun n => n.isGroup && n.uuid == u) with
      | none => rw [hc] at hg; cases hg
      | some c =>
        rw [hc] at hg
        simp only at hg
        exact ih c n (allGL_mem P _ c (allG_children P root h) (find_first hc).1) hg

/-- `P` does not look at the location-changed time -/
def LocFreeG (P : GP) : Prop := ∀ (u c : Nat) (t : Times) (ts : Int), P u c t → P u c { t with loc := some ts }

theorem allG_setLoc (P : GP) (hP : LocFreeG P) (n : Node) (ts : Int) (h : allG P n) : allG P (n.setLoc ts) := by
  cases n with
  | group u c t cs => simp only [Node.setLoc, allG] at h ⊢; exact ⟨hP u c t ts h.1, h.2⟩
  | entry e => trivial

mutual
  theorem allG_mono (P Q : GP) (hPQ : ∀ u c t, P u c t → Q u c t) : ∀ (n : Node), allG P n → allG Q n
    | .group u c t cs, h => by simp only [allG] at h ⊢; exact ⟨hPQ u c t h.1, allGL_mono P Q hPQ cs h.2⟩
    | .entry e, _ => trivial
  theorem allGL_mono (P Q : GP) (hPQ : ∀ u c t, P u c t → Q u c t) : ∀ (cs : List Node), allGL P cs → allGL Q cs
    | [], _ => trivial
    | c :: cs, h => by simp only [allGL] at h ⊢; exact ⟨allG_mono P Q hPQ c h.1, allGL_mono P Q hPQ cs h.2⟩
end

mutual
  theorem allG_disjoint (P Q : GP) (L : List Nat) (hPQ : ∀ u c t, P u c t → u ∉ L → Q u c t) :
      ∀ (n : Node), allG P n → (∀ x ∈ uuidsN n, x ∉ L) → allG Q n
    | .group u c t cs, h, hd => by
      simp only [allG] at h ⊢
      exact ⟨hPQ u c t h.1 (hd u (by simp [uuidsN])),
        allGL_disjoint P Q L hPQ cs h.2 (fun x hx => hd x (by simp only [uuidsN]; exact List.mem_cons_of_mem _ hx))⟩
    | .entry e, _, _ => trivial
  theorem allGL_disjoint (P Q : GP) (L : List Nat) (hPQ : ∀ u c t, P u c t → u ∉ L → Q u c t) :
      ∀ (cs : List Node), allGL P cs → (∀ x ∈ uuidsL cs, x ∉ L) → allGL Q cs
    | [], _, _ => trivial
    | c :: cs, h, hd => by
      simp only [allGL] at h ⊢
      exact ⟨allG_disjoint P Q L hPQ c h.1 (fun x hx => hd x (by simp only [uuidsL]; exact List.mem_append_left _ hx)),
        allGL_disjoint P Q L hPQ cs h.2 (fun x hx => hd x (by simp only [uuidsL]; exact List.mem_append_right _ hx))⟩
end

theorem allGL_updFirst_at (P Q : GP) (p : Node → Bool) (f : Node → Node) (L : List Nat)
    (hPQ : ∀ u c t, P u c t → u ∉ L → Q u c t) : ∀ (cs : List Node) (c : Node), (uuidsL cs).Nodup → cs.find? p = some c →
      (∀ x ∈ L, x ∈ uuidsN c) → allGL P cs → allG Q (f c) → allGL Q (updFirst p f cs) := by
  intro cs
  induction cs with
  | nil => intro c _ h; cases h
  | cons c0 cs ih =>
    intro c hn hf hL hP hQ
    obtain ⟨_, hn2, hdis⟩ := nodup_uuidsL_tail hn
    simp only [allGL] at hP
    simp only [updFirst]
    by_cases hp : p c0 = true
    · simp only [List.find?_cons, hp] at hf
      injection hf with hf; subst hf
      simp only [hp, ↓reduceIte, allGL]
      refine ⟨hQ, allGL_disjoint P Q L hPQ cs hP.2 (fun x hx hxl => ?_)⟩
      exact hdis x (hL x hxl) hx
    · have hp' : p c0 = false := by simpa using hp
      simp only [List.find?_cons, hp'] at hf
      simp only [hp', Bool.false_eq_true, ↓reduceIte, allGL]
      have hc := (find_first hf).1
      refine ⟨allG_disjoint P Q L hPQ c0 hP.1 (fun x hx hxl => ?_), ih c hn2 hf hL hP.2 hQ⟩
      exact hdis x hx (uuidsL_mem_of_mem cs c hc x (hL x hxl))

/-- the positional update below a group whose own UUID is outside `L` -/
theorem allG_updatePath_at (P Q : GP) (f : Node → Node) (L : List Nat) (hPQ : ∀ u c t, P u c t → u ∉ L → Q u c t) :
    ∀ (path : List Nat) (root n : Node), path ≠ [] → root.isGroup = true → (uuidsL root.children).Nodup → root.uuid ∉ L →
      getPath root path = some n → (∀ x ∈ L, x ∈ uuidsN n) → allG P root → allG Q (f n) →
      allG Q (updatePath root path f) := by
  intro path
  induction path with
  | nil => intro root n h; exact absurd rfl h
  | cons u rest ih =>
    intro root n _ hr hn hru hg hL hP hQ
    have hown : ∀ u c t, P u c t → root.uuid = u → Q u c t := fun u c t h e => hPQ u c t h (e ▸ hru)
    cases rest with
    | nil =>
      simp only [getPath] at hg
      simp only [updatePath]
      exact allG_setChildren_own P Q root _ hP hown (allGL_updFirst_at P Q _ f L hPQ _ n hn hg hL (allG_children P root hP) hQ)
    | cons v rest' =>
      simp only [getPath] at hg
      simp only [updatePath]
      cases hc : root.children.find? (fun n => n.isGroup && n.uuid == u) with
      | none => rw [hc] at hg; cases hg
      | some c =>
        rw [hc] at hg
        simp only at hg
        have ⟨hcm, hcp⟩ := find_first hc
        have hcg : c.isGroup = true := by
          simp only [Bool.and_eq_true] at hcp; exact hcp.1
        have hsubc : (uuidsN n).Sublist (uuidsL c.children) := getPath_sublist_children v rest' c n hcg hg
        have hcn : (uuidsL c.children).Nodup ∧ c.uuid ∉ uuidsL c.children := by
          cases c with
          | entry e => cases hcg
          | group cu cc ct ccs => exact nodup_children_of_mem _ cu cc ct ccs hn hcm
        have hcu : c.uuid ∉ L := fun hx => hcn.2 (hsubc.subset (hL _ hx))
        have hsub : ∀ x ∈ L, x ∈ uuidsN c := fun x hx => (getPath_sublist _ c n hcg hg).subset (hL x hx)
        refine allG_setChildren_own P Q root _ hP hown (allGL_updFirst_at P Q _ _ L hPQ _ c hn hc hsub (allG_children P root hP) ?_)
        exact ih c n (by simp) hcg hcn.1 hcu hg hL (allGL_mem P _ c (allG_children P root hP) hcm) hQ

/-- nothing with the UUID `u` is below the root, and the root is not `u` -/
theorem allG_absent (P Q : GP) (u : Nat) (hPQ : ∀ x c t, P x c t → x ≠ u → Q x c t) (root : Node)
    (hru : root.uuid ≠ u) (hu : u ∉ uuidsL root.children) (hP : allG P root) : allG Q root := by
  cases root with
  | entry e => trivial
  | group ru rc rt cs =>
    simp only [allG] at hP ⊢
    simp only [Node.children] at hu
    refine ⟨hPQ ru rc rt hP.1 hru, allGL_disjoint P Q [u] (fun x c t h hne => hPQ x c t h (fun e => hne (by simp [e]))) cs hP.2 (fun x hx hxl => ?_)⟩
    simp only [List.mem_singleton] at hxl
    subst hxl; exact hu hx

/-- only the designated node is replaced -/
theorem allGL_updFirst_node (P : GP) (p : Node → Bool) (f : Node → Node) : ∀ (cs : List Node) (c : Node), cs.find? p = some c →
    allGL P cs → allG P (f c) → allGL P (updFirst p f cs) := by
  intro cs
  induction cs with
  | nil => intro c h; cases h
  | cons c0 cs ih =>
    intro c hf hP hQ
    simp only [allGL] at hP
    simp only [updFirst]
    by_cases hp : p c0 = true
    · simp only [List.find?_cons, hp] at hf
      injection hf with hf; subst hf
      simp only [hp, ↓reduceIte, allGL]
      exact ⟨hQ, hP.2⟩
    · have hp' : p c0 = false := by simpa using hp
      simp only [List.find?_cons, hp'] at hf
      simp only [hp', Bool.false_eq_true, ↓reduceIte, allGL]
      exact ⟨hP.1, ih c hf hP.2 hQ⟩

theorem allG_updatePath_node (P : GP) (f : Node → Node) : ∀ (path : List Nat) (root n : Node), getPath root path = some n →
    allG P root → allG P (f n) → allG P (updatePath root path f) := by
  intro path
  induction path with
  | nil =>
    intro root n hg _ hQ
    simp only [getPath, Option.some.injEq] at hg; subst hg
    simp only [updatePath]; exact hQ
  | cons u rest ih =>
    intro root n hg hP hQ
    cases rest with
    | nil =>
      simp only [getPath] at hg
      simp only [updatePath]
      exact allG_setChildren P root _ hP (allGL_updFirst_node P _ f _ n hg (allG_children P root hP) hQ)
    | cons v rest' =>
      simp only [getPath] at hg
      simp only [updatePath]
      cases hc : root.children.find? (fun n => n.isGroup && n.uuid == u) with
      | none => rw [hc] at hg; cases hg
      | some c =>
        rw [hc] at hg
        simp only at hg
        refine allG_setChildren P root _ hP (allGL_updFirst_node P _ _ _ c hc (allG_children P root hP) ?_)
        exact ih c n hg (allGL_mem P _ c (allG_children P root hP) (find_first hc).1) hQ

/-! ### relocation -/

theorem relocate_allG (P : GP) (hP : LocFreeG P) (s s' : St) (u : Nat) (fromP toP : List Nat) (ts : Int)
    (hT : allG P s.root) (h : relocate s u fromP toP ts = .ok s') : allG P s'.root := by
  unfold relocate at h
  cases hfg : findGroup s.root fromP with
  | none => rw [hfg] at h; cases h
  | some g =>
    rw [hfg] at h
    simp only at h
    cases hrm : removeNode g u with
    | none => rw [hrm] at h; cases h
    | some pr =>
      obtain ⟨g', node⟩ := pr
      rw [hrm] at h
      simp only at h
      cases hft : findGroup (updatePath s.root fromP (fun _ => g')) toP with
      | none => rw [hft] at h; cases h
      | some t =>
        rw [hft] at h
        simp only at h
        injection h with h
        subst h
        simp only
        have ⟨hgp, hgg⟩ := findGroup_some hfg
        have hgt := allG_getPath P fromP s.root g hT hgp
        obtain ⟨_, hnm, hg'⟩ := removeNode_facts g g' node u hrm
        have hg't : allG P g' := by
          rw [hg']; exact allG_setChildren P g _ hgt (allGL_filter P _ _ (allG_children P g hgt))
        have hnode : allG P node := allGL_mem P _ node (allG_children P g hgt) hnm
        have h1 : allG P (updatePath s.root fromP (fun _ => g')) := allG_updatePath P _ (fun _ _ => hg't) fromP s.root hT
        refine allG_updatePath P _ (fun n hn => ?_) toP _ h1
        exact allG_setChildren P n _ hn ((allGL_append P _ _).mpr ⟨allG_children P n hn, ⟨allG_setLoc P hP node ts hnode, trivial⟩⟩)

/-- the standing facts while a group is followed: the tree is sound, holds the UUID below the root, and the root is another node -/
def HoldsG (u : Nat) (r : Node) : Prop := Holds u r ∧ r.uuid ≠ u

theorem holdsG_entryStep (u : Nat) (now : Int) (tombs : List Tomb) (s s' : St) (path : List Nat) (inDel : Bool) (oe : Entry)
    (hH : HoldsG u s.root) (h : mergeEntryStep now tombs s path inDel oe = .ok s') : HoldsG u s'.root :=
  ⟨holds_entryStep u now tombs s s' path inDel oe hH.1 h, by rw [mergeEntryStep_uuid now tombs s s' path inDel oe hH.1.1 h]; exact hH.2⟩

theorem holdsG_entries (u : Nat) (now : Int) (tombs : List Tomb) (cs : List Node) (s s' : St) (path : List Nat) (inDel : Bool)
    (hH : HoldsG u s.root) (h : mergeEntries now tombs s path inDel cs = .ok s') : HoldsG u s'.root :=
  ⟨holds_entries u now tombs cs s s' path inDel hH.1 h, by rw [mergeEntries_uuid now tombs cs s s' path inDel hH.1.1 h]; exact hH.2⟩

theorem holdsG_subgroups (u : Nat) (now : Int) (tombs : List Tomb) (cs : List Node) (s s' : St) (path : List Nat) (inDel : Bool)
    (hH : HoldsG u s.root) (h : mergeSubgroups now tombs s path inDel cs = .ok s') : HoldsG u s'.root :=
  ⟨holds_subgroups u now tombs cs s s' path inDel hH.1 h, by rw [mergeSubgroups_uuid now tombs cs s s' path inDel hH.1.1 h]; exact hH.2⟩

theorem holdsG_group (u : Nat) (now : Int) (tombs : List Tomb) (g : Node) (s s' : St) (path : List Nat) (inDel : Bool)
    (hH : HoldsG u s.root) (h : mergeGroup now tombs s path g inDel = .ok s') : HoldsG u s'.root :=
  ⟨holds_group u now tombs g s s' path inDel hH.1 h, by rw [mergeGroup_uuid now tombs g s s' path inDel hH.1.1 h]; exact hH.2⟩

theorem holdsG_relocate (u : Nat) (s s' : St) (x : Nat) (a b : List Nat) (ts : Int) (hH : HoldsG u s.root)
    (h : relocate s x a b ts = .ok s') : HoldsG u s'.root :=
  ⟨holds_relocate u s s' x a b ts hH.1 h, by rw [relocate_uuid s s' x a b ts hH.1.1 h]; exact hH.2⟩

theorem holdsG_groupData (u : Nat) (root : Node) (p : List Nat) (du dc : Nat) (dt : Times) (dch : List Node) (c' : Nat) (t' : Times)
    (hH : HoldsG u root) (hp : p ≠ []) (hfg : findGroup root p = some (.group du dc dt dch)) :
    HoldsG u (updatePath root p (fun n => match n with
      | .group u _ _ ch => .group u c' t' ch
      | e => e)) :=
  ⟨holds_groupData u root p du dc dt dch c' t' hH.1 hp hfg, by
    rw [updatePath_root_uuid root p _ hH.1.1.1 (fun e => absurd e hp)]; exact hH.2⟩

theorem holdsG_addGroup (u : Nat) (root pg : Node) (path : List Nat) (ou oc : Nat) (ot : Times) (hH : HoldsG u root)
    (hfg : findGroup root path = some pg) (hloc : findLoc root ou = none) :
    HoldsG u (updatePath root path (fun p => p.setChildren (p.children ++ [Node.group ou oc ot []]))) :=
  ⟨holds_addGroup u root pg path ou oc ot hH.1 hfg hloc, by
    rw [updatePath_root_uuid root path (fun p => p.setChildren (p.children ++ [Node.group ou oc ot []])) hH.1.1.1
      (fun _ => setChildren_uuid _ _)]; exact hH.2⟩

/-- the moved node is the only one with its UUID -/
theorem relocate_allG_moved (P Q : GP) (s s' : St) (u : Nat) (fromP toP : List Nat) (ts : Int)
    (hPQ : ∀ x c t, P x c t → x ≠ u → Q x c t) (hH : HoldsG u s.root) (hT : allG P s.root)
    (hmv : ∀ n, getPath s.root (fromP ++ [u]) = some n → allG Q (n.setLoc ts))
    (h : relocate s u fromP toP ts = .ok s') : allG Q s'.root := by
  have hI := hH.1.1
  unfold relocate at h
  cases hfg : findGroup s.root fromP with
  | none => rw [hfg] at h; cases h
  | some g =>
    rw [hfg] at h
    simp only at h
    cases hrm : removeNode g u with
    | none => rw [hrm] at h; cases h
    | some pr =>
      obtain ⟨g', node⟩ := pr
      rw [hrm] at h
      simp only at h
      cases hft : findGroup (updatePath s.root fromP (fun _ => g')) toP with
      | none => rw [hft] at h; cases h
      | some t =>
        rw [hft] at h
        simp only at h
        injection h with h
        subst h
        simp only
        have ⟨hgp, hgg⟩ := findGroup_some hfg
        have hgt := allG_getPath P fromP s.root g hT hgp
        obtain ⟨hnu, hnm, hg'⟩ := removeNode_facts g g' node u hrm
        have hg't : allG P g' := by
          rw [hg']; exact allG_setChildren P g _ hgt (allGL_filter P _ _ (allG_children P g hgt))
        have h1 : allG P (updatePath s.root fromP (fun _ => g')) := allG_updatePath P _ (fun _ _ => hg't) fromP s.root hT
        obtain ⟨hg1, hperm⟩ := remove_perm s.root g g' node u fromP hI hfg hrm
        have hnd := hperm.nodup_iff.mp hI.2
        have hparts := List.nodup_append.mp hnd
        have hu : u ∉ uuidsL (updatePath s.root fromP (fun _ => g')).children := by
          intro hc
          exact hparts.2.2 u hc u (by rw [← hnu]; exact uuid_mem_uuidsN node) rfl
        have hru : (updatePath s.root fromP (fun _ => g')).uuid ≠ u := by
          rw [updatePath_root_uuid s.root fromP _ hI.1 (fun e => by
            subst e
            simp only [getPath, Option.some.injEq] at hgp
            rw [hg', setChildren_uuid, hgp])]
          exact hH.2
        have h2 : allG Q (updatePath s.root fromP (fun _ => g')) := allG_absent P Q u hPQ _ hru hu h1
        have hgn : getPath s.root (fromP ++ [u]) = some node := by
          have := getPath_child fromP s.root g node hI.2 hgp hgg hnm
          rwa [hnu] at this
        refine allG_updatePath Q _ (fun n hn => ?_) toP _ h2
        exact allG_setChildren Q n _ hn ((allGL_append Q _ _).mpr ⟨allG_children Q n hn, ⟨hmv node hgn, trivial⟩⟩)

/-! ### the passes keep a predicate over all groups -/

/-- the entry step does not touch any group's own data -/
theorem mergeEntryStep_allG (P : GP) (hP : LocFreeG P) (now : Int) (tombs : List Tomb) (s s' : St) (path : List Nat)
    (inDeleted : Bool) (oe : Entry) (hT : allG P s.root)
    (h : mergeEntryStep now tombs s path inDeleted oe = .ok s') : allG P s'.root := by
  unfold mergeEntryStep at h
  split at h
  · split at h
    · cases h
    · rename_i existing0 _
      have jp : ∀ (s1 : St) (eloc : List Nat) (existing : Entry) (s' : St), allG P s1.root →
          (do
            let upd ← entryUpdate now existing oe
            match upd with
              | none => pure s1
              | some merged =>
                match findEntry s1.root eloc with
                | none => Except.error MErr.findEntry
                | some _ =>
                  pure ({ s1 with root := updatePath s1.root eloc (fun _ => Node.entry merged) }.ev .entryUpdated merged.d.uuid)) = .ok s' →
          allG P s'.root := by
        intro s1 eloc existing s'' hT1 hk
        obtain ⟨upd, _, hk⟩ := except_bind_ok hk
        cases upd with
        | none => simp only at hk; injection hk with hk; subst hk; exact hT1
        | some merged =>
          simp only at hk
          split at hk
          · cases hk
          · injection hk with hk; subst hk
            rw [ev_root]
            exact allG_updatePath P (fun _ => Node.entry merged) (fun _ _ => trivial) eloc s1.root hT1
      dsimp only at h
      split at h
      · split at h
        · obtain ⟨s2, hs2, h⟩ := except_bind_ok h
          obtain ⟨x, hx, h⟩ := except_bind_ok h
          cases hx
          exact jp s2 _ _ s' (relocate_allG P hP _ s2 _ _ _ _ (by rw [ev_root]; exact hT) hs2) h
        · obtain ⟨x, hx, h⟩ := except_bind_ok h
          cases hx
          exact jp s _ _ s' hT h
      · obtain ⟨x, hx, h⟩ := except_bind_ok h
        cases hx
        exact jp s _ _ s' hT h
  · split at h
    · injection h with h; subst h; exact hT
    · split at h
      · injection h with h; subst h; exact hT
      · split at h
        · cases h
        · injection h with h; subst h
          rw [ev_root]
          refine allG_updatePath P _ (fun n hn => ?_) path s.root hT
          exact allG_setChildren P n _ hn ((allGL_append P _ _).mpr ⟨allG_children P n hn, ⟨trivial, trivial⟩⟩)

/-- what a predicate needs of a source group: creating it is fine unless it is the UUID followed, and merging its data into a
    group that satisfies the predicate gives one that does -/
def SrcOkG (P : GP) (u : Nat) (now : Int) (su sc : Nat) (st : Times) : Prop :=
  (su ≠ u → P su sc st) ∧ ∀ dc dt c' t' upd, P su dc dt → groupMergeData now su dc dt su sc st = .ok (c', t', upd) → P su c' t'

mutual
  theorem mergeGroup_allG (P : GP) (hP : LocFreeG P) (u : Nat) (now : Int) (tombs : List Tomb) :
      ∀ (g : Node) (s s' : St) (path : List Nat) (inDel : Bool), allG (SrcOkG P u now) g → HoldsG u s.root → allG P s.root →
        mergeGroup now tombs s path g inDel = .ok s' → allG P s'.root
    | .entry _, s, s', _, _, _, _, hT, h => by
      simp only [mergeGroup] at h
      injection h with h; subst h; exact hT
    | .group gu gc gt cs, s, s', path, inDel, hS, hH, hT, h => by
      simp only [allG] at hS
      unfold mergeGroup at h
      dsimp only at h
      have jp : ∀ (s1 : St) (p1 : List Nat), HoldsG u s1.root → allG P s1.root →
          (do
            let s ← mergeEntries now tombs s1 p1 inDel cs
            mergeSubgroups now tombs s p1 inDel cs) = .ok s' → allG P s'.root := by
        intro s1 p1 hH1 hT1 hk
        obtain ⟨s2, hs2, hk⟩ := except_bind_ok hk
        exact mergeSubgroups_allG P hP u now tombs cs s2 s' p1 inDel hS.2 (holdsG_entries u now tombs cs s1 s2 p1 inDel hH1 hs2)
          (mergeEntries_allG P hP u now tombs cs s1 s2 p1 inDel hT1 hs2) hk
      split at h
      · obtain ⟨x, hx, h⟩ := except_bind_ok h
        cases hx
        exact jp s path hH hT h
      · rename_i dloc hloc
        split at h
        · obtain ⟨x, hx, h⟩ := except_bind_ok h
          cases hx
        · rename_i du dc dt dch hfg
          obtain ⟨x, hx, h⟩ := except_bind_ok h
          obtain ⟨c', t', upd⟩ := x
          dsimp only at h
          obtain ⟨y, hy, h⟩ := except_bind_ok h
          cases hy
          have hgp := (findGroup_some hfg).1
          have hdu : du = gu := getPath_last_uuid dloc s.root _ gu hgp
          have hH' := holdsG_groupData u s.root (dloc ++ [gu]) du dc dt dch c' t' hH (by simp) hfg
          have hn := allG_getPath P _ s.root _ hT hgp
          simp only [allG] at hn
          have hnew : P du c' t' := by
            subst hdu
            exact hS.1.2 dc dt c' t' upd hn.1 hx
          have hT' : allG P (updatePath s.root (dloc ++ [gu]) (fun n => match n with
              | .group u _ _ ch => .group u c' t' ch
              | e => e)) := by
            refine allG_updatePath_node P _ (dloc ++ [gu]) s.root (.group du dc dt dch) hgp hT ?_
            simp only [allG]
            exact ⟨hnew, hn.2⟩
          refine jp _ _ ?_ ?_ h
          · split
            · rw [ev_root]; exact hH'
            · exact hH'
          · split
            · rw [ev_root]; exact hT'
            · exact hT'
        · obtain ⟨x, hx, h⟩ := except_bind_ok h
          cases hx

  theorem mergeEntries_allG (P : GP) (hP : LocFreeG P) (u : Nat) (now : Int) (tombs : List Tomb) :
      ∀ (cs : List Node) (s s' : St) (path : List Nat) (inDel : Bool), allG P s.root →
        mergeEntries now tombs s path inDel cs = .ok s' → allG P s'.root
    | [], s, s', _, _, hT, h => by
      simp only [mergeEntries] at h
      injection h with h; subst h; exact hT
    | .entry e :: rest, s, s', path, inDel, hT, h => by
      unfold mergeEntries at h
      obtain ⟨s1, hs1, h⟩ := except_bind_ok h
      exact mergeEntries_allG P hP u now tombs rest s1 s' path inDel (mergeEntryStep_allG P hP now tombs s s1 path inDel e hT hs1) h
    | .group _ _ _ _ :: rest, s, s', path, inDel, hT, h => by
      unfold mergeEntries at h
      exact mergeEntries_allG P hP u now tombs rest s s' path inDel hT h

  theorem mergeSubgroups_allG (P : GP) (hP : LocFreeG P) (u : Nat) (now : Int) (tombs : List Tomb) :
      ∀ (cs : List Node) (s s' : St) (path : List Nat) (inDel : Bool), allGL (SrcOkG P u now) cs → HoldsG u s.root → allG P s.root →
        mergeSubgroups now tombs s path inDel cs = .ok s' → allG P s'.root
    | [], s, s', _, _, _, _, hT, h => by
      simp only [mergeSubgroups] at h
      injection h with h; subst h; exact hT
    | .entry _ :: rest, s, s', path, inDel, hS, hH, hT, h => by
      simp only [allGL] at hS
      unfold mergeSubgroups at h
      exact mergeSubgroups_allG P hP u now tombs rest s s' path inDel hS.2 hH hT h
    | .group ou oc ot ocs :: rest, s, s', path, inDel, hS, hH, hT, h => by
      simp only [allGL] at hS
      have hog : allG (SrcOkG P u now) (Node.group ou oc ot ocs) := hS.1
      unfold mergeSubgroups at h
      dsimp only at h
      have viaGroup : ∀ (s0 : St) (b : Bool), HoldsG u s0.root → allG P s0.root →
          (do
            let s ← mergeGroup now tombs s0 (path ++ [ou]) (.group ou oc ot ocs) b
            mergeSubgroups now tombs s (refreshPath s.root path) inDel rest) = .ok s' → allG P s'.root := by
        intro s0 b hH0 hT0 hk
        obtain ⟨s1, hs1, hk⟩ := except_bind_ok hk
        exact mergeSubgroups_allG P hP u now tombs rest s1 s' _ inDel hS.2
          (holdsG_group u now tombs _ s0 s1 _ b hH0 hs1)
          (mergeGroup_allG P hP u now tombs (.group ou oc ot ocs) s0 s1 _ b hog hH0 hT0 hs1) hk
      split at h
      · exact viaGroup s true hH hT h
      · split at h
        · split at h
          · split at h
            · obtain ⟨x, hx, h⟩ := except_bind_ok h
              cases hx
            · split at h
              · obtain ⟨s2, hs2, h⟩ := except_bind_ok h
                refine viaGroup _ inDel ?_ ?_ h
                · rw [ev_root]; exact holdsG_relocate u s s2 _ _ _ _ hH hs2
                · rw [ev_root]; exact relocate_allG P hP s s2 _ _ _ _ hT hs2
              · exact viaGroup s inDel hH hT h
          · exact viaGroup s inDel hH hT h
        · rename_i hloc
          split at h
          · obtain ⟨x, hx, h⟩ := except_bind_ok h
            cases hx
          · rename_i pg hfg
            rw [ev_root] at hfg
            refine viaGroup _ inDel ?_ ?_ h
            · exact holdsG_addGroup u s.root pg path ou oc ot hH hfg hloc
            · rw [ev_root]
              refine allG_updatePath P _ (fun n hn => ?_) path s.root hT
              simp only [allG] at hog
              have hne : ou ≠ u := fun e => findLoc_none_notMem s.root _ hloc (e ▸ hH.1.2)
              exact allG_setChildren P n _ hn ((allGL_append P _ _).mpr ⟨allG_children P n hn, ⟨⟨hog.1.1 hne, trivial⟩, trivial⟩⟩)
end

/-! ### one group followed through the merge -/

theorem groupMergeData_cases (now : Int) (du dc : Nat) (dt : Times) (su sc : Nat) (st : Times)
    (c' : Nat) (t' : Times) (upd : Bool) (h : groupMergeData now du dc dt su sc st = .ok (c', t', upd)) :
    (dt.mtime.getD now ≥ st.mtime.getD 0 ∧ c' = dc ∧ t' = dt)
    ∨ (dt.mtime.getD now < st.mtime.getD 0 ∧ c' = sc ∧ t'.mtime = st.mtime) := by
  unfold groupMergeData at h
  by_cases heq : (dt.mtime.getD now == st.mtime.getD 0) = true
  · simp only [heq, ↓reduceIte] at h
    have e : dt.mtime.getD now = st.mtime.getD 0 := by simpa using heq
    split at h
    · cases h
    · injection h with h; injection h with a b; injection b with b c
      exact Or.inl ⟨by omega, a.symm, b.symm⟩
  · simp only [heq, Bool.false_eq_true, ↓reduceIte] at h
    by_cases hgt : dt.mtime.getD now > st.mtime.getD 0
    · simp only [hgt, ↓reduceIte] at h
      injection h with h; injection h with a b; injection b with b c
      exact Or.inl ⟨by omega, a.symm, b.symm⟩
    · simp only [hgt, ↓reduceIte] at h
      injection h with h; injection h with a b; injection b with b c
      subst a; subst b
      have hne : dt.mtime.getD now ≠ st.mtime.getD 0 := by
        intro hc; apply heq; simp [hc]
      exact Or.inr ⟨by omega, rfl, rfl⟩

structure LwwG where
  u : Nat
  dc : Nat
  dmt : Option Int
  sc : Nat
  smt : Option Int
  now : Int

def LwwG.wc (c : LwwG) : Nat := if c.dmt.getD c.now ≥ c.smt.getD 0 then c.dc else c.sc
def LwwG.Orig (c : LwwG) (x : Nat) (t : Times) : Prop := x = c.dc ∧ t.mtime = c.dmt
def LwwG.Done (c : LwwG) (x : Nat) (t : Times) : Prop := x = c.sc ∧ t.mtime = c.smt ∧ c.sc = c.wc
def LwwG.P0 (c : LwwG) : GP := fun u x t => u = c.u → c.Orig x t ∨ c.Done x t
def LwwG.P1 (c : LwwG) : GP := fun u x t => u = c.u → (c.Orig x t ∨ c.Done x t) ∧ x = c.wc
def LwwG.Src (c : LwwG) : GP := fun u x t => u = c.u → x = c.sc ∧ t.mtime = c.smt

theorem LwwG.p0_locFree (c : LwwG) : LocFreeG c.P0 := fun _ _ _ _ h => h
theorem LwwG.p1_locFree (c : LwwG) : LocFreeG c.P1 := fun _ _ _ _ h => h
theorem LwwG.p1_p0 (c : LwwG) (u x : Nat) (t : Times) (h : c.P1 u x t) : c.P0 u x t := fun hu => (h hu).1

/-- merging the source's data into the followed group gives the winner -/
theorem LwwG.update (c : LwwG) (dc : Nat) (dt : Times) (sc : Nat) (st : Times) (c' : Nat) (t' : Times) (upd : Bool)
    (hs : c.Src c.u sc st) (h0 : c.P0 c.u dc dt) (h : groupMergeData c.now c.u dc dt c.u sc st = .ok (c', t', upd)) :
    c.P1 c.u c' t' := by
  intro _
  obtain ⟨hsc, hsm⟩ := hs rfl
  rcases groupMergeData_cases c.now c.u dc dt c.u sc st c' t' upd h with ⟨hge, hc, ht⟩ | ⟨hlt, hc, ht⟩
  · subst hc; subst ht
    rcases h0 rfl with ⟨oc, om⟩ | ⟨dc', dm', dw⟩
    · refine ⟨Or.inl ⟨oc, om⟩, ?_⟩
      rw [oc]
      unfold LwwG.wc
      rw [om, hsm] at hge
      rw [if_pos hge]
    · exact ⟨Or.inr ⟨dc', dm', dw⟩, by rw [dc', dw]⟩
  · rcases h0 rfl with ⟨oc, om⟩ | ⟨dc', dm', dw⟩
    · have hw : c.sc = c.wc := by
        unfold LwwG.wc
        rw [om, hsm] at hlt
        rw [if_neg (by omega)]
      exact ⟨Or.inr ⟨by rw [hc, hsc], by rw [ht, hsm], hw⟩, by rw [hc, hsc, hw]⟩
    · exact ⟨Or.inr ⟨by rw [hc, hsc], by rw [ht, hsm], dw⟩, by rw [hc, hsc, dw]⟩

theorem LwwG.srcOk0 (c : LwwG) (su sc : Nat) (st : Times) (hs : c.Src su sc st) : SrcOkG c.P0 c.u c.now su sc st := by
  refine ⟨fun hne hu => absurd hu hne, fun dc dt c' t' upd h0 hm => ?_⟩
  by_cases hsu : su = c.u
  · subst hsu
    exact c.p1_p0 _ _ _ (c.update dc dt sc st c' t' upd hs h0 hm)
  · exact fun hu => absurd hu hsu

theorem LwwG.srcOk1 (c : LwwG) (su sc : Nat) (st : Times) (hs : c.Src su sc st) : SrcOkG c.P1 c.u c.now su sc st := by
  refine ⟨fun hne hu => absurd hu hne, fun dc dt c' t' upd h1 hm => ?_⟩
  by_cases hsu : su = c.u
  · subst hsu
    exact c.update dc dt sc st c' t' upd hs (c.p1_p0 _ _ _ h1) hm
  · exact fun hu => absurd hu hsu

theorem LwwG.src_ok0 (c : LwwG) (g : Node) (h : allG c.Src g) : allG (SrcOkG c.P0 c.u c.now) g :=
  allG_mono _ _ (fun u x t he => c.srcOk0 u x t he) g h
theorem LwwG.src_ok1 (c : LwwG) (g : Node) (h : allG c.Src g) : allG (SrcOkG c.P1 c.u c.now) g :=
  allG_mono _ _ (fun u x t he => c.srcOk1 u x t he) g h
theorem LwwG.srcL_ok0 (c : LwwG) (cs : List Node) (h : allGL c.Src cs) : allGL (SrcOkG c.P0 c.u c.now) cs :=
  allGL_mono _ _ (fun u x t he => c.srcOk0 u x t he) cs h
theorem LwwG.srcL_ok1 (c : LwwG) (cs : List Node) (h : allGL c.Src cs) : allGL (SrcOkG c.P1 c.u c.now) cs :=
  allGL_mono _ _ (fun u x t he => c.srcOk1 u x t he) cs h

theorem LwwG.other (c : LwwG) (u x : Nat) (t : Times) (_ : c.P0 u x t) (hne : u ∉ [c.u]) : c.P1 u x t :=
  fun hu => absurd (by simp [hu]) hne

/-! ### every group of the source is visited -/

mutual
  /-- the UUIDs of the groups of a subtree, the node itself included -/
  def groupIdsN : Node → List Nat
    | .group u _ _ cs => u :: groupIdsL cs
    | .entry _ => []
  def groupIdsL : List Node → List Nat
    | [] => []
    | c :: cs => groupIdsN c ++ groupIdsL cs
end

mutual
  theorem mergeGroup_lwwG (c : LwwG) (tombs : List Tomb) :
      ∀ (g : Node) (s s' : St) (path : List Nat) (inDel : Bool), allG c.Src g → HoldsG c.u s.root → allG c.P0 s.root →
        mergeGroup c.now tombs s path g inDel = .ok s' → (allG c.P1 s.root ∨ c.u ∈ groupIdsN g) → allG c.P1 s'.root
    | .entry _, s, s', _, _, _, _, _, h, hv => by
      simp only [mergeGroup] at h
      injection h with h; subst h
      rcases hv with hv | hv
      · exact hv
      · simp [groupIdsN] at hv
    | .group gu gc gt cs, s, s', path, inDel, hS, hH, hT, h, hv => by
      rcases hv with h1 | hv
      · exact mergeGroup_allG c.P1 c.p1_locFree c.u c.now tombs _ s s' path inDel (c.src_ok1 _ hS) hH h1 h
      simp only [groupIdsN, List.mem_cons] at hv
      have hS' : allGL c.Src cs := by simp only [allG] at hS; exact hS.2
      unfold mergeGroup at h
      dsimp only at h
      have jp : ∀ (s1 : St) (p1 : List Nat), HoldsG c.u s1.root → allG c.P0 s1.root → (allG c.P1 s1.root ∨ c.u ∈ groupIdsL cs) →
          (do
            let s ← mergeEntries c.now tombs s1 p1 inDel cs
            mergeSubgroups c.now tombs s p1 inDel cs) = .ok s' → allG c.P1 s'.root := by
        intro s1 p1 hH1 hT1 hv1 hk
        obtain ⟨s2, hs2, hk⟩ := except_bind_ok hk
        have hH2 := holdsG_entries c.u c.now tombs cs s1 s2 p1 inDel hH1 hs2
        have hT2 := mergeEntries_allG c.P0 c.p0_locFree c.u c.now tombs cs s1 s2 p1 inDel hT1 hs2
        refine mergeSubgroups_lwwG c tombs cs s2 s' p1 inDel hS' hH2 hT2 hk ?_
        rcases hv1 with h1 | h1
        · exact Or.inl (mergeEntries_allG c.P1 c.p1_locFree c.u c.now tombs cs s1 s2 p1 inDel h1 hs2)
        · exact Or.inr h1
      split at h
      · rename_i hloc
        obtain ⟨x, hx, h⟩ := except_bind_ok h
        cases hx
        rcases hv with hv | hv
        · exact absurd hH.1.2 (findLoc_none_notMem s.root _ (hv ▸ hloc))
        · exact jp s path hH hT (Or.inr hv) h
      · rename_i dloc hloc
        split at h
        · obtain ⟨x, hx, h⟩ := except_bind_ok h
          cases hx
        · rename_i du dc dt dch hfg
          obtain ⟨x, hx, h⟩ := except_bind_ok h
          obtain ⟨c', t', upd⟩ := x
          dsimp only at h
          obtain ⟨y, hy, h⟩ := except_bind_ok h
          cases hy
          have hgp := (findGroup_some hfg).1
          have hdu : du = gu := getPath_last_uuid dloc s.root _ gu hgp
          have hH' := holdsG_groupData c.u s.root (dloc ++ [gu]) du dc dt dch c' t' hH (by simp) hfg
          have hn := allG_getPath c.P0 _ s.root _ hT hgp
          simp only [allG] at hn
          simp only [allG] at hS
          subst hdu
          have hT' : allG c.P0 (updatePath s.root (dloc ++ [du]) (fun n => match n with
              | .group u _ _ ch => .group u c' t' ch
              | e => e)) := by
            refine allG_updatePath_node c.P0 _ (dloc ++ [du]) s.root (.group du dc dt dch) hgp hT ?_
            simp only [allG]
            exact ⟨(c.srcOk0 du gc gt hS.1).2 dc dt c' t' upd hn.1 hx, hn.2⟩
          have hv' : allG c.P1 (updatePath s.root (dloc ++ [du]) (fun n => match n with
              | .group u _ _ ch => .group u c' t' ch
              | e => e)) ∨ c.u ∈ groupIdsL cs := by
            rcases hv with hv | hv
            · left
              subst hv
              have hsub : (uuidsN (Node.group c.u dc dt dch)).Sublist (uuidsL s.root.children) := by
                cases hdl : dloc ++ [c.u] with
                | nil => simp at hdl
                | cons a b => rw [hdl] at hgp; exact getPath_sublist_children a b s.root _ hH.1.1.1 hgp
              have hnd : (uuidsN (Node.group c.u dc dt dch)).Nodup := List.Nodup.sublist hsub hH.1.1.2
              simp only [uuidsN, List.nodup_cons] at hnd
              refine allG_updatePath_at c.P0 c.P1 _ [c.u] c.other (dloc ++ [c.u]) s.root _ (by simp) hH.1.1.1 hH.1.1.2
                (by simpa using hH.2) hgp (by intro y hy; simp only [List.mem_singleton] at hy; subst hy; simp [uuidsN]) hT ?_
              simp only [allG]
              refine ⟨c.update dc dt gc gt c' t' upd hS.1 hn.1 hx, ?_⟩
              exact allGL_disjoint c.P0 c.P1 [c.u] c.other dch hn.2 (fun x hx hxl => by
                simp only [List.mem_singleton] at hxl; subst hxl; exact hnd.1 hx)
            · exact Or.inr hv
          refine jp _ _ ?_ ?_ ?_ h
          · split
            · rw [ev_root]; exact hH'
            · exact hH'
          · split
            · rw [ev_root]; exact hT'
            · exact hT'
          · split
            · rw [ev_root]; exact hv'
            · exact hv'
        · obtain ⟨x, hx, h⟩ := except_bind_ok h
          cases hx

  theorem mergeSubgroups_lwwG (c : LwwG) (tombs : List Tomb) :
      ∀ (cs : List Node) (s s' : St) (path : List Nat) (inDel : Bool), allGL c.Src cs → HoldsG c.u s.root → allG c.P0 s.root →
        mergeSubgroups c.now tombs s path inDel cs = .ok s' → (allG c.P1 s.root ∨ c.u ∈ groupIdsL cs) → allG c.P1 s'.root
    | [], s, s', _, _, _, _, _, h, hv => by
      simp only [mergeSubgroups] at h
      injection h with h; subst h
      rcases hv with hv | hv
      · exact hv
      · simp [groupIdsL] at hv
    | .entry _ :: rest, s, s', path, inDel, hS, hH, hT, h, hv => by
      simp only [allGL] at hS
      unfold mergeSubgroups at h
      exact mergeSubgroups_lwwG c tombs rest s s' path inDel hS.2 hH hT h (by simpa only [groupIdsL, groupIdsN, List.nil_append] using hv)
    | .group ou oc ot ocs :: rest, s, s', path, inDel, hS, hH, hT, h, hv => by
      simp only [allGL] at hS
      have hog : allG c.Src (Node.group ou oc ot ocs) := hS.1
      unfold mergeSubgroups at h
      dsimp only at h
      have viaGroup : ∀ (s0 : St) (b : Bool), HoldsG c.u s0.root → allG c.P0 s0.root → (allG c.P1 s.root → allG c.P1 s0.root) →
          (do
            let s ← mergeGroup c.now tombs s0 (path ++ [ou]) (.group ou oc ot ocs) b
            mergeSubgroups c.now tombs s (refreshPath s.root path) inDel rest) = .ok s' → allG c.P1 s'.root := by
        intro s0 b hH0 hT0 h10 hk
        obtain ⟨s1, hs1, hk⟩ := except_bind_ok hk
        have hH1 := holdsG_group c.u c.now tombs _ s0 s1 _ b hH0 hs1
        have hvis : allG c.P1 s0.root ∨ c.u ∈ groupIdsN (Node.group ou oc ot ocs) ∨ c.u ∈ groupIdsL rest := by
          rcases hv with hv | hv
          · exact Or.inl (h10 hv)
          · simp only [groupIdsL, List.mem_append] at hv
            exact Or.inr hv
        rcases hvis with hv0 | hv0 | hv0
        · have := mergeGroup_allG c.P1 c.p1_locFree c.u c.now tombs _ s0 s1 _ b (c.src_ok1 _ hog) hH0 hv0 hs1
          exact mergeSubgroups_allG c.P1 c.p1_locFree c.u c.now tombs rest s1 s' _ inDel (c.srcL_ok1 _ hS.2) hH1 this hk
        · have := mergeGroup_lwwG c tombs (.group ou oc ot ocs) s0 s1 _ b hog hH0 hT0 hs1 (Or.inr hv0)
          exact mergeSubgroups_allG c.P1 c.p1_locFree c.u c.now tombs rest s1 s' _ inDel (c.srcL_ok1 _ hS.2) hH1 this hk
        · have := mergeGroup_allG c.P0 c.p0_locFree c.u c.now tombs _ s0 s1 _ b (c.src_ok0 _ hog) hH0 hT0 hs1
          exact mergeSubgroups_lwwG c tombs rest s1 s' _ inDel hS.2 hH1 this hk (Or.inr hv0)
      have addG : ∀ (P : GP), SrcOkG P c.u c.now ou oc ot → findLoc s.root ou = none → allG P s.root →
          allG P (updatePath s.root path (fun p => p.setChildren (p.children ++ [Node.group ou oc ot []]))) := by
        intro P hok hloc hTP
        refine allG_updatePath P _ (fun n hn => ?_) path s.root hTP
        have hne : ou ≠ c.u := fun e => findLoc_none_notMem s.root _ hloc (e ▸ hH.1.2)
        exact allG_setChildren P n _ hn ((allGL_append P _ _).mpr ⟨allG_children P n hn, ⟨⟨hok.1 hne, trivial⟩, trivial⟩⟩)
      simp only [allG] at hog
      split at h
      · exact viaGroup s true hH hT id h
      · split at h
        · split at h
          · split at h
            · obtain ⟨x, hx, h⟩ := except_bind_ok h
              cases hx
            · split at h
              · obtain ⟨s2, hs2, h⟩ := except_bind_ok h
                refine viaGroup _ inDel ?_ ?_ ?_ h
                · rw [ev_root]; exact holdsG_relocate c.u s s2 _ _ _ _ hH hs2
                · rw [ev_root]; exact relocate_allG c.P0 c.p0_locFree s s2 _ _ _ _ hT hs2
                · intro h1; rw [ev_root]; exact relocate_allG c.P1 c.p1_locFree s s2 _ _ _ _ h1 hs2
              · exact viaGroup s inDel hH hT id h
          · exact viaGroup s inDel hH hT id h
        · rename_i hloc
          split at h
          · obtain ⟨x, hx, h⟩ := except_bind_ok h
            cases hx
          · rename_i pg hfg
            rw [ev_root] at hfg
            refine viaGroup _ inDel ?_ ?_ ?_ h
            · exact holdsG_addGroup c.u s.root pg path ou oc ot hH hfg hloc
            · rw [ev_root]; exact addG c.P0 (c.srcOk0 ou oc ot hog.1) hloc hT
            · intro h1; rw [ev_root]; exact addG c.P1 (c.srcOk1 ou oc ot hog.1) hloc h1
end

/-! ### root, passes, deletions -/

/-- the root's own data may change; a predicate that says nothing about the root's UUID does not notice -/
theorem mergeRoot_allG (P : GP) (now : Int) (s s' : St) (srcRoot : Node) (hvac : ∀ c t, P s.root.uuid c t) (hT : allG P s.root)
    (h : mergeRoot now s srcRoot = .ok s') : allG P s'.root := by
  obtain ⟨root, ev⟩ := s
  cases root with
  | entry e => simp only [mergeRoot] at h; injection h with h; subst h; exact hT
  | group du dc dt ch =>
    cases srcRoot with
    | entry e => simp only [mergeRoot] at h; injection h with h; subst h; exact hT
    | group su sc st sch =>
      simp only [mergeRoot] at h
      split at h
      · obtain ⟨x, hx, h⟩ := except_bind_ok h
        obtain ⟨c', t', upd⟩ := x
        dsimp only at h
        injection h with h; subst h
        simp only [allG] at hT
        have : allG P (Node.group du c' t' ch) := by
          simp only [allG]; exact ⟨hvac c' t', hT.2⟩
        split
        · rw [ev_root]; exact this
        · exact this
      · injection h with h; subst h; exact hT

theorem mergeRoot_uuid (now : Int) (s s' : St) (srcRoot : Node) (h : mergeRoot now s srcRoot = .ok s') : s'.root.uuid = s.root.uuid := by
  obtain ⟨root, ev⟩ := s
  cases root with
  | entry e => simp only [mergeRoot] at h; injection h with h; subst h; rfl
  | group du dc dt ch =>
    cases srcRoot with
    | entry e => simp only [mergeRoot] at h; injection h with h; subst h; rfl
    | group su sc st sch =>
      simp only [mergeRoot] at h
      split at h
      · obtain ⟨x, hx, h⟩ := except_bind_ok h
        obtain ⟨c', t', upd⟩ := x
        dsimp only at h
        injection h with h; subst h
        split <;> rfl
      · injection h with h; subst h; rfl

theorem holdsG_mergeRoot (u : Nat) (now : Int) (s s' : St) (srcRoot : Node) (hH : HoldsG u s.root)
    (h : mergeRoot now s srcRoot = .ok s') : HoldsG u s'.root :=
  ⟨holds_mergeRoot u now s s' srcRoot hH.1 h, by rw [mergeRoot_uuid now s s' srcRoot h]; exact hH.2⟩

theorem mergePasses_allG (P : GP) (hP : LocFreeG P) (u : Nat) (now : Int) (tombs : List Tomb) (srcRoot : Node)
    (hS : allG (SrcOkG P u now) srcRoot) : ∀ (k : Nat) (s s' : St), HoldsG u s.root → allG P s.root →
      mergePasses now tombs srcRoot k s = .ok s' → allG P s'.root ∧ HoldsG u s'.root := by
  intro k
  induction k with
  | zero => intro s s' hH hT h; simp only [mergePasses] at h; injection h with h; subst h; exact ⟨hT, hH⟩
  | succ k ih =>
    intro s s' hH hT h
    unfold mergePasses at h
    split at h
    · cases h
    · rename_i s1 hs1
      have hH1 : HoldsG u s1.root := holdsG_group u now tombs srcRoot { s with events := [] } s1 [] false hH hs1
      have hT1 : allG P s1.root := mergeGroup_allG P hP u now tombs srcRoot { s with events := [] } s1 [] false hS hH hT hs1
      dsimp only at h
      split at h
      · injection h with h; subst h; exact ⟨hT1, hH1⟩
      · exact ih _ s' (show HoldsG u ({ s1 with events := s.events ++ s1.events } : St).root from hH1)
          (show allG P ({ s1 with events := s.events ++ s1.events } : St).root from hT1) h

theorem mergePasses_lwwG (c : LwwG) (tombs : List Tomb) (srcRoot : Node) (hS : allG c.Src srcRoot)
    (hv : c.u ∈ groupIdsN srcRoot) (k : Nat) (s s' : St) (hH : HoldsG c.u s.root) (hT : allG c.P0 s.root)
    (h : mergePasses c.now tombs srcRoot (k + 1) s = .ok s') : allG c.P1 s'.root ∧ HoldsG c.u s'.root := by
  unfold mergePasses at h
  split at h
  · cases h
  · rename_i s1 hs1
    have hH1 : HoldsG c.u s1.root := holdsG_group c.u c.now tombs srcRoot { s with events := [] } s1 [] false hH hs1
    have hT1 : allG c.P1 s1.root := mergeGroup_lwwG c tombs srcRoot { s with events := [] } s1 [] false hS hH hT hs1 (Or.inr hv)
    dsimp only at h
    split at h
    · injection h with h; subst h; exact ⟨hT1, hH1⟩
    · exact mergePasses_allG c.P1 c.p1_locFree c.u c.now tombs srcRoot (c.src_ok1 _ hS) k _ s'
        (show HoldsG c.u ({ s1 with events := s.events ++ s1.events } : St).root from hH1)
        (show allG c.P1 ({ s1 with events := s.events ++ s1.events } : St).root from hT1) h

theorem remove_step_allG (P : GP) (root parent parent' last : Node) (loc : List Nat) (u : Nat)
    (hT : allG P root) (h3 : findGroup root loc = some parent) (h9 : removeNode parent u = some (parent', last)) :
    allG P (updatePath root loc (fun _ => parent')) := by
  obtain ⟨gp, _⟩ := findGroup_some h3
  obtain ⟨_, _, hp'⟩ := removeNode_facts parent parent' last u h9
  have hpt := allG_getPath P loc root parent hT gp
  have hp't : allG P parent' := by
    rw [hp']; exact allG_setChildren P parent _ hpt (allGL_filter P _ _ (allG_children P parent hpt))
  exact allG_updatePath_node P _ loc root parent gp hT hp't

theorem deleteEntries_allG (P : GP) (now : Int) : ∀ (ts : List Tomb) (s : St) (nt : List Tomb) (s' : St) (nt' : List Tomb),
    allG P s.root → deleteEntries now s nt ts = .ok (s', nt') → allG P s'.root := by
  intro ts
  induction ts with
  | nil =>
    intro s nt s' nt' hT h
    simp only [deleteEntries, Except.ok.injEq, Prod.mk.injEq] at h
    obtain ⟨rfl, _⟩ := h
    exact hT
  | cons d rest ih =>
    intro s nt s' nt' hT h
    unfold deleteEntries at h
    split at h
    · exact ih s nt s' nt' hT h
    · split at h
      · exact ih s nt s' nt' hT h
      · rename_i loc hloc
        split at h
        · cases h
        · rename_i parent h3
          split at h
          · exact ih s nt s' nt' hT h
          · split at h
            · split at h
              · cases h
              · rename_i parent' last h9
                exact ih _ _ s' nt' (by rw [ev_root]; exact remove_step_allG P s.root parent parent' last loc d.uuid hT h3 h9) h
            · exact ih s nt s' nt' hT h

theorem gdecide_delete_allG (P : GP) (now : Int) (s : St) (nt : List Tomb) (d : Tomb) (q : List Tomb) (s' : St) (nt' : List Tomb)
    (hT : allG P s.root) (h : gdecide now s nt d q = .delete s' nt') : allG P s'.root := by
  unfold gdecide at h
  split at h
  · cases h
  · split at h
    · cases h
    · rename_i loc hloc
      split at h
      · cases h
      · rename_i parent h3
        split at h
        · cases h
        · dsimp only at h
          split at h
          · cases h
          · split at h
            · cases h
            · split at h
              · cases h
              · split at h
                · split at h
                  · cases h
                  · rename_i parent' last h9
                    injection h with h1 h2
                    subst h1
                    rw [ev_root]
                    exact remove_step_allG P s.root parent parent' last loc d.uuid hT h3 h9
                · cases h

theorem deleteGroups_allG (P : GP) (now : Int) : ∀ (fuel : Nat) (s : St) (nt q : List Tomb) (s' : St) (nt' : List Tomb),
    allG P s.root → deleteGroups now fuel s nt q = .ok (s', nt') → allG P s'.root := by
  intro fuel
  induction fuel with
  | zero =>
    intro s nt q s' nt' hT h
    unfold deleteGroups at h
    split at h
    · injection h with h; injection h with h1 h2; subst h1; exact hT
    · cases h
  | succ n ih =>
    intro s nt q s' nt' hT h
    cases q with
    | nil =>
      unfold deleteGroups at h
      injection h with h; injection h with h1 h2; subst h1; exact hT
    | cons d q =>
      rw [deleteGroups_step] at h
      split at h
      · exact ih s nt q s' nt' hT h
      · exact ih s nt _ s' nt' hT h
      · rename_i s1 nt1 hdec
        exact ih s1 nt1 q s' nt' (gdecide_delete_allG P now s nt d q s1 nt1 hT hdec) h
      · cases h

/-! ### the whole merge -/

mutual
  theorem allG_true : ∀ (n : Node), allG (fun _ _ _ => True) n
    | .group _ _ _ cs => by simp only [allG]; exact ⟨trivial, allGL_true cs⟩
    | .entry _ => trivial
  theorem allGL_true : ∀ (cs : List Node), allGL (fun _ _ _ => True) cs
    | [] => trivial
    | c :: cs => ⟨allG_true c, allGL_true cs⟩
end

/-- in a sound tree whose root has a UUID of its own, the group a (non-empty) path designates is the only group with its UUID -/
theorem allG_only (Q : GP) (root : Node) (p : List Nat) (u c : Nat) (t : Times) (ch : List Node) (hI : Inv root)
    (hfresh : root.uuid ∉ uuidsL root.children) (hp : p ≠ []) (hg : getPath root p = some (.group u c t ch)) (hQ : Q u c t) :
    allG (fun x y z => x = u → Q x y z) root := by
  have hmem : u ∈ uuidsL root.children := getPath_uuids p root _ hp hg u (by simp [uuidsN])
  have hru : root.uuid ∉ [u] := by
    intro h; simp only [List.mem_singleton] at h; exact hfresh (h ▸ hmem)
  have hsub : (uuidsN (Node.group u c t ch)).Sublist (uuidsL root.children) := by
    cases p with
    | nil => exact absurd rfl hp
    | cons a b => exact getPath_sublist_children a b root _ hI.1 hg
  have hnd : (uuidsN (Node.group u c t ch)).Nodup := List.Nodup.sublist hsub hI.2
  simp only [uuidsN, List.nodup_cons] at hnd
  have key := allG_updatePath_at (fun _ _ _ => True) (fun x y z => x = u → Q x y z) (fun x => x) [u]
    (fun x _ _ _ hne hx => absurd (by simp [hx]) hne) p root _ hp hI.1 hI.2 hru hg
    (by intro y hy; simp only [List.mem_singleton] at hy; subst hy; simp [uuidsN]) (allG_true root) (by
      simp only [allG]
      refine ⟨fun _ => hQ, allGL_disjoint (fun _ _ _ => True) _ [u] (fun x _ _ _ hne hx => absurd (by simp [hx]) hne) ch (allGL_true ch) ?_⟩
      intro x hx hxl
      simp only [List.mem_singleton] at hxl; subst hxl; exact hnd.1 hx)
  rwa [updatePath_id p root _ (fun x => x) hI.1 hg rfl] at key

theorem getPath_groupIds : ∀ (p : List Nat) (root : Node) (u c : Nat) (t : Times) (ch : List Node),
    getPath root p = some (.group u c t ch) → u ∈ groupIdsN root := by
  intro p
  induction p with
  | nil =>
    intro root u c t ch hg
    simp only [getPath, Option.some.injEq] at hg; subst hg; simp [groupIdsN]
  | cons a rest ih =>
    intro root u c t ch hg
    have memL : ∀ (cs : List Node) (x : Node), x ∈ cs → ∀ y ∈ groupIdsN x, y ∈ groupIdsL cs := by
      intro cs
      induction cs with
      | nil => intro x h; cases h
      | cons c0 cs ih2 =>
        intro x hc y hy
        simp only [groupIdsL, List.mem_append]
        rcases List.mem_cons.mp hc with rfl | hc
        · exact Or.inl hy
        · exact Or.inr (ih2 x hc y hy)
    have up : ∀ y ∈ groupIdsL root.children, y ∈ groupIdsN root := by
      intro y hy
      cases root with
      | entry _ => simp [Node.children, groupIdsL] at hy
      | group _ _ _ rcs => simp only [groupIdsN, Node.children] at hy ⊢; exact List.mem_cons_of_mem _ hy
    cases rest with
    | nil =>
      simp only [getPath] at hg
      exact up _ (memL _ _ (find_first hg).1 _ (by simp [groupIdsN]))
    | cons v rest' =>
      simp only [getPath] at hg
      cases hc : root.children.find? (fun n => n.isGroup && n.uuid == a) with
      | none => rw [hc] at hg; cases hg
      | some x =>
        rw [hc] at hg
        simp only at hg
        exact up _ (memL _ x (find_first hc).1 _ (ih x u c t ch hg))

/-- the same with the state the group is left in -/
theorem merge_group_lww_state (now : Int) (dst src d' : Db) (evs : List Event) (hI : Inv dst.root)
    (hfd : dst.root.uuid ∉ uuidsL dst.root.children) (hIs : Inv src.root) (hfs : src.root.uuid ∉ uuidsL src.root.children)
    (h : merge now dst src = .ok (d', evs))
    (pd ps pr : List Nat) (u dc : Nat) (dt : Times) (dch : List Node) (sc : Nat) (st : Times) (sch : List Node)
    (rc : Nat) (rt : Times) (rch : List Node) (hpd : pd ≠ []) (hps : ps ≠ [])
    (hd : getPath dst.root pd = some (.group u dc dt dch)) (hs : getPath src.root ps = some (.group u sc st sch))
    (hr : getPath d'.root pr = some (.group u rc rt rch)) :
    ((rc = dc ∧ rt.mtime = dt.mtime) ∨ (rc = sc ∧ rt.mtime = st.mtime))
    ∧ rc = (if dt.mtime.getD now ≥ st.mtime.getD 0 then dc else sc) := by
  let c : LwwG := ⟨u, dc, dt.mtime, sc, st.mtime, now⟩
  have hT0 : allG c.P0 dst.root := by
    have := allG_only (fun _ y z => c.Orig y z) dst.root pd u dc dt dch hI hfd hpd hd ⟨rfl, rfl⟩
    exact allG_mono _ _ (fun x y z hx hxu => Or.inl (hx hxu)) _ this
  have hS : allG c.Src src.root :=
    allG_only (fun _ y z => y = c.sc ∧ z.mtime = c.smt) src.root ps u sc st sch hIs hfs hps hs ⟨rfl, rfl⟩
  have hmem : u ∈ uuidsL dst.root.children := getPath_uuids pd dst.root _ hpd hd u (by simp [uuidsN])
  have hH0 : HoldsG c.u dst.root := ⟨⟨hI, hmem⟩, fun e => hfd (e ▸ hmem)⟩
  have hv : c.u ∈ groupIdsN src.root := getPath_groupIds ps src.root u sc st sch hs
  unfold merge at h
  dsimp only at h
  obtain ⟨s1, hs1, h⟩ := except_bind_ok h
  have hH1 := holdsG_mergeRoot c.u now _ s1 src.root hH0 hs1
  have hT1 := mergeRoot_allG c.P0 now _ s1 src.root (fun _ _ hx => absurd hx hH0.2) hT0 hs1
  obtain ⟨s2, hs2, h⟩ := except_bind_ok h
  obtain ⟨hT2, hH2⟩ := mergePasses_lwwG c dst.tombs src.root hS hv _ s1 s2 hH1 hT1 hs2
  obtain ⟨x, hx, h⟩ := except_bind_ok h
  obtain ⟨s3, tombs⟩ := x
  dsimp only at h
  injection h with h; injection h with h1 h2
  subst h1
  simp only at hr
  unfold mergeDeletions at hx
  obtain ⟨r, hr4, hx⟩ := except_bind_ok hx
  obtain ⟨s4, nt4⟩ := r
  have hT4 := deleteEntries_allG c.P1 now src.tombs s2 dst.tombs s4 nt4 hT2 hr4
  have hT3 := deleteGroups_allG c.P1 now _ s4 nt4 _ s3 tombs hT4 hx
  have := allG_getPath c.P1 pr s3.root _ hT3 hr
  simp only [allG] at this
  obtain ⟨hst, hc⟩ := this.1 rfl
  refine ⟨?_, hc⟩
  rcases hst with ⟨a, b⟩ | ⟨a, b, _⟩
  · exact Or.inl ⟨a, b⟩
  · exact Or.inr ⟨a, b⟩

/-- **last writer wins for groups, for the whole merge**: a group below the root that the destination and the source both hold
    has, in the result of the merge, the destination's own data (name, notes, icon, settings) unless the source's modification
    time is strictly later, in which case it has the source's. -/
theorem merge_group_lww (now : Int) (dst src d' : Db) (evs : List Event) (hI : Inv dst.root)
    (hfd : dst.root.uuid ∉ uuidsL dst.root.children) (hIs : Inv src.root) (hfs : src.root.uuid ∉ uuidsL src.root.children)
    (h : merge now dst src = .ok (d', evs))
    (pd ps pr : List Nat) (u dc : Nat) (dt : Times) (dch : List Node) (sc : Nat) (st : Times) (sch : List Node)
    (rc : Nat) (rt : Times) (rch : List Node) (hpd : pd ≠ []) (hps : ps ≠ [])
    (hd : getPath dst.root pd = some (.group u dc dt dch)) (hs : getPath src.root ps = some (.group u sc st sch))
    (hr : getPath d'.root pr = some (.group u rc rt rch)) :
    rc = if dt.mtime.getD now ≥ st.mtime.getD 0 then dc else sc :=
  (merge_group_lww_state now dst src d' evs hI hfd hIs hfs h pd ps pr u dc dt dch sc st sch rc rt rch hpd hps hd hs hr).2
