import KpModel.Db.MergeTerm
/-!
The group pass of `merge` keeps the destination a group whose UUIDs below the root are pairwise distinct: nodes are only
updated in place (same UUID), moved (removed from one group, appended to another), or created with a UUID that
`find_node_location` did not find.  With `deleteEntries_inv` and `deleteGroups_enough` this gives termination of the whole
`merge` on every well-formed destination (`Props/C16`).
-/
namespace Kp.Merge
open Node

/-! ### UUID lists up to permutation -/

theorem uuidsL_append (a b : List Node) : uuidsL (a ++ b) = uuidsL a ++ uuidsL b := by
  induction a with
  | nil => simp [uuidsL]
  | cons c cs ih => simp [uuidsL, ih, List.append_assoc]

/-- replacing the first child that satisfies `p` by a node whose UUIDs are the old ones plus `extra` -/
theorem uuidsL_updFirst_perm (p : Node → Bool) (f : Node → Node) (extra : List Nat) : ∀ (cs : List Node) (c : Node),
    cs.find? p = some c → (uuidsN (f c)).Perm (uuidsN c ++ extra) →
    (uuidsL (updFirst p f cs)).Perm (uuidsL cs ++ extra) := by
  intro cs
  induction cs with
  | nil => intro c h; cases h
  | cons x xs ih =>
    intro c h hf
    simp only [updFirst]
    cases hp : p x with
    | true =>
      have : x = c := by simpa [List.find?, hp] using h
      subst this
      simp only [↓reduceIte, uuidsL]
      -- f x ++ xs ~ (x ++ extra) ++ xs ~ (x ++ xs) ++ extra
      refine (List.Perm.append_right _ hf).trans ?_
      simp only [List.append_assoc]
      exact List.Perm.append_left _ List.perm_append_comm
    | false =>
      have h' : xs.find? p = some c := by simpa [List.find?, hp] using h
      simp only [Bool.false_eq_true, ↓reduceIte, uuidsL, List.append_assoc]
      exact List.Perm.append_left _ (ih c h' hf)

/-- … and the converse direction, for removals: the old UUIDs are the new ones plus `extra` -/
theorem uuidsL_updFirst_perm' (p : Node → Bool) (f : Node → Node) (extra : List Nat) : ∀ (cs : List Node) (c : Node),
    cs.find? p = some c → (uuidsN c).Perm (uuidsN (f c) ++ extra) →
    (uuidsL cs).Perm (uuidsL (updFirst p f cs) ++ extra) := by
  intro cs
  induction cs with
  | nil => intro c h; cases h
  | cons x xs ih =>
    intro c h hf
    simp only [updFirst]
    cases hp : p x with
    | true =>
      have : x = c := by simpa [List.find?, hp] using h
      subst this
      simp only [↓reduceIte, uuidsL]
      refine (List.Perm.append_right _ hf).trans ?_
      simp only [List.append_assoc]
      exact List.Perm.append_left _ List.perm_append_comm
    | false =>
      have h' : xs.find? p = some c := by simpa [List.find?, hp] using h
      simp only [Bool.false_eq_true, ↓reduceIte, uuidsL, List.append_assoc]
      exact List.Perm.append_left _ (ih c h' hf)

/-- the node a path designates is replaced by one with `extra` more UUIDs: so is the tree -/
theorem uuidsN_updatePath_perm (extra : List Nat) : ∀ (path : List Nat) (root n : Node) (f : Node → Node),
    root.isGroup = true → getPath root path = some n → (uuidsN (f n)).Perm (uuidsN n ++ extra) →
    (uuidsN (updatePath root path f)).Perm (uuidsN root ++ extra) := by
  intro path
  induction path with
  | nil =>
    intro root n f _ hg hf
    simp only [getPath, Option.some.injEq] at hg
    subst hg
    simp only [updatePath]; exact hf
  | cons u rest ih =>
    intro root n f hr hg hf
    cases rest with
    | nil =>
      simp only [getPath] at hg
      simp only [updatePath]
      rw [uuidsN_setChildren _ _ hr, uuidsN_group root hr, List.cons_append]
      exact List.Perm.cons _ (uuidsL_updFirst_perm _ f extra _ n hg hf)
    | cons v rest' =>
      simp only [getPath] at hg
      simp only [updatePath]
      rw [uuidsN_setChildren _ _ hr, uuidsN_group root hr, List.cons_append]
      cases hc : root.children.find? (fun n => n.isGroup && n.uuid == u) with
      | none => rw [hc] at hg; cases hg
      | some c =>
        rw [hc] at hg
        simp only at hg
        have hcg : c.isGroup = true := by
          have := (find_first hc).2
          simp only [Bool.and_eq_true] at this
          exact this.1
        exact List.Perm.cons _ (uuidsL_updFirst_perm _ _ extra _ c hc (ih c n f hcg hg hf))

theorem uuidsN_updatePath_perm' (extra : List Nat) : ∀ (path : List Nat) (root n : Node) (f : Node → Node),
    root.isGroup = true → getPath root path = some n → (uuidsN n).Perm (uuidsN (f n) ++ extra) →
    (uuidsN root).Perm (uuidsN (updatePath root path f) ++ extra) := by
  intro path
  induction path with
  | nil =>
    intro root n f _ hg hf
    simp only [getPath, Option.some.injEq] at hg
    subst hg
    simp only [updatePath]; exact hf
  | cons u rest ih =>
    intro root n f hr hg hf
    cases rest with
    | nil =>
      simp only [getPath] at hg
      simp only [updatePath]
      rw [uuidsN_setChildren _ _ hr, uuidsN_group root hr, List.cons_append]
      exact List.Perm.cons _ (uuidsL_updFirst_perm' _ f extra _ n hg hf)
    | cons v rest' =>
      simp only [getPath] at hg
      simp only [updatePath]
      rw [uuidsN_setChildren _ _ hr, uuidsN_group root hr, List.cons_append]
      cases hc : root.children.find? (fun n => n.isGroup && n.uuid == u) with
      | none => rw [hc] at hg; cases hg
      | some c =>
        rw [hc] at hg
        simp only at hg
        have hcg : c.isGroup = true := by
          have := (find_first hc).2
          simp only [Bool.and_eq_true] at this
          exact this.1
        exact List.Perm.cons _ (uuidsL_updFirst_perm' _ _ extra _ c hc (ih c n f hcg hg hf))


/-! ### the invariant -/

/-- the destination is a group and the UUIDs below it are pairwise distinct -/
def Inv (r : Node) : Prop := r.isGroup = true ∧ (uuidsL r.children).Nodup

theorem updatePath_uuid (root : Node) (u : Nat) (rest : List Nat) (f : Node → Node) (hr : root.isGroup = true) :
    (updatePath root (u :: rest) f).uuid = root.uuid := by
  cases root with
  | entry e => simp [Node.isGroup] at hr
  | group a b c d => cases rest <;> simp [updatePath, Node.setChildren, Node.uuid]

theorem uuidsN_setLoc (n : Node) (ts : Int) : uuidsN (n.setLoc ts) = uuidsN n := by
  cases n <;> simp [Node.setLoc, uuidsN]

/-- children-level form of the permutation lemma -/
theorem children_perm_of_update (extra : List Nat) (root n : Node) (u : Nat) (rest : List Nat) (f : Node → Node)
    (hr : root.isGroup = true) (hg : getPath root (u :: rest) = some n) (hf : (uuidsN (f n)).Perm (uuidsN n ++ extra)) :
    (uuidsL (updatePath root (u :: rest) f).children).Perm (uuidsL root.children ++ extra) := by
  have h := uuidsN_updatePath_perm extra (u :: rest) root n f hr hg hf
  have hg' := updatePath_isGroup (u :: rest) root f hr (fun e => by cases e)
  rw [uuidsN_group _ hg', uuidsN_group root hr, updatePath_uuid root u rest f hr, List.cons_append] at h
  exact List.Perm.cons_inv h

theorem children_perm_of_update' (extra : List Nat) (root n : Node) (u : Nat) (rest : List Nat) (f : Node → Node)
    (hr : root.isGroup = true) (hg : getPath root (u :: rest) = some n) (hf : (uuidsN n).Perm (uuidsN (f n) ++ extra)) :
    (uuidsL root.children).Perm (uuidsL (updatePath root (u :: rest) f).children ++ extra) := by
  have h := uuidsN_updatePath_perm' extra (u :: rest) root n f hr hg hf
  have hg' := updatePath_isGroup (u :: rest) root f hr (fun e => by cases e)
  rw [uuidsN_group _ hg', uuidsN_group root hr, updatePath_uuid root u rest f hr, List.cons_append] at h
  exact List.Perm.cons_inv h

/-- an update in place (the replacement has the same UUIDs) keeps the invariant -/
theorem inv_update_same (root n : Node) (p : List Nat) (f : Node → Node) (hI : Inv root) (hp : p ≠ [])
    (hg : getPath root p = some n) (hf : uuidsN (f n) = uuidsN n) : Inv (updatePath root p f) := by
  cases p with
  | nil => exact absurd rfl hp
  | cons u rest =>
    refine ⟨updatePath_isGroup _ root f hI.1 (fun e => by cases e), ?_⟩
    have := children_perm_of_update [] root n u rest f hI.1 hg (by rw [hf, List.append_nil])
    rw [List.append_nil] at this
    exact this.nodup_iff.mpr hI.2

/-- appending a child whose UUIDs are new keeps the invariant -/
theorem inv_add_child (root g new : Node) (p : List Nat) (hI : Inv root) (hg : findGroup root p = some g)
    (hnew : (uuidsN new).Nodup) (hdis : ∀ x ∈ uuidsN new, x ∉ uuidsL root.children) :
    Inv (updatePath root p (fun t => t.setChildren (t.children ++ [new]))) := by
  have ⟨hgp, hgg⟩ := findGroup_some hg
  have hfg : uuidsN (g.setChildren (g.children ++ [new])) = uuidsN g ++ uuidsN new := by
    rw [uuidsN_setChildren _ _ hgg, uuidsN_group g hgg, uuidsL_append]
    simp [uuidsL]
  have hnd : (uuidsL root.children ++ uuidsN new).Nodup := by
    rw [List.nodup_append]
    exact ⟨hI.2, hnew, fun a ha b hb hab => hdis b hb (hab ▸ ha)⟩
  cases p with
  | nil =>
    simp only [getPath, Option.some.injEq] at hgp
    subst hgp
    simp only [updatePath]
    refine ⟨by cases root <;> simp_all [Node.setChildren, Node.isGroup], ?_⟩
    have : (root.setChildren (root.children ++ [new])).children = root.children ++ [new] := by
      cases root <;> simp_all [Node.setChildren, Node.children, Node.isGroup]
    rw [this, uuidsL_append]
    simpa [uuidsL] using hnd
  | cons u rest =>
    refine ⟨updatePath_isGroup _ root _ hI.1 (fun e => by cases e), ?_⟩
    have := children_perm_of_update (uuidsN new) root g u rest (fun t => t.setChildren (t.children ++ [new])) hI.1 hgp
      (by rw [hfg])
    exact this.nodup_iff.mpr hnd


/-! ### moving a node -/

theorem uuidsN_sublist_of_mem : ∀ (cs : List Node) (c : Node), c ∈ cs → (uuidsN c).Sublist (uuidsL cs) := by
  intro cs
  induction cs with
  | nil => intro c h; cases h
  | cons x xs ih =>
    intro c h
    simp only [uuidsL]
    cases h with
    | head => exact List.sublist_append_left _ _
    | tail _ hm => exact (ih c hm).trans (List.sublist_append_right _ _)

theorem getPath_sublist : ∀ (path : List Nat) (root n : Node), root.isGroup = true → getPath root path = some n →
    (uuidsN n).Sublist (uuidsN root) := by
  intro path
  induction path with
  | nil => intro root n _ h; simp only [getPath, Option.some.injEq] at h; subst h; exact List.Sublist.refl _
  | cons u rest ih =>
    intro root n hr h
    rw [uuidsN_group root hr]
    cases rest with
    | nil =>
      simp only [getPath] at h
      exact ((uuidsN_sublist_of_mem _ n (find_first h).1)).trans (List.sublist_cons_self _ _)
    | cons v rest' =>
      simp only [getPath] at h
      cases hc : root.children.find? (fun n => n.isGroup && n.uuid == u) with
      | none => rw [hc] at h; cases h
      | some c =>
        rw [hc] at h
        simp only at h
        have hcg : c.isGroup = true := by
          have := (find_first hc).2
          simp only [Bool.and_eq_true] at this
          exact this.1
        exact ((ih c n hcg h).trans (uuidsN_sublist_of_mem _ c (find_first hc).1)).trans (List.sublist_cons_self _ _)

/-- under distinct UUIDs, removing "every child with UUID `u`" removes exactly the one child that has it -/
theorem uuidsL_filter_perm (u : Nat) : ∀ (cs : List Node) (node : Node), (uuidsL cs).Nodup → node ∈ cs → node.uuid = u →
    (uuidsL cs).Perm (uuidsL (cs.filter (fun c => !(c.uuid == u))) ++ uuidsN node) := by
  intro cs
  induction cs with
  | nil => intro node _ h; cases h
  | cons x xs ih =>
    intro node hn hm hu
    simp only [uuidsL] at hn ⊢
    have hnx := (List.nodup_append.mp hn)
    by_cases hx : x.uuid = u
    · -- `x` is the node; nothing in the tail has that UUID
      have htail : ∀ c ∈ xs, c.uuid ≠ u := by
        intro c hc he
        have h1 : u ∈ uuidsN x := hx ▸ uuid_mem_uuidsN x
        have h2 : u ∈ uuidsL xs := (uuidsN_sublist_of_mem xs c hc).subset (he ▸ uuid_mem_uuidsN c)
        exact hnx.2.2 u h1 u h2 rfl
      have hnode : node = x := by
        cases hm with
        | head => rfl
        | tail _ hmt => exact absurd hu (htail node hmt)
      subst hnode
      have hf : xs.filter (fun c => !(c.uuid == u)) = xs := by
        rw [List.filter_eq_self]
        intro c hc; simpa using htail c hc
      have : (fun c : Node => !(c.uuid == u)) node = false := by simp [hx]
      simp only [List.filter_cons, this, Bool.false_eq_true, if_false, hf]
      exact List.perm_append_comm
    · have : (fun c : Node => !(c.uuid == u)) x = true := by simp [hx]
      simp only [List.filter_cons, this, if_true, uuidsL, List.append_assoc]
      have hmt : node ∈ xs := by
        cases hm with
        | head => exact absurd hu hx
        | tail _ h => exact h
      exact List.Perm.append_left _ (ih node hnx.2.1 hmt hu)

theorem getPath_sublist_children (u : Nat) (rest : List Nat) (root n : Node) (hr : root.isGroup = true)
    (h : getPath root (u :: rest) = some n) : (uuidsN n).Sublist (uuidsL root.children) := by
  cases rest with
  | nil =>
    simp only [getPath] at h
    exact uuidsN_sublist_of_mem _ n (find_first h).1
  | cons v rest' =>
    simp only [getPath] at h
    cases hc : root.children.find? (fun n => n.isGroup && n.uuid == u) with
    | none => rw [hc] at h; cases h
    | some c =>
      rw [hc] at h
      simp only at h
      have hcg : c.isGroup = true := by
        have := (find_first hc).2
        simp only [Bool.and_eq_true] at this
        exact this.1
      exact (getPath_sublist _ c n hcg h).trans (uuidsN_sublist_of_mem _ c (find_first hc).1)

/-- `remove_node`, as far as the invariant needs it -/
theorem removeNode_facts (g g' n : Node) (u : Nat) (h : removeNode g u = some (g', n)) :
    n.uuid = u ∧ n ∈ g.children ∧ g' = g.setChildren (g.children.filter (fun c => !(c.uuid == u))) := by
  unfold removeNode at h
  cases hl : (g.children.filter (·.uuid == u)).getLast? with
  | none => rw [hl] at h; cases h
  | some last =>
    rw [hl] at h
    injection h with h; injection h with h1 h2
    subst h1; subst h2
    have hmem : last ∈ g.children.filter (·.uuid == u) := List.mem_of_getLast? hl
    have hm := List.mem_filter.mp hmem
    exact ⟨by simpa using hm.2, hm.1, rfl⟩

/-- removing a child from the group a path designates: the UUIDs below the root are those that remain plus the child's -/
theorem remove_perm (root g g' node : Node) (u : Nat) (fromP : List Nat) (hI : Inv root) (hfg : findGroup root fromP = some g)
    (hrm : removeNode g u = some (g', node)) :
    (updatePath root fromP (fun _ => g')).isGroup = true ∧
    (uuidsL root.children).Perm (uuidsL (updatePath root fromP (fun _ => g')).children ++ uuidsN node) := by
  have ⟨hgp, hgg⟩ := findGroup_some hfg
  obtain ⟨hnu, hnm, hg'⟩ := removeNode_facts g g' node u hrm
  have hg'g : g'.isGroup = true := by subst hg'; cases g <;> simp_all [Node.setChildren, Node.isGroup]
  have hg'c : g'.children = g.children.filter (fun c => !(c.uuid == u)) := by
    subst hg'; cases g <;> simp_all [Node.setChildren, Node.children, Node.isGroup]
  have hg'u : g'.uuid = g.uuid := by subst hg'; cases g <;> simp [Node.setChildren, Node.uuid]
  cases fromP with
  | nil =>
    simp only [getPath, Option.some.injEq] at hgp
    subst hgp
    simp only [updatePath]
    refine ⟨hg'g, ?_⟩
    rw [hg'c]
    exact uuidsL_filter_perm u _ node hI.2 hnm hnu
  | cons u0 rest =>
    refine ⟨updatePath_isGroup _ root _ hI.1 (fun e => by cases e), ?_⟩
    have hsub := getPath_sublist_children u0 rest root g hI.1 hgp
    have hgn : (uuidsL g.children).Nodup := by
      have := hsub.nodup hI.2
      rw [uuidsN_group g hgg] at this
      exact (List.nodup_cons.mp this).2
    refine children_perm_of_update' (uuidsN node) root g u0 rest (fun _ => g') hI.1 hgp ?_
    rw [uuidsN_group g hgg, uuidsN_group g' hg'g, hg'u, hg'c, List.cons_append]
    exact List.Perm.cons _ (uuidsL_filter_perm u _ node hgn hnm hnu)

theorem relocate_inv (s s' : St) (u : Nat) (fromP toP : List Nat) (ts : Int) (hI : Inv s.root)
    (h : relocate s u fromP toP ts = .ok s') : Inv s'.root := by
  unfold relocate at h
  cases hfg : findGroup s.root fromP with
  | none => rw [hfg] at h; cases h
  | some g =>
    rw [hfg] at h
    simp only at h
    cases hrm : removeNode g u with
    | none => rw [hrm] at h; cases h
    | some pr =>
      obtain ⟨g', node⟩ := pr
      rw [hrm] at h
      simp only at h
      cases hft : findGroup (updatePath s.root fromP (fun _ => g')) toP with
      | none => rw [hft] at h; cases h
      | some t =>
        rw [hft] at h
        simp only at h
        injection h with h
        subst h
        simp only
        obtain ⟨hg1, hperm⟩ := remove_perm s.root g g' node u fromP hI hfg hrm
        have hnd := hperm.nodup_iff.mp hI.2
        have hparts := List.nodup_append.mp hnd
        refine inv_add_child _ t (node.setLoc ts) toP ⟨hg1, hparts.1⟩ hft ?_ ?_
        · rw [uuidsN_setLoc]; exact hparts.2.1
        · rw [uuidsN_setLoc]
          intro x hx hx'
          exact hparts.2.2 x hx' x hx rfl


/-! ### `find_node_location` finds every UUID below the root -/

mutual
  theorem findLocG_none_conv : ∀ (n : Node) (id : Nat), findLocG n id = none → id ∉ uuidsL n.children
    | .group u c t cs, id, h => by
      simp only [findLocG, Option.map_eq_none_iff] at h
      simpa [Node.children] using findLocL_none_conv cs id h
    | .entry e, id, _ => by simp [Node.children, uuidsL]
  theorem findLocL_none_conv : ∀ (cs : List Node) (id : Nat), findLocL cs id = none → id ∉ uuidsL cs
    | [], _, _ => by simp [uuidsL]
    | c :: cs, id, h => by
      rw [findLocL_cons] at h
      by_cases hc : (c.uuid == id) = true
      · simp [hc] at h
      · have hc' : (c.uuid == id) = false := by simpa using hc
        simp only [hc', Bool.false_eq_true, if_false] at h
        simp only [uuidsL, List.mem_append, not_or]
        cases c with
        | group u cc t ccs =>
          simp only at h
          cases hg : findLocG (.group u cc t ccs) id with
          | some l => rw [hg] at h; cases h
          | none =>
            rw [hg] at h
            simp only at h
            refine ⟨?_, findLocL_none_conv cs id h⟩
            have := findLocG_none_conv (.group u cc t ccs) id hg
            simp only [uuidsN, List.mem_cons, not_or]
            refine ⟨?_, by simpa [Node.children] using this⟩
            intro e; simp [Node.uuid, e] at hc'
        | entry e =>
          simp only at h
          refine ⟨?_, findLocL_none_conv cs id h⟩
          simp only [uuidsN, List.mem_singleton]
          intro e'; simp [Node.uuid, e'] at hc'
end

theorem findLoc_none_notMem (root : Node) (id : Nat) (h : findLoc root id = none) : id ∉ uuidsL root.children :=
  findLocL_none_conv root.children id h

/-- the last step of a path designates a node with that UUID -/
theorem getPath_last_uuid : ∀ (p : List Nat) (root n : Node) (u : Nat), getPath root (p ++ [u]) = some n → n.uuid = u := by
  intro p
  induction p with
  | nil =>
    intro root n u h
    simp only [List.nil_append, getPath] at h
    simpa using (find_first h).2
  | cons v rest ih =>
    intro root n u h
    have : (v :: rest) ++ [u] = v :: (rest ++ [u]) := rfl
    rw [this] at h
    cases hr : rest ++ [u] with
    | nil => simp at hr
    | cons w rest' =>
      rw [hr] at h
      simp only [getPath] at h
      cases hc : root.children.find? (fun n => n.isGroup && n.uuid == v) with
      | none => rw [hc] at h; cases h
      | some c =>
        rw [hc] at h
        simp only at h
        rw [← hr] at h
        exact ih c n u h

theorem entryUpdate_uuid (now : Int) (existing src merged : Entry) (h : entryUpdate now existing src = .ok (some merged)) :
    merged.d.uuid = existing.d.uuid ∨ merged.d.uuid = src.d.uuid := by
  unfold entryUpdate at h
  split at h
  · cases h
  · split at h
    · cases h
    · cases h
    · rename_i m hm
      split at h
      · cases h
      · injection h with h; injection h with h; subst h
        unfold entryMerge at hm
        simp only at hm
        split at hm
        · first | cases hm | (split at hm <;> cases hm)
        · split at hm
          · cases hm
          · rename_i mg hmg
            injection hm with hm; injection hm with hm; subst hm
            have hk : ∀ (d m : Entry), (keepLoc d m).d.uuid = m.d.uuid := by
              intro d m; unfold keepLoc; split <;> simp [Entry.setLoc]
            rw [hk]
            split at hmg
            · unfold mergeHistory at hmg
              split at hmg
              · cases hmg
              · injection hmg with hmg; subst hmg; exact Or.inl rfl
            · unfold mergeHistory at hmg
              split at hmg
              · cases hmg
              · injection hmg with hmg; subst hmg; exact Or.inr rfl


/-! ### the entry step -/

theorem findEntry_some {root : Node} {p : List Nat} {e : Entry} (h : findEntry root p = some e) :
    getPath root p = some (.entry e) := by
  unfold findEntry at h
  split at h
  · rename_i e' hg; injection h with h; subst h; exact hg
  · cases h

theorem except_bind_ok {ε α β : Type} {x : Except ε α} {f : α → Except ε β} {b : β} (h : (x >>= f) = .ok b) :
    ∃ a, x = .ok a ∧ f a = .ok b := by
  cases x with
  | error e => cases h
  | ok a => exact ⟨a, rfl, h⟩

theorem ev_root (s : St) (t : EvType) (u : Nat) : (s.ev t u).root = s.root := rfl

theorem mergeEntryStep_inv (now : Int) (tombs : List Tomb) (s s' : St) (path : List Nat) (inDeleted : Bool) (oe : Entry)
    (hI : Inv s.root) (h : mergeEntryStep now tombs s path inDeleted oe = .ok s') : Inv s'.root := by
  unfold mergeEntryStep at h
  split at h
  · -- the entry exists in the destination
    rename_i dloc hloc
    split at h
    · cases h
    · rename_i existing0 hfe
      have hex : existing0.d.uuid = oe.d.uuid := by
        have := getPath_last_uuid dloc s.root _ _ (findEntry_some hfe)
        simpa [Node.uuid] using this
      -- what follows the optional relocation
      have jp : ∀ (s1 : St) (eloc : List Nat) (existing : Entry) (s' : St), Inv s1.root → (∃ q, eloc = q ++ [oe.d.uuid]) →
          existing.d.uuid = existing0.d.uuid →
          (do
            let upd ← entryUpdate now existing oe
            match upd with
              | none => pure s1
              | some merged =>
                match findEntry s1.root eloc with
                | none => Except.error MErr.findEntry
                | some _ =>
                  pure ({ s1 with root := updatePath s1.root eloc (fun _ => Node.entry merged) }.ev .entryUpdated merged.d.uuid)) = .ok s' →
          Inv s'.root := by
        intro s1 eloc existing s'' hI1 hq hu1 hk
        obtain ⟨q, hq⟩ := hq
        obtain ⟨upd, hupd, hk⟩ := except_bind_ok hk
        cases upd with
        | none =>
          simp only at hk
          injection hk with hk; subst hk; exact hI1
        | some merged =>
          simp only at hk
          split at hk
          · cases hk
          · rename_i e1 hfe1
            injection hk with hk; subst hk
            rw [ev_root]
            simp only
            have hg1 := findEntry_some hfe1
            have hn : (Node.entry e1).uuid = oe.d.uuid := by
              rw [hq] at hg1; exact getPath_last_uuid q s1.root _ _ hg1
            have hm : merged.d.uuid = oe.d.uuid := by
              rcases entryUpdate_uuid now existing oe merged hupd with h1 | h1
              · rw [h1, hu1, hex]
              · exact h1
            refine inv_update_same s1.root (.entry e1) eloc _ hI1 (by rw [hq]; simp) hg1 ?_
            simp only [uuidsN]
            simp only [Node.uuid] at hn
            rw [hm, hn]
      dsimp only at h
      split at h
      · split at h
        · obtain ⟨s2, hs2, h⟩ := except_bind_ok h
          obtain ⟨x, hx, h⟩ := except_bind_ok h
          cases hx
          exact jp s2 _ _ s' (relocate_inv _ s2 _ _ _ _ (by rw [ev_root]; exact hI) hs2) ⟨path, rfl⟩ (by simp [Entry.setLoc]) h
        · obtain ⟨x, hx, h⟩ := except_bind_ok h
          cases hx
          exact jp s _ _ s' hI ⟨dloc, rfl⟩ rfl h
      · obtain ⟨x, hx, h⟩ := except_bind_ok h
        cases hx
        exact jp s _ _ s' hI ⟨dloc, rfl⟩ rfl h
  · -- the entry does not exist in the destination
    rename_i hloc
    split at h
    · injection h with h; subst h; exact hI
    · split at h
      · injection h with h; subst h; exact hI
      · split at h
        · cases h
        · rename_i g hfg
          injection h with h; subst h
          rw [ev_root]
          refine inv_add_child s.root g (.entry oe) path hI hfg (by simp [uuidsN]) ?_
          intro x hx
          simp only [uuidsN, List.mem_singleton] at hx
          subst hx
          exact findLoc_none_notMem s.root _ hloc


/-! ### the group pass -/

mutual
  theorem mergeGroup_inv (now : Int) (tombs : List Tomb) :
      ∀ (g : Node) (s s' : St) (path : List Nat) (inDel : Bool), Inv s.root →
        mergeGroup now tombs s path g inDel = .ok s' → Inv s'.root
    | .entry _, s, s', _, _, hI, h => by
      simp only [mergeGroup] at h
      injection h with h; subst h; exact hI
    | .group gu gc gt cs, s, s', path, inDel, hI, h => by
      unfold mergeGroup at h
      dsimp only at h
      have jp : ∀ (s1 : St) (p1 : List Nat), Inv s1.root →
          (do
            let s ← mergeEntries now tombs s1 p1 inDel cs
            mergeSubgroups now tombs s p1 inDel cs) = .ok s' → Inv s'.root := by
        intro s1 p1 hI1 hk
        obtain ⟨s2, hs2, hk⟩ := except_bind_ok hk
        exact mergeSubgroups_inv now tombs cs s2 s' p1 inDel (mergeEntries_inv now tombs cs s1 s2 p1 inDel hI1 hs2) hk
      split at h
      · obtain ⟨x, hx, h⟩ := except_bind_ok h
        cases hx
        exact jp s path hI h
      · rename_i dloc hloc
        split at h
        · obtain ⟨x, hx, h⟩ := except_bind_ok h
          cases hx
        · rename_i du dc dt dch hfg
          obtain ⟨x, hx, h⟩ := except_bind_ok h
          obtain ⟨c', t', upd⟩ := x
          dsimp only at h
          obtain ⟨y, hy, h⟩ := except_bind_ok h
          cases hy
          refine jp _ _ ?_ h
          have hupd : Inv (updatePath s.root (dloc ++ [gu]) (fun n => match n with
              | .group u _ _ ch => .group u c' t' ch
              | e => e)) := by
            refine inv_update_same s.root (.group du dc dt dch) _ _ hI (by simp) (findGroup_some hfg).1 ?_
            simp [uuidsN]
          split
          · rw [ev_root]; exact hupd
          · exact hupd
        · obtain ⟨x, hx, h⟩ := except_bind_ok h
          cases hx

  theorem mergeEntries_inv (now : Int) (tombs : List Tomb) :
      ∀ (cs : List Node) (s s' : St) (path : List Nat) (inDel : Bool), Inv s.root →
        mergeEntries now tombs s path inDel cs = .ok s' → Inv s'.root
    | [], s, s', _, _, hI, h => by
      simp only [mergeEntries] at h
      injection h with h; subst h; exact hI
    | .entry e :: rest, s, s', path, inDel, hI, h => by
      unfold mergeEntries at h
      obtain ⟨s1, hs1, h⟩ := except_bind_ok h
      exact mergeEntries_inv now tombs rest s1 s' path inDel (mergeEntryStep_inv now tombs s s1 path inDel e hI hs1) h
    | .group _ _ _ _ :: rest, s, s', path, inDel, hI, h => by
      unfold mergeEntries at h
      exact mergeEntries_inv now tombs rest s s' path inDel hI h

  theorem mergeSubgroups_inv (now : Int) (tombs : List Tomb) :
      ∀ (cs : List Node) (s s' : St) (path : List Nat) (inDel : Bool), Inv s.root →
        mergeSubgroups now tombs s path inDel cs = .ok s' → Inv s'.root
    | [], s, s', _, _, hI, h => by
      simp only [mergeSubgroups] at h
      injection h with h; subst h; exact hI
    | .entry _ :: rest, s, s', path, inDel, hI, h => by
      unfold mergeSubgroups at h
      exact mergeSubgroups_inv now tombs rest s s' path inDel hI h
    | .group ou oc ot ocs :: rest, s, s', path, inDel, hI, h => by
      unfold mergeSubgroups at h
      dsimp only at h
      have jp : ∀ (s1 : St) (p1 : List Nat), Inv s1.root → mergeSubgroups now tombs s1 p1 inDel rest = .ok s' → Inv s'.root :=
        fun s1 p1 hI1 hk => mergeSubgroups_inv now tombs rest s1 s' p1 inDel hI1 hk
      have viaGroup : ∀ (s0 : St) (b : Bool), Inv s0.root →
          (do
            let s ← mergeGroup now tombs s0 (path ++ [ou]) (.group ou oc ot ocs) b
            mergeSubgroups now tombs s (refreshPath s.root path) inDel rest) = .ok s' → Inv s'.root := by
        intro s0 b hI0 hk
        obtain ⟨s1, hs1, hk⟩ := except_bind_ok hk
        exact jp s1 _ (mergeGroup_inv now tombs (.group ou oc ot ocs) s0 s1 _ b hI0 hs1) hk
      split at h
      · exact viaGroup s true hI h
      · split at h
        · rename_i dloc hloc
          split at h
          · split at h
            · obtain ⟨x, hx, h⟩ := except_bind_ok h
              cases hx
            · rename_i eg hfg
              split at h
              · obtain ⟨s2, hs2, h⟩ := except_bind_ok h
                refine viaGroup _ inDel ?_ h
                rw [ev_root]
                exact relocate_inv s s2 _ _ _ _ hI hs2
              · exact viaGroup s inDel hI h
          · exact viaGroup s inDel hI h
        · rename_i hloc
          split at h
          · obtain ⟨x, hx, h⟩ := except_bind_ok h
            cases hx
          · rename_i pg hfg
            refine viaGroup _ inDel ?_ h
            simp only
            rw [ev_root] at hfg
            refine inv_add_child s.root pg (.group ou oc ot []) path hI hfg (by simp [uuidsN, uuidsL]) ?_
            intro x hx
            simp only [uuidsN, uuidsL, List.mem_cons, List.not_mem_nil, or_false] at hx
            subst hx
            exact findLoc_none_notMem s.root _ hloc
end


/-! ### `outOfFuel` is only ever produced by the deletion queue -/

/-- the computation does not end in `outOfFuel` -/
def NoFuelErr {α : Type} (x : Except MErr α) : Prop := x ≠ .error .outOfFuel

theorem NoFuelErr.ok {α : Type} (a : α) : NoFuelErr (Except.ok a : Except MErr α) := by intro h; cases h
theorem NoFuelErr.pure {α : Type} (a : α) : NoFuelErr (Pure.pure a : Except MErr α) := by intro h; cases h
theorem NoFuelErr.err {α : Type} (e : MErr) (h : e ≠ .outOfFuel) : NoFuelErr (Except.error e : Except MErr α) := by
  intro h'; injection h' with h'; exact h h'
theorem NoFuelErr.bind {α β : Type} {x : Except MErr α} {f : α → Except MErr β} (hx : NoFuelErr x)
    (hf : ∀ a, x = .ok a → NoFuelErr (f a)) : NoFuelErr (x >>= f) := by
  cases x with
  | error e =>
    intro h
    have h' : (Except.error e : Except MErr β) = .error .outOfFuel := h
    injection h' with he
    exact hx (by rw [he])
  | ok a => exact hf a rfl

theorem phase1_noFuel (dst : List EData) : ∀ acc, NoFuelErr (phase1 dst acc) := by
  induction dst with
  | nil => intro acc; exact NoFuelErr.ok _
  | cons h t ih =>
    intro acc
    unfold phase1
    rw [List.foldlM_cons]
    refine NoFuelErr.bind ?_ (fun a _ => ih a)
    split
    · exact NoFuelErr.err _ (by decide)
    · split
      · exact NoFuelErr.err _ (by decide)
      · exact NoFuelErr.ok _

theorem phase2_noFuel (src : List EData) : ∀ acc, NoFuelErr (phase2 src acc) := by
  induction src with
  | nil => intro acc; exact NoFuelErr.ok _
  | cons h t ih =>
    intro acc
    unfold phase2
    rw [List.foldlM_cons]
    refine NoFuelErr.bind ?_ (fun a _ => ih a)
    split
    · exact NoFuelErr.err _ (by decide)
    · split <;> exact NoFuelErr.ok _

theorem historyMerge_noFuel (dst src : List EData) : NoFuelErr (historyMerge dst src) := by
  unfold historyMerge
  split
  · rename_i e he
    intro h; injection h with h; subst h
    exact phase1_noFuel dst [] he
  · split
    · rename_i e he
      intro h; injection h with h; subst h
      exact phase2_noFuel src _ he
    · exact NoFuelErr.ok _

theorem mergeHistory_noFuel (w l : Entry) : NoFuelErr (mergeHistory w l) := by
  unfold mergeHistory
  split
  · rename_i e he
    intro h; injection h with h; subst h
    exact historyMerge_noFuel _ _ he
  · exact NoFuelErr.ok _

theorem entryMerge_noFuel (now : Int) (dst src : Entry) : NoFuelErr (entryMerge now dst src) := by
  unfold entryMerge
  dsimp only
  split
  · split
    · exact NoFuelErr.err _ (by decide)
    · exact NoFuelErr.ok _
  · split
    · rename_i e he
      intro h; injection h with h; subst h
      split at he
      · exact mergeHistory_noFuel _ _ he
      · exact mergeHistory_noFuel _ _ he
    · exact NoFuelErr.ok _

theorem entryUpdate_noFuel (now : Int) (a b : Entry) : NoFuelErr (entryUpdate now a b) := by
  unfold entryUpdate
  split
  · exact NoFuelErr.ok _
  · split
    · rename_i e he
      intro h; injection h with h; subst h
      exact entryMerge_noFuel now a b he
    · exact NoFuelErr.ok _
    · split <;> exact NoFuelErr.ok _

theorem groupMergeData_noFuel (now : Int) (du dc : Nat) (dt : Times) (su sc : Nat) (st : Times) :
    NoFuelErr (groupMergeData now du dc dt su sc st) := by
  unfold groupMergeData
  dsimp only
  split
  · split
    · exact NoFuelErr.err _ (by decide)
    · exact NoFuelErr.ok _
  · split <;> exact NoFuelErr.ok _

theorem relocate_noFuel (s : St) (u : Nat) (a b : List Nat) (ts : Int) : NoFuelErr (relocate s u a b ts) := by
  unfold relocate
  split
  · exact NoFuelErr.err _ (by decide)
  · split
    · exact NoFuelErr.err _ (by decide)
    · dsimp only
      split
      · exact NoFuelErr.err _ (by decide)
      · exact NoFuelErr.ok _


theorem mergeEntryStep_noFuel (now : Int) (tombs : List Tomb) (s : St) (path : List Nat) (inDel : Bool) (oe : Entry) :
    NoFuelErr (mergeEntryStep now tombs s path inDel oe) := by
  unfold mergeEntryStep
  split
  · split
    · exact NoFuelErr.err _ (by decide)
    · rename_i existing0 _
      dsimp only
      have jp : ∀ (x : St × List Nat × Entry), NoFuelErr (match x with
          | (s, eloc, existing) => do
            let upd ← entryUpdate now existing oe
            match upd with
              | none => Pure.pure s
              | some merged =>
                match findEntry s.root eloc with
                | none => Except.error MErr.findEntry
                | some _ =>
                  Pure.pure ({ s with root := updatePath s.root eloc (fun _ => Node.entry merged) }.ev .entryUpdated merged.d.uuid)) := by
        intro x
        obtain ⟨s1, eloc, existing⟩ := x
        refine NoFuelErr.bind (entryUpdate_noFuel _ _ _) (fun a _ => ?_)
        cases a with
        | none => exact NoFuelErr.pure _
        | some m =>
          dsimp only
          split
          · exact NoFuelErr.err _ (by decide)
          · exact NoFuelErr.pure _
      split
      · split
        · refine NoFuelErr.bind (relocate_noFuel _ _ _ _ _) (fun a _ => ?_)
          exact NoFuelErr.bind (NoFuelErr.pure _) (fun x _ => jp x)
        · exact NoFuelErr.bind (NoFuelErr.pure _) (fun x _ => jp x)
      · exact NoFuelErr.bind (NoFuelErr.pure _) (fun x _ => jp x)
  · split
    · exact NoFuelErr.pure _
    · split
      · exact NoFuelErr.pure _
      · split
        · exact NoFuelErr.err _ (by decide)
        · exact NoFuelErr.pure _

mutual
  theorem mergeGroup_noFuel (now : Int) (tombs : List Tomb) :
      ∀ (g : Node) (s : St) (path : List Nat) (inDel : Bool), NoFuelErr (mergeGroup now tombs s path g inDel)
    | .entry _, s, _, _ => by simp only [mergeGroup]; exact NoFuelErr.ok _
    | .group gu gc gt cs, s, path, inDel => by
      unfold mergeGroup
      dsimp only
      have jp : ∀ (x : St × List Nat), NoFuelErr (match x with
          | (s, path) => do
            let s ← mergeEntries now tombs s path inDel cs
            mergeSubgroups now tombs s path inDel cs) := by
        intro x
        obtain ⟨s1, p1⟩ := x
        exact NoFuelErr.bind (mergeEntries_noFuel now tombs cs s1 p1 inDel) (fun a _ => mergeSubgroups_noFuel now tombs cs a p1 inDel)
      split
      · exact NoFuelErr.bind (NoFuelErr.pure _) (fun x _ => jp x)
      · split
        · exact NoFuelErr.bind (NoFuelErr.err _ (by decide)) (fun x _ => jp x)
        · refine NoFuelErr.bind (groupMergeData_noFuel _ _ _ _ _ _ _) (fun x _ => ?_)
          obtain ⟨c', t', upd⟩ := x
          dsimp only
          exact NoFuelErr.bind (NoFuelErr.pure _) (fun x _ => jp x)
        · exact NoFuelErr.bind (NoFuelErr.err _ (by decide)) (fun x _ => jp x)

  theorem mergeEntries_noFuel (now : Int) (tombs : List Tomb) :
      ∀ (cs : List Node) (s : St) (path : List Nat) (inDel : Bool), NoFuelErr (mergeEntries now tombs s path inDel cs)
    | [], s, _, _ => by simp only [mergeEntries]; exact NoFuelErr.ok _
    | .entry e :: rest, s, path, inDel => by
      unfold mergeEntries
      exact NoFuelErr.bind (mergeEntryStep_noFuel _ _ _ _ _ _) (fun a _ => mergeEntries_noFuel now tombs rest a path inDel)
    | .group _ _ _ _ :: rest, s, path, inDel => by
      unfold mergeEntries
      exact mergeEntries_noFuel now tombs rest s path inDel

  theorem mergeSubgroups_noFuel (now : Int) (tombs : List Tomb) :
      ∀ (cs : List Node) (s : St) (path : List Nat) (inDel : Bool), NoFuelErr (mergeSubgroups now tombs s path inDel cs)
    | [], s, _, _ => by simp only [mergeSubgroups]; exact NoFuelErr.ok _
    | .entry _ :: rest, s, path, inDel => by
      unfold mergeSubgroups
      exact mergeSubgroups_noFuel now tombs rest s path inDel
    | .group ou oc ot ocs :: rest, s, path, inDel => by
      unfold mergeSubgroups
      dsimp only
      have viaGroup : ∀ (s0 : St) (b : Bool), NoFuelErr (do
            let s ← mergeGroup now tombs s0 (path ++ [ou]) (.group ou oc ot ocs) b
            mergeSubgroups now tombs s (refreshPath s.root path) inDel rest) :=
        fun s0 b => NoFuelErr.bind (mergeGroup_noFuel now tombs (.group ou oc ot ocs) s0 _ b)
          (fun a _ => mergeSubgroups_noFuel now tombs rest a _ inDel)
      split
      · exact viaGroup s true
      · split
        · split
          · split
            · exact NoFuelErr.bind (NoFuelErr.err _ (by decide)) (fun a _ => mergeSubgroups_noFuel now tombs rest a _ inDel)
            · split
              · exact NoFuelErr.bind (relocate_noFuel _ _ _ _ _) (fun a _ => viaGroup _ inDel)
              · exact viaGroup s inDel
          · exact viaGroup s inDel
        · split
          · exact NoFuelErr.bind (NoFuelErr.err _ (by decide)) (fun a _ => mergeSubgroups_noFuel now tombs rest a _ inDel)
          · exact viaGroup _ inDel
end


/-! ### the whole merge -/

theorem mergeRoot_noFuel (now : Int) (s : St) (srcRoot : Node) : NoFuelErr (mergeRoot now s srcRoot) := by
  unfold mergeRoot
  split
  · split
    · refine NoFuelErr.bind (groupMergeData_noFuel _ _ _ _ _ _ _) (fun x _ => ?_)
      obtain ⟨c', t', upd⟩ := x
      exact NoFuelErr.pure _
    · exact NoFuelErr.pure _
  · exact NoFuelErr.pure _

theorem mergeRoot_inv (now : Int) (s s' : St) (srcRoot : Node) (hI : Inv s.root) (h : mergeRoot now s srcRoot = .ok s') :
    Inv s'.root := by
  obtain ⟨root, ev⟩ := s
  cases root with
  | entry e => simp only [mergeRoot] at h; injection h with h; subst h; exact hI
  | group du dc dt ch =>
    cases srcRoot with
    | entry e => simp only [mergeRoot] at h; injection h with h; subst h; exact hI
    | group su sc st sch =>
      simp only [mergeRoot] at h
      split at h
      · obtain ⟨x, hx, h⟩ := except_bind_ok h
        obtain ⟨c', t', upd⟩ := x
        dsimp only at h
        injection h with h; subst h
        have : Inv (Node.group du c' t' ch) := ⟨rfl, by simpa [Node.children] using hI.2⟩
        split
        · rw [ev_root]; exact this
        · exact this
      · injection h with h; subst h; exact hI

theorem mergePasses_noFuel (now : Int) (tombs : List Tomb) (srcRoot : Node) : ∀ (k : Nat) (s : St),
    NoFuelErr (mergePasses now tombs srcRoot k s) := by
  intro k
  induction k with
  | zero => intro s; exact NoFuelErr.pure _
  | succ k ih =>
    intro s
    unfold mergePasses
    split
    · rename_i e he
      intro h; injection h with h; subst h
      exact mergeGroup_noFuel now tombs srcRoot _ _ _ he
    · dsimp only
      split
      · exact NoFuelErr.pure _
      · exact ih _

theorem mergePasses_inv (now : Int) (tombs : List Tomb) (srcRoot : Node) : ∀ (k : Nat) (s s' : St), Inv s.root →
    mergePasses now tombs srcRoot k s = .ok s' → Inv s'.root := by
  intro k
  induction k with
  | zero => intro s s' hI h; simp only [mergePasses] at h; injection h with h; subst h; exact hI
  | succ k ih =>
    intro s s' hI h
    unfold mergePasses at h
    split at h
    · cases h
    · rename_i s1 hs1
      have hI1 : Inv s1.root := mergeGroup_inv now tombs srcRoot { s with events := [] } s1 [] false hI hs1
      dsimp only at h
      split at h
      · injection h with h; subst h; exact hI1
      · exact ih _ s' (show Inv ({ s1 with events := s.events ++ s1.events } : St).root from hI1) h

theorem mergeDeletions_noFuel (now : Int) (dstTombs : List Tomb) (s : St) (src : Db) (hI : Inv s.root) :
    NoFuelErr (mergeDeletions now dstTombs s src) := by
  unfold mergeDeletions
  obtain ⟨hne, hinv⟩ := deleteEntries_inv now src.tombs s dstTombs hI.1 hI.2
  refine NoFuelErr.bind hne (fun r hr => ?_)
  obtain ⟨s', nt'⟩ := r
  obtain ⟨hr', hn'⟩ := hinv s' nt' hr
  exact deleteGroups_enough now _ _ s' nt' _ rfl hr' hn' (fuelFor_le _)

/-- `merge` never runs out of the fuel given to its only unbounded loop, on any destination that is a group with pairwise
    distinct UUIDs below it and for any source whatever -/
theorem merge_noFuel (now : Int) (dst src : Db) (hI : Inv dst.root) : NoFuelErr (merge now dst src) := by
  unfold merge
  dsimp only
  refine NoFuelErr.bind (mergeRoot_noFuel now _ _) (fun s1 hs1 => ?_)
  have hI1 := mergeRoot_inv now _ s1 src.root hI hs1
  refine NoFuelErr.bind (mergePasses_noFuel now _ _ _ _) (fun s2 hs2 => ?_)
  have hI2 := mergePasses_inv now _ _ _ _ s2 hI1 hs2
  refine NoFuelErr.bind (mergeDeletions_noFuel now dst.tombs s2 src hI2) (fun x _ => ?_)
  obtain ⟨s3, tombs⟩ := x
  exact NoFuelErr.pure _


theorem deleteGroups_inv (now : Int) : ∀ (fuel : Nat) (s : St) (nt q : List Tomb) (s' : St) (nt' : List Tomb), Inv s.root →
    deleteGroups now fuel s nt q = .ok (s', nt') → Inv s'.root := by
  intro fuel
  induction fuel with
  | zero =>
    intro s nt q s' nt' hI h
    unfold deleteGroups at h
    split at h
    · injection h with h; injection h with h1 h2; subst h1; exact hI
    · cases h
  | succ n ih =>
    intro s nt q s' nt' hI h
    cases q with
    | nil =>
      unfold deleteGroups at h
      injection h with h; injection h with h1 h2; subst h1; exact hI
    | cons d q =>
      rw [deleteGroups_step] at h
      split at h
      · exact ih s nt q s' nt' hI h
      · exact ih s nt _ s' nt' hI h
      · rename_i s1 nt1 hdec
        have := gdecide_delete_inv now s nt d q s1 nt1 hI.1 hI.2 hdec
        exact ih s1 nt1 q s' nt' ⟨this.1, this.2⟩ h
      · cases h

/-- … and what it returns is again a group with pairwise distinct UUIDs below it -/
theorem merge_inv (now : Int) (dst src : Db) (d' : Db) (evs : List Event) (hI : Inv dst.root)
    (h : merge now dst src = .ok (d', evs)) : Inv d'.root := by
  unfold merge at h
  dsimp only at h
  obtain ⟨s1, hs1, h⟩ := except_bind_ok h
  have hI1 := mergeRoot_inv now _ s1 src.root hI hs1
  obtain ⟨s2, hs2, h⟩ := except_bind_ok h
  have hI2 := mergePasses_inv now _ _ _ _ s2 hI1 hs2
  obtain ⟨x, hx, h⟩ := except_bind_ok h
  obtain ⟨s3, tombs⟩ := x
  dsimp only at h
  injection h with h; injection h with h1 h2
  subst h1
  simp only
  unfold mergeDeletions at hx
  obtain ⟨r, hr, hx⟩ := except_bind_ok hx
  obtain ⟨s4, nt4⟩ := r
  obtain ⟨_, hinv⟩ := deleteEntries_inv now src.tombs s2 dst.tombs hI2.1 hI2.2
  have hI4 := hinv s4 nt4 hr
  exact deleteGroups_inv now _ s4 nt4 _ s3 tombs ⟨hI4.1, hI4.2⟩ hx


/-! ### which UUIDs can appear: nothing the destination has tombstoned is created -/

/-- every UUID below the root satisfies `Q` -/
def AllQ (Q : Nat → Prop) (r : Node) : Prop := ∀ u ∈ uuidsL r.children, Q u

theorem allQ_update_same (Q : Nat → Prop) (root n : Node) (p : List Nat) (f : Node → Node) (hI : Inv root) (hQ : AllQ Q root)
    (hp : p ≠ []) (hg : getPath root p = some n) (hf : uuidsN (f n) = uuidsN n) : AllQ Q (updatePath root p f) := by
  cases p with
  | nil => exact absurd rfl hp
  | cons u rest =>
    have := children_perm_of_update [] root n u rest f hI.1 hg (by rw [hf, List.append_nil])
    rw [List.append_nil] at this
    intro x hx
    exact hQ x (this.mem_iff.mp hx)

theorem allQ_add_child (Q : Nat → Prop) (root g new : Node) (p : List Nat) (hI : Inv root) (hQ : AllQ Q root)
    (hg : findGroup root p = some g) (hnew : ∀ x ∈ uuidsN new, Q x) :
    AllQ Q (updatePath root p (fun t => t.setChildren (t.children ++ [new]))) := by
  have ⟨hgp, hgg⟩ := findGroup_some hg
  have hfg : uuidsN (g.setChildren (g.children ++ [new])) = uuidsN g ++ uuidsN new := by
    rw [uuidsN_setChildren _ _ hgg, uuidsN_group g hgg, uuidsL_append]
    simp [uuidsL]
  cases p with
  | nil =>
    simp only [getPath, Option.some.injEq] at hgp
    subst hgp
    simp only [updatePath]
    have : (root.setChildren (root.children ++ [new])).children = root.children ++ [new] := by
      cases root <;> simp_all [Node.setChildren, Node.children, Node.isGroup]
    intro x hx
    rw [this, uuidsL_append] at hx
    simp only [uuidsL, List.append_nil, List.mem_append] at hx
    rcases hx with hx | hx
    · exact hQ x hx
    · exact hnew x hx
  | cons u rest =>
    have := children_perm_of_update (uuidsN new) root g u rest (fun t => t.setChildren (t.children ++ [new])) hI.1 hgp
      (by rw [hfg])
    intro x hx
    have := this.mem_iff.mp hx
    simp only [List.mem_append] at this
    rcases this with h1 | h1
    · exact hQ x h1
    · exact hnew x h1

theorem relocate_allQ (Q : Nat → Prop) (s s' : St) (u : Nat) (fromP toP : List Nat) (ts : Int) (hI : Inv s.root)
    (hQ : AllQ Q s.root) (h : relocate s u fromP toP ts = .ok s') : AllQ Q s'.root := by
  unfold relocate at h
  cases hfg : findGroup s.root fromP with
  | none => rw [hfg] at h; cases h
  | some g =>
    rw [hfg] at h
    simp only at h
    cases hrm : removeNode g u with
    | none => rw [hrm] at h; cases h
    | some pr =>
      obtain ⟨g', node⟩ := pr
      rw [hrm] at h
      simp only at h
      cases hft : findGroup (updatePath s.root fromP (fun _ => g')) toP with
      | none => rw [hft] at h; cases h
      | some t =>
        rw [hft] at h
        simp only at h
        injection h with h
        subst h
        simp only
        obtain ⟨hg1, hperm⟩ := remove_perm s.root g g' node u fromP hI hfg hrm
        have hnd := hperm.nodup_iff.mp hI.2
        have hparts := List.nodup_append.mp hnd
        have hQ1 : AllQ Q (updatePath s.root fromP (fun _ => g')) :=
          fun x hx => hQ x (hperm.mem_iff.mpr (List.mem_append_left _ hx))
        refine allQ_add_child Q _ t (node.setLoc ts) toP ⟨hg1, hparts.1⟩ hQ1 hft ?_
        rw [uuidsN_setLoc]
        intro x hx
        exact hQ x (hperm.mem_iff.mpr (List.mem_append_right _ hx))


theorem mergeEntryStep_allQ (Q P : Nat → Prop) (now : Int) (tombs : List Tomb)
    (hT : ∀ u, tombsContain tombs u = false → P u → Q u)
    (s s' : St) (path : List Nat) (inDeleted : Bool) (oe : Entry) (hoe : P oe.d.uuid)
    (hI : Inv s.root) (hQ : AllQ Q s.root) (h : mergeEntryStep now tombs s path inDeleted oe = .ok s') : AllQ Q s'.root := by
  unfold mergeEntryStep at h
  split at h
  · rename_i dloc hloc
    split at h
    · cases h
    · rename_i existing0 hfe
      have hex : existing0.d.uuid = oe.d.uuid := by
        have := getPath_last_uuid dloc s.root _ _ (findEntry_some hfe)
        simpa [Node.uuid] using this
      have jp : ∀ (s1 : St) (eloc : List Nat) (existing : Entry) (s' : St), Inv s1.root → AllQ Q s1.root →
          (∃ q, eloc = q ++ [oe.d.uuid]) → existing.d.uuid = existing0.d.uuid →
          (do
            let upd ← entryUpdate now existing oe
            match upd with
              | none => pure s1
              | some merged =>
                match findEntry s1.root eloc with
                | none => Except.error MErr.findEntry
                | some _ =>
                  pure ({ s1 with root := updatePath s1.root eloc (fun _ => Node.entry merged) }.ev .entryUpdated merged.d.uuid)) = .ok s' →
          AllQ Q s'.root := by
        intro s1 eloc existing s'' hI1 hQ1 hq hu1 hk
        obtain ⟨q, hq⟩ := hq
        obtain ⟨upd, hupd, hk⟩ := except_bind_ok hk
        cases upd with
        | none =>
          simp only at hk
          injection hk with hk; subst hk; exact hQ1
        | some merged =>
          simp only at hk
          split at hk
          · cases hk
          · rename_i e1 hfe1
            injection hk with hk; subst hk
            rw [ev_root]
            simp only
            have hg1 := findEntry_some hfe1
            have hn : (Node.entry e1).uuid = oe.d.uuid := by
              rw [hq] at hg1; exact getPath_last_uuid q s1.root _ _ hg1
            have hm : merged.d.uuid = oe.d.uuid := by
              rcases entryUpdate_uuid now existing oe merged hupd with h1 | h1
              · rw [h1, hu1, hex]
              · exact h1
            refine allQ_update_same Q s1.root (.entry e1) eloc _ hI1 hQ1 (by rw [hq]; simp) hg1 ?_
            simp only [uuidsN]
            simp only [Node.uuid] at hn
            rw [hm, hn]
      dsimp only at h
      split at h
      · split at h
        · obtain ⟨s2, hs2, h⟩ := except_bind_ok h
          obtain ⟨x, hx, h⟩ := except_bind_ok h
          cases hx
          exact jp s2 _ _ s' (relocate_inv _ s2 _ _ _ _ (by rw [ev_root]; exact hI) hs2)
            (relocate_allQ Q _ s2 _ _ _ _ (by rw [ev_root]; exact hI) (by rw [ev_root]; exact hQ) hs2)
            ⟨path, rfl⟩ (by simp [Entry.setLoc]) h
        · obtain ⟨x, hx, h⟩ := except_bind_ok h
          cases hx
          exact jp s _ _ s' hI hQ ⟨dloc, rfl⟩ rfl h
      · obtain ⟨x, hx, h⟩ := except_bind_ok h
        cases hx
        exact jp s _ _ s' hI hQ ⟨dloc, rfl⟩ rfl h
  · rename_i hloc
    split at h
    · injection h with h; subst h; exact hQ
    · rename_i hnt
      split at h
      · injection h with h; subst h; exact hQ
      · split at h
        · cases h
        · rename_i g hfg
          injection h with h; subst h
          rw [ev_root]
          refine allQ_add_child Q s.root g (.entry oe) path hI hQ hfg ?_
          intro x hx
          simp only [uuidsN, List.mem_singleton] at hx
          subst hx
          exact hT _ (by simpa using hnt) hoe

mutual
  theorem mergeGroup_allQ (Q P : Nat → Prop) (now : Int) (tombs : List Tomb)
      (hT : ∀ u, tombsContain tombs u = false → P u → Q u) :
      ∀ (g : Node) (s s' : St) (path : List Nat) (inDel : Bool), (∀ u ∈ uuidsL g.children, P u) → Inv s.root → AllQ Q s.root →
        mergeGroup now tombs s path g inDel = .ok s' → AllQ Q s'.root
    | .entry _, s, s', _, _, _, _, hQ, h => by
      simp only [mergeGroup] at h
      injection h with h; subst h; exact hQ
    | .group gu gc gt cs, s, s', path, inDel, hS, hI, hQ, h => by
      have hScs : ∀ u ∈ uuidsL cs, P u := fun u hu => hS u (by simpa [Node.children] using hu)
      unfold mergeGroup at h
      dsimp only at h
      have jp : ∀ (s1 : St) (p1 : List Nat), Inv s1.root → AllQ Q s1.root →
          (do
            let s ← mergeEntries now tombs s1 p1 inDel cs
            mergeSubgroups now tombs s p1 inDel cs) = .ok s' → AllQ Q s'.root := by
        intro s1 p1 hI1 hQ1 hk
        obtain ⟨s2, hs2, hk⟩ := except_bind_ok hk
        exact mergeSubgroups_allQ Q P now tombs hT cs s2 s' p1 inDel hScs (mergeEntries_inv now tombs cs s1 s2 p1 inDel hI1 hs2)
          (mergeEntries_allQ Q P now tombs hT cs s1 s2 p1 inDel hScs hI1 hQ1 hs2) hk
      split at h
      · obtain ⟨x, hx, h⟩ := except_bind_ok h
        cases hx
        exact jp s path hI hQ h
      · rename_i dloc hloc
        split at h
        · obtain ⟨x, hx, h⟩ := except_bind_ok h
          cases hx
        · rename_i du dc dt dch hfg
          obtain ⟨x, hx, h⟩ := except_bind_ok h
          obtain ⟨c', t', upd⟩ := x
          dsimp only at h
          obtain ⟨y, hy, h⟩ := except_bind_ok h
          cases hy
          have hupdI : Inv (updatePath s.root (dloc ++ [gu]) (fun n => match n with
              | .group u _ _ ch => .group u c' t' ch
              | e => e)) := by
            refine inv_update_same s.root (.group du dc dt dch) _ _ hI (by simp) (findGroup_some hfg).1 ?_
            simp [uuidsN]
          have hupdQ : AllQ Q (updatePath s.root (dloc ++ [gu]) (fun n => match n with
              | .group u _ _ ch => .group u c' t' ch
              | e => e)) := by
            refine allQ_update_same Q s.root (.group du dc dt dch) _ _ hI hQ (by simp) (findGroup_some hfg).1 ?_
            simp [uuidsN]
          refine jp _ _ ?_ ?_ h
          · split
            · rw [ev_root]; exact hupdI
            · exact hupdI
          · split
            · rw [ev_root]; exact hupdQ
            · exact hupdQ
        · obtain ⟨x, hx, h⟩ := except_bind_ok h
          cases hx

  theorem mergeEntries_allQ (Q P : Nat → Prop) (now : Int) (tombs : List Tomb)
      (hT : ∀ u, tombsContain tombs u = false → P u → Q u) :
      ∀ (cs : List Node) (s s' : St) (path : List Nat) (inDel : Bool), (∀ u ∈ uuidsL cs, P u) → Inv s.root → AllQ Q s.root →
        mergeEntries now tombs s path inDel cs = .ok s' → AllQ Q s'.root
    | [], s, s', _, _, _, _, hQ, h => by
      simp only [mergeEntries] at h
      injection h with h; subst h; exact hQ
    | .entry e :: rest, s, s', path, inDel, hS, hI, hQ, h => by
      unfold mergeEntries at h
      obtain ⟨s1, hs1, h⟩ := except_bind_ok h
      have hrest : ∀ u ∈ uuidsL rest, P u := fun u hu => hS u (by simp [uuidsL, hu])
      exact mergeEntries_allQ Q P now tombs hT rest s1 s' path inDel hrest (mergeEntryStep_inv now tombs s s1 path inDel e hI hs1)
        (mergeEntryStep_allQ Q P now tombs hT s s1 path inDel e (hS _ (by simp [uuidsL, uuidsN])) hI hQ hs1) h
    | .group _ _ _ _ :: rest, s, s', path, inDel, hS, hI, hQ, h => by
      unfold mergeEntries at h
      have hrest : ∀ u ∈ uuidsL rest, P u := fun u hu => hS u (by simp [uuidsL, hu])
      exact mergeEntries_allQ Q P now tombs hT rest s s' path inDel hrest hI hQ h

  theorem mergeSubgroups_allQ (Q P : Nat → Prop) (now : Int) (tombs : List Tomb)
      (hT : ∀ u, tombsContain tombs u = false → P u → Q u) :
      ∀ (cs : List Node) (s s' : St) (path : List Nat) (inDel : Bool), (∀ u ∈ uuidsL cs, P u) → Inv s.root → AllQ Q s.root →
        mergeSubgroups now tombs s path inDel cs = .ok s' → AllQ Q s'.root
    | [], s, s', _, _, _, _, hQ, h => by
      simp only [mergeSubgroups] at h
      injection h with h; subst h; exact hQ
    | .entry _ :: rest, s, s', path, inDel, hS, hI, hQ, h => by
      unfold mergeSubgroups at h
      have hrest : ∀ u ∈ uuidsL rest, P u := fun u hu => hS u (by simp [uuidsL, hu])
      exact mergeSubgroups_allQ Q P now tombs hT rest s s' path inDel hrest hI hQ h
    | .group ou oc ot ocs :: rest, s, s', path, inDel, hS, hI, hQ, h => by
      have hrest : ∀ u ∈ uuidsL rest, P u := fun u hu => hS u (by simp [uuidsL, hu])
      have hog : ∀ u ∈ uuidsN (Node.group ou oc ot ocs), P u := fun u hu => hS u (by simp only [uuidsL, List.mem_append]; exact Or.inl hu)
      unfold mergeSubgroups at h
      dsimp only at h
      have viaGroup : ∀ (s0 : St) (b : Bool), Inv s0.root → AllQ Q s0.root →
          (do
            let s ← mergeGroup now tombs s0 (path ++ [ou]) (.group ou oc ot ocs) b
            mergeSubgroups now tombs s (refreshPath s.root path) inDel rest) = .ok s' → AllQ Q s'.root := by
        intro s0 b hI0 hQ0 hk
        obtain ⟨s1, hs1, hk⟩ := except_bind_ok hk
        exact mergeSubgroups_allQ Q P now tombs hT rest s1 s' _ inDel hrest
          (mergeGroup_inv now tombs (.group ou oc ot ocs) s0 s1 _ b hI0 hs1)
          (mergeGroup_allQ Q P now tombs hT (.group ou oc ot ocs) s0 s1 _ b
            (fun u hu => hog u (by simp only [uuidsN, List.mem_cons]; exact Or.inr (by simpa [Node.children] using hu))) hI0 hQ0 hs1) hk
      split at h
      · exact viaGroup s true hI hQ h
      · rename_i hguard
        split at h
        · rename_i dloc hloc
          split at h
          · split at h
            · obtain ⟨x, hx, h⟩ := except_bind_ok h
              cases hx
            · rename_i eg hfg
              split at h
              · obtain ⟨s2, hs2, h⟩ := except_bind_ok h
                refine viaGroup _ inDel ?_ ?_ h
                · rw [ev_root]; exact relocate_inv s s2 _ _ _ _ hI hs2
                · rw [ev_root]; exact relocate_allQ Q s s2 _ _ _ _ hI hQ hs2
              · exact viaGroup s inDel hI hQ h
          · exact viaGroup s inDel hI hQ h
        · rename_i hloc
          split at h
          · obtain ⟨x, hx, h⟩ := except_bind_ok h
            cases hx
          · rename_i pg hfg
            rw [ev_root] at hfg
            have hnt : tombsContain tombs ou = false := by
              have : ¬ ((tombsContain tombs ou || inDel) = true) := hguard
              simp only [Bool.or_eq_true, not_or] at this
              simpa using this.1
            refine viaGroup _ inDel ?_ ?_ h
            · simp only
              refine inv_add_child s.root pg (.group ou oc ot []) path hI hfg (by simp [uuidsN, uuidsL]) ?_
              intro x hx
              simp only [uuidsN, uuidsL, List.mem_cons, List.not_mem_nil, or_false] at hx
              subst hx
              exact findLoc_none_notMem s.root _ hloc
            · simp only
              refine allQ_add_child Q s.root pg (.group ou oc ot []) path hI hQ hfg ?_
              intro x hx
              simp only [uuidsN, uuidsL, List.mem_cons, List.not_mem_nil, or_false] at hx
              subst hx
              exact hT _ hnt (hog _ (by simp [uuidsN]))
end


/-! ### deletions only remove -/

theorem remove_step_sublist (root parent parent' last : Node) (loc : List Nat) (u : Nat) (hr : root.isGroup = true)
    (h3 : findGroup root loc = some parent) (h9 : removeNode parent u = some (parent', last)) :
    (uuidsL (updatePath root loc (fun _ => parent')).children).Sublist (uuidsL root.children) := by
  obtain ⟨gp, gpg⟩ := findGroup_some h3
  obtain ⟨_, _, hp'⟩ := removeNode_facts parent parent' last u h9
  have hsub : (uuidsN parent').Sublist (uuidsN parent) := by
    rw [hp', uuidsN_setChildren _ _ gpg, uuidsN_group parent gpg]
    exact List.Sublist.cons_cons _ (uuidsL_filter_sublist _ _)
  have hpg : parent'.isGroup = true := by
    rw [hp']; cases parent <;> simp [Node.setChildren, Node.isGroup] at gpg ⊢
  have hg' := updatePath_isGroup loc root (fun _ => parent') hr (fun _ => hpg)
  have hs1 := uuidsN_updatePath_sublist loc root parent (fun _ => parent') hr gp hsub
  rw [uuidsN_group _ hg', uuidsN_group _ hr] at hs1
  have := List.Sublist.tail hs1
  simpa using this

theorem deleteEntries_subset (now : Int) : ∀ (ts : List Tomb) (s : St) (nt : List Tomb) (s' : St) (nt' : List Tomb),
    s.root.isGroup = true → deleteEntries now s nt ts = .ok (s', nt') →
    s'.root.isGroup = true ∧ ∀ u ∈ uuidsL s'.root.children, u ∈ uuidsL s.root.children := by
  intro ts
  induction ts with
  | nil =>
    intro s nt s' nt' hr h
    simp only [deleteEntries, Except.ok.injEq, Prod.mk.injEq] at h
    obtain ⟨rfl, _⟩ := h
    exact ⟨hr, fun u hu => hu⟩
  | cons d rest ih =>
    intro s nt s' nt' hr h
    unfold deleteEntries at h
    split at h
    · exact ih s nt s' nt' hr h
    · split at h
      · exact ih s nt s' nt' hr h
      · rename_i loc hloc
        split at h
        · cases h
        · rename_i parent h3
          split at h
          · exact ih s nt s' nt' hr h
          · split at h
            · split at h
              · cases h
              · rename_i parent' last h9
                have hsub := remove_step_sublist s.root parent parent' last loc d.uuid hr h3 h9
                obtain ⟨_, gpg⟩ := findGroup_some h3
                obtain ⟨_, _, hp'⟩ := removeNode_facts parent parent' last d.uuid h9
                have hpg : parent'.isGroup = true := by
                  rw [hp']; cases parent <;> simp [Node.setChildren, Node.isGroup] at gpg ⊢
                have hg' := updatePath_isGroup loc s.root (fun _ => parent') hr (fun _ => hpg)
                have := ih _ _ s' nt' (by rw [ev_root]; exact hg') h
                exact ⟨this.1, fun u hu => hsub.subset (by simpa [St.ev] using this.2 u hu)⟩
            · exact ih s nt s' nt' hr h

theorem gdecide_delete_subset (now : Int) (s : St) (nt : List Tomb) (d : Tomb) (q : List Tomb) (s' : St) (nt' : List Tomb)
    (hr : s.root.isGroup = true) (h : gdecide now s nt d q = .delete s' nt') :
    ∀ u ∈ uuidsL s'.root.children, u ∈ uuidsL s.root.children := by
  unfold gdecide at h
  split at h
  · cases h
  · split at h
    · cases h
    · rename_i loc hloc
      split at h
      · cases h
      · rename_i parent h3
        split at h
        · cases h
        · dsimp only at h
          split at h
          · cases h
          · split at h
            · cases h
            · split at h
              · cases h
              · split at h
                · split at h
                  · cases h
                  · rename_i parent' last h9
                    injection h with h1 h2
                    subst h1
                    rw [ev_root]
                    exact fun u hu => (remove_step_sublist s.root parent parent' last loc d.uuid hr h3 h9).subset hu
                · cases h

theorem deleteGroups_subset (now : Int) : ∀ (fuel : Nat) (s : St) (nt q : List Tomb) (s' : St) (nt' : List Tomb), Inv s.root →
    deleteGroups now fuel s nt q = .ok (s', nt') → ∀ u ∈ uuidsL s'.root.children, u ∈ uuidsL s.root.children := by
  intro fuel
  induction fuel with
  | zero =>
    intro s nt q s' nt' _ h
    unfold deleteGroups at h
    split at h
    · injection h with h; injection h with h1 h2; subst h1; exact fun u hu => hu
    · cases h
  | succ n ih =>
    intro s nt q s' nt' hI h
    cases q with
    | nil =>
      unfold deleteGroups at h
      injection h with h; injection h with h1 h2; subst h1; exact fun u hu => hu
    | cons d q =>
      rw [deleteGroups_step] at h
      split at h
      · exact ih s nt q s' nt' hI h
      · exact ih s nt _ s' nt' hI h
      · rename_i s1 nt1 hdec
        have hinv := gdecide_delete_inv now s nt d q s1 nt1 hI.1 hI.2 hdec
        have hsub := gdecide_delete_subset now s nt d q s1 nt1 hI.1 hdec
        exact fun u hu => hsub u (ih s1 nt1 q s' nt' ⟨hinv.1, hinv.2⟩ h u hu)
      · cases h

theorem mergePasses_allQ (Q P : Nat → Prop) (now : Int) (tombs : List Tomb)
    (hT : ∀ u, tombsContain tombs u = false → P u → Q u)
    (srcRoot : Node) (hS : ∀ u ∈ uuidsL srcRoot.children, P u) : ∀ (k : Nat) (s s' : St), Inv s.root → AllQ Q s.root →
    mergePasses now tombs srcRoot k s = .ok s' → AllQ Q s'.root := by
  intro k
  induction k with
  | zero => intro s s' _ hQ h; simp only [mergePasses] at h; injection h with h; subst h; exact hQ
  | succ k ih =>
    intro s s' hI hQ h
    unfold mergePasses at h
    split at h
    · cases h
    · rename_i s1 hs1
      have hI1 : Inv s1.root := mergeGroup_inv now tombs srcRoot { s with events := [] } s1 [] false hI hs1
      have hQ1 : AllQ Q s1.root := mergeGroup_allQ Q P now tombs hT srcRoot { s with events := [] } s1 [] false hS hI hQ hs1
      dsimp only at h
      split at h
      · injection h with h; subst h; exact hQ1
      · exact ih _ s' (show Inv ({ s1 with events := s.events ++ s1.events } : St).root from hI1)
          (show AllQ Q ({ s1 with events := s.events ++ s1.events } : St).root from hQ1) h

theorem mergeRoot_children (now : Int) (s s' : St) (srcRoot : Node) (h : mergeRoot now s srcRoot = .ok s') :
    s'.root.children = s.root.children := by
  obtain ⟨root, ev⟩ := s
  cases root with
  | entry e => simp only [mergeRoot] at h; injection h with h; subst h; rfl
  | group du dc dt ch =>
    cases srcRoot with
    | entry e => simp only [mergeRoot] at h; injection h with h; subst h; rfl
    | group su sc st sch =>
      simp only [mergeRoot] at h
      split at h
      · obtain ⟨x, hx, h⟩ := except_bind_ok h
        obtain ⟨c', t', upd⟩ := x
        dsimp only at h
        injection h with h; subst h
        split <;> rfl
      · injection h with h; subst h; rfl

/-- **no resurrection**: a UUID the destination has tombstoned and does not hold is not below the root of the result -/
theorem merge_noResurrection (now : Int) (dst src d' : Db) (evs : List Event) (hI : Inv dst.root)
    (h : merge now dst src = .ok (d', evs)) (u : Nat) (ht : tombsContain dst.tombs u = true)
    (hu : u ∉ uuidsL dst.root.children) : u ∉ uuidsL d'.root.children := by
  let Q : Nat → Prop := fun x => tombsContain dst.tombs x = false ∨ x ∈ uuidsL dst.root.children
  have hT : ∀ x, tombsContain dst.tombs x = false → True → Q x := fun x hx _ => Or.inl hx
  unfold merge at h
  dsimp only at h
  obtain ⟨s1, hs1, h⟩ := except_bind_ok h
  have hI1 := mergeRoot_inv now _ s1 src.root hI hs1
  have hc1 := mergeRoot_children now _ s1 src.root hs1
  have hQ1 : AllQ Q s1.root := by
    intro x hx; rw [hc1] at hx; exact Or.inr hx
  obtain ⟨s2, hs2, h⟩ := except_bind_ok h
  have hI2 := mergePasses_inv now _ _ _ _ s2 hI1 hs2
  have hQ2 := mergePasses_allQ Q (fun _ => True) now dst.tombs hT src.root (fun _ _ => trivial) _ s1 s2 hI1 hQ1 hs2
  obtain ⟨x, hx, h⟩ := except_bind_ok h
  obtain ⟨s3, tombs⟩ := x
  dsimp only at h
  injection h with h; injection h with h1 h2
  subst h1
  simp only
  unfold mergeDeletions at hx
  obtain ⟨r, hr, hx⟩ := except_bind_ok hx
  obtain ⟨s4, nt4⟩ := r
  have hsub4 := deleteEntries_subset now src.tombs s2 dst.tombs s4 nt4 hI2.1 hr
  obtain ⟨_, hinv⟩ := deleteEntries_inv now src.tombs s2 dst.tombs hI2.1 hI2.2
  have hI4 := hinv s4 nt4 hr
  have hsub3 := deleteGroups_subset now _ s4 nt4 _ s3 tombs ⟨hI4.1, hI4.2⟩ hx
  intro hmem
  have := hQ2 u (hsub4.2 u (hsub3 u hmem))
  rcases this with h1 | h1
  · rw [ht] at h1; cases h1
  · exact hu h1


/-! ### nothing is both present and tombstoned -/

/-- no UUID below the root has a tombstone in `nt` -/
def Clean (nt : List Tomb) (r : Node) : Prop := ∀ u ∈ uuidsL r.children, tombsContain nt u = false

theorem tombsContain_append (a b : List Tomb) (u : Nat) : tombsContain (a ++ b) u = (tombsContain a u || tombsContain b u) := by
  simp [tombsContain, List.any_append]

theorem remove_step_notMem (root parent parent' last : Node) (loc : List Nat) (u : Nat) (hI : Inv root)
    (h3 : findGroup root loc = some parent) (h9 : removeNode parent u = some (parent', last)) :
    u ∉ uuidsL (updatePath root loc (fun _ => parent')).children := by
  obtain ⟨_, hperm⟩ := remove_perm root parent parent' last u loc hI h3 h9
  obtain ⟨hlu, _, _⟩ := removeNode_facts parent parent' last u h9
  have hnd := hperm.nodup_iff.mp hI.2
  have hparts := List.nodup_append.mp hnd
  intro hmem
  exact hparts.2.2 u hmem u (hlu ▸ uuid_mem_uuidsN last) rfl

theorem clean_after_remove (nt : List Tomb) (d : Tomb) (root parent parent' last : Node) (loc : List Nat) (hI : Inv root)
    (hC : Clean nt root) (h3 : findGroup root loc = some parent) (h9 : removeNode parent d.uuid = some (parent', last)) :
    Clean (nt ++ [d]) (updatePath root loc (fun _ => parent')) := by
  intro x hx
  have hsub := remove_step_sublist root parent parent' last loc d.uuid hI.1 h3 h9
  have hnot := remove_step_notMem root parent parent' last loc d.uuid hI h3 h9
  rw [tombsContain_append, hC x (hsub.subset hx), Bool.false_or]
  have : x ≠ d.uuid := fun e => hnot (e ▸ hx)
  simp [tombsContain, List.any_cons, this, Ne.symm this]

theorem deleteEntries_clean (now : Int) : ∀ (ts : List Tomb) (s : St) (nt : List Tomb) (s' : St) (nt' : List Tomb),
    Inv s.root → Clean nt s.root → deleteEntries now s nt ts = .ok (s', nt') → Clean nt' s'.root := by
  intro ts
  induction ts with
  | nil =>
    intro s nt s' nt' _ hC h
    simp only [deleteEntries, Except.ok.injEq, Prod.mk.injEq] at h
    obtain ⟨rfl, rfl⟩ := h
    exact hC
  | cons d rest ih =>
    intro s nt s' nt' hI hC h
    unfold deleteEntries at h
    split at h
    · exact ih s nt s' nt' hI hC h
    · split at h
      · exact ih s nt s' nt' hI hC h
      · rename_i loc hloc
        split at h
        · cases h
        · rename_i parent h3
          split at h
          · exact ih s nt s' nt' hI hC h
          · split at h
            · split at h
              · cases h
              · rename_i parent' last h9
                have hC' := clean_after_remove nt d s.root parent parent' last loc hI hC h3 h9
                have hsub := remove_step_sublist s.root parent parent' last loc d.uuid hI.1 h3 h9
                obtain ⟨_, gpg⟩ := findGroup_some h3
                obtain ⟨_, _, hp'⟩ := removeNode_facts parent parent' last d.uuid h9
                have hpg : parent'.isGroup = true := by
                  rw [hp']; cases parent <;> simp [Node.setChildren, Node.isGroup] at gpg ⊢
                have hg' := updatePath_isGroup loc s.root (fun _ => parent') hI.1 (fun _ => hpg)
                exact ih _ _ s' nt' (by rw [ev_root]; exact ⟨hg', List.Nodup.sublist hsub hI.2⟩)
                  (by rw [ev_root]; exact hC') h
            · exact ih s nt s' nt' hI hC h

theorem gdecide_delete_clean (now : Int) (s : St) (nt : List Tomb) (d : Tomb) (q : List Tomb) (s' : St) (nt' : List Tomb)
    (hI : Inv s.root) (hC : Clean nt s.root) (h : gdecide now s nt d q = .delete s' nt') : Clean nt' s'.root := by
  unfold gdecide at h
  split at h
  · cases h
  · split at h
    · cases h
    · rename_i loc hloc
      split at h
      · cases h
      · rename_i parent h3
        split at h
        · cases h
        · dsimp only at h
          split at h
          · cases h
          · split at h
            · cases h
            · split at h
              · cases h
              · split at h
                · split at h
                  · cases h
                  · rename_i parent' last h9
                    injection h with h1 h2
                    subst h1; subst h2
                    rw [ev_root]
                    exact clean_after_remove nt d s.root parent parent' last loc hI hC h3 h9
                · cases h

theorem deleteGroups_clean (now : Int) : ∀ (fuel : Nat) (s : St) (nt q : List Tomb) (s' : St) (nt' : List Tomb), Inv s.root →
    Clean nt s.root → deleteGroups now fuel s nt q = .ok (s', nt') → Clean nt' s'.root := by
  intro fuel
  induction fuel with
  | zero =>
    intro s nt q s' nt' _ hC h
    unfold deleteGroups at h
    split at h
    · injection h with h; injection h with h1 h2; subst h1; subst h2; exact hC
    · cases h
  | succ n ih =>
    intro s nt q s' nt' hI hC h
    cases q with
    | nil =>
      unfold deleteGroups at h
      injection h with h; injection h with h1 h2; subst h1; subst h2; exact hC
    | cons d q =>
      rw [deleteGroups_step] at h
      split at h
      · exact ih s nt q s' nt' hI hC h
      · exact ih s nt _ s' nt' hI hC h
      · rename_i s1 nt1 hdec
        have hinv := gdecide_delete_inv now s nt d q s1 nt1 hI.1 hI.2 hdec
        exact ih s1 nt1 q s' nt' ⟨hinv.1, hinv.2⟩ (gdecide_delete_clean now s nt d q s1 nt1 hI hC hdec) h
      · cases h

/-- **no node is both present and tombstoned** after a merge, when none was before -/
theorem merge_clean (now : Int) (dst src d' : Db) (evs : List Event) (hI : Inv dst.root) (hC : Clean dst.tombs dst.root)
    (h : merge now dst src = .ok (d', evs)) : Clean d'.tombs d'.root := by
  let Q : Nat → Prop := fun x => tombsContain dst.tombs x = false
  unfold merge at h
  dsimp only at h
  obtain ⟨s1, hs1, h⟩ := except_bind_ok h
  have hI1 := mergeRoot_inv now _ s1 src.root hI hs1
  have hc1 := mergeRoot_children now _ s1 src.root hs1
  have hQ1 : AllQ Q s1.root := by
    intro x hx; rw [hc1] at hx; exact hC x hx
  obtain ⟨s2, hs2, h⟩ := except_bind_ok h
  have hI2 := mergePasses_inv now _ _ _ _ s2 hI1 hs2
  have hQ2 := mergePasses_allQ Q (fun _ => True) now dst.tombs (fun _ hx _ => hx) src.root (fun _ _ => trivial) _ s1 s2 hI1 hQ1 hs2
  obtain ⟨x, hx, h⟩ := except_bind_ok h
  obtain ⟨s3, tombs⟩ := x
  dsimp only at h
  injection h with h; injection h with h1 h2
  subst h1
  simp only
  unfold mergeDeletions at hx
  obtain ⟨r, hr, hx⟩ := except_bind_ok hx
  obtain ⟨s4, nt4⟩ := r
  have hC4 := deleteEntries_clean now src.tombs s2 dst.tombs s4 nt4 hI2 hQ2 hr
  obtain ⟨_, hinv⟩ := deleteEntries_inv now src.tombs s2 dst.tombs hI2.1 hI2.2
  have hI4 := hinv s4 nt4 hr
  exact deleteGroups_clean now _ s4 nt4 _ s3 tombs ⟨hI4.1, hI4.2⟩ hC4 hx

/-- **no node from nowhere**: every UUID below the root of the result is below the root of the destination or below the root of the source -/
theorem merge_noForeignNodes (now : Int) (dst src d' : Db) (evs : List Event) (hI : Inv dst.root)
    (h : merge now dst src = .ok (d', evs)) :
    ∀ u ∈ uuidsL d'.root.children, u ∈ uuidsL dst.root.children ∨ u ∈ uuidsL src.root.children := by
  let Q : Nat → Prop := fun x => x ∈ uuidsL dst.root.children ∨ x ∈ uuidsL src.root.children
  let P : Nat → Prop := fun x => x ∈ uuidsL src.root.children
  unfold merge at h
  dsimp only at h
  obtain ⟨s1, hs1, h⟩ := except_bind_ok h
  have hI1 := mergeRoot_inv now _ s1 src.root hI hs1
  have hc1 := mergeRoot_children now _ s1 src.root hs1
  have hQ1 : AllQ Q s1.root := by
    intro x hx; rw [hc1] at hx; exact Or.inl hx
  obtain ⟨s2, hs2, h⟩ := except_bind_ok h
  have hI2 := mergePasses_inv now _ _ _ _ s2 hI1 hs2
  have hQ2 := mergePasses_allQ Q P now dst.tombs (fun _ _ hp => Or.inr hp) src.root (fun _ hu => hu) _ s1 s2 hI1 hQ1 hs2
  obtain ⟨x, hx, h⟩ := except_bind_ok h
  obtain ⟨s3, tombs⟩ := x
  dsimp only at h
  injection h with h; injection h with h1 h2
  subst h1
  simp only
  unfold mergeDeletions at hx
  obtain ⟨r, hr, hx⟩ := except_bind_ok hx
  obtain ⟨s4, nt4⟩ := r
  have hsub4 := deleteEntries_subset now src.tombs s2 dst.tombs s4 nt4 hI2.1 hr
  obtain ⟨_, hinv⟩ := deleteEntries_inv now src.tombs s2 dst.tombs hI2.1 hI2.2
  have hI4 := hinv s4 nt4 hr
  have hsub3 := deleteGroups_subset now _ s4 nt4 _ s3 tombs ⟨hI4.1, hI4.2⟩ hx
  intro u hu
  exact hQ2 u (hsub4.2 u (hsub3 u hu))


/-! ### every group keeps a modification time -/

theorem timedL_append (a b : List Node) : timedL (a ++ b) ↔ timedL a ∧ timedL b := by
  induction a with
  | nil => simp [timedL]
  | cons c cs ih => simp [timedL, ih, and_assoc]

theorem timedL_filter (p : Node → Bool) : ∀ (cs : List Node), timedL cs → timedL (cs.filter p) := by
  intro cs
  induction cs with
  | nil => intro h; exact h
  | cons c cs ih =>
    intro h
    simp only [timedL] at h
    simp only [List.filter_cons]
    split
    · exact ⟨h.1, ih h.2⟩
    · exact ih h.2

theorem timedL_updFirst (p : Node → Bool) (f : Node → Node) (hf : ∀ n, timedN n → timedN (f n)) : ∀ (cs : List Node),
    timedL cs → timedL (updFirst p f cs) := by
  intro cs
  induction cs with
  | nil => intro h; exact h
  | cons c cs ih =>
    intro h
    simp only [timedL] at h
    simp only [updFirst]
    split
    · exact ⟨hf c h.1, h.2⟩
    · exact ⟨h.1, ih h.2⟩

theorem timedN_children (g : Node) (h : timedN g) : timedL g.children := by
  cases g with
  | group u c t cs => simp only [timedN] at h; exact h.2
  | entry e => simp [Node.children, timedL]

theorem timedN_setChildren (g : Node) (cs : List Node) (hg : timedN g) (hcs : timedL cs) : timedN (g.setChildren cs) := by
  cases g with
  | group u c t ch => simp only [timedN] at hg; exact ⟨hg.1, hcs⟩
  | entry e => trivial

theorem timedN_updatePath (f : Node → Node) (hf : ∀ n, timedN n → timedN (f n)) : ∀ (path : List Nat) (root : Node),
    timedN root → timedN (updatePath root path f) := by
  intro path
  induction path with
  | nil => intro root h; simp only [updatePath]; exact hf root h
  | cons u rest ih =>
    intro root h
    cases rest with
    | nil =>
      simp only [updatePath]
      exact timedN_setChildren root _ h (timedL_updFirst _ f hf _ (timedN_children root h))
    | cons v rest' =>
      simp only [updatePath]
      exact timedN_setChildren root _ h (timedL_updFirst _ _ (fun n hn => ih n hn) _ (timedN_children root h))

theorem timedN_getPath : ∀ (path : List Nat) (root n : Node), timedN root → getPath root path = some n → timedN n := by
  intro path
  induction path with
  | nil => intro root n h hg; simp only [getPath, Option.some.injEq] at hg; subst hg; exact h
  | cons u rest ih =>
    intro root n h hg
    cases rest with
    | nil =>
      simp only [getPath] at hg
      exact timedL_mem _ n (timedN_children root h) (find_first hg).1
    | cons v rest' =>
      simp only [getPath] at hg
      cases hc : root.children.find? (fun n => n.isGroup && n.uuid == u) with
      | none => rw [hc] at hg; cases hg
      | some c =>
        rw [hc] at hg
        simp only at hg
        exact ih c n (timedL_mem _ c (timedN_children root h) (find_first hc).1) hg

theorem timedN_setLoc (n : Node) (ts : Int) (h : timedN n) : timedN (n.setLoc ts) := by
  cases n with
  | group u c t cs => simp only [Node.setLoc, timedN] at h ⊢; exact h
  | entry e => trivial

theorem relocate_timed (s s' : St) (u : Nat) (fromP toP : List Nat) (ts : Int) (hT : timedN s.root)
    (h : relocate s u fromP toP ts = .ok s') : timedN s'.root := by
  unfold relocate at h
  cases hfg : findGroup s.root fromP with
  | none => rw [hfg] at h; cases h
  | some g =>
    rw [hfg] at h
    simp only at h
    cases hrm : removeNode g u with
    | none => rw [hrm] at h; cases h
    | some pr =>
      obtain ⟨g', node⟩ := pr
      rw [hrm] at h
      simp only at h
      cases hft : findGroup (updatePath s.root fromP (fun _ => g')) toP with
      | none => rw [hft] at h; cases h
      | some t =>
        rw [hft] at h
        simp only at h
        injection h with h
        subst h
        simp only
        have ⟨hgp, _⟩ := findGroup_some hfg
        have hgt := timedN_getPath fromP s.root g hT hgp
        obtain ⟨_, hnm, hg'⟩ := removeNode_facts g g' node u hrm
        have hg't : timedN g' := by
          rw [hg']; exact timedN_setChildren g _ hgt (timedL_filter _ _ (timedN_children g hgt))
        have hnode : timedN node := timedL_mem _ node (timedN_children g hgt) hnm
        have h1 : timedN (updatePath s.root fromP (fun _ => g')) := timedN_updatePath _ (fun _ _ => hg't) fromP s.root hT
        refine timedN_updatePath _ (fun n hn => ?_) toP _ h1
        exact timedN_setChildren n _ hn ((timedL_append _ _).mpr ⟨timedN_children n hn, ⟨timedN_setLoc node ts hnode, trivial⟩⟩)

theorem groupMergeData_timed (now : Int) (du dc : Nat) (dt : Times) (su sc : Nat) (st : Times) (c' : Nat) (t' : Times) (upd : Bool)
    (hd : dt.mtime.isSome) (hs : st.mtime.isSome) (h : groupMergeData now du dc dt su sc st = .ok (c', t', upd)) :
    t'.mtime.isSome := by
  unfold groupMergeData at h
  dsimp only at h
  split at h
  · split at h
    · cases h
    · injection h with h; injection h with h1 h2; injection h2 with h2 h3; subst h2; exact hd
  · split at h
    · injection h with h; injection h with h1 h2; injection h2 with h2 h3; subst h2; exact hd
    · injection h with h; injection h with h1 h2; injection h2 with h2 h3; subst h2; exact hs


theorem mergeEntryStep_timed (now : Int) (tombs : List Tomb) (s s' : St) (path : List Nat) (inDeleted : Bool) (oe : Entry)
    (hT : timedN s.root) (h : mergeEntryStep now tombs s path inDeleted oe = .ok s') : timedN s'.root := by
  unfold mergeEntryStep at h
  split at h
  · split at h
    · cases h
    · rename_i existing0 _
      have jp : ∀ (s1 : St) (eloc : List Nat) (existing : Entry) (s' : St), timedN s1.root →
          (do
            let upd ← entryUpdate now existing oe
            match upd with
              | none => pure s1
              | some merged =>
                match findEntry s1.root eloc with
                | none => Except.error MErr.findEntry
                | some _ =>
                  pure ({ s1 with root := updatePath s1.root eloc (fun _ => Node.entry merged) }.ev .entryUpdated merged.d.uuid)) = .ok s' →
          timedN s'.root := by
        intro s1 eloc existing s'' hT1 hk
        obtain ⟨upd, _, hk⟩ := except_bind_ok hk
        cases upd with
        | none => simp only at hk; injection hk with hk; subst hk; exact hT1
        | some merged =>
          simp only at hk
          split at hk
          · cases hk
          · injection hk with hk; subst hk
            rw [ev_root]
            exact timedN_updatePath (fun _ => Node.entry merged) (fun _ _ => trivial) eloc s1.root hT1
      dsimp only at h
      split at h
      · split at h
        · obtain ⟨s2, hs2, h⟩ := except_bind_ok h
          obtain ⟨x, hx, h⟩ := except_bind_ok h
          cases hx
          exact jp s2 _ _ s' (relocate_timed _ s2 _ _ _ _ (by rw [ev_root]; exact hT) hs2) h
        · obtain ⟨x, hx, h⟩ := except_bind_ok h
          cases hx
          exact jp s _ _ s' hT h
      · obtain ⟨x, hx, h⟩ := except_bind_ok h
        cases hx
        exact jp s _ _ s' hT h
  · split at h
    · injection h with h; subst h; exact hT
    · split at h
      · injection h with h; subst h; exact hT
      · split at h
        · cases h
        · injection h with h; subst h
          rw [ev_root]
          refine timedN_updatePath _ (fun n hn => ?_) path s.root hT
          exact timedN_setChildren n _ hn ((timedL_append _ _).mpr ⟨timedN_children n hn, ⟨trivial, trivial⟩⟩)

mutual
  theorem mergeGroup_timed (now : Int) (tombs : List Tomb) :
      ∀ (g : Node) (s s' : St) (path : List Nat) (inDel : Bool), timedN g → timedN s.root →
        mergeGroup now tombs s path g inDel = .ok s' → timedN s'.root
    | .entry _, s, s', _, _, _, hT, h => by
      simp only [mergeGroup] at h
      injection h with h; subst h; exact hT
    | .group gu gc gt cs, s, s', path, inDel, hS, hT, h => by
      simp only [timedN] at hS
      unfold mergeGroup at h
      dsimp only at h
      have jp : ∀ (s1 : St) (p1 : List Nat), timedN s1.root →
          (do
            let s ← mergeEntries now tombs s1 p1 inDel cs
            mergeSubgroups now tombs s p1 inDel cs) = .ok s' → timedN s'.root := by
        intro s1 p1 hT1 hk
        obtain ⟨s2, hs2, hk⟩ := except_bind_ok hk
        exact mergeSubgroups_timed now tombs cs s2 s' p1 inDel hS.2 (mergeEntries_timed now tombs cs s1 s2 p1 inDel hT1 hs2) hk
      split at h
      · obtain ⟨x, hx, h⟩ := except_bind_ok h
        cases hx
        exact jp s path hT h
      · rename_i dloc hloc
        split at h
        · obtain ⟨x, hx, h⟩ := except_bind_ok h
          cases hx
        · rename_i du dc dt dch hfg
          obtain ⟨x, hx, h⟩ := except_bind_ok h
          obtain ⟨c', t', upd⟩ := x
          dsimp only at h
          obtain ⟨y, hy, h⟩ := except_bind_ok h
          cases hy
          have hdt : dt.mtime.isSome := by
            have := timedN_getPath _ s.root _ hT (findGroup_some hfg).1
            simp only [timedN] at this
            exact this.1
          have ht' := groupMergeData_timed now du dc dt gu gc gt c' t' upd hdt hS.1 hx
          have hupd : timedN (updatePath s.root (dloc ++ [gu]) (fun n => match n with
              | .group u _ _ ch => .group u c' t' ch
              | e => e)) := by
            refine timedN_updatePath _ (fun n hn => ?_) _ s.root hT
            cases n with
            | group u c t ch => simp only [timedN] at hn ⊢; exact ⟨ht', hn.2⟩
            | entry e => trivial
          refine jp _ _ ?_ h
          split
          · rw [ev_root]; exact hupd
          · exact hupd
        · obtain ⟨x, hx, h⟩ := except_bind_ok h
          cases hx

  theorem mergeEntries_timed (now : Int) (tombs : List Tomb) :
      ∀ (cs : List Node) (s s' : St) (path : List Nat) (inDel : Bool), timedN s.root →
        mergeEntries now tombs s path inDel cs = .ok s' → timedN s'.root
    | [], s, s', _, _, hT, h => by
      simp only [mergeEntries] at h
      injection h with h; subst h; exact hT
    | .entry e :: rest, s, s', path, inDel, hT, h => by
      unfold mergeEntries at h
      obtain ⟨s1, hs1, h⟩ := except_bind_ok h
      exact mergeEntries_timed now tombs rest s1 s' path inDel (mergeEntryStep_timed now tombs s s1 path inDel e hT hs1) h
    | .group _ _ _ _ :: rest, s, s', path, inDel, hT, h => by
      unfold mergeEntries at h
      exact mergeEntries_timed now tombs rest s s' path inDel hT h

  theorem mergeSubgroups_timed (now : Int) (tombs : List Tomb) :
      ∀ (cs : List Node) (s s' : St) (path : List Nat) (inDel : Bool), timedL cs → timedN s.root →
        mergeSubgroups now tombs s path inDel cs = .ok s' → timedN s'.root
    | [], s, s', _, _, _, hT, h => by
      simp only [mergeSubgroups] at h
      injection h with h; subst h; exact hT
    | .entry _ :: rest, s, s', path, inDel, hS, hT, h => by
      simp only [timedL] at hS
      unfold mergeSubgroups at h
      exact mergeSubgroups_timed now tombs rest s s' path inDel hS.2 hT h
    | .group ou oc ot ocs :: rest, s, s', path, inDel, hS, hT, h => by
      simp only [timedL] at hS
      have hog : timedN (Node.group ou oc ot ocs) := hS.1
      unfold mergeSubgroups at h
      dsimp only at h
      have viaGroup : ∀ (s0 : St) (b : Bool), timedN s0.root →
          (do
            let s ← mergeGroup now tombs s0 (path ++ [ou]) (.group ou oc ot ocs) b
            mergeSubgroups now tombs s (refreshPath s.root path) inDel rest) = .ok s' → timedN s'.root := by
        intro s0 b hT0 hk
        obtain ⟨s1, hs1, hk⟩ := except_bind_ok hk
        exact mergeSubgroups_timed now tombs rest s1 s' _ inDel hS.2
          (mergeGroup_timed now tombs (.group ou oc ot ocs) s0 s1 _ b hog hT0 hs1) hk
      split at h
      · exact viaGroup s true hT h
      · split at h
        · split at h
          · split at h
            · obtain ⟨x, hx, h⟩ := except_bind_ok h
              cases hx
            · split at h
              · obtain ⟨s2, hs2, h⟩ := except_bind_ok h
                refine viaGroup _ inDel ?_ h
                rw [ev_root]; exact relocate_timed s s2 _ _ _ _ hT hs2
              · exact viaGroup s inDel hT h
          · exact viaGroup s inDel hT h
        · split at h
          · obtain ⟨x, hx, h⟩ := except_bind_ok h
            cases hx
          · refine viaGroup _ inDel ?_ h
            simp only
            rw [ev_root]
            refine timedN_updatePath _ (fun n hn => ?_) path s.root hT
            simp only [timedN] at hog
            exact timedN_setChildren n _ hn ((timedL_append _ _).mpr ⟨timedN_children n hn, ⟨⟨hog.1, trivial⟩, trivial⟩⟩)
end


/-! ### the root keeps its UUID -/

theorem updatePath_root_uuid (root : Node) (p : List Nat) (f : Node → Node) (hr : root.isGroup = true)
    (hf : p = [] → (f root).uuid = root.uuid) : (updatePath root p f).uuid = root.uuid := by
  cases p with
  | nil => simp only [updatePath]; exact hf rfl
  | cons u rest => exact updatePath_uuid root u rest f hr

theorem setChildren_uuid (g : Node) (cs : List Node) : (g.setChildren cs).uuid = g.uuid := by
  cases g <;> rfl

theorem relocate_uuid (s s' : St) (u : Nat) (fromP toP : List Nat) (ts : Int) (hI : Inv s.root)
    (h : relocate s u fromP toP ts = .ok s') : s'.root.uuid = s.root.uuid := by
  unfold relocate at h
  cases hfg : findGroup s.root fromP with
  | none => rw [hfg] at h; cases h
  | some g =>
    rw [hfg] at h
    simp only at h
    cases hrm : removeNode g u with
    | none => rw [hrm] at h; cases h
    | some pr =>
      obtain ⟨g', node⟩ := pr
      rw [hrm] at h
      simp only at h
      cases hft : findGroup (updatePath s.root fromP (fun _ => g')) toP with
      | none => rw [hft] at h; cases h
      | some t =>
        rw [hft] at h
        simp only at h
        injection h with h
        subst h
        simp only
        obtain ⟨hg1, _⟩ := remove_perm s.root g g' node u fromP hI hfg hrm
        obtain ⟨_, _, hg'⟩ := removeNode_facts g g' node u hrm
        have h1 : (updatePath s.root fromP (fun _ => g')).uuid = s.root.uuid := by
          refine updatePath_root_uuid s.root fromP _ hI.1 (fun e => ?_)
          subst e
          have := (findGroup_some hfg).1
          simp only [getPath, Option.some.injEq] at this
          rw [hg', setChildren_uuid, this]
        rw [← h1]
        exact updatePath_root_uuid _ toP _ hg1 (fun _ => setChildren_uuid _ _)

theorem mergeEntryStep_uuid (now : Int) (tombs : List Tomb) (s s' : St) (path : List Nat) (inDeleted : Bool) (oe : Entry)
    (hI : Inv s.root) (h : mergeEntryStep now tombs s path inDeleted oe = .ok s') : s'.root.uuid = s.root.uuid := by
  unfold mergeEntryStep at h
  split at h
  · split at h
    · cases h
    · rename_i existing0 _
      have jp : ∀ (s1 : St) (eloc : List Nat) (existing : Entry) (s' : St), Inv s1.root → (∃ q, eloc = q ++ [oe.d.uuid]) →
          (do
            let upd ← entryUpdate now existing oe
            match upd with
              | none => pure s1
              | some merged =>
                match findEntry s1.root eloc with
                | none => Except.error MErr.findEntry
                | some _ =>
                  pure ({ s1 with root := updatePath s1.root eloc (fun _ => Node.entry merged) }.ev .entryUpdated merged.d.uuid)) = .ok s' →
          s'.root.uuid = s1.root.uuid := by
        intro s1 eloc existing s'' hI1 hq hk
        obtain ⟨q, hq⟩ := hq
        obtain ⟨upd, _, hk⟩ := except_bind_ok hk
        cases upd with
        | none => simp only at hk; injection hk with hk; subst hk; rfl
        | some merged =>
          simp only at hk
          split at hk
          · cases hk
          · injection hk with hk; subst hk
            rw [ev_root]
            exact updatePath_root_uuid s1.root eloc _ hI1.1 (fun e => by rw [hq] at e; simp at e)
      dsimp only at h
      split at h
      · split at h
        · obtain ⟨s2, hs2, h⟩ := except_bind_ok h
          obtain ⟨x, hx, h⟩ := except_bind_ok h
          cases hx
          have hI2 := relocate_inv _ s2 _ _ _ _ (by rw [ev_root]; exact hI) hs2
          rw [jp s2 _ _ s' hI2 ⟨path, rfl⟩ h, relocate_uuid _ s2 _ _ _ _ (by rw [ev_root]; exact hI) hs2, ev_root]
        · obtain ⟨x, hx, h⟩ := except_bind_ok h
          cases hx
          exact jp s _ _ s' hI ⟨_, rfl⟩ h
      · obtain ⟨x, hx, h⟩ := except_bind_ok h
        cases hx
        exact jp s _ _ s' hI ⟨_, rfl⟩ h
  · split at h
    · injection h with h; subst h; rfl
    · split at h
      · injection h with h; subst h; rfl
      · split at h
        · cases h
        · injection h with h; subst h
          rw [ev_root]
          exact updatePath_root_uuid s.root path _ hI.1 (fun _ => setChildren_uuid _ _)

mutual
  theorem mergeGroup_uuid (now : Int) (tombs : List Tomb) :
      ∀ (g : Node) (s s' : St) (path : List Nat) (inDel : Bool), Inv s.root →
        mergeGroup now tombs s path g inDel = .ok s' → s'.root.uuid = s.root.uuid
    | .entry _, s, s', _, _, _, h => by
      simp only [mergeGroup] at h
      injection h with h; subst h; rfl
    | .group gu gc gt cs, s, s', path, inDel, hI, h => by
      unfold mergeGroup at h
      dsimp only at h
      have jp : ∀ (s1 : St) (p1 : List Nat), Inv s1.root →
          (do
            let s ← mergeEntries now tombs s1 p1 inDel cs
            mergeSubgroups now tombs s p1 inDel cs) = .ok s' → s'.root.uuid = s1.root.uuid := by
        intro s1 p1 hI1 hk
        obtain ⟨s2, hs2, hk⟩ := except_bind_ok hk
        rw [mergeSubgroups_uuid now tombs cs s2 s' p1 inDel (mergeEntries_inv now tombs cs s1 s2 p1 inDel hI1 hs2) hk,
          mergeEntries_uuid now tombs cs s1 s2 p1 inDel hI1 hs2]
      split at h
      · obtain ⟨x, hx, h⟩ := except_bind_ok h
        cases hx
        exact jp s path hI h
      · rename_i dloc hloc
        split at h
        · obtain ⟨x, hx, h⟩ := except_bind_ok h
          cases hx
        · rename_i du dc dt dch hfg
          obtain ⟨x, hx, h⟩ := except_bind_ok h
          obtain ⟨c', t', upd⟩ := x
          dsimp only at h
          obtain ⟨y, hy, h⟩ := except_bind_ok h
          cases hy
          have hupdI : Inv (updatePath s.root (dloc ++ [gu]) (fun n => match n with
              | .group u _ _ ch => .group u c' t' ch
              | e => e)) := by
            refine inv_update_same s.root (.group du dc dt dch) _ _ hI (by simp) (findGroup_some hfg).1 ?_
            simp [uuidsN]
          have hu : (updatePath s.root (dloc ++ [gu]) (fun n => match n with
              | .group u _ _ ch => .group u c' t' ch
              | e => e)).uuid = s.root.uuid :=
            updatePath_root_uuid s.root _ _ hI.1 (fun e => by simp at e)
          rw [← hu]
          refine (jp _ _ ?_ h).trans ?_
          · split
            · rw [ev_root]; exact hupdI
            · exact hupdI
          · split <;> rfl
        · obtain ⟨x, hx, h⟩ := except_bind_ok h
          cases hx

  theorem mergeEntries_uuid (now : Int) (tombs : List Tomb) :
      ∀ (cs : List Node) (s s' : St) (path : List Nat) (inDel : Bool), Inv s.root →
        mergeEntries now tombs s path inDel cs = .ok s' → s'.root.uuid = s.root.uuid
    | [], s, s', _, _, _, h => by
      simp only [mergeEntries] at h
      injection h with h; subst h; rfl
    | .entry e :: rest, s, s', path, inDel, hI, h => by
      unfold mergeEntries at h
      obtain ⟨s1, hs1, h⟩ := except_bind_ok h
      rw [mergeEntries_uuid now tombs rest s1 s' path inDel (mergeEntryStep_inv now tombs s s1 path inDel e hI hs1) h,
        mergeEntryStep_uuid now tombs s s1 path inDel e hI hs1]
    | .group _ _ _ _ :: rest, s, s', path, inDel, hI, h => by
      unfold mergeEntries at h
      exact mergeEntries_uuid now tombs rest s s' path inDel hI h

  theorem mergeSubgroups_uuid (now : Int) (tombs : List Tomb) :
      ∀ (cs : List Node) (s s' : St) (path : List Nat) (inDel : Bool), Inv s.root →
        mergeSubgroups now tombs s path inDel cs = .ok s' → s'.root.uuid = s.root.uuid
    | [], s, s', _, _, _, h => by
      simp only [mergeSubgroups] at h
      injection h with h; subst h; rfl
    | .entry _ :: rest, s, s', path, inDel, hI, h => by
      unfold mergeSubgroups at h
      exact mergeSubgroups_uuid now tombs rest s s' path inDel hI h
    | .group ou oc ot ocs :: rest, s, s', path, inDel, hI, h => by
      unfold mergeSubgroups at h
      dsimp only at h
      have viaGroup : ∀ (s0 : St) (b : Bool), Inv s0.root →
          (do
            let s ← mergeGroup now tombs s0 (path ++ [ou]) (.group ou oc ot ocs) b
            mergeSubgroups now tombs s (refreshPath s.root path) inDel rest) = .ok s' → s'.root.uuid = s0.root.uuid := by
        intro s0 b hI0 hk
        obtain ⟨s1, hs1, hk⟩ := except_bind_ok hk
        rw [mergeSubgroups_uuid now tombs rest s1 s' _ inDel (mergeGroup_inv now tombs (.group ou oc ot ocs) s0 s1 _ b hI0 hs1) hk,
          mergeGroup_uuid now tombs (.group ou oc ot ocs) s0 s1 _ b hI0 hs1]
      split at h
      · exact viaGroup s true hI h
      · split at h
        · rename_i dloc hloc
          split at h
          · split at h
            · obtain ⟨x, hx, h⟩ := except_bind_ok h
              cases hx
            · split at h
              · obtain ⟨s2, hs2, h⟩ := except_bind_ok h
                rw [viaGroup _ inDel (by rw [ev_root]; exact relocate_inv s s2 _ _ _ _ hI hs2) h, ev_root,
                  relocate_uuid s s2 _ _ _ _ hI hs2]
              · exact viaGroup s inDel hI h
          · exact viaGroup s inDel hI h
        · rename_i hloc
          split at h
          · obtain ⟨x, hx, h⟩ := except_bind_ok h
            cases hx
          · rename_i pg hfg
            rw [ev_root] at hfg
            have hI' : Inv (updatePath s.root path (fun p => p.setChildren (p.children ++ [Node.group ou oc ot []]))) := by
              refine inv_add_child s.root pg (.group ou oc ot []) path hI hfg (by simp [uuidsN, uuidsL]) ?_
              intro x hx
              simp only [uuidsN, uuidsL, List.mem_cons, List.not_mem_nil, or_false] at hx
              subst hx
              exact findLoc_none_notMem s.root _ hloc
            rw [viaGroup _ inDel (show Inv (St.mk (updatePath (s.ev .groupCreated ou).root path (fun p => p.setChildren (p.children ++ [Node.group ou oc ot []]))) (s.ev .groupCreated ou).events).root from hI') h]
            simp only
            exact updatePath_root_uuid s.root path _ hI.1 (fun _ => setChildren_uuid _ _)
end


/-! ### timedness and root UUID through the rest of `merge` -/

theorem remove_step_timed_uuid (root parent parent' last : Node) (loc : List Nat) (u : Nat) (hr : root.isGroup = true)
    (hT : timedN root) (h3 : findGroup root loc = some parent) (h9 : removeNode parent u = some (parent', last)) :
    timedN (updatePath root loc (fun _ => parent')) ∧ (updatePath root loc (fun _ => parent')).uuid = root.uuid := by
  obtain ⟨gp, _⟩ := findGroup_some h3
  obtain ⟨_, _, hp'⟩ := removeNode_facts parent parent' last u h9
  have hpt := timedN_getPath loc root parent hT gp
  have hp't : timedN parent' := by
    rw [hp']; exact timedN_setChildren parent _ hpt (timedL_filter _ _ (timedN_children parent hpt))
  refine ⟨timedN_updatePath _ (fun _ _ => hp't) loc root hT, updatePath_root_uuid root loc _ hr (fun e => ?_)⟩
  subst e
  simp only [getPath, Option.some.injEq] at gp
  rw [hp', setChildren_uuid, gp]

theorem deleteEntries_timed_uuid (now : Int) : ∀ (ts : List Tomb) (s : St) (nt : List Tomb) (s' : St) (nt' : List Tomb),
    Inv s.root → timedN s.root → deleteEntries now s nt ts = .ok (s', nt') →
    timedN s'.root ∧ s'.root.uuid = s.root.uuid := by
  intro ts
  induction ts with
  | nil =>
    intro s nt s' nt' _ hT h
    simp only [deleteEntries, Except.ok.injEq, Prod.mk.injEq] at h
    obtain ⟨rfl, _⟩ := h
    exact ⟨hT, rfl⟩
  | cons d rest ih =>
    intro s nt s' nt' hI hT h
    unfold deleteEntries at h
    split at h
    · exact ih s nt s' nt' hI hT h
    · split at h
      · exact ih s nt s' nt' hI hT h
      · rename_i loc hloc
        split at h
        · cases h
        · rename_i parent h3
          split at h
          · exact ih s nt s' nt' hI hT h
          · split at h
            · split at h
              · cases h
              · rename_i parent' last h9
                have hsub := remove_step_sublist s.root parent parent' last loc d.uuid hI.1 h3 h9
                obtain ⟨_, gpg⟩ := findGroup_some h3
                obtain ⟨_, _, hp'⟩ := removeNode_facts parent parent' last d.uuid h9
                have hpg : parent'.isGroup = true := by
                  rw [hp']; cases parent <;> simp [Node.setChildren, Node.isGroup] at gpg ⊢
                have hg' := updatePath_isGroup loc s.root (fun _ => parent') hI.1 (fun _ => hpg)
                obtain ⟨ht1, hu1⟩ := remove_step_timed_uuid s.root parent parent' last loc d.uuid hI.1 hT h3 h9
                have := ih _ _ s' nt' (by rw [ev_root]; exact ⟨hg', List.Nodup.sublist hsub hI.2⟩) (by rw [ev_root]; exact ht1) h
                exact ⟨this.1, by rw [this.2, ev_root, hu1]⟩
            · exact ih s nt s' nt' hI hT h

theorem gdecide_delete_timed_uuid (now : Int) (s : St) (nt : List Tomb) (d : Tomb) (q : List Tomb) (s' : St) (nt' : List Tomb)
    (hI : Inv s.root) (hT : timedN s.root) (h : gdecide now s nt d q = .delete s' nt') :
    timedN s'.root ∧ s'.root.uuid = s.root.uuid := by
  unfold gdecide at h
  split at h
  · cases h
  · split at h
    · cases h
    · rename_i loc hloc
      split at h
      · cases h
      · rename_i parent h3
        split at h
        · cases h
        · dsimp only at h
          split at h
          · cases h
          · split at h
            · cases h
            · split at h
              · cases h
              · split at h
                · split at h
                  · cases h
                  · rename_i parent' last h9
                    injection h with h1 h2
                    subst h1
                    rw [ev_root]
                    exact remove_step_timed_uuid s.root parent parent' last loc d.uuid hI.1 hT h3 h9
                · cases h

theorem deleteGroups_timed_uuid (now : Int) : ∀ (fuel : Nat) (s : St) (nt q : List Tomb) (s' : St) (nt' : List Tomb), Inv s.root →
    timedN s.root → deleteGroups now fuel s nt q = .ok (s', nt') → timedN s'.root ∧ s'.root.uuid = s.root.uuid := by
  intro fuel
  induction fuel with
  | zero =>
    intro s nt q s' nt' _ hT h
    unfold deleteGroups at h
    split at h
    · injection h with h; injection h with h1 h2; subst h1; exact ⟨hT, rfl⟩
    · cases h
  | succ n ih =>
    intro s nt q s' nt' hI hT h
    cases q with
    | nil =>
      unfold deleteGroups at h
      injection h with h; injection h with h1 h2; subst h1; exact ⟨hT, rfl⟩
    | cons d q =>
      rw [deleteGroups_step] at h
      split at h
      · exact ih s nt q s' nt' hI hT h
      · exact ih s nt _ s' nt' hI hT h
      · rename_i s1 nt1 hdec
        have hinv := gdecide_delete_inv now s nt d q s1 nt1 hI.1 hI.2 hdec
        obtain ⟨ht1, hu1⟩ := gdecide_delete_timed_uuid now s nt d q s1 nt1 hI hT hdec
        have := ih s1 nt1 q s' nt' ⟨hinv.1, hinv.2⟩ ht1 h
        exact ⟨this.1, by rw [this.2, hu1]⟩
      · cases h

theorem mergeRoot_timed_uuid (now : Int) (s s' : St) (srcRoot : Node) (hT : timedN s.root) (hS : timedN srcRoot)
    (h : mergeRoot now s srcRoot = .ok s') : timedN s'.root ∧ s'.root.uuid = s.root.uuid := by
  obtain ⟨root, ev⟩ := s
  cases root with
  | entry e => simp only [mergeRoot] at h; injection h with h; subst h; exact ⟨hT, rfl⟩
  | group du dc dt ch =>
    cases srcRoot with
    | entry e => simp only [mergeRoot] at h; injection h with h; subst h; exact ⟨hT, rfl⟩
    | group su sc st sch =>
      simp only [mergeRoot] at h
      split at h
      · obtain ⟨x, hx, h⟩ := except_bind_ok h
        obtain ⟨c', t', upd⟩ := x
        dsimp only at h
        injection h with h; subst h
        simp only [timedN] at hT hS
        have ht' := groupMergeData_timed now du dc dt su sc st c' t' upd hT.1 hS.1 hx
        split
        · rw [ev_root]; exact ⟨⟨ht', hT.2⟩, rfl⟩
        · exact ⟨⟨ht', hT.2⟩, rfl⟩
      · injection h with h; subst h; exact ⟨hT, rfl⟩

theorem mergePasses_timed_uuid (now : Int) (tombs : List Tomb) (srcRoot : Node) (hS : timedN srcRoot) : ∀ (k : Nat) (s s' : St),
    Inv s.root → timedN s.root → mergePasses now tombs srcRoot k s = .ok s' → timedN s'.root ∧ s'.root.uuid = s.root.uuid := by
  intro k
  induction k with
  | zero => intro s s' _ hT h; simp only [mergePasses] at h; injection h with h; subst h; exact ⟨hT, rfl⟩
  | succ k ih =>
    intro s s' hI hT h
    unfold mergePasses at h
    split at h
    · cases h
    · rename_i s1 hs1
      have hI1 : Inv s1.root := mergeGroup_inv now tombs srcRoot { s with events := [] } s1 [] false hI hs1
      have hT1 : timedN s1.root := mergeGroup_timed now tombs srcRoot { s with events := [] } s1 [] false hS hT hs1
      have hU1 : s1.root.uuid = s.root.uuid := mergeGroup_uuid now tombs srcRoot { s with events := [] } s1 [] false hI hs1
      dsimp only at h
      split at h
      · injection h with h; subst h; exact ⟨hT1, hU1⟩
      · have := ih _ s' (show Inv ({ s1 with events := s.events ++ s1.events } : St).root from hI1)
          (show timedN ({ s1 with events := s.events ++ s1.events } : St).root from hT1) h
        exact ⟨this.1, by rw [this.2]; exact hU1⟩

/-- what `merge` returns from two databases with timed groups has timed groups and the destination's root UUID -/
theorem merge_timed_uuid (now : Int) (dst src d' : Db) (evs : List Event) (hI : Inv dst.root) (hT : timedN dst.root)
    (hS : timedN src.root) (h : merge now dst src = .ok (d', evs)) : timedN d'.root ∧ d'.root.uuid = dst.root.uuid := by
  unfold merge at h
  dsimp only at h
  obtain ⟨s1, hs1, h⟩ := except_bind_ok h
  have hI1 := mergeRoot_inv now _ s1 src.root hI hs1
  obtain ⟨hT1, hU1⟩ := mergeRoot_timed_uuid now _ s1 src.root hT hS hs1
  obtain ⟨s2, hs2, h⟩ := except_bind_ok h
  have hI2 := mergePasses_inv now _ _ _ _ s2 hI1 hs2
  obtain ⟨hT2, hU2⟩ := mergePasses_timed_uuid now dst.tombs src.root hS _ s1 s2 hI1 hT1 hs2
  obtain ⟨x, hx, h⟩ := except_bind_ok h
  obtain ⟨s3, tombs⟩ := x
  dsimp only at h
  injection h with h; injection h with h1 h2
  subst h1
  simp only
  unfold mergeDeletions at hx
  obtain ⟨r, hr, hx⟩ := except_bind_ok hx
  obtain ⟨s4, nt4⟩ := r
  obtain ⟨hT4, hU4⟩ := deleteEntries_timed_uuid now src.tombs s2 dst.tombs s4 nt4 hI2 hT2 hr
  obtain ⟨_, hinv⟩ := deleteEntries_inv now src.tombs s2 dst.tombs hI2.1 hI2.2
  have hI4 := hinv s4 nt4 hr
  obtain ⟨hT3, hU3⟩ := deleteGroups_timed_uuid now _ s4 nt4 _ s3 tombs ⟨hI4.1, hI4.2⟩ hT4 hx
  exact ⟨hT3, by rw [hU3, hU4, hU2, hU1]⟩


/-! ### the group pass never removes a UUID, and creates what the source holds -/

/-- every UUID below `a` is below `b` -/
def UuidsLe (a b : Node) : Prop := ∀ u ∈ uuidsL a.children, u ∈ uuidsL b.children

theorem UuidsLe.refl (a : Node) : UuidsLe a a := fun _ h => h
theorem UuidsLe.trans {a b c : Node} (h1 : UuidsLe a b) (h2 : UuidsLe b c) : UuidsLe a c := fun u h => h2 u (h1 u h)

theorem le_update_same (root n : Node) (p : List Nat) (f : Node → Node) (hI : Inv root) (hp : p ≠ [])
    (hg : getPath root p = some n) (hf : uuidsN (f n) = uuidsN n) : UuidsLe root (updatePath root p f) := by
  cases p with
  | nil => exact absurd rfl hp
  | cons u rest =>
    have := children_perm_of_update [] root n u rest f hI.1 hg (by rw [hf, List.append_nil])
    rw [List.append_nil] at this
    exact fun x hx => this.mem_iff.mpr hx

theorem le_add_child (root g new : Node) (p : List Nat) (hI : Inv root) (hg : findGroup root p = some g) :
    UuidsLe root (updatePath root p (fun t => t.setChildren (t.children ++ [new])))
    ∧ ∀ x ∈ uuidsN new, x ∈ uuidsL (updatePath root p (fun t => t.setChildren (t.children ++ [new]))).children := by
  have ⟨hgp, hgg⟩ := findGroup_some hg
  have hfg : uuidsN (g.setChildren (g.children ++ [new])) = uuidsN g ++ uuidsN new := by
    rw [uuidsN_setChildren _ _ hgg, uuidsN_group g hgg, uuidsL_append]
    simp [uuidsL]
  cases p with
  | nil =>
    simp only [getPath, Option.some.injEq] at hgp
    subst hgp
    simp only [updatePath]
    have : (root.setChildren (root.children ++ [new])).children = root.children ++ [new] := by
      cases root <;> simp_all [Node.setChildren, Node.children, Node.isGroup]
    refine ⟨fun x hx => ?_, fun x hx => ?_⟩ <;> (rw [this, uuidsL_append]; simp only [uuidsL, List.append_nil, List.mem_append])
    · exact Or.inl hx
    · exact Or.inr hx
  | cons u rest =>
    have := children_perm_of_update (uuidsN new) root g u rest (fun t => t.setChildren (t.children ++ [new])) hI.1 hgp
      (by rw [hfg])
    exact ⟨fun x hx => this.mem_iff.mpr (List.mem_append_left _ hx), fun x hx => this.mem_iff.mpr (List.mem_append_right _ hx)⟩

theorem relocate_le (s s' : St) (u : Nat) (fromP toP : List Nat) (ts : Int) (hI : Inv s.root)
    (h : relocate s u fromP toP ts = .ok s') : UuidsLe s.root s'.root := by
  unfold relocate at h
  cases hfg : findGroup s.root fromP with
  | none => rw [hfg] at h; cases h
  | some g =>
    rw [hfg] at h
    simp only at h
    cases hrm : removeNode g u with
    | none => rw [hrm] at h; cases h
    | some pr =>
      obtain ⟨g', node⟩ := pr
      rw [hrm] at h
      simp only at h
      cases hft : findGroup (updatePath s.root fromP (fun _ => g')) toP with
      | none => rw [hft] at h; cases h
      | some t =>
        rw [hft] at h
        simp only at h
        injection h with h
        subst h
        simp only
        obtain ⟨hg1, hperm⟩ := remove_perm s.root g g' node u fromP hI hfg hrm
        have hnd := hperm.nodup_iff.mp hI.2
        have hparts := List.nodup_append.mp hnd
        obtain ⟨hle, hnew⟩ := le_add_child (updatePath s.root fromP (fun _ => g')) t (node.setLoc ts) toP ⟨hg1, hparts.1⟩ hft
        intro x hx
        have := hperm.mem_iff.mp hx
        simp only [List.mem_append] at this
        rcases this with h1 | h1
        · exact hle x h1
        · exact hnew x (by rw [uuidsN_setLoc]; exact h1)

/-- the entry step: nothing is lost, and the entry's UUID is there afterwards unless the destination has a tombstone for it
    or the step runs below a deleted group -/
theorem mergeEntryStep_le (now : Int) (tombs : List Tomb) (s s' : St) (path : List Nat) (inDeleted : Bool) (oe : Entry)
    (hI : Inv s.root) (h : mergeEntryStep now tombs s path inDeleted oe = .ok s') :
    UuidsLe s.root s'.root ∧ (tombsContain tombs oe.d.uuid = false → inDeleted = false → oe.d.uuid ∈ uuidsL s'.root.children) := by
  unfold mergeEntryStep at h
  split at h
  · rename_i dloc hloc
    have hthere : oe.d.uuid ∈ uuidsL s.root.children := by
      apply Classical.byContradiction
      intro hn
      have := findLocL_none s.root.children oe.d.uuid hn
      simp only [findLoc] at hloc
      rw [this] at hloc; cases hloc
    split at h
    · cases h
    · rename_i existing0 hfe
      have hex : existing0.d.uuid = oe.d.uuid := by
        have := getPath_last_uuid dloc s.root _ _ (findEntry_some hfe)
        simpa [Node.uuid] using this
      have jp : ∀ (s1 : St) (eloc : List Nat) (existing : Entry) (s' : St), Inv s1.root → (∃ q, eloc = q ++ [oe.d.uuid]) →
          existing.d.uuid = existing0.d.uuid →
          (do
            let upd ← entryUpdate now existing oe
            match upd with
              | none => pure s1
              | some merged =>
                match findEntry s1.root eloc with
                | none => Except.error MErr.findEntry
                | some _ =>
                  pure ({ s1 with root := updatePath s1.root eloc (fun _ => Node.entry merged) }.ev .entryUpdated merged.d.uuid)) = .ok s' →
          UuidsLe s1.root s'.root := by
        intro s1 eloc existing s'' hI1 hq hu1 hk
        obtain ⟨q, hq⟩ := hq
        obtain ⟨upd, hupd, hk⟩ := except_bind_ok hk
        cases upd with
        | none => simp only at hk; injection hk with hk; subst hk; exact UuidsLe.refl _
        | some merged =>
          simp only at hk
          split at hk
          · cases hk
          · rename_i e1 hfe1
            injection hk with hk; subst hk
            rw [ev_root]
            simp only
            have hg1 := findEntry_some hfe1
            have hn : (Node.entry e1).uuid = oe.d.uuid := by
              rw [hq] at hg1; exact getPath_last_uuid q s1.root _ _ hg1
            have hm : merged.d.uuid = oe.d.uuid := by
              rcases entryUpdate_uuid now existing oe merged hupd with h1 | h1
              · rw [h1, hu1, hex]
              · exact h1
            refine le_update_same s1.root (.entry e1) eloc _ hI1 (by rw [hq]; simp) hg1 ?_
            simp only [uuidsN]
            simp only [Node.uuid] at hn
            rw [hm, hn]
      have hle : UuidsLe s.root s'.root := by
        dsimp only at h
        split at h
        · split at h
          · obtain ⟨s2, hs2, h⟩ := except_bind_ok h
            obtain ⟨x, hx, h⟩ := except_bind_ok h
            cases hx
            have hI2 := relocate_inv _ s2 _ _ _ _ (by rw [ev_root]; exact hI) hs2
            have hl2 : UuidsLe s.root s2.root := by
              have := relocate_le _ s2 _ _ _ _ (by rw [ev_root]; exact hI) hs2
              rwa [ev_root] at this
            exact hl2.trans (jp s2 _ _ s' hI2 ⟨path, rfl⟩ (by simp [Entry.setLoc]) h)
          · obtain ⟨x, hx, h⟩ := except_bind_ok h
            cases hx
            exact jp s _ _ s' hI ⟨dloc, rfl⟩ rfl h
        · obtain ⟨x, hx, h⟩ := except_bind_ok h
          cases hx
          exact jp s _ _ s' hI ⟨dloc, rfl⟩ rfl h
      exact ⟨hle, fun _ _ => hle _ hthere⟩
  · rename_i hloc
    split at h
    · rename_i hnt
      injection h with h; subst h
      exact ⟨UuidsLe.refl _, fun h1 _ => by rw [h1] at hnt; cases hnt⟩
    · split at h
      · rename_i hdel
        injection h with h; subst h
        exact ⟨UuidsLe.refl _, fun _ h2 => by rw [h2] at hdel; cases hdel⟩
      · split at h
        · cases h
        · rename_i g hfg
          injection h with h; subst h
          rw [ev_root]
          obtain ⟨hle, hnew⟩ := le_add_child s.root g (.entry oe) path hI hfg
          exact ⟨hle, fun _ _ => hnew _ (by simp [uuidsN])⟩


mutual
  /-- the UUIDs of a source subtree that the destination has no tombstone for, not looking below tombstoned groups -/
  def liveN (tombs : List Tomb) : Node → List Nat
    | .entry e => if tombsContain tombs e.d.uuid then [] else [e.d.uuid]
    | .group u _ _ cs => if tombsContain tombs u then [] else u :: liveL tombs cs
  def liveL (tombs : List Tomb) : List Node → List Nat
    | [] => []
    | c :: cs => liveN tombs c ++ liveL tombs cs
end

theorem findLoc_some_mem (root : Node) (id : Nat) (loc : List Nat) (h : findLoc root id = some loc) :
    id ∈ uuidsL root.children := by
  apply Classical.byContradiction
  intro hn
  have := findLocL_none root.children id hn
  simp only [findLoc] at h
  rw [this] at h; cases h

mutual
  theorem mergeGroup_le (now : Int) (tombs : List Tomb) :
      ∀ (g : Node) (s s' : St) (path : List Nat) (inDel : Bool), Inv s.root →
        mergeGroup now tombs s path g inDel = .ok s' →
        UuidsLe s.root s'.root ∧ (inDel = false → ∀ u ∈ liveL tombs g.children, u ∈ uuidsL s'.root.children)
    | .entry _, s, s', _, _, _, h => by
      simp only [mergeGroup] at h
      injection h with h; subst h
      exact ⟨UuidsLe.refl _, fun _ u hu => by simp [Node.children, liveL] at hu⟩
    | .group gu gc gt cs, s, s', path, inDel, hI, h => by
      unfold mergeGroup at h
      dsimp only at h
      have jp : ∀ (s1 : St) (p1 : List Nat), Inv s1.root →
          (do
            let s ← mergeEntries now tombs s1 p1 inDel cs
            mergeSubgroups now tombs s p1 inDel cs) = .ok s' →
          UuidsLe s1.root s'.root ∧ (inDel = false → ∀ u ∈ liveL tombs cs, u ∈ uuidsL s'.root.children) := by
        intro s1 p1 hI1 hk
        obtain ⟨s2, hs2, hk⟩ := except_bind_ok hk
        have hI2 := mergeEntries_inv now tombs cs s1 s2 p1 inDel hI1 hs2
        obtain ⟨hle1, hc1⟩ := mergeEntries_le now tombs cs s1 s2 p1 inDel hI1 hs2
        obtain ⟨hle2, hc2⟩ := mergeSubgroups_le now tombs cs s2 s' p1 inDel hI2 hk
        exact ⟨hle1.trans hle2, fun hd u hu => (hc2 hd u hu).elim id (fun he => hle2 u (hc1 hd u he))⟩
      split at h
      · obtain ⟨x, hx, h⟩ := except_bind_ok h
        cases hx
        exact jp s path hI h
      · rename_i dloc hloc
        split at h
        · obtain ⟨x, hx, h⟩ := except_bind_ok h
          cases hx
        · rename_i du dc dt dch hfg
          obtain ⟨x, hx, h⟩ := except_bind_ok h
          obtain ⟨c', t', upd⟩ := x
          dsimp only at h
          obtain ⟨y, hy, h⟩ := except_bind_ok h
          cases hy
          have hupdI : Inv (updatePath s.root (dloc ++ [gu]) (fun n => match n with
              | .group u _ _ ch => .group u c' t' ch
              | e => e)) := by
            refine inv_update_same s.root (.group du dc dt dch) _ _ hI (by simp) (findGroup_some hfg).1 ?_
            simp [uuidsN]
          have hupdL : UuidsLe s.root (updatePath s.root (dloc ++ [gu]) (fun n => match n with
              | .group u _ _ ch => .group u c' t' ch
              | e => e)) := by
            refine le_update_same s.root (.group du dc dt dch) _ _ hI (by simp) (findGroup_some hfg).1 ?_
            simp [uuidsN]
          have := jp (if upd = true then (St.mk (updatePath s.root (dloc ++ [gu]) (fun n => match n with
              | .group u _ _ ch => .group u c' t' ch
              | e => e)) s.events).ev .groupUpdated du else St.mk (updatePath s.root (dloc ++ [gu]) (fun n => match n with
              | .group u _ _ ch => .group u c' t' ch
              | e => e)) s.events) (dloc ++ [gu]) (by split <;> (try rw [ev_root]) <;> exact hupdI) h
          refine ⟨UuidsLe.trans ?_ this.1, this.2⟩
          split
          · rw [ev_root]; exact hupdL
          · exact hupdL
        · obtain ⟨x, hx, h⟩ := except_bind_ok h
          cases hx

  /-- returns membership of live *entry* children in the right disjunct, to be combined with the sub-group pass -/
  theorem mergeEntries_le (now : Int) (tombs : List Tomb) :
      ∀ (cs : List Node) (s s' : St) (path : List Nat) (inDel : Bool), Inv s.root →
        mergeEntries now tombs s path inDel cs = .ok s' →
        UuidsLe s.root s'.root ∧ (inDel = false → ∀ u, (∃ e, Node.entry e ∈ cs ∧ e.d.uuid = u ∧ tombsContain tombs u = false) →
          u ∈ uuidsL s'.root.children)
    | [], s, s', _, _, _, h => by
      simp only [mergeEntries] at h
      injection h with h; subst h
      exact ⟨UuidsLe.refl _, fun _ u ⟨e, he, _⟩ => by cases he⟩
    | .entry e :: rest, s, s', path, inDel, hI, h => by
      unfold mergeEntries at h
      obtain ⟨s1, hs1, h⟩ := except_bind_ok h
      have hI1 := mergeEntryStep_inv now tombs s s1 path inDel e hI hs1
      obtain ⟨hle1, hc1⟩ := mergeEntryStep_le now tombs s s1 path inDel e hI hs1
      obtain ⟨hle2, hc2⟩ := mergeEntries_le now tombs rest s1 s' path inDel hI1 h
      refine ⟨hle1.trans hle2, fun hd u ⟨e', he', hu, ht⟩ => ?_⟩
      cases he' with
      | head => exact hle2 u (hu ▸ hc1 (hu ▸ ht) hd)
      | tail _ hm => exact hc2 hd u ⟨e', hm, hu, ht⟩
    | .group _ _ _ _ :: rest, s, s', path, inDel, hI, h => by
      unfold mergeEntries at h
      obtain ⟨hle, hc⟩ := mergeEntries_le now tombs rest s s' path inDel hI h
      refine ⟨hle, fun hd u ⟨e', he', hu, ht⟩ => ?_⟩
      cases he' with
      | tail _ hm => exact hc hd u ⟨e', hm, hu, ht⟩

  /-- a live UUID of the children list is either below the result or the UUID of a live entry child (handled by the entry pass) -/
  theorem mergeSubgroups_le (now : Int) (tombs : List Tomb) :
      ∀ (cs : List Node) (s s' : St) (path : List Nat) (inDel : Bool), Inv s.root →
        mergeSubgroups now tombs s path inDel cs = .ok s' →
        UuidsLe s.root s'.root ∧ (inDel = false → ∀ u ∈ liveL tombs cs,
          u ∈ uuidsL s'.root.children ∨ (∃ e, Node.entry e ∈ cs ∧ e.d.uuid = u ∧ tombsContain tombs u = false))
    | [], s, s', _, _, _, h => by
      simp only [mergeSubgroups] at h
      injection h with h; subst h
      exact ⟨UuidsLe.refl _, fun _ u hu => by simp [liveL] at hu⟩
    | .entry e :: rest, s, s', path, inDel, hI, h => by
      unfold mergeSubgroups at h
      obtain ⟨hle, hc⟩ := mergeSubgroups_le now tombs rest s s' path inDel hI h
      refine ⟨hle, fun hd u hu => ?_⟩
      simp only [liveL, liveN, List.mem_append] at hu
      rcases hu with hu | hu
      · by_cases ht : tombsContain tombs e.d.uuid = true
        · simp [ht] at hu
        · have ht' : tombsContain tombs e.d.uuid = false := by simpa using ht
          simp only [ht', Bool.false_eq_true, if_false, List.mem_singleton] at hu
          exact Or.inr ⟨e, List.mem_cons_self, hu.symm, by rw [hu]; exact ht'⟩
      · rcases hc hd u hu with h1 | ⟨e', he', hu', ht'⟩
        · exact Or.inl h1
        · exact Or.inr ⟨e', List.mem_cons_of_mem _ he', hu', ht'⟩
    | .group ou oc ot ocs :: rest, s, s', path, inDel, hI, h => by
      unfold mergeSubgroups at h
      dsimp only at h
      -- common tail: the rest of the children list
      have tail : ∀ (s1 : St) (p1 : List Nat), Inv s1.root → mergeSubgroups now tombs s1 p1 inDel rest = .ok s' →
          UuidsLe s1.root s'.root ∧ (inDel = false → ∀ u ∈ liveL tombs rest,
            u ∈ uuidsL s'.root.children ∨ (∃ e, Node.entry e ∈ (Node.group ou oc ot ocs :: rest) ∧ e.d.uuid = u ∧ tombsContain tombs u = false)) := by
        intro s1 p1 hI1 hk
        obtain ⟨hle, hc⟩ := mergeSubgroups_le now tombs rest s1 s' p1 inDel hI1 hk
        refine ⟨hle, fun hd u hu => ?_⟩
        rcases hc hd u hu with h1 | ⟨e', he', hu', ht'⟩
        · exact Or.inl h1
        · exact Or.inr ⟨e', List.mem_cons_of_mem _ he', hu', ht'⟩
      -- via a call of mergeGroup on the child with the flag `b`, from a state that already holds `ou` when `b = false`
      have viaGroup : ∀ (s0 : St) (b : Bool), Inv s0.root → UuidsLe s.root s0.root →
          (b = false → ou ∈ uuidsL s0.root.children) → (inDel = false → tombsContain tombs ou = false → b = false) →
          (do
            let s ← mergeGroup now tombs s0 (path ++ [ou]) (.group ou oc ot ocs) b
            mergeSubgroups now tombs s (refreshPath s.root path) inDel rest) = .ok s' →
          UuidsLe s.root s'.root ∧ (inDel = false → ∀ u ∈ liveL tombs (Node.group ou oc ot ocs :: rest),
            u ∈ uuidsL s'.root.children ∨ (∃ e, Node.entry e ∈ (Node.group ou oc ot ocs :: rest) ∧ e.d.uuid = u ∧ tombsContain tombs u = false)) := by
        intro s0 b hI0 hle0 hou hb hk
        obtain ⟨s1, hs1, hk⟩ := except_bind_ok hk
        have hI1 := mergeGroup_inv now tombs (.group ou oc ot ocs) s0 s1 _ b hI0 hs1
        obtain ⟨hleG, hcG⟩ := mergeGroup_le now tombs (.group ou oc ot ocs) s0 s1 _ b hI0 hs1
        obtain ⟨hleT, hcT⟩ := tail s1 _ hI1 hk
        refine ⟨(hle0.trans hleG).trans hleT, fun hd u hu => ?_⟩
        simp only [liveL, List.mem_append] at hu
        rcases hu with hu | hu
        · -- from the child group itself
          simp only [liveN] at hu
          by_cases ht : tombsContain tombs ou = true
          · simp [ht] at hu
          · have ht' : tombsContain tombs ou = false := by simpa using ht
            simp only [ht', Bool.false_eq_true, if_false, List.mem_cons] at hu
            have hbf := hb hd ht'
            rcases hu with hu | hu
            · exact Or.inl (hleT u (hleG u (hu ▸ hou hbf)))
            · exact Or.inl (hleT u (hcG hbf u (by simpa [Node.children] using hu)))
        · exact hcT hd u hu
      split at h
      · rename_i hguard
        refine viaGroup s true hI (UuidsLe.refl _) (fun e => by cases e) (fun hd ht => ?_) h
        simp only [Bool.or_eq_true] at hguard
        rcases hguard with h1 | h1
        · rw [ht] at h1; cases h1
        · rw [hd] at h1; cases h1
      · rename_i hguard
        have hdel : inDel = false := by
          have : ¬ ((tombsContain tombs ou || inDel) = true) := hguard
          simp only [Bool.or_eq_true, not_or] at this
          simpa using this.2
        split at h
        · rename_i dloc hloc
          have hthere := findLoc_some_mem s.root ou dloc hloc
          split at h
          · split at h
            · obtain ⟨x, hx, h⟩ := except_bind_ok h
              cases hx
            · split at h
              · obtain ⟨s2, hs2, h⟩ := except_bind_ok h
                have hI2 := relocate_inv s s2 _ _ _ _ hI hs2
                have hl2 := relocate_le s s2 _ _ _ _ hI hs2
                exact viaGroup _ inDel (by rw [ev_root]; exact hI2) (by rw [ev_root]; exact hl2)
                  (fun _ => by rw [ev_root]; exact hl2 _ hthere) (fun _ _ => hdel) h
              · exact viaGroup s inDel hI (UuidsLe.refl _) (fun _ => hthere) (fun _ _ => hdel) h
          · exact viaGroup s inDel hI (UuidsLe.refl _) (fun _ => hthere) (fun _ _ => hdel) h
        · rename_i hloc
          split at h
          · obtain ⟨x, hx, h⟩ := except_bind_ok h
            cases hx
          · rename_i pg hfg
            rw [ev_root] at hfg
            have hI' : Inv (updatePath s.root path (fun p => p.setChildren (p.children ++ [Node.group ou oc ot []]))) := by
              refine inv_add_child s.root pg (.group ou oc ot []) path hI hfg (by simp [uuidsN, uuidsL]) ?_
              intro x hx
              simp only [uuidsN, uuidsL, List.mem_cons, List.not_mem_nil, or_false] at hx
              subst hx
              exact findLoc_none_notMem s.root _ hloc
            obtain ⟨hle', hnew'⟩ := le_add_child s.root pg (.group ou oc ot []) path hI hfg
            exact viaGroup (St.mk (updatePath (s.ev .groupCreated ou).root path (fun p => p.setChildren (p.children ++ [Node.group ou oc ot []]))) (s.ev .groupCreated ou).events)
              inDel hI' hle' (fun _ => hnew' _ (by simp [uuidsN])) (fun _ _ => hdel) h
end


/-! ### what the source holds is in the result or tombstoned there -/

theorem uuid_unique_child : ∀ (cs : List Node) (a b : Node), (uuidsL cs).Nodup → a ∈ cs → b ∈ cs → a.uuid = b.uuid → a = b := by
  intro cs
  induction cs with
  | nil => intro a b _ ha; cases ha
  | cons x xs ih =>
    intro a b hn ha hb hab
    simp only [uuidsL] at hn
    have hparts := List.nodup_append.mp hn
    have clash : ∀ (c : Node), c ∈ xs → c.uuid = x.uuid → False := fun c hc he =>
      hparts.2.2 x.uuid (uuid_mem_uuidsN x) x.uuid ((uuidsN_sublist_of_mem xs c hc).subset (he ▸ uuid_mem_uuidsN c)) rfl
    cases ha with
    | head =>
      cases hb with
      | head => rfl
      | tail _ hbt => exact absurd hab.symm (fun e => clash b hbt e)
    | tail _ hat =>
      cases hb with
      | head => exact absurd hab (fun e => clash a hat e)
      | tail _ hbt => exact ih a b hparts.2.1 hat hbt hab

theorem mergePasses_le (now : Int) (tombs : List Tomb) (srcRoot : Node) : ∀ (k : Nat) (s s' : St), Inv s.root →
    mergePasses now tombs srcRoot k s = .ok s' → UuidsLe s.root s'.root := by
  intro k
  induction k with
  | zero => intro s s' _ h; simp only [mergePasses] at h; injection h with h; subst h; exact UuidsLe.refl _
  | succ k ih =>
    intro s s' hI h
    unfold mergePasses at h
    split at h
    · cases h
    · rename_i s1 hs1
      have hI1 : Inv s1.root := mergeGroup_inv now tombs srcRoot { s with events := [] } s1 [] false hI hs1
      have hl1 : UuidsLe s.root s1.root := (mergeGroup_le now tombs srcRoot { s with events := [] } s1 [] false hI hs1).1
      dsimp only at h
      split at h
      · injection h with h; subst h; exact hl1
      · exact hl1.trans (ih { s1 with events := s.events ++ s1.events } s' hI1 h)

theorem mergePasses_creates (now : Int) (tombs : List Tomb) (srcRoot : Node) (k : Nat) (s s' : St) (hI : Inv s.root)
    (h : mergePasses now tombs srcRoot (k + 1) s = .ok s') : ∀ u ∈ liveL tombs srcRoot.children, u ∈ uuidsL s'.root.children := by
  unfold mergePasses at h
  split at h
  · cases h
  · rename_i s1 hs1
    have hI1 : Inv s1.root := mergeGroup_inv now tombs srcRoot { s with events := [] } s1 [] false hI hs1
    have hc1 := (mergeGroup_le now tombs srcRoot { s with events := [] } s1 [] false hI hs1).2 rfl
    dsimp only at h
    split at h
    · injection h with h; subst h; exact hc1
    · have := mergePasses_le now tombs srcRoot k _ s' (show Inv ({ s1 with events := s.events ++ s1.events } : St).root from hI1) h
      exact fun u hu => this u (hc1 u hu)

theorem tombsContain_mono (a b : List Tomb) (u : Nat) (h : tombsContain a u = true) : tombsContain (a ++ b) u = true := by
  rw [tombsContain_append, h, Bool.true_or]

/-- a deletion pass: what was below the root is still there or has a tombstone in the new list; tombstones are kept -/
def DelOk (s : St) (nt : List Tomb) (s' : St) (nt' : List Tomb) : Prop :=
  (∀ u ∈ uuidsL s.root.children, u ∈ uuidsL s'.root.children ∨ tombsContain nt' u = true) ∧
  (∀ u, tombsContain nt u = true → tombsContain nt' u = true)

theorem DelOk.refl (s : St) (nt : List Tomb) : DelOk s nt s nt := ⟨fun _ h => Or.inl h, fun _ h => h⟩
theorem DelOk.trans {s1 s2 s3 : St} {n1 n2 n3 : List Tomb} (h1 : DelOk s1 n1 s2 n2) (h2 : DelOk s2 n2 s3 n3) : DelOk s1 n1 s3 n3 :=
  ⟨fun u hu => (h1.1 u hu).elim (fun h => h2.1 u h) (fun h => Or.inr (h2.2 u h)), fun u hu => h2.2 u (h1.2 u hu)⟩

/-- removing a childless node with UUID `d.uuid` and recording `d` -/
theorem delOk_remove (s : St) (nt : List Tomb) (d : Tomb) (parent parent' last : Node) (loc : List Nat) (t : EvType)
    (hI : Inv s.root) (h3 : findGroup s.root loc = some parent) (h9 : removeNode parent d.uuid = some (parent', last))
    (hlast : uuidsN last = [d.uuid]) :
    DelOk s nt ({ s with root := updatePath s.root loc (fun _ => parent') }.ev t d.uuid) (nt ++ [d]) := by
  obtain ⟨_, hperm⟩ := remove_perm s.root parent parent' last d.uuid loc hI h3 h9
  refine ⟨fun u hu => ?_, fun u hu => tombsContain_mono nt [d] u hu⟩
  rw [ev_root]
  have := hperm.mem_iff.mp hu
  simp only [List.mem_append, hlast, List.mem_singleton] at this
  rcases this with h1 | h1
  · exact Or.inl h1
  · right
    rw [tombsContain_append, h1]
    simp [tombsContain]

theorem deleteEntries_delOk (now : Int) : ∀ (ts : List Tomb) (s : St) (nt : List Tomb) (s' : St) (nt' : List Tomb),
    Inv s.root → deleteEntries now s nt ts = .ok (s', nt') → DelOk s nt s' nt' := by
  intro ts
  induction ts with
  | nil =>
    intro s nt s' nt' _ h
    simp only [deleteEntries, Except.ok.injEq, Prod.mk.injEq] at h
    obtain ⟨rfl, rfl⟩ := h
    exact DelOk.refl _ _
  | cons d rest ih =>
    intro s nt s' nt' hI h
    unfold deleteEntries at h
    split at h
    · exact ih s nt s' nt' hI h
    · split at h
      · exact ih s nt s' nt' hI h
      · rename_i loc hloc
        split at h
        · cases h
        · rename_i parent h3
          split at h
          · exact ih s nt s' nt' hI h
          · rename_i e hfe
            split at h
            · split at h
              · cases h
              · rename_i parent' last h9
                obtain ⟨gp, gpg⟩ := findGroup_some h3
                obtain ⟨hlu, hlm, hp'⟩ := removeNode_facts parent parent' last d.uuid h9
                -- the children of `parent` have pairwise distinct UUIDs
                have hpn : (uuidsL parent.children).Nodup := by
                  cases loc with
                  | nil => simp only [getPath, Option.some.injEq] at gp; subst gp; exact hI.2
                  | cons u0 rest0 =>
                    have := (getPath_sublist_children u0 rest0 s.root parent hI.1 gp).nodup hI.2
                    rw [uuidsN_group parent gpg] at this
                    exact (List.nodup_cons.mp this).2
                have hem : Node.entry e ∈ parent.children ∧ (Node.entry e).uuid = d.uuid := by
                  have := findEntry_some hfe
                  simp only [getPath] at this
                  exact ⟨(find_first this).1, by simpa using (find_first this).2⟩
                have hlast : last = Node.entry e := uuid_unique_child _ _ _ hpn hlm hem.1 (by rw [hlu, hem.2])
                have hsub := remove_step_sublist s.root parent parent' last loc d.uuid hI.1 h3 h9
                have hpg : parent'.isGroup = true := by
                  rw [hp']; cases parent <;> simp [Node.setChildren, Node.isGroup] at gpg ⊢
                have hg' := updatePath_isGroup loc s.root (fun _ => parent') hI.1 (fun _ => hpg)
                have hstep := delOk_remove s nt d parent parent' last loc .entryDeleted hI h3 h9
                  (by rw [hlast]; simp only [uuidsN]; rw [← hem.2]; rfl)
                exact hstep.trans (ih _ _ s' nt' (by rw [ev_root]; exact ⟨hg', List.Nodup.sublist hsub hI.2⟩) h)
            · exact ih s nt s' nt' hI h

theorem gdecide_delete_delOk (now : Int) (s : St) (nt : List Tomb) (d : Tomb) (q : List Tomb) (s' : St) (nt' : List Tomb)
    (hI : Inv s.root) (h : gdecide now s nt d q = .delete s' nt') : DelOk s nt s' nt' := by
  unfold gdecide at h
  split at h
  · cases h
  · split at h
    · cases h
    · rename_i loc hloc
      split at h
      · cases h
      · rename_i parent h3
        split at h
        · cases h
        · rename_i grp hfg
          dsimp only at h
          split at h
          · cases h
          · rename_i hent
            split at h
            · cases h
            · split at h
              · cases h
              · rename_i hgrp
                split at h
                · split at h
                  · cases h
                  · rename_i parent' last h9
                    injection h with h1 h2
                    subst h1; subst h2
                    obtain ⟨gp, gpg⟩ := findGroup_some h3
                    obtain ⟨hlu, hlm, _⟩ := removeNode_facts parent parent' last d.uuid h9
                    have hpn : (uuidsL parent.children).Nodup := by
                      cases loc with
                      | nil => simp only [getPath, Option.some.injEq] at gp; subst gp; exact hI.2
                      | cons u0 rest0 =>
                        have := (getPath_sublist_children u0 rest0 s.root parent hI.1 gp).nodup hI.2
                        rw [uuidsN_group parent gpg] at this
                        exact (List.nodup_cons.mp this).2
                    obtain ⟨hgg, hggg⟩ := findGroup_some hfg
                    have hgm : grp ∈ parent.children ∧ grp.uuid = d.uuid := by
                      simp only [getPath] at hgg
                      exact ⟨(find_first hgg).1, by simpa using (find_first hgg).2⟩
                    have hlast : last = grp := uuid_unique_child _ _ _ hpn hlm hgm.1 (by rw [hlu, hgm.2])
                    -- the group has neither entries nor sub-groups
                    have hempty : grp.children = [] := by
                      have he : (grp.children.filter (fun c => !c.isGroup)) = [] := by
                        simpa using hent
                      have hg : (grp.children.filter (·.isGroup)) = [] := by
                        simpa using hgrp
                      cases hc : grp.children with
                      | nil => rfl
                      | cons c cs =>
                        rw [hc] at he hg
                        by_cases hcg : c.isGroup = true
                        · simp [List.filter_cons, hcg] at hg
                        · simp [List.filter_cons, hcg] at he
                    exact delOk_remove s nt d parent parent' last loc .groupDeleted hI h3 h9
                      (by rw [hlast, uuidsN_group grp hggg, hempty, hgm.2]; rfl)
                · cases h

theorem deleteGroups_delOk (now : Int) : ∀ (fuel : Nat) (s : St) (nt q : List Tomb) (s' : St) (nt' : List Tomb), Inv s.root →
    deleteGroups now fuel s nt q = .ok (s', nt') → DelOk s nt s' nt' := by
  intro fuel
  induction fuel with
  | zero =>
    intro s nt q s' nt' _ h
    unfold deleteGroups at h
    split at h
    · injection h with h; injection h with h1 h2; subst h1; subst h2; exact DelOk.refl _ _
    · cases h
  | succ n ih =>
    intro s nt q s' nt' hI h
    cases q with
    | nil =>
      unfold deleteGroups at h
      injection h with h; injection h with h1 h2; subst h1; subst h2; exact DelOk.refl _ _
    | cons d q =>
      rw [deleteGroups_step] at h
      split at h
      · exact ih s nt q s' nt' hI h
      · exact ih s nt _ s' nt' hI h
      · rename_i s1 nt1 hdec
        have hinv := gdecide_delete_inv now s nt d q s1 nt1 hI.1 hI.2 hdec
        exact (gdecide_delete_delOk now s nt d q s1 nt1 hI hdec).trans (ih s1 nt1 q s' nt' ⟨hinv.1, hinv.2⟩ h)
      · cases h

/-- **what the source holds is created**: every node of the source that the destination has no tombstone for — neither for
    the node nor for a group above it — is below the root of the result, unless the result carries a tombstone for it -/
theorem merge_creates (now : Int) (dst src d' : Db) (evs : List Event) (hI : Inv dst.root)
    (h : merge now dst src = .ok (d', evs)) :
    ∀ u ∈ liveL dst.tombs src.root.children, u ∈ uuidsL d'.root.children ∨ tombsContain d'.tombs u = true := by
  unfold merge at h
  dsimp only at h
  obtain ⟨s1, hs1, h⟩ := except_bind_ok h
  have hI1 := mergeRoot_inv now _ s1 src.root hI hs1
  obtain ⟨s2, hs2, h⟩ := except_bind_ok h
  have hI2 := mergePasses_inv now _ _ _ _ s2 hI1 hs2
  have hc2 := mergePasses_creates now dst.tombs src.root _ s1 s2 hI1 hs2
  obtain ⟨x, hx, h⟩ := except_bind_ok h
  obtain ⟨s3, tombs⟩ := x
  dsimp only at h
  injection h with h; injection h with h1 h2
  subst h1
  simp only
  unfold mergeDeletions at hx
  obtain ⟨r, hr, hx⟩ := except_bind_ok hx
  obtain ⟨s4, nt4⟩ := r
  have hd4 := deleteEntries_delOk now src.tombs s2 dst.tombs s4 nt4 hI2 hr
  obtain ⟨_, hinv⟩ := deleteEntries_inv now src.tombs s2 dst.tombs hI2.1 hI2.2
  have hI4 := hinv s4 nt4 hr
  have hd3 := deleteGroups_delOk now _ s4 nt4 _ s3 tombs ⟨hI4.1, hI4.2⟩ hx
  intro u hu
  exact (hd4.trans hd3).1 u (hc2 u hu)

/-- nothing of the destination is lost: a node of the destination is in the result or tombstoned there -/
theorem merge_keeps (now : Int) (dst src d' : Db) (evs : List Event) (hI : Inv dst.root)
    (h : merge now dst src = .ok (d', evs)) :
    ∀ u ∈ uuidsL dst.root.children, u ∈ uuidsL d'.root.children ∨ tombsContain d'.tombs u = true := by
  unfold merge at h
  dsimp only at h
  obtain ⟨s1, hs1, h⟩ := except_bind_ok h
  have hI1 := mergeRoot_inv now _ s1 src.root hI hs1
  have hc1 := mergeRoot_children now _ s1 src.root hs1
  obtain ⟨s2, hs2, h⟩ := except_bind_ok h
  have hI2 := mergePasses_inv now _ _ _ _ s2 hI1 hs2
  have hl2 := mergePasses_le now dst.tombs src.root _ s1 s2 hI1 hs2
  obtain ⟨x, hx, h⟩ := except_bind_ok h
  obtain ⟨s3, tombs⟩ := x
  dsimp only at h
  injection h with h; injection h with h1 h2
  subst h1
  simp only
  unfold mergeDeletions at hx
  obtain ⟨r, hr, hx⟩ := except_bind_ok hx
  obtain ⟨s4, nt4⟩ := r
  have hd4 := deleteEntries_delOk now src.tombs s2 dst.tombs s4 nt4 hI2 hr
  obtain ⟨_, hinv⟩ := deleteEntries_inv now src.tombs s2 dst.tombs hI2.1 hI2.2
  have hI4 := hinv s4 nt4 hr
  have hd3 := deleteGroups_delOk now _ s4 nt4 _ s3 tombs ⟨hI4.1, hI4.2⟩ hx
  intro u hu
  exact (hd4.trans hd3).1 u (hl2 u (by rw [hc1]; exact hu))

end Kp.Merge
