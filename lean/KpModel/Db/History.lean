/-
Model of `Entry::update_history`, `Entry::has_uncommitted_changes`, `History::add_entry`
(`src/db/entry.rs`).  Property C17.

`content` is an opaque token for every field of an entry other than `times` and `history` (uuid, fields,
auto-type, tags, custom data, icons, colours, override URL, quality check): the code compares exactly
that part (both sides get `Times::default()` and `history = None` before `==`).
`mtime` is `times["LastModificationTime"]`; `otimes` is an opaque token for the rest of `times`.
-/
namespace Kp.Hist

inductive Entry where
  | mk (content : Nat) (mtime : Option Int) (otimes : Nat) (history : Option (List Entry)) : Entry
  deriving Repr, Inhabited

namespace Entry
def content : Entry → Nat | mk c _ _ _ => c
def mtime : Entry → Option Int | mk _ m _ _ => m
def otimes : Entry → Nat | mk _ _ o _ => o
def history : Entry → Option (List Entry) | mk _ _ _ h => h
def setContent (c : Nat) : Entry → Entry | mk _ m o h => mk c m o h
def setMtime (m : Option Int) : Entry → Entry | mk c _ o h => mk c m o h
def setOtimes (o : Nat) : Entry → Entry | mk c m _ h => mk c m o h
def setHistory (h : Option (List Entry)) : Entry → Entry | mk c m o _ => mk c m o h
/-- `entry.history.take()` — the value that is pushed into a history -/
def strip (e : Entry) : Entry := e.setHistory none
end Entry

open Entry

/-- `Entry::has_uncommitted_changes` -/
def hasUncommitted (e : Entry) : Bool :=
  match e.history with
  | none => true
  | some [] => true
  | some (h0 :: _) => !(e.content == h0.content)

/-- `History::add_entry`: strip a nested history, insert at the front -/
def addEntry (h : List Entry) (e : Entry) : List Entry := e.strip :: h

/-- `Entry::update_history` with the clock reading `now` (whole seconds); returns the new entry and the
    boolean result -/
def updateHistory (now : Int) (e : Entry) : Entry × Bool :=
  let e1 := if e.history.isNone then e.setHistory (some []) else e
  if !hasUncommitted e1 then (e1, false)
  else
    let e2 := e1.setMtime (some now)
    let item := e2.strip
    (e2.setHistory (some (addEntry (e2.history.getD []) item)), true)

/-- the operations a user of the public API applies to an entry -/
inductive Op where
  | setContent (c : Nat)            -- any edit of fields / tags / colours / auto-type / custom data / icons
  | setOtimes (o : Nat)             -- any edit of time stamps other than the modification time
  | setMtime (m : Option Int)       -- direct edit of the modification time stamp
  | commit (now : Int)              -- `update_history()`
  | initHistory                     -- `history = Some(History::default())` when absent
  | addExternal (e : Entry)         -- `history.add_entry(e)` with an externally built entry (may carry a history)
  deriving Repr

def step (e : Entry) : Op → Entry × Option Bool
  | .setContent c => (e.setContent c, none)
  | .setOtimes o => (e.setOtimes o, none)
  | .setMtime m => (e.setMtime m, none)
  | .commit now => let r := updateHistory now e; (r.1, some r.2)
  | .initHistory => (if e.history.isNone then e.setHistory (some []) else e, none)
  | .addExternal x =>
    match e.history with
    | none => (e, none)
    | some h => (e.setHistory (some (addEntry h x)), none)

def run (e : Entry) (ops : List Op) : Entry := ops.foldl (fun s o => (step s o).1) e

def histList (e : Entry) : List Entry := e.history.getD []

/-- no history item carries a history of its own -/
def NoNest (e : Entry) : Prop := ∀ i ∈ histList e, i.history = none

end Kp.Hist
