import KpModel.Basic
/-
Model of `Database::merge` (`src/db/mod.rs`: `merge`, `merge_group`, `merge_deletions`, `relocate_node`,
`find_node_location`), `Group::{find_group*, find_entry*, remove_node, find_node_location, merge_with,
has_diverged_from}` (`src/db/group.rs`) and `Entry::{merge, merge_history, has_diverged_from,
has_uncommitted_changes}`, `History::{merge_with, add_entry}` (`src/db/entry.rs`).  Properties C13–C16.

Opaque tokens: `content` = every field other than uuid, times, history (entries) / uuid, times, children
(groups); `other` = every time stamp other than the modification and location-changed times.
History items are flat (an item never carries a history of its own — C17 shows the API keeps it so).
-/
namespace Kp.Merge

structure Times where
  mtime : Option Int
  loc : Option Int
  other : Nat
  deriving DecidableEq, Repr, Inhabited

structure EData where
  uuid : Nat
  content : Nat
  times : Times
  deriving DecidableEq, Repr, Inhabited

structure Entry where
  d : EData
  history : Option (List EData)
  deriving DecidableEq, Repr, Inhabited

inductive Node where
  | group (uuid : Nat) (content : Nat) (times : Times) (children : List Node) : Node
  | entry (e : Entry) : Node
  deriving Repr, Inhabited

structure Tomb where
  uuid : Nat
  time : Int
  deriving DecidableEq, Repr

inductive EvType where
  | entryCreated | entryDeleted | entryLocationUpdated | entryUpdated
  | groupCreated | groupDeleted | groupLocationUpdated | groupUpdated
  deriving DecidableEq, Repr

abbrev Event := EvType × Nat

inductive MErr where
  | findGroup | findEntry | generic | entryMtimeNotUpdated | groupMtimeNotUpdated | duplicateHistory
  | panicHistoryNoMtime      -- `get_last_modification().unwrap()` in `History::merge_with`
  | panicKindMismatch        -- `find_entry(..).unwrap()` / `find_group(..).unwrap()` on a node of the other kind
  | outOfFuel                -- the deletion work queue did not drain within the fuel (never returned by Rust: it loops)
  deriving DecidableEq, Repr

structure Db where
  root : Node            -- always a group
  tombs : List Tomb
  deriving Repr

namespace Node
def uuid : Node → Nat
  | group u _ _ _ => u
  | entry e => e.d.uuid
def children : Node → List Node
  | group _ _ _ cs => cs
  | entry _ => []
def isGroup : Node → Bool
  | group .. => true
  | entry _ => false
def setChildren (cs : List Node) : Node → Node
  | group u c t _ => group u c t cs
  | entry e => entry e
def times : Node → Times
  | group _ _ t _ => t
  | entry e => e.d.times
def setLoc (ts : Int) : Node → Node
  | group u c t cs => group u c { t with loc := some ts } cs
  | entry e => entry { e with d := { e.d with times := { e.d.times with loc := some ts } } }
end Node
open Node

def tombsContain (ts : List Tomb) (u : Nat) : Bool := ts.any (·.uuid == u)

/-! ### lookups by UUID path (first match per level) -/

/-- `Group::get_by_uuid(path)`: the node designated by a UUID path below `g` -/
def getPath : Node → List Nat → Option Node
  | g, [] => some g
  | g, [u] => g.children.find? (·.uuid == u)
  | g, u :: rest@(_ :: _) =>
    match g.children.find? (fun n => n.isGroup && n.uuid == u) with
    | none => none
    | some c => getPath c rest

/-- `find_group` -/
def findGroup (root : Node) (path : List Nat) : Option Node :=
  match getPath root path with
  | some n => if n.isGroup then some n else none
  | none => none

/-- `find_entry` -/
def findEntry (root : Node) (path : List Nat) : Option Entry :=
  match getPath root path with
  | some (.entry e) => some e
  | _ => none

/-- replace the first child satisfying `p` by `f child` -/
def updFirst (p : Node → Bool) (f : Node → Node) : List Node → List Node
  | [] => []
  | c :: cs => if p c then f c :: cs else c :: updFirst p f cs

/-- functional counterpart of a `&mut` obtained through `get_by_uuid_mut(path)`: apply `f` to the node the
    path designates (the caller checks beforehand that the path resolves) -/
def updatePath : Node → List Nat → (Node → Node) → Node
  | g, [], f => f g
  | g, [u], f => g.setChildren (updFirst (·.uuid == u) f g.children)
  | g, u :: rest@(_ :: _), f =>
    g.setChildren (updFirst (fun n => n.isGroup && n.uuid == u) (fun c => updatePath c rest f) g.children)

mutual
  /-- `Group::find_node_location(id)`: path of group UUIDs from this group (inclusive) to the parent of
      the first node (depth-first) with that UUID -/
  def findLocG : Node → Nat → Option (List Nat)
    | group u _ _ cs, id => (findLocL cs id).map (u :: ·)
    | entry _, _ => none
  /-- search a child list: a direct hit gives `[]` -/
  def findLocL : List Node → Nat → Option (List Nat)
    | [], _ => none
    | c :: cs, id =>
      if c.uuid == id then some []
      else
        match c with
        | group .. =>
          match findLocG c id with
          | some l => some l
          | none => findLocL cs id
        | entry _ => findLocL cs id
end

/-- `Database::find_node_location`: the root's own UUID is not part of the path -/
def findLoc (root : Node) (id : Nat) : Option (List Nat) := findLocL root.children id

/-- `Group::remove_node`: removes every child with that UUID, returns the last one removed -/
def removeNode (g : Node) (u : Nat) : Option (Node × Node) :=
  match (g.children.filter (·.uuid == u)).getLast? with
  | none => none
  | some last => some (g.setChildren (g.children.filter (fun c => !(c.uuid == u))), last)

/-! ### entries -/

/-- `Entry::has_diverged_from`: everything but `times` -/
def entryDiverged (a b : Entry) : Bool :=
  !(a.d.uuid == b.d.uuid && a.d.content == b.d.content
    && (match a.history, b.history with
        | none, none => true
        | some x, some y => x == y
        | _, _ => false))

/-- `has_diverged_from` between two history items (no histories of their own) -/
def itemDiverged (a b : EData) : Bool := !(a.uuid == b.uuid && a.content == b.content)

/-- `Entry::has_uncommitted_changes` -/
def hasUncommitted (e : Entry) : Bool :=
  match e.history with
  | none => true
  | some [] => true
  | some (h0 :: _) => !(e.d.uuid == h0.uuid && e.d.content == h0.content)

/-- insert `x` into a list sorted by descending `mtime` keys (all present), before the first smaller key -/
def insertDesc (x : EData) (k : Int) : List (Int × EData) → List (Int × EData)
  | [] => [(k, x)]
  | (k', y) :: rest => if k' < k then (k, x) :: (k', y) :: rest else (k', y) :: insertDesc x k rest

abbrev AL := List (Int × EData)

/-- first loop of `History::merge_with`: the destination's items go into the map; duplicate times are an
    error, a missing time a panic -/
def phase1 (dst : List EData) (acc : AL) : Except MErr AL :=
  dst.foldlM (fun (acc : AL) (h : EData) =>
    match h.times.mtime with
    | none => .error MErr.panicHistoryNoMtime
    | some t => if acc.any (·.1 == t) then .error MErr.duplicateHistory else .ok (insertDesc h t acc)) acc

/-- second loop: source items are ignored when their time already exists -/
def phase2 (src : List EData) (acc : AL) : Except MErr AL :=
  src.foldlM (fun (acc : AL) (h : EData) =>
    match h.times.mtime with
    | none => .error MErr.panicHistoryNoMtime
    | some t => if acc.any (·.1 == t) then .ok acc else .ok (insertDesc h t acc)) acc

/-- `History::merge_with(self = dst, other = src)`; the map is kept as a list sorted by descending time -/
def historyMerge (dst src : List EData) : Except MErr (List EData) :=
  match phase1 dst [] with
  | .error e => .error e
  | .ok m =>
    match phase2 src m with
    | .error e => .error e
    | .ok m' => .ok (m'.map (·.2))

/-- the items the losing side contributes: its history, preceded by its current version when that is not
    committed yet -/
def srcItems (l : Entry) : List EData :=
  if hasUncommitted l then l.d :: l.history.getD [] else l.history.getD []

/-- `Entry::merge_history(self = w, other = l)` -/
def mergeHistory (w l : Entry) : Except MErr Entry :=
  match historyMerge (w.history.getD []) (srcItems l) with
  | .error e => .error e
  | .ok h => .ok { w with history := some h }

def Entry.setLoc (e : Entry) (l : Int) : Entry :=
  { e with d := { e.d with times := { e.d.times with loc := some l } } }

/-- "the location changed timestamp is handled separately": the destination's location time is kept -/
def keepLoc (dst m : Entry) : Entry :=
  match dst.d.times.loc with
  | some l => m.setLoc l
  | none => m

/-- `Entry::merge(self = dst, other = src)`; `now` stands in for a missing destination time stamp,
    the epoch for a missing source one.  `none` = nothing to do. -/
def entryMerge (now : Int) (dst src : Entry) : Except MErr (Option Entry) :=
  let sm := src.d.times.mtime.getD 0
  let dm := dst.d.times.mtime.getD now
  if dm == sm then
    if !(entryDiverged dst src) then .error .entryMtimeNotUpdated else .ok none
  else
    match (if dm > sm then mergeHistory dst src else mergeHistory src dst) with
    | .error e => .error e
    | .ok merged => .ok (some (keepLoc dst merged))

/-- what `merge_group` does with an entry present on both sides, as a pure function: nothing when the two
    are equal up to time stamps, nothing when `Entry::merge` has nothing to do or changes nothing,
    otherwise the replacement -/
def entryUpdate (now : Int) (existing src : Entry) : Except MErr (Option Entry) :=
  if !(entryDiverged existing src) then .ok none
  else
    match entryMerge now existing src with
    | .error e => .error e
    | .ok none => .ok none
    | .ok (some merged) => if existing == merged then .ok none else .ok (some merged)

/-! ### groups -/

/-- `Group::merge_with(self = dst, other = src)` on the group's own data; returns the new
    (content, times) and whether a `GroupUpdated` event is logged -/
def groupMergeData (now : Int) (du : Nat) (dc : Nat) (dt : Times) (su : Nat) (sc : Nat) (st : Times) :
    Except MErr (Nat × Times × Bool) :=
  let sm := st.mtime.getD 0
  let dm := dt.mtime.getD now
  if dm == sm then
    -- `has_diverged_from`: everything but times and children
    if !(du == su && dc == sc) then .error .groupMtimeNotUpdated else .ok (dc, dt, false)
  else if dm > sm then .ok (dc, dt, false)
  else .ok (sc, { st with loc := match dt.loc with | some l => some l | none => st.loc }, true)

/-! ### the database-level merge -/

/-- mutable state of a merge: the destination tree and the event log.  The destination's tombstone list is
    not part of it: `merge_group` only reads it, `merge_deletions` rebuilds it at the very end. -/
structure St where
  root : Node
  events : List Event
  deriving Repr

def St.ev (s : St) (t : EvType) (u : Nat) : St := { s with events := s.events ++ [(t, u)] }

/-- `relocate_node(uuid, from, to, ts)` -/
def relocate (s : St) (u : Nat) (fromP toP : List Nat) (ts : Int) : Except MErr St :=
  match findGroup s.root fromP with
  | none => .error .findGroup
  | some g =>
    match removeNode g u with
    | none => .error .generic
    | some (g', node) =>
      let root1 := updatePath s.root fromP (fun _ => g')
      match findGroup root1 toP with
      | none => .error .findGroup
      | some _ =>
        .ok { s with root := updatePath root1 toP (fun t => t.setChildren (t.children ++ [node.setLoc ts])) }

/-- the entry loop body of `merge_group` for one source entry -/
def mergeEntryStep (now : Int) (tombs : List Tomb) (s : St) (path : List Nat) (inDeleted : Bool) (oe : Entry) : Except MErr St :=
  match findLoc s.root oe.d.uuid with
  | some dloc =>
    match findEntry s.root (dloc ++ [oe.d.uuid]) with
    | none => .error .panicKindMismatch
    | some existing0 => do
      -- possibly relocate
      let (s, eloc, existing) ←
        if path.getLast? != dloc.getLast? && !inDeleted then
          let sl := oe.d.times.loc.getD 0
          let dl := existing0.d.times.loc.getD now
          if sl > dl then do
            let s := s.ev .entryLocationUpdated oe.d.uuid
            let s ← relocate s oe.d.uuid dloc path sl
            pure (s, path ++ [oe.d.uuid], existing0.setLoc sl)
          else pure (s, dloc ++ [oe.d.uuid], existing0)
        else pure (s, dloc ++ [oe.d.uuid], existing0)
      match ← entryUpdate now existing oe with
      | none => pure s
      | some merged =>
        match findEntry s.root eloc with
        | none => .error .findEntry
        | some _ =>
          pure ({ s with root := updatePath s.root eloc (fun _ => Node.entry merged) }.ev .entryUpdated merged.d.uuid)
  | none =>
    if tombsContain tombs oe.d.uuid then pure s
    else if inDeleted then pure s
    else
      match findGroup s.root path with
      | none => .error .findGroup
      | some _ =>
        pure ({ s with root := updatePath s.root path (fun g => g.setChildren (g.children ++ [Node.entry oe])) }.ev
                .entryCreated oe.d.uuid)

/-- where the destination keeps the group a path designates by its last element, now: a nested `merge_group` may have moved a
    group above it (repair of F19: `merge_group` looks the current group's place up again before each child group) -/
def refreshPath (root : Node) (path : List Nat) : List Nat :=
  match path.getLast? with
  | none => path
  | some cur =>
    match findLoc root cur with
    | some d => d ++ [cur]
    | none => path

mutual
  /-- `merge_group(path, g, inDeleted)`.  After the repair of F2 the path used for lookups in the
      destination is the destination's own location of the group whenever the group exists there. -/
  def mergeGroup (now : Int) (tombs : List Tomb) (s : St) (path : List Nat) (g : Node) (inDeleted : Bool) :
      Except MErr St :=
    match g with
    | .entry _ => .ok s
    | .group gu gc gt cs => do
      -- the group itself
      let (s, path) ← match findLoc s.root gu with
        | none => pure (s, path)
        | some dloc =>
          let dpath := dloc ++ [gu]
          match findGroup s.root dpath with
          | none => .error .findGroup
          | some (.group du dc dt _) => do
            let (c', t', upd) ← groupMergeData now du dc dt gu gc gt
            let root' := updatePath s.root dpath (fun n => match n with
              | .group u _ _ ch => .group u c' t' ch
              | e => e)
            let s := { s with root := root' }
            pure (if upd then s.ev .groupUpdated du else s, dpath)
          | some (.entry _) => .error .findGroup
      -- entries first, then sub-groups
      let s ← mergeEntries now tombs s path inDeleted cs
      mergeSubgroups now tombs s path inDeleted cs

  def mergeEntries (now : Int) (tombs : List Tomb) (s : St) (path : List Nat) (inDeleted : Bool) :
      List Node → Except MErr St
    | [] => .ok s
    | .entry e :: rest => do
      let s ← mergeEntryStep now tombs s path inDeleted e
      mergeEntries now tombs s path inDeleted rest
    | .group .. :: rest => mergeEntries now tombs s path inDeleted rest

  def mergeSubgroups (now : Int) (tombs : List Tomb) (s : St) (path : List Nat) (inDeleted : Bool) :
      List Node → Except MErr St
    | [] => .ok s
    | .entry _ :: rest => mergeSubgroups now tombs s path inDeleted rest
    | (.group ou oc ot ocs) :: rest => do
      let og := Node.group ou oc ot ocs
      let newLoc := path ++ [ou]
      let s ←
        if tombsContain tombs ou || inDeleted then
          mergeGroup now tombs s newLoc og true
        else
          match findLoc s.root ou with
          | some dloc =>
            if path != dloc then
              match findGroup s.root (dloc ++ [ou]) with
              | none => .error .panicKindMismatch
              | some eg =>
                let el := eg.times.loc.getD now
                let ol := ot.loc.getD 0
                if el < ol && !path.contains ou then do
                  let s ← relocate s ou dloc path ol
                  let s := s.ev .groupLocationUpdated ou
                  mergeGroup now tombs s newLoc og inDeleted
                else mergeGroup now tombs s newLoc og inDeleted
            else mergeGroup now tombs s newLoc og inDeleted
          | none =>
            let s := s.ev .groupCreated ou
            match findGroup s.root path with
            | none => .error .findGroup
            | some _ =>
              let root' := updatePath s.root path (fun p => p.setChildren (p.children ++ [Node.group ou oc ot []]))
              let s := { s with root := root' }
              mergeGroup now tombs s newLoc og inDeleted
      mergeSubgroups now tombs s (refreshPath s.root path) inDeleted rest
end

/-! ### deletions -/

/-- pass 1 of `merge_deletions`: entries -/
def deleteEntries (now : Int) (s : St) (newTombs : List Tomb) : List Tomb → Except MErr (St × List Tomb)
  | [] => .ok (s, newTombs)
  | d :: rest =>
    if tombsContain newTombs d.uuid then deleteEntries now s newTombs rest
    else
      match findLoc s.root d.uuid with
      | none => deleteEntries now s newTombs rest
      | some loc =>
        match findGroup s.root loc with
        | none => .error .findGroup
        | some parent =>
          match findEntry parent [d.uuid] with
          | none => deleteEntries now s newTombs rest
          | some e =>
            if (e.d.times.mtime.getD now) < d.time then
              match removeNode parent d.uuid with
              | none => .error .generic
              | some (parent', _) =>
                deleteEntries now
                  ({ s with root := updatePath s.root loc (fun _ => parent') }.ev .entryDeleted d.uuid)
                  (newTombs ++ [d]) rest
            else deleteEntries now s newTombs rest

/-- pass 2: the work queue over group tombstones (after the repair of F1: a group is re-queued while one
    of its child groups is still *in* the queue) -/
def deleteGroups (now : Int) : Nat → St → List Tomb → List Tomb → Except MErr (St × List Tomb)
  | 0, s, newTombs, queue => if queue.isEmpty then .ok (s, newTombs) else .error .outOfFuel
  | _ + 1, s, newTombs, [] => .ok (s, newTombs)
  | fuel + 1, s, newTombs, d :: queue =>
    if tombsContain newTombs d.uuid then deleteGroups now fuel s newTombs queue
    else
      match findLoc s.root d.uuid with
      | none => deleteGroups now fuel s newTombs queue
      | some loc =>
        match findGroup s.root loc with
        | none => .error .findGroup
        | some parent =>
          match findGroup parent [d.uuid] with
          | none => deleteGroups now fuel s newTombs queue
          | some grp =>
            let entries := grp.children.filter (fun c => !c.isGroup)
            let groups := grp.children.filter (·.isGroup)
            if !entries.isEmpty then deleteGroups now fuel s newTombs queue
            else if groups.any (fun c => queue.any (·.uuid == c.uuid)) then
              deleteGroups now fuel s newTombs (queue ++ [d])
            else if !groups.isEmpty then deleteGroups now fuel s newTombs queue
            else if (grp.times.mtime.getD now) < d.time then
              match removeNode parent d.uuid with
              | none => .error .generic
              | some (parent', _) =>
                deleteGroups now fuel
                  ({ s with root := updatePath s.root loc (fun _ => parent') }.ev .groupDeleted d.uuid)
                  (newTombs ++ [d]) queue
            else deleteGroups now fuel s newTombs queue

/-- a bound that suffices for the repaired queue: every pass over the queue resolves at least one member -/
def deletionFuel (q : List Tomb) : Nat := (q.length + 1) * (q.length + 1) + 1

/-- `merge_deletions` -/
def mergeDeletions (now : Int) (dstTombs : List Tomb) (s : St) (src : Db) : Except MErr (St × List Tomb) := do
  let (s, newTombs) ← deleteEntries now s dstTombs src.tombs
  let queue := src.tombs.filter (fun d => !tombsContain newTombs d.uuid)
  deleteGroups now (deletionFuel queue) s newTombs queue

/-- the root group's own data (after the repair of F3: merged like any other group when the UUIDs agree) -/
def mergeRoot (now : Int) (s : St) (srcRoot : Node) : Except MErr St :=
  match s.root, srcRoot with
  | .group du dc dt ch, .group su sc st _ =>
    if du == su then do
      let (c', t', upd) ← groupMergeData now du dc dt su sc st
      let s := { s with root := .group du c' t' ch }
      pure (if upd then s.ev .groupUpdated du else s)
    else pure s
  | _, _ => pure s

mutual
  /-- number of groups below (and excluding) a node: `other.root.iter()` filtered to groups -/
  def groupCount : Node → Nat
    | .group _ _ _ cs => groupCountL cs
    | .entry _ => 0
  def groupCountL : List Node → Nat
    | [] => 0
    | c :: cs => (if c.isGroup then 1 else 0) + groupCount c + groupCountL cs
end

/-- the repeated pass of `merge` (repair of the idempotence gap found by the thorough tier of C13): `merge_group` over
    the whole source tree is repeated until a pass reports no event, at most (number of source groups + 1) times -/
def mergePasses (now : Int) (tombs : List Tomb) (srcRoot : Node) : Nat → St → Except MErr St
  | 0, s => pure s
  | k + 1, s =>
    match mergeGroup now tombs { s with events := [] } [] srcRoot false with
    | .error e => .error e
    | .ok s' =>
      let s'' := { s' with events := s.events ++ s'.events }
      if s'.events.isEmpty then pure s'' else mergePasses now tombs srcRoot k s''

/-- `Database::merge(self = dst, other = src)` -/
def merge (now : Int) (dst src : Db) : Except MErr (Db × List Event) := do
  let s : St := ⟨dst.root, []⟩
  let s ← mergeRoot now s src.root
  let s ← mergePasses now dst.tombs src.root (groupCount src.root + 1) s
  let (s, tombs) ← mergeDeletions now dst.tombs s src
  pure (⟨s.root, tombs⟩, s.events)

end Kp.Merge
