import KpModel.Db.MergeNoPanic
/-!
# Histories stay newest first, without a time twice

When every entry of both replicas has a history that is strictly descending by modification time, every entry of the merge
result has one: an untouched entry keeps its history, a merged one gets the union `History::merge_with` builds, which is
strictly descending (`historyMerge_spec`).
-/
namespace Kp.Merge
open Node

/-- the history is strictly descending by modification time (newest first, no time twice) -/
def HistSorted (e : Entry) : Prop := SortedDesc (histTimes e)

theorem entryMerge_sorted (now : Int) (ex oe m : Entry) (hm : entryMerge now ex oe = .ok (some m)) : HistSorted m := by
  rcases entryMerge_hist now ex oe m hm with ⟨_, h, hh, hmh⟩ | ⟨_, h, hh, hmh⟩
  · have := (historyMerge_spec _ _ _ hh).1
    unfold HistSorted histTimes; rw [hmh]; exact this
  · have := (historyMerge_spec _ _ _ hh).1
    unfold HistSorted histTimes; rw [hmh]; exact this

theorem sorted_srcOk (now : Int) (oe : Entry) (h : HistSorted oe) : SrcOk' HistSorted now oe :=
  ⟨h, fun ex m _ _ hupd => entryMerge_sorted now ex oe m (entryUpdate_some_merge now ex oe m hupd).1⟩

theorem mergePasses_allE' (P : Entry → Prop) (hP : LocFree P) (now : Int) (tombs : List Tomb) (srcRoot : Node)
    (hS : allE (SrcOk' P now) srcRoot) : ∀ (k : Nat) (s s' : St), Inv s.root → allE P s.root →
      mergePasses now tombs srcRoot k s = .ok s' → allE P s'.root := by
  intro k
  induction k with
  | zero => intro s s' _ hT h; simp only [mergePasses] at h; injection h with h; subst h; exact hT
  | succ k ih =>
    intro s s' hI hT h
    unfold mergePasses at h
    split at h
    · cases h
    · rename_i s1 hs1
      have hI1 : Inv s1.root := mergeGroup_inv now tombs srcRoot { s with events := [] } s1 [] false hI hs1
      have hT1 : allE P s1.root := mergeGroup_allE' P hP now tombs srcRoot { s with events := [] } s1 [] false hS hI hT hs1
      dsimp only at h
      split at h
      · injection h with h; subst h; exact hT1
      · exact ih _ s' (show Inv ({ s1 with events := s.events ++ s1.events } : St).root from hI1)
          (show allE P ({ s1 with events := s.events ++ s1.events } : St).root from hT1) h

/-- a predicate over all entries that updates and creations keep is kept by the whole merge -/
theorem merge_allE (P : Entry → Prop) (hP : LocFree P) (now : Int) (dst src d' : Db) (evs : List Event) (hI : Inv dst.root)
    (hD : allE P dst.root) (hS : allE (SrcOk' P now) src.root) (h : merge now dst src = .ok (d', evs)) : allE P d'.root := by
  unfold merge at h
  dsimp only at h
  obtain ⟨s1, hs1, h⟩ := except_bind_ok h
  have hI1 := mergeRoot_inv now _ s1 src.root hI hs1
  have hT1 := mergeRoot_allE P now _ s1 src.root hI.1 hD hs1
  obtain ⟨s2, hs2, h⟩ := except_bind_ok h
  have hT2 := mergePasses_allE' P hP now dst.tombs src.root hS _ s1 s2 hI1 hT1 hs2
  obtain ⟨x, hx, h⟩ := except_bind_ok h
  obtain ⟨s3, tombs⟩ := x
  dsimp only at h
  injection h with h; injection h with h1 h2
  subst h1
  simp only
  unfold mergeDeletions at hx
  obtain ⟨r, hr4, hx⟩ := except_bind_ok hx
  obtain ⟨s4, nt4⟩ := r
  have hT4 := deleteEntries_allE P now src.tombs s2 dst.tombs s4 nt4 hT2 hr4
  exact deleteGroups_allE P now _ s4 nt4 _ s3 tombs hT4 hx

/-- **histories stay newest first without a time twice** -/
theorem merge_histories_sorted (now : Int) (dst src d' : Db) (evs : List Event) (hI : Inv dst.root)
    (hD : allE HistSorted dst.root) (hS : allE HistSorted src.root) (h : merge now dst src = .ok (d', evs)) :
    allE HistSorted d'.root :=
  merge_allE HistSorted (fun _ _ hx => hx) now dst src d' evs hI hD (allE_mono _ _ (fun e he => sorted_srcOk now e he) _ hS) h
