/-
Model of `src/db/group.rs` (`Group::get`, `get_mut`, `entries`, `groups`) and `src/db/node.rs`
(`NodeIter`, the queue-based breadth-first iterator).  Property C18.

A node is a group (id, name, children) or an entry (id, optional title).  `id` stands for the UUID; the
title of an entry is `Entry::get_title()`, i.e. `None` when the `Title` field is absent, is `Value::Bytes`,
or is a protected value that is not UTF-8.
-/
namespace Kp.Tree

inductive Node where
  | group (id : Nat) (name : String) (children : List Node) : Node
  | entry (id : Nat) (title : Option String) : Node
  deriving Repr, Inhabited

namespace Node

def id : Node → Nat
  | group i _ _ => i
  | entry i _ => i

def children : Node → List Node
  | group _ _ cs => cs
  | entry _ _ => []

def isGroup : Node → Bool
  | group .. => true
  | entry .. => false

/-- `SearchField::Title.matches(node, s)` -/
def titleMatches : Node → String → Bool
  | group _ n _, s => n == s
  | entry _ (some t), s => t == s
  | entry _ none, _ => false

mutual
  /-- number of nodes in the subtree -/
  def size : Node → Nat
    | group _ _ cs => 1 + sizeList cs
    | entry _ _ => 1
  def sizeList : List Node → Nat
    | [] => 0
    | n :: ns => size n + sizeList ns
end

mutual
  /-- depth-first pre-order listing of a subtree (the reference enumeration of "every node") -/
  def preorder : Node → List Node
    | group i n cs => group i n cs :: preorderList cs
    | entry i t => [entry i t]
  def preorderList : List Node → List Node
    | [] => []
    | n :: ns => preorder n ++ preorderList ns
end

mutual
  /-- number of non-empty levels of the subtree -/
  def depth : Node → Nat
    | group _ _ cs => 1 + depthList cs
    | entry _ _ => 1
  def depthList : List Node → Nat
    | [] => 0
    | n :: ns => max (depth n) (depthList ns)
end

end Node

open Node

theorem sizeList_append (a b : List Node) : sizeList (a ++ b) = sizeList a + sizeList b := by
  induction a with
  | nil => simp [sizeList]
  | cons x xs ih => simp [sizeList, ih, Nat.add_assoc]

theorem size_eq (n : Node) : size n = 1 + sizeList n.children := by
  cases n <;> simp [size, children, sizeList]

theorem size_pos (n : Node) : 0 < size n := by
  rw [size_eq]; omega

/-- `NodeIter::next` run to exhaustion: pop the front of the queue, append its children at the back. -/
def bfs : List Node → List Node
  | [] => []
  | n :: q => n :: bfs (q ++ n.children)
termination_by q => sizeList q
decreasing_by
  simp [sizeList, sizeList_append, size_eq n]; omega

/-- `Group::iter` / `IntoIterator for &Group`: the queue starts with the group itself. -/
def iter (g : Node) : List Node := bfs [g]

/-- nodes at depth `d` below (and including, for `d = 0`) the nodes of `q`, in child order -/
def level : Nat → List Node → List Node
  | 0, q => q
  | d + 1, q => level d (q.flatMap children)

/-- level-order listing: level 0, level 1, …, level `n - 1` -/
def levelsUpTo (n : Nat) (q : List Node) : List Node :=
  (List.range n).flatMap (fun d => level d q)

/-! ### `Group::get` / `Group::get_mut`, transcribed separately as in the source -/

/-- `children.iter().find_map(|n| match n { Node::Group(g) if matches(n, head) => Some(g), _ => None })` -/
def findGroup (cs : List Node) (head : String) : Option Node :=
  cs.find? (fun n => n.isGroup && n.titleMatches head)

/-- `Group::get_internal` with `SearchField::Title`.  The receiver is passed as a node (`self`). -/
def get : Node → List String → Option Node
  | self, [] => some self
  | self, [head] => self.children.find? (fun n => n.titleMatches head)
  | self, head :: t@(_ :: _) =>
    match findGroup self.children head with
    | none => none
    | some g => get g t

/-- the closure of the multi-step case of `get_mut_internal`: `node_matches` is computed first, then the
    node kind is inspected -/
def getMutPick (head : String) (n : Node) : Option Node :=
  let nodeMatches := n.titleMatches head
  match n with
  | group .. => if nodeMatches then some n else none
  | entry .. => none

/-- `Group::get_mut_internal`: the single-step case is written with `filter(..).map(..).next()`, the
    multi-step case with `find_map` over `getMutPick`. -/
def getMut : Node → List String → Option Node
  | self, [] => some self
  | self, [head] => (self.children.filter (fun n => n.titleMatches head)).head?
  | self, head :: t@(_ :: _) =>
    match self.children.findSome? (getMutPick head) with
    | none => none
    | some g => getMut g t

/-- `Group::entries` -/
def entries (g : Node) : List Node := g.children.filter (fun n => !n.isGroup)
/-- `Group::groups` -/
def groups (g : Node) : List Node := g.children.filter (fun n => n.isGroup)

end Kp.Tree
