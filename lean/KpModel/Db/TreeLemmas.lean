import KpModel.Db.Tree
/-! Helper lemmas for C18 (kept apart from the property theorems in `Props/C18.lean`). -/
namespace Kp.Tree
open Node

theorem bfs_nil : bfs [] = [] := by rw [bfs]
theorem bfs_cons (n : Node) (q : List Node) : bfs (n :: q) = n :: bfs (q ++ n.children) := by rw [bfs]

theorem bfs_append (a b : List Node) : bfs (a ++ b) = a ++ bfs (b ++ a.flatMap children) := by
  induction a generalizing b with
  | nil => simp
  | cons x xs ih =>
    simp only [List.cons_append, bfs_cons, List.flatMap_cons]
    rw [List.append_assoc, ih]
    simp [List.append_assoc]

theorem bfs_step (q : List Node) : bfs q = q ++ bfs (q.flatMap children) := by
  have := bfs_append q []
  simpa using this

theorem level_succ' (d : Nat) (q : List Node) : level (d + 1) q = (level d q).flatMap children := by
  induction d generalizing q with
  | zero => simp [level]
  | succ d ih => rw [level, ih, level]

theorem levelsUpTo_succ (n : Nat) (q : List Node) :
    levelsUpTo (n + 1) q = levelsUpTo n q ++ level n q := by
  simp [levelsUpTo, List.range_succ]

theorem bfs_levels (n : Nat) (q : List Node) : bfs q = levelsUpTo n q ++ bfs (level n q) := by
  induction n with
  | zero => simp [levelsUpTo, level]
  | succ n ih =>
    rw [levelsUpTo_succ, List.append_assoc, level_succ', ← bfs_step]
    exact ih

theorem depth_eq (n : Node) : depth n = 1 + depthList n.children := by
  cases n <;> simp [depth, children, depthList]

theorem depthList_append (a b : List Node) : depthList (a ++ b) = max (depthList a) (depthList b) := by
  induction a with
  | nil => simp [depthList]
  | cons x xs ih => simp [depthList, ih, Nat.max_assoc]

theorem depthList_flatMap_children (q : List Node) :
    depthList (q.flatMap children) ≤ depthList q - 1 := by
  induction q with
  | nil => simp [depthList]
  | cons x xs ih =>
    simp only [List.flatMap_cons, depthList_append, depthList, depth_eq x]
    omega

theorem depthList_eq_zero {q : List Node} (h : depthList q = 0) : q = [] := by
  cases q with
  | nil => rfl
  | cons x xs => simp [depthList, depth_eq x] at h

theorem level_of_depth_le (d : Nat) (q : List Node) (h : depthList q ≤ d) : level d q = [] := by
  induction d generalizing q with
  | zero => simp [level]; exact depthList_eq_zero (by omega)
  | succ d ih =>
    rw [level]
    apply ih
    have := depthList_flatMap_children q
    omega

theorem preorder_eq (n : Node) : preorder n = n :: preorderList n.children := by
  cases n <;> simp [preorder, children, preorderList]

theorem preorderList_append (a b : List Node) :
    preorderList (a ++ b) = preorderList a ++ preorderList b := by
  induction a with
  | nil => simp [preorderList]
  | cons x xs ih => simp [preorderList, ih, List.append_assoc]

theorem bfs_perm_preorder (q : List Node) : (bfs q).Perm (preorderList q) := by
  fun_induction bfs q with
  | case1 => simp [preorderList]
  | case2 n q ih =>
    rw [preorderList, preorder_eq]
    rw [preorderList_append] at ih
    refine (List.Perm.cons n ih).trans ?_
    simp only [List.cons_append]
    exact List.Perm.cons n List.perm_append_comm

theorem length_preorderList (q : List Node) : (preorderList q).length = sizeList q := by
  have key : ∀ n : Nat, ∀ q : List Node, sizeList q ≤ n → (preorderList q).length = sizeList q := by
    intro n
    induction n with
    | zero =>
      intro q h
      cases q with
      | nil => simp [preorderList, sizeList]
      | cons x xs => have := size_pos x; simp [sizeList] at h; omega
    | succ n ih =>
      intro q h
      cases q with
      | nil => simp [preorderList, sizeList]
      | cons x xs =>
        have hx := size_eq x
        simp only [sizeList] at h
        rw [preorderList, preorder_eq, sizeList]
        simp only [List.length_append, List.length_cons]
        rw [ih x.children (by omega), ih xs (by have := size_pos x; omega), hx]
        omega
  exact key _ q (Nat.le_refl _)

theorem mem_preorder_self (n : Node) : n ∈ preorder n := by
  rw [preorder_eq]; simp

theorem mem_preorderList_of_mem {c : Node} {cs : List Node} (h : c ∈ cs) {r : Node}
    (hr : r ∈ preorder c) : r ∈ preorderList cs := by
  induction cs with
  | nil => cases h
  | cons x xs ih =>
    rw [preorderList, List.mem_append]
    cases h with
    | head => exact Or.inl hr
    | tail _ h' => exact Or.inr (ih h')

theorem mem_preorder_of_child {g c r : Node} (hc : c ∈ g.children) (hr : r ∈ preorder c) :
    r ∈ preorder g := by
  rw [preorder_eq g]
  exact List.mem_cons_of_mem _ (mem_preorderList_of_mem hc hr)

end Kp.Tree
