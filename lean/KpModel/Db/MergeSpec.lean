import KpModel.Db.Merge
/-
Reference semantics of merging, stated on *flattened* replicas (uuid ↦ kind, parent, content, times,
history) — last-writer-wins per node, union of histories, last-mover-wins placement, deletions honoured
when newer.  This is the specification the properties C13–C16 talk about; it shares no code with the
faithful model of `Database::merge` in `Merge.lean`.  The driver evaluates its clauses on the *real*
results of `Database::merge`.
-/
namespace Kp.MergeSpec
open Kp.Merge

structure Row where
  uuid : Nat
  isGroup : Bool
  parent : Nat                  -- uuid of the parent group; the root's parent is itself
  content : Nat
  times : Times
  history : Option (List EData)
  deriving DecidableEq, Repr

mutual
  def flattenNode (parent : Nat) : Node → List Row
    | .group u c t cs => ⟨u, true, parent, c, t, none⟩ :: flattenList u cs
    | .entry e => [⟨e.d.uuid, false, parent, e.d.content, e.d.times, e.history⟩]
  def flattenList (parent : Nat) : List Node → List Row
    | [] => []
    | n :: ns => flattenNode parent n ++ flattenList parent ns
end

def flatten (d : Db) : List Row := flattenNode d.root.uuid d.root

def find (rows : List Row) (u : Nat) : Option Row := rows.find? (·.uuid == u)

/-- ancestors of `u` (nearest first, excluding `u`), by following `parent`; fuel = number of rows -/
def ancestors (rows : List Row) : Nat → Nat → List Nat
  | 0, _ => []
  | fuel + 1, u =>
    match find rows u with
    | none => []
    | some r => if r.parent == u then [] else r.parent :: ancestors rows fuel r.parent

def hasDup : List Nat → Bool
  | [] => false
  | x :: xs => xs.contains x || hasDup xs

/-! ### clause evaluation on (dst, src, result, events) -/

/-- C16: soundness of the resulting tree -/
def c16Clauses (dst src res : Db) : List String :=
  let rd := flatten dst; let rs := flatten src; let rr := flatten res
  let present := fun u => (find rr u).isSome
  let tomb := fun u => tombsContain res.tombs u
  let underDstDeleted := fun (u : Nat) => (ancestors rs rs.length u).any (tombsContain dst.tombs) || tombsContain dst.tombs u
  (if hasDup (rr.map (·.uuid)) then ["unique-uuids"] else [])
  ++ (if rd.all (fun r => present r.uuid || tomb r.uuid) then [] else ["destination-node-lost"])
  ++ (if rs.all (fun r => present r.uuid || tomb r.uuid || underDstDeleted r.uuid) then [] else ["source-node-lost"])

/-- C15: deletions -/
def c15Clauses (dst src res : Db) : List String :=
  let rd := flatten dst; let rr := flatten res
  let present := fun u => (find rr u).isSome
  let prefixOk := res.tombs.take dst.tombs.length == dst.tombs
  let newTombs := res.tombs.drop dst.tombs.length
  let srcNew := src.tombs.filter (fun t => !tombsContain dst.tombs t.uuid)
  (if prefixOk then [] else ["tombstones-not-monotone"])
  ++ (if dst.tombs.all (fun t => !present t.uuid) then [] else ["resurrection"])
  ++ (if rr.all (fun r => !tombsContain res.tombs r.uuid) then [] else ["present-and-tombstoned"])
  ++ (if newTombs.all (fun t => srcNew.contains t) then [] else ["tombstone-not-from-source"])
  ++ srcNew.flatMap (fun t =>
      match find rd t.uuid with
      | none => if newTombs.any (·.uuid == t.uuid) && !(find (flatten src) t.uuid).isSome && false then ["tombstone-for-unknown-node"] else []
      | some r =>
        let newer := (r.times.mtime.getD 0) < t.time
        let gone := !present t.uuid
        let tombed := tombsContain newTombs t.uuid
        if !r.isGroup then
          (if gone == newer && tombed == newer then [] else [if newer then "newer-entry-deletion-not-applied" else "older-entry-deletion-applied"])
        else
          let kids := rr.filter (fun c => c.parent == t.uuid && c.uuid != t.uuid)
          if gone then (if newer && tombed then [] else ["group-deleted-without-newer-tombstone"])
          else (if tombed then ["present-and-tombstoned"]
                else if newer && kids.isEmpty then ["empty-group-with-newer-deletion-kept"] else []))

/-- union of two histories by modification time, newest first; on equal times the first list wins -/
def historyUnion (a b : List EData) : List EData :=
  let ins := fun (acc : List EData) (h : EData) =>
    if acc.any (fun x => x.times.mtime == h.times.mtime) then acc else acc ++ [h]
  let all := (a ++ b).foldl ins []
  -- insertion sort, descending by mtime
  all.foldl (fun sorted h =>
    let (hi, lo) := sorted.partition (fun x => (x.times.mtime.getD 0) > (h.times.mtime.getD 0))
    hi ++ [h] ++ lo) []

/-- C14: what a surviving node must look like.  `none` = the reference makes no demand. -/
def c14Clauses (dst src res : Db) : List String :=
  let rd := flatten dst; let rs := flatten src; let rr := flatten res
  let srcDeletedUnderDst := fun (u : Nat) =>
    tombsContain dst.tombs u || (ancestors rs rs.length u).any (tombsContain dst.tombs)
  rr.flatMap fun r =>
    match find rd r.uuid, find rs r.uuid with
    | some d, some s =>
      let dm := d.times.mtime.getD 0; let sm := s.times.mtime.getD 0
      let w := if sm > dm then s else d
      let isRoot := d.parent == d.uuid
      -- the two sides hold the same version of an entry under two time stamps (equal fields, equal history): a case of its own
      let sameVersion := !r.isGroup && d.content == s.content && d.history == s.history
      let sfx := if sameVersion then ":same-fields-and-history-different-time" else ""
      -- newest version wins
      (if r.content == w.content && r.times.mtime == w.times.mtime then [] else
          [if r.isGroup then "group-not-newest-version" else "entry-not-newest-version" ++ sfx])
      -- … with the rest of its time data (expiry flag and date, usage count, creation and access times)
      ++ (if r.times.other == w.times.other then [] else
          [if r.isGroup then "group-expiry-or-usage-not-from-newest-version" else "entry-expiry-or-usage-not-from-newest-version" ++ sfx])
      -- placement (entries; C14 makes no demand on where a group present on both sides ends up): last mover
      -- wins unless the source's place lies under a group the destination deleted
      ++ (if isRoot || r.isGroup then [] else
          let dl := d.times.loc.getD 0; let sl := s.times.loc.getD 0
          let moved := sl > dl && s.parent != d.parent && !srcDeletedUnderDst s.uuid
          let wantParent := if moved then s.parent else d.parent
          if r.parent == wantParent then [] else ["entry-misplaced"])
      -- history: every version of both sides once, newest first, incl. the loser's current version
      ++ (if r.isGroup then [] else
          if dm == sm then [] else
          let dh := d.history.getD []; let sh := s.history.getD []
          let l := if sm > dm then d else s          -- the losing side
          let lh := if sm > dm then dh else sh
          let loserCur : List EData :=
            match lh with
            | h0 :: _ => if h0.content == l.content && h0.uuid == l.uuid then [] else [⟨l.uuid, l.content, l.times⟩]
            | [] => [⟨l.uuid, l.content, l.times⟩]
          let want := if sm > dm then historyUnion sh (loserCur ++ dh) else historyUnion dh (loserCur ++ sh)
          let got := r.history.getD []
          if got.map (·.times.mtime) == want.map (·.times.mtime) && got.map (·.content) == want.map (·.content)
          then [] else ["history-not-union-newest-first" ++ sfx])
    | none, some s =>
      -- created from the source: same parent, same data
      (if r.parent == s.parent || s.parent == s.uuid then [] else ["created-under-wrong-parent"])
      ++ (if r.content == s.content && r.times == s.times && r.history == s.history then [] else ["created-with-wrong-data"])
    | some d, none =>
      (if r.content == d.content && r.times == d.times && r.history == d.history && (r.parent == d.parent) then []
       else ["destination-only-node-changed"])
    | none, none => ["node-from-nowhere"]

/-- C14: source-only nodes must be created unless the destination deleted them or an ancestor -/
def c14Created (dst src res : Db) : List String :=
  let rd := flatten dst; let rs := flatten src; let rr := flatten res
  rs.flatMap fun s =>
    if (find rd s.uuid).isSome then []
    else
      let blocked := tombsContain dst.tombs s.uuid || (ancestors rs rs.length s.uuid).any (tombsContain dst.tombs)
      let present := (find rr s.uuid).isSome
      if blocked then (if present then ["created-under-deleted-group"] else [])
      else if present || tombsContain res.tombs s.uuid then [] else ["source-only-node-not-created"]

end Kp.MergeSpec
